import itertools, warnings, logging
warnings.filterwarnings("ignore"); logging.disable(logging.CRITICAL)
import pandapipes as pp
def build(pn, t0, md, d):
    net = pp.create_empty_network(fluid="water")
    j = [pp.create_junction(net, pn_bar=pn, tfluid_k=t0) for _ in range(5)]
    pp.create_ext_grid(net, j[0], p_bar=5, t_k=350, type="pt")
    pp.create_pipe_from_parameters(net, j[0], j[1], 0.5, d, k_mm=0.1, u_w_per_m2k=2.0, text_k=283.15, sections=3)
    pp.create_pipe_from_parameters(net, j[1], j[2], 0.5, d, k_mm=0.1, u_w_per_m2k=2.0, text_k=283.15)
    pp.create_sink(net, j[2], md)
    pp.create_ext_grid(net, j[3], p_bar=5, type="p")
    pp.create_pipe_from_parameters(net, j[3], j[4], 0.5, d, k_mm=0.1, u_w_per_m2k=2.0, text_k=283.15)
    pp.create_sink(net, j[4], md)
    return net
res, worst = {}, 0.0
for pn, t0, md, d in itertools.product((5.0, 0.2, 60.0), (300., 283.15, 600.), (0.05, 1.0, 8.0), (40., 80.)):
    a, b = build(pn, t0, md, d), build(pn, t0, md, d)
    try:
        pp.pipeflow(a, mode="bidirectional", nonlinear_method="automatic", use_numba=False, iter=60); out = "ok"
    except Exception as e:
        out = type(e).__name__
    res[out] = res.get(out, 0) + 1
    if out == "ok":
        pp.pipeflow(b, mode="bidirectional", nonlinear_method="constant", use_numba=False, iter=60)
        worst = max(worst, float((a.res_junction - b.res_junction).abs().max().max()), float((a.res_pipe - b.res_pipe).abs().max().max()))
print(res, "max |automatic - constant| over results:", worst)
