(* C01 - reported branch flows: row r of a branch table with internal sections gets mdot_from = m of its first
   section and mdot_to = - m of its last section.  Built on the C06 placement model (PP.C06.ModelExtract, tied to
   extract_branch_results_with_internals by C06's correspondence) and its theorem end_node_placement. *)
From Coq Require Import List Arith Lia Bool.
From PP Require Import C01.Model C06.ModelExtract C06.ProofsExtract.
Import ListNotations.

Lemma nth_skipn_add {V} (d : V) : forall a (l : list V) k, nth k (skipn a l) d = nth (a + k) l d.
Proof. induction a; intros l k; simpl; auto. destruct l; simpl; [destruct k; reflexivity|apply IHa]. Qed.

Lemma skipn_skipn' {V} : forall x y (l : list V), skipn x (skipn y l) = skipn (y + x) l.
Proof. intros x y; revert x; induction y; intros x l; simpl; auto. destruct l; simpl; [now destruct x|apply IHy]. Qed.

Lemma expect_rows_nth {V} (d : V) : forall bl (conn : list bool) (vals old : list V) r pp o a,
  nth_error bl r = Some pp -> nth_error old r = Some o ->
  nth_error (expect_rows d bl (skipn a conn) (skipn a vals) old) r =
  Some (if nth (nth r (pos_of_blocks a bl) 0) conn false then nth (nth r (pos_of_blocks a bl) 0) vals d else o).
Proof.
  induction bl as [|p0 bl IH]; intros conn vals old r pp o a Hb Ho; [destruct r; discriminate|].
  destruct old as [|o0 old]; [destruct r; discriminate|].
  destruct r as [|r]; simpl in Hb, Ho.
  - inversion Hb; inversion Ho; subst. simpl. now rewrite !nth_skipn_add.
  - cbn [expect_rows pos_of_blocks nth_error nth]. rewrite !skipn_skipn'. apply (IH conn vals old r pp o); auto.
Qed.

Section Signs.
  Context {A : Type} (zero : A) (opp : A -> A).

  Lemma extract_mdot_signs_lemma (secs : list nat) (conn : list bool) (ms old_from old_to : list A) :
    (forall s, In s secs -> 0 < s) ->
    length conn = fold_right plus 0 secs -> length ms = fold_right plus 0 secs ->
    length old_from = length secs -> length old_to = length secs ->
    exists rows_from rows_to,
      place_ext conn (blocks_mask (first_blocks secs)) (branch_mf_from ms) old_from = Some rows_from /\
      place_ext conn (blocks_mask (last_blocks secs)) (branch_mf_to opp ms) old_to = Some rows_to /\
      forall r s, nth_error secs r = Some s ->
        let first := nth r (pos_of_blocks 0 (first_blocks secs)) 0 in
        let last := nth r (pos_of_blocks 0 (last_blocks secs)) 0 in
        nth_error rows_from r = Some (if nth first conn false then nth first ms zero else nth r old_from zero) /\
        nth_error rows_to r = Some (if nth last conn false then opp (nth last ms zero) else nth r old_to zero).
  Proof.
    intros Hpos Hc Hm Hf Ht.
    destruct (end_node_placement zero secs conn (branch_mf_from ms) old_from Hpos Hc Hm Hf) as [F _].
    assert (Hm' : length (branch_mf_to opp ms) = fold_right plus 0 secs) by (unfold branch_mf_to; now rewrite map_length).
    destruct (end_node_placement (opp zero) secs conn (branch_mf_to opp ms) old_to Hpos Hc Hm' Ht) as [_ T].
    eexists. eexists. split; [exact F|]. split; [exact T|].
    intros r s Hr first last.
    assert (Hr1 : nth_error (first_blocks secs) r = Some (0, s - 1)) by (unfold first_blocks; now rewrite nth_error_map, Hr).
    assert (Hr2 : nth_error (last_blocks secs) r = Some (s - 1, 0)) by (unfold last_blocks; now rewrite nth_error_map, Hr).
    assert (Hlt : r < length secs) by (apply nth_error_Some; congruence).
    assert (O1 : nth_error old_from r = Some (nth r old_from zero)) by (apply nth_error_nth'; lia).
    assert (O2 : nth_error old_to r = Some (nth r old_to zero)) by (apply nth_error_nth'; lia).
    split.
    - pose proof (expect_rows_nth zero (first_blocks secs) conn (branch_mf_from ms) old_from r _ _ 0 Hr1 O1) as E.
      simpl skipn in E. exact E.
    - pose proof (expect_rows_nth (opp zero) (last_blocks secs) conn (branch_mf_to opp ms) old_to r _ _ 0 Hr2 O2) as E.
      simpl skipn in E. rewrite E. unfold branch_mf_to. now rewrite map_nth.
  Qed.
End Signs.
