(* C01 / C03 - case records and checkers of the exact correspondences (definitions only).
   The harness (tools/harness/c01_help.py) writes lists of these records carrying the outputs of
   the real functions; [summary_*] compares them with the model inside Coq. *)
From Coq Require Import ZArith QArith List Bool Arith.
From PP Require Import C01.Model.
Import ListNotations.

(* ------------------------------------------------------------------ build_system_matrix at Z *)
Definition nd (t : ntyp) (load msl dmsl : Z) : @node Z := mkNode t load msl dmsl.
Definition br (fn tn : nat) (dm dp dp1 dmn lvb lvf lvt : Z) (pc : bool) : @branch Z :=
  mkBranch fn tn dm dp dp1 dmn lvb lvf lvt pc.

Record mcase := mkM {
  m_nodes : list (@node Z);
  m_branches : list (@branch Z);
  m_dim : nat;                          (* shape of the real matrix *)
  m_real : list (nat * nat * Z);        (* real matrix, COO with duplicates summed *)
  m_eps : list Z                        (* real load vector *)
}.

Definition ztrips ns bs := trips 0%Z 1%Z Z.opp ns bs.
Definition zeps ns bs := eps 0%Z Z.add Z.sub Z.opp ns bs.
Definition zentry t r c := entry 0%Z Z.add t r c.

Fixpoint real_entry (real : list (nat * nat * Z)) (r c : nat) : Z :=
  match real with
  | [] => 0%Z
  | (r', c', v) :: rest => if Nat.eqb r' r && Nat.eqb c' c then v else real_entry rest r c
  end.

Fixpoint zlist_eqb (a b : list Z) : bool :=
  match a, b with
  | [], [] => true
  | x :: a', y :: b' => Z.eqb x y && zlist_eqb a' b'
  | _, _ => false
  end.

(* dense equality decided sparsely: every real entry equals the model entry there, and at every
   position where the model has a triplet the real matrix holds the model's (summed) value;
   everywhere else both are 0 *)
Definition mcase_ok (c : mcase) : bool :=
  let t := ztrips (m_nodes c) (m_branches c) in
  let N := dim (m_nodes c) (m_branches c) in
  Nat.eqb N (m_dim c) && in_shape N t
  && forallb (fun e => Z.eqb (zentry t (fst (fst e)) (snd (fst e))) (snd e)) (m_real c)
  && forallb (fun e => Z.eqb (zentry t (fst (fst e)) (snd (fst e)))
                             (real_entry (m_real c) (fst (fst e)) (snd (fst e)))) t
  && zlist_eqb (zeps (m_nodes c) (m_branches c)) (m_eps c).

Section Summary.
  Context {C : Type} (ok : C -> bool).
  Fixpoint first_bad (cs : list C) (i : nat) : option nat :=
    match cs with [] => None | c :: r => if ok c then first_bad r (S i) else Some i end.
  Definition summary (cs : list C) : nat * nat * Z :=
    (length cs, length (filter (fun c => negb (ok c)) cs),
     match first_bad cs 0 with Some i => Z.of_nat i | None => (-1)%Z end).
End Summary.

(* ------------------------------------------------------------------ update lines + kernel columns at Q *)
Fixpoint qlist_eqb (a b : list Q) : bool :=
  match a, b with
  | [], [] => true
  | x :: a', y :: b' => Qeq_bool x y && qlist_eqb a' b'
  | _, _ => false
  end.

Record scase := mkS {
  s_alpha : Q; s_n : nat; s_nb : nat;
  s_m_old : list Q; s_p_old : list Q; s_msl_old : list Q;     (* as returned by solve_hydraulics *)
  s_x : list Q;                                               (* scripted solution vector *)
  s_m_new : list Q; s_p_new : list Q; s_msl_new : list Q;
  s_dmn : list Q; s_lvf : list Q; s_lvt : list Q;             (* branch columns at the build call *)
  s_dmsl : list Q                                             (* JAC_DERIV_MSL at the slack nodes *)
}.

Definition scase_ok (c : scase) : bool :=
  let x := fun i => nth i (s_x c) 0%Q in
  qlist_eqb (step_m Qmult Qminus (s_alpha c) (s_n c) (s_m_old c) x) (s_m_new c)
  && qlist_eqb (step_p Qmult Qminus (s_alpha c) (s_p_old c) x) (s_p_new c)
  && qlist_eqb (step_msl Qminus (s_n c + s_nb c) (s_msl_old c) x) (s_msl_new c)
  && Nat.eqb (length (s_m_old c)) (s_nb c) && Nat.eqb (length (s_p_old c)) (s_n c)
  && Nat.eqb (length (s_x c)) (s_n c + s_nb c + length (s_msl_old c))
  && forallb (Qeq_bool 1) (s_dmn c)
  && qlist_eqb (s_lvf c) (s_m_old c) && qlist_eqb (s_lvt c) (s_m_old c)
  && forallb (Qeq_bool (-1)) (s_dmsl c).

(* ------------------------------------------------------------------ ConstFlow.create_pit_node_entries at Z *)
Fixpoint zassoc (l : list (Z * nat)) (dflt : nat) (k : Z) : nat :=
  match l with [] => dflt | (k', v) :: r => if Z.eqb k k' then v else zassoc r dflt k end.

Definition cf (j m s : Z) (ins : bool) : @cf_row Z := mkCf j m s ins.

Record lcase := mkL {
  l_sign : Z;
  l_lookup : list (Z * nat);        (* junction label -> node position (get_lookup(net,"node","index")) *)
  l_rows : list (@cf_row Z);
  l_before : list Z;                (* LOAD column before *)
  l_after : list Z                  (* LOAD column after the real call *)
}.

Definition lcase_ok (c : lcase) : bool :=
  zlist_eqb (constflow_entries 0%Z 1%Z Z.add Z.mul (l_sign c)
               (zassoc (l_lookup c) (length (l_before c))) (l_rows c) (l_before c))
            (l_after c).

(* ------------------------------------------------------------------ set_fixed_node_entries (mode p) at Q *)
Definition fx (j : Z) (v : Q) (valid : bool) : @fx_row Q := mkFx j v valid.
Definition fxn (p : Q) (c : nat) (isP : bool) : @fx_node Q := mkFxn p c isP.

Definition fxn_eqb (a b : @fx_node Q) : bool :=
  Qeq_bool (fx_p a) (fx_p b) && Nat.eqb (fx_cnt a) (fx_cnt b) && Bool.eqb (fx_isP a) (fx_isP b).

Fixpoint fxlist_eqb (a b : list (@fx_node Q)) : bool :=
  match a, b with
  | [], [] => true
  | x :: a', y :: b' => fxn_eqb x y && fxlist_eqb a' b'
  | _, _ => false
  end.

Record fcase := mkF {
  f_lookup : list (Z * nat);
  f_calls : list (list (@fx_row Q));     (* one list per component class, in call order *)
  f_before : list (@fx_node Q);
  f_after : list (@fx_node Q)
}.

Definition q_of_nat (k : nat) : Q := inject_Z (Z.of_nat k).

(* the grouped model [fixed_entries2] (PINIT, count and type columns as lists, the count a scalar like the pit column) *)
Definition fx_to_state (l : list (@fx_node Q)) : @fx_state Q :=
  mkFxs (map (@fx_p Q) l) (map (fun n => q_of_nat (fx_cnt n)) l) (map (@fx_isP Q) l).

Fixpoint blist_eqb (a b : list bool) : bool :=
  match a, b with
  | [], [] => true
  | x :: a', y :: b' => Bool.eqb x y && blist_eqb a' b'
  | _, _ => false
  end.

Definition fcase_ok (c : fcase) : bool :=
  let pos := zassoc (f_lookup c) (length (f_before c)) in
  let st := fold_left (fun st rows => fixed_entries2 0%Q 1%Q Qplus Qmult Qdiv pos rows st) (f_calls c)
                      (fx_to_state (f_before c)) in
  let ex := fx_to_state (f_after c) in
  qlist_eqb (fs_p st) (fs_p ex) && qlist_eqb (fs_cnt st) (fs_cnt ex) && blist_eqb (fs_isP st) (fs_isP ex)
  (* and the record-style model of round 1 agrees as well *)
  && fxlist_eqb
    (fold_left (fun st rows => fixed_entries 0%Q Qplus Qmult Qdiv q_of_nat pos rows st) (f_calls c) (f_before c))
    (f_after c).

(* ------------------------------------------------------------------ result extraction of node elements *)
Definition oq_eqb (a b : option Q) : bool :=
  match a, b with Some x, Some y => Qeq_bool x y | None, None => true | _, _ => false end.
Definition oz_eqb (a b : option Z) : bool :=
  match a, b with Some x, Some y => Z.eqb x y | None, None => true | _, _ => false end.
Fixpoint olist_eqb {X} (e : X -> X -> bool) (a b : list X) : bool :=
  match a, b with
  | [], [] => true
  | x :: a', y :: b' => e x y && olist_eqb e a' b'
  | _, _ => false
  end.

Definition eg (j : Z) (valid ins : bool) : eg_row := mkEg j valid ins.

(* ExtGrid.extract_results: res_ext_grid.mdot_kg_per_s (NaN = None) from MDOTSLACKINIT *)
Record ecase := mkE {
  e_lookup : list (Z * nat);
  e_rows : list eg_row;
  e_msl : list Q;                 (* MDOTSLACKINIT column of the node pit *)
  e_res : list (option Q)         (* real result column after the call (NaN before) *)
}.
Definition ecase_ok (c : ecase) : bool :=
  olist_eqb oq_eqb
    (extgrid_results 0%Q 1%Q Qplus Qdiv (zassoc (e_lookup c) (length (e_msl c))) (e_rows c) (e_msl c)
                     (map (fun _ => None) (e_rows c)))
    (e_res c).

(* ConstFlow.extract_results: res_sink / res_source / res_mass_storage .mdot_kg_per_s *)
Record rcase := mkR {
  r_supplied : list Z;            (* junction labels whose node is active (net._lookups node_active_hydraulics) *)
  r_rows : list (@cf_row Z);
  r_res : list (option Z)
}.
Definition rcase_ok (c : rcase) : bool :=
  olist_eqb oz_eqb
    (constflow_results Z.mul (fun l => existsb (Z.eqb l) (r_supplied c)) (r_rows c) (map (fun _ => None) (r_rows c)))
    (r_res c).

(* ------------------------------------------------------------------ _sum_by_group itself (numpy / numba / sparse fallback) at Z *)
Record gcase := mkG {
  g_rows : list (Z * Z);          (* (label, value) in the given (unsorted, repeated, sparse) order *)
  g_out : list (Z * Z)            (* real output: unique labels with their sums *)
}.
Fixpoint zzlist_eqb (a b : list (Z * Z)) : bool :=
  match a, b with
  | [], [] => true
  | (x, u) :: a', (y, v) :: b' => Z.eqb x y && Z.eqb u v && zzlist_eqb a' b'
  | _, _ => false
  end.
Definition gcase_ok (c : gcase) : bool := zzlist_eqb (sum_by_group Z.add (g_rows c)) (g_out c).
