(* C01 - generated-fact (T-tie) theorems: what the hydraulic kernels and the component hooks write into the columns the
   balance theorems depend on.  Gen/KHyd*.v are regenerated from derivative_toolbox(_numba).py by tools/translate/kernels.py,
   Gen/C01Hooks.v from component_models/*.py by tools/translate/c01_hooks.py on every run. *)
From Coq Require Import Reals String List Bool.
From PP Require Import Kern.RBool Gen.KHydIncompNp Gen.KHydIncompNb Gen.KHydCompNp Gen.KHydCompNb Gen.KBasicRes Gen.C01Hooks.
Import ListNotations.
Open Scope R_scope.

(* both hydraulic kernels, numpy and numba twins: df_dm_nodes = 1, load_vec_nodes_from = load_vec_nodes_to = MDOTINIT
   (the hypothesis [kernel_cols] of C01.balance_after_step etc.), for every input *)

Theorem kernel_node_columns_KHydIncompNp : forall (bp_AREA : R) (bp_D : R) (bp_LAMBDA : R) (bp_LENGTH : R) (bp_LOSS_COEFFICIENT : R) (bp_MDOTINIT : R) (bp_PL : R) (der_lambda : R) (height_difference : R) (p_init_i1_abs : R) (p_init_i_abs : R) (rho : R),
  hyd_incomp_np_df_dm_nodes bp_AREA bp_D bp_LAMBDA bp_LENGTH bp_LOSS_COEFFICIENT bp_MDOTINIT bp_PL der_lambda height_difference p_init_i1_abs p_init_i_abs rho = 1 /\ hyd_incomp_np_load_vec_nodes_from bp_AREA bp_D bp_LAMBDA bp_LENGTH bp_LOSS_COEFFICIENT bp_MDOTINIT bp_PL der_lambda height_difference p_init_i1_abs p_init_i_abs rho = bp_MDOTINIT /\ hyd_incomp_np_load_vec_nodes_to bp_AREA bp_D bp_LAMBDA bp_LENGTH bp_LOSS_COEFFICIENT bp_MDOTINIT bp_PL der_lambda height_difference p_init_i1_abs p_init_i_abs rho = bp_MDOTINIT.
Proof. intros. repeat split; reflexivity. Qed.
Print Assumptions kernel_node_columns_KHydIncompNp.

Theorem kernel_node_columns_KHydIncompNb : forall (bp_AREA : R) (bp_D : R) (bp_LAMBDA : R) (bp_LENGTH : R) (bp_LOSS_COEFFICIENT : R) (bp_MDOTINIT : R) (bp_PL : R) (der_lambda : R) (height_difference : R) (p_init_i1_abs : R) (p_init_i_abs : R) (rho : R),
  hyd_incomp_nb_df_dm_nodes bp_AREA bp_D bp_LAMBDA bp_LENGTH bp_LOSS_COEFFICIENT bp_MDOTINIT bp_PL der_lambda height_difference p_init_i1_abs p_init_i_abs rho = 1 /\ hyd_incomp_nb_load_vec_nodes_from bp_AREA bp_D bp_LAMBDA bp_LENGTH bp_LOSS_COEFFICIENT bp_MDOTINIT bp_PL der_lambda height_difference p_init_i1_abs p_init_i_abs rho = bp_MDOTINIT /\ hyd_incomp_nb_load_vec_nodes_to bp_AREA bp_D bp_LAMBDA bp_LENGTH bp_LOSS_COEFFICIENT bp_MDOTINIT bp_PL der_lambda height_difference p_init_i1_abs p_init_i_abs rho = bp_MDOTINIT.
Proof. intros. repeat split; reflexivity. Qed.
Print Assumptions kernel_node_columns_KHydIncompNb.

Theorem kernel_node_columns_KHydCompNp : forall (bp_AREA : R) (bp_D : R) (bp_LENGTH : R) (bp_LOSS_COEFFICIENT : R) (bp_MDOTINIT : R) (bp_PL : R) (bp_TOUTINIT : R) (comp_fact : R) (der_comp : R) (der_comp1 : R) (der_lambda : R) (height_difference : R) (lambda_ : R) (np_from_TINIT : R) (p_init_i1_abs : R) (p_init_i_abs : R) (rho : R) (rho_n : R),
  hyd_comp_np_df_dm_nodes bp_AREA bp_D bp_LENGTH bp_LOSS_COEFFICIENT bp_MDOTINIT bp_PL bp_TOUTINIT comp_fact der_comp der_comp1 der_lambda height_difference lambda_ np_from_TINIT p_init_i1_abs p_init_i_abs rho rho_n = 1 /\ hyd_comp_np_load_vec_nodes_from bp_AREA bp_D bp_LENGTH bp_LOSS_COEFFICIENT bp_MDOTINIT bp_PL bp_TOUTINIT comp_fact der_comp der_comp1 der_lambda height_difference lambda_ np_from_TINIT p_init_i1_abs p_init_i_abs rho rho_n = bp_MDOTINIT /\ hyd_comp_np_load_vec_nodes_to bp_AREA bp_D bp_LENGTH bp_LOSS_COEFFICIENT bp_MDOTINIT bp_PL bp_TOUTINIT comp_fact der_comp der_comp1 der_lambda height_difference lambda_ np_from_TINIT p_init_i1_abs p_init_i_abs rho rho_n = bp_MDOTINIT.
Proof. intros. repeat split; reflexivity. Qed.
Print Assumptions kernel_node_columns_KHydCompNp.

Theorem kernel_node_columns_KHydCompNb : forall (bp_AREA : R) (bp_D : R) (bp_LENGTH : R) (bp_LOSS_COEFFICIENT : R) (bp_MDOTINIT : R) (bp_PL : R) (bp_TOUTINIT : R) (comp_fact : R) (der_comp : R) (der_comp1 : R) (der_lambda : R) (height_difference : R) (lambda_ : R) (np_from_TINIT : R) (p_init_i1_abs : R) (p_init_i_abs : R) (rho : R) (rho_n : R),
  hyd_comp_nb_df_dm_nodes bp_AREA bp_D bp_LENGTH bp_LOSS_COEFFICIENT bp_MDOTINIT bp_PL bp_TOUTINIT comp_fact der_comp der_comp1 der_lambda height_difference lambda_ np_from_TINIT p_init_i1_abs p_init_i_abs rho rho_n = 1 /\ hyd_comp_nb_load_vec_nodes_from bp_AREA bp_D bp_LENGTH bp_LOSS_COEFFICIENT bp_MDOTINIT bp_PL bp_TOUTINIT comp_fact der_comp der_comp1 der_lambda height_difference lambda_ np_from_TINIT p_init_i1_abs p_init_i_abs rho rho_n = bp_MDOTINIT /\ hyd_comp_nb_load_vec_nodes_to bp_AREA bp_D bp_LENGTH bp_LOSS_COEFFICIENT bp_MDOTINIT bp_PL bp_TOUTINIT comp_fact der_comp der_comp1 der_lambda height_difference lambda_ np_from_TINIT p_init_i1_abs p_init_i_abs rho rho_n = bp_MDOTINIT.
Proof. intros. repeat split; reflexivity. Qed.
Print Assumptions kernel_node_columns_KHydCompNb.


(* get_basic_branch_results (liquids and gases): mf_from = MDOTINIT, mf_to = - MDOTINIT per pit branch *)
Open Scope R_scope.
Theorem basic_results_mdot_basic_liq : forall (bp_AREA : R) (bp_DP_FRICT_LOSS : R) (bp_LAMBDA : R) (bp_LOSS_COEFFICIENT : R) (bp_MDOTINIT : R) (bp_PL : R) (bp_QEXT : R) (bp_RE : R) (bp_TOUTINIT : R) (np_from_PINIT : R) (np_from_TINIT : R) (np_to_PINIT : R) (np_to_TINIT : R) (rho_real : R),
  basic_liq_mf_from bp_AREA bp_DP_FRICT_LOSS bp_LAMBDA bp_LOSS_COEFFICIENT bp_MDOTINIT bp_PL bp_QEXT bp_RE bp_TOUTINIT np_from_PINIT np_from_TINIT np_to_PINIT np_to_TINIT rho_real = bp_MDOTINIT /\ basic_liq_mf_to bp_AREA bp_DP_FRICT_LOSS bp_LAMBDA bp_LOSS_COEFFICIENT bp_MDOTINIT bp_PL bp_QEXT bp_RE bp_TOUTINIT np_from_PINIT np_from_TINIT np_to_PINIT np_to_TINIT rho_real = - bp_MDOTINIT.
Proof. intros. split; reflexivity. Qed.
Print Assumptions basic_results_mdot_basic_liq.

Theorem basic_results_mdot_basic_gas : forall (bp_AREA : R) (bp_DP_FRICT_LOSS : R) (bp_LAMBDA : R) (bp_LOSS_COEFFICIENT : R) (bp_MDOTINIT : R) (bp_PL : R) (bp_QEXT : R) (bp_RE : R) (bp_TOUTINIT : R) (fl_density : R -> R) (np_from_PINIT : R) (np_from_TINIT : R) (np_to_PINIT : R) (np_to_TINIT : R),
  basic_gas_mf_from bp_AREA bp_DP_FRICT_LOSS bp_LAMBDA bp_LOSS_COEFFICIENT bp_MDOTINIT bp_PL bp_QEXT bp_RE bp_TOUTINIT fl_density np_from_PINIT np_from_TINIT np_to_PINIT np_to_TINIT = bp_MDOTINIT /\ basic_gas_mf_to bp_AREA bp_DP_FRICT_LOSS bp_LAMBDA bp_LOSS_COEFFICIENT bp_MDOTINIT bp_PL bp_QEXT bp_RE bp_TOUTINIT fl_density np_from_PINIT np_from_TINIT np_to_PINIT np_to_TINIT = - bp_MDOTINIT.
Proof. intros. split; reflexivity. Qed.
Print Assumptions basic_results_mdot_basic_gas.

Open Scope string_scope.
Definition writers (col meth : string) : list string :=
  map (fun r => fst (fst (fst r))) (filter (fun r => String.eqb (snd r) col && String.eqb (snd (fst (fst r))) meth) hook_writes).
Definition BEFORE := "adaption_before_derivatives_hydraulic".
Definition AFTER := "adaption_after_derivatives_hydraulic".
Definition CREATE := "create_pit_node_entries".

(* C01.6 hooks_preserve_node_columns: no hook writes the node-equation columns; MDOTINIT is written inside hooks by
   HeatConsumer only (QE modes: the named partial case); the slack mass is reset by CirculationPump after the kernels and
   by nobody else; JAC_DERIV_MSL is written at pit creation by ExtGrid and CirculationPump only; LOAD by Junction (reset)
   and ConstFlow (aggregation) only *)
Theorem hooks_preserve_node_columns :
  (forall col meth, In col ["JAC_DERIV_DM_NODE"; "LOAD_VEC_NODES_FROM"; "LOAD_VEC_NODES_TO"] ->
                    In meth [BEFORE; AFTER; CREATE] -> writers col meth = [])
  /\ writers "MDOTINIT" BEFORE = ["HeatConsumer"] /\ writers "MDOTINIT" AFTER = ["HeatConsumer"]
  /\ writers "MDOTSLACKINIT" BEFORE = [] /\ writers "MDOTSLACKINIT" AFTER = ["CirculationPump"]
  /\ writers "MDOTSLACKINIT" CREATE = []
  /\ writers "JAC_DERIV_MSL" BEFORE = [] /\ writers "JAC_DERIV_MSL" AFTER = []
  /\ writers "JAC_DERIV_MSL" CREATE = ["CirculationPump"; "ExtGrid"]
  /\ writers "LOAD" BEFORE = [] /\ writers "LOAD" AFTER = [] /\ writers "LOAD" CREATE = ["ConstFlow"; "Junction"].
Proof.
  split.
  - intros col meth Hc Hm. simpl in Hc, Hm.
    repeat (destruct Hc as [<-|Hc]; [repeat (destruct Hm as [<-|Hm]; [vm_compute; reflexivity|]); destruct Hm|]). destruct Hc.
  - vm_compute. repeat split; reflexivity.
Qed.
Print Assumptions hooks_preserve_node_columns.

(* C03: the rows the fixed-pressure / identity-row theorems assume are written by exactly these hooks *)
Theorem hooks_write_prescribed_rows :
  writers "JAC_DERIV_DM" AFTER = ["CirculationPumpMass"; "FlowControlComponent"; "HeatConsumer"; "PressureControlComponent"]
  /\ writers "LOAD_VEC_BRANCHES" AFTER = ["CirculationPumpMass"; "FlowControlComponent"; "HeatConsumer"]
  /\ writers "JAC_DERIV_DP" AFTER = ["CirculationPumpMass"; "CirculationPumpPressure"; "FlowControlComponent"; "HeatConsumer";
                                     "PressureControlComponent"]
  /\ writers "NODE_TYPE" BEFORE = ["PressureControlComponent"] /\ writers "NODE_TYPE" AFTER = []
  /\ writers "PL" BEFORE = ["Compressor"; "Pump"] /\ writers "PL" AFTER = []
  /\ writers "PINIT" BEFORE = [] /\ writers "PINIT" AFTER = [].
Proof. vm_compute. repeat split; reflexivity. Qed.
Print Assumptions hooks_write_prescribed_rows.

(* C03: the hooks that compute the pressure lift.  The compressor lift  p_from_abs * ratio - p_from_abs  is not clamped
   (no maximum / minimum / where / clip / abs call: a ratio below 1 lowers the pressure, the only exception in the source
   is the reverse-flow mask); the pump's volume flow takes its density from get_branch_real_density (liquids: the
   density res_pump.vdot_m3_per_s is reported with) and fluid.get_density (gases: norm density) and from nowhere else *)
Definition calls_of (cls : string) : list string :=
  map snd (filter (fun r => String.eqb (fst r) cls) lift_hook_calls).
Definition is_in (l : list string) (x : string) : bool := existsb (String.eqb x) l.

Theorem lift_hooks_sources :
  filter (is_in ["maximum"; "minimum"; "where"; "clip"; "abs"; "fmax"; "fmin"; "max"; "min"]) (calls_of "Compressor") = []
  /\ filter (is_in ["get_branch_real_density"; "get_density"; "get_branch_density"; "get_at_value"; "get_property"])
            (calls_of "Pump") = ["get_branch_real_density"; "get_density"]
  /\ is_in (calls_of "Pump") "get_pressure" = true.
Proof. vm_compute. repeat split; reflexivity. Qed.
Print Assumptions lift_hooks_sources.
