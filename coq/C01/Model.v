(* C01 / C03 - shared hand-written executable model (H-tie; definitions only, no proofs) of

     pandapipes.pf.build_system_matrix.build_system_matrix   (heat_mode = False)
     the update lines of pandapipes.pipeflow.solve_hydraulics
     ConstFlow.create_pit_node_entries                       (LOAD column)
     component_toolbox.set_fixed_node_entries                (mode "p": PINIT / count / type)

   Generic over a scalar type A with ring operations (DESIGN 2.2): theorems in Proofs.v hold in
   every commutative ring; the correspondence (tools/props/c01.py) runs the same definitions at
   A := Z (matrix, loads) and A := Q (step with dyadic alpha, pressure means) against the real
   functions on real structural pits, compared inside Coq.

   Not modelled: the order of the triplets in the COO arrays (a CSR matrix sums duplicates, the
   order is unobservable), IEEE rounding, NaN.  Indices out of range are totalised (nth default);
   every theorem carries the guard the real code enforces (IndexError otherwise). *)
From Coq Require Import ZArith List Bool Arith Lia.
Import ListNotations.

(* node_pit[:, NODE_TYPE] as far as build_system_matrix inspects it: == P, == PC, anything else *)
Inductive ntyp := TSlack | TPc | TOther.

Definition is_TSlack (t : ntyp) : bool := match t with TSlack => true | _ => false end.
Definition is_TPc (t : ntyp) : bool := match t with TPc => true | _ => false end.

Section Model.
  Context {A : Type} (zero one : A) (add mul sub : A -> A -> A) (opp : A -> A).

  (* the columns of the active node pit that build_system_matrix reads *)
  Record node := mkNode {
    n_typ : ntyp;      (* NODE_TYPE *)
    n_load : A;        (* LOAD *)
    n_msl : A;         (* MDOTSLACKINIT *)
    n_dmsl : A         (* JAC_DERIV_MSL *)
  }.

  (* the columns of the active branch pit that build_system_matrix reads *)
  Record branch := mkBranch {
    b_fn : nat;        (* FROM_NODE *)
    b_tn : nat;        (* TO_NODE *)
    b_dm : A;          (* JAC_DERIV_DM *)
    b_dp : A;          (* JAC_DERIV_DP *)
    b_dp1 : A;         (* JAC_DERIV_DP1 *)
    b_dmn : A;         (* JAC_DERIV_DM_NODE *)
    b_lvb : A;         (* LOAD_VEC_BRANCHES *)
    b_lvf : A;         (* LOAD_VEC_NODES_FROM *)
    b_lvt : A;         (* LOAD_VEC_NODES_TO *)
    b_pc : bool        (* BRANCH_TYPE == PC *)
  }.

  Definition trip := (nat * nat * A)%type.     (* (row, col, value) *)

  Definition typ_of (ns : list node) (i : nat) : ntyp :=
    match nth_error ns i with Some nd => n_typ nd | None => TOther end.
  Definition is_slack (ns : list node) (i : nat) : bool := is_TSlack (typ_of ns i).
  Definition load_of (ns : list node) (i : nat) : A :=
    match nth_error ns i with Some nd => n_load nd | None => zero end.
  Definition msl_of (ns : list node) (i : nat) : A :=
    match nth_error ns i with Some nd => n_msl nd | None => zero end.
  Definition dmsl_of (ns : list node) (i : nat) : A :=
    match nth_error ns i with Some nd => n_dmsl nd | None => zero end.

  (* np.where(mask)[0] *)
  Fixpoint positions {X} (p : X -> bool) (k0 : nat) (l : list X) : list nat :=
    match l with
    | [] => []
    | x :: r => (if p x then [k0] else []) ++ positions p (S k0) r
    end.

  Definition slack_nodes (ns : list node) : list nat := positions (fun nd => is_TSlack (n_typ nd)) 0 ns.
  Definition pc_nodes (ns : list node) : list nat := positions (fun nd => is_TPc (n_typ nd)) 0 ns.
  Definition pc_branches (bs : list branch) : list nat := positions b_pc 0 bs.

  Fixpoint mapi {X Y} (f : nat -> X -> Y) (k0 : nat) (l : list X) : list Y :=
    match l with [] => [] | x :: r => f k0 x :: mapi f (S k0) r end.

  (* ---------------------------------------------------------------- matrix entries *)
  (* branch equations: row n+k has dF/dm at (n+k), dF/dp_from at fn, dF/dp_to at tn *)
  Fixpoint branch_trips (n k0 : nat) (bs : list branch) : list trip :=
    match bs with
    | [] => []
    | b :: r => (n + k0, n + k0, b_dm b) :: (n + k0, b_fn b, b_dp b) :: (n + k0, b_tn b, b_dp1 b)
                :: branch_trips n (S k0) r
    end.

  (* node equations: only for branches whose from (to) node is not a slack node *)
  Fixpoint from_trips (ns : list node) (n k0 : nat) (bs : list branch) : list trip :=
    match bs with
    | [] => []
    | b :: r => (if is_slack ns (b_fn b) then [] else [(b_fn b, n + k0, opp (b_dmn b))])
                ++ from_trips ns n (S k0) r
    end.

  Fixpoint to_trips (ns : list node) (n k0 : nat) (bs : list branch) : list trip :=
    match bs with
    | [] => []
    | b :: r => (if is_slack ns (b_tn b) then [] else [(b_tn b, n + k0, b_dmn b)])
                ++ to_trips ns n (S k0) r
    end.

  (* fixed pressure equations.  The code pairs the k-th PC branch (by pit position) with the
     k-th PC node (by node position): system_rows = pc_matrix_indices, system_cols = pc_nodes
     (numpy raises if the two counts differ; [combine] truncates - guard in the theorems). *)
  Definition pc_trips (ns : list node) (n : nat) (bs : list branch) : list trip :=
    map (fun kc => (n + fst kc, snd kc, one)) (combine (pc_branches bs) (pc_nodes ns)).

  Definition slack_trips (ns : list node) : list trip :=
    map (fun s => (s, s, one)) (slack_nodes ns).

  (* mass flow slack equations: np.where(branch_pit[:, FROM_NODE] == slack_nodes[:, None]) *)
  Fixpoint sfrom_row (row s n k0 : nat) (bs : list branch) : list trip :=
    match bs with
    | [] => []
    | b :: r => (if Nat.eqb (b_fn b) s then [(row, n + k0, opp (b_dmn b))] else [])
                ++ sfrom_row row s n (S k0) r
    end.

  Fixpoint sto_row (row s n k0 : nat) (bs : list branch) : list trip :=
    match bs with
    | [] => []
    | b :: r => (if Nat.eqb (b_tn b) s then [(row, n + k0, b_dmn b)] else [])
                ++ sto_row row s n (S k0) r
    end.

  Fixpoint slackmass_trips (ns : list node) (base j0 : nat) (n : nat) (sl : list nat) (bs : list branch)
    : list trip :=
    match sl with
    | [] => []
    | s :: r => sfrom_row (base + j0) s n 0 bs ++ sto_row (base + j0) s n 0 bs
                ++ [(base + j0, base + j0, dmsl_of ns s)]
                ++ slackmass_trips ns base (S j0) n r bs
    end.

  Definition trips (ns : list node) (bs : list branch) : list trip :=
    let n := length ns in
    branch_trips n 0 bs ++ from_trips ns n 0 bs ++ to_trips ns n 0 bs
    ++ pc_trips ns n bs ++ slack_trips ns
    ++ slackmass_trips ns (n + length bs) 0 n (slack_nodes ns) bs.

  (* ---------------------------------------------------------------- load vector *)
  (* sum over branches into i of gt minus sum over branches out of i of gf (the two
     _sum_by_group calls on fn / tn; parallel branches and self loops included) *)
  Fixpoint nodesum (gf gt : nat -> branch -> A) (i k0 : nat) (bs : list branch) : A :=
    match bs with
    | [] => zero
    | b :: r => add (sub (if Nat.eqb (b_tn b) i then gt k0 b else zero)
                         (if Nat.eqb (b_fn b) i then gf k0 b else zero))
                    (nodesum gf gt i (S k0) r)
    end.

  (* net inflow into node i of a per-branch quantity g (g k = value of the k-th branch) *)
  Definition inflow (g : nat -> A) (i : nat) (bs : list branch) : A :=
    nodesum (fun k _ => g k) (fun k _ => g k) i 0 bs.

  Definition lvf_ (_ : nat) (b : branch) : A := b_lvf b.
  Definition lvt_ (_ : nat) (b : branch) : A := b_lvt b.

  Definition eps_nodes (ns : list node) (bs : list branch) : list A :=
    mapi (fun i nd => if is_TSlack (n_typ nd) then zero
                      else add (opp (n_load nd)) (nodesum lvf_ lvt_ i 0 bs)) 0 ns.

  Definition eps_branches (bs : list branch) : list A :=
    map (fun b => if b_pc b then zero else b_lvb b) bs.

  Definition eps_slack (ns : list node) (bs : list branch) : list A :=
    map (fun s => sub (add (opp (load_of ns s)) (nodesum lvf_ lvt_ s 0 bs)) (msl_of ns s))
        (slack_nodes ns).

  Definition eps (ns : list node) (bs : list branch) : list A :=
    eps_nodes ns bs ++ eps_branches bs ++ eps_slack ns bs.

  Definition dim (ns : list node) (bs : list branch) : nat :=
    length ns + length bs + length (slack_nodes ns).

  (* ---------------------------------------------------------------- linear system semantics *)
  Fixpoint rowsum (t : list trip) (r : nat) (x : nat -> A) : A :=
    match t with
    | [] => zero
    | (r', c, v) :: rest => if Nat.eqb r' r then add (mul v (x c)) (rowsum rest r x) else rowsum rest r x
    end.

  (* x solves J x = eps : every row holds.  Nothing is assumed about how spsolve finds x. *)
  Definition solves (ns : list node) (bs : list branch) (x : nat -> A) : Prop :=
    forall r, r < dim ns bs -> rowsum (trips ns bs) r x = nth r (eps ns bs) zero.

  (* what both hydraulic kernels write into the node-equation columns (df_dm_nodes = 1,
     load_vec_nodes_from = load_vec_nodes_to = MDOTINIT =: m k); no component hook overwrites
     them.  Checked against the running code by the correspondence "solve_hydraulics step". *)
  Definition kernel_cols (bs : list branch) (m : nat -> A) : Prop :=
    forall k b, nth_error bs k = Some b -> b_dmn b = one /\ b_lvf b = m k /\ b_lvt b = m k.

  (* both end nodes of every branch of the active pit are nodes of the active pit (reduce_pit) *)
  Definition ends_in_range (ns : list node) (bs : list branch) : Prop :=
    forall b, In b bs -> b_fn b < length ns /\ b_tn b < length ns.

  (* dense matrix (duplicates summed) for the correspondence *)
  Fixpoint entry (t : list trip) (r c : nat) : A :=
    match t with
    | [] => zero
    | (r', c', v) :: rest =>
        if Nat.eqb r' r && Nat.eqb c' c then add v (entry rest r c) else entry rest r c
    end.

  Definition dense (N : nat) (t : list trip) : list (list A) :=
    map (fun r => map (fun c => entry t r c) (seq 0 N)) (seq 0 N).

  (* every triplet inside the N x N shape (scipy raises otherwise) *)
  Definition in_shape (N : nat) (t : list trip) : bool :=
    forallb (fun tr => Nat.ltb (fst (fst tr)) N && Nat.ltb (snd (fst tr)) N) t.

  (* ---------------------------------------------------------------- update lines of solve_hydraulics *)
  (* branch_pit[:, MDOTINIT] -= x[n : n+nb] * alpha *)
  Definition step_m (alpha : A) (n : nat) (ms : list A) (x : nat -> A) : list A :=
    mapi (fun k m => sub m (mul (x (n + k)) alpha)) 0 ms.
  (* node_pit[:, PINIT] -= x[:n] * alpha *)
  Definition step_p (alpha : A) (ps : list A) (x : nat -> A) : list A :=
    mapi (fun i p => sub p (mul (x i) alpha)) 0 ps.
  (* node_pit[slack_nodes, MDOTSLACKINIT] -= x[n+nb:]     (no alpha) *)
  Definition step_msl (base : nat) (msls : list A) (x : nat -> A) : list A :=
    mapi (fun j s => sub s (x (base + j))) 0 msls.

  Fixpoint sumlist (l : list A) : A := match l with [] => zero | a :: r => add a (sumlist r) end.

  (* ---------------------------------------------------------------- _sum_by_group (all three paths, exact arithmetic) *)
  (* sorted unique labels with the sum of the values carrying that label *)
  Fixpoint group_add (l : Z) (v : A) (g : list (Z * A)) : list (Z * A) :=
    match g with
    | [] => [(l, v)]
    | (l', v') :: r => if Z.eqb l l' then (l', add v' v) :: r
                       else if Z.ltb l l' then (l, v) :: (l', v') :: r
                       else (l', v') :: group_add l v r
    end.

  Definition sum_by_group (rows : list (Z * A)) : list (Z * A) :=
    fold_left (fun g lv => group_add (fst lv) (snd lv) g) rows [].

  (* a[idx] = vals  with a fancy index: sequential writes, last wins; out of range ignored *)
  Fixpoint set_nth (i : nat) (v : A) (l : list A) : list A :=
    match l, i with
    | [], _ => []
    | _ :: r, O => v :: r
    | a :: r, S i' => a :: set_nth i' v r
    end.

  Definition scatter (writes : list (nat * A)) (l : list A) : list A :=
    fold_left (fun acc w => set_nth (fst w) (snd w) acc) writes l.

  (* ---------------------------------------------------------------- ConstFlow.create_pit_node_entries *)
  Record cf_row := mkCf { cf_junction : Z; cf_mdot : A; cf_scaling : A; cf_in_service : bool }.

  (* mass_flow_loads = mdot * (in_service * scaling * sign) *)
  Definition cf_value (sign : A) (r : cf_row) : A :=
    mul (cf_mdot r) (mul (mul (if cf_in_service r then one else zero) (cf_scaling r)) sign).

  (* node_pit[index, LOAD] += loads_sum   ==  node_pit[index, LOAD] = node_pit[index, LOAD] + loads_sum
     (all reads before all writes), index = junction_idx_lookups[juncts] *)
  Definition constflow_entries (sign : A) (pos : Z -> nat) (rows : list cf_row) (loads : list A) : list A :=
    let g := sum_by_group (map (fun r => (cf_junction r, cf_value sign r)) rows) in
    scatter (map (fun ls => (pos (fst ls), add (nth (pos (fst ls)) loads zero) (snd ls))) g) loads.

  (* ---------------------------------------------------------------- set_fixed_node_entries, mode "p" *)
  Variable div : A -> A -> A.
  Variable of_nat : nat -> A.

  Record fx_row := mkFx { fx_junction : Z; fx_value : A; fx_valid : bool (* type in ["p","pt"] *) }.

  (* per-node state (PINIT, EXT_GRID_OCCURENCE as a count, NODE_TYPE == P) *)
  Record fx_node := mkFxn { fx_p : A; fx_cnt : nat; fx_isP : bool }.

  Fixpoint group_add2 (l : Z) (v : A) (g : list (Z * (A * nat))) : list (Z * (A * nat)) :=
    match g with
    | [] => [(l, (v, 1))]
    | (l', (v', c')) :: r => if Z.eqb l l' then (l', (add v' v, S c')) :: r
                       else if Z.ltb l l' then (l, (v, 1)) :: (l', (v', c')) :: r
                       else (l', (v', c')) :: group_add2 l v r
    end.

  Definition sum_by_group2 (rows : list (Z * A)) : list (Z * (A * nat)) :=
    fold_left (fun g lv => group_add2 (fst lv) (snd lv) g) rows [].

  Fixpoint set_nth_fx (i : nat) (v : fx_node) (l : list fx_node) : list fx_node :=
    match l, i with
    | [], _ => []
    | _ :: r, O => v :: r
    | a :: r, S i' => a :: set_nth_fx i' v r
    end.

  Definition fx_default : fx_node := mkFxn zero 0 false.

  (* node_pit[index, val] = (val*count + val_sum) / (number + count); count += number; type = P *)
  Definition fixed_entries (pos : Z -> nat) (rows : list fx_row) (st : list fx_node) : list fx_node :=
    let valid := filter fx_valid rows in
    let g := sum_by_group2 (map (fun r => (fx_junction r, fx_value r)) valid) in
    fold_left (fun acc w => set_nth_fx (fst w) (snd w) acc)
      (map (fun ls => let i := pos (fst ls) in
                      let old := nth i st fx_default in
                      let s := fst (snd ls) in let k := snd (snd ls) in
                      (i, mkFxn (div (add (mul (fx_p old) (of_nat (fx_cnt old))) s) (of_nat (k + fx_cnt old)))
                                (fx_cnt old + k) true)) g) st.

  (* ---------------------------------------------------------------- set_fixed_node_entries, grouped form *)
  (* the same function with the pit columns as the code has them: PINIT, EXT_GRID_OCCURENCE (a float column) and
     the type flag as three lists; juncts, val_sum, number = _sum_by_group(junctions[mask], values[mask], ones) *)
  Fixpoint glookup (l : Z) (g : list (Z * A)) : A :=
    match g with [] => zero | (l', s) :: r => add (if Z.eqb l l' then s else zero) (glookup l r) end.

  Fixpoint set_nth_g {X} (i : nat) (v : X) (l : list X) : list X :=
    match l, i with
    | [], _ => []
    | _ :: r, O => v :: r
    | a :: r, S i' => a :: set_nth_g i' v r
    end.

  Record fx_state := mkFxs { fs_p : list A; fs_cnt : list A; fs_isP : list bool }.

  Definition fx_values (rows : list fx_row) : list (Z * A) :=
    map (fun r => (fx_junction r, fx_value r)) (filter fx_valid rows).
  Definition fx_ones (rows : list fx_row) : list (Z * A) :=
    map (fun r => (fx_junction r, one)) (filter fx_valid rows).

  Definition fixed_entries2 (pos : Z -> nat) (rows : list fx_row) (st : fx_state) : fx_state :=
    let gv := sum_by_group (fx_values rows) in
    let gn := sum_by_group (fx_ones rows) in
    let p := fs_p st in let c := fs_cnt st in
    mkFxs
      (scatter (map (fun ls => let i := pos (fst ls) in
                       (i, div (add (mul (nth i p zero) (nth i c zero)) (snd ls))
                               (add (glookup (fst ls) gn) (nth i c zero)))) gv) p)
      (scatter (map (fun ls => let i := pos (fst ls) in (i, add (nth i c zero) (glookup (fst ls) gn))) gv) c)
      (fold_left (fun acc ls => set_nth_g (pos (fst ls)) true acc) gv (fs_isP st)).

  (* ---------------------------------------------------------------- result extraction (node elements) *)
  (* ConstFlow.extract_results: rows that are in service AND whose junction is supplied report mdot * scaling,
     all other rows keep what init_results wrote (NaN = None) *)
  Definition constflow_results (supplied : Z -> bool) (rows : list cf_row) (old : list (option A)) : list (option A) :=
    map (fun ro => if cf_in_service (fst ro) && supplied (cf_junction (fst ro))
                   then Some (mul (cf_mdot (fst ro)) (cf_scaling (fst ro))) else snd ro) (combine rows old).

  Definition reported_or_zero (r : cf_row) : A :=
    if cf_in_service r then mul (cf_mdot r) (cf_scaling r) else zero.

  (* ExtGrid.extract_results: p_grids = type in (p, pt) & in_service; the slack mass of the node is split evenly
     among the p_grids rows on it (np.unique ... return_counts) *)
  Record eg_row := mkEg { eg_junction : Z; eg_valid : bool; eg_in_service : bool }.
  Definition eg_active (r : eg_row) : bool := eg_valid r && eg_in_service r.
  Definition eg_at (pos : Z -> nat) (i : nat) (rows : list eg_row) : list eg_row :=
    filter (fun r => eg_active r && Nat.eqb (pos (eg_junction r)) i) rows.
  Definition eg_count (pos : Z -> nat) (i : nat) (rows : list eg_row) : A :=
    sumlist (map (fun _ => one) (eg_at pos i rows)).
  Definition eg_value (pos : Z -> nat) (rows : list eg_row) (msl : list A) (r : eg_row) : A :=
    div (nth (pos (eg_junction r)) msl zero) (eg_count pos (pos (eg_junction r)) rows).
  Definition extgrid_results (pos : Z -> nat) (rows : list eg_row) (msl : list A) (old : list (option A))
    : list (option A) :=
    map (fun ro => if eg_active (fst ro) then Some (eg_value pos rows msl (fst ro)) else snd ro) (combine rows old).

  (* get_basic_branch_results: mf_from = MDOTINIT, mf_to = - MDOTINIT per pit branch (placement per element: C06) *)
  Definition branch_mf_from (ms : list A) : list A := ms.
  Definition branch_mf_to (ms : list A) : list A := map opp ms.
End Model.
