(* C01 - proofs about the assembled hydraulic system and the Newton update (generic commutative
   ring; instantiates at Z and R; closed under the global context). *)
From Coq Require Import ZArith List Bool Arith Lia Ring.
From PP Require Import C01.Model.
Import ListNotations.

Section Proofs.
  Context {A : Type} (zero one : A) (add mul sub : A -> A -> A) (opp : A -> A)
          (Rth : ring_theory zero one add mul sub opp eq).
  Add Ring Aring : Rth.

  Notation "0" := zero.
  Notation "1" := one.
  Infix "+" := add.
  Infix "*" := mul.
  Infix "-" := sub.
  Notation "- x" := (opp x).

  Notation node := (@node A).
  Notation branch := (@branch A).
  Notation trip := (@trip A).
  Notation rowsum := (rowsum zero add mul).
  Notation nodesum := (nodesum zero add sub).
  Notation trips := (trips zero one opp).
  Notation eps := (eps zero add sub opp).
  Notation eps_nodes := (eps_nodes zero add sub opp).
  Notation eps_slack := (eps_slack zero add sub opp).
  Notation eps_branches := (eps_branches zero).
  Notation solves := (solves zero one add mul sub opp).
  Notation from_trips := (from_trips opp).
  Notation pc_trips := (pc_trips one).
  Notation slack_trips := (slack_trips one).
  Notation slackmass_trips := (slackmass_trips zero opp).
  Notation sfrom_row := (sfrom_row opp).
  Notation load_of := (load_of zero).
  Notation msl_of := (msl_of zero).
  Notation dmsl_of := (dmsl_of zero).
  Notation sumlist := (sumlist zero add).
  Notation inflow := (inflow zero add sub).
  Notation kernel_cols := (kernel_cols one).
  Notation step_m := (step_m mul sub).
  Notation step_p := (step_p mul sub).
  Notation step_msl := (step_msl sub).
  Notation fx_values := (@fx_values A).

  (* ------------------------------------------------------------------ generic list facts *)
  Lemma mapi_length {X Y} (f : nat -> X -> Y) k0 l : length (mapi f k0 l) = length l.
  Proof. revert k0; induction l; simpl; intros; auto. Qed.

  Lemma mapi_nth_error {X Y} (f : nat -> X -> Y) l : forall k0 i,
    nth_error (mapi f k0 l) i = option_map (f (k0 + i)%nat) (nth_error l i).
  Proof.
    induction l as [|a l IH]; intros k0 i; destruct i; simpl; auto.
    - now rewrite Nat.add_0_r.
    - rewrite IH. now replace (S k0 + i)%nat with (k0 + S i)%nat by lia.
  Qed.

  Lemma nth_of_nth_error (l : list A) i v : nth_error l i = Some v -> nth i l 0 = v.
  Proof. revert i; induction l; destruct i; simpl; intros; try discriminate; auto. now inversion H. Qed.

  Lemma positions_spec {X} (p : X -> bool) l : forall k0 s,
    In s (positions p k0 l) <->
    (k0 <= s)%nat /\ exists x, nth_error l (s - k0) = Some x /\ p x = true.
  Proof.
    induction l as [|a l IH]; intros k0 s; simpl.
    - split; [tauto|]. intros [_ [x [H _]]]. destruct (s - k0)%nat; discriminate.
    - rewrite in_app_iff, IH. split.
      + intros [H|[H1 [x [H2 H3]]]].
        * destruct (p a) eqn:E; simpl in H; [|tauto]. destruct H as [<-|[]].
          split; [lia|]. exists a. now rewrite Nat.sub_diag.
        * split; [lia|]. exists x. replace (s - k0)%nat with (S (s - S k0)) by lia. auto.
      + intros [H1 [x [H2 H3]]]. destruct (Nat.eq_dec s k0) as [->|Hne].
        * left. rewrite Nat.sub_diag in H2. simpl in H2. inversion H2; subst. rewrite H3. now left.
        * right. split; [lia|]. exists x. replace (s - k0)%nat with (S (s - S k0)) in H2 by lia. auto.
  Qed.

  Lemma positions_lt {X} (p : X -> bool) l k0 s : In s (positions p k0 l) -> (s < k0 + length l)%nat.
  Proof.
    intros H. apply positions_spec in H. destruct H as [H1 [x [H2 _]]].
    assert (s - k0 < length l)%nat by (apply nth_error_Some; congruence). lia.
  Qed.

  Lemma slack_nodes_spec (ns : list node) s :
    In s (slack_nodes ns) <-> is_slack ns s = true.
  Proof.
    unfold slack_nodes, is_slack, typ_of. rewrite positions_spec, Nat.sub_0_r. split.
    - intros [_ [x [-> H]]]. exact H.
    - intros H. split; [lia|]. destruct (nth_error ns s) as [nd|]; [|discriminate]. eauto.
  Qed.

  (* ------------------------------------------------------------------ rowsum algebra *)
  Lemma rowsum_app (t1 t2 : list trip) r x : rowsum (t1 ++ t2) r x = rowsum t1 r x + rowsum t2 r x.
  Proof.
    induction t1 as [|[[r' c] v] t1 IH]; simpl; [ring|].
    destruct (Nat.eqb r' r); rewrite IH; ring.
  Qed.

  Lemma rowsum_other (t : list trip) r x :
    Forall (fun tr => fst (fst tr) <> r) t -> rowsum t r x = 0.
  Proof.
    induction 1 as [|[[r' c] v] t H _ IH]; simpl; auto. simpl in H.
    destruct (Nat.eqb_spec r' r); [contradiction|auto].
  Qed.

  Lemma branch_trips_rows n (bs : list branch) : forall k0,
    Forall (fun tr : trip => (n + k0 <= fst (fst tr) < n + k0 + length bs)%nat) (branch_trips n k0 bs).
  Proof.
    induction bs as [|b bs IH]; intros k0; simpl; constructor; [|constructor; [|constructor]]; simpl; try lia.
    eapply Forall_impl; [|apply IH]. simpl. intros; lia.
  Qed.

  Lemma from_to_rowsum (ns : list node) n x i (bs : list branch) : forall k0,
    is_slack ns i = false ->
    rowsum (from_trips ns n k0 bs) i x + rowsum (to_trips ns n k0 bs) i x =
    nodesum (fun k b => b_dmn b * x (n + k)%nat) (fun k b => b_dmn b * x (n + k)%nat) i k0 bs.
  Proof.
    intros k0 Hi. revert k0. induction bs as [|b bs IH]; intros k0; simpl; [ring|].
    rewrite !rowsum_app, <- IH.
    destruct (Nat.eqb_spec (b_fn b) i) as [E1|E1]; destruct (Nat.eqb_spec (b_tn b) i) as [E2|E2];
      rewrite ?E1, ?E2, ?Hi; try destruct (is_slack ns (b_fn b)); try destruct (is_slack ns (b_tn b));
      simpl; rewrite ?Nat.eqb_refl;
      repeat match goal with |- context [Nat.eqb ?a ?c] => destruct (Nat.eqb_spec a c); try contradiction end;
      ring.
  Qed.

  Lemma pc_trips_rows (ns : list node) n (bs : list branch) :
    Forall (fun tr : trip => (n <= fst (fst tr) < n + length bs)%nat) (pc_trips ns n bs).
  Proof.
    unfold pc_trips. apply Forall_forall. intros tr H. apply in_map_iff in H.
    destruct H as [[kb c] [<- H]]. simpl. apply in_combine_l in H.
    apply positions_lt in H. simpl in H. lia.
  Qed.

  Lemma sfrom_sto_rows row s n (bs : list branch) : forall k0,
    Forall (fun tr : trip => fst (fst tr) = row) (sfrom_row row s n k0 bs ++ sto_row row s n k0 bs).
  Proof.
    intros k0. apply Forall_app. split; revert k0; induction bs as [|b bs IH]; intros k0; simpl;
      try constructor; apply Forall_app; (split; [|apply IH]);
      match goal with |- context [if ?c then _ else _] => destruct c end; repeat constructor.
  Qed.

  Lemma slackmass_rows (ns : list node) base n (bs : list branch) sl : forall j0,
    Forall (fun tr : trip => (base + j0 <= fst (fst tr) < base + j0 + length sl)%nat)
           (slackmass_trips ns base j0 n sl bs).
  Proof.
    induction sl as [|s sl IH]; intros j0; simpl; [constructor|].
    rewrite app_assoc. apply Forall_app. split; [|constructor; [simpl; lia|]].
    - eapply Forall_impl; [|apply sfrom_sto_rows]. simpl. intros a ->. lia.
    - eapply Forall_impl; [|apply IH]. simpl. intros; lia.
  Qed.

  Lemma slack_trips_rowsum (ns : list node) x r :
    rowsum (slack_trips ns) r x = if is_slack ns r then 1 * x r else 0.
  Proof.
    unfold slack_trips, slack_nodes, is_slack, typ_of.
    set (p := fun nd : node => is_TSlack (n_typ nd)).
    assert (G : forall l k0, rowsum (map (fun s => (s, s, 1)) (positions p k0 l)) r x =
              if (k0 <=? r)%nat then match nth_error l (r - k0) with Some nd => if p nd then 1 * x r else 0 | None => 0 end else 0).
    { induction l as [|a l IH]; intros k0; simpl.
      - destruct (k0 <=? r)%nat; auto. destruct (r - k0)%nat; auto.
      - rewrite map_app, rowsum_app, IH. clear IH.
        destruct (Nat.leb_spec k0 r) as [L|L]; destruct (Nat.leb_spec (S k0) r) as [L2|L2]; try lia.
        + replace (r - k0)%nat with (S (r - S k0)) by lia.
          cbn [nth_error]. destruct (p a); cbn [map rowsum fst snd app];
            [destruct (Nat.eqb_spec k0 r); [lia|]|]; ring.
        + assert (k0 = r) by lia. subst. rewrite Nat.sub_diag. cbn [nth_error].
          destruct (p a); cbn [map rowsum fst snd app]; [rewrite Nat.eqb_refl|]; ring.
        + destruct (p a); cbn [map rowsum fst snd app]; [destruct (Nat.eqb_spec k0 r); [lia|]|]; ring. }
    rewrite G. simpl. rewrite Nat.sub_0_r. destruct (nth_error ns r); auto.
  Qed.

  (* ------------------------------------------------------------------ load vector *)
  Lemma eps_node_entry (ns : list node) (bs : list branch) i nd :
    nth_error ns i = Some nd ->
    nth i (eps ns bs) 0 = if is_TSlack (n_typ nd) then 0 else - n_load nd + nodesum lvf_ lvt_ i O bs.
  Proof.
    intros H. unfold eps. rewrite app_nth1.
    - apply nth_of_nth_error. unfold Model.eps_nodes. rewrite mapi_nth_error, H. reflexivity.
    - unfold Model.eps_nodes. rewrite mapi_length. apply nth_error_Some. congruence.
  Qed.

  Lemma eps_branch_entry (ns : list node) (bs : list branch) k b :
    nth_error bs k = Some b ->
    nth (length ns + k) (eps ns bs) 0 = if b_pc b then 0 else b_lvb b.
  Proof.
    intros H. unfold eps. rewrite app_nth2; unfold Model.eps_nodes; rewrite mapi_length; [|lia].
    replace (length ns + k - length ns)%nat with k by lia.
    rewrite app_nth1.
    - apply nth_of_nth_error. unfold Model.eps_branches. rewrite nth_error_map, H. reflexivity.
    - unfold Model.eps_branches. rewrite map_length. apply nth_error_Some. congruence.
  Qed.

  Lemma eps_slack_entry (ns : list node) (bs : list branch) j s :
    nth_error (slack_nodes ns) j = Some s ->
    nth (length ns + length bs + j) (eps ns bs) 0 =
    - load_of ns s + nodesum lvf_ lvt_ s O bs - msl_of ns s.
  Proof.
    intros H. unfold eps. rewrite app_nth2; unfold Model.eps_nodes; rewrite mapi_length; [|lia].
    rewrite app_nth2; unfold Model.eps_branches; rewrite map_length; [|lia].
    replace (length ns + length bs + j - length ns - length bs)%nat with j by lia.
    apply nth_of_nth_error. unfold Model.eps_slack. rewrite nth_error_map, H. reflexivity.
  Qed.

  (* ------------------------------------------------------------------ rows of the assembled matrix *)
  (* 1. node_row_shape: the row of a non-slack node i holds +dm_node at the branches into i,
        -dm_node at the branches out of i (parallel branches, self loops included), nothing else *)
  Lemma node_row_lemma (ns : list node) (bs : list branch) x i nd :
    nth_error ns i = Some nd -> is_TSlack (n_typ nd) = false ->
    rowsum (trips ns bs) i x =
      nodesum (fun k b => b_dmn b * x (length ns + k)%nat) (fun k b => b_dmn b * x (length ns + k)%nat) i O bs
    /\ nth i (eps ns bs) 0 = - n_load nd + nodesum lvf_ lvt_ i O bs.
  Proof.
    intros Hn Ht.
    assert (Hi : (i < length ns)%nat) by (apply nth_error_Some; congruence).
    assert (Hs : is_slack ns i = false) by (unfold is_slack, typ_of; now rewrite Hn).
    split.
    - unfold Model.trips. rewrite !rowsum_app.
      rewrite (rowsum_other (branch_trips _ _ _)).
      2:{ eapply Forall_impl; [|apply branch_trips_rows]. simpl; intros; lia. }
      rewrite (rowsum_other (pc_trips _ _ _)).
      2:{ eapply Forall_impl; [|apply pc_trips_rows]. simpl; intros; lia. }
      rewrite slack_trips_rowsum, Hs.
      rewrite (rowsum_other (slackmass_trips _ _ _ _ _ _)).
      2:{ eapply Forall_impl; [|apply slackmass_rows]. simpl; intros; lia. }
      rewrite <- (from_to_rowsum ns (length ns) x i bs O Hs). ring.
    - rewrite (eps_node_entry ns bs i nd Hn), Ht. reflexivity.
  Qed.

  (* linearity of the node sum *)
  Lemma nodesum_lin (g h : nat -> A) (a : A) i (bs : list branch) : forall k0,
    nodesum (fun k _ => g k - h k * a) (fun k _ => g k - h k * a) i k0 bs =
    nodesum (fun k _ => g k) (fun k _ => g k) i k0 bs - a * nodesum (fun k _ => h k) (fun k _ => h k) i k0 bs.
  Proof.
    induction bs as [|b bs IH]; intros k0; simpl; [ring|]. rewrite IH.
    destruct (Nat.eqb (b_tn b) i), (Nat.eqb (b_fn b) i); ring.
  Qed.

  Lemma nodesum_ext (gf gt gf' gt' : nat -> branch -> A) i (bs : list branch) : forall k0,
    (forall k b, nth_error bs k = Some b -> gf (k0 + k)%nat b = gf' (k0 + k)%nat b /\ gt (k0 + k)%nat b = gt' (k0 + k)%nat b) ->
    nodesum gf gt i k0 bs = nodesum gf' gt' i k0 bs.
  Proof.
    induction bs as [|b bs IH]; intros k0 H; simpl; auto.
    destruct (H O b eq_refl) as [H1 H2]. rewrite Nat.add_0_r in H1, H2. rewrite H1, H2.
    rewrite (IH (S k0)); auto.
    intros k b' Hk. replace (S k0 + k)%nat with (k0 + S k)%nat by lia. apply H. exact Hk.
  Qed.

  (* 2. balance_after_step *)
  Lemma balance_lemma (ns : list node) (bs : list branch) (m x : nat -> A) (alpha : A) i nd :
    solves ns bs x -> kernel_cols bs m ->
    nth_error ns i = Some nd -> is_TSlack (n_typ nd) = false ->
    inflow (fun k => m k - x (length ns + k)%nat * alpha) i bs - n_load nd =
    (1 - alpha) * (inflow m i bs - n_load nd).
  Proof.
    intros Hs Hk Hn Ht. unfold Model.inflow.
    assert (Hi : (i < length ns)%nat) by (apply nth_error_Some; congruence).
    destruct (node_row_lemma ns bs x i nd Hn Ht) as [R E].
    assert (Hd : (i < dim ns bs)%nat) by (unfold dim; lia).
    apply Hs in Hd. clear Hs. rename Hd into Hs. rewrite R, E in Hs.
    rewrite (nodesum_ext _ _ (fun k _ => x (length ns + k)%nat) (fun k _ => x (length ns + k)%nat)) in Hs.
    2:{ intros k b Hb. destruct (Hk k b Hb) as [-> _]. simpl. split; ring. }
    rewrite (nodesum_ext lvf_ lvt_ (fun k _ => m k) (fun k _ => m k)) in Hs.
    2:{ intros k b Hb. destruct (Hk k b Hb) as [_ [H1 H2]]. simpl. unfold lvf_, lvt_. auto. }
    rewrite (nodesum_lin m (fun k => x (length ns + k)%nat) alpha i bs O). rewrite Hs. ring.
  Qed.

  (* ------------------------------------------------------------------ slack mass rows *)
  Lemma sfrom_sto_rowsum row s n x (bs : list branch) : forall k0,
    rowsum (sfrom_row row s n k0 bs ++ sto_row row s n k0 bs) row x =
    nodesum (fun k b => b_dmn b * x (n + k)%nat) (fun k b => b_dmn b * x (n + k)%nat) s k0 bs.
  Proof.
    induction bs as [|b bs IH]; intros k0; simpl; [ring|].
    rewrite rowsum_app in *. rewrite !rowsum_app. specialize (IH (S k0)). rewrite rowsum_app in IH.
    rewrite <- IH.
    destruct (Nat.eqb (b_fn b) s), (Nat.eqb (b_tn b) s); simpl; rewrite ?Nat.eqb_refl; ring.
  Qed.

  Lemma slackmass_rowsum (ns : list node) base n x (bs : list branch) sl : forall j0 j s,
    nth_error sl j = Some s ->
    rowsum (slackmass_trips ns base j0 n sl bs) (base + j0 + j)%nat x =
    nodesum (fun k b => b_dmn b * x (n + k)%nat) (fun k b => b_dmn b * x (n + k)%nat) s O bs
    + dmsl_of ns s * x (base + j0 + j)%nat.
  Proof.
    induction sl as [|s0 sl IH]; intros j0 j s H; [destruct j; discriminate|].
    cbn [Model.slackmass_trips]. rewrite app_assoc, rowsum_app. cbn [app rowsum fst snd].
    destruct j as [|j]; simpl in H.
    - inversion H; subst. rewrite Nat.add_0_r. rewrite sfrom_sto_rowsum.
      rewrite (rowsum_other (slackmass_trips _ _ _ _ _ _)).
      2:{ eapply Forall_impl; [|apply slackmass_rows]. simpl; intros; lia. }
      rewrite Nat.eqb_refl. ring.
    - rewrite (rowsum_other (_ ++ _)).
      2:{ eapply Forall_impl; [|apply sfrom_sto_rows]. simpl; intros a ->. lia. }
      destruct (Nat.eqb_spec (base + j0) (base + j0 + S j)); [lia|].
      replace (base + j0 + S j)%nat with (base + S j0 + j)%nat by lia.
      rewrite (IH (S j0) j s H). ring.
  Qed.

  Lemma from_trips_rows (ns : list node) n (bs : list branch) : forall k0,
    ends_in_range ns bs ->
    Forall (fun tr : trip => (fst (fst tr) < length ns)%nat) (from_trips ns n k0 bs ++ to_trips ns n k0 bs).
  Proof.
    intros k0 H. apply Forall_app. split; revert k0; induction bs as [|b bs IH]; intros k0; simpl;
      try constructor; apply Forall_app.
    - split; [|apply IH; intros b' Hb; apply H; now right].
      destruct (is_slack ns (b_fn b)); constructor; auto. simpl. apply (H b). now left.
    - split; [|apply IH; intros b' Hb; apply H; now right].
      destruct (is_slack ns (b_tn b)); constructor; auto. simpl. apply (H b). now left.
  Qed.

  Lemma slack_row_lemma (ns : list node) (bs : list branch) x j s :
    ends_in_range ns bs -> nth_error (slack_nodes ns) j = Some s ->
    rowsum (trips ns bs) (length ns + length bs + j)%nat x =
      nodesum (fun k b => b_dmn b * x (length ns + k)%nat) (fun k b => b_dmn b * x (length ns + k)%nat) s O bs
      + dmsl_of ns s * x (length ns + length bs + j)%nat.
  Proof.
    intros Hr Hj. unfold Model.trips. rewrite !rowsum_app.
    rewrite (rowsum_other (branch_trips _ _ _)).
    2:{ eapply Forall_impl; [|apply branch_trips_rows]. simpl; intros; lia. }
    rewrite (rowsum_other (pc_trips _ _ _)).
    2:{ eapply Forall_impl; [|apply pc_trips_rows]. simpl; intros; lia. }
    assert (F := from_trips_rows ns (length ns) bs O Hr). apply Forall_app in F. destruct F as [F1 F2].
    rewrite (rowsum_other (from_trips _ _ _ _)).
    2:{ eapply Forall_impl; [|apply F1]. simpl; intros; lia. }
    rewrite (rowsum_other (to_trips _ _ _ _)).
    2:{ eapply Forall_impl; [|apply F2]. simpl; intros; lia. }
    rewrite slack_trips_rowsum.
    replace (is_slack ns (length ns + length bs + j)) with false.
    2:{ unfold is_slack, typ_of. destruct (nth_error ns (length ns + length bs + j)) eqn:E; auto.
        assert (length ns + length bs + j < length ns)%nat by (apply nth_error_Some; congruence). lia. }
    pose proof (slackmass_rowsum ns (length ns + length bs) (length ns) x bs (slack_nodes ns) O j s Hj) as S.
    rewrite Nat.add_0_r in S. rewrite S. ring.
  Qed.

  (* 3. slack_balance_after_step: no alpha on the slack-mass update (as in the code) *)
  Lemma slack_balance_lemma (ns : list node) (bs : list branch) (m x : nat -> A) j s :
    solves ns bs x -> kernel_cols bs m -> ends_in_range ns bs ->
    nth_error (slack_nodes ns) j = Some s -> dmsl_of ns s = opp one ->
    msl_of ns s - x (length ns + length bs + j)%nat =
    inflow (fun k => m k - x (length ns + k)%nat * 1) s bs - load_of ns s.
  Proof.
    intros Hs Hk Hr Hj Hd. unfold Model.inflow.
    assert (Hlt : (j < length (slack_nodes ns))%nat) by (apply nth_error_Some; congruence).
    assert (Hdim : (length ns + length bs + j < dim ns bs)%nat) by (unfold dim; lia).
    apply Hs in Hdim. clear Hs. rename Hdim into Hs.
    rewrite (slack_row_lemma ns bs x j s Hr Hj), (eps_slack_entry ns bs j s Hj), Hd in Hs.
    rewrite (nodesum_ext _ _ (fun k _ => x (length ns + k)%nat) (fun k _ => x (length ns + k)%nat)) in Hs.
    2:{ intros k b Hb. destruct (Hk k b Hb) as [-> _]. simpl. split; ring. }
    rewrite (nodesum_ext lvf_ lvt_ (fun k _ => m k) (fun k _ => m k)) in Hs.
    2:{ intros k b Hb. destruct (Hk k b Hb) as [_ [H1 H2]]. simpl. unfold lvf_, lvt_. auto. }
    rewrite (nodesum_lin m (fun k => x (length ns + k)%nat) 1 s bs O).
    set (X := nodesum (fun k _ => x (length ns + k)%nat) (fun k _ => x (length ns + k)%nat) s O bs) in *.
    set (M := nodesum (fun k _ => m k) (fun k _ => m k) s O bs) in *.
    assert (E : X = - load_of ns s + M - msl_of ns s + x (length ns + length bs + j)%nat).
    { rewrite <- Hs. ring. }
    rewrite E. ring.
  Qed.

  (* ------------------------------------------------------------------ global balance *)
  Fixpoint sumfrom (f : nat -> A) (k0 len : nat) : A :=
    match len with O => 0 | S l => f k0 + sumfrom f (S k0) l end.

  Lemma sumfrom_ext f g : forall len k0,
    (forall i, (k0 <= i < k0 + len)%nat -> f i = g i) -> sumfrom f k0 len = sumfrom g k0 len.
  Proof.
    induction len; intros k0 H; simpl; auto. rewrite (H k0) by lia. rewrite (IHlen (S k0)); auto.
    intros; apply H; lia.
  Qed.

  Lemma sumfrom_add f g : forall len k0,
    sumfrom (fun i => f i + g i) k0 len = sumfrom f k0 len + sumfrom g k0 len.
  Proof. induction len; intros; simpl; [ring|]. rewrite IHlen. ring. Qed.

  Lemma sumfrom_zero : forall len k0, sumfrom (fun _ => 0) k0 len = 0.
  Proof. induction len; intros; simpl; [ring|]. rewrite IHlen. ring. Qed.

  Lemma sumfrom_delta a v : forall len k0,
    sumfrom (fun i => if Nat.eqb a i then v else 0) k0 len =
    if ((k0 <=? a) && (a <? k0 + len))%nat then v else 0.
  Proof.
    induction len; intros k0; simpl.
    - destruct (Nat.leb_spec k0 a), (Nat.ltb_spec a (k0 + 0)); simpl; auto; lia.
    - rewrite IHlen.
      destruct (Nat.eqb_spec a k0), (Nat.leb_spec k0 a), (Nat.leb_spec (S k0) a),
        (Nat.ltb_spec a (S k0 + len)), (Nat.ltb_spec a (k0 + S len)); simpl; try lia; ring.
  Qed.

  (* every branch term enters once with + (to node) and once with - (from node) *)
  Lemma sum_inflow_zero (g : nat -> A) n (bs : list branch) : forall k0,
    (forall b, In b bs -> (b_fn b < n)%nat /\ (b_tn b < n)%nat) ->
    sumfrom (fun i => nodesum (fun k _ => g k) (fun k _ => g k) i k0 bs) O n = 0.
  Proof.
    induction bs as [|b bs IH]; intros k0 H; simpl.
    - apply sumfrom_zero.
    - rewrite sumfrom_add, IH by (intros; apply H; now right).
      destruct (H b (or_introl eq_refl)) as [Hf Ht].
      rewrite (sumfrom_ext _ (fun i => (if Nat.eqb (b_tn b) i then g k0 else 0)
                                       + (if Nat.eqb (b_fn b) i then - g k0 else 0))).
      2:{ intros. destruct (Nat.eqb (b_tn b) i), (Nat.eqb (b_fn b) i); ring. }
      rewrite sumfrom_add, !sumfrom_delta. simpl.
      destruct (Nat.ltb_spec (b_tn b) n), (Nat.ltb_spec (b_fn b) n); try lia. ring.
  Qed.

  Lemma sum_positions {X} (p : X -> bool) (f : nat -> A) (l : list X) : forall k0,
    sumlist (map f (positions p k0 l)) =
    sumfrom (fun i => match nth_error l (i - k0) with Some x => if p x then f i else 0 | None => 0 end)
            k0 (length l).
  Proof.
    induction l as [|a l IH]; intros k0; simpl; auto.
    rewrite map_app. rewrite Nat.sub_diag. simpl.
    assert (SA : forall l1 l2 : list A, sumlist (l1 ++ l2) = sumlist l1 + sumlist l2).
    { induction l1; intros; simpl; [ring|]. rewrite IHl1. ring. }
    rewrite SA, IH. f_equal.
    - destruct (p a); simpl; ring.
    - apply sumfrom_ext. intros i Hi. replace (i - k0)%nat with (S (i - S k0)) by lia. reflexivity.
  Qed.

  (* 4. global balance, graph level: if every non-slack node balances and every slack node's
        feed equals its imbalance, the feeds sum to minus the total load *)
  Lemma global_balance_lemma (ns : list node) (bs : list branch) (g : nat -> A) (feed : nat -> A) :
    ends_in_range ns bs ->
    (forall i nd, nth_error ns i = Some nd -> is_TSlack (n_typ nd) = false -> inflow g i bs - n_load nd = 0) ->
    (forall s nd, nth_error ns s = Some nd -> is_TSlack (n_typ nd) = true -> feed s = inflow g s bs - n_load nd) ->
    sumlist (map feed (slack_nodes ns)) = - sumlist (map (@n_load A) ns).
  Proof.
    intros Hr Hn Hsl.
    unfold slack_nodes. rewrite sum_positions. cbv beta.
    pose proof (sum_inflow_zero g (length ns) bs O Hr) as Z.
    change (sumfrom (fun i => inflow g i bs) O (length ns) = 0) in Z.
    assert (L : forall (l : list node) k0, sumlist (map (@n_load A) l) =
              sumfrom (fun i => match nth_error l (i - k0) with Some nd => n_load nd | None => 0 end) k0 (length l)).
    { induction l as [|a l IH]; intros k0; simpl; auto. rewrite Nat.sub_diag. simpl. f_equal.
      rewrite (IH (S k0)). apply sumfrom_ext. intros i Hi.
      replace (i - k0)%nat with (S (i - S k0)) by lia. reflexivity. }
    rewrite (L ns O).
    assert (E : sumfrom (fun i => match nth_error ns (i - 0) with
                                  | Some x => if is_TSlack (n_typ x) then feed i else 0 | None => 0 end) O (length ns)
              + sumfrom (fun i => match nth_error ns (i - 0) with Some nd => n_load nd | None => 0 end) O (length ns)
              = sumfrom (fun i => inflow g i bs) O (length ns)).
    { rewrite <- sumfrom_add. apply sumfrom_ext. intros i Hi. rewrite Nat.sub_0_r.
      destruct (nth_error ns i) as [nd|] eqn:En.
      - destruct (is_TSlack (n_typ nd)) eqn:Et.
        + rewrite (Hsl i nd En Et). ring.
        + pose proof (Hn i nd En Et) as Q.
          transitivity (inflow g i bs - n_load nd + n_load nd); [rewrite Q|]; ring.
      - assert (length ns <= i)%nat by (apply nth_error_None; auto). lia. }
    rewrite Z in E.
    match type of E with ?a + ?b = _ => transitivity (a + b - b); [ring | rewrite E; ring] end.
  Qed.

  (* ... and its instance after one full Newton step (alpha = 1) from any iterate *)
  Lemma global_after_step_lemma (ns : list node) (bs : list branch) (m x : nat -> A) :
    solves ns bs x -> kernel_cols bs m -> ends_in_range ns bs ->
    (forall s, In s (slack_nodes ns) -> dmsl_of ns s = opp one) ->
    sumlist (step_msl (length ns + length bs) (map (msl_of ns) (slack_nodes ns)) x)
    = - sumlist (map (@n_load A) ns).
  Proof.
    intros Hs Hk Hr Hd.
    (* feed as a function of the node index: value written for the j-th slack node *)
    set (g := fun k => m k - x (length ns + k)%nat * 1).
    set (feed := fun s => inflow g s bs - load_of ns s).
    rewrite <- (global_balance_lemma ns bs g feed Hr).
    - f_equal. unfold Model.step_msl.
      assert (G : forall (sl : list nat) j0,
                 (forall j s, nth_error sl j = Some s -> nth_error (slack_nodes ns) (j0 + j) = Some s) ->
                 mapi (fun j s => s - x (length ns + length bs + j)%nat) j0 (map (msl_of ns) sl) = map feed sl).
      { induction sl as [|s sl IH]; intros j0 H; simpl; auto. f_equal.
        - unfold feed, g. apply slack_balance_lemma; auto.
          + specialize (H O s eq_refl). now rewrite Nat.add_0_r in H.
          + apply Hd. specialize (H O s eq_refl). eapply nth_error_In; eauto.
        - apply IH. intros j s' Hj. replace (S j0 + j)%nat with (j0 + S j)%nat by lia. apply H. exact Hj. }
      apply G. intros j s Hj. exact Hj.
    - intros i nd En Et. unfold g.
      pose proof (balance_lemma ns bs m x 1 i nd Hs Hk En Et) as B. rewrite B. ring.
    - intros s nd En Et. unfold feed, load_of. now rewrite En.
  Qed.


  (* ------------------------------------------------------------------ rows used by C03 *)
  Lemma from_to_nonslack (ns : list node) n (bs : list branch) : forall k0,
    Forall (fun tr : trip => is_slack ns (fst (fst tr)) = false) (from_trips ns n k0 bs ++ to_trips ns n k0 bs).
  Proof.
    intros k0. apply Forall_app. split; revert k0; induction bs as [|b bs IH]; intros k0; simpl;
      try constructor; apply Forall_app; (split; [|apply IH]).
    - destruct (is_slack ns (b_fn b)) eqn:E; constructor; auto.
    - destruct (is_slack ns (b_tn b)) eqn:E; constructor; auto.
  Qed.

  Lemma slack_node_row_lemma (ns : list node) (bs : list branch) x s nd :
    nth_error ns s = Some nd -> is_TSlack (n_typ nd) = true ->
    rowsum (trips ns bs) s x = 1 * x s /\ nth s (eps ns bs) 0 = 0.
  Proof.
    intros Hn Ht.
    assert (Hi : (s < length ns)%nat) by (apply nth_error_Some; congruence).
    assert (Hs : is_slack ns s = true) by (unfold is_slack, typ_of; now rewrite Hn).
    split.
    - unfold Model.trips. rewrite !rowsum_app.
      rewrite (rowsum_other (branch_trips _ _ _)).
      2:{ eapply Forall_impl; [|apply branch_trips_rows]. simpl; intros; lia. }
      rewrite (rowsum_other (pc_trips _ _ _)).
      2:{ eapply Forall_impl; [|apply pc_trips_rows]. simpl; intros; lia. }
      rewrite slack_trips_rowsum, Hs.
      rewrite (rowsum_other (slackmass_trips _ _ _ _ _ _)).
      2:{ eapply Forall_impl; [|apply slackmass_rows]. simpl; intros; lia. }
      pose proof (from_to_nonslack ns (length ns) bs O) as F. apply Forall_app in F. destruct F as [F1 F2].
      rewrite (rowsum_other (from_trips _ _ _ _)).
      2:{ eapply Forall_impl; [|apply F1]. simpl. intros a Ha Hc. rewrite Hc in Ha. congruence. }
      rewrite (rowsum_other (to_trips _ _ _ _)).
      2:{ eapply Forall_impl; [|apply F2]. simpl. intros a Ha Hc. rewrite Hc in Ha. congruence. }
      ring.
    - rewrite (eps_node_entry ns bs s nd Hn), Ht. reflexivity.
  Qed.

  Lemma branch_trips_rowsum n x (bs : list branch) : forall k0 k b,
    nth_error bs k = Some b ->
    rowsum (branch_trips n k0 bs) (n + k0 + k)%nat x =
    b_dm b * x (n + k0 + k)%nat + b_dp b * x (b_fn b) + b_dp1 b * x (b_tn b).
  Proof.
    induction bs as [|b0 bs IH]; intros k0 k b H; [destruct k; discriminate|].
    cbn [Model.branch_trips rowsum fst snd]. destruct k as [|k]; simpl in H.
    - inversion H; subst. rewrite Nat.add_0_r, Nat.eqb_refl.
      rewrite (rowsum_other (branch_trips _ _ _)).
      2:{ eapply Forall_impl; [|apply branch_trips_rows]. simpl; intros; lia. }
      ring.
    - destruct (Nat.eqb_spec (n + k0) (n + k0 + S k)); [lia|].
      replace (n + k0 + S k)%nat with (n + S k0 + k)%nat by lia. apply IH. exact H.
  Qed.

  (* the momentum row of branch k: its three Jacobian entries plus the PC entries of that row *)
  Lemma branch_row_lemma (ns : list node) (bs : list branch) x k b :
    ends_in_range ns bs -> nth_error bs k = Some b ->
    rowsum (trips ns bs) (length ns + k)%nat x =
      b_dm b * x (length ns + k)%nat + b_dp b * x (b_fn b) + b_dp1 b * x (b_tn b)
      + rowsum (pc_trips ns (length ns) bs) (length ns + k)%nat x
    /\ nth (length ns + k) (eps ns bs) 0 = if b_pc b then 0 else b_lvb b.
  Proof.
    intros Hr Hb.
    assert (Hk : (k < length bs)%nat) by (apply nth_error_Some; congruence).
    split; [|apply eps_branch_entry; exact Hb].
    unfold Model.trips. rewrite !rowsum_app.
    pose proof (branch_trips_rowsum (length ns) x bs O k b Hb) as B.
    rewrite Nat.add_0_r in B. rewrite B.
    assert (F := from_trips_rows ns (length ns) bs O Hr). apply Forall_app in F. destruct F as [F1 F2].
    rewrite (rowsum_other (from_trips _ _ _ _)).
    2:{ eapply Forall_impl; [|apply F1]. simpl; intros; lia. }
    rewrite (rowsum_other (to_trips _ _ _ _)).
    2:{ eapply Forall_impl; [|apply F2]. simpl; intros; lia. }
    rewrite slack_trips_rowsum.
    replace (is_slack ns (length ns + k)) with false.
    2:{ unfold is_slack, typ_of. destruct (nth_error ns (length ns + k)) eqn:E; auto.
        assert (length ns + k < length ns)%nat by (apply nth_error_Some; congruence). lia. }
    rewrite (rowsum_other (slackmass_trips _ _ _ _ _ _)).
    2:{ eapply Forall_impl; [|apply slackmass_rows]. simpl; intros; lia. }
    ring.
  Qed.

  Lemma pc_trips_notpc (ns : list node) (bs : list branch) x k b :
    nth_error bs k = Some b -> b_pc b = false ->
    rowsum (pc_trips ns (length ns) bs) (length ns + k)%nat x = 0.
  Proof.
    intros Hb Hp. apply rowsum_other. unfold Model.pc_trips. apply Forall_forall.
    intros tr H. apply in_map_iff in H. destruct H as [[kb c] [<- H]]. simpl.
    apply in_combine_l in H. unfold pc_branches in H. apply positions_spec in H.
    destruct H as [_ [b' [H1 H2]]]. rewrite Nat.sub_0_r in H1.
    intros E. assert (kb = k) by lia. subst. congruence.
  Qed.

  Lemma positions_NoDup {X} (p : X -> bool) l : forall k0, NoDup (positions p k0 l).
  Proof.
    induction l as [|a l IH]; intros k0; simpl; [constructor|].
    destruct (p a); simpl; auto. constructor; auto.
    intros H. apply positions_spec in H. lia.
  Qed.

  Lemma combine_NoDup_fst {X Y} (a : list X) : forall (b : list Y),
    NoDup a -> NoDup (map fst (combine a b)).
  Proof.
    induction a as [|x a IH]; intros b H; simpl; [constructor|].
    destruct b as [|y b]; simpl; [constructor|]. inversion H; subst. constructor; auto.
    intros Hin. apply in_map_iff in Hin. destruct Hin as [[x' y'] [E Hin]]. simpl in E. subst.
    apply in_combine_l in Hin. contradiction.
  Qed.

  Lemma pair_rowsum n x (l : list (nat * nat)) : forall kb c,
    NoDup (map fst l) -> In (kb, c) l ->
    rowsum (map (fun kc => ((n + fst kc)%nat, snd kc, 1)) l) (n + kb)%nat x = 1 * x c.
  Proof.
    induction l as [|[k0 c0] l IH]; intros kb c Hnd Hin; [destruct Hin|].
    simpl in Hnd. inversion Hnd; subst. cbn [map rowsum fst snd]. destruct Hin as [E|Hin].
    - inversion E; subst. rewrite Nat.eqb_refl. rewrite rowsum_other; [ring|].
      apply Forall_forall. intros tr H. apply in_map_iff in H. destruct H as [[k' c'] [<- H]]. simpl.
      intros E'. assert (k' = kb) by lia. subst. apply H1. apply in_map_iff. exists (kb, c'). auto.
    - destruct (Nat.eqb_spec (n + k0) (n + kb)).
      + exfalso. assert (k0 = kb) by lia. subst. apply H1. apply in_map_iff. exists (kb, c). auto.
      + apply IH; auto.
  Qed.

  Lemma combine_covers {X Y} (a : list X) : forall (b : list Y) c,
    length a = length b -> In c b -> exists k, In (k, c) (combine a b).
  Proof.
    induction a as [|x a IH]; intros b c Hl Hin; destruct b as [|y b]; simpl in *; try discriminate; [tauto|].
    destruct Hin as [->|Hin]; [exists x; now left|].
    destruct (IH b c) as [k Hk]; auto. exists k. now right.
  Qed.

  (* C03.1a  any solution leaves the pressure of every slack node unchanged *)
  Lemma fixed_slack_lemma (ns : list node) (bs : list branch) x s nd :
    solves ns bs x -> nth_error ns s = Some nd -> is_TSlack (n_typ nd) = true -> x s = 0.
  Proof.
    intros Hs Hn Ht.
    assert (Hi : (s < length ns)%nat) by (apply nth_error_Some; congruence).
    destruct (slack_node_row_lemma ns bs x s nd Hn Ht) as [R E].
    assert (Hd : (s < dim ns bs)%nat) by (unfold dim; lia).
    apply Hs in Hd. rewrite R, E in Hd. transitivity (1 * x s); [ring|exact Hd].
  Qed.

  (* C03.1b  ... and of every pressure-controlled node, provided the rows of the PC branches
     carry no other entry (PressureControl.adaption_after_derivatives_hydraulic zeroes
     JAC_DERIV_DM/DP/DP1 of BRANCH_TYPE == PC rows) and there are as many PC branches as PC nodes *)
  Lemma fixed_pc_lemma (ns : list node) (bs : list branch) x c :
    solves ns bs x -> ends_in_range ns bs ->
    length (pc_branches bs) = length (pc_nodes ns) ->
    (forall k b, nth_error bs k = Some b -> b_pc b = true -> b_dm b = 0 /\ b_dp b = 0 /\ b_dp1 b = 0) ->
    In c (pc_nodes ns) -> x c = 0.
  Proof.
    intros Hs Hr Hl Hz Hc.
    destruct (combine_covers (pc_branches bs) (pc_nodes ns) c Hl Hc) as [kb Hin].
    pose proof (in_combine_l _ _ _ _ Hin) as Hkb. unfold pc_branches in Hkb.
    apply positions_spec in Hkb. destruct Hkb as [_ [b [Hb Hp]]]. rewrite Nat.sub_0_r in Hb.
    assert (Hk : (kb < length bs)%nat) by (apply nth_error_Some; congruence).
    destruct (branch_row_lemma ns bs x kb b Hr Hb) as [R E].
    assert (Hd : (length ns + kb < dim ns bs)%nat) by (unfold dim; lia).
    apply Hs in Hd. rewrite R, E, Hp in Hd.
    destruct (Hz kb b Hb Hp) as [Z1 [Z2 Z3]]. rewrite Z1, Z2, Z3 in Hd.
    unfold Model.pc_trips in Hd. rewrite (pair_rowsum (length ns) x _ kb c) in Hd; auto.
    - transitivity (0 * x (length ns + kb)%nat + 0 * x (b_fn b) + 0 * x (b_tn b) + 1 * x c); [ring|exact Hd].
    - apply combine_NoDup_fst. apply positions_NoDup.
  Qed.

  (* C03.3  identity rows (FlowControl with control_active, CirculationPumpMass, HeatConsumer:
     JAC_DERIV_DM = 1, JAC_DERIV_DP = JAC_DERIV_DP1 = 0, LOAD_VEC_BRANCHES = 0) keep the flow *)
  Lemma identity_row_lemma (ns : list node) (bs : list branch) x k b :
    solves ns bs x -> ends_in_range ns bs -> nth_error bs k = Some b ->
    b_pc b = false -> b_dm b = 1 -> b_dp b = 0 -> b_dp1 b = 0 -> b_lvb b = 0 ->
    x (length ns + k)%nat = 0.
  Proof.
    intros Hs Hr Hb Hp H1 H2 H3 H4.
    assert (Hk : (k < length bs)%nat) by (apply nth_error_Some; congruence).
    destruct (branch_row_lemma ns bs x k b Hr Hb) as [R E].
    assert (Hd : (length ns + k < dim ns bs)%nat) by (unfold dim; lia).
    apply Hs in Hd. rewrite R, E, Hp, (pc_trips_notpc ns bs x k b Hb Hp), H1, H2, H3, H4 in Hd.
    transitivity (1 * x (length ns + k)%nat + 0 * x (b_fn b) + 0 * x (b_tn b) + 0); [ring|exact Hd].
  Qed.

  (* momentum row of an ordinary branch: dm x_b + dp x_from + dp1 x_to = load_vec *)
  Lemma momentum_row_lemma (ns : list node) (bs : list branch) x k b :
    solves ns bs x -> ends_in_range ns bs -> nth_error bs k = Some b -> b_pc b = false ->
    b_dm b * x (length ns + k)%nat + b_dp b * x (b_fn b) + b_dp1 b * x (b_tn b) = b_lvb b.
  Proof.
    intros Hs Hr Hb Hp.
    assert (Hk : (k < length bs)%nat) by (apply nth_error_Some; congruence).
    destruct (branch_row_lemma ns bs x k b Hr Hb) as [R E].
    assert (Hd : (length ns + k < dim ns bs)%nat) by (unfold dim; lia).
    apply Hs in Hd. rewrite R, E, Hp, (pc_trips_notpc ns bs x k b Hb Hp) in Hd. rewrite <- Hd. ring.
  Qed.

  (* ------------------------------------------------------------------ ConstFlow load aggregation *)
  Notation group_add := (group_add add).
  Notation sum_by_group := (sum_by_group add).

  Fixpoint fsum (P : Z -> bool) (g : list (Z * A)) : A :=
    match g with [] => 0 | (l, s) :: r => (if P l then s else 0) + fsum P r end.

  Lemma group_add_fsum P l v g : fsum P (group_add l v g) = (if P l then v else 0) + fsum P g.
  Proof.
    induction g as [|[l' v'] r IH]; simpl; [ring|].
    destruct (Z.eqb_spec l l') as [->|Hne]; simpl.
    - destruct (P l'); ring.
    - destruct (Z.ltb l l'); simpl; [ring|]. rewrite IH. destruct (P l), (P l'); ring.
  Qed.

  Lemma sbg_fsum P kv : fsum P (sum_by_group kv) = fsum P kv.
  Proof.
    unfold Model.sum_by_group.
    assert (G : forall acc, fsum P (fold_left (fun g lv => group_add (fst lv) (snd lv) g) kv acc) = fsum P acc + fsum P kv).
    { induction kv as [|[l v] kv IH]; intros acc; simpl; [ring|]. rewrite IH, group_add_fsum. ring. }
    rewrite G. simpl. ring.
  Qed.

  Definition lt_all (l : Z) (g : list (Z * A)) : Prop := Forall (fun ls => (l < fst ls)%Z) g.
  Fixpoint sorted (g : list (Z * A)) : Prop :=
    match g with [] => True | (l, _) :: r => lt_all l r /\ sorted r end.

  Lemma lt_all_group_add l0 l v g : lt_all l0 g -> (l0 < l)%Z -> lt_all l0 (group_add l v g).
  Proof.
    unfold lt_all. induction g as [|[l' v'] r IH]; simpl; intros H Hl.
    - constructor; auto.
    - inversion H; subst. destruct (Z.eqb l l'); [constructor; auto|].
      destruct (Z.ltb l l'); constructor; auto.
  Qed.

  Lemma group_add_sorted l v g : sorted g -> sorted (group_add l v g).
  Proof.
    induction g as [|[l' v'] r IH]; simpl; intros H.
    - split; [constructor|exact I].
    - destruct H as [H1 H2]. destruct (Z.eqb_spec l l') as [->|Hne]; [simpl; auto|].
      destruct (Z.ltb_spec l l') as [Hlt|Hge]; simpl.
      + split; [|split; auto]. constructor; [simpl; auto|].
        eapply Forall_impl; [|exact H1]. simpl. intros a Ha. lia.
      + split; [|apply IH; auto]. apply lt_all_group_add; auto. lia.
  Qed.

  Lemma sbg_sorted kv : sorted (sum_by_group kv).
  Proof.
    unfold Model.sum_by_group.
    assert (G : forall acc, sorted acc -> sorted (fold_left (fun g lv => group_add (fst lv) (snd lv) g) kv acc)).
    { induction kv as [|[l v] kv IH]; intros acc H; simpl; auto. apply IH. apply group_add_sorted. exact H. }
    apply G. exact I.
  Qed.

  Lemma sorted_NoDup g : sorted g -> NoDup (map fst g).
  Proof.
    induction g as [|[l v] r IH]; simpl; intros H; [constructor|]. destruct H as [H1 H2].
    constructor; auto. intros Hin. apply in_map_iff in Hin. destruct Hin as [[l' v'] [E Hin]]. simpl in E. subst.
    unfold lt_all in H1. rewrite Forall_forall in H1. specialize (H1 _ Hin). simpl in H1. lia.
  Qed.

  Lemma group_add_keys k l v g : In k (map fst (group_add l v g)) -> k = l \/ In k (map fst g).
  Proof.
    induction g as [|[l' v'] r IH]; simpl; [intuition (subst; auto)|].
    destruct (Z.eqb_spec l l') as [->|Hne]; [simpl; intuition (subst; auto)|].
    destruct (Z.ltb l l'); simpl; [intuition (subst; auto)|].
    intros [H|H]; [auto|]. destruct (IH H); auto.
  Qed.

  Lemma sbg_keys k kv : In k (map fst (sum_by_group kv)) -> In k (map fst kv).
  Proof.
    unfold Model.sum_by_group.
    assert (G : forall acc, In k (map fst (fold_left (fun g lv => group_add (fst lv) (snd lv) g) kv acc)) ->
                            In k (map fst acc) \/ In k (map fst kv)).
    { induction kv as [|[l v] kv IH]; intros acc H; simpl in *; [tauto|].
      destruct (IH _ H) as [H1|H1]; [|tauto]. destruct (group_add_keys _ _ _ _ H1); [subst; tauto|tauto]. }
    intros H. destruct (G [] H) as [H1|H1]; [destruct H1|exact H1].
  Qed.

  Lemma set_nth_length i v (l : list A) : length (set_nth i v l) = length l.
  Proof. revert i; induction l; destruct i; simpl; auto. Qed.

  Lemma nth_set_nth_same i v (l : list A) : (i < length l)%nat -> nth i (set_nth i v l) 0 = v.
  Proof. revert i; induction l; destruct i; simpl; intros; try lia; auto. apply IHl. lia. Qed.

  Lemma nth_set_nth_other i j v (l : list A) : i <> j -> nth j (set_nth i v l) 0 = nth j l 0.
  Proof. revert i j; induction l; destruct i, j; simpl; intros; try congruence; auto. Qed.

  Lemma scatter_length ws : forall l : list A, length (scatter ws l) = length l.
  Proof. unfold scatter. induction ws as [|w ws IH]; intros l; simpl; auto. rewrite IH. apply set_nth_length. Qed.

  Lemma scatter_notin i ws : forall l : list A,
    (forall w, In w ws -> fst w <> i) -> nth i (scatter ws l) 0 = nth i l 0.
  Proof.
    unfold scatter. induction ws as [|w ws IH]; intros l H; simpl; auto.
    rewrite IH by (intros; apply H; now right). apply nth_set_nth_other. apply H. now left.
  Qed.

  Lemma scatter_in i v ws : forall l : list A,
    NoDup (map fst ws) -> In (i, v) ws -> (i < length l)%nat -> nth i (scatter ws l) 0 = v.
  Proof.
    induction ws as [|w ws IH]; intros l Hnd Hin Hi; [destruct Hin|].
    simpl in Hnd. inversion Hnd; subst. change (scatter (w :: ws) l) with (scatter ws (set_nth (fst w) (snd w) l)).
    destruct Hin as [->|Hin].
    - simpl. rewrite scatter_notin.
      + apply nth_set_nth_same. exact Hi.
      + intros w Hw E. apply H1. apply in_map_iff. exists w. auto.
    - apply IH; auto. now rewrite set_nth_length.
  Qed.

  Lemma fsum_none P g : (forall ls, In ls g -> P (fst ls) = false) -> fsum P g = 0.
  Proof.
    induction g as [|[l s] r IH]; simpl; intros H; auto.
    pose proof (H (l, s) (or_introl eq_refl)) as E. simpl in E. rewrite E.
    rewrite IH by (intros; apply H; now right). ring.
  Qed.

  Lemma fsum_unique (pos : Z -> nat) i g : forall l0 s0,
    NoDup (map (fun ls => pos (fst ls)) g) -> In (l0, s0) g -> pos l0 = i ->
    fsum (fun l => Nat.eqb (pos l) i) g = s0.
  Proof.
    induction g as [|[l s] r IH]; intros l0 s0 Hnd Hin Hp; [destruct Hin|].
    simpl in Hnd. inversion Hnd; subst. simpl. destruct Hin as [E|Hin].
    - inversion E; subst. rewrite Nat.eqb_refl. rewrite fsum_none; [ring|].
      intros [l' s'] Hin. simpl. apply Nat.eqb_neq. intros E'. apply H1.
      apply in_map_iff. exists (l', s'). auto.
    - destruct (Nat.eqb_spec (pos l) (pos l0)) as [E|E].
      + exfalso. apply H1. apply in_map_iff. exists (l0, s0). auto.
      + rewrite (IH l0 s0); auto. ring.
  Qed.

  Lemma NoDup_map_inj {X Y} (f : X -> Y) (l : list X) :
    NoDup l -> (forall x y, In x l -> In y l -> f x = f y -> x = y) -> NoDup (map f l).
  Proof.
    induction 1 as [|a l Ha Hnd IH]; intros Hinj; simpl; constructor.
    - intros Hin. apply in_map_iff in Hin. destruct Hin as [b [E Hb]].
      assert (b = a) by (apply Hinj; simpl; auto). subst. contradiction.
    - apply IH. intros; apply Hinj; simpl; auto.
  Qed.

  Lemma filter_fsum (sign : A) (pos : Z -> nat) i (rows : list (@cf_row A)) :
    sumlist (map (cf_value zero one mul sign) (filter (fun r => Nat.eqb (pos (cf_junction r)) i) rows)) =
    fsum (fun l => Nat.eqb (pos l) i) (map (fun r => (cf_junction r, cf_value zero one mul sign r)) rows).
  Proof.
    induction rows as [|r rows IH]; simpl; auto.
    destruct (Nat.eqb (pos (cf_junction r)) i); simpl; rewrite IH; ring.
  Qed.

  Lemma load_aggregation_lemma (sign : A) (pos : Z -> nat) (rows : list (@cf_row A)) (loads : list A) (i : nat) :
    (forall r r', In r rows -> In r' rows -> pos (cf_junction r) = pos (cf_junction r') -> cf_junction r = cf_junction r') ->
    (i < length loads)%nat ->
    nth i (constflow_entries zero one add mul sign pos rows loads) 0 =
    nth i loads 0 + sumlist (map (cf_value zero one mul sign) (filter (fun r => Nat.eqb (pos (cf_junction r)) i) rows)).
  Proof.
    intros Hinj Hi. unfold Model.constflow_entries.
    set (kv := map (fun r => (cf_junction r, cf_value zero one mul sign r)) rows).
    set (g := sum_by_group kv).
    set (P := fun l => Nat.eqb (pos l) i).
    assert (R := filter_fsum sign pos i rows). fold kv in R. fold P in R.
    rewrite R, <- (sbg_fsum P kv). fold g.
    assert (K : forall l, In l (map fst g) -> exists r, In r rows /\ cf_junction r = l).
    { intros l Hl. apply sbg_keys in Hl. unfold kv in Hl. rewrite map_map in Hl. simpl in Hl.
      apply in_map_iff in Hl. destruct Hl as [r [E Hr]]. eauto. }
    assert (ND : NoDup (map (fun ls : Z * A => pos (fst ls)) g)).
    { rewrite <- (map_map fst pos). apply NoDup_map_inj; [apply sorted_NoDup, sbg_sorted|].
      intros x y Hx Hy E. destruct (K x Hx) as [r [Hr <-]]. destruct (K y Hy) as [r' [Hr' <-]]. apply Hinj; auto. }
    set (W := fun ls : Z * A => (pos (fst ls), nth (pos (fst ls)) loads 0 + snd ls)).
    assert (NW : NoDup (map fst (map W g))) by (rewrite map_map; exact ND).
    assert (D : (exists l0 s0, In (l0, s0) g /\ pos l0 = i) \/ (forall ls, In ls g -> pos (fst ls) <> i)).
    { clear. induction g as [|[l s] r IH]; [right; intros ls []|].
      destruct (Nat.eq_dec (pos l) i) as [E|E]; [left; exists l, s; simpl; auto|].
      destruct IH as [[l0 [s0 [H1 H2]]]|H]; [left; exists l0, s0; simpl; auto|].
      right. intros ls [<-|Hin]; simpl; auto. }
    subst P. cbv beta. destruct D as [[l0 [s0 [Hin Hp]]]|Hno].
    - rewrite (scatter_in i (nth i loads 0 + s0) (map W g) loads NW); auto.
      + rewrite (fsum_unique pos i g l0 s0 ND Hin Hp). reflexivity.
      + apply in_map_iff. exists (l0, s0). split; auto. unfold W. simpl. now rewrite Hp.
    - rewrite scatter_notin.
      + rewrite fsum_none; [ring|]. intros ls Hl. apply Nat.eqb_neq. apply Hno. exact Hl.
      + intros w Hw. apply in_map_iff in Hw. destruct Hw as [ls [<- Hl]]. simpl. apply Hno. exact Hl.
  Qed.

  (* ------------------------------------------------------------------ result extraction, grouped mean *)
  Lemma sum_const (v : A) {X} (l : list X) :
    sumlist (map (fun _ => v) l) = v * sumlist (map (fun _ => 1) l).
  Proof. induction l; simpl; [ring|]. rewrite IHl. ring. Qed.

  (* ext-grid share: the reported flows of the in-service p/pt ext grids on node i add up to the slack mass of i *)
  Lemma extgrid_share_lemma (div : A -> A -> A) (pos : Z -> nat) (rows : list (@eg_row)) (msl : list A) (i : nat) :
    (forall a, div a (eg_count zero one add pos i rows) * eg_count zero one add pos i rows = a) ->
    sumlist (map (eg_value zero one add div pos rows msl) (eg_at pos i rows)) = nth i msl 0.
  Proof.
    intros Hd.
    assert (E : map (eg_value zero one add div pos rows msl) (eg_at pos i rows)
                = map (fun _ => div (nth i msl 0) (eg_count zero one add pos i rows)) (eg_at pos i rows)).
    { apply map_ext_in. intros r Hr. unfold eg_at in Hr. apply filter_In in Hr. destruct Hr as [_ Hr].
      apply andb_true_iff in Hr. destruct Hr as [_ Hr]. apply Nat.eqb_eq in Hr.
      unfold Model.eg_value. now rewrite Hr. }
    rewrite E, sum_const. apply Hd.
  Qed.

  (* rows that are not (p/pt and in service) never receive a value; active rows always do *)
  Lemma extgrid_rows_lemma (div : A -> A -> A) (pos : Z -> nat) (rows : list (@eg_row)) (msl : list A) old k r :
    length old = length rows -> nth_error rows k = Some r ->
    nth_error (extgrid_results zero one add div pos rows msl old) k =
    Some (if eg_active r then Some (eg_value zero one add div pos rows msl r) else nth k old None).
  Proof.
    intros Hl Hr. unfold Model.extgrid_results. rewrite nth_error_map.
    assert (C : forall (a : list (@eg_row)) (b : list (option A)) k r, length b = length a -> nth_error a k = Some r ->
                nth_error (combine a b) k = Some (r, nth k b None)).
    { induction a as [|x a IH]; intros b k0 r0 H1 H2; [destruct k0; discriminate|].
      destruct b as [|y b]; [discriminate|]. destruct k0; simpl in *; [now inversion H2|]. apply IH; auto. }
    rewrite (C rows old k r Hl Hr). reflexivity.
  Qed.

  (* ConstFlow.extract_results vs the LOAD column: at a node all of whose rows are supplied, what the pit aggregated
     (cf_value, theorem load_aggregation) is sign * the sum of the reported values *)
  Lemma constflow_reported_lemma (sign : A) (pos : Z -> nat) (rows : list (@cf_row A)) (i : nat) :
    sumlist (map (cf_value zero one mul sign) (filter (fun r => Nat.eqb (pos (cf_junction r)) i) rows)) =
    sign * sumlist (map (reported_or_zero zero mul) (filter (fun r => Nat.eqb (pos (cf_junction r)) i) rows)).
  Proof.
    induction rows as [|r rows IH]; simpl; [ring|].
    destruct (Nat.eqb (pos (cf_junction r)) i); simpl; auto. rewrite IH.
    unfold Model.cf_value, Model.reported_or_zero. destruct (cf_in_service r); ring.
  Qed.

  Lemma constflow_rows_lemma (supplied : Z -> bool) (rows : list (@cf_row A)) old k r :
    length old = length rows -> nth_error rows k = Some r ->
    nth_error (constflow_results mul supplied rows old) k =
    Some (if cf_in_service r && supplied (cf_junction r) then Some (cf_mdot r * cf_scaling r) else nth k old None).
  Proof.
    intros Hl Hr. unfold Model.constflow_results. rewrite nth_error_map.
    assert (C : forall (a : list (@cf_row A)) (b : list (option A)) k r, length b = length a -> nth_error a k = Some r ->
                nth_error (combine a b) k = Some (r, nth k b None)).
    { induction a as [|x a IH]; intros b k0 r0 H1 H2; [destruct k0; discriminate|].
      destruct b as [|y b]; [discriminate|]. destruct k0; simpl in *; [now inversion H2|]. apply IH; auto. }
    rewrite (C rows old k r Hl Hr). reflexivity.
  Qed.

  (* ---- set_fixed_node_entries, grouped form *)
  Lemma glookup_fsum l (g : list (Z * A)) : glookup zero add l g = fsum (Z.eqb l) g.
  Proof. induction g as [|[l' s] r IH]; simpl; auto. now rewrite IH. Qed.

  Lemma fsum_ext P Q (g : list (Z * A)) : (forall ls, In ls g -> P (fst ls) = Q (fst ls)) -> fsum P g = fsum Q g.
  Proof.
    induction g as [|[l s] r IH]; simpl; intros H; auto.
    pose proof (H (l, s) (or_introl eq_refl)) as E. simpl in E. rewrite E, IH; auto.
  Qed.

  Lemma fixed_entries_grouped_lemma (div : A -> A -> A) (pos : Z -> nat) (rows : list (@fx_row A)) (st : @fx_state A) (i : nat) :
    let S := fsum (fun l => Nat.eqb (pos l) i) (fx_values rows) in
    let N := fsum (fun l => Nat.eqb (pos l) i) (fx_ones one rows) in
    let st' := fixed_entries2 zero one add mul div pos rows st in
    (forall r r', In r rows -> In r' rows -> fx_valid r = true -> fx_valid r' = true ->
                  pos (fx_junction r) = pos (fx_junction r') -> fx_junction r = fx_junction r') ->
    (i < length (fs_p st))%nat -> (i < length (fs_cnt st))%nat ->
    ((exists r, In r rows /\ fx_valid r = true /\ pos (fx_junction r) = i) ->
     forall a, div a (N + nth i (fs_cnt st) 0) * (N + nth i (fs_cnt st) 0) = a) ->
    nth i (fs_p st') 0 * (N + nth i (fs_cnt st) 0) = nth i (fs_p st) 0 * nth i (fs_cnt st) 0 + S
    /\ nth i (fs_cnt st') 0 = nth i (fs_cnt st) 0 + N.
  Proof.
    intros S N st' Hinj Hp Hc Hd. subst st'. unfold Model.fixed_entries2. cbn [fs_p fs_cnt].
    set (kv := fx_values rows) in *. set (kn := fx_ones one rows) in *.
    set (gv := sum_by_group kv). set (gn := sum_by_group kn).
    set (P := fun l => Nat.eqb (pos l) i) in *.
    assert (K : forall l, In l (map fst gv) -> exists r, In r rows /\ fx_valid r = true /\ fx_junction r = l).
    { intros l Hl. apply sbg_keys in Hl. unfold kv, Model.fx_values in Hl. rewrite map_map in Hl. simpl in Hl.
      apply in_map_iff in Hl. destruct Hl as [r [E Hr]]. apply filter_In in Hr. destruct Hr. eauto. }
    assert (ND : NoDup (map (fun ls : Z * A => pos (fst ls)) gv)).
    { rewrite <- (map_map fst pos). apply NoDup_map_inj; [apply sorted_NoDup, sbg_sorted|].
      intros x y Hx Hy E. destruct (K x Hx) as [r [Hr [Hv <-]]]. destruct (K y Hy) as [r' [Hr' [Hv' <-]]]. apply Hinj; auto. }
    assert (SV : fsum P gv = S) by (unfold S; apply sbg_fsum).
    assert (D : (exists l0 s0, In (l0, s0) gv /\ pos l0 = i) \/ (forall ls, In ls gv -> pos (fst ls) <> i)).
    { clear. induction gv as [|[l s] r IH]; [right; intros ls []|].
      destruct (Nat.eq_dec (pos l) i) as [E|E]; [left; exists l, s; simpl; auto|].
      destruct IH as [[l0 [s0 [H1 H2]]]|H]; [left; exists l0, s0; simpl; auto|].
      right. intros ls [<-|Hin]; simpl; auto. }
    destruct D as [[l0 [s0 [Hin Hpos]]]|Hno].
    - (* some valid row sits on node i: its label is l0 *)
      destruct (K l0 (in_map fst _ _ Hin)) as [r0 [Hr0 [Hv0 Hj0]]].
      assert (NE : glookup zero add l0 gn = N).
      { rewrite glookup_fsum. unfold gn. rewrite sbg_fsum. unfold N. apply fsum_ext.
        intros [l o] Hl. simpl. unfold kn, Model.fx_ones in Hl. apply in_map_iff in Hl. destruct Hl as [r [E Hr]].
        inversion E as [[E1' E2']]. subst l o. apply filter_In in Hr. destruct Hr as [Hr Hv]. unfold P.
        destruct (Z.eqb_spec l0 (fx_junction r)) as [E1|E1].
        - rewrite <- E1, Hpos. symmetry. apply Nat.eqb_refl.
        - symmetry. apply Nat.eqb_neq. intros E2. apply E1. rewrite <- Hj0. apply Hinj; auto. rewrite Hj0. congruence. }
      assert (S0 : s0 = S) by (rewrite <- SV; symmetry; apply (fsum_unique pos i gv l0 s0 ND Hin Hpos)).
      assert (Hex : exists r, In r rows /\ fx_valid r = true /\ pos (fx_junction r) = i)
        by (exists r0; rewrite Hj0; auto).
      split.
      + rewrite (scatter_in i (div (nth i (fs_p st) 0 * nth i (fs_cnt st) 0 + s0) (N + nth i (fs_cnt st) 0))).
        * rewrite S0. apply (Hd Hex).
        * rewrite map_map. exact ND.
        * apply in_map_iff. exists (l0, s0). split; auto. cbn [fst snd]. rewrite Hpos, NE. reflexivity.
        * exact Hp.
      + rewrite (scatter_in i (nth i (fs_cnt st) 0 + N)); auto.
        * rewrite map_map. exact ND.
        * apply in_map_iff. exists (l0, s0). split; auto. cbn [fst snd]. rewrite Hpos, NE. reflexivity.
    - assert (Z0 : S = 0).
      { rewrite <- SV. apply fsum_none. intros ls Hl. apply Nat.eqb_neq. apply Hno. exact Hl. }
      assert (N0 : N = 0).
      { unfold N. apply fsum_none. intros [l o] Hl. simpl. apply Nat.eqb_neq. intros E.
        unfold kn, Model.fx_ones in Hl. apply in_map_iff in Hl. destruct Hl as [r [E' Hr]]. inversion E' as [[E1' E2']]. subst l o.
        (* a valid row on node i would give a key of gv on node i *)
        assert (Hk : fsum (Z.eqb (fx_junction r)) gv = fsum (Z.eqb (fx_junction r)) kv) by apply sbg_fsum.
        assert (Hin : In (fx_junction r) (map fst gv)).
        { clear -Hr ND. unfold gv, kv, Model.fx_values.
          assert (G : forall (kv0 : list (Z * A)) l, In l (map fst kv0) -> In l (map fst (sum_by_group kv0))).
          { unfold Model.sum_by_group. intros kv0 l.
            assert (G1 : forall g l0 v0, In l (map fst g) \/ l = l0 -> In l (map fst (group_add l0 v0 g))).
            { induction g as [|[l' v'] g IH]; intros l0 v0 H; simpl.
              - destruct H as [H|H]; [destruct H|]. subst. now left.
              - destruct (Z.eqb_spec l0 l') as [->|Hne]; simpl.
                + destruct H as [[H|H]|H]; auto.
                + destruct (Z.ltb l0 l'); simpl.
                  * destruct H as [[H|H]|H]; auto.
                  * destruct H as [[H|H]|H]; auto. }
            assert (G2 : forall kv1 acc, In l (map fst acc) \/ In l (map fst kv1) ->
                         In l (map fst (fold_left (fun g lv => group_add (fst lv) (snd lv) g) kv1 acc))).
            { induction kv1 as [|[l1 v1] kv1 IH]; intros acc H; simpl in *; [tauto|].
              apply IH. destruct H as [H|[H|H]]; [left; apply G1; auto|left; apply G1; auto|right; exact H]. }
            intros H. apply G2. now right. }
          apply G. rewrite map_map. simpl. apply in_map_iff. exists r. auto. }
        apply in_map_iff in Hin. destruct Hin as [ls [E1 Hls]]. apply (Hno ls Hls). now rewrite E1. }
      split.
      + rewrite scatter_notin.
        * rewrite Z0, N0. ring.
        * intros w Hw. apply in_map_iff in Hw. destruct Hw as [ls [<- Hl]]. simpl. apply Hno. exact Hl.
      + rewrite scatter_notin.
        * rewrite N0. ring.
        * intros w Hw. apply in_map_iff in Hw. destruct Hw as [ls [<- Hl]]. simpl. apply Hno. exact Hl.
  Qed.

End Proofs.
