(* C01 - mass conservation: property theorems only (each closed by [exact] of a lemma of Proofs.v).
   All statements are over an arbitrary commutative ring (A, zero, one, add, mul, sub, opp) and
   hold for any number of nodes and branches, parallel branches and self loops included.
   The model (Model.v) is tied to /repo by exact correspondences evaluated inside Coq on every run. *)
From Coq Require Import ZArith QArith List Bool Arith Ring Lia Field.
From PP Require Import C01.Model C01.Proofs C01.Corr C06.ModelExtract C01.ProofsExtract.
Import ListNotations.
Close Scope Q_scope.
Open Scope nat_scope.

(* 1. the Jacobian row and right-hand side of every non-slack node are exactly the nodal balance *)
Theorem node_row_shape :
  forall (A : Type) (zero one : A) (add mul sub : A -> A -> A) (opp : A -> A),
  ring_theory zero one add mul sub opp eq ->
  forall (ns : list (@node A)) (bs : list (@branch A)) (x : nat -> A) (i : nat) (nd : @node A),
  nth_error ns i = Some nd -> is_TSlack (n_typ nd) = false ->
  rowsum zero add mul (trips zero one opp ns bs) i x =
    nodesum zero add sub (fun k b => mul (b_dmn b) (x (length ns + k))) (fun k b => mul (b_dmn b) (x (length ns + k))) i 0 bs
  /\ nth i (eps zero add sub opp ns bs) zero =
     add (opp (n_load nd)) (nodesum zero add sub (@lvf_ A) (@lvt_ A) i 0 bs).
Proof. exact @node_row_lemma. Qed.
Print Assumptions node_row_shape.

(* 2. after the update m' = m - alpha x with ANY solution x of the assembled system the nodal
      imbalance of every non-slack node is (1 - alpha) times the old one *)
Theorem balance_after_step :
  forall (A : Type) (zero one : A) (add mul sub : A -> A -> A) (opp : A -> A),
  ring_theory zero one add mul sub opp eq ->
  forall (ns : list (@node A)) (bs : list (@branch A)) (m x : nat -> A) (alpha : A) (i : nat) (nd : @node A),
  solves zero one add mul sub opp ns bs x -> kernel_cols one bs m ->
  nth_error ns i = Some nd -> is_TSlack (n_typ nd) = false ->
  sub (inflow zero add sub (fun k => sub (m k) (mul (x (length ns + k)) alpha)) i bs) (n_load nd) =
  mul (sub one alpha) (sub (inflow zero add sub m i bs) (n_load nd)).
Proof. exact @balance_lemma. Qed.
Print Assumptions balance_after_step.

(* 3. slack nodes: the slack-mass update (no alpha, as in the code) makes the new slack mass the
      imbalance of the node under the FULL step m - x *)
Theorem slack_balance_after_step :
  forall (A : Type) (zero one : A) (add mul sub : A -> A -> A) (opp : A -> A),
  ring_theory zero one add mul sub opp eq ->
  forall (ns : list (@node A)) (bs : list (@branch A)) (m x : nat -> A) (j s : nat),
  solves zero one add mul sub opp ns bs x -> kernel_cols one bs m -> ends_in_range ns bs ->
  nth_error (slack_nodes ns) j = Some s -> dmsl_of zero ns s = opp one ->
  sub (msl_of zero ns s) (x (length ns + length bs + j)) =
  sub (inflow zero add sub (fun k => sub (m k) (mul (x (length ns + k)) one)) s bs) (load_of zero ns s).
Proof. exact @slack_balance_lemma. Qed.
Print Assumptions slack_balance_after_step.

(* 4a. global balance (graph level): nodal balance everywhere implies total feed = - total load *)
Theorem global_balance :
  forall (A : Type) (zero one : A) (add mul sub : A -> A -> A) (opp : A -> A),
  ring_theory zero one add mul sub opp eq ->
  forall (ns : list (@node A)) (bs : list (@branch A)) (g feed : nat -> A),
  ends_in_range ns bs ->
  (forall i nd, nth_error ns i = Some nd -> is_TSlack (n_typ nd) = false ->
                sub (inflow zero add sub g i bs) (n_load nd) = zero) ->
  (forall s nd, nth_error ns s = Some nd -> is_TSlack (n_typ nd) = true ->
                feed s = sub (inflow zero add sub g s bs) (n_load nd)) ->
  sumlist zero add (map feed (slack_nodes ns)) = opp (sumlist zero add (map (@n_load A) ns)).
Proof. exact @global_balance_lemma. Qed.
Print Assumptions global_balance.

(* 4b. ... and for the values the code writes after one full step from any iterate *)
Theorem global_balance_after_step :
  forall (A : Type) (zero one : A) (add mul sub : A -> A -> A) (opp : A -> A),
  ring_theory zero one add mul sub opp eq ->
  forall (ns : list (@node A)) (bs : list (@branch A)) (m x : nat -> A),
  solves zero one add mul sub opp ns bs x -> kernel_cols one bs m -> ends_in_range ns bs ->
  (forall s, In s (slack_nodes ns) -> dmsl_of zero ns s = opp one) ->
  sumlist zero add (step_msl sub (length ns + length bs) (map (msl_of zero ns) (slack_nodes ns)) x)
  = opp (sumlist zero add (map (@n_load A) ns)).
Proof. exact @global_after_step_lemma. Qed.
Print Assumptions global_balance_after_step.

(* 5. load aggregation of ConstFlow (sinks, sources, mass storages; scaling, sign, in_service;
      any labels and row order): LOAD of node i grows by the sum over the rows attached to i *)
Theorem load_aggregation :
  forall (A : Type) (zero one : A) (add mul sub : A -> A -> A) (opp : A -> A),
  ring_theory zero one add mul sub opp eq ->
  forall (sign : A) (pos : Z -> nat) (rows : list (@cf_row A)) (loads : list A) (i : nat),
  (forall r r', In r rows -> In r' rows -> pos (cf_junction r) = pos (cf_junction r') -> cf_junction r = cf_junction r') ->
  i < length loads ->
  nth i (constflow_entries zero one add mul sign pos rows loads) zero =
  add (nth i loads zero)
      (sumlist zero add (map (cf_value zero one mul sign) (filter (fun r => Nat.eqb (pos (cf_junction r)) i) rows))).
Proof. exact @load_aggregation_lemma. Qed.
Print Assumptions load_aggregation.

(* 6. reported values.  ExtGrid.extract_results: the flows reported for the in-service p/pt ext grids on node i add
      up to the slack mass of node i (even split; [div] must invert the multiplication by the count - true in a field
      whenever at least one such ext grid exists); rows that are out of service or of type t never get a value *)
Theorem ext_grid_share :
  forall (A : Type) (zero one : A) (add mul sub : A -> A -> A) (opp : A -> A),
  ring_theory zero one add mul sub opp eq ->
  forall (div : A -> A -> A) (pos : Z -> nat) (rows : list eg_row) (msl : list A) (i : nat),
  (forall a, mul (div a (eg_count zero one add pos i rows)) (eg_count zero one add pos i rows) = a) ->
  sumlist zero add (map (eg_value zero one add div pos rows msl) (eg_at pos i rows)) = nth i msl zero.
Proof. exact @extgrid_share_lemma. Qed.
Print Assumptions ext_grid_share.

Theorem ext_grid_rows :
  forall (A : Type) (zero one : A) (add : A -> A -> A) (div : A -> A -> A) (pos : Z -> nat) (rows : list eg_row)
         (msl : list A) (old : list (option A)) (k : nat) (r : eg_row),
  length old = length rows -> nth_error rows k = Some r ->
  nth_error (extgrid_results zero one add div pos rows msl old) k =
  Some (if eg_active r then Some (eg_value zero one add div pos rows msl r) else nth k old None).
Proof. intros A zero one add. exact (@extgrid_rows_lemma A zero one add). Qed.
Print Assumptions ext_grid_rows.

(* 7. ConstFlow.extract_results: a row reports mdot * scaling iff it is in service and its junction is supplied
      (otherwise the NaN of init_results stays), and what the pit aggregated into LOAD_i (theorem 5) is exactly
      sign * (sum of the values reported by the in-service rows at node i) *)
Theorem constflow_results_rows :
  forall (A : Type) (mul : A -> A -> A) (supplied : Z -> bool) (rows : list (@cf_row A)) (old : list (option A))
         (k : nat) (r : @cf_row A),
  length old = length rows -> nth_error rows k = Some r ->
  nth_error (constflow_results mul supplied rows old) k =
  Some (if cf_in_service r && supplied (cf_junction r) then Some (mul (cf_mdot r) (cf_scaling r)) else nth k old None).
Proof. intros A mul. exact (@constflow_rows_lemma A mul). Qed.
Print Assumptions constflow_results_rows.

Theorem reported_loads_are_LOAD :
  forall (A : Type) (zero one : A) (add mul sub : A -> A -> A) (opp : A -> A),
  ring_theory zero one add mul sub opp eq ->
  forall (sign : A) (pos : Z -> nat) (rows : list (@cf_row A)) (i : nat),
  sumlist zero add (map (cf_value zero one mul sign) (filter (fun r => Nat.eqb (pos (cf_junction r)) i) rows)) =
  mul sign (sumlist zero add (map (reported_or_zero zero mul) (filter (fun r => Nat.eqb (pos (cf_junction r)) i) rows))).
Proof. exact @constflow_reported_lemma. Qed.
Print Assumptions reported_loads_are_LOAD.

(* 8. extract_mdot_signs: for a branch table with internal sections (pipes; secs = sections per row, in table order)
      the placement of C06 applied to mf_from = MDOTINIT and mf_to = - MDOTINIT (get_basic_branch_results, T-tie in
      PropsT.basic_results_mdot) gives every row r whose end section is connected
         mdot_from_r = m of its FIRST section,   mdot_to_r = - m of its LAST section
      and leaves the initial NaN (old) otherwise - for any number of rows and sections *)
Theorem extract_mdot_signs :
  forall (A : Type) (zero : A) (opp : A -> A) (secs : list nat) (conn : list bool) (ms old_from old_to : list A),
  (forall s, In s secs -> 0 < s) ->
  length conn = fold_right plus 0 secs -> length ms = fold_right plus 0 secs ->
  length old_from = length secs -> length old_to = length secs ->
  exists rows_from rows_to,
    place_ext conn (blocks_mask (first_blocks secs)) (branch_mf_from ms) old_from = Some rows_from /\
    place_ext conn (blocks_mask (last_blocks secs)) (branch_mf_to opp ms) old_to = Some rows_to /\
    forall r s, nth_error secs r = Some s ->
      let first := nth r (pos_of_blocks 0 (first_blocks secs)) 0 in
      let last := nth r (pos_of_blocks 0 (last_blocks secs)) 0 in
      nth_error rows_from r = Some (if nth first conn false then nth first ms zero else nth r old_from zero) /\
      nth_error rows_to r = Some (if nth last conn false then opp (nth last ms zero) else nth r old_to zero).
Proof. exact @extract_mdot_signs_lemma. Qed.
Print Assumptions extract_mdot_signs.

(* ---------------------------------------------------------------- non-vacuity: a meshed net with two parallel
   branches, a self loop and two slack nodes; x is a solution of its assembled system at Z *)
Definition ex_nodes : list (@node Z) :=
  [nd TSlack 2 5 (-1); nd TOther 3 0 0; nd TOther (-1) 0 0; nd TSlack 0 (-2) (-1); nd TOther 4 0 0].
Definition ex_m (k : nat) : Z := nth k [3; -2; 5; 1; 4; 7; 2]%Z 0%Z.
Definition ex_branches : list (@branch Z) :=
  [br 0 1 2 1 (-1) 1 (-11) 3 3 false; br 1 2 3 1 (-1) 1 17 (-2) (-2) false; br 1 2 1 1 (-1) 1 0 5 5 false;
   br 2 3 2 1 (-1) 1 4 1 1 false; br 2 4 1 1 (-1) 1 (-6) 4 4 false; br 4 4 5 1 (-1) 1 (-5) 7 7 false;
   br 0 4 1 1 (-1) 1 4 2 2 false].
Definition ex_x (i : nat) : Z := nth i [0; 3; -2; 0; 1; -4; 4; -5; 3; -3; -1; 5; 11; 0]%Z 0%Z.

Example example_guards :
  ends_in_range ex_nodes ex_branches /\ kernel_cols 1%Z ex_branches ex_m /\
  slack_nodes ex_nodes = [0; 3] /\ dim ex_nodes ex_branches = 14.
Proof.
  split; [|split; [|split; reflexivity]].
  - intros b H. simpl in H. repeat (destruct H as [<-|H]; [simpl; split; repeat constructor|]). destruct H.
  - intros k b H. do 7 (destruct k as [|k]; [inversion H; subst; repeat split; reflexivity|]).
    destruct k; discriminate.
Qed.

Example example_solves : solves 0%Z 1%Z Z.add Z.mul Z.sub Z.opp ex_nodes ex_branches ex_x.
Proof.
  intros r Hr. change (dim ex_nodes ex_branches) with 14 in Hr.
  do 14 (destruct r as [|r]; [vm_compute; reflexivity|]). lia.
Qed.

(* the conclusion of theorem 2 on the example (alpha = 1): exact balance at the non-slack nodes *)
Example example_balance :
  map (fun i => (inflow 0 Z.add Z.sub (fun k => ex_m k - ex_x (5 + k) * 1) i ex_branches - load_of 0%Z ex_nodes i)%Z) [1; 2; 4]
  = [0; 0; 0]%Z.
Proof. vm_compute. reflexivity. Qed.

(* load aggregation on a concrete table: labels 100005 / 7 / 3 in arbitrary row order, two rows on one junction,
   scaling, an out-of-service row, sign -1 (sources); hypotheses of theorem 5 hold (pos is injective) *)
Example example_load_aggregation :
  constflow_entries 0%Z 1%Z Z.add Z.mul (-1)%Z (zassoc [(100005%Z, 2); (7%Z, 0); (3%Z, 1)] 9)
    [cf 100005 4 2 true; cf 3 5 1 true; cf 100005 1 3 true; cf 7 6 1 false] [10; 20; 30]%Z = [10; 15; 19]%Z.
Proof. vm_compute. reflexivity. Qed.

(* ext-grid share on a concrete table at Q: three ext grids on junction 7 (one out of service, one of type t is not
   counted), slack mass 120 -> the two active ones report 60 each; the div hypothesis of theorem 6 holds (count = 2) *)
Example example_ext_grid_share :
  extgrid_results 0%Q 1%Q Qplus Qdiv (zassoc [(7%Z, 1); (3%Z, 0)] 9)
    [eg 7 true true; eg 7 true false; eg 3 true true; eg 7 false true; eg 7 true true] [30; 120]%Q
    [None; None; None; None; None]
  = [Some (Qdiv 120 (1 + (1 + 0))); None; Some (Qdiv 30 (1 + 0)); None; Some (Qdiv 120 (1 + (1 + 0)))]%Q
  /\ (forall a : Q, Qeq (Qmult (Qdiv a (1 + (1 + 0))) (1 + (1 + 0))) a).
Proof. split; [vm_compute; reflexivity|]. intros a. field. Qed.

Example example_constflow_results :
  constflow_results Z.mul (fun l => existsb (Z.eqb l) [3; 100005]%Z)
    [cf 100005 4 2 true; cf 3 5 1 false; cf 8 1 3 true] [None; None; None] = [Some 8%Z; None; None].
Proof. vm_compute. reflexivity. Qed.

(* three pipes with 1 / 3 / 2 sections, the last pipe disconnected: from-values are the first, to-values minus the last
   section flows of each connected row *)
Example example_mdot_signs :
  place_ext [true; true; true; true; false; false] (blocks_mask (first_blocks [1; 3; 2]))
            (branch_mf_from [5; 7; 7; 7; 2; 2]%Z) [0; 0; 0]%Z = Some [5; 7; 0]%Z /\
  place_ext [true; true; true; true; false; false] (blocks_mask (last_blocks [1; 3; 2]))
            (branch_mf_to Z.opp [5; 7; 8; 9; 2; 3]%Z) [0; 0; 0]%Z = Some [-5; -9; 0]%Z.
Proof. vm_compute. split; reflexivity. Qed.
