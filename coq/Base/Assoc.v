(* Association lists modelling Python dicts with string keys (definitions + lemmas). *)
From Coq Require Import String List Bool.
Import ListNotations.
Open Scope string_scope.

Section Assoc.
  Variable V : Type.
  Definition layer := list (string * V).

  Fixpoint get (k : string) (l : layer) : option V :=
    match l with
    | [] => None
    | (k', v) :: r => if String.eqb k k' then Some v else get k r
    end.

  Definition mem (k : string) (l : layer) : bool :=
    match get k l with Some _ => true | None => false end.

  (* d[k] = v : replace the binding in place, or append (insertion order is kept) *)
  Fixpoint set (k : string) (v : V) (l : layer) : layer :=
    match l with
    | [] => [(k, v)]
    | (k', v') :: r => if String.eqb k k' then (k', v) :: r else (k', v') :: set k v r
    end.

  (* d.pop(k, None) *)
  Fixpoint remove (k : string) (l : layer) : layer :=
    match l with
    | [] => []
    | (k', v') :: r => if String.eqb k k' then remove k r else (k', v') :: remove k r
    end.

  (* {**a, **b} *)
  Definition merge (a b : layer) : layer := fold_left (fun acc kv => set (fst kv) (snd kv) acc) b a.

  Lemma get_set_same k v l : get k (set k v l) = Some v.
  Proof.
    induction l as [|[k' v'] r IH]; simpl.
    - now rewrite String.eqb_refl.
    - destruct (String.eqb k k') eqn:E; simpl; rewrite E; auto.
  Qed.

  Lemma get_set_other k k' v l : k <> k' -> get k (set k' v l) = get k l.
  Proof.
    intros Hne. induction l as [|[k2 v2] r IH]; simpl.
    - destruct (String.eqb k k') eqn:E; auto. apply String.eqb_eq in E. contradiction.
    - destruct (String.eqb k' k2) eqn:E2; simpl.
      + apply String.eqb_eq in E2. subst k2.
        destruct (String.eqb k k') eqn:E; auto. apply String.eqb_eq in E. contradiction.
      + destruct (String.eqb k k2); auto.
  Qed.

  Lemma get_remove_same k l : get k (remove k l) = None.
  Proof.
    induction l as [|[k' v'] r IH]; simpl; auto.
    destruct (String.eqb k k') eqn:E; simpl; auto. now rewrite E.
  Qed.

  Lemma get_remove_other k k' l : k <> k' -> get k (remove k' l) = get k l.
  Proof.
    intros Hne. induction l as [|[k2 v2] r IH]; simpl; auto.
    destruct (String.eqb k' k2) eqn:E2; simpl.
    - apply String.eqb_eq in E2. subst k2.
      destruct (String.eqb k k') eqn:E; auto. apply String.eqb_eq in E. contradiction.
    - now rewrite IH.
  Qed.


  Fixpoint nodup_keys (l : layer) : bool :=
    match l with
    | [] => true
    | (k, _) :: r => negb (mem k r) && nodup_keys r
    end.

  Lemma get_merge k a b : nodup_keys b = true ->
    get k (merge a b) = match get k b with Some v => Some v | None => get k a end.
  Proof.
    unfold merge. revert a. induction b as [|[k' v'] r IH]; intros a Hnd; simpl; auto.
    simpl in Hnd. apply andb_true_iff in Hnd. destruct Hnd as [Hk Hr].
    rewrite (IH _ Hr). destruct (String.eqb k k') eqn:E.
    - apply String.eqb_eq in E. subst k'.
      unfold mem in Hk. destruct (get k r); simpl in Hk; try discriminate.
      apply get_set_same.
    - destruct (get k r); auto. apply get_set_other. intros ->. now rewrite String.eqb_refl in E.
  Qed.

  Lemma mem_set_other k k' v l : k <> k' -> mem k (set k' v l) = mem k l.
  Proof. intros. unfold mem. now rewrite get_set_other. Qed.

  Lemma nodup_set k v l : nodup_keys l = true -> nodup_keys (set k v l) = true.
  Proof.
    induction l as [|[k' v'] r IH]; simpl; auto.
    intros H. apply andb_true_iff in H. destruct H as [H1 H2].
    destruct (String.eqb k k') eqn:E; simpl.
    - now rewrite H1, H2.
    - rewrite IH by auto. rewrite mem_set_other.
      + now rewrite H1.
      + intros ->. now rewrite String.eqb_refl in E.
  Qed.
End Assoc.

Arguments get {V}. Arguments mem {V}. Arguments set {V}. Arguments remove {V}.
Arguments merge {V}. Arguments nodup_keys {V}.
