(* C14 - hand-written executable model of pandapipes.pf.pipeflow_setup.init_options,
   _iteration_check, _mode_check (H-tie; definitions only, no proofs).
   Tie: tools/props/c14.py runs the real init_options on every presence pattern and compares
   inside Coq with [resolve] applied to the *generated* default table (Gen/OptDefaults.v). *)
From Coq Require Import String List Bool ZArith.
From PP Require Import Base.Assoc.
Import ListNotations.
Open Scope string_scope.

(* Python values as far as init_options inspects them.  VTok = any other object (floats, lists,
   dicts ...) identified by its repr; never inspected, only carried. *)
Inductive value := VBool (b : bool) | VInt (z : Z) | VStr (s : string) | VNone | VTok (repr : string).

Definition value_eqb (a b : value) : bool :=
  match a, b with
  | VBool x, VBool y => Bool.eqb x y
  | VInt x, VInt y => Z.eqb x y
  | VStr x, VStr y => String.eqb x y
  | VNone, VNone => true
  | VTok x, VTok y => String.eqb x y
  | _, _ => false
  end.

(* Python truthiness (`not opts[k]`).  VTok is truthy: the harness never feeds falsy tokens
   (0.0, empty containers) into the two inspected keys; stated in DESIGN C14. *)
Definition truthy (v : value) : bool :=
  match v with
  | VBool b => b
  | VInt z => negb (Z.eqb z 0)
  | VStr s => negb (String.eqb s "")
  | VNone => false
  | VTok _ => true
  end.

Definition opts := layer value.

Definition stage_keys : list string := ["max_iter_hyd"; "max_iter_therm"; "max_iter_bidirect"].

(* _iteration_check: `iter` fills the stage limits its own layer does not bind *)
Definition iteration_check (l : opts) : opts :=
  match get "iter" l with
  | None | Some VNone => l
  | Some n => fold_left (fun acc key => if mem key acc then acc else set key n acc) stage_keys l
  end.

Definition mode_check (o : opts) : opts :=
  match get "mode" o with
  | Some (VStr "all") => set "mode" (VStr "sequential") o
  | _ => o
  end.

Definition truthy_at (k : string) (o : opts) : bool :=
  match get k o with Some v => truthy v | None => false end.

(* init_options: net["_options"] as a function of the three layers, of whether numba can be
   imported and of the fluid name *)
Definition resolve (numba_installed : bool) (fluid : value) (defaults user kw : opts) : opts :=
  let o := merge (merge defaults (iteration_check user)) (iteration_check kw) in
  let o := remove "t_start" (remove "interactive_plotting" o) in
  let o := if truthy_at "only_update_hydraulic_matrix" o then o
           else set "reuse_internal_data" (VBool false) o in
  let o := if numba_installed then o else set "use_numba" (VBool false) o in
  let o := set "fluid" fluid o in
  mode_check o.

(* keys whose resolved value is not plain precedence *)
Definition coupled : list string :=
  ["reuse_internal_data"; "use_numba"; "fluid"; "mode"; "interactive_plotting"; "t_start";
   "max_iter_hyd"; "max_iter_therm"; "max_iter_bidirect"].

Definition is_coupled (k : string) : bool := existsb (String.eqb k) coupled.

(* ---- comparison helpers used by the generated correspondence cases ---- *)
Definition opt_value_eqb (a b : option value) : bool :=
  match a, b with
  | Some x, Some y => value_eqb x y
  | None, None => true
  | _, _ => false
  end.

Definition same_dict (a b : opts) : bool :=
  forallb (fun kv => opt_value_eqb (get (fst kv) a) (get (fst kv) b)) a &&
  forallb (fun kv => opt_value_eqb (get (fst kv) a) (get (fst kv) b)) b.

Record case := { c_numba : bool; c_fluid : value; c_user : opts; c_kw : opts; c_observed : opts }.

Definition case_ok (defaults : opts) (c : case) : bool :=
  same_dict (resolve (c_numba c) (c_fluid c) defaults (c_user c) (c_kw c)) (c_observed c).

Fixpoint first_bad (defaults : opts) (cs : list case) (i : nat) : option nat :=
  match cs with
  | [] => None
  | c :: r => if case_ok defaults c then first_bad defaults r (S i) else Some i
  end.

Definition summary (defaults : opts) (cs : list case) : nat * nat * Z :=
  (length cs, length (filter (fun c => negb (case_ok defaults c)) cs),
   match first_bad defaults cs 0 with Some i => Z.of_nat i | None => (-1)%Z end).

(* documentation table vs code table *)
Definition doc_mismatches (code doc : opts) : list string :=
  map fst (filter (fun kv => negb (opt_value_eqb (get (fst kv) code) (Some (snd kv)))) doc).

(* ---- set_user_pf_options: the stored user layer as a function of the call history ---- *)
(* set_user_pf_options(net, reset, **kw): `net.user_pf_options` is replaced by {} when reset (or when absent:
   modelled by starting from []), then updated with kw. *)
Definition set_user (user : opts) (reset : bool) (kw : opts) : opts :=
  merge (if reset then [] else user) kw.

Definition set_user_seq (ops : list (bool * opts)) (user0 : opts) : opts :=
  fold_left (fun u op => set_user u (fst op) (snd op)) ops user0.

(* correspondence case for a history of set_user_pf_options calls followed by init_options *)
Record hcase := { h_ops : list (bool * opts); h_kw : opts; h_stored : opts; h_observed : opts }.

Definition hcase_ok (defaults : opts) (c : hcase) : bool :=
  let u := set_user_seq (h_ops c) [] in
  same_dict u (h_stored c) &&
  same_dict (resolve true (VStr "water") defaults u (h_kw c)) (h_observed c).

Definition hsummary (defaults : opts) (cs : list hcase) : nat * nat * Z :=
  (length cs, length (filter (fun c => negb (hcase_ok defaults c)) cs),
   (fix first (l : list hcase) (i : Z) : Z :=
      match l with [] => (-1)%Z | c :: r => if hcase_ok defaults c then first r (i + 1)%Z else i end) cs 0%Z).
