(* C14 - property theorems only.  Each is closed by [exact] of a lemma of Proofs.v (hand model,
   tied by exhaustive correspondence) or decided by computation on Gen/OptDefaults.v (regenerated
   from pipeflow_setup.py on every run). *)
From Coq Require Import String List Bool ZArith.
From PP Require Import Base.Assoc C14.Model C14.Proofs Gen.OptDefaults.
Import ListNotations.
Open Scope string_scope.

(* call > user options > defaults, for every key outside the documented couplings *)
Theorem precedence : forall nb fl d u k key,
  nodup_keys u = true -> nodup_keys k = true -> is_coupled key = false ->
  get key (resolve nb fl d u k) = prec key d u k.
Proof. exact precedence_lemma. Qed.
Print Assumptions precedence.

(* `iter` sets the stage limits of its own layer only where that layer does not set them *)
Theorem iter_expansion : forall nb fl d u k key,
  nodup_keys u = true -> nodup_keys k = true -> is_stage key = true ->
  get key (resolve nb fl d u k) =
  first_some (get key k) (first_some (iter_val k)
    (first_some (get key u) (first_some (iter_val u) (get key d)))).
Proof. exact iter_expansion_lemma. Qed.
Print Assumptions iter_expansion.

Theorem coupling_reuse_internal_data : forall nb fl d u k,
  nodup_keys u = true -> nodup_keys k = true ->
  get "reuse_internal_data" (resolve nb fl d u k) =
  if truthy_opt (prec "only_update_hydraulic_matrix" d u k)
  then prec "reuse_internal_data" d u k else Some (VBool false).
Proof. exact reuse_lemma. Qed.
Print Assumptions coupling_reuse_internal_data.

Theorem coupling_mode_all_is_sequential : forall nb fl d u k,
  nodup_keys u = true -> nodup_keys k = true ->
  get "mode" (resolve nb fl d u k) =
  match prec "mode" d u k with
  | Some (VStr s) => if String.eqb s "all" then Some (VStr "sequential") else Some (VStr s)
  | other => other end.
Proof. exact mode_lemma. Qed.
Print Assumptions coupling_mode_all_is_sequential.

Theorem coupling_numba_fallback : forall nb fl d u k,
  nodup_keys u = true -> nodup_keys k = true ->
  get "use_numba" (resolve nb fl d u k) = if nb then prec "use_numba" d u k else Some (VBool false).
Proof. exact numba_lemma. Qed.
Print Assumptions coupling_numba_fallback.

Theorem coupling_fluid_and_removed_keys : forall nb fl d u k,
  get "fluid" (resolve nb fl d u k) = Some fl /\
  get "interactive_plotting" (resolve nb fl d u k) = None /\ get "t_start" (resolve nb fl d u k) = None.
Proof. intros. split; [apply fluid_lemma | apply removed_keys_lemma]. Qed.
Print Assumptions coupling_fluid_and_removed_keys.

(* unknown options are carried through and affect no other option *)
Theorem unknown_keys_pass_through : forall nb fl d u k key v other,
  nodup_keys u = true -> nodup_keys k = true ->
  get key k = None -> is_coupled key = false -> is_stage key = false -> key <> "iter" ->
  key <> "only_update_hydraulic_matrix" -> key <> other ->
  get other (resolve nb fl d u (set key v k)) = get other (resolve nb fl d u k)
  /\ get key (resolve nb fl d u (set key v k)) = Some v.
Proof. exact unknown_passes_lemma. Qed.
Print Assumptions unknown_keys_pass_through.

(* set_user_pf_options history: what is stored = the latest binding of each key since the latest reset ... *)
Theorem stored_options_follow_history : forall (ops : list (bool * opts)) key,
  Forall (fun op => nodup_keys (snd op) = true) ops ->
  get key (set_user_seq ops []) = latest key (rev ops).
Proof. exact stored_options_lemma. Qed.
Print Assumptions stored_options_follow_history.

(* ... and the value in force after any history of set_user_pf_options calls and a pipeflow call *)
Theorem precedence_after_history : forall nb fl d (ops : list (bool * opts)) k key,
  Forall (fun op => nodup_keys (snd op) = true) ops -> nodup_keys k = true -> is_coupled key = false ->
  get key (resolve nb fl d (set_user_seq ops []) k)
  = first_some (get key k) (first_some (latest key (rev ops)) (get key d)).
Proof. exact precedence_after_history_lemma. Qed.
Print Assumptions precedence_after_history.

(* the documented default of every documented option is the default in force (generated tables) *)
Theorem defaults_match_documentation : doc_mismatches code_defaults doc_defaults = [].
Proof. vm_compute. reflexivity. Qed.
Print Assumptions defaults_match_documentation.

(* non-vacuity: the generated default table satisfies the guards and exercises the couplings *)
Example defaults_wellformed :
  nodup_keys code_defaults = true /\ length code_defaults >= 20 /\
  get "max_iter_hyd" (resolve true (VStr "water") code_defaults [("iter", VInt 3); ("max_iter_hyd", VInt 7)]
                              [("max_iter_therm", VInt 5)]) = Some (VInt 7) /\
  get "max_iter_bidirect" (resolve true (VStr "water") code_defaults [("iter", VInt 3); ("max_iter_hyd", VInt 7)]
                              [("max_iter_therm", VInt 5)]) = Some (VInt 3).
Proof. vm_compute. repeat split; auto; repeat constructor. Qed.
