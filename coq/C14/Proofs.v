(* C14 - proofs about the model of init_options (all for arbitrary layers, any keys). *)
From Coq Require Import String List Bool ZArith.
From PP Require Import Base.Assoc C14.Model.
Import ListNotations.
Open Scope string_scope.

Definition first_some {A} (a b : option A) : option A := match a with Some x => Some x | None => b end.

(* call > user > defaults *)
Definition prec (key : string) (d u k : opts) : option value :=
  first_some (get key k) (first_some (get key u) (get key d)).

(* the value `iter` contributes in a layer (None when absent or None) *)
Definition iter_val (l : opts) : option value :=
  match get "iter" l with None | Some VNone => None | Some n => Some n end.

Definition is_stage (key : string) : bool := existsb (String.eqb key) stage_keys.

Lemma eqb_neq a b : String.eqb a b = false -> a <> b.
Proof. intros H ->. now rewrite String.eqb_refl in H. Qed.

(* ---- _iteration_check ---- *)
Lemma fold_stage_get_other (n : value) key (ks : list string) (l : opts) :
  existsb (String.eqb key) ks = false ->
  get key (fold_left (fun acc k0 => if mem k0 acc then acc else set k0 n acc) ks l) = get key l.
Proof.
  revert l. induction ks as [|k0 ks IH]; intros l H; simpl in *; auto.
  apply orb_false_iff in H. destruct H as [H0 H1].
  rewrite IH by auto. destruct (mem k0 l); auto.
  apply get_set_other. now apply eqb_neq.
Qed.

Lemma fold_stage_nodup (n : value) (ks : list string) (l : opts) :
  nodup_keys l = true ->
  nodup_keys (fold_left (fun acc k0 => if mem k0 acc then acc else set k0 n acc) ks l) = true.
Proof.
  revert l. induction ks as [|k0 ks IH]; intros l H; simpl; auto.
  apply IH. destruct (mem k0 l); auto. now apply nodup_set.
Qed.

Lemma iteration_check_nodup l : nodup_keys l = true -> nodup_keys (iteration_check l) = true.
Proof.
  intros H. unfold iteration_check. destruct (get "iter" l) as [[]|]; auto; now apply fold_stage_nodup.
Qed.

Lemma iteration_check_other key l : is_stage key = false -> get key (iteration_check l) = get key l.
Proof.
  intros H. unfold iteration_check.
  destruct (get "iter" l) as [[]|]; auto; now apply fold_stage_get_other.
Qed.

(* a stage key of a layer after the check: its own binding, else the layer's iter *)
Lemma fold_stage_get_in (n : value) key (ks : list string) (l : opts) :
  existsb (String.eqb key) ks = true ->
  get key (fold_left (fun acc k0 => if mem k0 acc then acc else set k0 n acc) ks l)
  = first_some (get key l) (Some n).
Proof.
  revert l. induction ks as [|k0 ks IH]; intros l H; simpl in *; [discriminate|].
  destruct (String.eqb key k0) eqn:E.
  - apply String.eqb_eq in E. subst k0.
    assert (M : get key (if mem key l then l else set key n l) = first_some (get key l) (Some n)).
    { unfold mem. destruct (get key l) eqn:G; simpl; [exact G | apply get_set_same]. }
    destruct (existsb (String.eqb key) ks) eqn:E2.
    + rewrite IH by auto. rewrite M. destruct (get key l); auto.
    + rewrite fold_stage_get_other by auto. exact M.
  - simpl in H. rewrite IH by auto. destruct (mem k0 l); auto.
    rewrite get_set_other; auto. now apply eqb_neq.
Qed.

Lemma iteration_check_stage key l : is_stage key = true ->
  get key (iteration_check l) = first_some (get key l) (iter_val l).
Proof.
  intros H. unfold iteration_check, iter_val.
  destruct (get "iter" l) as [v|] eqn:G.
  - destruct v; try (now apply fold_stage_get_in).
    destruct (get key l); auto.
  - destruct (get key l); auto.
Qed.

(* ---- the merged dictionary before the couplings ---- *)
Definition merged (d u k : opts) : opts := merge (merge d (iteration_check u)) (iteration_check k).

Lemma merged_get key d u k : nodup_keys u = true -> nodup_keys k = true ->
  get key (merged d u k) =
  first_some (get key (iteration_check k)) (first_some (get key (iteration_check u)) (get key d)).
Proof.
  intros Hu Hk. unfold merged.
  rewrite get_merge by now apply iteration_check_nodup.
  rewrite get_merge by now apply iteration_check_nodup.
  reflexivity.
Qed.

Lemma merged_plain key d u k : nodup_keys u = true -> nodup_keys k = true -> is_stage key = false ->
  get key (merged d u k) = prec key d u k.
Proof.
  intros Hu Hk Hs. rewrite merged_get by auto. now rewrite !iteration_check_other by auto.
Qed.

(* ---- getting through the coupling steps ---- *)
Definition after_reuse (o : opts) : opts :=
  if truthy_at "only_update_hydraulic_matrix" o then o else set "reuse_internal_data" (VBool false) o.
Definition after_numba (nb : bool) (o : opts) : opts := if nb then o else set "use_numba" (VBool false) o.

Lemma resolve_unfold nb fl d u k :
  resolve nb fl d u k =
  mode_check (set "fluid" fl (after_numba nb (after_reuse
     (remove "t_start" (remove "interactive_plotting" (merged d u k)))))).
Proof. reflexivity. Qed.

Lemma mode_check_other key o : key <> "mode" -> get key (mode_check o) = get key o.
Proof.
  intros H. unfold mode_check.
  destruct (get "mode" o) as [[| |s| |]|]; auto.
  destruct (String.eqb s "all") eqn:E.
  - apply String.eqb_eq in E. subst s. now apply get_set_other.
  - destruct s as [|a s]; auto.
    (* the match on the literal "all" is compiled to nested matches on characters; handle by
       case analysis through the boolean test *)
    revert E. clear. intros E.
    assert (Hn : String a s <> "all") by (now apply eqb_neq).
    destruct a as [[] [] [] [] [] [] [] []]; auto;
    destruct s as [|b s]; auto;
    destruct b as [[] [] [] [] [] [] [] []]; auto;
    destruct s as [|c s]; auto;
    destruct c as [[] [] [] [] [] [] [] []]; auto;
    destruct s; auto; contradiction.
Qed.

Lemma after_reuse_other key o : key <> "reuse_internal_data" -> get key (after_reuse o) = get key o.
Proof. intros H. unfold after_reuse. destruct (truthy_at _ o); auto. now apply get_set_other. Qed.

Lemma after_numba_other key nb o : key <> "use_numba" -> get key (after_numba nb o) = get key o.
Proof. intros H. unfold after_numba. destruct nb; auto. now apply get_set_other. Qed.

Lemma not_coupled_neq key k0 : is_coupled key = false -> In k0 coupled -> key <> k0.
Proof.
  unfold is_coupled. intros H Hin ->. 
  assert (existsb (String.eqb k0) coupled = true).
  { apply existsb_exists. exists k0. split; auto. apply String.eqb_refl. }
  congruence.
Qed.

Lemma not_coupled_not_stage key : is_coupled key = false -> is_stage key = false.
Proof.
  unfold is_coupled, is_stage, coupled, stage_keys. simpl. intros H.
  repeat (apply orb_false_iff in H; destruct H as [? H]).
  repeat (apply orb_false_iff; split); auto.
Qed.

(* 1. precedence: every key outside the documented couplings *)
Theorem precedence_lemma nb fl d u k key :
  nodup_keys u = true -> nodup_keys k = true -> is_coupled key = false ->
  get key (resolve nb fl d u k) = prec key d u k.
Proof.
  intros Hu Hk Hc. rewrite resolve_unfold.
  assert (forall k0, In k0 coupled -> key <> k0) as N by (intros; now apply not_coupled_neq).
  rewrite mode_check_other by (apply N; simpl; tauto).
  rewrite get_set_other by (apply N; simpl; tauto).
  rewrite after_numba_other by (apply N; simpl; tauto).
  rewrite after_reuse_other by (apply N; simpl; tauto).
  rewrite get_remove_other by (apply N; simpl; tauto).
  rewrite get_remove_other by (apply N; simpl; tauto).
  apply merged_plain; auto. now apply not_coupled_not_stage.
Qed.

(* 2. iter: own layer only, explicit stage limit of the same layer wins, higher layer's iter beats
      lower layer's explicit limit *)
Theorem iter_expansion_lemma nb fl d u k key :
  nodup_keys u = true -> nodup_keys k = true -> is_stage key = true ->
  get key (resolve nb fl d u k) =
  first_some (get key k) (first_some (iter_val k)
    (first_some (get key u) (first_some (iter_val u) (get key d)))).
Proof.
  intros Hu Hk Hs. rewrite resolve_unfold.
  assert (forall k0, is_stage k0 = false -> key <> k0) as N.
  { intros k0 H0 ->. congruence. }
  rewrite mode_check_other by (apply N; reflexivity).
  rewrite get_set_other by (apply N; reflexivity).
  rewrite after_numba_other by (apply N; reflexivity).
  rewrite after_reuse_other by (apply N; reflexivity).
  rewrite get_remove_other by (apply N; reflexivity).
  rewrite get_remove_other by (apply N; reflexivity).
  rewrite merged_get by auto. rewrite !iteration_check_stage by auto.
  destruct (get key k); simpl; auto. destruct (iter_val k); simpl; auto.
  destruct (get key u); simpl; auto.
Qed.

(* 3. couplings *)
Theorem removed_keys_lemma nb fl d u k :
  get "interactive_plotting" (resolve nb fl d u k) = None /\ get "t_start" (resolve nb fl d u k) = None.
Proof.
  rewrite resolve_unfold. split.
  - rewrite mode_check_other by discriminate. rewrite get_set_other by discriminate.
    rewrite after_numba_other by discriminate. rewrite after_reuse_other by discriminate.
    rewrite get_remove_other by discriminate. apply get_remove_same.
  - rewrite mode_check_other by discriminate. rewrite get_set_other by discriminate.
    rewrite after_numba_other by discriminate. rewrite after_reuse_other by discriminate.
    apply get_remove_same.
Qed.

Theorem fluid_lemma nb fl d u k : get "fluid" (resolve nb fl d u k) = Some fl.
Proof. rewrite resolve_unfold. rewrite mode_check_other by discriminate. apply get_set_same. Qed.

Definition truthy_opt (v : option value) : bool := match v with Some x => truthy x | None => false end.

Theorem reuse_lemma nb fl d u k :
  nodup_keys u = true -> nodup_keys k = true ->
  get "reuse_internal_data" (resolve nb fl d u k) =
  if truthy_opt (prec "only_update_hydraulic_matrix" d u k)
  then prec "reuse_internal_data" d u k else Some (VBool false).
Proof.
  intros Hu Hk. rewrite resolve_unfold.
  rewrite mode_check_other by discriminate. rewrite get_set_other by discriminate.
  rewrite after_numba_other by discriminate.
  unfold after_reuse, truthy_at.
  rewrite get_remove_other by discriminate. rewrite get_remove_other by discriminate.
  rewrite merged_plain by auto.
  destruct (prec "only_update_hydraulic_matrix" d u k) as [v|]; simpl.
  - destruct (truthy v).
    + rewrite get_remove_other by discriminate. rewrite get_remove_other by discriminate.
      now apply merged_plain.
    + apply get_set_same.
  - apply get_set_same.
Qed.

Theorem numba_lemma nb fl d u k :
  nodup_keys u = true -> nodup_keys k = true ->
  get "use_numba" (resolve nb fl d u k) = if nb then prec "use_numba" d u k else Some (VBool false).
Proof.
  intros Hu Hk. rewrite resolve_unfold.
  rewrite mode_check_other by discriminate. rewrite get_set_other by discriminate.
  unfold after_numba. destruct nb.
  - rewrite after_reuse_other by discriminate.
    rewrite get_remove_other by discriminate. rewrite get_remove_other by discriminate.
    now apply merged_plain.
  - apply get_set_same.
Qed.

Lemma mode_check_mode o :
  get "mode" (mode_check o) =
  match get "mode" o with
  | Some (VStr s) => if String.eqb s "all" then Some (VStr "sequential") else Some (VStr s)
  | other => other end.
Proof.
  unfold mode_check. destruct (get "mode" o) as [[| |s| |]|] eqn:G; auto.
  destruct (String.eqb s "all") eqn:E.
  - apply String.eqb_eq in E. subst s. apply get_set_same.
  - assert (Hn : s <> "all") by (now apply eqb_neq).
    destruct s as [|a s]; auto.
    destruct a as [[] [] [] [] [] [] [] []]; auto;
    destruct s as [|b s]; auto;
    destruct b as [[] [] [] [] [] [] [] []]; auto;
    destruct s as [|c s]; auto;
    destruct c as [[] [] [] [] [] [] [] []]; auto;
    destruct s; auto; contradiction.
Qed.

Theorem mode_lemma nb fl d u k :
  nodup_keys u = true -> nodup_keys k = true ->
  get "mode" (resolve nb fl d u k) =
  match prec "mode" d u k with
  | Some (VStr s) => if String.eqb s "all" then Some (VStr "sequential") else Some (VStr s)
  | other => other end.
Proof.
  intros Hu Hk. rewrite resolve_unfold. rewrite mode_check_mode.
  rewrite get_set_other by discriminate. rewrite after_numba_other by discriminate.
  rewrite after_reuse_other by discriminate.
  rewrite get_remove_other by discriminate. rewrite get_remove_other by discriminate.
  now rewrite merged_plain by auto.
Qed.

(* 4. unknown keys: a key bound in no layer stays unbound; binding an unknown key changes no other
      non-coupled key (instance of precedence: prec of key' does not mention key) *)
Theorem unknown_unbound_lemma nb fl d u k key :
  nodup_keys u = true -> nodup_keys k = true -> is_coupled key = false ->
  get key d = None -> get key u = None -> get key k = None -> get key (resolve nb fl d u k) = None.
Proof.
  intros Hu Hk Hc Hd Hu' Hk'. rewrite precedence_lemma by auto. unfold prec. now rewrite Hk', Hu', Hd.
Qed.

Theorem unknown_passes_lemma nb fl d u k key v other :
  nodup_keys u = true -> nodup_keys k = true ->
  get key k = None -> is_coupled key = false -> is_stage key = false -> key <> "iter" ->
  key <> "only_update_hydraulic_matrix" -> key <> other ->
  get other (resolve nb fl d u (set key v k)) = get other (resolve nb fl d u k)
  /\ get key (resolve nb fl d u (set key v k)) = Some v.
Proof.
  intros Hu Hk Hnone Hc Hs Hi Ho Hne.
  assert (Hk2 : nodup_keys (set key v k) = true) by now apply nodup_set.
  split.
  2:{ rewrite precedence_lemma by auto. unfold prec. now rewrite get_set_same. }
  (* every observable of `other` is a function of gets on k at keys different from `key` *)
  assert (G : forall k0, k0 <> key -> get k0 (set key v k) = get k0 k).
  { intros. now apply get_set_other. }
  assert (IV : iter_val (set key v k) = iter_val k).
  { unfold iter_val. rewrite G; auto. }
  assert (P : forall k0, k0 <> key -> prec k0 d u (set key v k) = prec k0 d u k).
  { intros. unfold prec. now rewrite G. }
  destruct (is_stage other) eqn:Es.
  - rewrite !iter_expansion_lemma by auto. rewrite IV, G; auto.
  - destruct (is_coupled other) eqn:Ec.
    + unfold is_coupled, coupled in Ec. simpl in Ec.
      unfold is_stage, stage_keys in Es. simpl in Es.
      repeat (apply orb_false_iff in Es; destruct Es as [? Es]).
      repeat (apply orb_true_iff in Ec; destruct Ec as [Ec|Ec]);
        try (apply String.eqb_eq in Ec; subst other);
        try congruence; try discriminate.
      * rewrite !reuse_lemma by auto. rewrite !P; auto.
      * rewrite !numba_lemma by auto. rewrite !P; auto.
      * now rewrite !fluid_lemma.
      * rewrite !mode_lemma by auto. rewrite !P; auto.
      * destruct (removed_keys_lemma nb fl d u k) as [-> _].
        destruct (removed_keys_lemma nb fl d u (set key v k)) as [-> _]. reflexivity.
      * destruct (removed_keys_lemma nb fl d u k) as [_ ->].
        destruct (removed_keys_lemma nb fl d u (set key v k)) as [_ ->]. reflexivity.
    + rewrite !precedence_lemma by auto. apply P; auto.
Qed.

(* ---- set_user_pf_options ---- *)
Lemma set_user_get user reset kw key : nodup_keys kw = true ->
  get key (set_user user reset kw) = first_some (get key kw) (if reset then None else get key user).
Proof.
  intros H. unfold set_user. rewrite get_merge by exact H. destruct reset; reflexivity.
Qed.

Lemma merge_nodup (a b : opts) : nodup_keys a = true -> nodup_keys (merge a b) = true.
Proof.
  unfold merge. revert a. induction b as [|[k v] r IH]; intros a H; simpl; auto.
  apply IH. now apply nodup_set.
Qed.

Lemma set_user_nodup user reset kw : nodup_keys user = true -> nodup_keys (set_user user reset kw) = true.
Proof. intros H. unfold set_user. apply merge_nodup. destruct reset; auto. Qed.

(* the stored value of a key after a history of calls: the latest call that binds it, looking back no further
   than the latest reset *)
Fixpoint latest (key : string) (ops_rev : list (bool * opts)) : option value :=
  match ops_rev with
  | [] => None
  | (reset, kw) :: older => first_some (get key kw) (if reset then None else latest key older)
  end.

Lemma set_user_seq_snoc ops op u0 : set_user_seq (ops ++ [op]) u0 = set_user (set_user_seq ops u0) (fst op) (snd op).
Proof. unfold set_user_seq. now rewrite fold_left_app. Qed.

Theorem stored_options_lemma (ops : list (bool * opts)) key :
  Forall (fun op => nodup_keys (snd op) = true) ops ->
  get key (set_user_seq ops []) = latest key (rev ops).
Proof.
  induction ops as [|op ops IH] using rev_ind; intros H.
  - reflexivity.
  - apply Forall_app in H. destruct H as [Hops Hop]. inversion Hop as [|? ? Hkw _]; subst.
    rewrite set_user_seq_snoc, rev_app_distr. simpl. destruct op as [reset kw]. simpl in *.
    rewrite set_user_get by exact Hkw. rewrite IH by exact Hops. reflexivity.
Qed.

Lemma set_user_seq_nodup ops : nodup_keys (set_user_seq ops []) = true.
Proof.
  induction ops as [|op ops IH] using rev_ind; [reflexivity|].
  rewrite set_user_seq_snoc. now apply set_user_nodup.
Qed.

(* history form of precedence: the option in force = the call's value, else the latest stored value since the last
   reset, else the default *)
Theorem precedence_after_history_lemma nb fl d (ops : list (bool * opts)) k key :
  Forall (fun op => nodup_keys (snd op) = true) ops -> nodup_keys k = true -> is_coupled key = false ->
  get key (resolve nb fl d (set_user_seq ops []) k)
  = first_some (get key k) (first_some (latest key (rev ops)) (get key d)).
Proof.
  intros Hops Hk Hc. rewrite precedence_lemma; auto using set_user_seq_nodup.
  unfold prec. now rewrite stored_options_lemma.
Qed.
