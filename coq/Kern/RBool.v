(* Hand-written support for the generated kernel files (tools/translate/kernels.py):
   boolean comparisons on R, log10, and the reflection lemmas the proofs use.
   NaN is outside the real model: np.isnan translates to [false] (DESIGN 2.3). *)
From Coq Require Import Reals Bool Lra.
Open Scope R_scope.

Definition Rleb (a b : R) : bool := if Rle_dec a b then true else false.
Definition Rltb (a b : R) : bool := if Rlt_dec a b then true else false.
Definition Reqb (a b : R) : bool := if Req_EM_T a b then true else false.

(* np.log10 *)
Definition log10 (x : R) : R := ln x / ln 10.

Lemma Rleb_true : forall a b, Rleb a b = true <-> a <= b.
Proof. intros; unfold Rleb; destruct (Rle_dec a b); split; intros; auto; discriminate. Qed.
Lemma Rleb_false : forall a b, Rleb a b = false <-> b < a.
Proof. intros; unfold Rleb; destruct (Rle_dec a b); split; intros; auto; try discriminate; lra. Qed.
Lemma Rltb_true : forall a b, Rltb a b = true <-> a < b.
Proof. intros; unfold Rltb; destruct (Rlt_dec a b); split; intros; auto; discriminate. Qed.
Lemma Rltb_false : forall a b, Rltb a b = false <-> b <= a.
Proof. intros; unfold Rltb; destruct (Rlt_dec a b); split; intros; auto; try discriminate; lra. Qed.
Lemma Reqb_true : forall a b, Reqb a b = true <-> a = b.
Proof. intros; unfold Reqb; destruct (Req_EM_T a b); split; intros; auto; discriminate. Qed.
Lemma Reqb_false : forall a b, Reqb a b = false <-> a <> b.
Proof. intros; unfold Reqb; destruct (Req_EM_T a b); split; intros; auto; try discriminate; contradiction. Qed.

(* [x > t] (numba) and [~(x <= t)] (numpy isclose) are the same test *)
Lemma Rltb_negb_Rleb : forall a b, Rltb b a = negb (Rleb a b).
Proof.
  intros; unfold Rltb, Rleb; destruct (Rlt_dec b a), (Rle_dec a b); simpl; auto; lra.
Qed.
Lemma Rleb_negb_Rltb : forall a b, Rleb a b = negb (Rltb b a).
Proof. intros; rewrite Rltb_negb_Rleb, negb_involutive; reflexivity. Qed.

Lemma Rleb_spec : forall a b, reflect (a <= b) (Rleb a b).
Proof. intros; unfold Rleb; destruct (Rle_dec a b); constructor; auto. Qed.
Lemma Rltb_spec : forall a b, reflect (a < b) (Rltb a b).
Proof. intros; unfold Rltb; destruct (Rlt_dec a b); constructor; auto. Qed.
Lemma Reqb_spec : forall a b, reflect (a = b) (Reqb a b).
Proof. intros; unfold Reqb; destruct (Req_EM_T a b); constructor; auto. Qed.

Lemma Reqb_refl : forall a, Reqb a a = true.
Proof. intros; apply Reqb_true; reflexivity. Qed.
Lemma Reqb_sym : forall a b, Reqb a b = Reqb b a.
Proof.
  intros; destruct (Reqb_spec a b), (Reqb_spec b a); auto; subst; contradiction.
Qed.

(* case analysis tactic: destruct every comparison occurring in the goal, keeping the fact *)
Ltac rbool_cases :=
  repeat match goal with
  | |- context [Rleb ?a ?b] => destruct (Rleb_spec a b)
  | |- context [Rltb ?a ?b] => destruct (Rltb_spec a b)
  | |- context [Reqb ?a ?b] => destruct (Reqb_spec a b)
  end; simpl negb; simpl andb; simpl orb; cbv iota.
