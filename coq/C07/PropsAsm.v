(* C07 - property theorems about the matrix-update option (model: C07/Model.v, any commutative ring). *)
From Coq Require Import List Arith Bool Permutation Ring ZArith.
From PP Require Import C07.Model.
From PP Require C07.ProofsAsm.
Import ListNotations.

(* the dense matrix does not depend on the order of the triplets: any stored permutation may be reused *)
Theorem triplet_order_irrelevant :
  forall (A : Type) (zero one : A) (add mul sub : A -> A -> A) (opp : A -> A),
  ring_theory zero one add mul sub opp eq ->
  forall (p : pos) (t1 t2 : list (pos * A)), Permutation t1 t2 -> entry zero add p t1 = entry zero add p t2.
Proof. intros A zero one add mul sub opp Rth. exact (C07.ProofsAsm.entry_perm zero one add mul sub opp Rth). Qed.
Print Assumptions triplet_order_irrelevant.

(* update path = fresh assembly: for ANY triplet list (duplicate positions included - they are summed on both paths),
   ANY new data and ANY stored data_order that is a permutation.  The stored structure ps[ord] is a function of the
   positions only, so changing loads between reusing calls is covered. *)
Theorem update_only_correct :
  forall (A : Type) (zero one : A) (add mul sub : A -> A -> A) (opp : A -> A),
  ring_theory zero one add mul sub opp eq ->
  forall (ord : list nat) (ps : list pos) (data' : list A),
  Permutation ord (seq 0 (length ps)) -> length data' = length ps ->
  forall p, entry zero add p (update zero ord ps data') = entry zero add p (fresh ps data').
Proof. intros A zero one add mul sub opp Rth. exact (C07.ProofsAsm.update_only_correct_lemma zero one add mul sub opp Rth). Qed.
Print Assumptions update_only_correct.

(* why the structure must be a private copy (behaviour before /repo 33b82f8, model [update_shared]): sharing the cached
   matrix with spsolve is correct only without duplicate positions ... *)
Theorem update_shared_correct_without_duplicates :
  forall (A : Type) (zero one : A) (add mul sub : A -> A -> A) (opp : A -> A),
  ring_theory zero one add mul sub opp eq ->
  forall (ord : list nat) (ps : list pos) (data' : list A),
  Permutation ord (seq 0 (length ps)) -> length data' = length ps -> NoDup ps ->
  forall p, entry zero add p (update_shared zero ord ps data') = entry zero add p (fresh ps data').
Proof. intros A zero one add mul sub opp Rth. exact (C07.ProofsAsm.update_shared_nodup_lemma zero one add mul sub opp Rth). Qed.
Print Assumptions update_shared_correct_without_duplicates.

(* ... and wrong with them (a pressure controller whose controlled junction is its to junction), where today's path is right *)
Theorem update_shared_refuted_with_duplicates :
  exists (ord : list nat) (ps : list pos) (data' : list Z) (p : pos),
  Permutation ord (seq 0 (length ps)) /\ length data' = length ps /\
  entry 0%Z Z.add p (update_shared 0%Z ord ps data') <> entry 0%Z Z.add p (fresh ps data') /\
  entry 0%Z Z.add p (update 0%Z ord ps data') = entry 0%Z Z.add p (fresh ps data').
Proof.
  exists C07.ProofsAsm.w_ord, C07.ProofsAsm.w_ps, C07.ProofsAsm.w_data, (1, 0).
  exact C07.ProofsAsm.update_only_refuted_lemma.
Qed.
Print Assumptions update_shared_refuted_with_duplicates.

Example guard_satisfiable :
  NoDup [(2, 2); (2, 0); (2, 1); (0, 2); (1, 2)] /\ Permutation [3; 4; 1; 2; 0] (seq 0 5).
Proof.
  split.
  - repeat constructor; simpl; intuition discriminate.
  - apply NoDup_Permutation_bis; [repeat constructor; simpl; intuition discriminate | reflexivity |].
    intros x Hx. simpl in *. intuition.
Qed.
