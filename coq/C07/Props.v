(* C07 - property theorems only (kernel twins).  Statements are over the generated kernels; each is closed by
   [exact] of the lemma of the same name in ProofsTwin.v. The update-path and grouped-sum theorems are in PropsAsm.v. *)
From Coq Require Import Reals Bool Lra.
From PP Require Import Kern.RBool Gen.KHydIncompNp Gen.KHydIncompNb Gen.KHydCompNp Gen.KHydCompNb
  Gen.KThermNp Gen.KThermNb Gen.KPmNp Gen.KPmNb Gen.KLambdaNp Gen.KLambdaNb Gen.KDerivedNp Gen.KDerivedNb
  Gen.KGasResNp Gen.KGasResNb.
Open Scope R_scope.
From PP Require C07.ProofsTwin.

(* liquid kernel: everything entering the load vector is the same real function in both engines, for ALL inputs *)
Theorem twin_residuals_equal_incomp :
  forall bp_AREA bp_D bp_LAMBDA bp_LENGTH bp_LOSS_COEFFICIENT bp_MDOTINIT bp_PL der_lambda height_difference p_init_i1_abs p_init_i_abs rho : R,
  hyd_incomp_np_load_vec bp_AREA bp_D bp_LAMBDA bp_LENGTH bp_LOSS_COEFFICIENT bp_MDOTINIT bp_PL der_lambda height_difference p_init_i1_abs p_init_i_abs rho = hyd_incomp_nb_load_vec bp_AREA bp_D bp_LAMBDA bp_LENGTH bp_LOSS_COEFFICIENT bp_MDOTINIT bp_PL der_lambda height_difference p_init_i1_abs p_init_i_abs rho /\
  hyd_incomp_np_load_vec_nodes_from bp_AREA bp_D bp_LAMBDA bp_LENGTH bp_LOSS_COEFFICIENT bp_MDOTINIT bp_PL der_lambda height_difference p_init_i1_abs p_init_i_abs rho = hyd_incomp_nb_load_vec_nodes_from bp_AREA bp_D bp_LAMBDA bp_LENGTH bp_LOSS_COEFFICIENT bp_MDOTINIT bp_PL der_lambda height_difference p_init_i1_abs p_init_i_abs rho /\
  hyd_incomp_np_load_vec_nodes_to bp_AREA bp_D bp_LAMBDA bp_LENGTH bp_LOSS_COEFFICIENT bp_MDOTINIT bp_PL der_lambda height_difference p_init_i1_abs p_init_i_abs rho = hyd_incomp_nb_load_vec_nodes_to bp_AREA bp_D bp_LAMBDA bp_LENGTH bp_LOSS_COEFFICIENT bp_MDOTINIT bp_PL der_lambda height_difference p_init_i1_abs p_init_i_abs rho /\
  hyd_incomp_np_dp_frict_loss bp_AREA bp_D bp_LAMBDA bp_LENGTH bp_LOSS_COEFFICIENT bp_MDOTINIT bp_PL der_lambda height_difference p_init_i1_abs p_init_i_abs rho = hyd_incomp_nb_dp_frict_loss bp_AREA bp_D bp_LAMBDA bp_LENGTH bp_LOSS_COEFFICIENT bp_MDOTINIT bp_PL der_lambda height_difference p_init_i1_abs p_init_i_abs rho.
Proof. exact C07.ProofsTwin.twin_residuals_equal_incomp. Qed.
Print Assumptions twin_residuals_equal_incomp.

(* liquid kernel: all four Jacobian outputs agree for ALL inputs (the regularisation max(|m|,1e-8) is in both) *)
Theorem twin_jacobians_equal_incomp :
  forall bp_AREA bp_D bp_LAMBDA bp_LENGTH bp_LOSS_COEFFICIENT bp_MDOTINIT bp_PL der_lambda height_difference p_init_i1_abs p_init_i_abs rho : R,
  hyd_incomp_np_df_dm bp_AREA bp_D bp_LAMBDA bp_LENGTH bp_LOSS_COEFFICIENT bp_MDOTINIT bp_PL der_lambda height_difference p_init_i1_abs p_init_i_abs rho = hyd_incomp_nb_df_dm bp_AREA bp_D bp_LAMBDA bp_LENGTH bp_LOSS_COEFFICIENT bp_MDOTINIT bp_PL der_lambda height_difference p_init_i1_abs p_init_i_abs rho /\
  hyd_incomp_np_df_dm_nodes bp_AREA bp_D bp_LAMBDA bp_LENGTH bp_LOSS_COEFFICIENT bp_MDOTINIT bp_PL der_lambda height_difference p_init_i1_abs p_init_i_abs rho = hyd_incomp_nb_df_dm_nodes bp_AREA bp_D bp_LAMBDA bp_LENGTH bp_LOSS_COEFFICIENT bp_MDOTINIT bp_PL der_lambda height_difference p_init_i1_abs p_init_i_abs rho /\
  hyd_incomp_np_df_dp bp_AREA bp_D bp_LAMBDA bp_LENGTH bp_LOSS_COEFFICIENT bp_MDOTINIT bp_PL der_lambda height_difference p_init_i1_abs p_init_i_abs rho = hyd_incomp_nb_df_dp bp_AREA bp_D bp_LAMBDA bp_LENGTH bp_LOSS_COEFFICIENT bp_MDOTINIT bp_PL der_lambda height_difference p_init_i1_abs p_init_i_abs rho /\
  hyd_incomp_np_df_dp1 bp_AREA bp_D bp_LAMBDA bp_LENGTH bp_LOSS_COEFFICIENT bp_MDOTINIT bp_PL der_lambda height_difference p_init_i1_abs p_init_i_abs rho = hyd_incomp_nb_df_dp1 bp_AREA bp_D bp_LAMBDA bp_LENGTH bp_LOSS_COEFFICIENT bp_MDOTINIT bp_PL der_lambda height_difference p_init_i1_abs p_init_i_abs rho.
Proof. exact C07.ProofsTwin.twin_jacobians_equal_incomp. Qed.
Print Assumptions twin_jacobians_equal_incomp.

(* gas kernel: load-vector outputs agree for ALL inputs *)
Theorem twin_residuals_equal_comp :
  forall bp_AREA bp_D bp_LENGTH bp_LOSS_COEFFICIENT bp_MDOTINIT bp_PL bp_TOUTINIT comp_fact der_comp der_comp1 der_lambda height_difference lambda_ np_from_TINIT p_init_i1_abs p_init_i_abs rho rho_n : R,
  hyd_comp_np_load_vec bp_AREA bp_D bp_LENGTH bp_LOSS_COEFFICIENT bp_MDOTINIT bp_PL bp_TOUTINIT comp_fact der_comp der_comp1 der_lambda height_difference lambda_ np_from_TINIT p_init_i1_abs p_init_i_abs rho rho_n = hyd_comp_nb_load_vec bp_AREA bp_D bp_LENGTH bp_LOSS_COEFFICIENT bp_MDOTINIT bp_PL bp_TOUTINIT comp_fact der_comp der_comp1 der_lambda height_difference lambda_ np_from_TINIT p_init_i1_abs p_init_i_abs rho rho_n /\
  hyd_comp_np_load_vec_nodes_from bp_AREA bp_D bp_LENGTH bp_LOSS_COEFFICIENT bp_MDOTINIT bp_PL bp_TOUTINIT comp_fact der_comp der_comp1 der_lambda height_difference lambda_ np_from_TINIT p_init_i1_abs p_init_i_abs rho rho_n = hyd_comp_nb_load_vec_nodes_from bp_AREA bp_D bp_LENGTH bp_LOSS_COEFFICIENT bp_MDOTINIT bp_PL bp_TOUTINIT comp_fact der_comp der_comp1 der_lambda height_difference lambda_ np_from_TINIT p_init_i1_abs p_init_i_abs rho rho_n /\
  hyd_comp_np_load_vec_nodes_to bp_AREA bp_D bp_LENGTH bp_LOSS_COEFFICIENT bp_MDOTINIT bp_PL bp_TOUTINIT comp_fact der_comp der_comp1 der_lambda height_difference lambda_ np_from_TINIT p_init_i1_abs p_init_i_abs rho rho_n = hyd_comp_nb_load_vec_nodes_to bp_AREA bp_D bp_LENGTH bp_LOSS_COEFFICIENT bp_MDOTINIT bp_PL bp_TOUTINIT comp_fact der_comp der_comp1 der_lambda height_difference lambda_ np_from_TINIT p_init_i1_abs p_init_i_abs rho rho_n /\
  hyd_comp_np_dp_frict_loss bp_AREA bp_D bp_LENGTH bp_LOSS_COEFFICIENT bp_MDOTINIT bp_PL bp_TOUTINIT comp_fact der_comp der_comp1 der_lambda height_difference lambda_ np_from_TINIT p_init_i1_abs p_init_i_abs rho rho_n = hyd_comp_nb_dp_frict_loss bp_AREA bp_D bp_LENGTH bp_LOSS_COEFFICIENT bp_MDOTINIT bp_PL bp_TOUTINIT comp_fact der_comp der_comp1 der_lambda height_difference lambda_ np_from_TINIT p_init_i1_abs p_init_i_abs rho rho_n.
Proof. exact C07.ProofsTwin.twin_residuals_equal_comp. Qed.
Print Assumptions twin_residuals_equal_comp.

(* gas kernel: df_dp, df_dp1, df_dm_nodes agree for ALL inputs; df_dm agrees whenever |m| > 1e-8 (named exception below) *)
Theorem twin_jacobians_equal_comp_partial :
  forall bp_AREA bp_D bp_LENGTH bp_LOSS_COEFFICIENT bp_MDOTINIT bp_PL bp_TOUTINIT comp_fact der_comp der_comp1 der_lambda height_difference lambda_ np_from_TINIT p_init_i1_abs p_init_i_abs rho rho_n : R,
  hyd_comp_np_df_dm_nodes bp_AREA bp_D bp_LENGTH bp_LOSS_COEFFICIENT bp_MDOTINIT bp_PL bp_TOUTINIT comp_fact der_comp der_comp1 der_lambda height_difference lambda_ np_from_TINIT p_init_i1_abs p_init_i_abs rho rho_n = hyd_comp_nb_df_dm_nodes bp_AREA bp_D bp_LENGTH bp_LOSS_COEFFICIENT bp_MDOTINIT bp_PL bp_TOUTINIT comp_fact der_comp der_comp1 der_lambda height_difference lambda_ np_from_TINIT p_init_i1_abs p_init_i_abs rho rho_n /\
  hyd_comp_np_df_dp bp_AREA bp_D bp_LENGTH bp_LOSS_COEFFICIENT bp_MDOTINIT bp_PL bp_TOUTINIT comp_fact der_comp der_comp1 der_lambda height_difference lambda_ np_from_TINIT p_init_i1_abs p_init_i_abs rho rho_n = hyd_comp_nb_df_dp bp_AREA bp_D bp_LENGTH bp_LOSS_COEFFICIENT bp_MDOTINIT bp_PL bp_TOUTINIT comp_fact der_comp der_comp1 der_lambda height_difference lambda_ np_from_TINIT p_init_i1_abs p_init_i_abs rho rho_n /\
  hyd_comp_np_df_dp1 bp_AREA bp_D bp_LENGTH bp_LOSS_COEFFICIENT bp_MDOTINIT bp_PL bp_TOUTINIT comp_fact der_comp der_comp1 der_lambda height_difference lambda_ np_from_TINIT p_init_i1_abs p_init_i_abs rho rho_n = hyd_comp_nb_df_dp1 bp_AREA bp_D bp_LENGTH bp_LOSS_COEFFICIENT bp_MDOTINIT bp_PL bp_TOUTINIT comp_fact der_comp der_comp1 der_lambda height_difference lambda_ np_from_TINIT p_init_i1_abs p_init_i_abs rho rho_n /\
  (1 / 100000000 < Rabs bp_MDOTINIT ->
   hyd_comp_np_df_dm bp_AREA bp_D bp_LENGTH bp_LOSS_COEFFICIENT bp_MDOTINIT bp_PL bp_TOUTINIT comp_fact der_comp der_comp1 der_lambda height_difference lambda_ np_from_TINIT p_init_i1_abs p_init_i_abs rho rho_n = hyd_comp_nb_df_dm bp_AREA bp_D bp_LENGTH bp_LOSS_COEFFICIENT bp_MDOTINIT bp_PL bp_TOUTINIT comp_fact der_comp der_comp1 der_lambda height_difference lambda_ np_from_TINIT p_init_i1_abs p_init_i_abs rho rho_n).
Proof. exact C07.ProofsTwin.twin_jacobians_equal_comp_partial. Qed.
Print Assumptions twin_jacobians_equal_comp_partial.

(* the named exception: at |m| <= 1e-8 numpy overwrites df_dm by 1, numba keeps the regularised derivative (m_abs_deriv = 1e-8) *)
Theorem twin_comp_df_dm_exception :
  forall bp_AREA bp_D bp_LENGTH bp_LOSS_COEFFICIENT bp_MDOTINIT bp_PL bp_TOUTINIT comp_fact der_comp der_comp1 der_lambda height_difference lambda_ np_from_TINIT p_init_i1_abs p_init_i_abs rho rho_n : R,
  Rabs bp_MDOTINIT <= 1 / 100000000 ->
  hyd_comp_np_df_dm bp_AREA bp_D bp_LENGTH bp_LOSS_COEFFICIENT bp_MDOTINIT bp_PL bp_TOUTINIT comp_fact der_comp der_comp1 der_lambda height_difference lambda_ np_from_TINIT p_init_i1_abs p_init_i_abs rho rho_n = 1 /\
  hyd_comp_nb_df_dm bp_AREA bp_D bp_LENGTH bp_LOSS_COEFFICIENT bp_MDOTINIT bp_PL bp_TOUTINIT comp_fact der_comp der_comp1 der_lambda height_difference lambda_ np_from_TINIT p_init_i1_abs p_init_i_abs rho rho_n =
    - ((4053 / 4000) / (27315000 * rho_n * bp_AREA ^ 2)) * comp_fact * (1 / (p_init_i_abs + p_init_i1_abs))
      * ((np_from_TINIT + bp_TOUTINIT) / 2)
      * (2 * (1 / 100000000) * (lambda_ * bp_LENGTH / bp_D + bp_LOSS_COEFFICIENT)
         + der_lambda * bp_LENGTH * (bp_MDOTINIT * Rabs bp_MDOTINIT) / bp_D).
Proof. exact C07.ProofsTwin.twin_comp_df_dm_exception. Qed.
Print Assumptions twin_comp_df_dm_exception.

(* ... and the two values really differ there (witness: m = 0, all other inputs 1) *)
Theorem twin_comp_df_dm_refuted :
  exists bp_AREA bp_D bp_LENGTH bp_LOSS_COEFFICIENT bp_MDOTINIT bp_PL bp_TOUTINIT comp_fact der_comp der_comp1 der_lambda height_difference lambda_ np_from_TINIT p_init_i1_abs p_init_i_abs rho rho_n : R,
  hyd_comp_np_df_dm bp_AREA bp_D bp_LENGTH bp_LOSS_COEFFICIENT bp_MDOTINIT bp_PL bp_TOUTINIT comp_fact der_comp der_comp1 der_lambda height_difference lambda_ np_from_TINIT p_init_i1_abs p_init_i_abs rho rho_n <> hyd_comp_nb_df_dm bp_AREA bp_D bp_LENGTH bp_LOSS_COEFFICIENT bp_MDOTINIT bp_PL bp_TOUTINIT comp_fact der_comp der_comp1 der_lambda height_difference lambda_ np_from_TINIT p_init_i1_abs p_init_i_abs rho rho_n.
Proof. exact C07.ProofsTwin.twin_comp_df_dm_refuted. Qed.
Print Assumptions twin_comp_df_dm_refuted.

(* thermal kernels (steady state): node residual / derivative, branch residual / derivatives and the flow flag agree for ALL inputs *)
Theorem twin_thermal_equal :
  forall (amb bp_ALPHA bp_DO bp_LENGTH bp_MDOTINIT bp_QEXT bp_TEXT bp_TL cp_b cp_n : R) (nodes_flow : bool) (t_init_i t_init_i1 t_init_n t_init_nt : R),
  therm_np_fn amb bp_ALPHA bp_DO bp_LENGTH bp_MDOTINIT bp_QEXT bp_TEXT bp_TL cp_b cp_n nodes_flow t_init_i t_init_i1 t_init_n t_init_nt = therm_nb_fn amb bp_ALPHA bp_DO bp_LENGTH bp_MDOTINIT bp_QEXT bp_TEXT bp_TL cp_b cp_n nodes_flow t_init_i t_init_i1 t_init_n t_init_nt /\
  therm_np_dfn_dt amb bp_ALPHA bp_DO bp_LENGTH bp_MDOTINIT bp_QEXT bp_TEXT bp_TL cp_b cp_n nodes_flow t_init_i t_init_i1 t_init_n t_init_nt = therm_nb_dfn_dt amb bp_ALPHA bp_DO bp_LENGTH bp_MDOTINIT bp_QEXT bp_TEXT bp_TL cp_b cp_n nodes_flow t_init_i t_init_i1 t_init_n t_init_nt /\
  therm_np_fb amb bp_ALPHA bp_DO bp_LENGTH bp_MDOTINIT bp_QEXT bp_TEXT bp_TL cp_b cp_n nodes_flow t_init_i t_init_i1 t_init_n t_init_nt = therm_nb_fb amb bp_ALPHA bp_DO bp_LENGTH bp_MDOTINIT bp_QEXT bp_TEXT bp_TL cp_b cp_n nodes_flow t_init_i t_init_i1 t_init_n t_init_nt /\
  therm_np_dfb_dt amb bp_ALPHA bp_DO bp_LENGTH bp_MDOTINIT bp_QEXT bp_TEXT bp_TL cp_b cp_n nodes_flow t_init_i t_init_i1 t_init_n t_init_nt = therm_nb_dfb_dt amb bp_ALPHA bp_DO bp_LENGTH bp_MDOTINIT bp_QEXT bp_TEXT bp_TL cp_b cp_n nodes_flow t_init_i t_init_i1 t_init_n t_init_nt /\
  therm_np_dfb_dtout amb bp_ALPHA bp_DO bp_LENGTH bp_MDOTINIT bp_QEXT bp_TEXT bp_TL cp_b cp_n nodes_flow t_init_i t_init_i1 t_init_n t_init_nt = therm_nb_dfb_dtout amb bp_ALPHA bp_DO bp_LENGTH bp_MDOTINIT bp_QEXT bp_TEXT bp_TL cp_b cp_n nodes_flow t_init_i t_init_i1 t_init_n t_init_nt /\
  branches_flow_np_flow bp_MDOTINIT = branches_flow_nb_flow bp_MDOTINIT.
Proof. exact C07.ProofsTwin.twin_thermal_equal. Qed.
Print Assumptions twin_thermal_equal.

(* thermal to-node terms: numpy zeroes them for |m| <= 1e-10, numba does not; they agree when m = 0 or |m| > 1e-10 *)
Theorem twin_thermal_node_terms_partial :
  forall (amb bp_ALPHA bp_DO bp_LENGTH bp_MDOTINIT bp_QEXT bp_TEXT bp_TL cp_b cp_n : R) (nodes_flow : bool) (t_init_i t_init_i1 t_init_n t_init_nt : R),
  bp_MDOTINIT = 0 \/ 1 / 10000000000 < Rabs bp_MDOTINIT ->
  therm_np_fnt amb bp_ALPHA bp_DO bp_LENGTH bp_MDOTINIT bp_QEXT bp_TEXT bp_TL cp_b cp_n nodes_flow t_init_i t_init_i1 t_init_n t_init_nt = therm_nb_fnt amb bp_ALPHA bp_DO bp_LENGTH bp_MDOTINIT bp_QEXT bp_TEXT bp_TL cp_b cp_n nodes_flow t_init_i t_init_i1 t_init_n t_init_nt /\
  therm_np_dfnt_dt amb bp_ALPHA bp_DO bp_LENGTH bp_MDOTINIT bp_QEXT bp_TEXT bp_TL cp_b cp_n nodes_flow t_init_i t_init_i1 t_init_n t_init_nt = therm_nb_dfnt_dt amb bp_ALPHA bp_DO bp_LENGTH bp_MDOTINIT bp_QEXT bp_TEXT bp_TL cp_b cp_n nodes_flow t_init_i t_init_i1 t_init_n t_init_nt /\
  therm_np_dfnt_dtout amb bp_ALPHA bp_DO bp_LENGTH bp_MDOTINIT bp_QEXT bp_TEXT bp_TL cp_b cp_n nodes_flow t_init_i t_init_i1 t_init_n t_init_nt = therm_nb_dfnt_dtout amb bp_ALPHA bp_DO bp_LENGTH bp_MDOTINIT bp_QEXT bp_TEXT bp_TL cp_b cp_n nodes_flow t_init_i t_init_i1 t_init_n t_init_nt.
Proof. exact C07.ProofsTwin.twin_thermal_node_terms_partial. Qed.
Print Assumptions twin_thermal_node_terms_partial.

(* ... and they differ for 0 < |m| <= 1e-10 (witness m = 1e-10, cp = 1, T_out - T_node = 1) *)
Theorem twin_thermal_node_terms_refuted :
  exists amb bp_ALPHA bp_DO bp_LENGTH bp_MDOTINIT bp_QEXT bp_TEXT bp_TL cp_b cp_n : R, exists nodes_flow : bool, exists t_init_i t_init_i1 t_init_n t_init_nt : R,
  therm_np_fnt amb bp_ALPHA bp_DO bp_LENGTH bp_MDOTINIT bp_QEXT bp_TEXT bp_TL cp_b cp_n nodes_flow t_init_i t_init_i1 t_init_n t_init_nt <> therm_nb_fnt amb bp_ALPHA bp_DO bp_LENGTH bp_MDOTINIT bp_QEXT bp_TEXT bp_TL cp_b cp_n nodes_flow t_init_i t_init_i1 t_init_n t_init_nt.
Proof. exact C07.ProofsTwin.twin_thermal_node_terms_refuted. Qed.
Print Assumptions twin_thermal_node_terms_refuted.

(* friction-factor kernels (liquid and gas form): Re, laminar part (threshold |Re| > 1e-8 on both sides) and Nikuradse part agree for ALL inputs *)
Theorem twin_lambda_equal :
  forall area d eta k m : R,
  lambda_incomp_np_re area d eta k m = lambda_incomp_nb_re area d eta k m /\
  lambda_incomp_np_lambda_laminar area d eta k m = lambda_incomp_nb_lambda_laminar area d eta k m /\
  lambda_incomp_np_lambda_nikuradse area d eta k m = lambda_incomp_nb_lambda_nikuradse area d eta k m /\
  lambda_comp_np_re area d eta k m = lambda_comp_nb_re area d eta k m /\
  lambda_comp_np_lambda_laminar area d eta k m = lambda_comp_nb_lambda_laminar area d eta k m /\
  lambda_comp_np_lambda_nikuradse area d eta k m = lambda_comp_nb_lambda_nikuradse area d eta k m.
Proof. exact C07.ProofsTwin.twin_lambda_equal. Qed.
Print Assumptions twin_lambda_equal.

(* mean pressure and its derivatives agree for ALL inputs (equal end pressures included) *)
Theorem twin_medium_pressure_equal :
  forall p_init_i1_abs p_init_i_abs : R,
  pm_np_p_m p_init_i1_abs p_init_i_abs = pm_nb_p_m p_init_i1_abs p_init_i_abs /\
  pm_np_der_p_m p_init_i1_abs p_init_i_abs = pm_nb_der_p_m p_init_i1_abs p_init_i_abs /\
  pm_np_der_p_m1 p_init_i1_abs p_init_i_abs = pm_nb_der_p_m1 p_init_i1_abs p_init_i_abs.
Proof. exact C07.ProofsTwin.twin_medium_pressure_equal. Qed.
Print Assumptions twin_medium_pressure_equal.

(* derived values (mean T, height difference, absolute end pressures) agree for ALL inputs *)
Theorem twin_derived_values_equal :
  forall np_from_HEIGHT np_from_PAMB np_from_PINIT np_from_TINIT np_to_HEIGHT np_to_PAMB np_to_PINIT np_to_TINIT : R,
  derived_np_tinit_branch np_from_HEIGHT np_from_PAMB np_from_PINIT np_from_TINIT np_to_HEIGHT np_to_PAMB np_to_PINIT np_to_TINIT = derived_nb_tinit_branch np_from_HEIGHT np_from_PAMB np_from_PINIT np_from_TINIT np_to_HEIGHT np_to_PAMB np_to_PINIT np_to_TINIT /\
  derived_np_height_difference np_from_HEIGHT np_from_PAMB np_from_PINIT np_from_TINIT np_to_HEIGHT np_to_PAMB np_to_PINIT np_to_TINIT = derived_nb_height_difference np_from_HEIGHT np_from_PAMB np_from_PINIT np_from_TINIT np_to_HEIGHT np_to_PAMB np_to_PINIT np_to_TINIT /\
  derived_np_p_init_i_abs np_from_HEIGHT np_from_PAMB np_from_PINIT np_from_TINIT np_to_HEIGHT np_to_PAMB np_to_PINIT np_to_TINIT = derived_nb_p_init_i_abs np_from_HEIGHT np_from_PAMB np_from_PINIT np_from_TINIT np_to_HEIGHT np_to_PAMB np_to_PINIT np_to_TINIT /\
  derived_np_p_init_i1_abs np_from_HEIGHT np_from_PAMB np_from_PINIT np_from_TINIT np_to_HEIGHT np_to_PAMB np_to_PINIT np_to_TINIT = derived_nb_p_init_i1_abs np_from_HEIGHT np_from_PAMB np_from_PINIT np_from_TINIT np_to_HEIGHT np_to_PAMB np_to_PINIT np_to_TINIT.
Proof. exact C07.ProofsTwin.twin_derived_values_equal. Qed.
Print Assumptions twin_derived_values_equal.

(* reported absolute pressures: p_abs_from/to always; p_abs_mean (symmetric form 2/3 (a^2+ab+b^2)/(a+b) vs 2(a^2+ab+b^2)/(3(a+b)), no mask since /repo c6a5196) when p_from_abs + p_to_abs <> 0 *)
Theorem twin_gas_pressures_equal :
  forall (bp_FROM_NODE_T_SWITCHED bp_TOUTINIT : R) (fl_compressibility : R -> R -> R) (np_from_PAMB np_from_TINIT np_to_PAMB np_to_TINIT p_from p_to v_mps : R),
  gasres_np_p_abs_from bp_FROM_NODE_T_SWITCHED bp_TOUTINIT fl_compressibility np_from_PAMB np_from_TINIT np_to_PAMB np_to_TINIT p_from p_to v_mps = gaspress_nb_p_abs_from np_from_PAMB np_to_PAMB p_from p_to /\
  gasres_np_p_abs_to bp_FROM_NODE_T_SWITCHED bp_TOUTINIT fl_compressibility np_from_PAMB np_from_TINIT np_to_PAMB np_to_TINIT p_from p_to v_mps = gaspress_nb_p_abs_to np_from_PAMB np_to_PAMB p_from p_to /\
  ((np_from_PAMB + p_from) + (np_to_PAMB + p_to) <> 0 ->
   gasres_np_p_abs_mean bp_FROM_NODE_T_SWITCHED bp_TOUTINIT fl_compressibility np_from_PAMB np_from_TINIT np_to_PAMB np_to_TINIT p_from p_to v_mps = gaspress_nb_p_abs_mean np_from_PAMB np_to_PAMB p_from p_to).
Proof. exact C07.ProofsTwin.twin_gas_pressures_equal. Qed.
Print Assumptions twin_gas_pressures_equal.

(* the reported mean pressure (symmetric form, both engines) is the mean of the quadratic pressure profile in EVERY case *)
Theorem pm_symmetric_form :
  forall (bp_FROM_NODE_T_SWITCHED bp_TOUTINIT : R) (fl_compressibility : R -> R -> R) (np_from_PAMB np_from_TINIT np_to_PAMB np_to_TINIT p_from p_to v_mps : R),
  let a := np_from_PAMB + p_from in let b := np_to_PAMB + p_to in
  a + b <> 0 ->
  (a <> b -> gasres_np_p_abs_mean bp_FROM_NODE_T_SWITCHED bp_TOUTINIT fl_compressibility np_from_PAMB np_from_TINIT np_to_PAMB np_to_TINIT p_from p_to v_mps = 2 / 3 * (a ^ 3 - b ^ 3) / (a ^ 2 - b ^ 2)) /\
  (a = b -> gasres_np_p_abs_mean bp_FROM_NODE_T_SWITCHED bp_TOUTINIT fl_compressibility np_from_PAMB np_from_TINIT np_to_PAMB np_to_TINIT p_from p_to v_mps = a).
Proof. exact C07.ProofsTwin.pm_symmetric_form. Qed.
Print Assumptions pm_symmetric_form.

(* norm factors and gas velocities: the numba wrapper (pressures -> compressibility at the direction-corrected inlet temperature tf -> get_gas_vel_numba) equals the numpy function, direction-switched branches included (since /repo bfae2a5 the wrapper passes tf to get_gas_vel_numba) *)
Theorem twin_gas_normfactors_equal :
  forall (bp_FROM_NODE_T_SWITCHED bp_TOUTINIT : R) (fl_compressibility : R -> R -> R) (np_from_PAMB np_from_TINIT np_to_PAMB np_to_TINIT p_from p_to v_mps : R),
  (np_from_PAMB + p_from) + (np_to_PAMB + p_to) <> 0 ->
  let tf := (if negb (Reqb bp_FROM_NODE_T_SWITCHED 0) then np_to_TINIT else np_from_TINIT) in
  gasres_np_normfactor_from bp_FROM_NODE_T_SWITCHED bp_TOUTINIT fl_compressibility np_from_PAMB np_from_TINIT np_to_PAMB np_to_TINIT p_from p_to v_mps =
    gasvel_nb_normfactor_from bp_TOUTINIT
      (fl_compressibility (gaspress_nb_p_abs_from np_from_PAMB np_to_PAMB p_from p_to) tf)
      (fl_compressibility (gaspress_nb_p_abs_mean np_from_PAMB np_to_PAMB p_from p_to) ((tf + bp_TOUTINIT) / 2))
      (fl_compressibility (gaspress_nb_p_abs_to np_from_PAMB np_to_PAMB p_from p_to) bp_TOUTINIT)
      (gaspress_nb_p_abs_from np_from_PAMB np_to_PAMB p_from p_to) (gaspress_nb_p_abs_mean np_from_PAMB np_to_PAMB p_from p_to) (gaspress_nb_p_abs_to np_from_PAMB np_to_PAMB p_from p_to) tf v_mps /\
  gasres_np_normfactor_to bp_FROM_NODE_T_SWITCHED bp_TOUTINIT fl_compressibility np_from_PAMB np_from_TINIT np_to_PAMB np_to_TINIT p_from p_to v_mps =
    gasvel_nb_normfactor_to bp_TOUTINIT
      (fl_compressibility (gaspress_nb_p_abs_from np_from_PAMB np_to_PAMB p_from p_to) tf)
      (fl_compressibility (gaspress_nb_p_abs_mean np_from_PAMB np_to_PAMB p_from p_to) ((tf + bp_TOUTINIT) / 2))
      (fl_compressibility (gaspress_nb_p_abs_to np_from_PAMB np_to_PAMB p_from p_to) bp_TOUTINIT)
      (gaspress_nb_p_abs_from np_from_PAMB np_to_PAMB p_from p_to) (gaspress_nb_p_abs_mean np_from_PAMB np_to_PAMB p_from p_to) (gaspress_nb_p_abs_to np_from_PAMB np_to_PAMB p_from p_to) tf v_mps /\
  gasres_np_normfactor_mean bp_FROM_NODE_T_SWITCHED bp_TOUTINIT fl_compressibility np_from_PAMB np_from_TINIT np_to_PAMB np_to_TINIT p_from p_to v_mps =
    gasvel_nb_normfactor_mean bp_TOUTINIT
      (fl_compressibility (gaspress_nb_p_abs_from np_from_PAMB np_to_PAMB p_from p_to) tf)
      (fl_compressibility (gaspress_nb_p_abs_mean np_from_PAMB np_to_PAMB p_from p_to) ((tf + bp_TOUTINIT) / 2))
      (fl_compressibility (gaspress_nb_p_abs_to np_from_PAMB np_to_PAMB p_from p_to) bp_TOUTINIT)
      (gaspress_nb_p_abs_from np_from_PAMB np_to_PAMB p_from p_to) (gaspress_nb_p_abs_mean np_from_PAMB np_to_PAMB p_from p_to) (gaspress_nb_p_abs_to np_from_PAMB np_to_PAMB p_from p_to) tf v_mps /\
  gasres_np_v_gas_from bp_FROM_NODE_T_SWITCHED bp_TOUTINIT fl_compressibility np_from_PAMB np_from_TINIT np_to_PAMB np_to_TINIT p_from p_to v_mps =
    gasvel_nb_v_gas_from bp_TOUTINIT
      (fl_compressibility (gaspress_nb_p_abs_from np_from_PAMB np_to_PAMB p_from p_to) tf)
      (fl_compressibility (gaspress_nb_p_abs_mean np_from_PAMB np_to_PAMB p_from p_to) ((tf + bp_TOUTINIT) / 2))
      (fl_compressibility (gaspress_nb_p_abs_to np_from_PAMB np_to_PAMB p_from p_to) bp_TOUTINIT)
      (gaspress_nb_p_abs_from np_from_PAMB np_to_PAMB p_from p_to) (gaspress_nb_p_abs_mean np_from_PAMB np_to_PAMB p_from p_to) (gaspress_nb_p_abs_to np_from_PAMB np_to_PAMB p_from p_to) tf v_mps /\
  gasres_np_v_gas_to bp_FROM_NODE_T_SWITCHED bp_TOUTINIT fl_compressibility np_from_PAMB np_from_TINIT np_to_PAMB np_to_TINIT p_from p_to v_mps =
    gasvel_nb_v_gas_to bp_TOUTINIT
      (fl_compressibility (gaspress_nb_p_abs_from np_from_PAMB np_to_PAMB p_from p_to) tf)
      (fl_compressibility (gaspress_nb_p_abs_mean np_from_PAMB np_to_PAMB p_from p_to) ((tf + bp_TOUTINIT) / 2))
      (fl_compressibility (gaspress_nb_p_abs_to np_from_PAMB np_to_PAMB p_from p_to) bp_TOUTINIT)
      (gaspress_nb_p_abs_from np_from_PAMB np_to_PAMB p_from p_to) (gaspress_nb_p_abs_mean np_from_PAMB np_to_PAMB p_from p_to) (gaspress_nb_p_abs_to np_from_PAMB np_to_PAMB p_from p_to) tf v_mps /\
  gasres_np_v_gas_mean bp_FROM_NODE_T_SWITCHED bp_TOUTINIT fl_compressibility np_from_PAMB np_from_TINIT np_to_PAMB np_to_TINIT p_from p_to v_mps =
    gasvel_nb_v_gas_mean bp_TOUTINIT
      (fl_compressibility (gaspress_nb_p_abs_from np_from_PAMB np_to_PAMB p_from p_to) tf)
      (fl_compressibility (gaspress_nb_p_abs_mean np_from_PAMB np_to_PAMB p_from p_to) ((tf + bp_TOUTINIT) / 2))
      (fl_compressibility (gaspress_nb_p_abs_to np_from_PAMB np_to_PAMB p_from p_to) bp_TOUTINIT)
      (gaspress_nb_p_abs_from np_from_PAMB np_to_PAMB p_from p_to) (gaspress_nb_p_abs_mean np_from_PAMB np_to_PAMB p_from p_to) (gaspress_nb_p_abs_to np_from_PAMB np_to_PAMB p_from p_to) tf v_mps.
Proof. exact C07.ProofsTwin.twin_gas_normfactors_equal. Qed.
Print Assumptions twin_gas_normfactors_equal.


(* the hypotheses of the conditional statements are satisfiable by ordinary operating points: a flowing branch (|m| = 1/2 kg/s
   is above both masks), a branch at rest (m = 0), absolute end pressures 4.01 / 3.01 bar *)
Example twin_guards_example :
  1 / 100000000 < Rabs (1 / 2) /\ ((0 : R) = 0 \/ 1 / 10000000000 < Rabs 0) /\
  (101 / 100 + 3) + (101 / 100 + 2) <> 0.
Proof. rewrite (Rabs_right (1 / 2)) by lra. split; [lra | split; [left; reflexivity | lra]]. Qed.
