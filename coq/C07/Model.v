(* C07 - model of the sparse-structure reuse of pandapipes.pf.build_system_matrix.build_system_matrix
   (option only_update_hydraulic_matrix) over any commutative ring.  Definitions only.

   Code modelled (what it does today, after /repo 33b82f8):
     first call   data_order = np.lexsort([cols, rows]); data/cols/rows are permuted by it, a CSR matrix with explicit
                  indptr is built; data_order and a PRIVATE COPY of the matrix (the structure) are cached.
     later calls  csr_matrix((system_data[data_order], structure.indices.copy(), structure.indptr.copy())):
                  the new data, permuted by the stored order, on the stored (never modified) slots  -> [update].
   Before 33b82f8 the cached object itself was handed to scipy.sparse.linalg.spsolve, which calls A.sum_duplicates()
   IN PLACE: equal (row, col) slots - adjacent after the lexsort - were merged, the index arrays shrank, and the next
   `system_matrix.data = system_data[data_order]` laid a longer data array over them  -> [update_shared]; kept here
   because the hazard (theorem update_shared_refuted_with_duplicates) is the reason for the copy.
   A matrix is read through [entry]: the value at a position is the sum of all triplets there (COO->CSR conversion,
   todense and spsolve all sum duplicates). *)
From Coq Require Import List Arith Bool.
Import ListNotations.

Definition pos := (nat * nat)%type.
Definition pos_eqb (p q : pos) : bool := Nat.eqb (fst p) (fst q) && Nat.eqb (snd p) (snd q).

Definition permute {X} (d : X) (ord : list nat) (xs : list X) : list X := map (fun i => nth i xs d) ord.

(* A.sum_duplicates() on a lexsorted structure: adjacent equal positions collapse to one slot *)
Fixpoint dedup_adj (ps : list pos) : list pos :=
  match ps with
  | [] => []
  | p :: r => match r with
              | [] => [p]
              | q :: _ => if pos_eqb p q then dedup_adj r else p :: dedup_adj r
              end
  end.

Section Asm.
  Context {A : Type} (zero : A) (add : A -> A -> A).

  Fixpoint entry (p : pos) (ts : list (pos * A)) : A :=
    match ts with
    | [] => zero
    | (q, v) :: r => if pos_eqb q p then add v (entry p r) else entry p r
    end.

  (* fresh assembly: csr_matrix((data, (rows, cols))) *)
  Definition fresh (ps : list pos) (data : list A) : list (pos * A) := combine ps data.

  (* update path today: new data, permuted by the stored data_order, on the stored slots ps[ord] *)
  Definition update (ord : list nat) (ps : list pos) (data' : list A) : list (pos * A) :=
    combine (permute (0, 0) ord ps) (permute zero ord data').

  (* update path before 33b82f8: the cached structure had been canonicalised in place by the first spsolve
     ([combine] truncates like the CSR arrays do: nnz = indptr[-1] slots are read) *)
  Definition shared_structure (ord : list nat) (ps : list pos) : list pos := dedup_adj (permute (0, 0) ord ps).
  Definition update_shared (ord : list nat) (ps : list pos) (data' : list A) : list (pos * A) :=
    combine (shared_structure ord ps) (permute zero ord data').
End Asm.
