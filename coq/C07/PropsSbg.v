(* C07 - grouped sums: the numpy path (argsort + cumulative sums) and the numba path (bucket accumulation, with its
   size-dependent fall-back) of pandapipes.pf.internals_toolbox._sum_by_group return the same arrays.
   Model and path-vs-specification theorems: builder of C06 (PP.C06.Model / PP.C06.Proofs, tied to the code by the
   exact correspondence of check C06); this file only states the C07 consequence. *)
From Coq Require Import List ZArith Permutation Sorted Ring.
From PP Require Import C06.Model.
From PP Require C06.Proofs.
Import ListNotations.
Open Scope Z_scope.

Theorem sum_by_group_paths_equal :
  forall (A : Type) (zero one : A) (add mul sub : A -> A -> A) (opp : A -> A),
  ring_theory zero one add mul sub opp eq ->
  forall (nb1 inst1 nb2 inst2 : bool) (order1 order2 : list nat) (ks : list Z) (vs : list A),
  Permutation order1 (seq 0 (length ks)) -> Sorted Z.le (permute 0 order1 ks) ->
  Permutation order2 (seq 0 (length ks)) -> Sorted Z.le (permute 0 order2 ks) ->
  (forall k, In k ks -> 0 <= k) -> length vs = length ks ->
  sbg zero add nb1 inst1 order1 ks vs = sbg zero add nb2 inst2 order2 ks vs.
Proof.
  intros A zero one add mul sub opp Rth nb1 i1 nb2 i2 o1 o2 ks vs H1 S1 H2 S2 Hp Hl.
  rewrite (C06.Proofs.sbg_all_paths_spec zero one add mul sub opp Rth nb1 i1 o1 ks vs H1 S1 Hp Hl).
  rewrite (C06.Proofs.sbg_all_paths_spec zero one add mul sub opp Rth nb2 i2 o2 ks vs H2 S2 Hp Hl).
  reflexivity.
Qed.
Print Assumptions sum_by_group_paths_equal.
