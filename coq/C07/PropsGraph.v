(* C07 - graph part of the thermal twins (model: C07/ModelGraph.v, tied to both real kernels by an exact correspondence
   evaluated inside Coq on generated branch lists). *)
From Coq Require Import List Arith Bool.
From PP Require Import C07.ModelGraph.
From PP Require C07.ProofsGraph.
Import ListNotations.

(* set-difference formulation (numpy) = flag formulation (numba) of the infeed nodes, for every branch list and node *)
Theorem infeed_twin : forall (l : list br) (n : nat), nb_infeed l n = np_infeed l n.
Proof. exact C07.ProofsGraph.infeed_twin_lemma. Qed.
Print Assumptions infeed_twin.

(* np.isin over the concatenated end nodes = club_from | club_to *)
Theorem nodes_flow_twin : forall (l : list br) (n : nat), nb_nodes_flow l n = np_nodes_flow l n.
Proof. exact C07.ProofsGraph.nodes_flow_twin_lemma. Qed.
Print Assumptions nodes_flow_twin.

(* a non-trivial instance: parallel branches, a non-flowing branch, a loop; node 0 and node 4 feed in *)
Example infeed_example :
  let l := [ {| bf := 0; bt := 1; flow := true |}; {| bf := 0; bt := 1; flow := true |}; {| bf := 1; bt := 2; flow := true |};
             {| bf := 2; bt := 1; flow := true |}; {| bf := 3; bt := 2; flow := false |}; {| bf := 4; bt := 2; flow := true |} ] in
  tab (nb_infeed l) 5 = [true; false; false; false; true] /\ tab (np_nodes_flow l) 5 = [true; true; true; false; true].
Proof. split; reflexivity. Qed.
