(* C07 - twin kernels (numpy / numba) as real functions: proofs over the GENERATED kernels (Gen/K*.v,
   regenerated from derivative_toolbox.py / derivative_toolbox_numba.py / result_extraction.py on every run). *)
From Coq Require Import Reals Bool Lra.
From PP Require Import Kern.RBool Gen.KHydIncompNp Gen.KHydIncompNb Gen.KHydCompNp Gen.KHydCompNb
  Gen.KThermNp Gen.KThermNb Gen.KPmNp Gen.KPmNb Gen.KLambdaNp Gen.KLambdaNb Gen.KDerivedNp Gen.KDerivedNb
  Gen.KGasResNp Gen.KGasResNb.
Open Scope R_scope.

(* liquid kernel: everything entering the load vector is the same real function in both engines, for ALL inputs *)
Lemma twin_residuals_equal_incomp :
  forall bp_AREA bp_D bp_LAMBDA bp_LENGTH bp_LOSS_COEFFICIENT bp_MDOTINIT bp_PL der_lambda height_difference p_init_i1_abs p_init_i_abs rho : R,
  hyd_incomp_np_load_vec bp_AREA bp_D bp_LAMBDA bp_LENGTH bp_LOSS_COEFFICIENT bp_MDOTINIT bp_PL der_lambda height_difference p_init_i1_abs p_init_i_abs rho = hyd_incomp_nb_load_vec bp_AREA bp_D bp_LAMBDA bp_LENGTH bp_LOSS_COEFFICIENT bp_MDOTINIT bp_PL der_lambda height_difference p_init_i1_abs p_init_i_abs rho /\
  hyd_incomp_np_load_vec_nodes_from bp_AREA bp_D bp_LAMBDA bp_LENGTH bp_LOSS_COEFFICIENT bp_MDOTINIT bp_PL der_lambda height_difference p_init_i1_abs p_init_i_abs rho = hyd_incomp_nb_load_vec_nodes_from bp_AREA bp_D bp_LAMBDA bp_LENGTH bp_LOSS_COEFFICIENT bp_MDOTINIT bp_PL der_lambda height_difference p_init_i1_abs p_init_i_abs rho /\
  hyd_incomp_np_load_vec_nodes_to bp_AREA bp_D bp_LAMBDA bp_LENGTH bp_LOSS_COEFFICIENT bp_MDOTINIT bp_PL der_lambda height_difference p_init_i1_abs p_init_i_abs rho = hyd_incomp_nb_load_vec_nodes_to bp_AREA bp_D bp_LAMBDA bp_LENGTH bp_LOSS_COEFFICIENT bp_MDOTINIT bp_PL der_lambda height_difference p_init_i1_abs p_init_i_abs rho /\
  hyd_incomp_np_dp_frict_loss bp_AREA bp_D bp_LAMBDA bp_LENGTH bp_LOSS_COEFFICIENT bp_MDOTINIT bp_PL der_lambda height_difference p_init_i1_abs p_init_i_abs rho = hyd_incomp_nb_dp_frict_loss bp_AREA bp_D bp_LAMBDA bp_LENGTH bp_LOSS_COEFFICIENT bp_MDOTINIT bp_PL der_lambda height_difference p_init_i1_abs p_init_i_abs rho.
Proof.
  intros. unfold hyd_incomp_np_load_vec, hyd_incomp_nb_load_vec, hyd_incomp_np_load_vec_nodes_from, hyd_incomp_nb_load_vec_nodes_from, hyd_incomp_np_load_vec_nodes_to, hyd_incomp_nb_load_vec_nodes_to, hyd_incomp_np_dp_frict_loss, hyd_incomp_nb_dp_frict_loss. cbv zeta. unfold Rdiv. repeat split; ring.
Qed.

(* liquid kernel: all four Jacobian outputs agree for ALL inputs (the regularisation max(|m|,1e-8) is in both) *)
Lemma twin_jacobians_equal_incomp :
  forall bp_AREA bp_D bp_LAMBDA bp_LENGTH bp_LOSS_COEFFICIENT bp_MDOTINIT bp_PL der_lambda height_difference p_init_i1_abs p_init_i_abs rho : R,
  hyd_incomp_np_df_dm bp_AREA bp_D bp_LAMBDA bp_LENGTH bp_LOSS_COEFFICIENT bp_MDOTINIT bp_PL der_lambda height_difference p_init_i1_abs p_init_i_abs rho = hyd_incomp_nb_df_dm bp_AREA bp_D bp_LAMBDA bp_LENGTH bp_LOSS_COEFFICIENT bp_MDOTINIT bp_PL der_lambda height_difference p_init_i1_abs p_init_i_abs rho /\
  hyd_incomp_np_df_dm_nodes bp_AREA bp_D bp_LAMBDA bp_LENGTH bp_LOSS_COEFFICIENT bp_MDOTINIT bp_PL der_lambda height_difference p_init_i1_abs p_init_i_abs rho = hyd_incomp_nb_df_dm_nodes bp_AREA bp_D bp_LAMBDA bp_LENGTH bp_LOSS_COEFFICIENT bp_MDOTINIT bp_PL der_lambda height_difference p_init_i1_abs p_init_i_abs rho /\
  hyd_incomp_np_df_dp bp_AREA bp_D bp_LAMBDA bp_LENGTH bp_LOSS_COEFFICIENT bp_MDOTINIT bp_PL der_lambda height_difference p_init_i1_abs p_init_i_abs rho = hyd_incomp_nb_df_dp bp_AREA bp_D bp_LAMBDA bp_LENGTH bp_LOSS_COEFFICIENT bp_MDOTINIT bp_PL der_lambda height_difference p_init_i1_abs p_init_i_abs rho /\
  hyd_incomp_np_df_dp1 bp_AREA bp_D bp_LAMBDA bp_LENGTH bp_LOSS_COEFFICIENT bp_MDOTINIT bp_PL der_lambda height_difference p_init_i1_abs p_init_i_abs rho = hyd_incomp_nb_df_dp1 bp_AREA bp_D bp_LAMBDA bp_LENGTH bp_LOSS_COEFFICIENT bp_MDOTINIT bp_PL der_lambda height_difference p_init_i1_abs p_init_i_abs rho.
Proof.
  intros. unfold hyd_incomp_np_df_dm, hyd_incomp_nb_df_dm, hyd_incomp_np_df_dm_nodes, hyd_incomp_nb_df_dm_nodes, hyd_incomp_np_df_dp, hyd_incomp_nb_df_dp, hyd_incomp_np_df_dp1, hyd_incomp_nb_df_dp1. cbv zeta. unfold Rdiv. repeat split; ring.
Qed.

(* gas kernel: load-vector outputs agree for ALL inputs *)
Lemma twin_residuals_equal_comp :
  forall bp_AREA bp_D bp_LENGTH bp_LOSS_COEFFICIENT bp_MDOTINIT bp_PL bp_TOUTINIT comp_fact der_comp der_comp1 der_lambda height_difference lambda_ np_from_TINIT p_init_i1_abs p_init_i_abs rho rho_n : R,
  hyd_comp_np_load_vec bp_AREA bp_D bp_LENGTH bp_LOSS_COEFFICIENT bp_MDOTINIT bp_PL bp_TOUTINIT comp_fact der_comp der_comp1 der_lambda height_difference lambda_ np_from_TINIT p_init_i1_abs p_init_i_abs rho rho_n = hyd_comp_nb_load_vec bp_AREA bp_D bp_LENGTH bp_LOSS_COEFFICIENT bp_MDOTINIT bp_PL bp_TOUTINIT comp_fact der_comp der_comp1 der_lambda height_difference lambda_ np_from_TINIT p_init_i1_abs p_init_i_abs rho rho_n /\
  hyd_comp_np_load_vec_nodes_from bp_AREA bp_D bp_LENGTH bp_LOSS_COEFFICIENT bp_MDOTINIT bp_PL bp_TOUTINIT comp_fact der_comp der_comp1 der_lambda height_difference lambda_ np_from_TINIT p_init_i1_abs p_init_i_abs rho rho_n = hyd_comp_nb_load_vec_nodes_from bp_AREA bp_D bp_LENGTH bp_LOSS_COEFFICIENT bp_MDOTINIT bp_PL bp_TOUTINIT comp_fact der_comp der_comp1 der_lambda height_difference lambda_ np_from_TINIT p_init_i1_abs p_init_i_abs rho rho_n /\
  hyd_comp_np_load_vec_nodes_to bp_AREA bp_D bp_LENGTH bp_LOSS_COEFFICIENT bp_MDOTINIT bp_PL bp_TOUTINIT comp_fact der_comp der_comp1 der_lambda height_difference lambda_ np_from_TINIT p_init_i1_abs p_init_i_abs rho rho_n = hyd_comp_nb_load_vec_nodes_to bp_AREA bp_D bp_LENGTH bp_LOSS_COEFFICIENT bp_MDOTINIT bp_PL bp_TOUTINIT comp_fact der_comp der_comp1 der_lambda height_difference lambda_ np_from_TINIT p_init_i1_abs p_init_i_abs rho rho_n /\
  hyd_comp_np_dp_frict_loss bp_AREA bp_D bp_LENGTH bp_LOSS_COEFFICIENT bp_MDOTINIT bp_PL bp_TOUTINIT comp_fact der_comp der_comp1 der_lambda height_difference lambda_ np_from_TINIT p_init_i1_abs p_init_i_abs rho rho_n = hyd_comp_nb_dp_frict_loss bp_AREA bp_D bp_LENGTH bp_LOSS_COEFFICIENT bp_MDOTINIT bp_PL bp_TOUTINIT comp_fact der_comp der_comp1 der_lambda height_difference lambda_ np_from_TINIT p_init_i1_abs p_init_i_abs rho rho_n.
Proof.
  intros. unfold hyd_comp_np_load_vec, hyd_comp_nb_load_vec, hyd_comp_np_load_vec_nodes_from, hyd_comp_nb_load_vec_nodes_from, hyd_comp_np_load_vec_nodes_to, hyd_comp_nb_load_vec_nodes_to, hyd_comp_np_dp_frict_loss, hyd_comp_nb_dp_frict_loss. cbv zeta. unfold Rdiv. repeat split; ring.
Qed.

(* gas kernel: df_dp, df_dp1, df_dm_nodes agree for ALL inputs; df_dm agrees whenever |m| > 1e-8 (named exception below) *)
Lemma twin_jacobians_equal_comp_partial :
  forall bp_AREA bp_D bp_LENGTH bp_LOSS_COEFFICIENT bp_MDOTINIT bp_PL bp_TOUTINIT comp_fact der_comp der_comp1 der_lambda height_difference lambda_ np_from_TINIT p_init_i1_abs p_init_i_abs rho rho_n : R,
  hyd_comp_np_df_dm_nodes bp_AREA bp_D bp_LENGTH bp_LOSS_COEFFICIENT bp_MDOTINIT bp_PL bp_TOUTINIT comp_fact der_comp der_comp1 der_lambda height_difference lambda_ np_from_TINIT p_init_i1_abs p_init_i_abs rho rho_n = hyd_comp_nb_df_dm_nodes bp_AREA bp_D bp_LENGTH bp_LOSS_COEFFICIENT bp_MDOTINIT bp_PL bp_TOUTINIT comp_fact der_comp der_comp1 der_lambda height_difference lambda_ np_from_TINIT p_init_i1_abs p_init_i_abs rho rho_n /\
  hyd_comp_np_df_dp bp_AREA bp_D bp_LENGTH bp_LOSS_COEFFICIENT bp_MDOTINIT bp_PL bp_TOUTINIT comp_fact der_comp der_comp1 der_lambda height_difference lambda_ np_from_TINIT p_init_i1_abs p_init_i_abs rho rho_n = hyd_comp_nb_df_dp bp_AREA bp_D bp_LENGTH bp_LOSS_COEFFICIENT bp_MDOTINIT bp_PL bp_TOUTINIT comp_fact der_comp der_comp1 der_lambda height_difference lambda_ np_from_TINIT p_init_i1_abs p_init_i_abs rho rho_n /\
  hyd_comp_np_df_dp1 bp_AREA bp_D bp_LENGTH bp_LOSS_COEFFICIENT bp_MDOTINIT bp_PL bp_TOUTINIT comp_fact der_comp der_comp1 der_lambda height_difference lambda_ np_from_TINIT p_init_i1_abs p_init_i_abs rho rho_n = hyd_comp_nb_df_dp1 bp_AREA bp_D bp_LENGTH bp_LOSS_COEFFICIENT bp_MDOTINIT bp_PL bp_TOUTINIT comp_fact der_comp der_comp1 der_lambda height_difference lambda_ np_from_TINIT p_init_i1_abs p_init_i_abs rho rho_n /\
  (1 / 100000000 < Rabs bp_MDOTINIT ->
   hyd_comp_np_df_dm bp_AREA bp_D bp_LENGTH bp_LOSS_COEFFICIENT bp_MDOTINIT bp_PL bp_TOUTINIT comp_fact der_comp der_comp1 der_lambda height_difference lambda_ np_from_TINIT p_init_i1_abs p_init_i_abs rho rho_n = hyd_comp_nb_df_dm bp_AREA bp_D bp_LENGTH bp_LOSS_COEFFICIENT bp_MDOTINIT bp_PL bp_TOUTINIT comp_fact der_comp der_comp1 der_lambda height_difference lambda_ np_from_TINIT p_init_i1_abs p_init_i_abs rho rho_n).
Proof.
  intros. unfold hyd_comp_np_df_dm, hyd_comp_nb_df_dm, hyd_comp_np_df_dm_nodes, hyd_comp_nb_df_dm_nodes, hyd_comp_np_df_dp, hyd_comp_nb_df_dp, hyd_comp_np_df_dp1, hyd_comp_nb_df_dp1. cbv zeta. repeat split; try (unfold Rdiv; ring).
  intros Hm. rewrite Rabs_Rabsolu. destruct (Rleb_spec (Rabs bp_MDOTINIT) (1 / 100000000)); [lra | unfold Rdiv; ring].
Qed.

(* the named exception: at |m| <= 1e-8 numpy overwrites df_dm by 1, numba keeps the regularised derivative (m_abs_deriv = 1e-8) *)
Lemma twin_comp_df_dm_exception :
  forall bp_AREA bp_D bp_LENGTH bp_LOSS_COEFFICIENT bp_MDOTINIT bp_PL bp_TOUTINIT comp_fact der_comp der_comp1 der_lambda height_difference lambda_ np_from_TINIT p_init_i1_abs p_init_i_abs rho rho_n : R,
  Rabs bp_MDOTINIT <= 1 / 100000000 ->
  hyd_comp_np_df_dm bp_AREA bp_D bp_LENGTH bp_LOSS_COEFFICIENT bp_MDOTINIT bp_PL bp_TOUTINIT comp_fact der_comp der_comp1 der_lambda height_difference lambda_ np_from_TINIT p_init_i1_abs p_init_i_abs rho rho_n = 1 /\
  hyd_comp_nb_df_dm bp_AREA bp_D bp_LENGTH bp_LOSS_COEFFICIENT bp_MDOTINIT bp_PL bp_TOUTINIT comp_fact der_comp der_comp1 der_lambda height_difference lambda_ np_from_TINIT p_init_i1_abs p_init_i_abs rho rho_n =
    - ((4053 / 4000) / (27315000 * rho_n * bp_AREA ^ 2)) * comp_fact * (1 / (p_init_i_abs + p_init_i1_abs))
      * ((np_from_TINIT + bp_TOUTINIT) / 2)
      * (2 * (1 / 100000000) * (lambda_ * bp_LENGTH / bp_D + bp_LOSS_COEFFICIENT)
         + der_lambda * bp_LENGTH * (bp_MDOTINIT * Rabs bp_MDOTINIT) / bp_D).
Proof.
  intros until rho_n. intros Hm. unfold hyd_comp_np_df_dm, hyd_comp_nb_df_dm. cbv zeta. split.
  - rewrite Rabs_Rabsolu. destruct (Rleb_spec (Rabs bp_MDOTINIT) (1 / 100000000)); [reflexivity | lra].
  - rewrite (Rmax_right (Rabs bp_MDOTINIT) (1 / 100000000)) by exact Hm. unfold Rdiv. ring.
Qed.

(* ... and the two values really differ there (witness: m = 0, all other inputs 1) *)
Lemma twin_comp_df_dm_refuted :
  exists bp_AREA bp_D bp_LENGTH bp_LOSS_COEFFICIENT bp_MDOTINIT bp_PL bp_TOUTINIT comp_fact der_comp der_comp1 der_lambda height_difference lambda_ np_from_TINIT p_init_i1_abs p_init_i_abs rho rho_n : R,
  hyd_comp_np_df_dm bp_AREA bp_D bp_LENGTH bp_LOSS_COEFFICIENT bp_MDOTINIT bp_PL bp_TOUTINIT comp_fact der_comp der_comp1 der_lambda height_difference lambda_ np_from_TINIT p_init_i1_abs p_init_i_abs rho rho_n <> hyd_comp_nb_df_dm bp_AREA bp_D bp_LENGTH bp_LOSS_COEFFICIENT bp_MDOTINIT bp_PL bp_TOUTINIT comp_fact der_comp der_comp1 der_lambda height_difference lambda_ np_from_TINIT p_init_i1_abs p_init_i_abs rho rho_n.
Proof.
  exists 1, 1, 1, 1, 0, 1, 1, 1, 1, 1, 1, 1, 1, 1, 1, 1, 1, 1.
  unfold hyd_comp_np_df_dm, hyd_comp_nb_df_dm. cbv zeta. rewrite Rabs_Rabsolu, Rabs_R0.
  destruct (Rleb_spec 0 (1 / 100000000)); [| lra].
  rewrite (Rmax_right 0 (1 / 100000000)) by lra. lra.
Qed.

(* thermal kernels (steady state): node residual / derivative, branch residual / derivatives and the flow flag agree for ALL inputs *)
Lemma twin_thermal_equal :
  forall (amb bp_ALPHA bp_DO bp_LENGTH bp_MDOTINIT bp_QEXT bp_TEXT bp_TL cp_b cp_n : R) (nodes_flow : bool) (t_init_i t_init_i1 t_init_n t_init_nt : R),
  therm_np_fn amb bp_ALPHA bp_DO bp_LENGTH bp_MDOTINIT bp_QEXT bp_TEXT bp_TL cp_b cp_n nodes_flow t_init_i t_init_i1 t_init_n t_init_nt = therm_nb_fn amb bp_ALPHA bp_DO bp_LENGTH bp_MDOTINIT bp_QEXT bp_TEXT bp_TL cp_b cp_n nodes_flow t_init_i t_init_i1 t_init_n t_init_nt /\
  therm_np_dfn_dt amb bp_ALPHA bp_DO bp_LENGTH bp_MDOTINIT bp_QEXT bp_TEXT bp_TL cp_b cp_n nodes_flow t_init_i t_init_i1 t_init_n t_init_nt = therm_nb_dfn_dt amb bp_ALPHA bp_DO bp_LENGTH bp_MDOTINIT bp_QEXT bp_TEXT bp_TL cp_b cp_n nodes_flow t_init_i t_init_i1 t_init_n t_init_nt /\
  therm_np_fb amb bp_ALPHA bp_DO bp_LENGTH bp_MDOTINIT bp_QEXT bp_TEXT bp_TL cp_b cp_n nodes_flow t_init_i t_init_i1 t_init_n t_init_nt = therm_nb_fb amb bp_ALPHA bp_DO bp_LENGTH bp_MDOTINIT bp_QEXT bp_TEXT bp_TL cp_b cp_n nodes_flow t_init_i t_init_i1 t_init_n t_init_nt /\
  therm_np_dfb_dt amb bp_ALPHA bp_DO bp_LENGTH bp_MDOTINIT bp_QEXT bp_TEXT bp_TL cp_b cp_n nodes_flow t_init_i t_init_i1 t_init_n t_init_nt = therm_nb_dfb_dt amb bp_ALPHA bp_DO bp_LENGTH bp_MDOTINIT bp_QEXT bp_TEXT bp_TL cp_b cp_n nodes_flow t_init_i t_init_i1 t_init_n t_init_nt /\
  therm_np_dfb_dtout amb bp_ALPHA bp_DO bp_LENGTH bp_MDOTINIT bp_QEXT bp_TEXT bp_TL cp_b cp_n nodes_flow t_init_i t_init_i1 t_init_n t_init_nt = therm_nb_dfb_dtout amb bp_ALPHA bp_DO bp_LENGTH bp_MDOTINIT bp_QEXT bp_TEXT bp_TL cp_b cp_n nodes_flow t_init_i t_init_i1 t_init_n t_init_nt /\
  branches_flow_np_flow bp_MDOTINIT = branches_flow_nb_flow bp_MDOTINIT.
Proof.
  intros. unfold therm_np_fn, therm_nb_fn, therm_np_dfn_dt, therm_nb_dfn_dt, therm_np_fb, therm_nb_fb, therm_np_dfb_dt, therm_nb_dfb_dt, therm_np_dfb_dtout, therm_nb_dfb_dtout, branches_flow_np_flow, branches_flow_nb_flow. cbv zeta.
  rewrite Rltb_negb_Rleb. repeat split; try reflexivity;
  destruct nodes_flow; destruct (Rleb (Rabs bp_MDOTINIT) (1 / 10000000000)); simpl; reflexivity.
Qed.

(* thermal to-node terms: numpy zeroes them for |m| <= 1e-10, numba does not; they agree when m = 0 or |m| > 1e-10 *)
Lemma twin_thermal_node_terms_partial :
  forall (amb bp_ALPHA bp_DO bp_LENGTH bp_MDOTINIT bp_QEXT bp_TEXT bp_TL cp_b cp_n : R) (nodes_flow : bool) (t_init_i t_init_i1 t_init_n t_init_nt : R),
  bp_MDOTINIT = 0 \/ 1 / 10000000000 < Rabs bp_MDOTINIT ->
  therm_np_fnt amb bp_ALPHA bp_DO bp_LENGTH bp_MDOTINIT bp_QEXT bp_TEXT bp_TL cp_b cp_n nodes_flow t_init_i t_init_i1 t_init_n t_init_nt = therm_nb_fnt amb bp_ALPHA bp_DO bp_LENGTH bp_MDOTINIT bp_QEXT bp_TEXT bp_TL cp_b cp_n nodes_flow t_init_i t_init_i1 t_init_n t_init_nt /\
  therm_np_dfnt_dt amb bp_ALPHA bp_DO bp_LENGTH bp_MDOTINIT bp_QEXT bp_TEXT bp_TL cp_b cp_n nodes_flow t_init_i t_init_i1 t_init_n t_init_nt = therm_nb_dfnt_dt amb bp_ALPHA bp_DO bp_LENGTH bp_MDOTINIT bp_QEXT bp_TEXT bp_TL cp_b cp_n nodes_flow t_init_i t_init_i1 t_init_n t_init_nt /\
  therm_np_dfnt_dtout amb bp_ALPHA bp_DO bp_LENGTH bp_MDOTINIT bp_QEXT bp_TEXT bp_TL cp_b cp_n nodes_flow t_init_i t_init_i1 t_init_n t_init_nt = therm_nb_dfnt_dtout amb bp_ALPHA bp_DO bp_LENGTH bp_MDOTINIT bp_QEXT bp_TEXT bp_TL cp_b cp_n nodes_flow t_init_i t_init_i1 t_init_n t_init_nt.
Proof.
  intros until t_init_nt. intros Hm. unfold therm_np_fnt, therm_nb_fnt, therm_np_dfnt_dt, therm_nb_dfnt_dt, therm_np_dfnt_dtout, therm_nb_dfnt_dtout. cbv zeta.
  destruct (Rleb_spec (Rabs bp_MDOTINIT) (1 / 10000000000)) as [Hle | Hgt]; simpl.
  - destruct Hm as [Hz | Hm]; [| lra]. subst bp_MDOTINIT. rewrite Rabs_R0. repeat split; ring.
  - repeat split; reflexivity.
Qed.

(* ... and they differ for 0 < |m| <= 1e-10 (witness m = 1e-10, cp = 1, T_out - T_node = 1) *)
Lemma twin_thermal_node_terms_refuted :
  exists amb bp_ALPHA bp_DO bp_LENGTH bp_MDOTINIT bp_QEXT bp_TEXT bp_TL cp_b cp_n : R, exists nodes_flow : bool, exists t_init_i t_init_i1 t_init_n t_init_nt : R,
  therm_np_fnt amb bp_ALPHA bp_DO bp_LENGTH bp_MDOTINIT bp_QEXT bp_TEXT bp_TL cp_b cp_n nodes_flow t_init_i t_init_i1 t_init_n t_init_nt <> therm_nb_fnt amb bp_ALPHA bp_DO bp_LENGTH bp_MDOTINIT bp_QEXT bp_TEXT bp_TL cp_b cp_n nodes_flow t_init_i t_init_i1 t_init_n t_init_nt.
Proof.
  exists 0, 0, 0, 0, (1 / 10000000000), 0, 0, 0, 1, 1, true, 0, 1, 0, 0.
  unfold therm_np_fnt, therm_nb_fnt. cbv zeta.
  rewrite (Rabs_right (1 / 10000000000)) by lra.
  destruct (Rleb_spec (1 / 10000000000) (1 / 10000000000)); [| lra]. simpl. lra.
Qed.

(* friction-factor kernels (liquid and gas form): Re, laminar part (threshold |Re| > 1e-8 on both sides) and Nikuradse part agree for ALL inputs *)
Lemma twin_lambda_equal :
  forall area d eta k m : R,
  lambda_incomp_np_re area d eta k m = lambda_incomp_nb_re area d eta k m /\
  lambda_incomp_np_lambda_laminar area d eta k m = lambda_incomp_nb_lambda_laminar area d eta k m /\
  lambda_incomp_np_lambda_nikuradse area d eta k m = lambda_incomp_nb_lambda_nikuradse area d eta k m /\
  lambda_comp_np_re area d eta k m = lambda_comp_nb_re area d eta k m /\
  lambda_comp_np_lambda_laminar area d eta k m = lambda_comp_nb_lambda_laminar area d eta k m /\
  lambda_comp_np_lambda_nikuradse area d eta k m = lambda_comp_nb_lambda_nikuradse area d eta k m.
Proof.
  intros. unfold lambda_incomp_np_re, lambda_incomp_nb_re, lambda_incomp_np_lambda_laminar, lambda_incomp_nb_lambda_laminar, lambda_incomp_np_lambda_nikuradse, lambda_incomp_nb_lambda_nikuradse, lambda_comp_np_re, lambda_comp_nb_re, lambda_comp_np_lambda_laminar, lambda_comp_nb_lambda_laminar, lambda_comp_np_lambda_nikuradse, lambda_comp_nb_lambda_nikuradse. cbv zeta.
  rewrite !Rltb_negb_Rleb. repeat split; reflexivity.
Qed.

(* mean pressure and its derivatives agree for ALL inputs (equal end pressures included) *)
Lemma twin_medium_pressure_equal :
  forall p_init_i1_abs p_init_i_abs : R,
  pm_np_p_m p_init_i1_abs p_init_i_abs = pm_nb_p_m p_init_i1_abs p_init_i_abs /\
  pm_np_der_p_m p_init_i1_abs p_init_i_abs = pm_nb_der_p_m p_init_i1_abs p_init_i_abs /\
  pm_np_der_p_m1 p_init_i1_abs p_init_i_abs = pm_nb_der_p_m1 p_init_i1_abs p_init_i_abs.
Proof.
  intros. unfold pm_np_p_m, pm_nb_p_m, pm_np_der_p_m, pm_nb_der_p_m, pm_np_der_p_m1, pm_nb_der_p_m1. cbv zeta.
  destruct (Reqb p_init_i_abs p_init_i1_abs); simpl; repeat split; try reflexivity; unfold Rdiv; ring.
Qed.

(* derived values (mean T, height difference, absolute end pressures) agree for ALL inputs *)
Lemma twin_derived_values_equal :
  forall np_from_HEIGHT np_from_PAMB np_from_PINIT np_from_TINIT np_to_HEIGHT np_to_PAMB np_to_PINIT np_to_TINIT : R,
  derived_np_tinit_branch np_from_HEIGHT np_from_PAMB np_from_PINIT np_from_TINIT np_to_HEIGHT np_to_PAMB np_to_PINIT np_to_TINIT = derived_nb_tinit_branch np_from_HEIGHT np_from_PAMB np_from_PINIT np_from_TINIT np_to_HEIGHT np_to_PAMB np_to_PINIT np_to_TINIT /\
  derived_np_height_difference np_from_HEIGHT np_from_PAMB np_from_PINIT np_from_TINIT np_to_HEIGHT np_to_PAMB np_to_PINIT np_to_TINIT = derived_nb_height_difference np_from_HEIGHT np_from_PAMB np_from_PINIT np_from_TINIT np_to_HEIGHT np_to_PAMB np_to_PINIT np_to_TINIT /\
  derived_np_p_init_i_abs np_from_HEIGHT np_from_PAMB np_from_PINIT np_from_TINIT np_to_HEIGHT np_to_PAMB np_to_PINIT np_to_TINIT = derived_nb_p_init_i_abs np_from_HEIGHT np_from_PAMB np_from_PINIT np_from_TINIT np_to_HEIGHT np_to_PAMB np_to_PINIT np_to_TINIT /\
  derived_np_p_init_i1_abs np_from_HEIGHT np_from_PAMB np_from_PINIT np_from_TINIT np_to_HEIGHT np_to_PAMB np_to_PINIT np_to_TINIT = derived_nb_p_init_i1_abs np_from_HEIGHT np_from_PAMB np_from_PINIT np_from_TINIT np_to_HEIGHT np_to_PAMB np_to_PINIT np_to_TINIT.
Proof.
  intros. unfold derived_np_tinit_branch, derived_nb_tinit_branch, derived_np_height_difference, derived_nb_height_difference, derived_np_p_init_i_abs, derived_nb_p_init_i_abs, derived_np_p_init_i1_abs, derived_nb_p_init_i1_abs. cbv zeta. repeat split; reflexivity.
Qed.

(* reported absolute pressures: p_abs_from/to always; p_abs_mean (symmetric form 2/3 (a^2+ab+b^2)/(a+b) vs 2(a^2+ab+b^2)/(3(a+b)), no mask since /repo c6a5196) when p_from_abs + p_to_abs <> 0 *)
Lemma twin_gas_pressures_equal :
  forall (bp_FROM_NODE_T_SWITCHED bp_TOUTINIT : R) (fl_compressibility : R -> R -> R) (np_from_PAMB np_from_TINIT np_to_PAMB np_to_TINIT p_from p_to v_mps : R),
  gasres_np_p_abs_from bp_FROM_NODE_T_SWITCHED bp_TOUTINIT fl_compressibility np_from_PAMB np_from_TINIT np_to_PAMB np_to_TINIT p_from p_to v_mps = gaspress_nb_p_abs_from np_from_PAMB np_to_PAMB p_from p_to /\
  gasres_np_p_abs_to bp_FROM_NODE_T_SWITCHED bp_TOUTINIT fl_compressibility np_from_PAMB np_from_TINIT np_to_PAMB np_to_TINIT p_from p_to v_mps = gaspress_nb_p_abs_to np_from_PAMB np_to_PAMB p_from p_to /\
  ((np_from_PAMB + p_from) + (np_to_PAMB + p_to) <> 0 ->
   gasres_np_p_abs_mean bp_FROM_NODE_T_SWITCHED bp_TOUTINIT fl_compressibility np_from_PAMB np_from_TINIT np_to_PAMB np_to_TINIT p_from p_to v_mps = gaspress_nb_p_abs_mean np_from_PAMB np_to_PAMB p_from p_to).
Proof.
  intros. unfold gasres_np_p_abs_from, gaspress_nb_p_abs_from, gasres_np_p_abs_to, gaspress_nb_p_abs_to,
    gasres_np_p_abs_mean, gaspress_nb_p_abs_mean. cbv zeta. repeat split; try reflexivity.
  intros Hs. field. exact Hs.
Qed.

(* the reported mean pressure (symmetric form, both engines) is the mean of the quadratic pressure profile in EVERY case: for
   a <> b it equals 2/3 (a^3 - b^3)/(a^2 - b^2), at a = b it equals a *)
Lemma pm_symmetric_form :
  forall (bp_FROM_NODE_T_SWITCHED bp_TOUTINIT : R) (fl_compressibility : R -> R -> R) (np_from_PAMB np_from_TINIT np_to_PAMB np_to_TINIT p_from p_to v_mps : R),
  let a := np_from_PAMB + p_from in let b := np_to_PAMB + p_to in
  a + b <> 0 ->
  (a <> b -> gasres_np_p_abs_mean bp_FROM_NODE_T_SWITCHED bp_TOUTINIT fl_compressibility np_from_PAMB np_from_TINIT np_to_PAMB np_to_TINIT p_from p_to v_mps = 2 / 3 * (a ^ 3 - b ^ 3) / (a ^ 2 - b ^ 2)) /\
  (a = b -> gasres_np_p_abs_mean bp_FROM_NODE_T_SWITCHED bp_TOUTINIT fl_compressibility np_from_PAMB np_from_TINIT np_to_PAMB np_to_TINIT p_from p_to v_mps = a).
Proof.
  intros until v_mps. intros a b Hs. unfold gasres_np_p_abs_mean. cbv zeta. fold a b. split.
  - intros Hne. assert (Hd : a - b <> 0) by lra.
    assert (Hq : a ^ 2 - b ^ 2 <> 0).
    { replace (a ^ 2 - b ^ 2) with ((a - b) * (a + b)) by ring. apply Rmult_integral_contrapositive_currified; assumption. }
    field. split; [exact Hq | exact Hs].
  - intros E. rewrite <- E in *. field. lra.
Qed.

(* norm factors and gas velocities: the numba wrapper (pressures -> compressibility at the direction-corrected inlet temperature tf -> get_gas_vel_numba) equals the numpy function, direction-switched branches included (since /repo bfae2a5 the wrapper passes tf to get_gas_vel_numba) *)
Lemma twin_gas_normfactors_equal :
  forall (bp_FROM_NODE_T_SWITCHED bp_TOUTINIT : R) (fl_compressibility : R -> R -> R) (np_from_PAMB np_from_TINIT np_to_PAMB np_to_TINIT p_from p_to v_mps : R),
  (np_from_PAMB + p_from) + (np_to_PAMB + p_to) <> 0 ->
  let tf := (if negb (Reqb bp_FROM_NODE_T_SWITCHED 0) then np_to_TINIT else np_from_TINIT) in
  gasres_np_normfactor_from bp_FROM_NODE_T_SWITCHED bp_TOUTINIT fl_compressibility np_from_PAMB np_from_TINIT np_to_PAMB np_to_TINIT p_from p_to v_mps =
    gasvel_nb_normfactor_from bp_TOUTINIT
      (fl_compressibility (gaspress_nb_p_abs_from np_from_PAMB np_to_PAMB p_from p_to) tf)
      (fl_compressibility (gaspress_nb_p_abs_mean np_from_PAMB np_to_PAMB p_from p_to) ((tf + bp_TOUTINIT) / 2))
      (fl_compressibility (gaspress_nb_p_abs_to np_from_PAMB np_to_PAMB p_from p_to) bp_TOUTINIT)
      (gaspress_nb_p_abs_from np_from_PAMB np_to_PAMB p_from p_to) (gaspress_nb_p_abs_mean np_from_PAMB np_to_PAMB p_from p_to) (gaspress_nb_p_abs_to np_from_PAMB np_to_PAMB p_from p_to) tf v_mps /\
  gasres_np_normfactor_to bp_FROM_NODE_T_SWITCHED bp_TOUTINIT fl_compressibility np_from_PAMB np_from_TINIT np_to_PAMB np_to_TINIT p_from p_to v_mps =
    gasvel_nb_normfactor_to bp_TOUTINIT
      (fl_compressibility (gaspress_nb_p_abs_from np_from_PAMB np_to_PAMB p_from p_to) tf)
      (fl_compressibility (gaspress_nb_p_abs_mean np_from_PAMB np_to_PAMB p_from p_to) ((tf + bp_TOUTINIT) / 2))
      (fl_compressibility (gaspress_nb_p_abs_to np_from_PAMB np_to_PAMB p_from p_to) bp_TOUTINIT)
      (gaspress_nb_p_abs_from np_from_PAMB np_to_PAMB p_from p_to) (gaspress_nb_p_abs_mean np_from_PAMB np_to_PAMB p_from p_to) (gaspress_nb_p_abs_to np_from_PAMB np_to_PAMB p_from p_to) tf v_mps /\
  gasres_np_normfactor_mean bp_FROM_NODE_T_SWITCHED bp_TOUTINIT fl_compressibility np_from_PAMB np_from_TINIT np_to_PAMB np_to_TINIT p_from p_to v_mps =
    gasvel_nb_normfactor_mean bp_TOUTINIT
      (fl_compressibility (gaspress_nb_p_abs_from np_from_PAMB np_to_PAMB p_from p_to) tf)
      (fl_compressibility (gaspress_nb_p_abs_mean np_from_PAMB np_to_PAMB p_from p_to) ((tf + bp_TOUTINIT) / 2))
      (fl_compressibility (gaspress_nb_p_abs_to np_from_PAMB np_to_PAMB p_from p_to) bp_TOUTINIT)
      (gaspress_nb_p_abs_from np_from_PAMB np_to_PAMB p_from p_to) (gaspress_nb_p_abs_mean np_from_PAMB np_to_PAMB p_from p_to) (gaspress_nb_p_abs_to np_from_PAMB np_to_PAMB p_from p_to) tf v_mps /\
  gasres_np_v_gas_from bp_FROM_NODE_T_SWITCHED bp_TOUTINIT fl_compressibility np_from_PAMB np_from_TINIT np_to_PAMB np_to_TINIT p_from p_to v_mps =
    gasvel_nb_v_gas_from bp_TOUTINIT
      (fl_compressibility (gaspress_nb_p_abs_from np_from_PAMB np_to_PAMB p_from p_to) tf)
      (fl_compressibility (gaspress_nb_p_abs_mean np_from_PAMB np_to_PAMB p_from p_to) ((tf + bp_TOUTINIT) / 2))
      (fl_compressibility (gaspress_nb_p_abs_to np_from_PAMB np_to_PAMB p_from p_to) bp_TOUTINIT)
      (gaspress_nb_p_abs_from np_from_PAMB np_to_PAMB p_from p_to) (gaspress_nb_p_abs_mean np_from_PAMB np_to_PAMB p_from p_to) (gaspress_nb_p_abs_to np_from_PAMB np_to_PAMB p_from p_to) tf v_mps /\
  gasres_np_v_gas_to bp_FROM_NODE_T_SWITCHED bp_TOUTINIT fl_compressibility np_from_PAMB np_from_TINIT np_to_PAMB np_to_TINIT p_from p_to v_mps =
    gasvel_nb_v_gas_to bp_TOUTINIT
      (fl_compressibility (gaspress_nb_p_abs_from np_from_PAMB np_to_PAMB p_from p_to) tf)
      (fl_compressibility (gaspress_nb_p_abs_mean np_from_PAMB np_to_PAMB p_from p_to) ((tf + bp_TOUTINIT) / 2))
      (fl_compressibility (gaspress_nb_p_abs_to np_from_PAMB np_to_PAMB p_from p_to) bp_TOUTINIT)
      (gaspress_nb_p_abs_from np_from_PAMB np_to_PAMB p_from p_to) (gaspress_nb_p_abs_mean np_from_PAMB np_to_PAMB p_from p_to) (gaspress_nb_p_abs_to np_from_PAMB np_to_PAMB p_from p_to) tf v_mps /\
  gasres_np_v_gas_mean bp_FROM_NODE_T_SWITCHED bp_TOUTINIT fl_compressibility np_from_PAMB np_from_TINIT np_to_PAMB np_to_TINIT p_from p_to v_mps =
    gasvel_nb_v_gas_mean bp_TOUTINIT
      (fl_compressibility (gaspress_nb_p_abs_from np_from_PAMB np_to_PAMB p_from p_to) tf)
      (fl_compressibility (gaspress_nb_p_abs_mean np_from_PAMB np_to_PAMB p_from p_to) ((tf + bp_TOUTINIT) / 2))
      (fl_compressibility (gaspress_nb_p_abs_to np_from_PAMB np_to_PAMB p_from p_to) bp_TOUTINIT)
      (gaspress_nb_p_abs_from np_from_PAMB np_to_PAMB p_from p_to) (gaspress_nb_p_abs_mean np_from_PAMB np_to_PAMB p_from p_to) (gaspress_nb_p_abs_to np_from_PAMB np_to_PAMB p_from p_to) tf v_mps.
Proof.
  intros until v_mps. intros Hs tf.
  pose proof (twin_gas_pressures_equal bp_FROM_NODE_T_SWITCHED bp_TOUTINIT fl_compressibility
                np_from_PAMB np_from_TINIT np_to_PAMB np_to_TINIT p_from p_to v_mps) as [Hf [Ht Hm]].
  specialize (Hm Hs). rewrite <- Hf, <- Ht, <- Hm. subst tf.
  unfold gasres_np_normfactor_from, gasvel_nb_normfactor_from, gasres_np_normfactor_to, gasvel_nb_normfactor_to,
    gasres_np_normfactor_mean, gasvel_nb_normfactor_mean, gasres_np_v_gas_from, gasvel_nb_v_gas_from,
    gasres_np_v_gas_to, gasvel_nb_v_gas_to, gasres_np_v_gas_mean, gasvel_nb_v_gas_mean,
    gasres_np_p_abs_from, gasres_np_p_abs_to, gasres_np_p_abs_mean. cbv zeta.
  repeat split; destruct (negb (Reqb bp_FROM_NODE_T_SWITCHED 0)); first [reflexivity | unfold Rdiv; ring].
Qed.

