From Coq Require Import List Arith Bool Permutation Ring ZArith Lia.
From PP Require Import C07.Model.
Import ListNotations.

Lemma pos_eqb_true p q : pos_eqb p q = true <-> p = q.
Proof.
  destruct p as [a b], q as [c d]; unfold pos_eqb; simpl. rewrite andb_true_iff, !Nat.eqb_eq.
  split; [intros [-> ->]; reflexivity | intros H; inversion H; auto].
Qed.

Lemma dedup_adj_nodup ps : NoDup ps -> dedup_adj ps = ps.
Proof.
  induction ps as [| p r IH]; intros H; [reflexivity |]. inversion H as [| ? ? Hn Hr]; subst.
  simpl. destruct r as [| q r']; [reflexivity |].
  destruct (pos_eqb p q) eqn:E.
  - apply pos_eqb_true in E. subst q. exfalso. apply Hn. left. reflexivity.
  - f_equal. apply IH. exact Hr.
Qed.

Lemma map_nth_seq {X} (d : X) (xs : list X) : map (fun i => nth i xs d) (seq 0 (length xs)) = xs.
Proof.
  induction xs as [| x r IH]; [reflexivity |]. simpl. f_equal.
  rewrite <- seq_shift, map_map. exact IH.
Qed.

Lemma permute_perm {X} (d : X) ord (xs : list X) :
  Permutation ord (seq 0 (length xs)) -> Permutation (permute d ord xs) xs.
Proof.
  intros H. unfold permute. eapply Permutation_trans; [apply Permutation_map; exact H |].
  rewrite map_nth_seq. apply Permutation_refl.
Qed.

Lemma combine_permute {X Y} (dx : X) (dy : Y) ord (xs : list X) (ys : list Y) :
  length ys = length xs -> (forall i, In i ord -> i < length xs) ->
  combine (permute dx ord xs) (permute dy ord ys) = permute (dx, dy) ord (combine xs ys).
Proof.
  intros Hl. unfold permute. induction ord as [| i r IH]; intros Hin; [reflexivity |]. simpl.
  rewrite IH by (intros; apply Hin; right; assumption). f_equal.
  rewrite combine_nth by (symmetry; exact Hl). reflexivity.
Qed.

Section AsmProofs.
  Context {A : Type} (zero one : A) (add mul sub : A -> A -> A) (opp : A -> A)
          (Rth : ring_theory zero one add mul sub opp eq).
  Add Ring Aring : Rth.

  Lemma entry_perm p (t1 t2 : list (pos * A)) :
    Permutation t1 t2 -> entry zero add p t1 = entry zero add p t2.
  Proof.
    induction 1 as [| [q v] l l' _ IH | [q v] [q' v'] l | l l' l'' _ IH1 _ IH2]; simpl.
    - reflexivity.
    - rewrite IH. reflexivity.
    - destruct (pos_eqb q' p), (pos_eqb q p); try reflexivity. ring.
    - rewrite IH1. exact IH2.
  Qed.

  Lemma update_only_correct_lemma ord (ps : list pos) (data' : list A) :
    Permutation ord (seq 0 (length ps)) -> length data' = length ps ->
    forall p, entry zero add p (update zero ord ps data') = entry zero add p (fresh ps data').
  Proof.
    intros Hp Hl p. unfold update, fresh.
    assert (Hin : forall i, In i ord -> i < length ps).
    { intros i Hi. apply (Permutation_in _ Hp) in Hi. apply in_seq in Hi. lia. }
    rewrite (combine_permute (0, 0) zero ord ps data' Hl Hin).
    apply entry_perm. apply permute_perm. rewrite combine_length, Hl, Nat.min_id. exact Hp.
  Qed.

  Lemma update_shared_nodup_lemma ord (ps : list pos) (data' : list A) :
    Permutation ord (seq 0 (length ps)) -> length data' = length ps -> NoDup ps ->
    forall p, entry zero add p (update_shared zero ord ps data') = entry zero add p (fresh ps data').
  Proof.
    intros Hp Hl Hn p. rewrite <- (update_only_correct_lemma ord ps data' Hp Hl p).
    unfold update_shared, shared_structure, update. rewrite dedup_adj_nodup; [reflexivity |].
    apply (Permutation_NoDup (l := ps)); [| exact Hn]. symmetry. apply permute_perm. exact Hp.
  Qed.
End AsmProofs.

(* a duplicated position (pressure controller whose controlled junction is its to-junction: the PC row holds
   df_dp1 = 0 and the fixed-pressure 1 at the same (row, col)):  rows/cols/data of a 2-entry row plus one more row *)
Definition w_ps : list pos := [(0, 1); (0, 1); (1, 0)].
Definition w_ord : list nat := [0; 1; 2].
Definition w_data : list Z := [0; 1; 5]%Z.

Lemma update_only_refuted_lemma :
  Permutation w_ord (seq 0 (length w_ps)) /\ length w_data = length w_ps /\
  entry 0%Z Z.add (1, 0) (update_shared 0%Z w_ord w_ps w_data) <> entry 0%Z Z.add (1, 0) (fresh w_ps w_data) /\
  entry 0%Z Z.add (1, 0) (update 0%Z w_ord w_ps w_data) = entry 0%Z Z.add (1, 0) (fresh w_ps w_data).
Proof. split; [apply Permutation_refl | split; [reflexivity | split; [vm_compute; discriminate | reflexivity]]]. Qed.
