From Coq Require Import List Arith Bool Lia.
From PP Require Import C07.ModelGraph.
Import ListNotations.

Lemma upd_fold_spec (key : br -> nat) (l : list br) : forall (c : nat -> bool) n,
  fold_left (fun c b => if flow b then upd c (key b) true else c) l c n
  = c n || existsb (Nat.eqb n) (map key (flowing l)).
Proof.
  induction l as [| b r IH]; intros c n; simpl.
  - rewrite orb_false_r. reflexivity.
  - rewrite IH. unfold flowing. simpl. destruct (flow b); simpl.
    + unfold upd. destruct (Nat.eqb n (key b)); simpl; [rewrite orb_true_r | ]; reflexivity.
    + reflexivity.
Qed.

Lemma club_to_spec l n : club_to l n = existsb (Nat.eqb n) (map bt (flowing l)).
Proof. unfold club_to. rewrite (upd_fold_spec bt). reflexivity. Qed.
Lemma club_from_spec l n : club_from l n = existsb (Nat.eqb n) (map bf (flowing l)).
Proof. unfold club_from. rewrite (upd_fold_spec bf). reflexivity. Qed.

Lemma nodes_flow_twin_lemma l n : nb_nodes_flow l n = np_nodes_flow l n.
Proof. unfold nb_nodes_flow, np_nodes_flow. rewrite club_from_spec, club_to_spec, existsb_app. reflexivity. Qed.

(* the infeed loop: every write to position n stores the same value negb (ct n) *)
Lemma infeed_fold_spec (ct : nat -> bool) (l : list br) : forall (inf : nat -> bool) n,
  fold_left (fun inf b => if flow b then upd inf (bf b) (negb (ct (bf b))) else inf) l inf n
  = if existsb (Nat.eqb n) (map bf (flowing l)) then negb (ct n) else inf n.
Proof.
  induction l as [| b r IH]; intros inf n; simpl; [reflexivity |].
  rewrite IH. unfold flowing. simpl. destruct (flow b); simpl; [| reflexivity].
  destruct (existsb (Nat.eqb n) (map bf (filter flow r))); [rewrite orb_true_r; reflexivity |].
  rewrite orb_false_r. unfold upd. destruct (Nat.eqb n (bf b)) eqn:E; [| reflexivity].
  apply Nat.eqb_eq in E. subst n. reflexivity.
Qed.

Lemma infeed_twin_lemma l n : nb_infeed l n = np_infeed l n.
Proof.
  unfold nb_infeed, np_infeed. rewrite infeed_fold_spec, club_to_spec.
  destruct (existsb (Nat.eqb n) (map bf (flowing l))); reflexivity.
Qed.
