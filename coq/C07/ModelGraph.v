(* C07 - graph part of the thermal kernels (the part kernels.py replaces by boolean inputs): which nodes are touched by a
   flowing branch (nodes_flow) and which nodes are infeed nodes, in the numpy and in the numba formulation.  Definitions only.

   numpy  (derivatives_thermal_np):   nodes_flow = np.isin(arange(n), concatenate([from[flow], to[flow]]))
                                      infeed     = np.setdiff1d(from[flow], to[flow])          (-> node_pit[infeed, INFEED] = True)
   numba  (_make_lookups + derivatives_thermal_numba):
          club_to[to[i]] = club_from[from[i]] = True for flowing i   (arrays of size max+1; reads beyond the end give False)
          nodes_flow[n] = club_from[n] | club_to[n]
          for flowing i:  infeed[from[i]] = ~club_to[from[i]]                                   (infeed initialised False) *)
From Coq Require Import List Arith Bool ZArith.
Import ListNotations.

Record br := { bf : nat; bt : nat; flow : bool }.

Definition flowing (l : list br) : list br := filter flow l.

(* numpy *)
Definition np_nodes_flow (l : list br) (n : nat) : bool :=
  existsb (Nat.eqb n) (map bf (flowing l) ++ map bt (flowing l)).
Definition np_infeed (l : list br) (n : nat) : bool :=
  existsb (Nat.eqb n) (map bf (flowing l)) && negb (existsb (Nat.eqb n) (map bt (flowing l))).

(* numba: boolean arrays as functions, written to in loop order *)
Definition upd (a : nat -> bool) (i : nat) (v : bool) : nat -> bool := fun j => if Nat.eqb j i then v else a j.
Definition club_to (l : list br) : nat -> bool :=
  fold_left (fun c b => if flow b then upd c (bt b) true else c) l (fun _ => false).
Definition club_from (l : list br) : nat -> bool :=
  fold_left (fun c b => if flow b then upd c (bf b) true else c) l (fun _ => false).
Definition nb_nodes_flow (l : list br) (n : nat) : bool := club_from l n || club_to l n.
Definition nb_infeed (l : list br) : nat -> bool :=
  let ct := club_to l in
  fold_left (fun inf b => if flow b then upd inf (bf b) (negb (ct (bf b))) else inf) l (fun _ => false).

(* correspondence cases: observed flags of nodes 0..n-1 from both real kernels *)
Record gcase := { g_branches : list br; g_n : nat; g_infeed_np : list bool; g_infeed_nb : list bool;
                  g_nflow_np : list bool; g_nflow_nb : list bool }.
Definition tab (f : nat -> bool) (n : nat) : list bool := map f (seq 0 n).
Fixpoint lb_eqb (a b : list bool) : bool :=
  match a, b with [], [] => true | x :: r, y :: s => Bool.eqb x y && lb_eqb r s | _, _ => false end.
Definition gcase_ok (c : gcase) : bool :=
  lb_eqb (tab (np_infeed (g_branches c)) (g_n c)) (g_infeed_np c) && lb_eqb (tab (nb_infeed (g_branches c)) (g_n c)) (g_infeed_nb c)
  && lb_eqb (tab (np_nodes_flow (g_branches c)) (g_n c)) (g_nflow_np c)
  && lb_eqb (tab (nb_nodes_flow (g_branches c)) (g_n c)) (g_nflow_nb c).
Fixpoint first_bad (l : list gcase) (i : Z.t) : Z.t :=
  match l with [] => (-1)%Z | c :: r => if gcase_ok c then first_bad r (i + 1)%Z else i end.
Definition gsummary (l : list gcase) : nat * nat * Z.t :=
  (length l, length (filter (fun c => negb (gcase_ok c)) l), first_bad l 0%Z).
