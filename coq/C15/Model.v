(* C15 - the layer pandapipes adds to pandapower's JSON / pickle machinery (io_utils.json_net,
   FromSerializableRegistryPpipe, Fluid / FluidProperty*.to_dict / from_dict, StdType, component classes),
   as a typed document codec over an ABSTRACT leaf codec (definitions only).
   Leaves = everything pandapower encodes (DataFrames, arrays, numbers, strings, nested plain dicts).
   Tie: tools/props/c15.py (differential on the real four storage paths) and Gen/CodecFacts.v. *)
From Coq Require Import String List Bool.
Import ListNotations.
Open Scope string_scope.
Open Scope list_scope.

Definition public_key (k : string) : bool := negb (String.prefix "_" k).

(* monadic map *)
Fixpoint mapM {A B} (f : A -> option B) (l : list A) : option (list B) :=
  match l with
  | [] => Some []
  | x :: r => match f x, mapM f r with Some y, Some ys => Some (y :: ys) | _, _ => None end
  end.

Inductive pclass := CConst | CLinear | CInterExtra | CPoly | CSuth.
Definition class_name (c : pclass) : string :=
  match c with
  | CConst => "FluidPropertyConstant" | CLinear => "FluidPropertyLinear"
  | CInterExtra => "FluidPropertyInterExtra" | CPoly => "FluidPropertyPolynominal"
  | CSuth => "FluidPropertySutherland"
  end.
Definition class_of (s : string) : option pclass :=
  if String.eqb s "FluidPropertyConstant" then Some CConst else
  if String.eqb s "FluidPropertyLinear" then Some CLinear else
  if String.eqb s "FluidPropertyInterExtra" then Some CInterExtra else
  if String.eqb s "FluidPropertyPolynominal" then Some CPoly else
  if String.eqb s "FluidPropertySutherland" then Some CSuth else None.

(* fields a class stores IN ADDITION to its attribute dict and splits off again in from_dict:
   FluidPropertyInterExtra.prop_getter_entries (interp1d attributes), FluidPropertyPolynominal's coefficients *)
Definition getter_fields : list string := ["x"; "y"; "_fill_value_orig"].
Definition poly_getter_fields : list string := ["coefficients"].
Definition getter_fields_of (c : pclass) : list string :=
  match c with CInterExtra => getter_fields | CPoly => poly_getter_fields | _ => [] end.
Definition is_getter_field_of (c : pclass) (k : string) : bool := existsb (String.eqb k) (getter_fields_of c).
Definition is_getter_field (k : string) : bool := is_getter_field_of CInterExtra k.

(* the interpolator's fill rule: "extrapolate" is stored as that string, the interp1d default (a 0-d NaN
   array, no extrapolation) is stored as null and the keyword is omitted on load *)
Inductive fill := FExtrapolate | FDefault.
Definition enc_fill (f : fill) : option string := match f with FExtrapolate => Some "extrapolate" | FDefault => None end.
Definition dec_fill (j : option string) : option fill :=
  match j with
  | None => Some FDefault
  | Some s => if String.eqb s "extrapolate" then Some FExtrapolate else None
  end.

Section Codec.
  Variables L E : Type.
  Variable lenc : L -> E.
  Variable ldec : E -> option L.
  Variable quant : L -> L.
  Variable known_component : string -> bool.       (* class importable from its module *)

  (* ---- documents ---- *)
  Record prop := { p_class : pclass; p_attrs : list (string * L); p_getter : list (string * L) }.
  Inductive stdv := StdDict (fields : list (string * L)) | StdPump (attrs : list (string * L)).
  Inductive value :=
  | VLeaf (l : L)
  | VFluid (attrs : list (string * L)) (props : list (string * prop))
  | VStd (tabs : list (string * list (string * stdv)))
  | VComps (classes : list string).
  Definition doc := list (string * value).

  (* ---- typed JSON of the layer ---- *)
  Definition jfields := list (string * E).
  Record jprop := { jp_class : string; jp_fields : jfields }.
  Inductive jstd := JStdDict (f : jfields) | JStdObj (cls : string) (f : jfields).
  Inductive jvalue :=
  | JLeaf (e : E)
  | JFluid (attrs : jfields) (props : list (string * jprop))
  | JStd (tabs : list (string * list (string * jstd)))
  | JComps (classes : list string).
  Record jdoc := { j_class : string; j_module : string; j_items : list (string * jvalue) }.

  Definition enc_fields (f : list (string * L)) : jfields := map (fun kv => (fst kv, lenc (snd kv))) f.
  Definition dec_fields (f : jfields) : option (list (string * L)) :=
    mapM (fun kv => match ldec (snd kv) with Some v => Some (fst kv, v) | None => None end) f.

  (* to_dict: the attribute dict, then (InterExtra) the interpolator's fields *)
  Definition enc_prop (p : prop) : jprop :=
    {| jp_class := class_name (p_class p); jp_fields := enc_fields (p_attrs p) ++ enc_fields (p_getter p) |}.
  (* from_dict: the class's extra fields are split off again (and the interpolator / polynomial rebuilt) *)
  Definition dec_prop (j : jprop) : option prop :=
    match class_of (jp_class j), dec_fields (jp_fields j) with
    | Some c, Some f =>
        Some {| p_class := c; p_attrs := filter (fun kv => negb (is_getter_field_of c (fst kv))) f;
                p_getter := filter (fun kv => is_getter_field_of c (fst kv)) f |}
    | _, _ => None
    end.

  Definition enc_std (s : stdv) : jstd :=
    match s with StdDict f => JStdDict (enc_fields f) | StdPump a => JStdObj "PumpStdType" (enc_fields a) end.
  Definition dec_std (j : jstd) : option stdv :=
    match j with
    | JStdDict f => match dec_fields f with Some x => Some (StdDict x) | None => None end
    | JStdObj cls f => if String.eqb cls "PumpStdType"
                       then match dec_fields f with Some x => Some (StdPump x) | None => None end else None
    end.

  Definition on_snd {A B C} (f : B -> C) (kv : A * B) : A * C := (fst kv, f (snd kv)).
  Definition on_sndM {A B C} (f : B -> option C) (kv : A * B) : option (A * C) :=
    match f (snd kv) with Some y => Some (fst kv, y) | None => None end.

  Definition enc_value (v : value) : jvalue :=
    match v with
    | VLeaf l => JLeaf (lenc l)
    | VFluid a ps => JFluid (enc_fields a) (map (on_snd enc_prop) ps)
    | VStd tabs => JStd (map (on_snd (map (on_snd enc_std))) tabs)
    | VComps cs => JComps cs
    end.
  Definition dec_value (j : jvalue) : option value :=
    match j with
    | JLeaf e => match ldec e with Some l => Some (VLeaf l) | None => None end
    | JFluid a ps => match dec_fields a, mapM (on_sndM dec_prop) ps with
                     | Some a', Some ps' => Some (VFluid a' ps') | _, _ => None end
    | JStd tabs => match mapM (on_sndM (mapM (on_sndM dec_std))) tabs with
                   | Some t => Some (VStd t) | None => None end
    | JComps cs => if forallb known_component cs then Some (VComps cs) else None
    end.

  (* json_net: keys starting with "_" are not written; with_signature adds class and module *)
  Definition strip_internal (d : doc) : doc := filter (fun kv => public_key (fst kv)) d.
  Definition encode (d : doc) : jdoc :=
    {| j_class := "pandapipesNet"; j_module := "pandapipes.pandapipes_net";
       j_items := map (on_snd enc_value) (strip_internal d) |}.
  (* registry: pandapipesNet(entries restricted to the stored keys) ; net.update(obj) -> exactly the stored keys *)
  Definition decode (j : jdoc) : option doc :=
    if String.eqb (j_class j) "pandapipesNet" && String.eqb (j_module j) "pandapipes.pandapipes_net"
    then mapM (on_sndM dec_value) (j_items j) else None.

  (* ---- what a round trip is allowed to change: every leaf is quantised ---- *)
  Definition qf (f : list (string * L)) : list (string * L) := map (on_snd quant) f.
  Definition q_prop (p : prop) : prop :=
    {| p_class := p_class p; p_attrs := qf (p_attrs p); p_getter := qf (p_getter p) |}.
  Definition q_std (s : stdv) : stdv := match s with StdDict f => StdDict (qf f) | StdPump a => StdPump (qf a) end.
  Definition q_value (v : value) : value :=
    match v with
    | VLeaf l => VLeaf (quant l)
    | VFluid a ps => VFluid (qf a) (map (on_snd q_prop) ps)
    | VStd tabs => VStd (map (on_snd (map (on_snd q_std))) tabs)
    | VComps cs => VComps cs
    end.
  Definition map_leaves (d : doc) : doc := map (on_snd q_value) d.

  (* ---- well-formed documents ---- *)
  Definition wf_prop (p : prop) : bool :=
    forallb (fun kv => negb (is_getter_field_of (p_class p) (fst kv))) (p_attrs p)
    && forallb (fun kv => is_getter_field_of (p_class p) (fst kv)) (p_getter p).
  Definition wf_value (v : value) : bool :=
    match v with
    | VFluid _ ps => forallb (fun kv => wf_prop (snd kv)) ps
    | VComps cs => forallb known_component cs
    | _ => true
    end.
  Definition wf_doc (d : doc) : bool := forallb (fun kv => wf_value (snd kv)) d.

  (* ---- multi-energy nets: name -> member net (a pandapipes net of this layer, or a pandapower net, which is
     entirely pandapower's = a leaf), the controller table (DataFrame with controller objects: pandapower's = a
     leaf) and scalars; json_net for MultiNet applies the same `_` filter and signature ---- *)
  Inductive member := MPipes (d : doc) | MPower (l : L).
  Inductive mvalue := MVLeaf (l : L) | MVNets (nets : list (string * member)).
  Definition mdoc := list (string * mvalue).
  Inductive jmember := JMPipes (j : jdoc) | JMPower (e : E).
  Inductive jmvalue := JMVLeaf (e : E) | JMVNets (nets : list (string * jmember)).
  Record jmdoc := { jm_class : string; jm_items : list (string * jmvalue) }.

  Definition enc_member (m : member) : jmember :=
    match m with MPipes d => JMPipes (encode d) | MPower l => JMPower (lenc l) end.
  Definition dec_member (j : jmember) : option member :=
    match j with
    | JMPipes jd => match decode jd with Some d => Some (MPipes d) | None => None end
    | JMPower e => match ldec e with Some l => Some (MPower l) | None => None end
    end.
  Definition enc_mvalue (v : mvalue) : jmvalue :=
    match v with MVLeaf l => JMVLeaf (lenc l) | MVNets ns => JMVNets (map (on_snd enc_member) ns) end.
  Definition dec_mvalue (j : jmvalue) : option mvalue :=
    match j with
    | JMVLeaf e => match ldec e with Some l => Some (MVLeaf l) | None => None end
    | JMVNets ns => match mapM (on_sndM dec_member) ns with Some x => Some (MVNets x) | None => None end
    end.
  Definition mstrip (d : mdoc) : mdoc := filter (fun kv => public_key (fst kv)) d.
  Definition encode_multi (d : mdoc) : jmdoc :=
    {| jm_class := "MultiNet"; jm_items := map (on_snd enc_mvalue) (mstrip d) |}.
  Definition decode_multi (j : jmdoc) : option mdoc :=
    if String.eqb (jm_class j) "MultiNet" then mapM (on_sndM dec_mvalue) (jm_items j) else None.
  Definition q_member (m : member) : member :=
    match m with MPipes d => MPipes (map_leaves (strip_internal d)) | MPower l => MPower (quant l) end.
  Definition q_mvalue (v : mvalue) : mvalue :=
    match v with MVLeaf l => MVLeaf (quant l) | MVNets ns => MVNets (map (on_snd q_member) ns) end.
  Definition wf_member (m : member) : bool := match m with MPipes d => wf_doc d | MPower _ => true end.
  Definition wf_mdoc (d : mdoc) : bool :=
    forallb (fun kv => match snd kv with MVLeaf _ => true | MVNets ns => forallb (fun x => wf_member (snd x)) ns end) d.

  (* ---- format conversion ---- *)
  Variable version : Type.
  Variable vge : version -> version -> bool.       (* packaging.version comparison *)
  Variable current : version.
  Variable format_version : doc -> version.
  Variable upgrade : doc -> doc.                   (* _rename_columns, _add_missing_columns, _rename_attributes, version bump *)
  Definition convert_format (d : doc) : doc := if vge (format_version d) current then d else upgrade d.

  (* what convert_format does before the version test: _add_sector (only when the KEY is missing - the value,
     which the JSON decoder restores as a plain string, is never inspected) and add_default_components(overwrite=False)
     (adds the default component tables of the net's sector that are missing) *)
  Definition has_key (k : string) (d : doc) : bool := existsb (fun kv => String.eqb (fst kv) k) d.
  Variable sector_all : value.
  Definition add_sector (d : doc) : doc := if has_key "sector" d then d else d ++ [("sector", sector_all)].
  Variable complete : doc -> bool.                 (* every default component of the document's sector is present *)
  Variable add_defaults : doc -> doc.
  Definition convert_format_full (d : doc) : doc := convert_format (add_defaults (add_sector d)).
End Codec.
