(* C15 - proofs about the codec-layer model. *)
From Coq Require Import String List Bool.
From PP Require Import C15.Model.
Import ListNotations.
Open Scope string_scope.
Open Scope list_scope.

Lemma mapM_map {A B C} (f : B -> option C) (g : A -> B) (h : A -> C) (l : list A) :
  (forall x, In x l -> f (g x) = Some (h x)) -> mapM f (map g l) = Some (map h l).
Proof.
  induction l as [|x l IH]; simpl; intros H; auto.
  rewrite (H x) by auto. rewrite IH; auto.
Qed.

Lemma class_of_name c : class_of (class_name c) = Some c.
Proof. destruct c; reflexivity. Qed.

Lemma fill_roundtrip_lemma : forall f, dec_fill (enc_fill f) = Some f.
Proof. destruct f; reflexivity. Qed.

(* classes without extra fields: well-formed = no getter part; decoding keeps every field as an attribute *)
Lemma plain_class_lemma : forall c k, getter_fields_of c = [] -> is_getter_field_of c k = false.
Proof. intros c k H. unfold is_getter_field_of. now rewrite H. Qed.

Section Proofs.
  Variables L E : Type.
  Variable lenc : L -> E.
  Variable ldec : E -> option L.
  Variable quant : L -> L.
  Variable known_component : string -> bool.
  Hypothesis leaf_law : forall v, ldec (lenc v) = Some (quant v).

  Notation enc_fields := (enc_fields L E lenc).
  Notation dec_fields := (dec_fields L E ldec).
  Notation qf := (qf L quant).

  Lemma dec_enc_fields f : dec_fields (enc_fields f) = Some (qf f).
  Proof.
    unfold Model.dec_fields, Model.enc_fields, Model.qf. apply mapM_map. intros [k v] _. simpl.
    now rewrite leaf_law.
  Qed.

  Lemma enc_fields_app a b : enc_fields (a ++ b) = enc_fields a ++ enc_fields b.
  Proof. unfold Model.enc_fields. apply map_app. Qed.

  Lemma filter_qf (P : string -> bool) f :
    filter (fun kv : string * L => P (fst kv)) (qf f) = qf (filter (fun kv => P (fst kv)) f).
  Proof.
    unfold Model.qf. induction f as [|[k v] f IH]; simpl; auto. destruct (P k); simpl; now rewrite IH.
  Qed.

  Lemma filter_all {A} (P : A -> bool) l : forallb P l = true -> filter P l = l.
  Proof.
    induction l as [|x l IH]; simpl; auto. intros H. apply andb_true_iff in H. destruct H as [H1 H2].
    rewrite H1. now rewrite IH.
  Qed.

  Lemma filter_none {A} (P : A -> bool) l : forallb (fun x => negb (P x)) l = true -> filter P l = [].
  Proof.
    induction l as [|x l IH]; simpl; auto. intros H. apply andb_true_iff in H. destruct H as [H1 H2].
    apply negb_true_iff in H1. rewrite H1. auto.
  Qed.

  Lemma dec_enc_prop p : wf_prop L p = true -> dec_prop L E ldec (enc_prop L E lenc p) = Some (q_prop L quant p).
  Proof.
    destruct p as [c a g]. unfold wf_prop, dec_prop, enc_prop, q_prop. simpl. intros W.
    rewrite class_of_name, <- enc_fields_app, dec_enc_fields.
    apply andb_true_iff in W. destruct W as [Wa Wg]. f_equal. f_equal.
    - rewrite (filter_qf (fun k => negb (is_getter_field_of c k))). f_equal. rewrite filter_app.
      rewrite (filter_all _ a Wa). rewrite (filter_none (fun kv : string * L => negb (is_getter_field_of c (fst kv))) g).
      + apply app_nil_r.
      + rewrite forallb_forall in *. intros x Hx. rewrite negb_involutive. auto.
    - rewrite (filter_qf (is_getter_field_of c)). f_equal. rewrite filter_app.
      rewrite (filter_none (fun kv : string * L => is_getter_field_of c (fst kv)) a Wa). simpl.
      now apply filter_all.
  Qed.

  Lemma dec_enc_std s : dec_std L E ldec (enc_std L E lenc s) = Some (q_std L quant s).
  Proof. destruct s; simpl; now rewrite dec_enc_fields. Qed.

  Lemma dec_enc_value v : wf_value L known_component v = true ->
    dec_value L E ldec known_component (enc_value L E lenc v) = Some (q_value L quant v).
  Proof.
    destruct v as [l|a ps|tabs|cs]; simpl; intros W.
    - now rewrite leaf_law.
    - rewrite dec_enc_fields.
      rewrite (mapM_map _ _ (on_snd (q_prop L quant))); auto.
      intros [k p] Hin. unfold on_sndM, on_snd. simpl. rewrite forallb_forall in W.
      rewrite dec_enc_prop; auto. apply (W _ Hin).
    - rewrite (mapM_map _ _ (on_snd (map (on_snd (q_std L quant))))); auto.
      intros [t m] _. unfold on_sndM at 1. unfold on_snd at 1 2. simpl.
      rewrite (mapM_map _ _ (on_snd (q_std L quant))); auto.
      intros [k s] _. unfold on_sndM, on_snd. simpl. now rewrite dec_enc_std.
    - now rewrite W.
  Qed.

  Lemma wf_strip d : wf_doc L known_component d = true -> wf_doc L known_component (strip_internal L d) = true.
  Proof.
    unfold wf_doc, strip_internal. rewrite !forallb_forall. intros H x Hx. apply filter_In in Hx. apply H, Hx.
  Qed.

  Lemma roundtrip_lemma : forall d, wf_doc L known_component d = true ->
    decode L E ldec known_component (encode L E lenc d) = Some (map_leaves L quant (strip_internal L d)).
  Proof.
    intros d W. unfold decode, encode. simpl. apply wf_strip in W.
    unfold map_leaves. apply mapM_map. intros [k v] Hin. unfold on_sndM, on_snd. simpl.
    unfold wf_doc in W. rewrite forallb_forall in W. rewrite dec_enc_value; auto. apply (W _ Hin).
  Qed.

  Lemma internal_keys_dropped_lemma : forall d k v,
    In (k, v) (map_leaves L quant (strip_internal L d)) -> String.prefix "_" k = false.
  Proof.
    intros d k v H. unfold map_leaves in H. apply in_map_iff in H. destruct H as [[k' v'] [E' Hin]].
    unfold on_snd in E'. simpl in E'. inversion E'; subst. apply filter_In in Hin. destruct Hin as [_ P].
    unfold public_key in P. simpl in P. now apply negb_true_iff in P.
  Qed.

  Lemma public_keys_kept_lemma : forall d k v,
    In (k, v) d -> String.prefix "_" k = false ->
    In (k, q_value L quant v) (map_leaves L quant (strip_internal L d)).
  Proof.
    intros d k v Hin P. unfold map_leaves. apply in_map_iff. exists (k, v). split; auto.
    apply filter_In. split; auto. unfold public_key. simpl. now rewrite P.
  Qed.

  Lemma key_order_kept_lemma : forall d,
    map fst (map_leaves L quant (strip_internal L d)) = filter public_key (map fst d).
  Proof.
    intros d. unfold map_leaves, strip_internal. rewrite map_map. simpl.
    induction d as [|[k v] d IH]; simpl; auto. destruct (public_key k); simpl; now rewrite IH.
  Qed.

  (* multi-energy nets *)
  Lemma multinet_roundtrip_lemma : forall d, wf_mdoc L known_component d = true ->
    decode_multi L E ldec known_component (encode_multi L E lenc d) =
    Some (map (on_snd (q_mvalue L quant)) (mstrip L d)).
  Proof.
    intros d W. unfold decode_multi, encode_multi. simpl. apply mapM_map. intros [k v] Hin.
    unfold on_sndM, on_snd. simpl.
    assert (Wv : match v with MVLeaf _ _ => true | MVNets _ ns => forallb (fun x => wf_member L known_component (snd x)) ns end = true).
    { unfold wf_mdoc in W. rewrite forallb_forall in W. unfold mstrip in Hin. apply filter_In in Hin.
      apply (W (k, v)). apply Hin. }
    destruct v as [l|ns]; simpl.
    - now rewrite leaf_law.
    - rewrite (mapM_map _ _ (on_snd (q_member L quant))); auto.
      intros [n m] Hm. unfold on_sndM, on_snd. simpl. rewrite forallb_forall in Wv. specialize (Wv _ Hm). simpl in Wv.
      destruct m as [dd|l]; simpl.
      + rewrite roundtrip_lemma; auto.
      + now rewrite leaf_law.
  Qed.

  Lemma multinet_member_names_kept_lemma : forall ns : list (string * member L),
    map fst (map (on_snd (q_member L quant)) ns) = map fst ns.
  Proof. intros ns. rewrite map_map. apply map_ext. now intros [n m]. Qed.

  (* re-saving *)
  Hypothesis lenc_quant : forall v, lenc (quant v) = lenc v.

  Lemma enc_fields_qf f : enc_fields (qf f) = enc_fields f.
  Proof. unfold Model.enc_fields, Model.qf. rewrite map_map. apply map_ext. intros [k v]. simpl. now rewrite lenc_quant. Qed.

  Lemma enc_q_value v : enc_value L E lenc (q_value L quant v) = enc_value L E lenc v.
  Proof.
    destruct v as [l|a ps|tabs|cs]; simpl; auto.
    - now rewrite lenc_quant.
    - rewrite enc_fields_qf. f_equal. rewrite map_map. apply map_ext. intros [k p]. unfold on_snd. simpl.
      f_equal. unfold enc_prop, q_prop. simpl. now rewrite !enc_fields_qf.
    - f_equal. rewrite map_map. apply map_ext. intros [t m]. unfold on_snd. simpl. f_equal.
      rewrite map_map. apply map_ext. intros [k s]. simpl. f_equal.
      destruct s; simpl; now rewrite enc_fields_qf.
  Qed.

  Lemma idempotent_save_lemma : forall d,
    encode L E lenc (map_leaves L quant (strip_internal L d)) = encode L E lenc d.
  Proof.
    intros d. unfold encode. f_equal. unfold map_leaves, strip_internal.
    induction d as [|[k v] d IH]; simpl; auto.
    destruct (public_key k) eqn:P; simpl; auto. rewrite P. simpl. rewrite IH. f_equal.
    unfold on_snd. simpl. now rewrite enc_q_value.
  Qed.

  (* a second round trip changes nothing more *)
  Hypothesis quant_idem : forall v, quant (quant v) = quant v.

  Lemma qf_idem f : qf (qf f) = qf f.
  Proof. unfold Model.qf. rewrite map_map. apply map_ext. intros [k v]. unfold on_snd. simpl. now rewrite quant_idem. Qed.

  Lemma q_value_idem v : q_value L quant (q_value L quant v) = q_value L quant v.
  Proof.
    destruct v as [l|a ps|tabs|cs]; simpl; auto.
    - now rewrite quant_idem.
    - rewrite qf_idem. f_equal. rewrite map_map. apply map_ext. intros [k p]. unfold on_snd. simpl.
      f_equal. unfold q_prop. simpl. now rewrite !qf_idem.
    - f_equal. rewrite map_map. apply map_ext. intros [t m]. unfold on_snd. simpl. f_equal.
      rewrite map_map. apply map_ext. intros [k s]. simpl. f_equal.
      destruct s; simpl; now rewrite qf_idem.
  Qed.

  Lemma second_roundtrip_fixpoint_lemma : forall d,
    map_leaves L quant (strip_internal L (map_leaves L quant (strip_internal L d))) =
    map_leaves L quant (strip_internal L d).
  Proof.
    intros d. unfold map_leaves, strip_internal. induction d as [|[k v] d IH]; simpl; auto.
    destruct (public_key k) eqn:P; simpl; auto. rewrite P. simpl. rewrite IH. f_equal.
    unfold on_snd. simpl. now rewrite q_value_idem.
  Qed.

  (* exact leaf codec (pickle: quant = identity) *)
  Lemma q_value_id : (forall v, quant v = v) -> forall v, q_value L quant v = v.
  Proof.
    intros Q. assert (QF : forall f, qf f = f).
    { intros f. unfold Model.qf. rewrite <- (map_id f) at 2. apply map_ext. intros [k x]. unfold on_snd. simpl. now rewrite Q. }
    intros [l|a ps|tabs|cs]; simpl; auto.
    - now rewrite Q.
    - rewrite QF. f_equal. rewrite <- (map_id ps) at 2. apply map_ext. intros [k [c at_ g]]. unfold on_snd, q_prop. simpl.
      now rewrite !QF.
    - f_equal. rewrite <- (map_id tabs) at 2. apply map_ext. intros [t m]. unfold on_snd. simpl. f_equal.
      rewrite <- (map_id m) at 2. apply map_ext. intros [k st]. simpl. f_equal. destruct st; simpl; now rewrite QF.
  Qed.

  Lemma roundtrip_exact_lemma : (forall v, quant v = v) -> forall d, wf_doc L known_component d = true ->
    decode L E ldec known_component (encode L E lenc d) = Some (strip_internal L d).
  Proof.
    intros Q d W. rewrite roundtrip_lemma; auto. f_equal. unfold map_leaves.
    rewrite <- (map_id (strip_internal L d)) at 2. apply map_ext. intros [k v]. unfold on_snd. simpl.
    now rewrite q_value_id.
  Qed.

  (* fluid *)
  Lemma fluid_roundtrip_lemma : forall a ps,
    forallb (fun kv => wf_prop L (snd kv)) ps = true ->
    dec_value L E ldec known_component (enc_value L E lenc (VFluid L a ps)) =
    Some (VFluid L (qf a) (map (on_snd (q_prop L quant)) ps)).
  Proof. intros a ps W. apply (dec_enc_value (VFluid L a ps)). exact W. Qed.

  Lemma prop_class_kept_lemma : forall p p', wf_prop L p = true ->
    dec_prop L E ldec (enc_prop L E lenc p) = Some p' ->
    p_class L p' = p_class L p /\ map fst (p_attrs L p') = map fst (p_attrs L p)
    /\ map fst (p_getter L p') = map fst (p_getter L p).
  Proof.
    intros p p' W H. rewrite dec_enc_prop in H; auto. inversion H; subst. unfold q_prop, Model.qf. simpl.
    rewrite !map_map. simpl. auto.
  Qed.

  (* format conversion *)
  Variable version : Type.
  Variable vge : version -> version -> bool.
  Variable current : version.
  Variable format_version : doc L -> version.
  Variable upgrade : doc L -> doc L.
  Hypothesis upgrade_sets_version : forall d, vge (format_version (upgrade d)) current = true.

  Lemma convert_fixpoint_lemma : forall d, vge (format_version d) current = true ->
    convert_format L version vge current format_version upgrade d = d.
  Proof. intros d H. unfold convert_format. now rewrite H. Qed.

  Lemma convert_idempotent_lemma : forall d,
    convert_format L version vge current format_version upgrade
      (convert_format L version vge current format_version upgrade d) =
    convert_format L version vge current format_version upgrade d.
  Proof.
    intros d. unfold convert_format. destruct (vge (format_version d) current) eqn:V.
    - now rewrite V.
    - now rewrite upgrade_sets_version.
  Qed.

  (* the complete function: identity on a current-format document of ANY sector *)
  Variable sector_all : value L.
  Variable complete : doc L -> bool.
  Variable add_defaults : doc L -> doc L.
  Hypothesis add_defaults_complete : forall d, complete d = true -> add_defaults d = d.

  Lemma convert_full_fixpoint_lemma : forall d,
    has_key L "sector" d = true -> complete d = true -> vge (format_version d) current = true ->
    convert_format_full L version vge current format_version upgrade sector_all add_defaults d = d.
  Proof.
    intros d Hs Hc Hv. unfold convert_format_full, add_sector. rewrite Hs, (add_defaults_complete d Hc).
    now apply convert_fixpoint_lemma.
  Qed.

  Lemma add_sector_keeps_value_lemma : forall d k v, In (k, v) d -> In (k, v) (add_sector L sector_all d).
  Proof. intros d k v H. unfold add_sector. destruct (has_key L "sector" d); auto. apply in_or_app. now left. Qed.

  Lemma add_sector_only_when_missing_lemma : forall d, has_key L "sector" d = true -> add_sector L sector_all d = d.
  Proof. intros d H. unfold add_sector. now rewrite H. Qed.
End Proofs.
