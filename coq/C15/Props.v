(* C15 - property theorems only.  The leaf codec (pandapower's encoding of tables, arrays, numbers,
   strings) is a parameter of every statement together with its assumed laws; everything pandapipes
   adds on top is the model of coq/C15/Model.v.  Facts of the source the model relies on are
   regenerated into Gen/CodecFacts.v and decided here by computation. *)
From Coq Require Import String List Bool.
From PP Require Import C15.Model C15.Proofs Gen.CodecFacts.
Import ListNotations.
Open Scope string_scope.
Open Scope list_scope.

(* 1. round trip: exactly the public keys, in order, every leaf quantised, nothing else *)
Theorem roundtrip : forall (L E : Type) (lenc : L -> E) (ldec : E -> option L) (quant : L -> L)
    (known_component : string -> bool),
  (forall v, ldec (lenc v) = Some (quant v)) ->
  forall d, wf_doc L known_component d = true ->
  decode L E ldec known_component (encode L E lenc d) = Some (map_leaves L quant (strip_internal L d)).
Proof. exact roundtrip_lemma. Qed.
Print Assumptions roundtrip.

Theorem internal_keys_dropped : forall (L : Type) (quant : L -> L) d k v,
  In (k, v) (map_leaves L quant (strip_internal L d)) -> String.prefix "_" k = false.
Proof. exact internal_keys_dropped_lemma. Qed.
Print Assumptions internal_keys_dropped.

Theorem public_keys_kept : forall (L : Type) (quant : L -> L) d k v,
  In (k, v) d -> String.prefix "_" k = false ->
  In (k, q_value L quant v) (map_leaves L quant (strip_internal L d)).
Proof. exact public_keys_kept_lemma. Qed.
Print Assumptions public_keys_kept.

Theorem key_order_kept : forall (L : Type) (quant : L -> L) d,
  map fst (map_leaves L quant (strip_internal L d)) = filter public_key (map fst d).
Proof. exact key_order_kept_lemma. Qed.
Print Assumptions key_order_kept.

(* 1b. exact leaf codec (pickle keeps every value bit for bit: quant = identity): nothing changes but the dropped
   `_` keys.  Instance of [roundtrip]; pickle's own container (dict(net) through pandapower) is an oracle covered by
   the differential with bit-exact comparison *)
Theorem roundtrip_exact_leaf_codec : forall (L E : Type) (lenc : L -> E) (ldec : E -> option L) (quant : L -> L)
    (known_component : string -> bool),
  (forall v, ldec (lenc v) = Some (quant v)) -> (forall v, quant v = v) ->
  forall d, wf_doc L known_component d = true ->
  decode L E ldec known_component (encode L E lenc d) = Some (strip_internal L d).
Proof. exact roundtrip_exact_lemma. Qed.
Print Assumptions roundtrip_exact_leaf_codec.

(* 1c. multi-energy nets: member pandapipes nets go through this layer, member pandapower nets and the controller
   table (with its controller objects) through pandapower's; member names and order are kept, `_` keys dropped *)
Theorem multinet_roundtrip : forall (L E : Type) (lenc : L -> E) (ldec : E -> option L) (quant : L -> L)
    (known_component : string -> bool),
  (forall v, ldec (lenc v) = Some (quant v)) ->
  forall d, wf_mdoc L known_component d = true ->
  decode_multi L E ldec known_component (encode_multi L E lenc d) =
  Some (map (on_snd (q_mvalue L quant)) (mstrip L d)).
Proof. exact multinet_roundtrip_lemma. Qed.
Print Assumptions multinet_roundtrip.

Theorem multinet_member_names_kept : forall (L : Type) (quant : L -> L) (ns : list (string * member L)),
  map fst (map (on_snd (q_member L quant)) ns) = map fst ns.
Proof. exact multinet_member_names_kept_lemma. Qed.
Print Assumptions multinet_member_names_kept.

(* 2. saving what was loaded reproduces the same JSON document (what the tie checks byte for byte) *)
Theorem idempotent_save : forall (L E : Type) (lenc : L -> E) (quant : L -> L),
  (forall v, lenc (quant v) = lenc v) ->
  forall d, encode L E lenc (map_leaves L quant (strip_internal L d)) = encode L E lenc d.
Proof. exact idempotent_save_lemma. Qed.
Print Assumptions idempotent_save.

Theorem second_roundtrip_is_fixpoint : forall (L : Type) (quant : L -> L),
  (forall v, quant (quant v) = quant v) ->
  forall d, map_leaves L quant (strip_internal L (map_leaves L quant (strip_internal L d))) =
            map_leaves L quant (strip_internal L d).
Proof. exact second_roundtrip_fixpoint_lemma. Qed.
Print Assumptions second_roundtrip_is_fixpoint.

(* 3. fluid: every property class comes back as the same class with the same fields; the
      interpolator's x / y / fill rule are split off and restored *)
Theorem fluid_roundtrip : forall (L E : Type) (lenc : L -> E) (ldec : E -> option L) (quant : L -> L)
    (known_component : string -> bool),
  (forall v, ldec (lenc v) = Some (quant v)) ->
  forall a ps, forallb (fun kv => wf_prop L (snd kv)) ps = true ->
  dec_value L E ldec known_component (enc_value L E lenc (VFluid L a ps)) =
  Some (VFluid L (qf L quant a) (map (on_snd (q_prop L quant)) ps)).
Proof. exact fluid_roundtrip_lemma. Qed.
Print Assumptions fluid_roundtrip.

Theorem property_class_and_fields_kept : forall (L E : Type) (lenc : L -> E) (ldec : E -> option L) (quant : L -> L),
  (forall v, ldec (lenc v) = Some (quant v)) ->
  forall p p', wf_prop L p = true -> dec_prop L E ldec (enc_prop L E lenc p) = Some p' ->
  p_class L p' = p_class L p /\ map fst (p_attrs L p') = map fst (p_attrs L p)
  /\ map fst (p_getter L p') = map fst (p_getter L p).
Proof. exact prop_class_kept_lemma. Qed.
Print Assumptions property_class_and_fields_kept.

(* 4. format conversion *)
Theorem convert_format_fixpoint : forall (L version : Type) (vge : version -> version -> bool) (current : version)
    (format_version : doc L -> version) (upgrade : doc L -> doc L) d,
  vge (format_version d) current = true ->
  convert_format L version vge current format_version upgrade d = d.
Proof. exact convert_fixpoint_lemma. Qed.
Print Assumptions convert_format_fixpoint.

Theorem convert_format_idempotent : forall (L version : Type) (vge : version -> version -> bool) (current : version)
    (format_version : doc L -> version) (upgrade : doc L -> doc L),
  (forall d, vge (format_version (upgrade d)) current = true) ->
  forall d, convert_format L version vge current format_version upgrade
              (convert_format L version vge current format_version upgrade d) =
            convert_format L version vge current format_version upgrade d.
Proof. exact convert_idempotent_lemma. Qed.
Print Assumptions convert_format_idempotent.

(* the complete convert_format (sector default, default components, version test) is the identity on a
   current-format document of EVERY sector: the sector entry is only added when the key is missing, its value
   (a plain string after JSON decoding) is never inspected *)
Theorem convert_format_identity_every_sector : forall (L version : Type) (vge : version -> version -> bool)
    (current : version) (format_version : doc L -> version) (upgrade : doc L -> doc L)
    (sector_all : value L) (complete : doc L -> bool) (add_defaults : doc L -> doc L),
  (forall d, complete d = true -> add_defaults d = d) ->
  forall d, has_key L "sector" d = true -> complete d = true -> vge (format_version d) current = true ->
  convert_format_full L version vge current format_version upgrade sector_all add_defaults d = d.
Proof. exact convert_full_fixpoint_lemma. Qed.
Print Assumptions convert_format_identity_every_sector.

Theorem sector_entry_never_overwritten : forall (L : Type) (sector_all : value L) d,
  has_key L "sector" d = true -> add_sector L sector_all d = d.
Proof. exact add_sector_only_when_missing_lemma. Qed.
Print Assumptions sector_entry_never_overwritten.

(* ---- facts of the source the model relies on (regenerated on every run) ---- *)
Theorem generated_key_filter : forallb (String.eqb "_") key_filter_prefixes = true /\ length key_filter_prefixes = 2.
Proof. vm_compute. split; reflexivity. Qed.
Print Assumptions generated_key_filter.

(* the interpolator's stored fields are the model's getter fields, the renaming to constructor keywords is
   injective (from_dict inverts to_dict), and the interpolator object itself is excluded from the dict *)
Theorem generated_interpolator_fields :
  map fst getter_entries = getter_fields /\ NoDup (map snd getter_entries) /\ In "prop_getter" inter_excludes.
Proof.
  split; [reflexivity|split].
  - repeat constructor; simpl; intuition discriminate.
  - simpl. auto.
Qed.
Print Assumptions generated_interpolator_fields.

(* exactly InterExtra and Polynominal override the generic to_dict of JSONSerializableClass *)
Theorem generated_class_overrides :
  map (fun x => fst (fst x)) (filter (fun x => snd (fst x)) fluid_classes)
    = ["FluidPropertyInterExtra"; "FluidPropertyPolynominal"]
  /\ forallb (fun c => existsb (fun x => String.eqb (fst (fst x)) (class_name c)) fluid_classes)
             [CConst; CLinear; CInterExtra; CPoly; CSuth] = true
  /\ existsb (String.eqb "pandapipesNet") registry_names = true
  /\ existsb (String.eqb "MultiNet") registry_names = true.
Proof. vm_compute. repeat split; reflexivity. Qed.
Print Assumptions generated_class_overrides.

(* Polynominal: the stored extra field(s) are exactly those from_dict pops (checked by the translator) and the model's;
   the poly1d objects themselves are excluded from the dict *)
Theorem generated_polynominal_fields :
  poly_fields = getter_fields_of CPoly /\ In "prop_getter" poly_excludes /\ In "prop_int_getter" poly_excludes.
Proof. vm_compute. auto 10. Qed.
Print Assumptions generated_polynominal_fields.

(* bounded interpolation: the non-string fill value is written as null and the keyword omitted on load
   (recognised in the source), and that codec of the fill rule is a bijection *)
Theorem generated_bounded_fill_codec : inter_fill_none_codec = true /\ forall f, dec_fill (enc_fill f) = Some f.
Proof. split; [reflexivity|exact fill_roundtrip_lemma]. Qed.
Print Assumptions generated_bounded_fill_codec.

(* every property class - with or without extra stored fields - comes back as the same class with the same
   attribute / extra-field split; classes without extra fields keep every field as an attribute *)
Theorem property_roundtrip_every_class : forall (L E : Type) (lenc : L -> E) (ldec : E -> option L) (quant : L -> L),
  (forall v, ldec (lenc v) = Some (quant v)) ->
  forall p, wf_prop L p = true -> dec_prop L E ldec (enc_prop L E lenc p) = Some (q_prop L quant p).
Proof. exact dec_enc_prop. Qed.
Print Assumptions property_roundtrip_every_class.

(* a well-formed document never fails to load (no `roundtrip raises`) *)
Theorem roundtrip_total : forall (L E : Type) (lenc : L -> E) (ldec : E -> option L) (quant : L -> L)
    (known_component : string -> bool),
  (forall v, ldec (lenc v) = Some (quant v)) ->
  forall d, wf_doc L known_component d = true ->
  decode L E ldec known_component (encode L E lenc d) <> None.
Proof. intros L E lenc ldec quant kc H d W. rewrite (roundtrip_lemma L E lenc ldec quant kc H d W). discriminate. Qed.
Print Assumptions roundtrip_total.

(* _add_sector tests the presence of the KEY only, and convert_format calls it and add_default_components(overwrite=False)
   before the version test - the shape the model of convert_format_full assumes *)
Theorem generated_sector_guard : sector_guard_key_presence = true /\ convert_prelude_recognised = true.
Proof. split; reflexivity. Qed.
Print Assumptions generated_sector_guard.

(* ---- the hypotheses are satisfiable: a concrete leaf codec and a document with every value kind ---- *)
Definition ex_quant (s : string) : string := match s with String c _ => String c "" | EmptyString => "" end.
Definition ex_doc : doc string :=
  [("junction", VLeaf string "table");
   ("_pit", VLeaf string "internal");
   ("fluid", VFluid string [("name", "water")]
      [("density", {| p_class := CInterExtra; p_attrs := []; p_getter := [("x", "xs"); ("y", "ys"); ("_fill_value_orig", "extrapolate")] |});
       ("heat_capacity", {| p_class := CPoly; p_attrs := []; p_getter := [("coefficients", "c2 c1 c0")] |});
       ("viscosity", {| p_class := CConst; p_attrs := [("value", "1e-3"); ("warn_dependent_variables", "False")]; p_getter := [] |})]);
   ("std_types", VStd string [("pipe", [("80_GGG", StdDict string [("inner_diameter_mm", "80")])]);
                              ("pump", [("P1", StdPump string [("reg_par", "coefs")])])]);
   ("component_list", VComps string ["Junction"; "Pipe"])].
Example ex_wf : wf_doc string (fun _ => true) ex_doc = true.
Proof. reflexivity. Qed.
Example ex_roundtrip :
  decode string string (fun e => Some (ex_quant e)) (fun _ => true) (encode string string (fun v => v) ex_doc)
  = Some (map_leaves string ex_quant (strip_internal string ex_doc))
  /\ length (strip_internal string ex_doc) = 4.
Proof. split; reflexivity. Qed.

(* a multinet with a pandapipes member (with an internal key), a pandapower member and a controller table *)
Definition ex_mdoc : mdoc string :=
  [("name", MVLeaf string "mn"); ("_internal", MVLeaf string "x"); ("controller", MVLeaf string "table with P2G controller");
   ("nets", MVNets string [("gas", MPipes string ex_doc); ("power", MPower string "pandapower net")])].
Example ex_multinet_roundtrip :
  wf_mdoc string (fun _ => true) ex_mdoc = true /\
  decode_multi string string (fun e => Some (ex_quant e)) (fun _ => true) (encode_multi string string (fun v => v) ex_mdoc)
  = Some (map (on_snd (q_mvalue string ex_quant)) (mstrip string ex_mdoc)).
Proof. split; reflexivity. Qed.
Example ex_exact : decode string string (fun e => Some e) (fun _ => true) (encode string string (fun v => v) ex_doc)
                   = Some (strip_internal string ex_doc).
Proof. reflexivity. Qed.
Example ex_convert_every_sector :
  has_key string "sector" (ex_doc ++ [("sector", VLeaf string "heat")]) = true.
Proof. reflexivity. Qed.
