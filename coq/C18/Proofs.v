(* C18 - proofs about the model of the topology graph (any net, any arguments). *)
From Coq Require Import String List Bool ZArith Lia.
From PP Require Import C18.Model.
Import ListNotations.
Open Scope string_scope.
Open Scope Z_scope.
Open Scope list_scope.

Lemma memz_In x l : memz x l = true <-> In x l.
Proof.
  unfold memz. rewrite existsb_exists. split.
  - intros [y [H E]]. apply Z.eqb_eq in E. now subst.
  - intros H. exists x. split; auto. apply Z.eqb_refl.
Qed.

Lemma memz_false x l : memz x l = false <-> ~ In x l.
Proof. rewrite <- memz_In. destruct (memz x l); split; intros; try discriminate; auto. now exfalso; apply H. Qed.

Lemma dedupe_In x l : In x (dedupe l) <-> In x l.
Proof.
  induction l as [|y l IH]; simpl; [tauto|]. destruct (memz y l) eqn:M.
  - rewrite IH. split; auto. intros [-> | H]; auto. now apply memz_In.
  - simpl. rewrite IH. tauto.
Qed.

Lemma union_In x a b : In x (union a b) <-> In x a \/ In x b.
Proof.
  unfold union. rewrite in_app_iff, filter_In, dedupe_In. split.
  - intros [H | [H _]]; auto.
  - intros [H | H]; auto. destruct (memz x a) eqn:M; [left; now apply memz_In | right; split; auto].
Qed.

Lemma sel_rows_In o rows r : In r (sel_rows o rows) <->
  In r rows /\ match o with None => True | Some ls => In (b_label r) ls end.
Proof.
  destruct o as [ls|]; simpl; [|tauto]. rewrite in_flat_map. split.
  - intros [l [Hl Hr]]. apply filter_In in Hr. destruct Hr as [Hr E]. apply Z.eqb_eq in E. subst. auto.
  - intros [Hr Hl]. exists (b_label r). split; auto. apply filter_In. split; auto. apply Z.eqb_refl.
Qed.

(* ------------------------------------------------------------------ which edges the graph has *)
Definition kept (a : args) (n : net) (x : Z) : Prop := ~ In x (removed a n).

Lemma edge_in_graph_iff a n u v t l w :
  In (mkE u v t l w) (edges a n) <->
  exists rows r, In (t, rows) (n_tables n) /\ In r (sel_rows (f_only (flags_of (a_flags a) t)) rows) /\
    f_include (flags_of (a_flags a) t) = true /\ row_in a n t r = true /\
    u = b_from r /\ v = b_to r /\ l = b_label r /\ w = b_w r /\ kept a n u /\ kept a n v.
Proof.
  unfold edges, raw_edges, kept. rewrite filter_In, in_flat_map. split.
  - intros [[tb [Htb He]] Hk]. unfold table_edges in He.
    destruct (f_include (flags_of (a_flags a) (fst tb))) eqn:I; [|contradiction].
    apply in_map_iff in He. destruct He as [r [E Hr]]. apply filter_In in Hr. destruct Hr as [Hr Hin].
    inversion E; subst. destruct tb as [t rows]. simpl in *.
    apply andb_true_iff in Hk. destruct Hk as [K1 K2]. apply negb_true_iff in K1, K2.
    exists rows, r. repeat split; auto; now apply memz_false.
  - intros [rows [r [Ht [Hr [I [Hin [-> [-> [-> [-> [K1 K2]]]]]]]]]]]. split.
    + exists (t, rows). split; auto. unfold table_edges. simpl. rewrite I.
      apply in_map_iff. exists r. split; auto. apply filter_In. auto.
    + simpl. apply memz_false in K1, K2. now rewrite K1, K2.
Qed.

(* the meaning of [row_in]: active unless the status is ignored; a pipe with a closed pi valve is cut
   whenever valve states are respected *)
Lemma row_in_spec a n t r :
  row_in a n t r = true <->
  b_pi r = false /\
  (f_respect (flags_of (a_flags a) t) = false \/ b_act r = true) /\
  ~ (t = "pipe" /\ a_rs_valves a = true /\ In (b_label r) (closed_pi_pipes n)).
Proof.
  unfold row_in. rewrite !andb_true_iff, orb_true_iff, !negb_true_iff. split.
  - intros [[H0 H1] H2]. repeat split; auto. intros [-> [Hv Hc]]. apply memz_In in Hc. rewrite Hv, Hc in H2. discriminate.
  - intros [H0 [H1 H2]]. repeat split; auto.
    destruct (String.eqb t "pipe") eqn:E; auto. destruct (a_rs_valves a) eqn:V; auto.
    destruct (memz (b_label r) (closed_pi_pipes n)) eqn:M; auto.
    exfalso. apply H2. apply String.eqb_eq in E. apply memz_In in M. auto.
Qed.

Lemma closed_pi_In n p : In p (closed_pi_pipes n) <->
  exists r, In r (rows_of n "valve") /\ b_pi r = true /\ b_act r = false /\ b_to r = p.
Proof.
  unfold closed_pi_pipes. rewrite in_map_iff. split.
  - intros [r [E Hr]]. apply filter_In in Hr. destruct Hr as [Hr B]. apply andb_true_iff in B.
    destruct B as [B1 B2]. apply negb_true_iff in B2. eauto.
  - intros [r [Hr [B1 [B2 E]]]]. exists r. split; auto. apply filter_In. split; auto. now rewrite B1, B2.
Qed.

Lemma pipe_valve_closes a n p vr u v w :
  a_rs_valves a = true -> In vr (rows_of n "valve") -> b_pi vr = true -> b_act vr = false -> b_to vr = p ->
  ~ In (mkE u v "pipe" p w) (edges a n).
Proof.
  intros Hv Hr Hpi Hact Hto Hin. apply edge_in_graph_iff in Hin.
  destruct Hin as [rows [r [_ [_ [_ [Hrow [_ [_ [Hl _]]]]]]]]]. apply row_in_spec in Hrow.
  destruct Hrow as [_ [_ Hn]]. apply Hn. repeat split; auto. rewrite <- Hl. apply closed_pi_In. eauto.
Qed.

(* one edge per branch: keys (table, label) are unique when tables and labels are *)
Definition key (e : edge) : string * Z := (e_tab e, e_lab e).

Lemma NoDup_map_filter {A B} (f : A -> B) (p : A -> bool) l : NoDup (map f l) -> NoDup (map f (filter p l)).
Proof.
  induction l as [|x l IH]; simpl; auto. intros H. inversion H; subst. destruct (p x); simpl; auto.
  constructor; auto. intros Hin. apply H2. apply in_map_iff in Hin. destruct Hin as [y [E Hy]].
  apply filter_In in Hy. apply in_map_iff. exists y. tauto.
Qed.

Lemma NoDup_map_inj {A B} (f : A -> B) l : (forall x y, f x = f y -> x = y) -> NoDup l -> NoDup (map f l).
Proof.
  intros Hinj. induction l as [|a l IH]; intros Hnd; simpl; constructor; inversion Hnd; subst; auto.
  intros Hin. apply in_map_iff in Hin. destruct Hin as [y [E Hy]]. apply Hinj in E. subst. contradiction.
Qed.

Lemma NoDup_app_disj {A} (l1 l2 : list A) :
  NoDup l1 -> NoDup l2 -> (forall x, In x l1 -> In x l2 -> False) -> NoDup (l1 ++ l2).
Proof.
  induction l1 as [|a l1 IH]; simpl; auto. intros H1 H2 Hd. inversion H1; subst. constructor.
  - rewrite in_app_iff. intros [H | H]; auto. apply (Hd a); auto.
  - apply IH; auto. intros x Hx1 Hx2. apply (Hd x); auto.
Qed.

Lemma sel_rows_NoDup o rows : NoDup (map b_label rows) ->
  match o with None => True | Some ls => NoDup ls end -> NoDup (map b_label (sel_rows o rows)).
Proof.
  intros Hr Ho. destruct o as [ls|]; simpl; auto.
  induction ls as [|l ls IH]; simpl; [constructor|]. inversion Ho as [|? ? Hnl Hnd]; subst.
  rewrite map_app. apply NoDup_app_disj.
  - now apply NoDup_map_filter.
  - now apply IH.
  - intros x Hx1 Hx2. apply in_map_iff in Hx1. destruct Hx1 as [r1 [E1 Hf1]]. apply filter_In in Hf1.
    destruct Hf1 as [_ E]. apply Z.eqb_eq in E. apply in_map_iff in Hx2. destruct Hx2 as [r2 [E2 Hf2]].
    apply in_flat_map in Hf2. destruct Hf2 as [l2 [Hl2 Hr2]]. apply filter_In in Hr2. destruct Hr2 as [_ E3].
    apply Z.eqb_eq in E3. apply Hnl. congruence.
Qed.

Definition selected_rows (a : args) (tb : btable) : list brow := sel_rows (f_only (flags_of (a_flags a) (fst tb))) (snd tb).

Lemma keys_table_edges a n tb : NoDup (map b_label (selected_rows a tb)) -> NoDup (map key (table_edges a n tb)).
Proof.
  intros H. unfold table_edges. destruct (f_include (flags_of (a_flags a) (fst tb))); [|constructor].
  rewrite map_map. simpl. unfold key. simpl. fold (selected_rows a tb).
  assert (E : map (fun x => (fst tb, b_label x)) (filter (row_in a n (fst tb)) (selected_rows a tb)) =
              map (fun l => (fst tb, l)) (map b_label (filter (row_in a n (fst tb)) (selected_rows a tb)))) by now rewrite map_map.
  rewrite E. apply NoDup_map_inj.
  - intros x y Hxy. now inversion Hxy.
  - now apply NoDup_map_filter.
Qed.

Lemma key_table a n tb e : In e (table_edges a n tb) -> e_tab e = fst tb.
Proof.
  unfold table_edges. destruct (f_include (flags_of (a_flags a) (fst tb))); [|contradiction].
  intros H. apply in_map_iff in H. destruct H as [r [<- _]]. reflexivity.
Qed.

Lemma keys_raw a n tabs :
  NoDup (map fst tabs) -> (forall tb, In tb tabs -> NoDup (map b_label (selected_rows a tb))) ->
  NoDup (map key (flat_map (table_edges a n) tabs)).
Proof.
  induction tabs as [|tb tabs IH]; simpl; intros Hn Hl; [constructor|].
  inversion Hn as [|? ? H1 H2]; subst. rewrite map_app. apply NoDup_app_disj.
  - apply keys_table_edges. apply Hl. now left.
  - apply IH; auto.
  - intros k Hk1 Hk2. apply in_map_iff in Hk1, Hk2. destruct Hk1 as [e1 [E1 He1]]. destruct Hk2 as [e2 [E2 He2]].
    apply in_flat_map in He2. destruct He2 as [tb2 [Htb2 He2]].
    apply key_table in He1. apply key_table in He2. apply H1. apply in_map_iff. exists tb2. split; auto.
    unfold key in *. subst k. inversion E2. congruence.
Qed.

Lemma keys_edges_unique a n :
  NoDup (map fst (n_tables n)) -> (forall tb, In tb (n_tables n) -> NoDup (map b_label (snd tb))) ->
  (forall t ls, f_only (flags_of (a_flags a) t) = Some ls -> NoDup ls) ->
  NoDup (map key (edges a n)).
Proof.
  intros H1 H2 H3. unfold edges. apply NoDup_map_filter. apply keys_raw; auto.
  intros tb Htb. unfold selected_rows. apply sel_rows_NoDup; auto.
  destruct (f_only (flags_of (a_flags a) (fst tb))) eqn:E; auto. eapply H3; eauto.
Qed.

(* ------------------------------------------------------------------ components = reachability classes *)
Definition adj (es : list edge) (x y : Z) : Prop :=
  exists e, In e es /\ ((e_u e = x /\ e_v e = y) \/ (e_v e = x /\ e_u e = y)).

Inductive Reach (es : list edge) (S : list Z) : Z -> Prop :=
| R_seed : forall v, In v S -> Reach es S v
| R_step : forall u v, Reach es S u -> adj es u v -> Reach es S v.

Lemma nbrs_adj es x y : In y (nbrs es x) <-> adj es x y.
Proof.
  unfold nbrs, adj. rewrite in_flat_map. split.
  - intros [e [He Hy]]. exists e. split; auto. apply in_app_iff in Hy. destruct Hy as [Hy | Hy].
    + destruct (Z.eqb (e_u e) x) eqn:E; [|contradiction]. apply Z.eqb_eq in E. destruct Hy as [<- | []]. auto.
    + destruct (Z.eqb (e_v e) x) eqn:E; [|contradiction]. apply Z.eqb_eq in E. destruct Hy as [<- | []]. auto.
  - intros [e [He [[<- <-] | [<- <-]]]]; exists e; split; auto; apply in_app_iff.
    + left. rewrite Z.eqb_refl. now left.
    + right. rewrite Z.eqb_refl. now left.
Qed.

Lemma Reach_trans es S S' v : (forall s, In s S' -> Reach es S s) -> Reach es S' v -> Reach es S v.
Proof. intros H R. induction R; [auto | eapply R_step; eauto]. Qed.

Lemma expand_sound es S v : In v (expand es S) -> Reach es S v.
Proof.
  unfold expand. rewrite union_In, in_flat_map. intros [H | [x [Hx Hv]]].
  - now apply R_seed.
  - apply R_step with x; [now apply R_seed | now apply nbrs_adj].
Qed.

Lemma iter_sound es k : forall S v, In v (iter es k S) -> Reach es S v.
Proof.
  induction k as [|k IH]; intros S v H; simpl in H; [now apply R_seed|].
  apply Reach_trans with (expand es S); [apply expand_sound | now apply IH].
Qed.

Lemma iter_incl es k : forall S v, In v S -> In v (iter es k S).
Proof.
  induction k as [|k IH]; intros S v H; simpl; auto. apply IH. unfold expand. apply union_In. now left.
Qed.

Lemma stable_complete es S S0 v : stable es S = true -> (forall s, In s S0 -> In s S) -> Reach es S0 v -> In v S.
Proof.
  intros Hs H0 R. induction R as [v Hv | u v R IH A]; auto.
  unfold stable in Hs. rewrite forallb_forall in Hs. specialize (Hs u IH). rewrite forallb_forall in Hs.
  apply memz_In. apply Hs. now apply nbrs_adj.
Qed.

Lemma closure_is_reachability es k S0 v :
  stable es (iter es k S0) = true -> (In v (iter es k S0) <-> Reach es S0 v).
Proof.
  intros Hs. split; [apply iter_sound|]. intros R.
  apply (stable_complete es (iter es k S0) S0 v Hs); auto. intros s Hin. now apply iter_incl.
Qed.

(* ------------------------------------------------------------------ distances = shortest walks *)
Inductive Walk (ar : list arc) (srcs : list Z) : Z -> Z -> Prop :=
| W_src : forall s, In s srcs -> Walk ar srcs s 0
| W_arc : forall u v w x, Walk ar srcs u x -> In (u, v, w) ar -> Walk ar srcs v (x + w).

Definition attained (ar : list arc) (srcs : list Z) (d : dmap) : Prop :=
  forall v x, get d v = Some x -> Walk ar srcs v x.

Lemma get_cons d k x v : get ((k, x) :: d) v = if Z.eqb v k then Some x else get d v.
Proof. reflexivity. Qed.

Lemma relax1_attained ar srcs d c : In c ar -> attained ar srcs d -> attained ar srcs (relax1 d c).
Proof.
  intros Hc H. destruct c as [[u v] w]. unfold relax1. destruct (get d u) as [du|] eqn:Gu; auto.
  assert (New : attained ar srcs ((v, du + w) :: d)).
  { intros v' x Hx. rewrite get_cons in Hx. destruct (Z.eqb v' v) eqn:E; [|now apply H].
    apply Z.eqb_eq in E. subst v'. inversion Hx; subst. eapply W_arc; eauto. }
  destruct (get d v) as [dv|]; auto. destruct (Z.ltb (du + w) dv); auto.
Qed.

Lemma fold_relax_attained ar srcs l : forall d, incl l ar -> attained ar srcs d -> attained ar srcs (fold_left relax1 l d).
Proof.
  induction l as [|c l IH]; intros d Hi H; simpl; auto. apply IH.
  - intros x Hx. apply Hi. now right.
  - apply relax1_attained; auto. apply Hi. now left.
Qed.

Lemma rounds_attained ar srcs k : forall d, attained ar srcs d -> attained ar srcs (rounds ar k d).
Proof.
  induction k as [|k IH]; intros d H; simpl; auto. apply IH. unfold relax. apply fold_relax_attained; auto.
  apply incl_refl.
Qed.

Lemma init_attained ar srcs : attained ar srcs (map (fun s => (s, 0)) srcs).
Proof.
  intros v x H. assert (G : forall l, get (map (fun s => (s, 0)) l) v = Some x -> x = 0 /\ In v l).
  { induction l as [|s l IH]; simpl; [discriminate|]. destruct (Z.eqb v s) eqn:E.
    - apply Z.eqb_eq in E. intros Hx. inversion Hx. subst. auto.
    - intros Hx. destruct (IH Hx). auto. }
  destruct (G srcs H) as [-> Hin]. now apply W_src.
Qed.

Lemma dstable_minimal ar srcs d : dstable ar srcs d = true ->
  forall v y, Walk ar srcs v y -> exists x, get d v = Some x /\ x <= y.
Proof.
  intros Hs v y W. unfold dstable in Hs. apply andb_true_iff in Hs. destruct Hs as [Ha Hsrc].
  rewrite forallb_forall in Ha, Hsrc.
  induction W as [s Hin | u v w x W IH Harc].
  - specialize (Hsrc s Hin). destruct (get d s) as [x|]; [|discriminate]. exists x. split; auto. now apply Z.leb_le.
  - destruct IH as [du [Gu Lu]]. specialize (Ha (u, v, w) Harc). simpl in Ha. rewrite Gu in Ha.
    destruct (get d v) as [dv|]; [|discriminate]. exists dv. split; auto. apply Z.leb_le in Ha. lia.
Qed.

(* ------------------------------------------------------------------ unsupplied *)
Lemma unsupplied_eq_spec a n : slacks_code n = n_sources n -> unsupplied a n = unsupplied_spec a n.
Proof. intros H. unfold unsupplied, unsupplied_spec. now rewrite H. Qed.

Lemma unsupplied_with_spec a n slacks x :
  stable (edges a n) (reach a n slacks) = true ->
  (In x (unsupplied_with a n slacks) <->
   In x (nodes a n) /\ ~ Reach (edges a n) (dedupe (filter (fun y => memz y (nodes a n)) slacks)) x).
Proof.
  intros Hs. unfold unsupplied_with. rewrite filter_In, negb_true_iff, memz_false.
  unfold reach in *. rewrite (closure_is_reachability _ _ _ x Hs). tauto.
Qed.

(* a pi valve adds no edge of its own: every edge comes from a row that is not a pipe-attached valve, and joins two
   junctions when the references of those rows are intact *)
Lemma edge_row_not_pi a n u v t l w : In (mkE u v t l w) (edges a n) ->
  exists rows r, In (t, rows) (n_tables n) /\ In r rows /\ b_label r = l /\ b_pi r = false /\ u = b_from r /\ v = b_to r.
Proof.
  intros He. apply edge_in_graph_iff in He.
  destruct He as [rows [r [Ht [Hr [_ [Hrow [-> [-> [-> _]]]]]]]]]. apply row_in_spec in Hrow. destruct Hrow as [Hpi _].
  apply sel_rows_In in Hr. destruct Hr as [Hr _]. exists rows, r. repeat split; auto.
Qed.

Lemma edges_join_junctions a n :
  (forall tb r, In tb (n_tables n) -> In r (snd tb) -> b_pi r = false ->
     In (b_from r) (map j_label (n_junctions n)) /\ In (b_to r) (map j_label (n_junctions n))) ->
  forall e, In e (edges a n) ->
    In (e_u e) (map j_label (n_junctions n)) /\ In (e_v e) (map j_label (n_junctions n)).
Proof.
  intros H [u v t l w] He. apply edge_row_not_pi in He.
  destruct He as [rows [r [Ht [Hr [_ [Hpi [-> ->]]]]]]]. simpl. exact (H (t, rows) r Ht Hr Hpi).
Qed.
