(* C18 - executable model of pandapipes.topology (create_nxgraph / add_branch_component / init_par,
   unsupplied_junctions, the distance functions) - H-tie, definitions only.

   A branch row is (label, from, to, active, weight, pi).  For the valve table the code takes
   from = valve.junction and to = valve.element whatever valve.et says; [b_pi] records et == "pi"
   (the property's reading: such a row adds no edge of its own, it only closes its pipe).
   Weights are pipe lengths scaled to integers by the harness (dyadic lengths), 0 for other tables.
   The per-table flags (include, respect_status) are resolved by the harness from the keyword
   arguments it passes, with the documented defaults (True) for omitted ones. *)
From Coq Require Import String List Bool ZArith.
Import ListNotations.
Open Scope string_scope.
Open Scope Z_scope.
Open Scope list_scope.

Record jrow := mkJ { j_label : Z; j_ins : bool }.
Record brow := mkB { b_label : Z; b_from : Z; b_to : Z; b_act : bool; b_w : Z; b_pi : bool }.
Definition btable := (string * list brow)%type.
(* include_X may be a bool or a list of labels (f_only = Some labels: the rows net[X].loc[labels], in that order) *)
Record tflags := mkF { f_include : bool; f_respect : bool; f_only : option (list Z) }.
Record net := mkNet {
  n_junctions : list jrow;
  n_tables : list btable;          (* branch component tables in component_list order *)
  n_extgrids : list (Z * bool * bool);  (* ext_grid.junction, in_service, "p" in type *)
  n_sources : list Z               (* junctions where an in-service element fixes the pressure (property's reading) *)
}.
Record args := mkArgs {
  a_flags : list (string * tflags);
  a_rs_valves : bool;              (* respect_status_valves: the pipe-valve filter *)
  a_rs_junctions : bool;
  a_nogo : list Z;
  a_notrav : list Z;
  a_multi : bool
}.
Record edge := mkE { e_u : Z; e_v : Z; e_tab : string; e_lab : Z; e_w : Z }.

Definition memz (x : Z) (l : list Z) : bool := existsb (Z.eqb x) l.
Fixpoint dedupe (l : list Z) : list Z :=
  match l with [] => [] | x :: r => if memz x r then dedupe r else x :: dedupe r end.
Fixpoint nodup_b (l : list Z) : bool :=
  match l with [] => true | x :: r => negb (memz x r) && nodup_b r end.
Definition union (a b : list Z) : list Z := a ++ filter (fun x => negb (memz x a)) (dedupe b).

Fixpoint flags_of (fl : list (string * tflags)) (t : string) : tflags :=
  match fl with
  | [] => mkF true true None
  | (k, f) :: r => if String.eqb k t then f else flags_of r t
  end.

Definition rows_of (n : net) (t : string) : list brow :=
  flat_map (fun tb => if String.eqb (fst tb) t then snd tb else []) (n_tables n).

(* pipes that carry a closed valve: valve.element of rows with et == "pi" and not opened *)
Definition closed_pi_pipes (n : net) : list Z :=
  map b_to (filter (fun r => b_pi r && negb (b_act r)) (rows_of n "valve")).

(* since 515c489 rows of valves attached to a pipe are taken out of the edge table *)
Definition row_in (a : args) (n : net) (t : string) (r : brow) : bool :=
  negb (b_pi r) &&
  (negb (f_respect (flags_of (a_flags a) t)) || b_act r) &&
  negb (String.eqb t "pipe" && a_rs_valves a && memz (b_label r) (closed_pi_pipes n)).

Definition sel_rows (o : option (list Z)) (rows : list brow) : list brow :=
  match o with
  | None => rows
  | Some ls => flat_map (fun l => filter (fun r => Z.eqb (b_label r) l) rows) ls
  end.

Definition table_edges (a : args) (n : net) (tb : btable) : list edge :=
  if f_include (flags_of (a_flags a) (fst tb))
  then map (fun r => mkE (b_from r) (b_to r) (fst tb) (b_label r) (b_w r))
           (filter (row_in a n (fst tb)) (sel_rows (f_only (flags_of (a_flags a) (fst tb))) (snd tb)))
  else [].

Definition raw_edges (a : args) (n : net) : list edge := flat_map (table_edges a n) (n_tables n).

Definition removed (a : args) (n : net) : list Z :=
  a_nogo a ++ (if a_rs_junctions a then map j_label (filter (fun j => negb (j_ins j)) (n_junctions n)) else []).

(* multigraph edges after removing nogo / out-of-service junctions *)
Definition edges (a : args) (n : net) : list edge :=
  filter (fun e => negb (memz (e_u e) (removed a n)) && negb (memz (e_v e) (removed a n))) (raw_edges a n).

(* nodes before any removal: the end points of the edges and (since 515c489 unconditionally) all junctions *)
Definition nodes_all (a : args) (n : net) : list Z :=
  union (dedupe (flat_map (fun e => [e_u e; e_v e]) (raw_edges a n))) (map j_label (n_junctions n)).
Definition nodes (a : args) (n : net) : list Z :=
  filter (fun x => negb (memz x (removed a n))) (nodes_all a n).
(* notrav deletes one direction of the adjacency only (del mg._adj[b][i]); removing an out-of-service
   neighbour of such a junction afterwards raises KeyError *)
Definition notrav_clash (a : args) (n : net) : bool :=
  let oos := if a_rs_junctions a then map j_label (filter (fun j => negb (j_ins j)) (n_junctions n)) else [] in
  let bad := fun x y => memz x (a_notrav a) && memz y oos && negb (memz y (a_notrav a)) in
  existsb (fun e => negb (memz (e_u e) (a_nogo a)) && negb (memz (e_v e) (a_nogo a)) &&
                    (bad (e_u e) (e_v e) || bad (e_v e) (e_u e))) (raw_edges a n).
(* nogo junctions are removed with mg.remove_node, notrav junctions are looked up with mg[b]: both raise when the
   node is not in the graph; out-of-service junctions are removed with remove_nodes_from (silent, since 190d51d) *)
Definition fails (a : args) (n : net) : bool :=
  existsb (fun b => negb (memz b (nodes_all a n))) (a_nogo a) ||
  negb (nodup_b (a_nogo a)) ||
  existsb (fun b => negb (memz b (nodes_all a n)) || memz b (a_nogo a)) (a_notrav a).

(* nx.Graph: one edge per unordered pair, the attributes of the last one added win *)
Definition same_pair (e f : edge) : bool :=
  (Z.eqb (e_u e) (e_u f) && Z.eqb (e_v e) (e_v f)) || (Z.eqb (e_u e) (e_v f) && Z.eqb (e_v e) (e_u f)).
Fixpoint keep_last (es : list edge) : list edge :=
  match es with
  | [] => []
  | e :: r => if existsb (same_pair e) r then keep_last r else e :: keep_last r
  end.
Definition graph_edges (a : args) (n : net) : list edge :=
  if a_multi a then edges a n else keep_last (edges a n).

(* ---- components by closure ---- *)
Definition nbrs (es : list edge) (x : Z) : list Z :=
  flat_map (fun e => (if Z.eqb (e_u e) x then [e_v e] else []) ++ (if Z.eqb (e_v e) x then [e_u e] else [])) es.
Definition expand (es : list edge) (s : list Z) : list Z := union s (flat_map (nbrs es) s).
Fixpoint iter (es : list edge) (fuel : nat) (s : list Z) : list Z :=
  match fuel with O => s | S k => iter es k (expand es s) end.
Definition stable (es : list edge) (s : list Z) : bool :=
  forallb (fun x => forallb (fun y => memz y s) (nbrs es x)) s.
Definition reach (a : args) (n : net) (seeds : list Z) : list Z :=
  iter (edges a n) (length (nodes a n)) (dedupe (filter (fun x => memz x (nodes a n)) seeds)).

(* unsupplied_junctions(net): the nodes of components without an in-service ext grid junction *)
(* since 515c489: in-service ext grids whose type contains "p", and the flow junctions (to-column) of in-service
   circulation pumps *)
Definition slacks_code (n : net) : list Z :=
  map (fun g => fst (fst g)) (filter (fun g => snd (fst g) && snd g) (n_extgrids n)) ++
  map b_to (filter b_act (rows_of n "circ_pump_mass" ++ rows_of n "circ_pump_pressure")).
Definition unsupplied_with (a : args) (n : net) (slacks : list Z) : list Z :=
  let r := reach a n slacks in filter (fun x => negb (memz x r)) (nodes a n).
Definition unsupplied (a : args) (n : net) : list Z := unsupplied_with a n (slacks_code n).
(* what the property asks for: supplied = connected to any element that fixes the pressure *)
Definition unsupplied_spec (a : args) (n : net) : list Z := unsupplied_with a n (n_sources n).

(* ---- distances: relaxation over arcs (both directions of every edge; none leaving a notrav junction) ---- *)
Definition arc := (Z * Z * Z)%type.
Definition arcs (a : args) (n : net) : list arc :=
  filter (fun c => negb (memz (fst (fst c)) (a_notrav a)))
         (flat_map (fun e => [(e_u e, e_v e, e_w e); (e_v e, e_u e, e_w e)]) (edges a n)).
Definition dmap := list (Z * Z).
Fixpoint get (d : dmap) (v : Z) : option Z :=
  match d with [] => None | (k, x) :: r => if Z.eqb v k then Some x else get r v end.
Definition relax1 (d : dmap) (c : arc) : dmap :=
  let '(u, v, w) := c in
  match get d u with
  | None => d
  | Some du => match get d v with
               | Some dv => if Z.ltb (du + w) dv then (v, du + w) :: d else d
               | None => (v, du + w) :: d
               end
  end.
Definition relax (ar : list arc) (d : dmap) : dmap := fold_left relax1 ar d.
Fixpoint rounds (ar : list arc) (k : nat) (d : dmap) : dmap :=
  match k with O => d | S k' => rounds ar k' (relax ar d) end.
Definition dstable (ar : list arc) (srcs : list Z) (d : dmap) : bool :=
  forallb (fun c => let '(u, v, w) := c in
                    match get d u with
                    | None => true
                    | Some du => match get d v with Some dv => Z.leb dv (du + w) | None => false end
                    end) ar &&
  forallb (fun s => match get d s with Some x => Z.leb x 0 | None => false end) srcs.
Definition dist_map (a : args) (n : net) (srcs : list Z) : dmap :=
  rounds (arcs a n) (length (nodes a n)) (map (fun s => (s, 0)) srcs).

(* ---- comparison with what networkx returned ---- *)
Definition canon (e : edge) : edge :=
  if Z.leb (e_u e) (e_v e) then e else mkE (e_v e) (e_u e) (e_tab e) (e_lab e) (e_w e).
Definition edge_eqb (e f : edge) : bool :=
  Z.eqb (e_u e) (e_u f) && Z.eqb (e_v e) (e_v f) && String.eqb (e_tab e) (e_tab f) &&
  Z.eqb (e_lab e) (e_lab f) && Z.eqb (e_w e) (e_w f).
Definition edges_same (a b : list edge) : bool :=
  Nat.eqb (length a) (length b) &&
  forallb (fun e => existsb (edge_eqb (canon e)) (map canon b)) a &&
  forallb (fun e => existsb (edge_eqb (canon e)) (map canon a)) b.
Definition set_same (a b : list Z) : bool :=
  Nat.eqb (length a) (length b) && forallb (fun x => memz x b) a && forallb (fun x => memz x a) b.

Record case := mkCase {
  k_net : net; k_args : args;
  k_raised : bool;                 (* create_nxgraph raised NetworkXError / KeyError *)
  k_edges : list edge;             (* mg.edges(keys, data) *)
  k_nodes : list Z;
  k_comps : list (list Z);         (* nx.connected_components *)
  k_unsupplied : option (list Z);  (* unsupplied_junctions(net, mg) *)
  k_dsrc : list Z;                 (* sources of the distance query ([] = none asked) *)
  k_dist : list (Z * Z)            (* returned distances, scaled *)
}.

Definition comps_ok (c : case) : bool :=
  forallb (fun comp => match comp with
                       | [] => false
                       | x :: _ => let r := reach (k_args c) (k_net c) [x] in
                                   set_same r comp && stable (edges (k_args c) (k_net c)) r
                       end) (k_comps c) &&
  set_same (concat (k_comps c)) (nodes (k_args c) (k_net c)).

Definition dist_ok (c : case) : bool :=
  match k_dsrc c with
  | [] => true
  | srcs => let d := dist_map (k_args c) (k_net c) srcs in
            dstable (arcs (k_args c) (k_net c)) srcs d &&
            forallb (fun p => match get d (fst p) with Some x => Z.eqb x (snd p) | None => false end) (k_dist c) &&
            set_same (dedupe (map fst d)) (map fst (k_dist c))
  end.

Definition unsup_ok (c : case) : bool :=
  match k_unsupplied c with
  | None => true
  | Some u => set_same u (unsupplied (k_args c) (k_net c)) &&
              stable (edges (k_args c) (k_net c)) (reach (k_args c) (k_net c) (slacks_code (k_net c)))
  end.

(* the harness' reading of "pressure-fixing elements" agrees with the code's slack set *)
Definition sources_ok (c : case) : bool := set_same (dedupe (slacks_code (k_net c))) (dedupe (n_sources (k_net c))).

Definition case_ok (c : case) : bool :=
  if notrav_clash (k_args c) (k_net c) then true else      (* adjacency left inconsistent by the code: not modelled *)
  if fails (k_args c) (k_net c) then k_raised c else
  negb (k_raised c) &&
  edges_same (k_edges c) (graph_edges (k_args c) (k_net c)) &&
  set_same (k_nodes c) (nodes (k_args c) (k_net c)) &&
  comps_ok c && unsup_ok c && dist_ok c && sources_ok c.

Fixpoint first_bad (cs : list case) (i : nat) : option nat :=
  match cs with [] => None | c :: r => if case_ok c then first_bad r (S i) else Some i end.
Definition summary (cs : list case) : nat * nat * Z :=
  (length cs, length (filter (fun c => negb (case_ok c)) cs),
   match first_bad cs 0 with Some i => Z.of_nat i | None => (-1)%Z end).
(* which part disagrees in a case: 1 edges, 2 nodes, 3 components, 4 unsupplied, 5 distances, 0 none *)
Definition which_bad (c : case) : Z :=
  if notrav_clash (k_args c) (k_net c) then 0 else
  if negb (Bool.eqb (fails (k_args c) (k_net c)) (k_raised c)) then 6 else if k_raised c then 0 else
  if negb (edges_same (k_edges c) (graph_edges (k_args c) (k_net c))) then 1
  else if negb (set_same (k_nodes c) (nodes (k_args c) (k_net c))) then 2
  else if negb (comps_ok c) then 3 else if negb (unsup_ok c) then 4 else if negb (dist_ok c) then 5 else if negb (sources_ok c) then 7 else 0.
