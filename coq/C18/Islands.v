(* C18 - the components of the topology graph are the hydraulic islands of the solver:
   bridge from this model's label-level reachability (C18.Proofs.Reach over graph edges) to C04's position-level
   reachability HReach (the relation that C04.connectivity_iff_reach proves equal to the solver's search). *)
From Coq Require Import String List Bool ZArith Lia.
From PP Require Import C18.Model C18.Proofs.
From PP Require C04.Model C04.ProofsConn.
Import ListNotations.

Module S := PP.C04.Model.
Module SC := PP.C04.ProofsConn.

Section Islands.
  Variable es : list edge.            (* edges of the graph *)
  Variable ns : list Z.               (* its nodes = in-service junctions *)
  Variable seeds : list Z.            (* junctions with a pressure supply *)
  Variable pos : Z -> nat.            (* junction label -> position in the node pit *)
  Variable n : nat.
  Variables nact slack : list bool.   (* solver side: active nodes, pressure-fixed nodes *)

  (* the branch pit the solver sees when every graph edge is an in-service, undirected, non flow-return-connect
     branch between the same junctions (the side conditions of the property: consistent flags, no pump / compressor /
     controller whose only role is flow-return connection) *)
  Definition branch_of (e : edge) : S.branch := S.Build_branch (pos (e_u e)) (pos (e_v e)) true false false.
  Definition bs : list S.branch := map branch_of es.

  Hypothesis pos_inj : forall x y, In x ns -> In y ns -> pos x = pos y -> x = y.
  Hypothesis pos_lt : forall x, In x ns -> (pos x < n)%nat.
  Hypothesis ends_in : forall e, In e es -> In (e_u e) ns /\ In (e_v e) ns.
  Hypothesis seeds_in : forall s, In s seeds -> In s ns.
  Hypothesis nact_all : forall x, In x ns -> S.nthb nact (pos x) = true.
  Hypothesis slack_iff : forall i, S.nthb slack i = true <-> exists s, In s seeds /\ pos s = i.

  Lemma graph_to_solver v : Reach es seeds v -> In v ns /\ SC.HReach n bs nact slack (pos v).
  Proof.
    intros R. induction R as [v Hv | u v R [Hu IH] A].
    - split; [now apply seeds_in|]. apply SC.HR_start; [apply pos_lt; now apply seeds_in | | apply nact_all; now apply seeds_in].
      apply slack_iff. eauto.
    - destruct A as [e [He [[Eu Ev] | [Ev Eu]]]]; destruct (ends_in e He) as [I1 I2]; subst.
      + split; auto.
        change (pos (e_v e)) with (S.b_to (branch_of e)).
        apply SC.HR_fwd; auto. unfold bs. now apply in_map.
      + split; auto.
        change (pos (e_u e)) with (S.b_from (branch_of e)).
        apply SC.HR_bwd; auto. unfold bs. now apply in_map.
  Qed.

  Lemma solver_to_graph i : SC.HReach n bs nact slack i -> exists v, In v ns /\ pos v = i /\ Reach es seeds v.
  Proof.
    intros H. induction H as [i Hi Hs Ha | b Hb Hact Hfrc H IH | b Hb Hact Hfrc Hd H IH].
    - apply slack_iff in Hs. destruct Hs as [s [Hs E]]. exists s. repeat split; auto. now apply R_seed.
    - unfold bs in Hb. apply in_map_iff in Hb. destruct Hb as [e [<- He]]. destruct (ends_in e He) as [I1 I2].
      destruct IH as [v [Hv [E R]]]. simpl in E. apply pos_inj in E; auto. subst v.
      exists (e_v e). repeat split; auto. apply R_step with (e_u e); auto. exists e. split; auto.
    - unfold bs in Hb. apply in_map_iff in Hb. destruct Hb as [e [<- He]]. destruct (ends_in e He) as [I1 I2].
      destruct IH as [v [Hv [E R]]]. simpl in E. apply pos_inj in E; auto. subst v.
      exists (e_u e). repeat split; auto. apply R_step with (e_v e); auto. exists e. split; auto.
  Qed.

  Theorem components_eq_islands v : In v ns -> (Reach es seeds v <-> SC.HReach n bs nact slack (pos v)).
  Proof.
    intros Hv. split.
    - intros R. now apply graph_to_solver.
    - intros H. destruct (solver_to_graph _ H) as [w [Hw [E R]]]. apply pos_inj in E; auto. now subst.
  Qed.
End Islands.
