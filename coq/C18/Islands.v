(* C18 - the components of the topology graph are the hydraulic islands of the solver:
   bridge from this model's label-level reachability (C18.Proofs.Reach over graph edges) to C04's position-level
   reachability HReach (the relation that C04.connectivity_iff_reach proves equal to the solver's search). *)
From Coq Require Import String List Bool ZArith Lia.
From PP Require Import C18.Model C18.Proofs.
From PP Require C04.Model C04.ProofsConn.
Import ListNotations.

Module S := PP.C04.Model.
Module SC := PP.C04.ProofsConn.

Section Islands.
  Variable es : list edge.            (* edges of the graph *)
  Variable ns : list Z.               (* its nodes = in-service junctions *)
  Variable seeds : list Z.            (* junctions with a pressure supply *)
  Variable pos : Z -> nat.            (* junction label -> position in the node pit *)
  Variable n : nat.
  Variables nact slack : list bool.   (* solver side: active nodes, pressure-fixed nodes *)

  (* the branch pit the solver sees when every graph edge is an in-service, undirected, non flow-return-connect
     branch between the same junctions (the side conditions of the property: consistent flags, no pump / compressor /
     controller whose only role is flow-return connection) *)
  Definition branch_of (e : edge) : S.branch := S.Build_branch (pos (e_u e)) (pos (e_v e)) true false false.
  Definition bs : list S.branch := map branch_of es.

  Hypothesis pos_inj : forall x y, In x ns -> In y ns -> pos x = pos y -> x = y.
  Hypothesis pos_lt : forall x, In x ns -> (pos x < n)%nat.
  Hypothesis ends_in : forall e, In e es -> In (e_u e) ns /\ In (e_v e) ns.
  Hypothesis seeds_in : forall s, In s seeds -> In s ns.
  Hypothesis nact_all : forall x, In x ns -> S.nthb nact (pos x) = true.
  Hypothesis slack_iff : forall i, S.nthb slack i = true <-> exists s, In s seeds /\ pos s = i.

  Lemma graph_to_solver v : Reach es seeds v -> In v ns /\ SC.HReach n bs nact slack (pos v).
  Proof.
    intros R. induction R as [v Hv | u v R [Hu IH] A].
    - split; [now apply seeds_in|]. apply SC.HR_start; [apply pos_lt; now apply seeds_in | | apply nact_all; now apply seeds_in].
      apply slack_iff. eauto.
    - destruct A as [e [He [[Eu Ev] | [Ev Eu]]]]; destruct (ends_in e He) as [I1 I2]; subst.
      + split; auto.
        change (pos (e_v e)) with (S.b_to (branch_of e)).
        apply SC.HR_fwd; auto. unfold bs. now apply in_map.
      + split; auto.
        change (pos (e_u e)) with (S.b_from (branch_of e)).
        apply SC.HR_bwd; auto. unfold bs. now apply in_map.
  Qed.

  Lemma solver_to_graph i : SC.HReach n bs nact slack i -> exists v, In v ns /\ pos v = i /\ Reach es seeds v.
  Proof.
    intros H. induction H as [i Hi Hs Ha | b Hb Hact Hfrc H IH | b Hb Hact Hfrc Hd H IH].
    - apply slack_iff in Hs. destruct Hs as [s [Hs E]]. exists s. repeat split; auto. now apply R_seed.
    - unfold bs in Hb. apply in_map_iff in Hb. destruct Hb as [e [<- He]]. destruct (ends_in e He) as [I1 I2].
      destruct IH as [v [Hv [E R]]]. simpl in E. apply pos_inj in E; auto. subst v.
      exists (e_v e). repeat split; auto. apply R_step with (e_u e); auto. exists e. split; auto.
    - unfold bs in Hb. apply in_map_iff in Hb. destruct Hb as [e [<- He]]. destruct (ends_in e He) as [I1 I2].
      destruct IH as [v [Hv [E R]]]. simpl in E. apply pos_inj in E; auto. subst v.
      exists (e_u e). repeat split; auto. apply R_step with (e_v e); auto. exists e. split; auto.
  Qed.

  Theorem components_eq_islands v : In v ns -> (Reach es seeds v <-> SC.HReach n bs nact slack (pos v)).
  Proof.
    intros Hv. split.
    - intros R. now apply graph_to_solver.
    - intros H. destruct (solver_to_graph _ H) as [w [Hw [E R]]]. apply pos_inj in E; auto. now subst.
  Qed.
End Islands.

(* ------------------------------------------------------------------ the same over C04's table-level pit model:
   the branch pit [C04.mk_branches js tabs] of junction labels js and branch tables tabs HAS the shape assumed above
   when every row is in service, undirected and no flow-return connection; positions come from the solver's own
   index lookup, which is injective on js and below length js (C06.pos_of_label) *)
From PP Require C06.Model C06.ProofsExtract.
Section Pit.
  Variable js : list Z.
  Variable tabs : list (list S.brow).
  Variable seeds : list Z.
  Variables nact slack : list bool.

  Definition pit_pos : Z -> nat := S.pos_of (PP.C06.Model.mk_index_lookup js 0%Z).
  Definition edge_of (r : S.brow) : edge := mkE (S.r_from r) (S.r_to r) EmptyString (S.r_label r) 0%Z.
  Definition pit_edges : list edge := map edge_of (concat tabs).

  Hypothesis js_unique : NoDup js.
  Hypothesis rows_plain : forall r, In r (concat tabs) ->
    S.r_active r = true /\ S.r_directed r = false /\ S.r_frc r = false.
  Hypothesis ends_exist : forall r, In r (concat tabs) -> In (S.r_from r) js /\ In (S.r_to r) js.
  Hypothesis seeds_in : forall s, In s seeds -> In s js.
  Hypothesis nact_all : forall x, In x js -> S.nthb nact (pit_pos x) = true.
  Hypothesis slack_iff : forall i, S.nthb slack i = true <-> exists s, In s seeds /\ pit_pos s = i.

  Lemma pit_shape : S.mk_branches js tabs = bs pit_edges pit_pos.
  Proof.
    unfold S.mk_branches, bs, pit_edges. rewrite map_map. apply map_ext_in. intros r Hr.
    destruct (rows_plain r Hr) as [A [D F]]. unfold branch_of, edge_of, pit_pos. simpl. now rewrite A, D, F.
  Qed.

  Lemma pit_pos_lt x : In x js -> (pit_pos x < length js)%nat.
  Proof.
    intros H. destruct (PP.C06.ProofsExtract.pos_of_label js x js_unique H) as [r [Hr [_ E]]].
    unfold pit_pos, S.pos_of. now rewrite E.
  Qed.

  Lemma pit_pos_inj x y : In x js -> In y js -> pit_pos x = pit_pos y -> x = y.
  Proof.
    intros Hx Hy E. destruct (PP.C06.ProofsExtract.pos_of_label js x js_unique Hx) as [r [_ [Nx Ex]]].
    destruct (PP.C06.ProofsExtract.pos_of_label js y js_unique Hy) as [r' [_ [Ny Ey]]].
    unfold pit_pos, S.pos_of in E. rewrite Ex, Ey in E. subst r'. congruence.
  Qed.

  Theorem components_eq_islands_pit v : In v js ->
    (Reach pit_edges seeds v <->
     S.nthb (fst (S.search_hyd (length js) (S.mk_branches js tabs) (map S.b_active (S.mk_branches js tabs)) nact slack))
            (pit_pos v) = true).
  Proof.
    intros Hv. rewrite pit_shape.
    assert (Hends : forall e, In e pit_edges -> In (e_u e) js /\ In (e_v e) js).
    { intros e He. unfold pit_edges in He. apply in_map_iff in He. destruct He as [r [<- Hr]]. simpl. now apply ends_exist. }
    rewrite (components_eq_islands pit_edges js seeds pit_pos (length js) nact slack
               pit_pos_inj pit_pos_lt Hends seeds_in nact_all slack_iff v Hv).
    rewrite SC.search_hyd_eq. simpl fst. symmetry. apply SC.hnc_iff_hreach.
    intros b Hb. unfold bs in Hb. apply in_map_iff in Hb. destruct Hb as [e [<- He]]. destruct (Hends e He).
    simpl. split; now apply pit_pos_lt.
  Qed.
End Pit.
