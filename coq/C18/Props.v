(* C18 - property theorems only.  Model: C18/Model.v, tied to create_graph.py / graph_searches.py / networkx by
   exact correspondence (which also checks, inside Coq, that every computed closure / relaxation is stable). *)
From Coq Require Import String List Bool ZArith.
From PP Require Import C18.Model C18.Proofs.
Import ListNotations.
Open Scope string_scope.
Open Scope Z_scope.

(* an edge with key (t, l) between u and v is in the graph exactly when row l of an included table t is
   active (or its status ignored), is not a pipe with a closed pi valve, and both ends are kept *)
Theorem edge_iff_branch_row : forall a n u v t l w,
  In (mkE u v t l w) (edges a n) <->
  exists rows r, In (t, rows) (n_tables n) /\ In r rows /\
    f_include (flags_of (a_flags a) t) = true /\ row_in a n t r = true /\
    u = b_from r /\ v = b_to r /\ l = b_label r /\ w = b_w r /\ kept a n u /\ kept a n v.
Proof. exact edge_in_graph_iff. Qed.
Print Assumptions edge_iff_branch_row.

Theorem row_in_meaning : forall a n t r,
  row_in a n t r = true <->
  (f_respect (flags_of (a_flags a) t) = false \/ b_act r = true) /\
  ~ (t = "pipe" /\ a_rs_valves a = true /\ In (b_label r) (closed_pi_pipes n)).
Proof. exact row_in_spec. Qed.
Print Assumptions row_in_meaning.

(* ... and contributes exactly one: keys (table, label) are unique in the multigraph *)
Theorem one_edge_per_branch : forall a n,
  NoDup (map fst (n_tables n)) -> (forall tb, In tb (n_tables n) -> NoDup (map b_label (snd tb))) ->
  NoDup (map key (edges a n)).
Proof. exact keys_edges_unique. Qed.
Print Assumptions one_edge_per_branch.

(* a closed valve attached to a pipe removes that pipe's edge *)
Theorem pipe_valve_closes_pipe : forall a n p vr u v w,
  a_rs_valves a = true -> In vr (rows_of n "valve") -> b_pi vr = true -> b_act vr = false -> b_to vr = p ->
  ~ In (mkE u v "pipe" p w) (edges a n).
Proof. exact pipe_valve_closes. Qed.
Print Assumptions pipe_valve_closes_pipe.

(* witness net: ext grid at 0, pipes 3:(0,1) 7:(1,2); a loop 3-4-5 closed by a circulation pump (flow junction 3);
   [witness] additionally has an open pi valve at junction 1 on pipe 3 *)
Definition jn (l : Z) := mkJ l true.
Definition wtables (valves : list brow) : list btable :=
  [ ("pipe", [mkB 3 0 1 true 32 false; mkB 7 1 2 true 16 false; mkB 4 3 4 true 32 false; mkB 5 4 5 true 32 false]);
    ("valve", valves); ("circ_pump_pressure", [mkB 0 5 3 true 0 false]) ].
Definition witness : net := mkNet (map jn [0; 1; 2; 3; 4; 5]) (wtables [mkB 0 1 3 true 0 true]) [(0, true)] [0; 3].
Definition witness_nv : net := mkNet (map jn [0; 1; 2; 3; 4; 5]) (wtables []) [(0, true)] [0; 3].
Definition dflt : args := mkArgs [] true true [] [] true.

(* a pi valve adds no edge of its own - PARTIAL: holds for nets without pi valves (all ends are junctions) *)
Theorem pipe_valve_adds_no_edge_partial : forall a n,
  (forall tb r, In tb (n_tables n) -> In r (snd tb) ->
     b_pi r = false /\ In (b_from r) (map j_label (n_junctions n)) /\ In (b_to r) (map j_label (n_junctions n))) ->
  forall e, In e (edges a n) ->
    In (e_u e) (map j_label (n_junctions n)) /\ In (e_v e) (map j_label (n_junctions n)).
Proof. exact edges_join_junctions. Qed.
Print Assumptions pipe_valve_adds_no_edge_partial.

(* REFUTED on the current tree: the valve on pipe 3 becomes the edge 1 - 3 ("3" read as a junction), which joins
   the ext-grid part to the circulation-pump loop although no element connects them *)
Theorem pipe_valve_adds_no_edge_refuted : exists n a r,
  In r (rows_of n "valve") /\ b_pi r = true /\
  In (mkE (b_from r) (b_to r) "valve" (b_label r) 0) (edges a n) /\
  In 3 (reach a n [0]) /\ ~ In 3 (reach a witness_nv [0]).
Proof.
  exists witness, dflt, (mkB 0 1 3 true 0 true). vm_compute. repeat split; auto; try tauto.
  intros H. repeat (destruct H as [H | H]; [discriminate H|]). exact H.
Qed.
Print Assumptions pipe_valve_adds_no_edge_refuted.

(* components: a closure that is stable is exactly the set reachable over the edges *)
Theorem graph_components_are_reachability_classes : forall es k S0 v,
  stable es (iter es k S0) = true -> (In v (iter es k S0) <-> Reach es S0 v).
Proof. exact closure_is_reachability. Qed.
Print Assumptions graph_components_are_reachability_classes.

(* unsupplied_junctions = nodes not reachable from an in-service ext grid junction *)
Theorem unsupplied_is_unreachable_from_ext_grids : forall a n x,
  stable (edges a n) (reach a n (slacks_code n)) = true ->
  (In x (unsupplied a n) <->
   In x (nodes a n) /\ ~ Reach (edges a n) (dedupe (filter (fun y => memz y (nodes a n)) (slacks_code n))) x).
Proof. intros a n x. apply unsupplied_with_spec. Qed.
Print Assumptions unsupplied_is_unreachable_from_ext_grids.

(* PARTIAL: when the in-service ext grids are exactly the pressure-fixing elements, that is the supplied set *)
Theorem unsupplied_eq_spec_partial : forall a n, slacks_code n = n_sources n -> unsupplied a n = unsupplied_spec a n.
Proof. exact unsupplied_eq_spec. Qed.
Print Assumptions unsupplied_eq_spec_partial.

(* REFUTED on the current tree: the loop 3-4-5 is supplied by its circulation pump, yet reported unsupplied *)
Theorem unsupplied_eq_spec_refuted : exists a n,
  unsupplied a n = [4; 5; 3] /\ unsupplied_spec a n = [] /\
  stable (edges a n) (reach a n (slacks_code n)) = true.
Proof. exists dflt, witness_nv. vm_compute. auto. Qed.
Print Assumptions unsupplied_eq_spec_refuted.

(* distances: every value of a stable relaxation is the length of a walk from a source, and no walk is shorter *)
Theorem distance_is_shortest_path : forall a n srcs,
  dstable (arcs a n) srcs (dist_map a n srcs) = true ->
  (forall v x, get (dist_map a n srcs) v = Some x -> Walk (arcs a n) srcs v x) /\
  (forall v y, Walk (arcs a n) srcs v y -> exists x, get (dist_map a n srcs) v = Some x /\ x <= y).
Proof.
  intros a n srcs Hs. split.
  - unfold dist_map. apply rounds_attained. apply init_attained.
  - now apply dstable_minimal.
Qed.
Print Assumptions distance_is_shortest_path.

(* non-vacuity: the witness satisfies the uniqueness hypotheses, its closures and relaxation are stable,
   and the distance from junction 0 to junction 2 is 32 + 16 *)
Example witness_facts :
  NoDup (map fst (n_tables witness_nv)) /\
  stable (edges dflt witness_nv) (reach dflt witness_nv [0]) = true /\
  dstable (arcs dflt witness_nv) [0] (dist_map dflt witness_nv [0]) = true /\
  get (dist_map dflt witness_nv [0]) 2 = Some 48 /\
  length (edges dflt witness_nv) = 5%nat.
Proof.
  split; [repeat constructor; simpl; intuition discriminate|]. vm_compute. auto.
Qed.
