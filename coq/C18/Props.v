(* C18 - property theorems only.  Model: C18/Model.v, tied to create_graph.py / graph_searches.py / networkx by
   exact correspondence (which also checks, inside Coq, that every computed closure / relaxation is stable). *)
From Coq Require Import String List Bool ZArith.
From PP Require Import C18.Model C18.Proofs C18.Islands.
From PP Require C04.Model C04.ProofsConn.
Import ListNotations.
Open Scope string_scope.
Open Scope Z_scope.

(* an edge with key (t, l) between u and v is in the graph exactly when row l of an included table t is
   active (or its status ignored), is not a pipe with a closed pi valve, and both ends are kept *)
Theorem edge_iff_branch_row : forall a n u v t l w,
  In (mkE u v t l w) (edges a n) <->
  exists rows r, In (t, rows) (n_tables n) /\ In r (sel_rows (f_only (flags_of (a_flags a) t)) rows) /\
    f_include (flags_of (a_flags a) t) = true /\ row_in a n t r = true /\
    u = b_from r /\ v = b_to r /\ l = b_label r /\ w = b_w r /\ kept a n u /\ kept a n v.
Proof. exact edge_in_graph_iff. Qed.
Print Assumptions edge_iff_branch_row.

(* include_X given as a list of labels: exactly the rows with those labels *)
Theorem include_list_meaning : forall o rows r,
  In r (sel_rows o rows) <-> In r rows /\ match o with None => True | Some ls => In (b_label r) ls end.
Proof. exact sel_rows_In. Qed.
Print Assumptions include_list_meaning.

Theorem row_in_meaning : forall a n t r,
  row_in a n t r = true <->
  b_pi r = false /\
  (f_respect (flags_of (a_flags a) t) = false \/ b_act r = true) /\
  ~ (t = "pipe" /\ a_rs_valves a = true /\ In (b_label r) (closed_pi_pipes n)).
Proof. exact row_in_spec. Qed.
Print Assumptions row_in_meaning.

(* ... and contributes exactly one: keys (table, label) are unique in the multigraph *)
Theorem one_edge_per_branch : forall a n,
  NoDup (map fst (n_tables n)) -> (forall tb, In tb (n_tables n) -> NoDup (map b_label (snd tb))) ->
  (forall t ls, f_only (flags_of (a_flags a) t) = Some ls -> NoDup ls) ->
  NoDup (map key (edges a n)).
Proof. exact keys_edges_unique. Qed.
Print Assumptions one_edge_per_branch.

(* a closed valve attached to a pipe removes that pipe's edge *)
Theorem pipe_valve_closes_pipe : forall a n p vr u v w,
  a_rs_valves a = true -> In vr (rows_of n "valve") -> b_pi vr = true -> b_act vr = false -> b_to vr = p ->
  ~ In (mkE u v "pipe" p w) (edges a n).
Proof. exact pipe_valve_closes. Qed.
Print Assumptions pipe_valve_closes_pipe.

(* witness net: ext grid at 0, pipes 3:(0,1) 7:(1,2); a loop 3-4-5 closed by a circulation pump (flow junction 3);
   [witness] additionally has an open pi valve at junction 1 on pipe 3 *)
Definition jn (l : Z) := mkJ l true.
Definition wtables (valves : list brow) : list btable :=
  [ ("pipe", [mkB 3 0 1 true 32 false; mkB 7 1 2 true 16 false; mkB 4 3 4 true 32 false; mkB 5 4 5 true 32 false]);
    ("valve", valves); ("circ_pump_pressure", [mkB 0 5 3 true 0 false]) ].
Definition witness : net := mkNet (map jn [0; 1; 2; 3; 4; 5]) (wtables [mkB 0 1 3 true 0 true]) [(0, true, true)] [0; 3].
Definition witness_nv : net := mkNet (map jn [0; 1; 2; 3; 4; 5]) (wtables []) [(0, true, true)] [0; 3].
Definition dflt : args := mkArgs [] true true [] [] true.

(* FULL STRENGTH since 515c489: a valve attached to a pipe adds no edge of its own - every edge comes from a row that
   is not a pipe-attached valve ... *)
Theorem pipe_valve_adds_no_edge : forall a n u v t l w, In (mkE u v t l w) (edges a n) ->
  exists rows r, In (t, rows) (n_tables n) /\ In r rows /\ b_label r = l /\ b_pi r = false /\ u = b_from r /\ v = b_to r.
Proof. exact edge_row_not_pi. Qed.
Print Assumptions pipe_valve_adds_no_edge.

(* ... so with intact junction references of those rows every edge joins two junctions (pi valves may be present) *)
Theorem edges_join_junctions : forall a n,
  (forall tb r, In tb (n_tables n) -> In r (snd tb) -> b_pi r = false ->
     In (b_from r) (map j_label (n_junctions n)) /\ In (b_to r) (map j_label (n_junctions n))) ->
  forall e, In e (edges a n) ->
    In (e_u e) (map j_label (n_junctions n)) /\ In (e_v e) (map j_label (n_junctions n)).
Proof. exact Proofs.edges_join_junctions. Qed.
Print Assumptions edges_join_junctions.

(* components: a closure that is stable is exactly the set reachable over the edges *)
Theorem graph_components_are_reachability_classes : forall es k S0 v,
  stable es (iter es k S0) = true -> (In v (iter es k S0) <-> Reach es S0 v).
Proof. exact closure_is_reachability. Qed.
Print Assumptions graph_components_are_reachability_classes.

(* the graph agrees with the SOLVER: when every graph edge is an in-service, undirected, non flow-return-connect branch
   of the pit between the same junctions (pos = junction -> pit position, injective), a junction is reachable in the
   graph from the supplied junctions iff the solver's connectivity search (C04.Model.search_hyd, proved there to be
   C04's HReach) marks its node *)
Theorem graph_components_eq_islands : forall es ns seeds pos n nact slack,
  (forall x y, In x ns -> In y ns -> pos x = pos y -> x = y) -> (forall x, In x ns -> (pos x < n)%nat) ->
  (forall e, In e es -> In (e_u e) ns /\ In (e_v e) ns) -> (forall s, In s seeds -> In s ns) ->
  (forall x, In x ns -> PP.C04.Model.nthb nact (pos x) = true) ->
  (forall i, PP.C04.Model.nthb slack i = true <-> exists s, In s seeds /\ pos s = i) ->
  forall v, In v ns ->
    (Reach es seeds v <->
     PP.C04.Model.nthb (fst (PP.C04.Model.search_hyd n (bs es pos) (map PP.C04.Model.b_active (bs es pos)) nact slack)) (pos v) = true).
Proof.
  intros es ns seeds pos n nact slack H1 H2 H3 H4 H5 H6 v Hv.
  rewrite (components_eq_islands es ns seeds pos n nact slack H1 H2 H3 H4 H5 H6 v Hv).
  rewrite PP.C04.ProofsConn.search_hyd_eq. simpl fst. symmetry. apply PP.C04.ProofsConn.hnc_iff_hreach.
  intros b Hb. unfold bs in Hb. apply in_map_iff in Hb. destruct Hb as [e [<- He]]. destruct (H3 e He). simpl. auto.
Qed.
Print Assumptions graph_components_eq_islands.

(* the same over C04's table-level pit model: for junction labels js and branch tables whose rows are all in service,
   undirected and no flow-return connection, the solver's own pit C04.mk_branches js tabs (positions from its index
   lookup) has the assumed shape - no hypothesis about the pit is left, only about the tables: unique junction labels,
   intact references, the three flags, seeds among the junctions, node flags of the solver (all active, slack = seeds) *)
Theorem graph_components_eq_islands_pit : forall js tabs seeds nact slack,
  NoDup js ->
  (forall r, In r (concat tabs) ->
     PP.C04.Model.r_active r = true /\ PP.C04.Model.r_directed r = false /\ PP.C04.Model.r_frc r = false) ->
  (forall r, In r (concat tabs) -> In (PP.C04.Model.r_from r) js /\ In (PP.C04.Model.r_to r) js) ->
  (forall s, In s seeds -> In s js) ->
  (forall x, In x js -> PP.C04.Model.nthb nact (pit_pos js x) = true) ->
  (forall i, PP.C04.Model.nthb slack i = true <-> exists s, In s seeds /\ pit_pos js s = i) ->
  forall v, In v js ->
    (Reach (pit_edges tabs) seeds v <->
     PP.C04.Model.nthb (fst (PP.C04.Model.search_hyd (length js) (PP.C04.Model.mk_branches js tabs)
                               (map PP.C04.Model.b_active (PP.C04.Model.mk_branches js tabs)) nact slack)) (pit_pos js v) = true).
Proof. exact components_eq_islands_pit. Qed.
Print Assumptions graph_components_eq_islands_pit.

(* instance: junctions 10, 4, 7 (pit positions 0, 1, 2), one pipe 10-4, supply at 10: the solver marks 10 and 4, not 7,
   and the graph closure from [10] over the same table is [10; 4] *)
Example islands_instance :
  let js := [10; 4; 7] in
  let tabs := [[PP.C04.Model.Build_brow 1 10 4 true false false]] in
  let mark := fst (PP.C04.Model.search_hyd 3 (PP.C04.Model.mk_branches js tabs)
                     (map PP.C04.Model.b_active (PP.C04.Model.mk_branches js tabs)) [true; true; true] [true; false; false]) in
  map (fun v => PP.C04.Model.nthb mark (pit_pos js v)) js = [true; true; false] /\
  iter (pit_edges tabs) 3 [10] = [10; 4] /\ stable (pit_edges tabs) [10; 4] = true.
Proof. vm_compute. auto. Qed.

(* unsupplied_junctions = nodes not reachable from a junction of the slack set *)
Theorem unsupplied_is_unreachable_from_ext_grids : forall a n x,
  stable (edges a n) (reach a n (slacks_code n)) = true ->
  (In x (unsupplied a n) <->
   In x (nodes a n) /\ ~ Reach (edges a n) (dedupe (filter (fun y => memz y (nodes a n)) (slacks_code n))) x).
Proof. intros a n x. apply unsupplied_with_spec. Qed.
Print Assumptions unsupplied_is_unreachable_from_ext_grids.

(* unsupplied = not connected to a pressure-fixing element, whenever the code's slack set (in-service p / pt ext
   grids + flow junctions of in-service circulation pumps, since 515c489) is the set of pressure-fixing elements; the
   correspondence checks that equality for every generated net inside Coq ([sources_ok]) *)
Theorem unsupplied_eq_spec : forall a n, slacks_code n = n_sources n -> unsupplied a n = unsupplied_spec a n.
Proof. exact Proofs.unsupplied_eq_spec. Qed.
Print Assumptions unsupplied_eq_spec.

(* the witness with the pi valve and the circulation-pump loop: the valve adds no edge, the loop is supplied, the
   ext-grid part and the loop are separate components *)
Example witness_supplied :
  slacks_code witness = n_sources witness /\ unsupplied dflt witness = [] /\
  length (edges dflt witness) = 5%nat /\ ~ In 3 (reach dflt witness [0]) /\
  stable (edges dflt witness) (reach dflt witness (slacks_code witness)) = true.
Proof.
  vm_compute. repeat split; auto. intros H. repeat (destruct H as [H | H]; [discriminate H|]). exact H.
Qed.

(* distances: every value of a stable relaxation is the length of a walk from a source, and no walk is shorter *)
Theorem distance_is_shortest_path : forall a n srcs,
  dstable (arcs a n) srcs (dist_map a n srcs) = true ->
  (forall v x, get (dist_map a n srcs) v = Some x -> Walk (arcs a n) srcs v x) /\
  (forall v y, Walk (arcs a n) srcs v y -> exists x, get (dist_map a n srcs) v = Some x /\ x <= y).
Proof.
  intros a n srcs Hs. split.
  - unfold dist_map. apply rounds_attained. apply init_attained.
  - now apply dstable_minimal.
Qed.
Print Assumptions distance_is_shortest_path.

(* non-vacuity: the witness satisfies the uniqueness hypotheses, its closures and relaxation are stable,
   and the distance from junction 0 to junction 2 is 32 + 16 *)
Example witness_facts :
  NoDup (map fst (n_tables witness_nv)) /\
  stable (edges dflt witness_nv) (reach dflt witness_nv [0]) = true /\
  dstable (arcs dflt witness_nv) [0] (dist_map dflt witness_nv [0]) = true /\
  get (dist_map dflt witness_nv [0]) 2 = Some 48 /\
  length (edges dflt witness_nv) = 5%nat /\
  map e_lab (edges (mkArgs [("pipe", mkF true true (Some [5; 3]))] true true [] [] true) witness) = [5; 3; 0].
Proof.
  split; [repeat constructor; simpl; intuition discriminate|]. vm_compute. auto.
Qed.
