(* C03 - prescribed pressures, flows, lifts and ratios: property theorems only.
   Statements over an arbitrary commutative ring; model PP.C01.Model (shared with C01), tied to
   /repo by the exact correspondences of tools/props/c03.py evaluated inside Coq. *)
From Coq Require Import ZArith QArith List Bool Arith Ring Lia.
From PP Require Import C01.Model C01.Proofs C01.Corr C03.Proofs.
Import ListNotations.
Close Scope Q_scope.
Open Scope nat_scope.

(* 1a. any solution of the assembled system leaves the pressure of every slack node (ext grid,
       circulation-pump flow junction) unchanged: p' = p - alpha * 0 = p_init, in every iteration *)
Theorem fixed_pressure_slack :
  forall (A : Type) (zero one : A) (add mul sub : A -> A -> A) (opp : A -> A),
  ring_theory zero one add mul sub opp eq ->
  forall (ns : list (@node A)) (bs : list (@branch A)) (x : nat -> A) (s : nat) (nd : @node A),
  solves zero one add mul sub opp ns bs x ->
  nth_error ns s = Some nd -> is_TSlack (n_typ nd) = true -> x s = zero.
Proof. exact @fixed_slack_lemma. Qed.
Print Assumptions fixed_pressure_slack.

(* 1b. ... and of every pressure-controlled node (rows of PC branches zeroed by the component hook,
       as many PC branches as PC nodes - numpy raises otherwise) *)
Theorem fixed_pressure_controlled :
  forall (A : Type) (zero one : A) (add mul sub : A -> A -> A) (opp : A -> A),
  ring_theory zero one add mul sub opp eq ->
  forall (ns : list (@node A)) (bs : list (@branch A)) (x : nat -> A) (c : nat),
  solves zero one add mul sub opp ns bs x -> ends_in_range ns bs ->
  length (pc_branches bs) = length (pc_nodes ns) ->
  (forall k b, nth_error bs k = Some b -> b_pc b = true -> b_dm b = zero /\ b_dp b = zero /\ b_dp1 b = zero) ->
  In c (pc_nodes ns) -> x c = zero.
Proof. exact @fixed_pc_lemma. Qed.
Print Assumptions fixed_pressure_controlled.

(* 3. identity rows keep the prescribed flow: x_b = 0, so m_b stays the set value forever *)
Theorem identity_rows_keep_flow :
  forall (A : Type) (zero one : A) (add mul sub : A -> A -> A) (opp : A -> A),
  ring_theory zero one add mul sub opp eq ->
  forall (ns : list (@node A)) (bs : list (@branch A)) (x : nat -> A) (k : nat) (b : @branch A),
  solves zero one add mul sub opp ns bs x -> ends_in_range ns bs -> nth_error bs k = Some b ->
  b_pc b = false -> b_dm b = one -> b_dp b = zero -> b_dp1 b = zero -> b_lvb b = zero ->
  x (length ns + k) = zero.
Proof. exact @identity_row_lemma. Qed.
Print Assumptions identity_rows_keep_flow.

(* the momentum row of every other branch is exactly  dm x_b + dp x_from + dp1 x_to = load_vec *)
Theorem momentum_row :
  forall (A : Type) (zero one : A) (add mul sub : A -> A -> A) (opp : A -> A),
  ring_theory zero one add mul sub opp eq ->
  forall (ns : list (@node A)) (bs : list (@branch A)) (x : nat -> A) (k : nat) (b : @branch A),
  solves zero one add mul sub opp ns bs x -> ends_in_range ns bs -> nth_error bs k = Some b -> b_pc b = false ->
  add (add (mul (b_dm b) (x (length ns + k))) (mul (b_dp b) (x (b_fn b)))) (mul (b_dp1 b) (x (b_tn b))) = b_lvb b.
Proof. exact @momentum_row_lemma. Qed.
Print Assumptions momentum_row.

(* 2. p_init is the mean (local law of set_fixed_node_entries; one call, and two calls in a row) *)
Theorem p_init_is_mean_one_call :
  forall (A : Type) (zero one : A) (add mul sub : A -> A -> A) (opp : A -> A),
  ring_theory zero one add mul sub opp eq ->
  forall (div : A -> A -> A) (p s k v : A),
  (forall a b, b = add k zero -> mul (div a b) b = a) ->
  v = div (add (mul p zero) s) (add k zero) -> mul v k = s.
Proof. exact @mean_first_lemma. Qed.
Print Assumptions p_init_is_mean_one_call.

Theorem p_init_is_mean_two_calls :
  forall (A : Type) (zero one : A) (add mul sub : A -> A -> A) (opp : A -> A),
  ring_theory zero one add mul sub opp eq ->
  forall (div : A -> A -> A) (p s1 k1 v1 s2 k2 v2 : A),
  (forall a b, b = add k1 zero -> mul (div a b) b = a) ->
  (forall a b, b = add k2 (add zero k1) -> mul (div a b) b = a) ->
  v1 = div (add (mul p zero) s1) (add k1 zero) ->
  v2 = div (add (mul v1 (add zero k1)) s2) (add k2 (add zero k1)) ->
  mul v2 (add k1 k2) = add s1 s2.
Proof. exact @mean_two_calls_lemma. Qed.
Print Assumptions p_init_is_mean_two_calls.

(* 2'. p_init_is_mean, grouped form over labels: after set_fixed_node_entries (mode p) on ANY table of pressure-fixing
       rows (any labels, row order, several rows per junction, rows of type t filtered out) the pressure of node i times
       the new count is the old pressure times the old count plus the sum S of the valid values on node i, and the count
       grows by their number N - hence by induction over the calls (ext grids, then circulation pumps) PINIT is the mean
       of all valid values on the junction.  [pos] injective on the labels used (the junction lookup is a bijection);
       [div] inverts the multiplication by the new count wherever a row was written. *)
Theorem p_init_is_mean_grouped :
  forall (A : Type) (zero one : A) (add mul sub : A -> A -> A) (opp : A -> A),
  ring_theory zero one add mul sub opp eq ->
  forall (div : A -> A -> A) (pos : Z -> nat) (rows : list (@fx_row A)) (st : @fx_state A) (i : nat),
  let S := fsum zero add (fun l => Nat.eqb (pos l) i) (fx_values rows) in
  let N := fsum zero add (fun l => Nat.eqb (pos l) i) (fx_ones one rows) in
  let st' := fixed_entries2 zero one add mul div pos rows st in
  (forall r r', In r rows -> In r' rows -> fx_valid r = true -> fx_valid r' = true ->
                pos (fx_junction r) = pos (fx_junction r') -> fx_junction r = fx_junction r') ->
  i < length (fs_p st) -> i < length (fs_cnt st) ->
  ((exists r, In r rows /\ fx_valid r = true /\ pos (fx_junction r) = i) ->
   forall a, mul (div a (add N (nth i (fs_cnt st) zero))) (add N (nth i (fs_cnt st) zero)) = a) ->
  mul (nth i (fs_p st') zero) (add N (nth i (fs_cnt st) zero)) = add (mul (nth i (fs_p st) zero) (nth i (fs_cnt st) zero)) S
  /\ nth i (fs_cnt st') zero = add (nth i (fs_cnt st) zero) N.
Proof. exact @fixed_entries_grouped_lemma. Qed.
Print Assumptions p_init_is_mean_grouped.

(* 4. circulation pump (pressure): Newton correction of the return pressure; at a fixed point the
      kernel's load_vec = 0, i.e. (lift_fixed_point) p_flow - p_return = plift + height term - friction *)
Theorem circ_pressure_row :
  forall (A : Type) (zero one : A) (add mul sub : A -> A -> A) (opp : A -> A),
  ring_theory zero one add mul sub opp eq ->
  forall (ns : list (@node A)) (bs : list (@branch A)) (x : nat -> A) (k : nat) (b : @branch A) (nd : @node A),
  solves zero one add mul sub opp ns bs x -> ends_in_range ns bs -> nth_error bs k = Some b ->
  b_pc b = false -> b_dp b = one -> b_dp1 b = opp one ->
  nth_error ns (b_tn b) = Some nd -> is_TSlack (n_typ nd) = true ->
  x (b_fn b) = sub (b_lvb b) (mul (b_dm b) (x (length ns + k))).
Proof. exact @circ_pressure_row_lemma. Qed.
Print Assumptions circ_pressure_row.

Theorem lift_fixed_point :
  forall (A : Type) (zero one : A) (add mul sub : A -> A -> A) (opp : A -> A),
  ring_theory zero one add mul sub opp eq ->
  forall pf pt pl h fr : A,
  sub (add (add (sub pf pt) pl) h) fr = zero -> sub pt pf = sub (add pl h) fr.
Proof. exact @lift_fixed_point_lemma. Qed.
Print Assumptions lift_fixed_point.

(* 5. compressor: absolute pressure ratio for forward flow, loss-free bypass for reverse flow *)
Theorem compressor_ratio :
  forall (A : Type) (zero one : A) (add mul sub : A -> A -> A) (opp : A -> A),
  ring_theory zero one add mul sub opp eq ->
  forall pf pt ratio : A,
  sub (add (add (sub pf pt) (sub (mul pf ratio) pf)) zero) zero = zero -> pt = mul ratio pf.
Proof. exact @compressor_ratio_lemma. Qed.
Print Assumptions compressor_ratio.

Theorem compressor_reverse_flow :
  forall (A : Type) (zero one : A) (add mul sub : A -> A -> A) (opp : A -> A),
  ring_theory zero one add mul sub opp eq ->
  forall pf pt : A, sub (add (add (sub pf pt) zero) zero) zero = zero -> pt = pf.
Proof. exact @compressor_reverse_lemma. Qed.
Print Assumptions compressor_reverse_flow.

(* ---------------------------------------------------------------- non-vacuity: one slack node, one PC node with
   its PC branch (row zeroed), one identity row (flow control); x solves the assembled system at Z *)
Definition ex3_nodes : list (@node Z) := [nd TSlack 1 4 (-1); nd TOther 2 0 0; nd TPc 0 0 0; nd TOther 3 0 0].
Definition ex3_branches : list (@branch Z) :=
  [br 0 1 (-2) 1 (-1) 1 (-4) 2 2 false;   (* pipe 0 -> 1 *)
   br 1 2 0 0 0 1 7 1 1 true;             (* PC branch 1 -> 2, controls node 2 (row zeroed by the hook) *)
   br 2 3 1 0 0 1 0 5 5 false;            (* flow control 2 -> 3: identity row *)
   br 3 0 (-2) 1 (-1) 1 (-2) 3 3 false].  (* pipe 3 -> 0 *)
Definition ex3_x (i : nat) : Z := nth i [0; 14; 0; 0; -5; -4; 0; 1; 10]%Z 0%Z.

Example example3_guards :
  ends_in_range ex3_nodes ex3_branches /\ length (pc_branches ex3_branches) = length (pc_nodes ex3_nodes) /\
  pc_nodes ex3_nodes = [2] /\ pc_branches ex3_branches = [1].
Proof.
  split; [|repeat split; reflexivity].
  intros b H. simpl in H. repeat (destruct H as [<-|H]; [simpl; split; repeat constructor|]). destruct H.
Qed.

Example example3_solves : solves 0%Z 1%Z Z.add Z.mul Z.sub Z.opp ex3_nodes ex3_branches ex3_x.
Proof.
  intros r Hr. change (dim ex3_nodes ex3_branches) with 9 in Hr.
  do 9 (destruct r as [|r]; [vm_compute; reflexivity|]). lia.
Qed.

(* grouped mean on a concrete table at Q: ext grids 6 / 9 bar (+ one of type t) on junction 100005, 3 bar on junction 7 *)
Example example_mean_grouped :
  let st := fixed_entries2 0%Q 1%Q Qplus Qmult Qdiv (zassoc [(100005%Z, 2); (7%Z, 0)] 9)
              [fx 100005 6 true; fx 7 3 true; fx 100005 50 false; fx 100005 9 true]
              (mkFxs [5; 5; 5]%Q [0; 0; 0]%Q [false; false; false]) in
  qlist_eqb (fs_p st) [3; 5; 15 # 2]%Q = true /\ qlist_eqb (fs_cnt st) [1; 0; 2]%Q = true /\ fs_isP st = [true; false; true].
Proof. vm_compute. repeat split; reflexivity. Qed.
