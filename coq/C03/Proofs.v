(* C03 - lemmas specific to prescribed values (generic commutative ring).  The matrix-row lemmas
   (fixed pressure rows, identity rows, momentum rows) live in PP.C01.Proofs (shared model). *)
From Coq Require Import ZArith List Bool Arith Lia Ring.
From PP Require Import C01.Model C01.Proofs.
Import ListNotations.

Section C03.
  Context {A : Type} (zero one : A) (add mul sub : A -> A -> A) (opp : A -> A)
          (Rth : ring_theory zero one add mul sub opp eq).
  Add Ring Aring3 : Rth.
  Infix "+" := add. Infix "*" := mul. Infix "-" := sub.

  (* set_fixed_node_entries writes v = (p_old * cnt + s) / (k + cnt); whenever the division is the
     inverse of the multiplication at (k + cnt), v is the mean of everything applied so far *)
  Lemma mean_law_lemma (div : A -> A -> A) (p s c k v : A) :
    (forall a b, b = k + c -> mul (div a b) b = a) ->
    v = div (p * c + s) (k + c) -> v * (k + c) = p * c + s.
  Proof. intros Hd ->. apply Hd. reflexivity. Qed.

  (* first call on a junction (count 0): v * k = s, i.e. v is the mean of the k values *)
  Lemma mean_first_lemma (div : A -> A -> A) (p s k v : A) :
    (forall a b, b = k + zero -> mul (div a b) b = a) ->
    v = div (p * zero + s) (k + zero) -> v * k = s.
  Proof.
    intros Hd Hv. pose proof (mean_law_lemma div p s zero k v Hd Hv) as H.
    transitivity (v * (k + zero)); [ring|]. rewrite H. ring.
  Qed.

  (* two calls in a row (ext grids, then circulation pumps on the same junction): still the mean *)
  Lemma mean_two_calls_lemma (div : A -> A -> A) (p s1 k1 v1 s2 k2 v2 : A) :
    (forall a b, b = k1 + zero -> mul (div a b) b = a) ->
    (forall a b, b = k2 + (zero + k1) -> mul (div a b) b = a) ->
    v1 = div (p * zero + s1) (k1 + zero) ->
    v2 = div (v1 * (zero + k1) + s2) (k2 + (zero + k1)) ->
    v2 * (k1 + k2) = s1 + s2.
  Proof.
    intros H1 H2 E1 E2.
    pose proof (mean_first_lemma div p s1 k1 v1 H1 E1) as F1.
    pose proof (mean_law_lemma div v1 s2 (zero + k1) k2 v2 H2 E2) as F2.
    transitivity (v2 * (k2 + (zero + k1))); [ring|]. rewrite F2.
    transitivity (v1 * k1 + s2); [ring|]. rewrite F1. ring.
  Qed.

  (* the line  load_vec = p_diff + PL + const_height - friction  of both hydraulic kernels at a
     fixed point (load_vec = 0): the branch lifts by PL (+ geodetic term - friction loss) *)
  Lemma lift_fixed_point_lemma (pf pt pl h fr : A) :
    (pf - pt) + pl + h - fr = zero -> pt - pf = pl + h - fr.
  Proof. intros H. transitivity (pl + h - fr - ((pf - pt) + pl + h - fr)); [ring|]. rewrite H. ring. Qed.

  (* Compressor.adaption_before_derivatives_hydraulic: PL = p_from * ratio - p_from (forward flow);
     LC = 0, L = 0 => friction 0; equal heights => h = 0 *)
  Lemma compressor_ratio_lemma (pf pt ratio : A) :
    (pf - pt) + (pf * ratio - pf) + zero - zero = zero -> pt = ratio * pf.
  Proof.
    intros H. transitivity (pf * ratio - ((pf - pt) + (pf * ratio - pf) + zero - zero)); [ring|]. rewrite H. ring.
  Qed.

  (* reverse flow: PL = 0, the compressor is a loss-free bypass *)
  Lemma compressor_reverse_lemma (pf pt : A) :
    (pf - pt) + zero + zero - zero = zero -> pt = pf.
  Proof. intros H. transitivity (pf - ((pf - pt) + zero + zero - zero)); [ring|]. rewrite H. ring. Qed.

  (* CirculationPumpPressure: JAC_DERIV_DP = 1, JAC_DERIV_DP1 = -1, flow node is a slack node
     (x_to = 0): the Newton correction of the return pressure is load_vec - dm * x_b *)
  Lemma circ_pressure_row_lemma (ns : list (@node A)) (bs : list (@branch A)) x k b nd :
    solves zero one add mul sub opp ns bs x -> ends_in_range ns bs -> nth_error bs k = Some b ->
    b_pc b = false -> b_dp b = one -> b_dp1 b = opp one ->
    nth_error ns (b_tn b) = Some nd -> is_TSlack (n_typ nd) = true ->
    x (b_fn b) = b_lvb b - b_dm b * x (length ns + k)%nat.
  Proof.
    intros Hs Hr Hb Hp H1 H2 Hn Ht.
    pose proof (momentum_row_lemma zero one add mul sub opp Rth ns bs x k b Hs Hr Hb Hp) as M.
    pose proof (fixed_slack_lemma zero one add mul sub opp Rth ns bs x (b_tn b) nd Hs Hn Ht) as Z.
    rewrite H1, H2, Z in M. rewrite <- M. ring.
  Qed.
End C03.
