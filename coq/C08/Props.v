(* C08 - property theorems only. *)
From Coq Require Import Reals List String Bool Lra Lia Arith.
From PP Require Import C08.Unique Gen.StartValueUses C08.KernelMono.
Import ListNotations.
Open Scope R_scope.

(* Two exact solutions of the same network (same fixed pressures, loads, strictly increasing branch
   laws) carry the same mass flows, whatever iterate they were reached from ... *)
Theorem hydraulic_flows_unique :
  forall n slack pfix load bs p p' ms ms',
    in_range n bs -> Forall (fun b => strictly_increasing (phi b)) bs ->
    solves n slack pfix load bs p ms -> solves n slack pfix load bs p' ms' -> ms = ms'.
Proof. exact flows_unique. Qed.
Print Assumptions hydraulic_flows_unique.

(* ... and the same pressure at every junction reachable from a pressure-fixing one. *)
Theorem hydraulic_pressures_unique :
  forall n slack pfix load bs p p' ms ms',
    in_range n bs -> Forall (fun b => strictly_increasing (phi b)) bs ->
    solves n slack pfix load bs p ms -> solves n slack pfix load bs p' ms' ->
    forall i, Reach n slack bs i -> p i = p' i.
Proof. exact pressures_unique. Qed.
Print Assumptions hydraulic_pressures_unique.

(* Generated from the source on every run: the start-value columns are read in exactly one place
   and stored into the slots of the unknowns (PINIT / TINIT), nowhere else. *)
Definition use_ok (u : string * string * string * string) : bool :=
  let '(file, fn, name, target) := u in
  (String.eqb file "component_models/junction_component.py") &&
  ((String.eqb fn "get_component_input" && String.eqb target "schema") ||
   (String.eqb fn "create_pit_node_entries" &&
    ((String.eqb name "pn_bar" && String.eqb target "PINIT") ||
     (String.eqb name "tfluid_k" && String.eqb target "TINIT")))).

Theorem start_values_only_seed_unknowns :
  forallb use_ok start_value_uses = true /\
  existsb (fun u => String.eqb (snd u) "PINIT") start_value_uses = true /\
  existsb (fun u => String.eqb (snd u) "TINIT") start_value_uses = true.
Proof. vm_compute. repeat split; reflexivity. Qed.
Print Assumptions start_values_only_seed_unknowns.

(* T-tie: the branch law the code really assembles (generated incompressible kernel + Nikuradse friction
   factor of calc_lambda, numpy and numba twins) is strictly increasing in the mass flow, so the
   uniqueness theorems apply to it.  Needs a resistance (L + zeta > 0): a zero-length branch without
   loss coefficient has phi = 0 and leaves the split between parallel branches undetermined. *)
Theorem incomp_nikuradse_law_strictly_monotone :
  forall A D eta k L zeta PL dl dh p_to p_from rho,
    0 < A -> 0 < D -> 0 < eta -> 0 < rho -> 0 < k -> k <> 371 / 100 * D -> 0 <= L -> 0 <= zeta -> 0 < L + zeta ->
    strictly_increasing (incomp_phi_np A D eta k L zeta PL dl dh p_to p_from rho).
Proof. exact KernelMono.incomp_nikuradse_law_strictly_monotone. Qed.
Print Assumptions incomp_nikuradse_law_strictly_monotone.

Theorem incomp_nikuradse_law_strictly_monotone_numba :
  forall A D eta k L zeta PL dl dh p_to p_from rho,
    0 < A -> 0 < D -> 0 < eta -> 0 < rho -> 0 < k -> k <> 371 / 100 * D -> 0 <= L -> 0 <= zeta -> 0 < L + zeta ->
    strictly_increasing (incomp_phi_nb A D eta k L zeta PL dl dh p_to p_from rho).
Proof. exact KernelMono.incomp_nikuradse_law_strictly_monotone_numba. Qed.
Print Assumptions incomp_nikuradse_law_strictly_monotone_numba.

(* non-vacuity: a meshed two-loop network with parallel branches and a linear law has a solution *)
Definition lin (k : R) : R -> R := fun m => k * m.
Example lin_incr k : 0 < k -> strictly_increasing (lin k).
Proof. intros Hk x y Hxy. unfold lin. nra. Qed.
Definition ex_bs : list branch :=
  [ {| fn := 0; tn := 1; phi := lin 1; cst := 0 |};
    {| fn := 0; tn := 1; phi := lin 1; cst := 0 |};     (* parallel *)
    {| fn := 1; tn := 2; phi := lin 2; cst := 0 |} ].
Example uniqueness_hypotheses_satisfiable :
  in_range 3 ex_bs /\ Forall (fun b => strictly_increasing (phi b)) ex_bs /\
  solves 3 (fun i => Nat.eqb i 0) (fun _ => 5) (fun i => if Nat.eqb i 2 then 2 else 0) ex_bs
         (fun i => match i with O => 5 | S O => 4 | _ => 0 end) [1; 1; 2].
Proof.
  split; [|split].
  - repeat constructor.
  - repeat constructor; apply lin_incr; lra.
  - constructor.
    + reflexivity.
    + intros i Hi Hs. destruct i as [|[|[|]]]; simpl in *; try discriminate; try lia; reflexivity.
    + intros i Hi Hs. destruct i as [|[|[|]]]; simpl in *; try discriminate; unfold ind; simpl; lra.
    + repeat constructor; simpl; unfold lin; lra.
Qed.
