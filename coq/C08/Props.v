(* C08 - property theorems only. *)
From Coq Require Import Reals List String Bool Lra Lia Arith.
From PP Require Import Kern.RBool C08.Unique Gen.StartValueUses C08.KernelMono C08.GasLaw Gen.KHydCompNp Gen.KHydCompNb Gen.KCalcLambda.
Import ListNotations.
Open Scope R_scope.

(* Two exact solutions of the same network (same fixed pressures, loads, strictly increasing branch
   laws) carry the same mass flows, whatever iterate they were reached from ... *)
Theorem hydraulic_flows_unique :
  forall n slack pfix load bs p p' ms ms',
    in_range n bs -> Forall (fun b => strictly_increasing (phi b)) bs ->
    solves n slack pfix load bs p ms -> solves n slack pfix load bs p' ms' -> ms = ms'.
Proof. exact flows_unique. Qed.
Print Assumptions hydraulic_flows_unique.

(* ... and the same pressure at every junction reachable from a pressure-fixing one. *)
Theorem hydraulic_pressures_unique :
  forall n slack pfix load bs p p' ms ms',
    in_range n bs -> Forall (fun b => strictly_increasing (phi b)) bs ->
    solves n slack pfix load bs p ms -> solves n slack pfix load bs p' ms' ->
    forall i, Reach n slack bs i -> p i = p' i.
Proof. exact pressures_unique. Qed.
Print Assumptions hydraulic_pressures_unique.

(* Generated from the source on every run: the start-value columns are read in exactly one place
   and stored into the slots of the unknowns (PINIT / TINIT), nowhere else. *)
Definition use_ok (u : string * string * string * string) : bool :=
  let '(file, fn, name, target) := u in
  (String.eqb file "component_models/junction_component.py") &&
  ((String.eqb fn "get_component_input" && String.eqb target "schema") ||
   (String.eqb fn "create_pit_node_entries" &&
    ((String.eqb name "pn_bar" && String.eqb target "PINIT") ||
     (String.eqb name "tfluid_k" && String.eqb target "TINIT")))).

Theorem start_values_only_seed_unknowns :
  forallb use_ok start_value_uses = true /\
  existsb (fun u => String.eqb (snd u) "PINIT") start_value_uses = true /\
  existsb (fun u => String.eqb (snd u) "TINIT") start_value_uses = true.
Proof. vm_compute. repeat split; reflexivity. Qed.
Print Assumptions start_values_only_seed_unknowns.

(* T-tie: the branch law the code really assembles (generated incompressible kernel + Nikuradse friction
   factor of calc_lambda, numpy and numba twins) is strictly increasing in the mass flow, so the
   uniqueness theorems apply to it.  Needs a resistance (L + zeta > 0): a zero-length branch without
   loss coefficient has phi = 0 and leaves the split between parallel branches undetermined. *)
Theorem incomp_nikuradse_law_strictly_monotone :
  forall A D eta k L zeta PL dl dh p_to p_from rho,
    0 < A -> 0 < D -> 0 < eta -> 0 < rho -> 0 < k -> k <> 371 / 100 * D -> 0 <= L -> 0 <= zeta -> 0 < L + zeta ->
    strictly_increasing (incomp_phi_np A D eta k L zeta PL dl dh p_to p_from rho).
Proof. exact KernelMono.incomp_nikuradse_law_strictly_monotone. Qed.
Print Assumptions incomp_nikuradse_law_strictly_monotone.

Theorem incomp_nikuradse_law_strictly_monotone_numba :
  forall A D eta k L zeta PL dl dh p_to p_from rho,
    0 < A -> 0 < D -> 0 < eta -> 0 < rho -> 0 < k -> k <> 371 / 100 * D -> 0 <= L -> 0 <= zeta -> 0 < L + zeta ->
    strictly_increasing (incomp_phi_nb A D eta k L zeta PL dl dh p_to p_from rho).
Proof. exact KernelMono.incomp_nikuradse_law_strictly_monotone_numba. Qed.
Print Assumptions incomp_nikuradse_law_strictly_monotone_numba.

(* Gases (isothermal, constant compressibility K, level pipes without lift): the uniqueness theorems hold
   for branch laws written in a transform g of the pressure that is injective on the pressures that occur
   (g p = p * p on absolute pressures p > 0) ... *)
Theorem hydraulic_unique_in_transformed_pressures :
  forall n slack pfix load bs (g : R -> R) p p' ms ms' (dom : R -> Prop),
    in_range n bs -> Forall (fun b => strictly_increasing (phi b)) bs ->
    solves n slack (fun i => g (pfix i)) load bs (fun i => g (p i)) ms ->
    solves n slack (fun i => g (pfix i)) load bs (fun i => g (p' i)) ms' ->
    (forall x y, dom x -> dom y -> g x = g y -> x = y) -> (forall i, dom (p i) /\ dom (p' i)) ->
    ms = ms' /\ forall i, Reach n slack bs i -> p i = p' i.
Proof.
  intros n slack pfix load bs g p p' ms ms' dom Hr Hm S S' Hinj Hdom. split.
  - exact (transformed_flows_unique n slack pfix load bs g p p' ms ms' Hr Hm S S').
  - exact (transformed_pressures_unique n slack pfix load bs g p p' ms ms' Hr Hm S S' dom Hinj Hdom).
Qed.
Print Assumptions hydraulic_unique_in_transformed_pressures.

(* ... and the generated compressible kernel (numpy and numba) with the gas-form Nikuradse friction factor of
   calc_lambda is exactly such a law in squared absolute pressures, with a strictly increasing right-hand side. *)
Theorem gas_law_is_squared_pressure_law_strictly_monotone :
  forall A D eta k L zeta K t_from t_out rho_n,
    0 < A -> 0 < D -> 0 < eta -> 0 < rho_n -> 0 < K -> 0 < t_from + t_out ->
    2 * log10 (D / k) + 57 / 50 <> 0 -> 0 <= L -> 0 <= zeta -> 0 < L + zeta ->
    (forall dK dK1 dl rho p_to p_from m, 0 < p_from + p_to ->
       (hyd_comp_np_load_vec A D L zeta m 0 t_out K dK dK1 dl 0 (calc_lambda_comp_np_lambda_tot A D eta k m)
                             t_from p_to p_from rho rho_n = 0
        <-> p_from * p_from - p_to * p_to = gas_phi_np A D eta k L zeta K t_from t_out rho_n m) /\
       (hyd_comp_nb_load_vec A D L zeta m 0 t_out K dK dK1 dl 0 (calc_lambda_comp_nb_lambda_tot A D eta k m)
                             t_from p_to p_from rho rho_n = 0
        <-> p_from * p_from - p_to * p_to = gas_phi_nb A D eta k L zeta K t_from t_out rho_n m)) /\
    strictly_increasing (gas_phi_np A D eta k L zeta K t_from t_out rho_n) /\
    strictly_increasing (gas_phi_nb A D eta k L zeta K t_from t_out rho_n).
Proof.
  intros A D eta k L zeta K t_from t_out rho_n HA HD He Hrn HK Htm Hs HL Hz HLz. split; [|split].
  - intros dK dK1 dl rho p_to p_from m Hp. split.
    + now apply gas_residual_is_squared_law_np.
    + now apply gas_residual_is_squared_law_nb.
  - now apply gas_mono_np.
  - now apply gas_mono_nb.
Qed.
Print Assumptions gas_law_is_squared_pressure_law_strictly_monotone.

(* non-vacuity: a meshed two-loop network with parallel branches and a linear law has a solution *)
Definition lin (k : R) : R -> R := fun m => k * m.
Example lin_incr k : 0 < k -> strictly_increasing (lin k).
Proof. intros Hk x y Hxy. unfold lin. nra. Qed.
Definition ex_bs : list branch :=
  [ {| fn := 0; tn := 1; phi := lin 1; cst := 0 |};
    {| fn := 0; tn := 1; phi := lin 1; cst := 0 |};     (* parallel *)
    {| fn := 1; tn := 2; phi := lin 2; cst := 0 |} ].
Example uniqueness_hypotheses_satisfiable :
  in_range 3 ex_bs /\ Forall (fun b => strictly_increasing (phi b)) ex_bs /\
  solves 3 (fun i => Nat.eqb i 0) (fun _ => 5) (fun i => if Nat.eqb i 2 then 2 else 0) ex_bs
         (fun i => match i with O => 5 | S O => 4 | _ => 0 end) [1; 1; 2].
Proof.
  split; [|split].
  - repeat constructor.
  - repeat constructor; apply lin_incr; lra.
  - constructor.
    + reflexivity.
    + intros i Hi Hs. destruct i as [|[|[|]]]; simpl in *; try discriminate; try lia; reflexivity.
    + intros i Hi Hs. destruct i as [|[|[|]]]; simpl in *; try discriminate; unfold ind; simpl; lra.
    + repeat constructor; simpl; unfold lin; lra.
Qed.
