(* C08 - damping strategy clause: property theorem over the Newton-driver model of C05 (coq/C05/Model.v, tied to
   pandapipes.pipeflow.newton_raphson / finalize_iteration by C05's exact scripted-iteration correspondence). *)
From Coq Require Import QArith Bool List.
From PP Require Import C05.Model C05.Proofs.

(* Both damping strategies accept an iteration only through the same tolerance test on the same observation (errors
   of all unknowns and the residual); the automatic strategy additionally only when the step was undamped
   (alpha == 1).  So "constant" and "automatic" accept the same states: whatever path the damping takes, a returned
   solution passed the identical convergence test - together with uniqueness (Props.v) the converged solution does
   not depend on the strategy. *)
Theorem damping_strategies_accept_the_same_iterations : forall cfgA cfgC o stA stC,
  c_meth cfgA = Automatic -> c_meth cfgC <> Automatic ->
  c_tols cfgA = c_tols cfgC -> c_tol_res cfgA = c_tol_res cfgC ->
  (s_conv (step cfgA o stA) = true ->
     s_conv (step cfgC o stC) = true /\ (s_alpha (step cfgA o stA) == 1)%Q) /\
  (s_conv (step cfgC o stC) = true -> (s_alpha (step cfgA o stA) == 1)%Q ->
     s_conv (step cfgA o stA) = true).
Proof. exact damping_same_fixed_points_lemma. Qed.
Print Assumptions damping_strategies_accept_the_same_iterations.
