(* C08 - extension to gases (isothermal, constant compressibility, no lift, level pipe):
   (1) uniqueness carries over to branch laws written in a strictly monotone transform g of the
       pressure (g p = p^2 for absolute pressures p > 0): apply C08.Unique to q := g o p;
   (2) T-tie: the generated compressible kernel with the Nikuradse friction factor of calc_lambda
       (gas form) has a zero residual iff  p_from^2 - p_to^2 = gas_phi m, and gas_phi is strictly
       increasing in m. *)
From Coq Require Import Reals List Lra Lia Arith Bool.
From PP Require Import Kern.RBool Gen.KHydCompNp Gen.KHydCompNb Gen.KCalcLambda C08.Unique C08.KernelMono.
Import ListNotations.
Open Scope R_scope.

(* ---------- (1) uniqueness in transformed pressures ---------- *)
Section Transformed.
  Variables (n : nat) (slack : nat -> bool) (pfix load : nat -> R) (bs : list branch).
  Variable g : R -> R.
  Variables (p p' : nat -> R) (ms ms' : list R).
  Hypothesis Hrange : in_range n bs.
  Hypothesis Hmono : Forall (fun b => strictly_increasing (phi b)) bs.
  (* both runs solve node balance + the law  g (p fn) - g (p tn) + cst = phi m  with the same fixed pressures *)
  Hypothesis S : solves n slack (fun i => g (pfix i)) load bs (fun i => g (p i)) ms.
  Hypothesis S' : solves n slack (fun i => g (pfix i)) load bs (fun i => g (p' i)) ms'.
  (* g is injective on the pressures that occur (absolute pressures are positive, g p = p^2) *)
  Variable dom : R -> Prop.
  Hypothesis Hinj : forall x y, dom x -> dom y -> g x = g y -> x = y.
  Hypothesis Hdom : forall i, dom (p i) /\ dom (p' i).

  Lemma transformed_flows_unique : ms = ms'.
  Proof. exact (flows_unique n slack _ load bs _ _ ms ms' Hrange Hmono S S'). Qed.

  Lemma transformed_pressures_unique : forall i, Reach n slack bs i -> p i = p' i.
  Proof.
    intros i Hr. apply Hinj; try apply Hdom.
    exact (pressures_unique n slack _ load bs _ _ ms ms' Hrange Hmono S S' i Hr).
  Qed.
End Transformed.

Lemma square_injective_on_positive x y : 0 < x -> 0 < y -> x * x = y * y -> x = y.
Proof. intros Hx Hy H. nra. Qed.

(* ---------- (2) the generated gas branch law ---------- *)
(* friction part of the compressible residual as a function of m (numpy / numba kernels), for constant
   compressibility K, mean temperature tm = (t_from + t_out) / 2, normal density rho_n *)
Definition gas_phi_np (A D eta k L zeta K t_from t_out rho_n : R) (m : R) : R :=
  (4053 / 4000) / (27315000 * rho_n * A ^ 2) * K * (m * Rabs m)
  * (calc_lambda_comp_np_lambda_tot A D eta k m * L / D + zeta) * ((t_from + t_out) / 2).
Definition gas_phi_nb (A D eta k L zeta K t_from t_out rho_n : R) (m : R) : R :=
  (4053 / 4000) / (27315000 * rho_n * A ^ 2) * K * (m * Rabs m)
  * (calc_lambda_comp_nb_lambda_tot A D eta k m * L / D + zeta) * ((t_from + t_out) / 2).

(* zero residual of the generated kernel (no lift, level pipe) <=> law in squared pressures *)
Lemma gas_residual_is_squared_law_np :
  forall A D eta k L zeta K dK dK1 dl t_from t_out rho rho_n p_to p_from m,
    0 < p_from + p_to -> 0 < A -> 0 < D -> 0 < rho_n ->
    (hyd_comp_np_load_vec A D L zeta m 0 t_out K dK dK1 dl 0 (calc_lambda_comp_np_lambda_tot A D eta k m)
                          t_from p_to p_from rho rho_n = 0
     <-> p_from * p_from - p_to * p_to = gas_phi_np A D eta k L zeta K t_from t_out rho_n m).
Proof.
  intros A D eta k L zeta K dK dK1 dl t_from t_out rho rho_n p_to p_from m Hs HA HD Hrn.
  set (lam := calc_lambda_comp_np_lambda_tot A D eta k m).
  assert (Hlv : hyd_comp_np_load_vec A D L zeta m 0 t_out K dK dK1 dl 0 lam t_from p_to p_from rho rho_n
                * (p_from + p_to)
                = p_from * p_from - p_to * p_to - gas_phi_np A D eta k L zeta K t_from t_out rho_n m).
  { unfold hyd_comp_np_load_vec, gas_phi_np. cbv zeta. fold lam. field. repeat split; lra. }
  split; intros H.
  - rewrite H in Hlv. lra.
  - assert (Hz : hyd_comp_np_load_vec A D L zeta m 0 t_out K dK dK1 dl 0 lam t_from p_to p_from rho rho_n
                 * (p_from + p_to) = 0) by lra.
    apply Rmult_integral in Hz. destruct Hz; [assumption | lra].
Qed.

Lemma gas_residual_is_squared_law_nb :
  forall A D eta k L zeta K dK dK1 dl t_from t_out rho rho_n p_to p_from m,
    0 < p_from + p_to -> 0 < A -> 0 < D -> 0 < rho_n ->
    (hyd_comp_nb_load_vec A D L zeta m 0 t_out K dK dK1 dl 0 (calc_lambda_comp_nb_lambda_tot A D eta k m)
                          t_from p_to p_from rho rho_n = 0
     <-> p_from * p_from - p_to * p_to = gas_phi_nb A D eta k L zeta K t_from t_out rho_n m).
Proof.
  intros A D eta k L zeta K dK dK1 dl t_from t_out rho rho_n p_to p_from m Hs HA HD Hrn.
  set (lam := calc_lambda_comp_nb_lambda_tot A D eta k m).
  assert (Hlv : hyd_comp_nb_load_vec A D L zeta m 0 t_out K dK dK1 dl 0 lam t_from p_to p_from rho rho_n
                * (p_from + p_to)
                = p_from * p_from - p_to * p_to - gas_phi_nb A D eta k L zeta K t_from t_out rho_n m).
  { unfold hyd_comp_nb_load_vec, gas_phi_nb. cbv zeta. fold lam. field. repeat split; lra. }
  split; intros H.
  - rewrite H in Hlv. lra.
  - assert (Hz : hyd_comp_nb_load_vec A D L zeta m 0 t_out K dK dK1 dl 0 lam t_from p_to p_from rho rho_n
                 * (p_from + p_to) = 0) by lra.
    apply Rmult_integral in Hz. destruct Hz; [assumption | lra].
Qed.

Lemma shape_mono (c1 c2 s e : R) (f : R -> R) :
  0 < c2 -> 0 <= c1 -> 0 < s -> 0 <= e ->
  (forall m, f m = c2 * (Rabs m * m) + (if Rleb (Rabs m * s) e then 0 else c1 * m)) ->
  strictly_increasing f.
Proof.
  intros H2 H1 Hs He Hf x y Hxy. rewrite (Hf x), (Hf y).
  pose proof (msq_increasing x y Hxy) as Hq.
  pose proof (laminar_part_monotone s e c1 x y Hs He H1 Hxy) as Hl. nra.
Qed.

Lemma nikuradse_gas_pos D k : 2 * log10 (D / k) + 57 / 50 <> 0 ->
  0 < 1 / ((2 * log10 (D / k) + 57 / 50) ^ 2).
Proof.
  intros H. apply Rdiv_lt_0_compat; [lra|]. rewrite <- Rsqr_pow2. apply Rsqr_pos_lt. exact H.
Qed.

Section GasClosed.
  Variables A D eta k L zeta K t_from t_out rho_n : R.
  Hypotheses (HA : 0 < A) (HD : 0 < D) (Heta : 0 < eta) (Hrn : 0 < rho_n) (HK : 0 < K)
             (Htm : 0 < t_from + t_out) (Hsing : 2 * log10 (D / k) + 57 / 50 <> 0)
             (HL : 0 <= L) (Hz : 0 <= zeta) (HLz : 0 < L + zeta).

  Let N := (4053 / 4000) / (27315000 * rho_n * A ^ 2) * K * ((t_from + t_out) / 2).
  Let lnik := 1 / ((2 * log10 (D / k) + 57 / 50) ^ 2).
  Let s := D / (eta * A).
  Let c1 := N * (L / D) * (64 * eta * A / D).
  Let c2 := N * (L * lnik / D + zeta).

  Lemma gN_pos : 0 < N.
  Proof.
    unfold N. assert (0 < A ^ 2) by (apply pow_lt; exact HA).
    assert (0 < (4053 / 4000) / (27315000 * rho_n * A ^ 2)) by (apply Rdiv_lt_0_compat; nra).
    assert (0 < (t_from + t_out) / 2) by lra. 
    apply Rmult_lt_0_compat; [apply Rmult_lt_0_compat|]; lra.
  Qed.

  Lemma gs_pos : 0 < s.
  Proof. unfold s. apply Rdiv_lt_0_compat; [exact HD | nra]. Qed.

  Lemma g_re_form m : Rabs (Rabs m * D / (eta * A)) = Rabs m * s.
  Proof.
    assert (Hr : Rabs m * D / (eta * A) = Rabs m * s) by (unfold s; field; split; lra).
    rewrite Hr. apply Rabs_right. pose proof gs_pos. pose proof (Rabs_pos m). nra.
  Qed.

  Lemma gas_phi_closed_np m :
    gas_phi_np A D eta k L zeta K t_from t_out rho_n m
    = c2 * (Rabs m * m) + (if Rleb (Rabs m * s) (1 / 100000000) then 0 else c1 * m).
  Proof.
    unfold gas_phi_np, calc_lambda_comp_np_lambda_tot. cbv zeta.
    rewrite g_re_form. fold lnik.
    destruct (Rleb_spec (Rabs m * s) (1 / 100000000)) as [Hin|Hout]; cbn [negb].
    - unfold c2, N. field. repeat split; lra.
    - assert (Hm : Rabs m <> 0) by (intros H0; rewrite H0 in Hout; lra).
      unfold c2, c1, N. field. repeat split; lra.
  Qed.

  Lemma gas_phi_closed_nb m :
    gas_phi_nb A D eta k L zeta K t_from t_out rho_n m
    = c2 * (Rabs m * m) + (if Rleb (Rabs m * s) (1 / 100000000) then 0 else c1 * m).
  Proof.
    unfold gas_phi_nb, calc_lambda_comp_nb_lambda_tot. cbv zeta.
    rewrite g_re_form. fold lnik. rewrite Rltb_negb_Rleb.
    destruct (Rleb_spec (Rabs m * s) (1 / 100000000)) as [Hin|Hout]; cbn [negb].
    - unfold c2, N. field. repeat split; lra.
    - assert (Hm : Rabs m <> 0) by (intros H0; rewrite H0 in Hout; lra).
      unfold c2, c1, N. field. repeat split; lra.
  Qed.

  Lemma gc1_nonneg : 0 <= c1.
  Proof.
    unfold c1. pose proof gN_pos.
    assert (0 <= L / D) by (apply Rmult_le_pos; [lra | left; apply Rinv_0_lt_compat; lra]).
    assert (0 < 64 * eta * A / D) by (apply Rdiv_lt_0_compat; nra).
    apply Rmult_le_pos; [apply Rmult_le_pos; lra | lra].
  Qed.

  Lemma gc2_pos : 0 < c2.
  Proof.
    unfold c2. pose proof gN_pos as Hn. pose proof (nikuradse_gas_pos D k Hsing) as Hl. fold lnik in Hl.
    apply Rmult_lt_0_compat; [exact Hn|].
    assert (Hq : 0 <= L * lnik / D).
    { apply Rmult_le_pos; [nra | left; apply Rinv_0_lt_compat; lra]. }
    destruct (Rle_lt_or_eq_dec 0 L HL) as [HLp| <-].
    - assert (0 < L * lnik / D) by (apply Rdiv_lt_0_compat; nra). lra.
    - lra.
  Qed.

  Lemma gas_mono_np : strictly_increasing (gas_phi_np A D eta k L zeta K t_from t_out rho_n).
  Proof.
    apply (shape_mono c1 c2 s (1 / 100000000)); [apply gc2_pos | apply gc1_nonneg | apply gs_pos | lra |].
    exact gas_phi_closed_np.
  Qed.

  Lemma gas_mono_nb : strictly_increasing (gas_phi_nb A D eta k L zeta K t_from t_out rho_n).
  Proof.
    apply (shape_mono c1 c2 s (1 / 100000000)); [apply gc2_pos | apply gc1_nonneg | apply gs_pos | lra |].
    exact gas_phi_closed_nb.
  Qed.
End GasClosed.
