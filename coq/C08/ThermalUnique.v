(* C08 - uniqueness of the temperature field (thermal clause of "start values do not matter").

   Graph form, over the flow graph of C10/Global.v: nodes 0..n-1, edges = flowing branches in flow direction.
   Two temperature fields T, T' with outlet temperatures given edge by edge ([es] for T, [es'] for T'):
     - the two edge lists describe the same branches with the same mixing weights (temperature-independent heat
       capacity), and every branch's outlet depends on its inlet through the same affine law with a slope in [0, 1]
       (the cooling law  T_out = T_ext + (T_in - T_ext) exp(-k) + TL - Q/(c m)  has slope exp(-k)),
     - both fields balance the inflows of every non-infeed node,
     - they agree at the infeed nodes (fixed feed temperatures),
     - every node is downstream of an infeed node.
   Then the fields coincide at every node and every outlet.  Proof: the difference field is a solution of the
   homogeneous problem (ambient 0, feeds 0); the maximum principle of C10/Global.v with lo = hi = 0 bounds it by 0.

   What the hypotheses exclude is exactly where the open C08 findings live: nodes that are *not* downstream of a
   feed (stagnant regions, whose temperatures the code leaves to numerical noise). *)
From Coq Require Import Reals Lra Lia List Bool Arith.
From PP Require Import C10.Global.
Import ListNotations.
Open Scope R_scope.

Section ThermalUnique.
  Variable n : nat.
  Variables T T' : nat -> R.
  Variable infeed : nat -> bool.

  (* the same branch seen in the two solutions *)
  Definition twin (e e' : edge) : Prop :=
    e_from e = e_from e' /\ e_to e = e_to e' /\ e_w e = e_w e' /\
    exists a, 0 <= a <= 1 /\ e_tout e - e_tout e' = a * (T (e_from e) - T' (e_from e)).

  Definition D (i : nat) : R := T i - T' i.
  Definition dedge (p : edge * edge) : edge :=
    mkEdge (e_from (fst p)) (e_to (fst p)) (e_w (fst p)) (e_tout (fst p) - e_tout (snd p)) 0.
  Definition des (es es' : list edge) : list edge := map dedge (combine es es').

  Lemma gmix_diff : forall es es' i, Forall2 twin es es' ->
    gmix D i (des es es') = gmix T i es - gmix T' i es'.
  Proof.
    intros es es' i H. induction H as [|e e' l l' Ht _ IH]; simpl; [lra|].
    unfold des in IH. rewrite IH. destruct Ht as (_ & Hto & Hw & _). rewrite <- Hto, <- Hw.
    destruct (Nat.eqb (e_to e) i); unfold D; lra.
  Qed.

  Lemma des_in : forall es es' d, Forall2 twin es es' -> In d (des es es') ->
    exists e e', In e es /\ twin e e' /\ d = dedge (e, e').
  Proof.
    intros es es' d H. induction H as [|e e' l l' Ht _ IH]; simpl; [tauto|].
    intros [<-|Hin]; [exists e, e'; auto|].
    destruct (IH Hin) as (x & x' & Hx & Htw & ->). exists x, x'. auto.
  Qed.

  Lemma in_des : forall es es' e, Forall2 twin es es' -> In e es ->
    exists e', In (dedge (e, e')) (des es es').
  Proof.
    intros es es' e H. induction H as [|x x' l l' _ _ IH]; simpl; [tauto|].
    intros [->|Hin]; [exists x'; left; reflexivity|].
    destruct (IH Hin) as [e' He']. exists e'. right. exact He'.
  Qed.

  Lemma up_des : forall es es' i, Forall2 twin es es' -> up infeed es i -> up infeed (des es es') i.
  Proof.
    intros es es' i H Hu. induction Hu as [j Hj|e He _ IH]; [apply up_feed; assumption|].
    destruct (in_des es es' e H He) as [e' Hd].
    apply (up_edge infeed (des es es') (dedge (e, e')) Hd). exact IH.
  Qed.

  Theorem graph_temperatures_unique : forall es es',
    Forall2 twin es es' ->
    (forall e, In e es -> (e_from e < n)%nat /\ (e_to e < n)%nat) ->
    (forall e, In e es -> 0 < e_w e) ->
    (forall i, (i < n)%nat -> infeed i = true -> T i = T' i) ->
    (forall i, (i < n)%nat -> infeed i = false -> gmix T i es = 0) ->
    (forall i, (i < n)%nat -> infeed i = false -> gmix T' i es' = 0) ->
    (forall i, (i < n)%nat -> up infeed es i) ->
    forall i, (i < n)%nat -> T i = T' i.
  Proof.
    intros es es' Htw Hrange Hw Hfeed Hmix Hmix' Hup i Hi.
    assert (HD : 0 <= D i <= 0).
    { apply (global_bounds_nodes n D infeed (des es es') 0 0).
      - intros d Hd. destruct (des_in es es' d Htw Hd) as (e & e' & He & _ & ->). simpl. apply Hrange; assumption.
      - intros d Hd. destruct (des_in es es' d Htw Hd) as (e & e' & He & _ & ->). simpl. apply Hw; assumption.
      - intros j Hj Hinf. unfold D. rewrite (Hfeed j Hj Hinf). lra.
      - intros d Hd. destruct (des_in es es' d Htw Hd) as (e & e' & _ & _ & ->). simpl. lra.
      - intros d Hd. destruct (des_in es es' d Htw Hd) as (e & e' & _ & Ht & ->). simpl.
        destruct Ht as (_ & _ & _ & a & Ha & ->). fold (D (e_from e)).
        unfold Rmin, Rmax. destruct (Rle_dec (D (e_from e)) 0); nra.
      - intros j Hj Hinf. rewrite (gmix_diff es es' j Htw), (Hmix j Hj Hinf), (Hmix' j Hj Hinf). lra.
      - intros j Hj. apply up_des; auto.
      - exact Hi. }
    unfold D in HD. lra.
  Qed.

  Theorem graph_outlets_unique : forall es es',
    Forall2 twin es es' ->
    (forall e, In e es -> (e_from e < n)%nat /\ (e_to e < n)%nat) ->
    (forall i, (i < n)%nat -> T i = T' i) ->
    Forall2 (fun e e' => e_tout e = e_tout e') es es'.
  Proof.
    intros es es' Htw. induction Htw as [|e e' l l' Ht _ IH]; intros Hrange Heq; constructor.
    - destruct Ht as (_ & _ & _ & a & _ & Hd). destruct (Hrange e (or_introl eq_refl)) as [Hf _].
      rewrite (Heq _ Hf) in Hd. lra.
    - apply IH; [intros x Hx; apply Hrange; right; exact Hx|exact Heq].
  Qed.
End ThermalUnique.
