(* C08 - uniqueness of the exact hydraulic solution for strictly increasing branch laws
   (any graph: meshes, parallel branches, self loops; any number of slack nodes).
   Hand-written mathematics over R; tied to the code by C08/Props.v through the generated kernel
   facts (the incompressible Nikuradse residual is a strictly increasing function of m). *)
From Coq Require Import Reals List Lra Arith Lia Bool.
Import ListNotations.
Open Scope R_scope.

Record branch := { fn : nat; tn : nat; phi : R -> R; cst : R }.

Definition strictly_increasing (f : R -> R) := forall x y, x < y -> f x < f y.

Fixpoint sumn (n : nat) (f : nat -> R) : R :=
  match n with O => 0 | S k => sumn k f + f k end.

Definition ind (a b : nat) : R := if Nat.eqb a b then 1 else 0.

(* net outflow of node i under a flow assignment *)
Fixpoint outflow (bm : list (branch * R)) (i : nat) : R :=
  match bm with
  | [] => 0
  | (b, m) :: r => ind (fn b) i * m - ind (tn b) i * m + outflow r i
  end.

Definition in_range (n : nat) (bs : list branch) := Forall (fun b => (fn b < n)%nat /\ (tn b < n)%nat) bs.

Record solves (n : nat) (slack : nat -> bool) (pfix load : nat -> R) (bs : list branch)
              (p : nat -> R) (ms : list R) : Prop := {
  s_len : length ms = length bs;
  s_fix : forall i, (i < n)%nat -> slack i = true -> p i = pfix i;
  s_bal : forall i, (i < n)%nat -> slack i = false -> outflow (combine bs ms) i = - load i;
  s_law : Forall2 (fun b m => p (fn b) - p (tn b) + cst b = phi b m) bs ms
}.

Inductive Reach (n : nat) (slack : nat -> bool) (bs : list branch) : nat -> Prop :=
| reach_slack i : (i < n)%nat -> slack i = true -> Reach n slack bs i
| reach_fwd b : In b bs -> Reach n slack bs (fn b) -> Reach n slack bs (tn b)
| reach_bwd b : In b bs -> Reach n slack bs (tn b) -> Reach n slack bs (fn b).

(* ---------- sums ---------- *)
Lemma sumn_ext n f g : (forall i, (i < n)%nat -> f i = g i) -> sumn n f = sumn n g.
Proof.
  induction n as [|k IH]; intros H; simpl; [reflexivity|].
  rewrite IH by (intros; apply H; lia). rewrite H by lia. reflexivity.
Qed.

Lemma sumn_plus n f g : sumn n (fun i => f i + g i) = sumn n f + sumn n g.
Proof. induction n as [|k IH]; simpl; lra. Qed.

Lemma sumn_scal n c f : sumn n (fun i => c * f i) = c * sumn n f.
Proof. induction n as [|k IH]; simpl; lra. Qed.

Lemma sumn_zero n f : (forall i, (i < n)%nat -> f i = 0) -> sumn n f = 0.
Proof.
  induction n as [|k IH]; intros H; simpl; [reflexivity|].
  rewrite IH by (intros; apply H; lia). rewrite H by lia. lra.
Qed.

Lemma sumn_ind n k f : (k < n)%nat -> sumn n (fun i => ind k i * f i) = f k.
Proof.
  induction n as [|m IH]; intros H; [lia|]. simpl.
  destruct (Nat.eq_dec k m) as [->|Hne].
  - unfold ind at 2. rewrite Nat.eqb_refl.
    rewrite sumn_zero; [lra|]. intros i Hi. unfold ind.
    destruct (Nat.eqb m i) eqn:E; [apply Nat.eqb_eq in E; lia | lra].
  - rewrite IH by lia. unfold ind. destruct (Nat.eqb k m) eqn:E; [apply Nat.eqb_eq in E; lia | lra].
Qed.

(* discrete integration by parts: sum over branches of d_b (q(fn) - q(tn)) = sum over nodes of q_i * outflow_i *)
Lemma by_parts n (q : nat -> R) (bm : list (branch * R)) :
  Forall (fun x => (fn (fst x) < n)%nat /\ (tn (fst x) < n)%nat) bm ->
  fold_right (fun x acc => snd x * (q (fn (fst x)) - q (tn (fst x))) + acc) 0 bm
  = sumn n (fun i => q i * outflow bm i).
Proof.
  induction bm as [|[b m] r IH]; intros H; simpl.
  - symmetry. apply sumn_zero. intros; lra.
  - inversion H as [|x l [Hf Ht] Hr]; subst. simpl in Hf, Ht. rewrite IH by auto.
    rewrite (sumn_ext n (fun i => q i * (ind (fn b) i * m - ind (tn b) i * m + outflow r i))
                        (fun i => (m * (ind (fn b) i * q i) + (- m) * (ind (tn b) i * q i)) + q i * outflow r i))
      by (intros; lra).
    rewrite sumn_plus, sumn_plus, !sumn_scal, !sumn_ind by auto. lra.
Qed.

Lemma outflow_diff bs ms ms' i : length ms = length bs -> length ms' = length bs ->
  outflow (combine bs (map (fun x => fst x - snd x) (combine ms ms'))) i
  = outflow (combine bs ms) i - outflow (combine bs ms') i.
Proof.
  revert ms ms'. induction bs as [|b r IH]; intros ms ms' H H'; simpl; [lra|].
  destruct ms as [|m ms]; [discriminate|]. destruct ms' as [|m' ms']; [discriminate|].
  simpl. rewrite IH by (simpl in *; lia). lra.
Qed.

(* a sum of non-negative terms that vanishes has only vanishing terms *)
Lemma fold_nonneg_zero (l : list R) :
  Forall (fun x => 0 <= x) l -> fold_right Rplus 0 l = 0 -> Forall (fun x => x = 0) l.
Proof.
  induction l as [|x r IH]; intros H Hs; constructor; inversion H; subst; simpl in Hs.
  - assert (0 <= fold_right Rplus 0 r).
    { clear -H3. induction r; simpl; [lra|]. inversion H3; subst. specialize (IHr H2). lra. }
    lra.
  - apply IH; auto.
    assert (0 <= fold_right Rplus 0 r).
    { clear -H3. induction r; simpl; [lra|]. inversion H3; subst. specialize (IHr H2). lra. }
    lra.
Qed.

Lemma mono_term f x y : strictly_increasing f -> 0 <= (x - y) * (f x - f y) /\ ((x - y) * (f x - f y) = 0 -> x = y).
Proof.
  intros Hf. destruct (Rtotal_order x y) as [H|[H|H]].
  - specialize (Hf _ _ H). split; [nra|]. intros; nra.
  - subst. split; [lra|auto].
  - specialize (Hf _ _ H). split; [nra|]. intros; nra.
Qed.

Lemma range_combine n bs (ds : list R) : in_range n bs ->
  Forall (fun x => (fn (fst x) < n)%nat /\ (tn (fst x) < n)%nat) (combine bs ds).
Proof.
  intros H. revert ds. induction H as [|b r Hb Hr IH]; intros ds; simpl; [constructor|].
  destruct ds; constructor; auto.
Qed.

Definition energy (p p' : nat -> R) (bs : list branch) (ms ms' : list R) : R :=
  fold_right (fun x acc => snd x * ((p (fn (fst x)) - p' (fn (fst x))) - (p (tn (fst x)) - p' (tn (fst x)))) + acc) 0
    (combine bs (map (fun x => fst x - snd x) (combine ms ms'))).

Definition law (p : nat -> R) (b : branch) (m : R) : Prop := p (fn b) - p (tn b) + cst b = phi b m.

Lemma energy_nonneg p p' bs : forall ms ms',
  Forall (fun b => strictly_increasing (phi b)) bs ->
  Forall2 (law p) bs ms -> Forall2 (law p') bs ms' -> 0 <= energy p p' bs ms ms'.
Proof.
  unfold energy. induction bs as [|b r IH]; intros ms ms' Hm F F'; simpl; [lra|].
  inversion F as [|? m ? ms0 Hl Fr]; subst. inversion F' as [|? m' ? ms0' Hl' Fr']; subst.
  inversion Hm as [|? ? Hb Hr]; subst. simpl.
  specialize (IH _ _ Hr Fr Fr'). unfold law in Hl, Hl'.
  replace (p (fn b) - p' (fn b) - (p (tn b) - p' (tn b))) with (phi b m - phi b m') by lra.
  destruct (mono_term (phi b) m m' Hb) as [Hn _]. lra.
Qed.

Lemma energy_zero_flows p p' bs : forall ms ms',
  Forall (fun b => strictly_increasing (phi b)) bs ->
  Forall2 (law p) bs ms -> Forall2 (law p') bs ms' -> energy p p' bs ms ms' = 0 -> ms = ms'.
Proof.
  induction bs as [|b r IH]; intros ms ms' Hm F F' E.
  - inversion F; subst. inversion F'; subst. reflexivity.
  - inversion F as [|? m ? ms0 Hl Fr]; subst. inversion F' as [|? m' ? ms0' Hl' Fr']; subst.
    inversion Hm as [|? ? Hb Hr]; subst.
    pose proof (energy_nonneg p p' r ms0 ms0' Hr Fr Fr') as Hn0.
    unfold energy in E, Hn0. simpl in E. unfold law in Hl, Hl'.
    replace (p (fn b) - p' (fn b) - (p (tn b) - p' (tn b))) with (phi b m - phi b m') in E by lra.
    destruct (mono_term (phi b) m m' Hb) as [Hn Hz].
    assert (m = m') by (apply Hz; lra). subst m'. f_equal.
    apply IH; auto. unfold energy. lra.
Qed.

Section Uniqueness.
  Variables (n : nat) (slack : nat -> bool) (pfix load : nat -> R) (bs : list branch).
  Variables (p p' : nat -> R) (ms ms' : list R).
  Hypothesis Hrange : in_range n bs.
  Hypothesis Hmono : Forall (fun b => strictly_increasing (phi b)) bs.
  Hypothesis S : solves n slack pfix load bs p ms.
  Hypothesis S' : solves n slack pfix load bs p' ms'.

  Lemma energy_identity : energy p p' bs ms ms' = 0.
  Proof.
    unfold energy.
    rewrite (by_parts n (fun i => p i - p' i)).
    - apply sumn_zero. intros i Hi. rewrite outflow_diff by (apply S || apply S').
      destruct (slack i) eqn:E.
      + rewrite (s_fix _ _ _ _ _ _ _ S i Hi E), (s_fix _ _ _ _ _ _ _ S' i Hi E). lra.
      + rewrite (s_bal _ _ _ _ _ _ _ S i Hi E), (s_bal _ _ _ _ _ _ _ S' i Hi E). lra.
    - now apply range_combine.
  Qed.

  Theorem flows_unique : ms = ms'.
  Proof.
    apply (energy_zero_flows p p' bs); auto; try apply S; try apply S'. apply energy_identity.
  Qed.

  Theorem pressures_unique : forall i, Reach n slack bs i -> p i = p' i.
  Proof.
    pose proof flows_unique as Hm.
    destruct S as [L Fx _ Law]. destruct S' as [L' Fx' _ Law'].
    assert (Hb : forall b, In b bs -> p (fn b) - p (tn b) = p' (fn b) - p' (tn b)).
    { rewrite <- Hm in Law'. clear -Law Law'.
      induction Law as [|b0 m r ms0 Hl Fr IH]; intros b Hin; [destruct Hin|].
      inversion Law' as [|? ? ? ? Hl' Fr']; subst.
      destruct Hin as [->|Hin]; [lra | now apply IH]. }
    intros i Hr. induction Hr as [i Hi Hs | b Hin _ IH | b Hin _ IH].
    - rewrite Fx, Fx'; auto.
    - specialize (Hb b Hin). lra.
    - specialize (Hb b Hin). lra.
  Qed.
End Uniqueness.
