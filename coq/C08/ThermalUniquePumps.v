(* C08 - thermal uniqueness for networks with circulation pumps (district-heating loops).

   ThermalUniquePipe.v excludes circulation-pump branches ([conducting] demands p_ident = false).  Their thermal row is
   the identity (C10: circ_pump_row_is_identity), so their outlet temperature is not solved for: it keeps the value the
   component wrote at pit creation (the flow temperature t_flow_k - a boundary value, not a start value).  With the
   hypothesis that the two states agree on the outlets of those branches, the uniqueness theorem extends to loops
   through pumps: [up] may run around cycles, only the infeed nodes cut them.
   (For pumps of type "p" the component writes TOUTINIT := TINIT of the flow junction - a start value; then the outlet
   hypothesis is an assumption about the start values.  Observed on the real code: such nets fail the infeed check and
   never converge, so the property makes no claim about them.) *)
From Coq Require Import Reals Lra Lia List Bool Arith.
From PP Require Import Kern.RBool Gen.KThermNp Gen.KThermNb Gen.KThermExpr Gen.KHooksHeat C10.Spec C10.Model C10.Assembly
                       C10.Proofs C10.Global C10.GlobalPipe C08.ThermalUnique C08.ThermalUniquePipe.
Import ListNotations.
Open Scope R_scope.

(* flowing, in range; heat-exchanging parameters non-negative unless the row is an identity row *)
Definition conducting_or_pump (tw : bool) (n : nat) (pb : pbranch) : Prop :=
  p_flow tw pb = true /\ (p_from pb < n)%nat /\ (p_to pb < n)%nat /\
  (p_ident pb = false -> 0 <= p_alpha pb /\ 0 <= p_len pb /\ 0 <= p_do pb).

Definition same_hyd_pump (pb pb' : pbranch) : Prop :=
  same_hyd pb pb' /\ (p_ident pb = true -> p_tout pb = p_tout pb').

Lemma same_hyd_pump_same : forall pbs pbs', Forall2 same_hyd_pump pbs pbs' -> Forall2 same_hyd pbs pbs'.
Proof. intros pbs pbs' H. induction H as [|a b l l' [Hs _] _ IH]; constructor; assumption. Qed.

Theorem thermal_fixed_points_coincide_with_pumps : forall tw cp c amb Tn Tn' isT n pbs pbs',
  0 < c -> (forall t, cp t = c) ->
  Forall2 same_hyd_pump pbs pbs' ->
  fixed_point tw cp amb Tn isT n pbs ->
  fixed_point tw cp amb Tn' isT n pbs' ->
  Forall (conducting_or_pump tw n) pbs ->
  (forall i, (i < n)%nat -> node_infeed tw cp amb Tn pbs i = true -> Tn i = Tn' i) ->
  (forall i, (i < n)%nat -> up (node_infeed tw cp amb Tn pbs) (edges_of tw cp Tn pbs) i) ->
  (forall i, (i < n)%nat -> Tn i = Tn' i) /\
  Forall2 (fun pb pb' => p_tout pb = p_tout pb') pbs pbs'.
Proof.
  intros tw cp c amb Tn Tn' isT n pbs pbs' Hc Hcp Hsamep Hfp Hfp' Hcond Hfeed Hup.
  pose proof (same_hyd_pump_same _ _ Hsamep) as Hsame.
  rewrite Forall_forall in Hcond.
  assert (Hcbar : forall a b, cbar cp a b = c) by (intros; unfold cbar; rewrite !Hcp; lra).
  assert (Hin_e : forall e, In e (edges_of tw cp Tn pbs) -> exists pb, In pb pbs /\ e = edge_of tw cp Tn pb).
  { intros e He. unfold edges_of in He. apply in_map_iff in He. destruct He as [pb [<- Hp]]. eauto. }
  assert (H_range : forall e, In e (edges_of tw cp Tn pbs) -> (e_from e < n)%nat /\ (e_to e < n)%nat).
  { intros e He. destruct (Hin_e e He) as [pb [Hp ->]]. destruct (Hcond pb Hp) as (_&H1&H2&_).
    unfold edge_of, p_fnc, p_tnc; simpl. destruct (p_sw pb); split; assumption. }
  assert (H_w : forall e, In e (edges_of tw cp Tn pbs) -> 0 < e_w e).
  { intros e He. destruct (Hin_e e He) as [pb [Hp ->]]. destruct (Hcond pb Hp) as (Hf&_). simpl. unfold stream_w.
    rewrite Hf, Hcbar. pose proof (flows_pos _ (proj1 (p_flow_flows tw pb) Hf)).
    destruct tw; apply Rmult_lt_0_compat; try assumption; lra. }
  assert (Htwin : Forall2 (twin Tn Tn') (edges_of tw cp Tn pbs) (edges_of tw cp Tn' pbs')).
  { unfold edges_of.
    apply (Forall2_map_nth same_hyd_pump (twin Tn Tn') (edge_of tw cp Tn) (edge_of tw cp Tn') pbs pbs' Hsamep).
    intros k pb pb' Hk Hk' [Hs Hpump].
    destruct (same_hyd_graph tw pb pb' Hs) as (Hf & Ht & Hfl).
    assert (Hp : In pb pbs) by (eapply nth_error_In; eauto).
    destruct (Hcond pb Hp) as (Hflow & _ & _ & Hpar).
    destruct Hs as (_ & _ & Hm & Hal & Hdo & Hlen & HQ & Htx & Htl & Hid').
    unfold twin, edge_of; simpl. repeat split; auto.
    - unfold stream_w. rewrite !Hcbar, Hfl, Hm. reflexivity.
    - destruct (p_ident pb) eqn:Hid.
      + (* identity row: outlets agree by hypothesis, slope 0 *)
        exists 0. split; [lra|]. rewrite (Hpump eq_refl). lra.
      + destruct (Hpar eq_refl) as (Ha & HL & Hd).
        destruct (branch_cooling_law_pipeline tw cp amb Tn isT n pbs k pb Hfp Hk Hid) as [Hlaw _].
        assert (Hid2 : p_ident pb' = false) by congruence.
        destruct (branch_cooling_law_pipeline tw cp amb Tn' isT n pbs' k pb' Hfp' Hk' Hid2) as [Hlaw' _].
        specialize (Hlaw Hflow). rewrite <- Hfl in Hlaw'. specialize (Hlaw' Hflow).
        rewrite Hcbar in Hlaw, Hlaw'. rewrite <- Hal, <- Hdo, <- Hlen, <- HQ, <- Htx, <- Htl, <- Hm, <- Hf in Hlaw'.
        pose proof (flows_pos _ (proj1 (p_flow_flows tw pb) Hflow)) as Hmpos.
        assert (Hx : 0 <= p_alpha pb * p_len pb * PI * p_do pb / (c * Rabs (p_m pb))).
        { apply Rmult_le_pos; [|left; apply Rinv_0_lt_compat; apply Rmult_lt_0_compat; assumption].
          pose proof PI_RGT_0. apply Rmult_le_pos; [apply Rmult_le_pos; [apply Rmult_le_pos|]|]; lra. }
        destruct (exp_neg_le_1 _ Hx) as [H0 H1].
        exists (exp (- (p_alpha pb * p_len pb * PI * p_do pb / (c * Rabs (p_m pb))))). split; [lra|].
        rewrite Hlaw, Hlaw'. unfold spec_T_out. ring. }
  assert (Hnf : forall i, (i < n)%nat -> node_infeed tw cp amb Tn pbs i = false -> node_flow tw cp amb Tn pbs i = true).
  { intros i Hi Hinf. pose proof (Hup i Hi) as Hu. inversion Hu as [j Hj|e He Hue]; subst; [congruence|].
    destruct (Hin_e e He) as [pb [Hp ->]]. destruct (Hcond pb Hp) as (Hf&_).
    unfold node_flow, g_touches, bf. apply existsb_exists. exists (asm_branch tw cp amb Tn pb, p_flow tw pb).
    split; [apply in_map_iff; exists pb; auto|]. simpl. rewrite Hf. simpl.
    change (tnc (asm_branch tw cp amb Tn pb)) with (p_tnc pb). simpl. rewrite Nat.eqb_refl. apply orb_true_r. }
  assert (Hnodes : forall i, (i < n)%nat -> Tn i = Tn' i).
  { apply (graph_temperatures_unique n Tn Tn' (node_infeed tw cp amb Tn pbs)
             (edges_of tw cp Tn pbs) (edges_of tw cp Tn' pbs') Htwin H_range H_w Hfeed).
    - intros i Hi Hinf. rewrite gmix_mixsum.
      apply (node_mixing_law_pipeline tw cp amb Tn isT n pbs i Hfp Hi Hinf (Hnf i Hi Hinf)).
    - intros i Hi Hinf. rewrite gmix_mixsum.
      apply (node_mixing_law_pipeline tw cp amb Tn' isT n pbs' i Hfp' Hi).
      + rewrite <- (node_infeed_indep tw cp amb Tn Tn' pbs pbs' i Hsame). exact Hinf.
      + rewrite <- (node_flow_indep tw cp amb Tn Tn' pbs pbs' i Hsame). apply Hnf; assumption.
    - exact Hup. }
  split; [exact Hnodes|].
  pose proof (graph_outlets_unique n Tn Tn' (edges_of tw cp Tn pbs) (edges_of tw cp Tn' pbs') Htwin H_range Hnodes) as Ho.
  clear - Ho Hsame. unfold edges_of in Ho. revert Ho. induction Hsame as [|pb pb' l l' _ _ IH]; intros Ho; constructor.
  - inversion Ho; subst. assumption.
  - apply IH. inversion Ho; subst. assumption.
Qed.

(* the pump-free theorem is the special case without identity rows *)
Lemma conducting_is_conducting_or_pump tw n pb : conducting tw n pb -> conducting_or_pump tw n pb.
Proof. intros (H1&H2&H3&H4&H5&H6&H7). repeat split; auto. Qed.
