(* C08 - property theorem, thermal clause with circulation pumps (district-heating loops).  Statement only; proof in
   C08/ThermalUniquePumps.v. *)
From Coq Require Import Reals Lra Lia List Bool Arith.
From PP Require Import Kern.RBool C10.Model C10.Proofs C10.Global C10.GlobalPipe
                       C08.ThermalUnique C08.ThermalUniquePipe C08.ThermalUniquePumps.
Import ListNotations.
Open Scope R_scope.

(* two fixed points of the assembled thermal system for the same hydraulic solution, constant heat capacity, all
   branches flowing; identity rows (circulation pumps: outlet = the flow temperature written at pit creation, a boundary
   value) agree on their outlets; equal temperatures at the infeed nodes; every node downstream of an infeed node - the
   flow graph may contain cycles through the pumps.  Then all node and outlet temperatures coincide. *)
Theorem thermal_start_values_do_not_matter_with_circulation_pumps : forall tw cp c amb Tn Tn' isT n pbs pbs',
  0 < c -> (forall t, cp t = c) ->
  Forall2 same_hyd_pump pbs pbs' ->
  fixed_point tw cp amb Tn isT n pbs ->
  fixed_point tw cp amb Tn' isT n pbs' ->
  Forall (conducting_or_pump tw n) pbs ->
  (forall i, (i < n)%nat -> node_infeed tw cp amb Tn pbs i = true -> Tn i = Tn' i) ->
  (forall i, (i < n)%nat -> up (node_infeed tw cp amb Tn pbs) (edges_of tw cp Tn pbs) i) ->
  (forall i, (i < n)%nat -> Tn i = Tn' i) /\
  Forall2 (fun pb pb' => p_tout pb = p_tout pb') pbs pbs'.
Proof. exact thermal_fixed_points_coincide_with_pumps. Qed.
Print Assumptions thermal_start_values_do_not_matter_with_circulation_pumps.

(* it contains the pump-free theorem: every [conducting] branch is [conducting_or_pump] *)
Theorem pump_free_hypothesis_is_a_special_case : forall tw n pb, conducting tw n pb -> conducting_or_pump tw n pb.
Proof. exact conducting_is_conducting_or_pump. Qed.
Print Assumptions pump_free_hypothesis_is_a_special_case.
