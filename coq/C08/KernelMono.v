(* C08 - the branch law of a liquid pipe / valve, as the code computes it, is strictly increasing in the mass flow.

   T-tie: Gen/KHydIncompNp(Nb).v  = derivatives_hydraulic_incomp_np / _numba        (tools/translate/kernels.py)
          Gen/KCalcLambda.v       = calc_lambda with the default friction model: lambda = lambda_laminar + lambda_nikuradse
                                    (tools/translate/c09_kernels.py), both regenerated from the source on every run.

   phi(m) := (p_from_abs - p_to_abs + PL + rho g dh / 1e5) - load_vec(m, lambda(m))
   so that the residual vanishes iff  p_from_abs - p_to_abs + (PL + rho g dh / 1e5) = phi(m)   (the form of C08.Unique).
   Shape: phi(m) = c2 m|m| + [ |Re(m)| > 1e-8 ] c1 m  with c1 >= 0, c2 > 0; the laminar part is dropped by the code in the
   regularised region |Re| <= 1e-8 - phi is still strictly increasing there and across its border. *)
From Coq Require Import Reals Bool Lra Psatz.
From PP Require Import Kern.RBool Gen.KHydIncompNp Gen.KHydIncompNb Gen.KCalcLambda C08.Unique.
Open Scope R_scope.

Definition incomp_phi_np (A D eta k L zeta PL dl dh p_to p_from rho : R) (m : R) : R :=
  (p_from - p_to + PL + rho * (981 / 100) * dh / 100000)
  - hyd_incomp_np_load_vec A D (calc_lambda_incomp_np_lambda_tot A D eta k m) L zeta m PL dl dh p_to p_from rho.

Definition incomp_phi_nb (A D eta k L zeta PL dl dh p_to p_from rho : R) (m : R) : R :=
  (p_from - p_to + PL + rho * (981 / 100) * dh / 100000)
  - hyd_incomp_nb_load_vec A D (calc_lambda_incomp_nb_lambda_tot A D eta k m) L zeta m PL dl dh p_to p_from rho.

(* the residual is the branch law in the form used by the uniqueness theorem *)
Lemma incomp_residual_is_law_np : forall A D eta k L zeta PL dl dh p_to p_from rho m,
  hyd_incomp_np_load_vec A D (calc_lambda_incomp_np_lambda_tot A D eta k m) L zeta m PL dl dh p_to p_from rho = 0
  <-> p_from - p_to + (PL + rho * (981 / 100) * dh / 100000) = incomp_phi_np A D eta k L zeta PL dl dh p_to p_from rho m.
Proof. intros. unfold incomp_phi_np. split; intros H; lra. Qed.

Lemma incomp_residual_is_law_nb : forall A D eta k L zeta PL dl dh p_to p_from rho m,
  hyd_incomp_nb_load_vec A D (calc_lambda_incomp_nb_lambda_tot A D eta k m) L zeta m PL dl dh p_to p_from rho = 0
  <-> p_from - p_to + (PL + rho * (981 / 100) * dh / 100000) = incomp_phi_nb A D eta k L zeta PL dl dh p_to p_from rho m.
Proof. intros. unfold incomp_phi_nb. split; intros H; lra. Qed.

(* ---------- real-analysis facts ---------- *)
Lemma ln_zero_one x : 0 < x -> ln x = 0 -> x = 1.
Proof. intros Hx H. apply ln_inv; [exact Hx | lra | rewrite ln_1; exact H]. Qed.

Lemma ln10_pos : 0 < ln 10.
Proof. rewrite <- ln_1. apply ln_increasing; lra. Qed.

Lemma nikuradse_pos D k : 0 < D -> 0 < k -> k <> 371 / 100 * D ->
  0 < 1 / ((- 2 * log10 (k / (371 / 100 * D))) ^ 2).
Proof.
  intros HD Hk Hne. unfold log10.
  assert (Hx : 0 < k / (371 / 100 * D)) by (apply Rdiv_lt_0_compat; lra).
  assert (Hl : ln (k / (371 / 100 * D)) <> 0).
  { intros H0. apply ln_zero_one in H0; [|exact Hx]. apply Hne.
    apply (Rmult_eq_compat_r (371 / 100 * D)) in H0. field_simplify in H0; lra. }
  pose proof ln10_pos as H10.
  assert (Hq : - 2 * (ln (k / (371 / 100 * D)) / ln 10) <> 0).
  { intros H0. apply Hl. apply (Rmult_eq_compat_r (ln 10)) in H0. field_simplify in H0; lra. }
  apply Rdiv_lt_0_compat; [lra|]. rewrite <- Rsqr_pow2. apply Rsqr_pos_lt. exact Hq.
Qed.

(* m |m| is strictly increasing *)
Lemma msq_increasing x y : x < y -> Rabs x * x < Rabs y * y.
Proof.
  intros H. unfold Rabs. destruct (Rcase_abs x), (Rcase_abs y); nra.
Qed.

(* the regularised laminar part  [ |m| s > e ] c1 m  is non-decreasing *)
Lemma laminar_part_monotone s e c1 x y : 0 < s -> 0 <= e -> 0 <= c1 -> x < y ->
  (if Rleb (Rabs x * s) e then 0 else c1 * x) <= (if Rleb (Rabs y * s) e then 0 else c1 * y).
Proof.
  intros Hs He Hc H.
  destruct (Rleb_spec (Rabs x * s) e) as [Hx|Hx]; destruct (Rleb_spec (Rabs y * s) e) as [Hy|Hy].
  - lra.
  - (* x inside, y outside: y must be positive *)
    assert (Hxy : Rabs x < Rabs y) by nra.
    unfold Rabs in Hxy. destruct (Rcase_abs x), (Rcase_abs y); nra.
  - assert (Hxy : Rabs y < Rabs x) by nra.
    unfold Rabs in Hxy. destruct (Rcase_abs x), (Rcase_abs y); nra.
  - nra.
Qed.

(* ---------- closed form of phi ---------- *)
Section Closed.
  Variables A D eta k L zeta PL dl dh p_to p_from rho : R.
  Hypotheses (HA : 0 < A) (HD : 0 < D) (Heta : 0 < eta) (Hrho : 0 < rho).

  Let ct := 1 / (A ^ 2 * rho * 100000 * 2).
  Let lnik := 1 / ((- 2 * log10 (k / (371 / 100 * D))) ^ 2).
  Let s := D / (eta * A).
  Let c1 := ct * (L / D) * (64 * eta * A / D).
  Let c2 := ct * (L * lnik / D + zeta).

  Lemma ct_pos : 0 < ct.
  Proof. unfold ct. apply Rdiv_lt_0_compat; [lra|]. assert (0 < A ^ 2) by (apply pow_lt; exact HA). nra. Qed.

  Lemma s_pos : 0 < s.
  Proof. unfold s. apply Rdiv_lt_0_compat; [exact HD | nra]. Qed.

  Lemma re_form m : Rabs (Rabs m * D / (eta * A)) = Rabs m * s.
  Proof.
    assert (Hr : Rabs m * D / (eta * A) = Rabs m * s) by (unfold s; field; split; lra).
    rewrite Hr. apply Rabs_right. pose proof s_pos. pose proof (Rabs_pos m). nra.
  Qed.

  Lemma phi_closed_np m :
    incomp_phi_np A D eta k L zeta PL dl dh p_to p_from rho m
    = c2 * (Rabs m * m) + (if Rleb (Rabs m * s) (1 / 100000000) then 0 else c1 * m).
  Proof.
    unfold incomp_phi_np, hyd_incomp_np_load_vec, calc_lambda_incomp_np_lambda_tot. cbv zeta.
    rewrite re_form. fold lnik.
    destruct (Rleb_spec (Rabs m * s) (1 / 100000000)) as [Hin|Hout]; cbn [negb].
    - unfold c2, ct. unfold Rdiv. ring.
    - assert (Hm : Rabs m <> 0).
      { intros H0. rewrite H0 in Hout. lra. }
      unfold c2, c1, ct. field. repeat split; lra.
  Qed.

  Lemma phi_closed_nb m :
    incomp_phi_nb A D eta k L zeta PL dl dh p_to p_from rho m
    = c2 * (Rabs m * m) + (if Rleb (Rabs m * s) (1 / 100000000) then 0 else c1 * m).
  Proof.
    unfold incomp_phi_nb, hyd_incomp_nb_load_vec, calc_lambda_incomp_nb_lambda_tot. cbv zeta.
    rewrite re_form. fold lnik. rewrite Rltb_negb_Rleb.
    destruct (Rleb_spec (Rabs m * s) (1 / 100000000)) as [Hin|Hout]; cbn [negb].
    - unfold c2, ct. unfold Rdiv. ring.
    - assert (Hm : Rabs m <> 0).
      { intros H0. rewrite H0 in Hout. lra. }
      unfold c2, c1, ct. field. repeat split; lra.
  Qed.

  Hypotheses (Hk : 0 < k) (Hkd : k <> 371 / 100 * D) (HL : 0 <= L) (Hz : 0 <= zeta) (HLz : 0 < L + zeta).

  Lemma c1_nonneg : 0 <= c1.
  Proof.
    unfold c1. pose proof ct_pos.
    assert (0 <= L / D) by (apply Rmult_le_pos; [lra | left; apply Rinv_0_lt_compat; lra]).
    assert (0 < 64 * eta * A / D) by (apply Rdiv_lt_0_compat; nra).
    apply Rmult_le_pos; [apply Rmult_le_pos; lra | lra].
  Qed.

  Lemma c2_pos : 0 < c2.
  Proof.
    unfold c2. pose proof ct_pos as Hc. pose proof (nikuradse_pos D k HD Hk Hkd) as Hn. fold lnik in Hn.
    apply Rmult_lt_0_compat; [exact Hc|].
    assert (Hq : 0 <= L * lnik / D).
    { apply Rmult_le_pos; [nra | left; apply Rinv_0_lt_compat; lra]. }
    destruct (Rle_lt_or_eq_dec 0 L HL) as [HLp| <-].
    - assert (0 < L * lnik / D) by (apply Rdiv_lt_0_compat; nra). lra.
    - lra.
  Qed.

  Lemma shape_increasing (f : R -> R) :
    (forall m, f m = c2 * (Rabs m * m) + (if Rleb (Rabs m * s) (1 / 100000000) then 0 else c1 * m)) ->
    strictly_increasing f.
  Proof.
    intros Hf x y Hxy. rewrite (Hf x), (Hf y).
    pose proof (msq_increasing x y Hxy) as H1.
    pose proof (laminar_part_monotone s (1 / 100000000) c1 x y s_pos ltac:(lra) c1_nonneg Hxy) as H2.
    pose proof c2_pos as H3. nra.
  Qed.

  Lemma mono_np : strictly_increasing (incomp_phi_np A D eta k L zeta PL dl dh p_to p_from rho).
  Proof. apply shape_increasing. exact phi_closed_np. Qed.

  Lemma mono_nb : strictly_increasing (incomp_phi_nb A D eta k L zeta PL dl dh p_to p_from rho).
  Proof. apply shape_increasing. exact phi_closed_nb. Qed.
End Closed.

(* The branch law of a liquid pipe or valve with Nikuradse friction (numpy kernel) is strictly increasing in m:
   cross-section, diameter, viscosity, density, roughness positive, roughness not the singular value 3.71 D of the
   Nikuradse formula (k < D in every real pipe), length and loss coefficient non-negative and not both zero. *)
Theorem incomp_nikuradse_law_strictly_monotone :
  forall A D eta k L zeta PL dl dh p_to p_from rho,
    0 < A -> 0 < D -> 0 < eta -> 0 < rho -> 0 < k -> k <> 371 / 100 * D -> 0 <= L -> 0 <= zeta -> 0 < L + zeta ->
    strictly_increasing (incomp_phi_np A D eta k L zeta PL dl dh p_to p_from rho).
Proof. intros. apply mono_np; assumption. Qed.

(* same for the numba twin *)
Theorem incomp_nikuradse_law_strictly_monotone_numba :
  forall A D eta k L zeta PL dl dh p_to p_from rho,
    0 < A -> 0 < D -> 0 < eta -> 0 < rho -> 0 < k -> k <> 371 / 100 * D -> 0 <= L -> 0 <= zeta -> 0 < L + zeta ->
    strictly_increasing (incomp_phi_nb A D eta k L zeta PL dl dh p_to p_from rho).
Proof. intros. apply mono_nb; assumption. Qed.

(* the hypotheses are satisfiable by an ordinary pipe: DN 100, 1 km, roughness 0.1 mm, water *)
Example monotone_hypotheses_satisfiable :
  let D := 1 / 10 in let A := 785 / 100000 in
  0 < A /\ 0 < D /\ 0 < (1 / 1000) /\ 0 < 998 /\ 0 < (1 / 10000) /\ (1 / 10000) <> 371 / 100 * D /\ 0 <= 1000 /\
  0 <= 2 /\ 0 < 1000 + 2.
Proof. cbv zeta. repeat split; lra. Qed.
