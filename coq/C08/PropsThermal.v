(* C08 - property theorems, thermal clause: the converged temperature field does not depend on the start
   temperatures.  Statements only; proofs in C08/ThermalUnique.v (graph form, on the maximum principle of
   C10/Global.v) and C08/ThermalUniquePipe.v (over the thermal system assembled from the generated kernels). *)
From Coq Require Import Reals Lra Lia List Bool Arith.
From PP Require Import Kern.RBool C10.Model C10.Proofs C10.Global C10.GlobalPipe C10.Example
                       C08.Unique C08.FlowAcyclic C08.ThermalUnique C08.ThermalUniquePipe C08.Coupled.
Import ListNotations.
Open Scope R_scope.

(* ---- 1. graph form: two temperature fields over the same flow graph with the same (temperature-independent)
        mixing weights, branch outlets affine in the inlet with a slope in [0, 1] ([twin]), equal feed temperatures,
        every node downstream of a feed: the fields coincide *)
Theorem thermal_graph_solution_unique : forall n T T' infeed es es',
  Forall2 (twin T T') es es' ->
  (forall e, In e es -> (e_from e < n)%nat /\ (e_to e < n)%nat) ->
  (forall e, In e es -> 0 < e_w e) ->
  (forall i, (i < n)%nat -> infeed i = true -> T i = T' i) ->
  (forall i, (i < n)%nat -> infeed i = false -> gmix T i es = 0) ->
  (forall i, (i < n)%nat -> infeed i = false -> gmix T' i es' = 0) ->
  (forall i, (i < n)%nat -> up infeed es i) ->
  (forall i, (i < n)%nat -> T i = T' i) /\ Forall2 (fun e e' => e_tout e = e_tout e') es es'.
Proof.
  intros n T T' infeed es es' Htw Hr Hw Hf Hm Hm' Hup.
  assert (H : forall i, (i < n)%nat -> T i = T' i) by (eapply graph_temperatures_unique; eauto).
  split; [exact H|]. eapply graph_outlets_unique; eauto.
Qed.
Print Assumptions thermal_graph_solution_unique.

(* ---- 2. pipeline form: two fixed points of the thermal system that solve_temperature assembles (generated numpy
        or numba kernels, [tw]) for the same hydraulic solution ([same_hyd]: everything but TOUTINIT equal), constant
        heat capacity, all branches flowing and passive up to heat extraction / temperature lift ([conducting]), equal
        temperatures at the infeed nodes, every node downstream of an infeed node: all node temperatures and all
        outlet temperatures coincide, i.e. TINIT / TOUTINIT start values (tfluid_k) cannot show in a converged result *)
Theorem thermal_start_values_do_not_matter : forall tw cp c amb Tn Tn' isT n pbs pbs',
  0 < c -> (forall t, cp t = c) ->
  Forall2 same_hyd pbs pbs' ->
  fixed_point tw cp amb Tn isT n pbs ->
  fixed_point tw cp amb Tn' isT n pbs' ->
  Forall (conducting tw n) pbs ->
  (forall i, (i < n)%nat -> node_infeed tw cp amb Tn pbs i = true -> Tn i = Tn' i) ->
  (forall i, (i < n)%nat -> up (node_infeed tw cp amb Tn pbs) (edges_of tw cp Tn pbs) i) ->
  (forall i, (i < n)%nat -> Tn i = Tn' i) /\
  Forall2 (fun pb pb' => p_tout pb = p_tout pb') pbs pbs'.
Proof. exact thermal_fixed_points_coincide. Qed.
Print Assumptions thermal_start_values_do_not_matter.

(* ---- 3. the same with the graph hypothesis in checkable form (all nodes touched by flow, acyclic flow graph) *)
Theorem thermal_start_values_do_not_matter_acyclic : forall tw cp c amb Tn Tn' isT n pbs pbs' (rank : nat -> nat),
  0 < c -> (forall t, cp t = c) ->
  Forall2 same_hyd pbs pbs' ->
  fixed_point tw cp amb Tn isT n pbs ->
  fixed_point tw cp amb Tn' isT n pbs' ->
  Forall (conducting tw n) pbs ->
  (forall i, (i < n)%nat -> node_infeed tw cp amb Tn pbs i = true -> Tn i = Tn' i) ->
  (forall i, (i < n)%nat -> node_flow tw cp amb Tn pbs i = true) ->
  (forall pb, In pb pbs -> (rank (p_fnc pb) < rank (p_tnc pb))%nat) ->
  (forall i, (i < n)%nat -> Tn i = Tn' i) /\
  Forall2 (fun pb pb' => p_tout pb = p_tout pb') pbs pbs'.
Proof. exact thermal_fixed_points_coincide_acyclic. Qed.
Print Assumptions thermal_start_values_do_not_matter_acyclic.

(* ---- 4. non-vacuity: the hypotheses of theorem 3 hold for the concrete four-node net of C10/Example.v (two feeds
        at 370 K and 280 K mixing to 325 K, one branch flowing against its declaration) *)
Theorem thermal_hypotheses_satisfiable : forall amb : R,
  0 < 4000 /\ (forall t, ex_cp t = 4000) /\ Forall2 same_hyd ex_pbs ex_pbs /\
  fixed_point true ex_cp amb ex_T ex_isT 4 ex_pbs /\
  Forall (conducting true 4) ex_pbs /\
  (forall i, (i < 4)%nat -> node_flow true ex_cp amb ex_T ex_pbs i = true) /\
  (forall pb, In pb ex_pbs -> (p_fnc pb < p_tnc pb)%nat).
Proof.
  intros amb. destruct example_passive_acyclic as (Hp & Hr & _).
  split; [lra|]. split; [reflexivity|]. split; [repeat constructor; apply same_hyd_refl|].
  split; [apply example_fixed_point|]. split; [|split; [intros; apply flow_ex; assumption|exact Hr]].
  rewrite Forall_forall in *. intros pb H. eapply passive_conducting. apply Hp. exact H.
Qed.
Print Assumptions thermal_hypotheses_satisfiable.

(* ---- 5. hydraulics and heat transfer composed: on a solution of a passive level network (C08/Unique.v model; laws
        strictly increasing, phi(0) = 0, no lift / height term) whose branches and flows the thermal branches match
        position by position, the flow directions are ranked by pressure, so the acyclicity hypothesis of theorem 3 is
        discharged: two thermal fixed points for that hydraulic solution coincide *)
Theorem hydraulic_solution_ranks_the_flow_directions : forall tw n slack pfix load bs p ms pbs,
  solves n slack pfix load bs p ms -> in_range n bs -> Forall passive_law bs ->
  Forall2 matches pbs (combine bs ms) ->
  Forall (fun pb => p_flow tw pb = true) pbs ->
  exists rank : nat -> nat, forall pb, In pb pbs -> (rank (p_fnc pb) < rank (p_tnc pb))%nat.
Proof. exact flow_directions_are_ranked. Qed.
Print Assumptions hydraulic_solution_ranks_the_flow_directions.

Theorem thermal_start_values_do_not_matter_on_passive_networks :
  forall tw cp c amb Tn Tn' isT n pbs pbs' slack pfix load bs p ms,
  solves n slack pfix load bs p ms -> in_range n bs -> Forall passive_law bs ->
  Forall2 matches pbs (combine bs ms) ->
  0 < c -> (forall t, cp t = c) ->
  Forall2 same_hyd pbs pbs' ->
  fixed_point tw cp amb Tn isT n pbs ->
  fixed_point tw cp amb Tn' isT n pbs' ->
  Forall (conducting tw n) pbs ->
  (forall i, (i < n)%nat -> node_infeed tw cp amb Tn pbs i = true -> Tn i = Tn' i) ->
  (forall i, (i < n)%nat -> node_flow tw cp amb Tn pbs i = true) ->
  (forall i, (i < n)%nat -> Tn i = Tn' i) /\
  Forall2 (fun pb pb' => p_tout pb = p_tout pb') pbs pbs'.
Proof. exact coupled_start_values_do_not_matter. Qed.
Print Assumptions thermal_start_values_do_not_matter_on_passive_networks.
