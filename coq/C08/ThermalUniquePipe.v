(* C08 - thermal uniqueness in pipeline form: two fixed points of the thermal system that solve_temperature
   assembles (C10/Model + the generated kernels Gen/KThermNp, KThermNb, KThermExpr, KHooksHeat), for the same
   hydraulic solution (same branches, same mass flows), coincide - whatever TINIT / TOUTINIT they started from.

   Hypotheses: temperature-independent heat capacity; every branch flows, is no circulation pump and has a
   non-negative loss coefficient, length and diameter (heat extraction Q and temperature lift TL are arbitrary);
   both states are fixed points; they agree at the infeed nodes (whose rows are the identity, C10); every node is
   downstream of an infeed node.  Outside the theorem: stagnant branches / regions (the open C08 findings),
   temperature-dependent heat capacity (the weights then depend on the solution). *)
From Coq Require Import Reals Lra Lia List Bool Arith.
From PP Require Import Kern.RBool Gen.KThermNp Gen.KThermNb Gen.KThermExpr Gen.KHooksHeat C10.Spec C10.Model C10.Assembly
                       C10.Proofs C10.Global C10.GlobalPipe C08.ThermalUnique.
Import ListNotations.
Open Scope R_scope.

(* the same branch of the same hydraulic solution; only the outlet temperature may differ *)
Definition same_hyd (pb pb' : pbranch) : Prop :=
  p_from pb = p_from pb' /\ p_to pb = p_to pb' /\ p_m pb = p_m pb' /\ p_alpha pb = p_alpha pb' /\
  p_do pb = p_do pb' /\ p_len pb = p_len pb' /\ p_qext pb = p_qext pb' /\ p_text pb = p_text pb' /\
  p_tl pb = p_tl pb' /\ p_ident pb = p_ident pb'.

Definition conducting (tw : bool) (n : nat) (pb : pbranch) : Prop :=
  p_flow tw pb = true /\ p_ident pb = false /\ 0 <= p_alpha pb /\ 0 <= p_len pb /\ 0 <= p_do pb /\
  (p_from pb < n)%nat /\ (p_to pb < n)%nat.

Lemma same_hyd_graph tw pb pb' : same_hyd pb pb' ->
  p_fnc pb = p_fnc pb' /\ p_tnc pb = p_tnc pb' /\ p_flow tw pb = p_flow tw pb'.
Proof.
  intros (Hf & Ht & Hm & _). unfold p_fnc, p_tnc, p_sw, p_flow. rewrite Hf, Ht, Hm. auto.
Qed.

Lemma Forall2_map_nth {X Y} (P : X -> X -> Prop) (Q : Y -> Y -> Prop) (f g : X -> Y) : forall l l',
  Forall2 P l l' ->
  (forall k a b, nth_error l k = Some a -> nth_error l' k = Some b -> P a b -> Q (f a) (g b)) ->
  Forall2 Q (map f l) (map g l').
Proof.
  intros l l' H. induction H as [|a b l l' Hab _ IH]; intros HQ; simpl; constructor.
  - apply (HQ O a b); auto.
  - apply IH. intros k x y Hx Hy. apply (HQ (S k) x y); assumption.
Qed.

Section Indep.
  Variables (tw : bool) (cp : R -> R) (amb : R) (Tn Tn' : nat -> R).

  Lemma node_flow_indep : forall pbs pbs' i, Forall2 same_hyd pbs pbs' ->
    node_flow tw cp amb Tn pbs i = node_flow tw cp amb Tn' pbs' i.
  Proof.
    intros pbs pbs' i H. unfold node_flow, g_touches, bf.
    induction H as [|pb pb' l l' Hs _ IH]; [reflexivity|].
    cbn [map existsb fst snd]. rewrite IH.
    destruct (same_hyd_graph tw pb pb' Hs) as (Hf & Ht & Hfl).
    change (fnc (asm_branch tw cp amb Tn pb)) with (p_fnc pb).
    change (tnc (asm_branch tw cp amb Tn pb)) with (p_tnc pb).
    change (fnc (asm_branch tw cp amb Tn' pb')) with (p_fnc pb').
    change (tnc (asm_branch tw cp amb Tn' pb')) with (p_tnc pb').
    rewrite Hf, Ht, Hfl. reflexivity.
  Qed.

  Lemma node_infeed_indep : forall pbs pbs' i, Forall2 same_hyd pbs pbs' ->
    node_infeed tw cp amb Tn pbs i = node_infeed tw cp amb Tn' pbs' i.
  Proof.
    intros pbs pbs' i H. unfold node_infeed, g_infeed, bf.
    assert (H1 : existsb (fun p : @tbranch R * bool => snd p && Nat.eqb (fnc (fst p)) i)
                   (map (fun pb => (asm_branch tw cp amb Tn pb, p_flow tw pb)) pbs) =
                 existsb (fun p : @tbranch R * bool => snd p && Nat.eqb (fnc (fst p)) i)
                   (map (fun pb => (asm_branch tw cp amb Tn' pb, p_flow tw pb)) pbs')).
    { induction H as [|pb pb' l l' Hs _ IH]; [reflexivity|].
      cbn [map existsb fst snd]. rewrite IH. destruct (same_hyd_graph tw pb pb' Hs) as (Hf & Ht & Hfl).
      change (fnc (asm_branch tw cp amb Tn pb)) with (p_fnc pb).
      change (fnc (asm_branch tw cp amb Tn' pb')) with (p_fnc pb'). rewrite Hf, Hfl. reflexivity. }
    assert (H2 : existsb (fun p : @tbranch R * bool => snd p && Nat.eqb (tnc (fst p)) i)
                   (map (fun pb => (asm_branch tw cp amb Tn pb, p_flow tw pb)) pbs) =
                 existsb (fun p : @tbranch R * bool => snd p && Nat.eqb (tnc (fst p)) i)
                   (map (fun pb => (asm_branch tw cp amb Tn' pb, p_flow tw pb)) pbs')).
    { clear H1. induction H as [|pb pb' l l' Hs _ IH]; [reflexivity|].
      cbn [map existsb fst snd]. rewrite IH. destruct (same_hyd_graph tw pb pb' Hs) as (Hf & Ht & Hfl).
      change (tnc (asm_branch tw cp amb Tn pb)) with (p_tnc pb).
      change (tnc (asm_branch tw cp amb Tn' pb')) with (p_tnc pb'). rewrite Ht, Hfl. reflexivity. }
    rewrite H1, H2. reflexivity.
  Qed.
End Indep.

Theorem thermal_fixed_points_coincide : forall tw cp c amb Tn Tn' isT n pbs pbs',
  0 < c -> (forall t, cp t = c) ->
  Forall2 same_hyd pbs pbs' ->
  fixed_point tw cp amb Tn isT n pbs ->
  fixed_point tw cp amb Tn' isT n pbs' ->
  Forall (conducting tw n) pbs ->
  (forall i, (i < n)%nat -> node_infeed tw cp amb Tn pbs i = true -> Tn i = Tn' i) ->
  (forall i, (i < n)%nat -> up (node_infeed tw cp amb Tn pbs) (edges_of tw cp Tn pbs) i) ->
  (forall i, (i < n)%nat -> Tn i = Tn' i) /\
  Forall2 (fun pb pb' => p_tout pb = p_tout pb') pbs pbs'.
Proof.
  intros tw cp c amb Tn Tn' isT n pbs pbs' Hc Hcp Hsame Hfp Hfp' Hcond Hfeed Hup.
  rewrite Forall_forall in Hcond.
  assert (Hcbar : forall a b, cbar cp a b = c) by (intros; unfold cbar; rewrite !Hcp; lra).
  assert (Hin_e : forall e, In e (edges_of tw cp Tn pbs) -> exists pb, In pb pbs /\ e = edge_of tw cp Tn pb).
  { intros e He. unfold edges_of in He. apply in_map_iff in He. destruct He as [pb [<- Hp]]. eauto. }
  assert (H_range : forall e, In e (edges_of tw cp Tn pbs) -> (e_from e < n)%nat /\ (e_to e < n)%nat).
  { intros e He. destruct (Hin_e e He) as [pb [Hp ->]]. destruct (Hcond pb Hp) as (_&_&_&_&_&H1&H2).
    unfold edge_of, p_fnc, p_tnc; simpl. destruct (p_sw pb); split; assumption. }
  assert (H_w : forall e, In e (edges_of tw cp Tn pbs) -> 0 < e_w e).
  { intros e He. destruct (Hin_e e He) as [pb [Hp ->]]. destruct (Hcond pb Hp) as (Hf&_). simpl. unfold stream_w.
    rewrite Hf, Hcbar. pose proof (flows_pos _ (proj1 (p_flow_flows tw pb) Hf)).
    destruct tw; apply Rmult_lt_0_compat; try assumption; lra. }
  assert (Htwin : Forall2 (twin Tn Tn') (edges_of tw cp Tn pbs) (edges_of tw cp Tn' pbs')).
  { unfold edges_of. apply (Forall2_map_nth same_hyd (twin Tn Tn') (edge_of tw cp Tn) (edge_of tw cp Tn') pbs pbs' Hsame).
    intros k pb pb' Hk Hk' Hs.
    destruct (same_hyd_graph tw pb pb' Hs) as (Hf & Ht & Hfl).
    assert (Hp : In pb pbs) by (eapply nth_error_In; eauto).
    destruct (Hcond pb Hp) as (Hflow & Hid & Ha & HL & Hd & _).
    destruct Hs as (_ & _ & Hm & Hal & Hdo & Hlen & HQ & Htx & Htl & Hid').
    unfold twin, edge_of; simpl. repeat split; auto.
    - unfold stream_w. rewrite !Hcbar, Hfl, Hm. reflexivity.
    - destruct (branch_cooling_law_pipeline tw cp amb Tn isT n pbs k pb Hfp Hk Hid) as [Hlaw _].
      assert (Hid2 : p_ident pb' = false) by congruence.
      destruct (branch_cooling_law_pipeline tw cp amb Tn' isT n pbs' k pb' Hfp' Hk' Hid2) as [Hlaw' _].
      specialize (Hlaw Hflow). rewrite <- Hfl in Hlaw'. specialize (Hlaw' Hflow).
      rewrite Hcbar in Hlaw, Hlaw'. rewrite <- Hal, <- Hdo, <- Hlen, <- HQ, <- Htx, <- Htl, <- Hm, <- Hf in Hlaw'.
      pose proof (flows_pos _ (proj1 (p_flow_flows tw pb) Hflow)) as Hmpos.
      assert (Hx : 0 <= p_alpha pb * p_len pb * PI * p_do pb / (c * Rabs (p_m pb))).
      { apply Rmult_le_pos; [|left; apply Rinv_0_lt_compat; apply Rmult_lt_0_compat; assumption].
        pose proof PI_RGT_0. apply Rmult_le_pos; [apply Rmult_le_pos; [apply Rmult_le_pos|]|]; lra. }
      destruct (exp_neg_le_1 _ Hx) as [H0 H1].
      exists (exp (- (p_alpha pb * p_len pb * PI * p_do pb / (c * Rabs (p_m pb))))). split; [lra|].
      rewrite Hlaw, Hlaw'. unfold spec_T_out. ring. }
  assert (Hnf : forall i, (i < n)%nat -> node_infeed tw cp amb Tn pbs i = false -> node_flow tw cp amb Tn pbs i = true).
  { intros i Hi Hinf. pose proof (Hup i Hi) as Hu. inversion Hu as [j Hj|e He Hue]; subst; [congruence|].
    destruct (Hin_e e He) as [pb [Hp ->]]. destruct (Hcond pb Hp) as (Hf&_).
    unfold node_flow, g_touches, bf. apply existsb_exists. exists (asm_branch tw cp amb Tn pb, p_flow tw pb).
    split; [apply in_map_iff; exists pb; auto|]. simpl. rewrite Hf. simpl.
    change (tnc (asm_branch tw cp amb Tn pb)) with (p_tnc pb). simpl. rewrite Nat.eqb_refl. apply orb_true_r. }
  assert (Hnodes : forall i, (i < n)%nat -> Tn i = Tn' i).
  { apply (graph_temperatures_unique n Tn Tn' (node_infeed tw cp amb Tn pbs)
             (edges_of tw cp Tn pbs) (edges_of tw cp Tn' pbs') Htwin H_range H_w Hfeed).
    - intros i Hi Hinf. rewrite gmix_mixsum.
      apply (node_mixing_law_pipeline tw cp amb Tn isT n pbs i Hfp Hi Hinf (Hnf i Hi Hinf)).
    - intros i Hi Hinf. rewrite gmix_mixsum.
      apply (node_mixing_law_pipeline tw cp amb Tn' isT n pbs' i Hfp' Hi).
      + rewrite <- (node_infeed_indep tw cp amb Tn Tn' pbs pbs' i Hsame). exact Hinf.
      + rewrite <- (node_flow_indep tw cp amb Tn Tn' pbs pbs' i Hsame). apply Hnf; assumption.
    - exact Hup. }
  split; [exact Hnodes|].
  pose proof (graph_outlets_unique n Tn Tn' (edges_of tw cp Tn pbs) (edges_of tw cp Tn' pbs') Htwin H_range Hnodes) as Ho.
  clear - Ho Hsame. unfold edges_of in Ho. revert Ho. induction Hsame as [|pb pb' l l' _ _ IH]; intros Ho; constructor.
  - inversion Ho; subst. assumption.
  - apply IH. inversion Ho; subst. assumption.
Qed.

(* the graph hypothesis in checkable form: every node touched by flow, flow graph acyclic *)
Theorem thermal_fixed_points_coincide_acyclic : forall tw cp c amb Tn Tn' isT n pbs pbs' (rank : nat -> nat),
  0 < c -> (forall t, cp t = c) ->
  Forall2 same_hyd pbs pbs' ->
  fixed_point tw cp amb Tn isT n pbs ->
  fixed_point tw cp amb Tn' isT n pbs' ->
  Forall (conducting tw n) pbs ->
  (forall i, (i < n)%nat -> node_infeed tw cp amb Tn pbs i = true -> Tn i = Tn' i) ->
  (forall i, (i < n)%nat -> node_flow tw cp amb Tn pbs i = true) ->
  (forall pb, In pb pbs -> (rank (p_fnc pb) < rank (p_tnc pb))%nat) ->
  (forall i, (i < n)%nat -> Tn i = Tn' i) /\
  Forall2 (fun pb pb' => p_tout pb = p_tout pb') pbs pbs'.
Proof.
  intros tw cp c amb Tn Tn' isT n pbs pbs' rank Hc Hcp Hsame Hfp Hfp' Hcond Hfeed Hflow Hrank.
  apply (thermal_fixed_points_coincide tw cp c amb Tn Tn' isT n pbs pbs' Hc Hcp Hsame Hfp Hfp' Hcond Hfeed).
  pose proof Hcond as Hcond'. rewrite Forall_forall in Hcond'.
  apply (up_from_rank n (node_infeed tw cp amb Tn pbs) (edges_of tw cp Tn pbs) rank).
  - intros e He. unfold edges_of in He. apply in_map_iff in He. destruct He as [pb [<- Hp]].
    destruct (Hcond' pb Hp) as (_&_&_&_&_&H1&H2). unfold edge_of, p_fnc, p_tnc; simpl. destruct (p_sw pb); split; assumption.
  - intros e He. unfold edges_of in He. apply in_map_iff in He. destruct He as [pb [<- Hp]]. simpl. apply Hrank. assumption.
  - intros i Hi Hnf. destruct (noninfeed_has_inflow tw cp amb Tn pbs i (Hflow i Hi) Hnf) as [pb [Hp [_ Ht]]].
    exists (edge_of tw cp Tn pb). split; [unfold edges_of; apply in_map; assumption|exact Ht].
Qed.

Lemma passive_conducting tw n lo hi pb : passive tw n lo hi pb -> conducting tw n pb.
Proof. intros (H1&H2&_&_&H3&H4&H5&H6&H7&_). repeat split; assumption. Qed.

Lemma same_hyd_refl pb : same_hyd pb pb.
Proof. repeat split. Qed.
