(* C08 - property theorems: passive level networks have an acyclic flow graph (the [rank] hypothesis of
   thermal_start_values_do_not_matter_acyclic).  Statements only; proofs in C08/FlowAcyclic.v. *)
From Coq Require Import Reals List Lra Arith Lia Bool.
From PP Require Import C08.Unique C08.FlowAcyclic.
Import ListNotations.
Open Scope R_scope.

(* flow runs from the higher to the lower pressure in every passive level branch of a solution *)
Theorem flow_runs_downhill_in_passive_branches : forall n slack pfix load bs p ms b m,
  solves n slack pfix load bs p ms -> In (b, m) (combine bs ms) -> passive_law b ->
  (0 < m -> p (tn b) < p (fn b)) /\ (m < 0 -> p (fn b) < p (tn b)) /\ (m = 0 -> p (fn b) = p (tn b)).
Proof. exact passive_flow_runs_downhill. Qed.
Print Assumptions flow_runs_downhill_in_passive_branches.

(* hence a rank (number of nodes at higher pressure) strictly increases along the flow direction of every flowing branch *)
Theorem passive_flow_graph_has_a_rank : forall n slack pfix load bs p ms,
  solves n slack pfix load bs p ms -> in_range n bs -> Forall passive_law bs ->
  exists rank : nat -> nat, forall b m, In (b, m) (combine bs ms) ->
    (0 < m -> (rank (fn b) < rank (tn b))%nat) /\ (m < 0 -> (rank (tn b) < rank (fn b))%nat).
Proof. exact passive_flow_graph_acyclic. Qed.
Print Assumptions passive_flow_graph_has_a_rank.

(* and no closed walk along flow directions exists *)
Theorem passive_network_has_no_flow_cycle : forall n slack pfix load bs p ms i,
  solves n slack pfix load bs p ms -> in_range n bs -> Forall passive_law bs ->
  ~ flow_walk (combine bs ms) i i.
Proof. exact FlowAcyclic.passive_network_has_no_flow_cycle. Qed.
Print Assumptions passive_network_has_no_flow_cycle.

(* non-vacuity: a two-node net (slack at 1 bar, a load of 1 at node 1, one branch with the law m |-> m) is a solution
   with a passive law *)
Theorem passive_solution_exists :
  let b := {| fn := 0; tn := 1; phi := fun m => m; cst := 0 |} in
  solves 2 (fun i => Nat.eqb i 0) (fun _ => 1) (fun _ => 1) [b] (fun i => if Nat.eqb i 0 then 1 else 0) [1] /\
  in_range 2 [b] /\ Forall passive_law [b].
Proof.
  intros b. split; [|split].
  - constructor.
    + reflexivity.
    + intros i Hi Hs. apply Nat.eqb_eq in Hs. subst. reflexivity.
    + intros i Hi Hs. destruct i as [|[|i]]; [discriminate| |lia]. simpl. unfold ind. simpl. lra.
    + constructor; [simpl; lra|constructor].
  - repeat constructor.
  - repeat constructor; unfold strictly_increasing; simpl; intros; lra.
Qed.
Print Assumptions passive_solution_exists.
