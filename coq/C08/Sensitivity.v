(* C08 - how sharply a converged residual determines a nearly stagnant flow.

   The turbulent branch law is c * m|m| (c > 0; plus, for Re > 1e-8, a laminar term c1 * m with c1 >= 0).  Near m = 0 the
   quadratic part has a double root, so a pressure residual of size eps pins the flow down only to sqrt(2 eps / c):

       | phi(m) - phi(m') | <= eps   ->   (m - m')^2 <= 2 eps / c           (and this is sharp up to the factor 2:
                                                                             m = sqrt(eps/c), m' = 0)

   This is the derivation behind the monitor's "stalled flow" allowance (tools/props/c08.py, compare): two converged
   runs may legitimately differ by ~sqrt(tol) in a flow that is (nearly) zero, although every pressure agrees to tol.
   With a laminar term of slope c1 > 0 the linear bound |m - m'| <= eps / c1 holds as well. *)
From Coq Require Import Reals Lra.
Open Scope R_scope.

Definition quad (m : R) : R := m * Rabs m.

Lemma quad_gap : forall a b, (a - b) * (a - b) / 2 <= Rabs (quad a - quad b).
Proof.
  intros a b. unfold quad.
  pose proof (Rle_0_sqr a) as Sa. pose proof (Rle_0_sqr b) as Sb. pose proof (Rle_0_sqr (a + b)) as Sab.
  pose proof (Rle_0_sqr (a - b)) as Sd. unfold Rsqr in *.
  destruct (Rle_or_lt 0 a) as [Ha|Ha]; destruct (Rle_or_lt 0 b) as [Hb|Hb].
  - rewrite (Rabs_pos_eq a Ha), (Rabs_pos_eq b Hb).
    destruct (Rle_or_lt b a).
    + rewrite Rabs_pos_eq by nra. nra.
    + rewrite Rabs_left1 by nra. nra.
  - rewrite (Rabs_pos_eq a Ha), (Rabs_left b Hb). rewrite Rabs_pos_eq by nra. nra.
  - rewrite (Rabs_left a Ha), (Rabs_pos_eq b Hb). rewrite Rabs_left1 by nra. nra.
  - rewrite (Rabs_left a Ha), (Rabs_left b Hb).
    destruct (Rle_or_lt b a).
    + rewrite Rabs_pos_eq by nra. nra.
    + rewrite Rabs_left1 by nra. nra.
Qed.

(* monotone: the laminar term only helps *)
Lemma quad_mono : forall a b, a <= b -> quad a <= quad b.
Proof.
  intros a b H. unfold quad.
  destruct (Rle_or_lt 0 a) as [Ha|Ha]; destruct (Rle_or_lt 0 b) as [Hb|Hb].
  - rewrite (Rabs_pos_eq a Ha), (Rabs_pos_eq b Hb). nra.
  - lra.
  - rewrite (Rabs_left a Ha), (Rabs_pos_eq b Hb). nra.
  - rewrite (Rabs_left a Ha), (Rabs_left b Hb). nra.
Qed.

Theorem stalled_flow_sensitivity : forall c c1 eps m m',
  0 < c -> 0 <= c1 -> 0 <= eps ->
  Rabs ((c * quad m + c1 * m) - (c * quad m' + c1 * m')) <= eps ->
  (m - m') * (m - m') <= 2 * eps / c /\ c1 * Rabs (m - m') <= eps.
Proof.
  intros c c1 eps m m' Hc Hc1 He H.
  pose proof (quad_gap m m') as Hg.
  assert (Hsame : Rabs (c * (quad m - quad m')) + c1 * Rabs (m - m') =
                  Rabs ((c * quad m + c1 * m) - (c * quad m' + c1 * m'))).
  { destruct (Rle_or_lt m' m) as [Hle|Hlt].
    - pose proof (quad_mono m' m Hle). rewrite !Rabs_pos_eq by nra. ring.
    - pose proof (quad_mono m m' (Rlt_le _ _ Hlt)). rewrite !Rabs_left1 by nra. ring. }
  assert (Hq : Rabs (c * (quad m - quad m')) = c * Rabs (quad m - quad m')).
  { rewrite Rabs_mult, (Rabs_pos_eq c) by lra. reflexivity. }
  assert (Hpos : 0 <= c1 * Rabs (m - m')) by (apply Rmult_le_pos; [lra|apply Rabs_pos]).
  assert (Hpos2 : 0 <= c * Rabs (quad m - quad m')) by (apply Rmult_le_pos; [lra|apply Rabs_pos]).
  split; [|lra].
  assert (Hb : c * ((m - m') * (m - m') / 2) <= eps) by nra.
  apply Rmult_le_reg_l with (r := c); [lra|].
  replace (c * (2 * eps / c)) with (2 * eps) by (field; lra). nra.
Qed.

(* sharpness: the bound is attained up to the factor 2 *)
Theorem stalled_flow_sensitivity_sharp : forall c eps, 0 < c -> 0 <= eps ->
  exists m m', Rabs ((c * quad m + 0 * m) - (c * quad m' + 0 * m')) <= eps /\ (m - m') * (m - m') = eps / c.
Proof.
  intros c eps Hc He. exists (sqrt (eps / c)), 0.
  assert (Hd : 0 <= eps / c) by (apply Rmult_le_pos; [lra|left; apply Rinv_0_lt_compat; lra]).
  pose proof (sqrt_pos (eps / c)) as Hs. pose proof (sqrt_sqrt _ Hd) as Hss.
  unfold quad. rewrite (Rabs_pos_eq _ Hs), Rabs_R0. split.
  - replace (c * (sqrt (eps / c) * sqrt (eps / c)) + 0 * sqrt (eps / c) - (c * (0 * 0) + 0 * 0)) with (c * (sqrt (eps / c) * sqrt (eps / c))) by ring.
    rewrite Hss. replace (c * (eps / c)) with eps by (field; lra). rewrite Rabs_pos_eq; lra.
  - rewrite Rminus_0_r. exact Hss.
Qed.
