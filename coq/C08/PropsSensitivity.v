(* C08 - property theorems: what "beyond the solver tolerance" means for a nearly stagnant flow.  Statements only;
   proofs in C08/Sensitivity.v.  These derive the "stalled flow" allowance of the C08 / C09 monitors. *)
From Coq Require Import Reals Lra.
From PP Require Import C08.Sensitivity.
Open Scope R_scope.

(* a residual of size eps in the branch law  c m|m| + c1 m  (c > 0 turbulent, c1 >= 0 laminar coefficient) determines the
   flow to sqrt(2 eps / c), and to eps / c1 when there is a laminar term *)
Theorem converged_residual_bounds_flow_difference : forall c c1 eps m m',
  0 < c -> 0 <= c1 -> 0 <= eps ->
  Rabs ((c * quad m + c1 * m) - (c * quad m' + c1 * m')) <= eps ->
  (m - m') * (m - m') <= 2 * eps / c /\ c1 * Rabs (m - m') <= eps.
Proof. exact stalled_flow_sensitivity. Qed.
Print Assumptions converged_residual_bounds_flow_difference.

(* no better bound than sqrt(eps / c) exists for the purely quadratic law: two flows that far apart have residuals
   within eps of each other *)
Theorem square_root_sensitivity_is_sharp : forall c eps, 0 < c -> 0 <= eps ->
  exists m m', Rabs ((c * quad m + 0 * m) - (c * quad m' + 0 * m')) <= eps /\ (m - m') * (m - m') = eps / c.
Proof. exact stalled_flow_sensitivity_sharp. Qed.
Print Assumptions square_root_sensitivity_is_sharp.
