(* C08 - hydraulics and heat transfer composed: for a network of passive level branches the hydraulic solution of
   C08/Unique.v orders the nodes by pressure, the thermal system of C10 is assembled on the flow directions of that
   solution, and therefore (C08/FlowAcyclic.v + C08/ThermalUniquePipe.v) two thermal fixed points for that hydraulic
   solution coincide - no [rank] hypothesis left.  The thermal branches [pbs] are matched position by position with the
   hydraulic branches and their flows ([matches]). *)
From Coq Require Import Reals Lra Lia List Bool Arith.
From PP Require Import Kern.RBool Gen.KThermNp Gen.KThermNb Gen.KThermExpr Gen.KHooksHeat C10.Spec C10.Model C10.Assembly
                       C10.Proofs C10.Global C10.GlobalPipe C08.Unique C08.FlowAcyclic C08.ThermalUnique
                       C08.ThermalUniquePipe.
Import ListNotations.
Open Scope R_scope.

Definition matches (pb : pbranch) (bm : branch * R) : Prop :=
  p_from pb = fn (fst bm) /\ p_to pb = tn (fst bm) /\ p_m pb = snd bm.

Lemma Forall2_In_l {X Y} (P : X -> Y -> Prop) l l' x : Forall2 P l l' -> In x l -> exists y, In y l' /\ P x y.
Proof.
  intros H. induction H as [|a b l l' Hab _ IH]; simpl; [tauto|].
  intros [->|Hin]; [exists b; auto|]. destruct (IH Hin) as [y [Hy Hp]]. exists y. auto.
Qed.

Lemma switched_iff_negative m : flows m -> (dir_switched m = true <-> m < 0).
Proof.
  intros H. unfold flows, dir_switched, switch_threshold in *.
  destruct (Rltb_spec m (- (1 / 50000000000))); split; intros; auto; try discriminate; try lra;
    exfalso; revert H; unfold Rabs; destruct (Rcase_abs m); lra.
Qed.

Lemma flows_nonzero m : flows m -> m < 0 \/ 0 < m.
Proof. unfold flows, Rabs. destruct (Rcase_abs m); intros; lra. Qed.

Theorem flow_directions_are_ranked : forall tw n slack pfix load bs p ms pbs,
  solves n slack pfix load bs p ms -> in_range n bs -> Forall passive_law bs ->
  Forall2 matches pbs (combine bs ms) ->
  Forall (fun pb => p_flow tw pb = true) pbs ->
  exists rank : nat -> nat, forall pb, In pb pbs -> (rank (p_fnc pb) < rank (p_tnc pb))%nat.
Proof.
  intros tw n slack pfix load bs p ms pbs S Hr Hp Hm Hfl.
  destruct (passive_flow_graph_acyclic _ _ _ _ _ _ _ S Hr Hp) as [rank Hrank].
  exists rank. intros pb Hin. rewrite Forall_forall in Hfl.
  destruct (Forall2_In_l _ _ _ _ Hm Hin) as [[b m] [Hbm (Hf & Ht & Hmm)]]. simpl in Hf, Ht, Hmm.
  pose proof (proj1 (p_flow_flows tw pb) (Hfl pb Hin)) as Hflows.
  destruct (Hrank b m Hbm) as [Hpos Hneg].
  unfold p_fnc, p_tnc, p_sw. rewrite Hf, Ht.
  destruct (flows_nonzero _ Hflows) as [Hlt|Hgt].
  - rewrite (proj2 (switched_iff_negative _ Hflows) Hlt). apply Hneg. lra.
  - destruct (dir_switched (p_m pb)) eqn:E.
    + apply (switched_iff_negative _ Hflows) in E. lra.
    + apply Hpos. lra.
Qed.

Theorem coupled_start_values_do_not_matter : forall tw cp c amb Tn Tn' isT n pbs pbs' slack pfix load bs p ms,
  (* hydraulics: a solution of a passive level network *)
  solves n slack pfix load bs p ms -> in_range n bs -> Forall passive_law bs ->
  Forall2 matches pbs (combine bs ms) ->
  (* heat transfer: two fixed points on that solution *)
  0 < c -> (forall t, cp t = c) ->
  Forall2 same_hyd pbs pbs' ->
  fixed_point tw cp amb Tn isT n pbs ->
  fixed_point tw cp amb Tn' isT n pbs' ->
  Forall (conducting tw n) pbs ->
  (forall i, (i < n)%nat -> node_infeed tw cp amb Tn pbs i = true -> Tn i = Tn' i) ->
  (forall i, (i < n)%nat -> node_flow tw cp amb Tn pbs i = true) ->
  (forall i, (i < n)%nat -> Tn i = Tn' i) /\
  Forall2 (fun pb pb' => p_tout pb = p_tout pb') pbs pbs'.
Proof.
  intros tw cp c amb Tn Tn' isT n pbs pbs' slack pfix load bs p ms S Hr Hp Hm Hc Hcp Hsame Hfp Hfp' Hcond Hfeed Hflow.
  assert (Hfl : Forall (fun pb => p_flow tw pb = true) pbs).
  { rewrite Forall_forall in *. intros pb H. destruct (Hcond pb H) as [Hf _]. exact Hf. }
  destruct (flow_directions_are_ranked tw n slack pfix load bs p ms pbs S Hr Hp Hm Hfl) as [rank Hrank].
  apply (thermal_fixed_points_coincide_acyclic tw cp c amb Tn Tn' isT n pbs pbs' rank); assumption.
Qed.
