(* C08 - in a network of passive level branches the flow graph is acyclic.

   Over the hydraulic model of C08/Unique.v: if every branch law is strictly increasing with phi(0) = 0 and there is no
   lift / height term (cst = 0), a solution's flow runs from the higher to the lower pressure in every branch, so the
   number of nodes with a higher pressure is a rank that strictly increases along the flow direction of every flowing
   branch.  This is the [rank] hypothesis of the thermal uniqueness theorem in checkable form
   (thermal_start_values_do_not_matter_acyclic): without pumps, compressors and height differences a flow cycle cannot
   exist.  (With lift elements it can - e.g. a heating loop through a circulation pump - and there the pump's outlet is
   an infeed node with fixed temperature, which cuts the cycle.) *)
From Coq Require Import Reals List Lra Arith Lia Bool.
From PP Require Import C08.Unique.
Import ListNotations.
Open Scope R_scope.

Definition higher (p : nat -> R) (i j : nat) : bool := if Rlt_dec (p i) (p j) then true else false.
Definition count (f : nat -> bool) (l : list nat) : nat := length (filter f l).
(* number of nodes with a pressure above node i's *)
Definition rank_of (p : nat -> R) (n i : nat) : nat := count (higher p i) (seq 0 n).

Lemma count_lt (f g : nat -> bool) (l : list nat) x0 :
  (forall x, In x l -> f x = true -> g x = true) -> In x0 l -> f x0 = false -> g x0 = true ->
  (count f l < count g l)%nat.
Proof.
  unfold count. induction l as [|x l IH]; intros Hsub Hin Hf Hg; [destruct Hin|].
  assert (Hle : forall l', (forall y, In y l' -> f y = true -> g y = true) ->
                           (length (filter f l') <= length (filter g l'))%nat).
  { induction l' as [|y l' IH']; intros H; simpl; [lia|].
    assert (H' : forall z, In z l' -> f z = true -> g z = true) by (intros; apply H; [right|]; assumption).
    specialize (IH' H'). destruct (f y) eqn:Ef.
    - rewrite (H y (or_introl eq_refl) Ef). simpl. lia.
    - destruct (g y); simpl; lia. }
  assert (Hsub' : forall y, In y l -> f y = true -> g y = true) by (intros; apply Hsub; [right|]; assumption).
  simpl. destruct Hin as [->|Hin].
  - rewrite Hf, Hg. simpl. pose proof (Hle l Hsub'). lia.
  - specialize (IH Hsub' Hin Hf Hg). destruct (f x) eqn:Ef.
    + rewrite (Hsub x (or_introl eq_refl) Ef). simpl. lia.
    + destruct (g x); simpl; lia.
Qed.

Lemma rank_lt p n a b : (a < n)%nat -> p b < p a -> (rank_of p n a < rank_of p n b)%nat.
Proof.
  intros Ha Hp. unfold rank_of. apply (count_lt _ _ _ a).
  - intros x _. unfold higher. destruct (Rlt_dec (p a) (p x)); [|discriminate]. intros _.
    destruct (Rlt_dec (p b) (p x)); [reflexivity|lra].
  - apply in_seq. lia.
  - unfold higher. destruct (Rlt_dec (p a) (p a)); [lra|reflexivity].
  - unfold higher. destruct (Rlt_dec (p b) (p a)); [reflexivity|lra].
Qed.

Definition passive_law (b : branch) : Prop := strictly_increasing (phi b) /\ phi b 0 = 0 /\ cst b = 0.

Lemma law_in n slack pfix load bs p ms b m :
  solves n slack pfix load bs p ms -> In (b, m) (combine bs ms) -> p (fn b) - p (tn b) + cst b = phi b m.
Proof.
  intros S. pose proof (s_law _ _ _ _ _ _ _ S) as H. clear S.
  induction H as [|b' m' l l' Hb _ IH]; simpl; [tauto|].
  intros [E|Hin]; [inversion E; subst; exact Hb|apply IH; exact Hin].
Qed.

Theorem passive_flow_runs_downhill : forall n slack pfix load bs p ms b m,
  solves n slack pfix load bs p ms -> In (b, m) (combine bs ms) -> passive_law b ->
  (0 < m -> p (tn b) < p (fn b)) /\ (m < 0 -> p (fn b) < p (tn b)) /\ (m = 0 -> p (fn b) = p (tn b)).
Proof.
  intros n slack pfix load bs p ms b m S Hin (Hinc & H0 & Hc).
  pose proof (law_in _ _ _ _ _ _ _ _ _ S Hin) as Hl. rewrite Hc in Hl.
  repeat split; intros Hm.
  - pose proof (Hinc 0 m Hm). lra.
  - pose proof (Hinc m 0 Hm). lra.
  - subst m. lra.
Qed.

Theorem passive_flow_graph_acyclic : forall n slack pfix load bs p ms,
  solves n slack pfix load bs p ms -> in_range n bs -> Forall passive_law bs ->
  exists rank : nat -> nat, forall b m, In (b, m) (combine bs ms) ->
    (0 < m -> (rank (fn b) < rank (tn b))%nat) /\ (m < 0 -> (rank (tn b) < rank (fn b))%nat).
Proof.
  intros n slack pfix load bs p ms S Hr Hp. exists (rank_of p n). intros b m Hin.
  assert (Hb : In b bs) by (eapply in_combine_l; eauto).
  unfold in_range in Hr. rewrite Forall_forall in Hr, Hp. destruct (Hr b Hb) as [Hf Ht].
  destruct (passive_flow_runs_downhill _ _ _ _ _ _ _ _ _ S Hin (Hp b Hb)) as (Hpos & Hneg & _).
  split; intros Hm; apply rank_lt; auto.
Qed.

(* consequence: no directed flow cycle - stated for a closed walk of flowing branches traversed in flow direction *)
Inductive flow_walk (bm : list (branch * R)) : nat -> nat -> Prop :=
| fw_fwd b m : In (b, m) bm -> 0 < m -> flow_walk bm (fn b) (tn b)
| fw_bwd b m : In (b, m) bm -> m < 0 -> flow_walk bm (tn b) (fn b)
| fw_trans i j k : flow_walk bm i j -> flow_walk bm j k -> flow_walk bm i k.

Theorem passive_network_has_no_flow_cycle : forall n slack pfix load bs p ms i,
  solves n slack pfix load bs p ms -> in_range n bs -> Forall passive_law bs ->
  ~ flow_walk (combine bs ms) i i.
Proof.
  intros n slack pfix load bs p ms i S Hr Hp Hw.
  destruct (passive_flow_graph_acyclic _ _ _ _ _ _ _ S Hr Hp) as [rank Hrank].
  assert (H : forall a b, flow_walk (combine bs ms) a b -> (rank a < rank b)%nat).
  { intros a b W. induction W as [b m Hin Hm|b m Hin Hm|x y z _ IH1 _ IH2].
    - apply (proj1 (Hrank b m Hin) Hm).
    - apply (proj2 (Hrank b m Hin) Hm).
    - lia. }
  specialize (H i i Hw). lia.
Qed.
