(* C12 - abstract state model of one pipeflow call (definitions only, no proofs).

   The net object is a finite map  key -> value.  Keys are the top-level entries of the net
   ("junction", "pipe", "fluid", "_pit", "res_pipe", "converged", ...) plus the one sub-entry the
   property itself singles out, "user_pf_options.hyd_flag".
     user part U     : every key that is not internal (element tables, fluid, std_types, name, sector,
                       component_list, user_pf_options without hyd_flag)
     internal part I : keys starting with "_", "converged", "res_*", "user_pf_options.hyd_flag"

   A call of pipeflow in a given configuration (mode, only_update_hydraulic_matrix,
   reuse_internal_data) is a program [prog] GENERATED from the Python sources by
   tools/translate/effects.py (Gen/Effects.v): reads, writes and copies of keys in program order,
   branches, loops, raises, and the loops over net["component_list"].

   Semantics: everything the Python code computes can depend on everything it has read so far in this
   call (the log, which starts with the caller's arguments).  So
     - a written value is an ARBITRARY function [fw] of (writing function, key, log),
     - a branch / loop decision is an ARBITRARY function [fb] of (log, decision counter),
     - which component classes are present is an ARBITRARY function [present] of the value of
       "component_list".
   Theorems quantify over all such functions, all value types, all states and all loop bounds. *)
From Coq Require Import String List Bool Arith.
Import ListNotations.
Open Scope string_scope.

Definition key := string.

Inductive prog :=
| Skip
| Rd (f : nat) (k : key)            (* function number f reads key k *)
| Wr (f : nat) (k : key)            (* f (re)binds / partially overwrites key k *)
| Del (f : nat) (k : key)           (* f removes key k (net.pop / del) *)
| Cp (f : nat) (dst src : key)      (* dst := src without looking at it (dict merge, deepcopy) *)
| Abort (f : nat)                   (* raise *)
| Seq (p q : prog)
| Choice (p q : prog)               (* if / short-circuit / try *)
| Loop (p : prog)                   (* for / while / comprehension / bounded recursion *)
| IfComp (c : nat) (p : prog).      (* body of `for comp in net["component_list"]` for class c *)

(* ---------------------------------------------------------------- classification of keys *)
Definition is_internal (k : key) : bool :=
  prefix "_" k || String.eqb k "converged" || prefix "res_" k || String.eqb k "user_pf_options.hyd_flag".
Definition is_user (k : key) : bool := negb (is_internal k).

Definition CL : key := "component_list".

Fixpoint mem (k : key) (l : list key) : bool :=
  match l with [] => false | x :: r => String.eqb k x || mem k r end.

Fixpoint memp (c : nat) (k : key) (l : list (nat * key)) : bool :=
  match l with [] => false | (c', k') :: r => (Nat.eqb c c' && String.eqb k k') || memp c k r end.

Fixpoint memk (k : key) (l : list (nat * key)) : bool :=
  match l with [] => false | (_, k') :: r => String.eqb k k' || memk k r end.

Fixpoint inter (a b : list key) : list key :=
  match a with [] => [] | x :: r => if mem x b then x :: inter r b else inter r b end.

Fixpoint interp (a b : list (nat * key)) : list (nat * key) :=
  match a with [] => [] | (c, k) :: r => if memp c k b then (c, k) :: interp r b else interp r b end.

Definition add (k : key) (l : list key) : list key := if mem k l then l else k :: l.

Definition addp (c : nat) (ks : list key) (dp : list (nat * key)) : list (nat * key) :=
  fold_right (fun k acc => if memp c k acc then acc else (c, k) :: acc) dp ks.

(* ---------------------------------------------------------------- frame check *)
(* does the program (re)bind a user key? *)
Fixpoint writes_user (p : prog) : bool :=
  match p with
  | Skip | Rd _ _ | Abort _ => false
  | Wr _ k | Del _ k => is_user k
  | Cp _ d _ => is_user d
  | Seq a b | Choice a b => writes_user a || writes_user b
  | Loop a | IfComp _ a => writes_user a
  end.

(* first offending (function, key), for diagnostics *)
Fixpoint first_user_write (p : prog) : option (nat * key) :=
  match p with
  | Skip | Rd _ _ | Abort _ => None
  | Wr f k | Del f k => if is_user k then Some (f, k) else None
  | Cp f d _ => if is_user d then Some (f, d) else None
  | Seq a b | Choice a b => match first_user_write a with Some x => Some x | None => first_user_write b end
  | Loop a | IfComp _ a => first_user_write a
  end.

(* ---------------------------------------------------------------- def-use scan *)
(* D : keys (re)written on every path so far in this call;
   DP: (class, key): (re)written on every path so far if that class is in the component list *)
Definition dset := (list key * list (nat * key))%type.

Inductive verdict :=
| Reject (f : nat) (k : key)        (* f reads internal key k that this call has not written *)
| Top                               (* every path raises *)
| Ok (d : dset).

Section Scan.
  Variable E : list key.            (* named exceptions: internal keys a call may read from before *)

  Definition defd (cur : option nat) (d : dset) (k : key) : bool :=
    is_user k || mem k E || mem k (fst d) ||
    match cur with Some c => memp c k (snd d) | None => false end.

  Fixpoint scan (cur : option nat) (p : prog) (d : dset) : verdict :=
    match p with
    | Skip => Ok d
    | Rd f k => if defd cur d k then Ok d else Reject f k
    | Wr f k | Del f k => if String.eqb k CL then Reject f k else Ok (add k (fst d), snd d)
    | Cp f dst src =>
        if String.eqb dst CL then Reject f dst
        else if defd cur d src then Ok (add dst (fst d), snd d)
        else if is_user dst || mem dst E || mem dst (fst d) || memk dst (snd d) then Reject f dst
        else Ok d
    | Abort _ => Top
    | Seq a b => match scan cur a d with Ok d' => scan cur b d' | v => v end
    | Choice a b =>
        match scan cur a d, scan cur b d with
        | Reject f k, _ => Reject f k
        | _, Reject f k => Reject f k
        | Top, v => v
        | v, Top => v
        | Ok x, Ok y => Ok (inter (fst x) (fst y), interp (snd x) (snd y))
        end
    | Loop a => match scan cur a d with Reject f k => Reject f k | _ => Ok d end
    | IfComp c a =>
        (* inside the body the facts recorded for class c may be used (also when this loop is nested in the
           body of another class: a handler that re-initialises all result tables) *)
        match scan (Some c) a d with
        | Reject f k => Reject f k
        | Top => Ok d
        | Ok d' => Ok (fst d, addp c (filter (fun k => negb (mem k (fst d))) (fst d')) (snd d))
        end
    end.
End Scan.

Definition accepts (E : list key) (p : prog) : bool :=
  match scan E None p ([], []) with Reject _ _ => false | _ => true end.

Definition final_dset (E : list key) (p : prog) : dset :=
  match scan E None p ([], []) with Ok d => d | _ => ([], []) end.

(* ---------------------------------------------------------------- what a call leaves in one key *)
(* effect of one execution path on a key k: untouched, last action a write, last action a deletion *)
(* Emptied: the last action bound the key to a fresh EMPTY container (net[k] = dict()): for every reader of a cache
   key that is the same as an absent key (membership tests fail, the "create if absent" branch writes the same) *)
Inductive effect := Untouched | Written | Deleted | Emptied.

Record eset := mkE { eU : bool; eW : bool; eD : bool; eE : bool }.      (* set of possible effects *)

Definition e_in (e : effect) (x : eset) : bool :=
  match e with Untouched => eU x | Written => eW x | Deleted => eD x | Emptied => eE x end.
Definition e_empty := mkE false false false false.
Definition e_one (e : effect) : eset :=
  match e with
  | Untouched => mkE true false false false | Written => mkE false true false false
  | Deleted => mkE false false true false | Emptied => mkE false false false true end.
Definition e_union (x y : eset) : eset := mkE (eU x || eU y) (eW x || eW y) (eD x || eD y) (eE x || eE y).
(* paths of x followed by paths of y *)
Definition e_then (x y : eset) : eset :=
  let nonempty := eU x || eW x || eD x || eE x in
  mkE (eU x && eU y) ((eW x && eU y) || (nonempty && eW y)) ((eD x && eU y) || (nonempty && eD y))
      ((eE x && eU y) || (nonempty && eE y)).
Definition then1 (a b : effect) : effect := match b with Untouched => a | _ => b end.

Section Leak.
  Variable k : key.
  Variable des : nat -> bool.        (* the raise sites that count as "the call failed" *)
  Variable emp : nat -> bool.        (* writers that bind a fresh empty container *)

  (* (effects at normal exits, effects at designated raise sites) *)
  Fixpoint eff (p : prog) : eset * eset :=
    match p with
    | Skip | Rd _ _ => (e_one Untouched, e_empty)
    | Wr f k' => (if String.eqb k' k then e_one (if emp f then Emptied else Written) else e_one Untouched, e_empty)
    | Del _ k' => (if String.eqb k' k then e_one Deleted else e_one Untouched, e_empty)
    | Cp _ d _ => (if String.eqb d k then e_one Written else e_one Untouched, e_empty)
    | Abort f => (e_empty, if des f then e_one Untouched else e_empty)
    | Seq a b => let (na, aa) := eff a in let (nb, ab) := eff b in
                 (e_then na nb, e_union aa (e_then na ab))
    | Choice a b => let (na, aa) := eff a in let (nb, ab) := eff b in (e_union na nb, e_union aa ab)
    | Loop a => let (na, aa) := eff a in
                let star := e_union (e_one Untouched) na in (star, e_then star aa)
    | IfComp _ a => let (na, aa) := eff a in (e_union (e_one Untouched) na, aa)
    end.
End Leak.

(* ---------------------------------------------------------------- semantics *)
Section Sem.
  Variable V : Type.
  Variable fw : nat -> key -> list V -> V.
  Variable fb : list V -> nat -> bool.
  Variable present : nat -> V -> bool.
  Variable N : nat.                               (* bound on the iterations of every loop *)

  Record st := mk { sigma : key -> V; log : list V; ctr : nat }.

  Inductive result := Normal (s : st) | Aborted (f : nat) (s : st).

  Definition upd (s : key -> V) (k : key) (v : V) : key -> V :=
    fun k' => if String.eqb k' k then v else s k'.

  Fixpoint iter_loop (body : st -> result) (n : nat) (s : st) : result :=
    match n with
    | O => Normal s
    | S n' =>
        let s' := mk (sigma s) (log s) (S (ctr s)) in
        if fb (log s) (ctr s)
        then match body s' with Normal s'' => iter_loop body n' s'' | r => r end
        else Normal s'
    end.

  Fixpoint exec (p : prog) (s : st) : result :=
    match p with
    | Skip => Normal s
    | Rd _ k => Normal (mk (sigma s) (sigma s k :: log s) (ctr s))
    | Wr f k | Del f k => Normal (mk (upd (sigma s) k (fw f k (log s))) (log s) (ctr s))
    | Cp _ d src => Normal (mk (upd (sigma s) d (sigma s src)) (log s) (ctr s))
    | Abort f => Aborted f s
    | Seq a b => match exec a s with Normal s' => exec b s' | r => r end
    | Choice a b =>
        let s' := mk (sigma s) (log s) (S (ctr s)) in
        if fb (log s) (ctr s) then exec a s' else exec b s'
    | Loop a => iter_loop (exec a) N s
    | IfComp c a => if present c (sigma s CL) then exec a s else Normal s
    end.

  Definition state_of (r : result) : st := match r with Normal s => s | Aborted _ s => s end.

  (* the effect of the actual execution of p from s on key k (follows the decisions exec takes) *)
  Fixpoint iter_eff (body : st -> result) (beff : st -> effect) (n : nat) (s : st) : effect :=
    match n with
    | O => Untouched
    | S n' =>
        let s' := mk (sigma s) (log s) (S (ctr s)) in
        if fb (log s) (ctr s)
        then match body s' with
             | Normal s'' => then1 (beff s') (iter_eff body beff n' s'')
             | Aborted _ _ => beff s'
             end
        else Untouched
    end.

  Fixpoint peff (emp : nat -> bool) (k : key) (p : prog) (s : st) : effect :=
    match p with
    | Skip | Rd _ _ | Abort _ => Untouched
    | Wr f k' => if String.eqb k' k then (if emp f then Emptied else Written) else Untouched
    | Del _ k' => if String.eqb k' k then Deleted else Untouched
    | Cp _ d _ => if String.eqb d k then Written else Untouched
    | Seq a b => match exec a s with
                 | Normal s' => then1 (peff emp k a s) (peff emp k b s')
                 | Aborted _ _ => peff emp k a s
                 end
    | Choice a b =>
        let s' := mk (sigma s) (log s) (S (ctr s)) in
        if fb (log s) (ctr s) then peff emp k a s' else peff emp k b s'
    | Loop a => iter_eff (exec a) (peff emp k a) N s
    | IfComp c a => if present c (sigma s CL) then peff emp k a s else Untouched
    end.

  (* what a caller can observe of the way a call ended: returned / raised where, and everything read *)
  Definition same_outcome (r1 r2 : result) : Prop :=
    match r1, r2 with
    | Normal s1, Normal s2 => log s1 = log s2
    | Aborted f1 s1, Aborted f2 s2 => f1 = f2 /\ log s1 = log s2
    | _, _ => False
    end.

  (* erase the internal part *)
  Variable undef : V.
  Definition blank (s : key -> V) : key -> V := fun k => if is_user k then s k else undef.
End Sem.

Arguments mk {V}. Arguments sigma {V}. Arguments log {V}. Arguments ctr {V}.
Arguments Normal {V}. Arguments Aborted {V}. Arguments upd {V}. Arguments state_of {V}.
Arguments same_outcome {V}. Arguments blank {V}.

(* ---------------------------------------------------------------- histories *)
(* configuration = (mode, only_update_hydraulic_matrix, reuse_internal_data) *)
Definition cfg := (string * bool * bool)%type.

Definition cfg_eqb (a b : cfg) : bool :=
  let '(m1, u1, r1) := a in let '(m2, u2, r2) := b in
  String.eqb m1 m2 && Bool.eqb u1 u2 && Bool.eqb r1 r2.

Definition exceptions (c : cfg) : list key :=
  let '(m, _, r) := c in
  app (if String.eqb m "heat" then ["user_pf_options.hyd_flag"] else [])
  (if r then ["_internal_data"] else []).

Fixpoint lookup_prog (table : list (string * bool * bool * prog)) (c : cfg) : prog :=
  match table with
  | [] => Skip
  | (m, u, r, p) :: rest => if cfg_eqb (m, u, r) c then p else lookup_prog rest c
  end.

Section History.
  Variable V : Type.
  Variable fw : nat -> key -> list V -> V.
  Variable fb : list V -> nat -> bool.
  Variable present : nat -> V -> bool.
  Variable N : nat.
  Variable table : list (string * bool * bool * prog).

  Inductive op :=
  | Run (c : cfg) (kwargs : V)       (* pipeflow(net, **kwargs) resolving to configuration c; may fail *)
  | Edit (k : key) (v : V)           (* the user changes part of the description *)
  | SetUserOpts (v : V).             (* set_user_pf_options(net, ...) *)

  Definition run (c : cfg) (kw : V) (s : key -> V) : result V :=
    exec V fw fb present N (lookup_prog table c) (mk s [kw] 0).

  Definition apply_op (s : key -> V) (o : op) : key -> V :=
    match o with
    | Run c kw => sigma (state_of (run c kw s))
    | Edit k v => if is_user k then upd s k v else s
    | SetUserOpts v => upd s "user_pf_options" v
    end.

  (* only the user's own operations *)
  Definition apply_user_op (s : key -> V) (o : op) : key -> V :=
    match o with Run _ _ => s | _ => apply_op s o end.

  Definition after (h : list op) (s : key -> V) : key -> V := fold_left apply_op h s.
  Definition description_after (h : list op) (s : key -> V) : key -> V := fold_left apply_user_op h s.
End History.

Arguments Run {V}. Arguments Edit {V}. Arguments SetUserOpts {V}.

(* ---------------------------------------------------------------- checks on the generated tables *)
Definition all_internal (l : list key) : bool := forallb is_internal l.

Definition fn_writes_ok (e : string * list string * list string) : bool := all_internal (snd e).

Fixpoint prog_eqb (a b : prog) : bool :=
  match a, b with
  | Skip, Skip => true
  | Rd f k, Rd g l | Wr f k, Wr g l | Del f k, Del g l => Nat.eqb f g && String.eqb k l
  | Cp f d s, Cp g e t => Nat.eqb f g && String.eqb d e && String.eqb s t
  | Abort f, Abort g => Nat.eqb f g
  | Seq p q, Seq r s | Choice p q, Choice r s => prog_eqb p r && prog_eqb q s
  | Loop p, Loop q => prog_eqb p q
  | IfComp c p, IfComp d q => Nat.eqb c d && prog_eqb p q
  | _, _ => false
  end.

Fixpoint get_phase (name : string) (l : list (string * prog)) : option prog :=
  match l with
  | [] => None
  | (n, p) :: r => if String.eqb n name then Some p else get_phase name r
  end.

Fixpoint seq_of (l : list (string * prog)) : prog :=
  match l with [] => Skip | (_, p) :: r => Seq p (seq_of r) end.

Fixpoint phases_after (name : string) (l : list (string * prog)) : list (string * prog) :=
  match l with
  | [] => []
  | (n, p) :: r => if String.eqb n name then r else phases_after name r
  end.

Fixpoint phases_eqb (a b : list (string * prog)) : bool :=
  match a, b with
  | [], [] => true
  | (n, p) :: r, (m, q) :: s => String.eqb n m && prog_eqb p q && phases_eqb r s
  | _, _ => false
  end.
