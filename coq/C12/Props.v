(* C12 - property theorems only.  Programs / tables come from Gen/Effects.v (regenerated from the
   Python sources on every run); the semantics quantifies over every value type, every way written
   values and branch decisions depend on what was read, every component list and every loop bound. *)
From Coq Require Import String List Bool Arith.
From PP Require Import C12.Model C12.Proofs C12.Checks Gen.Effects.
Import ListNotations.
Open Scope string_scope.

(* 1. a call never changes the user part of the net - whether it returns or raises *)
Theorem pipeflow_frame : forall V fw fb present N x, In x all_progs ->
  forall (s : st V) k, is_user k = true ->
    sigma (state_of (exec V fw fb present N (prog_of x) s)) k = sigma s k.
Proof.
  intros V fw fb present N x Hx s k Hk. apply frame_lemma; auto.
  generalize all_progs_frame. rewrite forallb_forall. intros H. specialize (H x Hx).
  now apply negb_true_iff in H.
Qed.
Print Assumptions pipeflow_frame.

(* ... and no reachable function writes a user key or writes through an alias of user data; property
   getters of fluids / standard types do not assign to their object; and the model's premise that the net object
   is ALL the state there is: no module of the calculation packages keeps state of its own across calls
   (memoising decorators / wrappers, module globals assigned or mutated in functions, mutated default arguments,
   attributes on function objects) *)
Theorem no_user_write_in_reachable_code :
  forallb fn_writes_ok fn_effects = true /\ alias_writes = [] /\ getter_mutations = [] /\ hidden_state = [] /\
  writes_user prog_other_mode = false /\ Nat.leb 40 (length fn_effects) = true.
Proof.
  generalize summary_ok_true frame_ok_true. unfold summary_ok, frame_ok. intros H G.
  repeat (apply andb_true_iff in H; destruct H as [H ?]).
  apply andb_true_iff in G. destruct G as [_ G]. apply negb_true_iff in G.
  assert (A1 : alias_writes = []) by (destruct alias_writes; auto; discriminate).
  assert (A2 : getter_mutations = []) by (destruct getter_mutations; auto; discriminate).
  assert (A3 : hidden_state = []) by (destruct hidden_state; auto; discriminate).
  repeat split; auto; try (vm_compute; reflexivity).
Qed.
Print Assumptions no_user_write_in_reachable_code.

(* 2a. soundness of the def-use scan: if it accepts a program with exception keys E, two calls that
   start from states agreeing on the user part and on E (and get the same arguments) read the same
   values, take the same decisions, end the same way and leave the same produced values *)
Theorem scan_sound : forall V fw fb present N E p, accepts E p = true ->
  forall (s1 s2 : key -> V) (kw : V),
    (forall k, is_user k = true \/ In k E -> s1 k = s2 k) ->
    same_result V present E p (s1 CL)
      (exec V fw fb present N p (mk s1 [kw] 0)) (exec V fw fb present N p (mk s2 [kw] 0)).
Proof. exact determined. Qed.
Print Assumptions scan_sound.

(* 2b. the generated program of EVERY configuration passes the scan with exactly the named exceptions:
   "_internal_data" under reuse_internal_data, "hyd_flag" in mode heat (sol_vec is an argument) *)
Theorem no_stale_read : forall x, In x all_progs ->
  accepts (exceptions (cfg_of x)) (prog_of x) = true.
Proof. exact accepted. Qed.
Print Assumptions no_stale_read.

Theorem all_configurations_generated : table_complete = true.
Proof. exact table_complete_true. Qed.
Print Assumptions all_configurations_generated.

(* 3. after ANY finite history of calls (any configurations, failing or not), edits and option
   changes, a call in a configuration without exceptions gives what it gives on a net that carries only
   the description resulting from the user's own operations *)
Theorem history_independence : forall V fw fb present N undef (h : list (op V)) (s0 : key -> V) x kw,
  In x all_progs -> exceptions (cfg_of x) = [] ->
  same_result V present [] (lookup_prog all_progs (cfg_of x))
    (after V fw fb present N all_progs h s0 CL)
    (run V fw fb present N all_progs (cfg_of x) kw (after V fw fb present N all_progs h s0))
    (run V fw fb present N all_progs (cfg_of x) kw
         (blank undef (description_after V fw fb present N all_progs h s0))).
Proof.
  intros V fw fb present N undef h s0 x kw Hx HE.
  apply history_independence_lemma. exact all_progs_frame.
  destruct (lookup_in all_progs (cfg_of x)) as [y [Hy [Hc Hl]]].
  { exists x. split; auto. destruct (cfg_of x) as [[m u] r]. simpl.
    now rewrite String.eqb_refl, !Bool.eqb_reflx. }
  rewrite Hl.
  assert (Heq : cfg_of y = cfg_of x).
  { destruct (cfg_of y) as [[m u] r]. destruct (cfg_of x) as [[m' u'] r']. simpl in Hc.
    repeat (apply andb_true_iff in Hc; destruct Hc as [Hc ?]).
    apply String.eqb_eq in Hc. apply Bool.eqb_prop in H0. apply Bool.eqb_prop in H. subst. reflexivity. }
  rewrite <- HE, <- Heq. apply accepted; auto.
Qed.
Print Assumptions history_independence.

(* 4. repeating a call gives the same outcome and the same produced values *)
Theorem repeat_is_identical : forall V fw fb present N (s0 : key -> V) x kw,
  In x all_progs -> exceptions (cfg_of x) = [] ->
  same_result V present [] (lookup_prog all_progs (cfg_of x)) (s0 CL)
    (run V fw fb present N all_progs (cfg_of x) kw s0)
    (run V fw fb present N all_progs (cfg_of x) kw
         (sigma (state_of (run V fw fb present N all_progs (cfg_of x) kw s0)))).
Proof.
  intros V fw fb present N s0 x kw Hx HE.
  apply repeat_lemma. exact all_progs_frame.
  destruct (lookup_in all_progs (cfg_of x)) as [y [Hy [Hc Hl]]].
  { exists x. split; auto. destruct (cfg_of x) as [[m u] r]. simpl.
    now rewrite String.eqb_refl, !Bool.eqb_reflx. }
  rewrite Hl.
  assert (Heq : cfg_of y = cfg_of x).
  { destruct (cfg_of y) as [[m u] r]. destruct (cfg_of x) as [[m' u'] r']. simpl in Hc.
    repeat (apply andb_true_iff in Hc; destruct Hc as [Hc ?]).
    apply String.eqb_eq in Hc. apply Bool.eqb_prop in H0. apply Bool.eqb_prop in H. subst. reflexivity. }
  rewrite <- HE, <- Heq. apply accepted; auto.
Qed.
Print Assumptions repeat_is_identical.

(* what "produced" covers: the converged flag and the result table of every listed component *)
Theorem results_are_produced : results_ok = true.
Proof. exact results_ok_true. Qed.
Print Assumptions results_are_produced.

(* 5. mode heat (and the reuse option): after any two histories that lead to the same description and
   the same value of the excepted keys (hyd_flag; sol_vec is the argument kw), the call gives the same *)
Theorem excepted_state_is_the_only_leak : forall V fw fb present N (h h' : list (op V)) (s0 s0' : key -> V) x kw,
  In x all_progs ->
  (forall k, In k (exceptions (cfg_of x)) ->
     after V fw fb present N all_progs h s0 k = after V fw fb present N all_progs h' s0' k) ->
  (forall k, is_user k = true ->
     description_after V fw fb present N all_progs h s0 k = description_after V fw fb present N all_progs h' s0' k) ->
  same_result V present (exceptions (cfg_of x)) (lookup_prog all_progs (cfg_of x))
    (after V fw fb present N all_progs h s0 CL)
    (run V fw fb present N all_progs (cfg_of x) kw (after V fw fb present N all_progs h s0))
    (run V fw fb present N all_progs (cfg_of x) kw (after V fw fb present N all_progs h' s0')).
Proof.
  intros V fw fb present N h h' s0 s0' x kw Hx HE HU.
  apply exception_lemma; [exact all_progs_frame | | exact HE | exact HU].
  destruct (lookup_in all_progs (cfg_of x)) as [y [Hy [Hc Hl]]].
  { exists x. split; auto. destruct (cfg_of x) as [[m u] r]. simpl.
    now rewrite String.eqb_refl, !Bool.eqb_reflx. }
  rewrite Hl.
  assert (Heq : cfg_of y = cfg_of x).
  { destruct (cfg_of y) as [[m u] r]. destruct (cfg_of x) as [[m' u'] r']. simpl in Hc.
    repeat (apply andb_true_iff in Hc; destruct Hc as [Hc ?]).
    apply String.eqb_eq in Hc. apply Bool.eqb_prop in H0. apply Bool.eqb_prop in H. subst. reflexivity. }
  rewrite <- Heq. apply accepted; auto.
Qed.
Print Assumptions excepted_state_is_the_only_leak.

(* 5b. the reuse exception is well-founded: a call without reuse_internal_data never leaves a cache of its
   own in "_internal_data" - not when it returns, not when a stage gives up (the non-convergence raise of
   hydraulics / bidirectional / heat_transfer) and not when ANYTHING is raised while the Newton loop runs
   (every explicit raise site reached from newton_raphson, and an implicit exception at any point: [stage_failure]
   holds for all sites named ...@newton_raphson); stated on the effect of the actual execution.  try/except blocks
   of the sources are part of the generated programs (handler events precede the re-raise). *)
Theorem no_cache_left_behind : forall V fw fb present N x, In x all_progs -> snd (fst x) = false ->
  forall (s : st V),
    match exec V fw fb present N (prog_of x) s with
    | Normal _ => peff V fw fb present N writes_empty cache_key (prog_of x) s <> Written
    | Aborted f _ => stage_failure f = true -> peff V fw fb present N writes_empty cache_key (prog_of x) s <> Written
    end.
Proof.
  intros V fw fb present N x Hx Hr s.
  destruct (cache_clean_in x Hx Hr) as [H1 H2].
  assert (G := eff_sound V fw fb present N cache_key stage_failure writes_empty (prog_of x) s). unfold eff_ok in G.
  destruct (exec V fw fb present N (prog_of x) s).
  - intros E. rewrite E in G. simpl in G. congruence.
  - intros Hd E. specialize (G Hd). rewrite E in G. simpl in G. congruence.
Qed.
Print Assumptions no_cache_left_behind.

(* 5c. ... and at EVERY other raise site of the call (any class, anywhere) except the four listed ones, what such a
   call leaves in "_internal_data" is nothing, a deletion, or a fresh empty dict (which every reader treats like an
   absent key: monitor "empty == absent").  The four listed sites lie between the converged Newton loop and the
   clean-up (rerun_hydraulics' connectivity check; the option lookup of the clean-up). *)
Theorem cache_filled_only_at_listed_sites : forall V fw fb present N x, In x all_progs -> snd (fst x) = false ->
  forall (s : st V),
    match exec V fw fb present N (prog_of x) s with
    | Normal _ => True
    | Aborted f _ => unlisted f = true -> peff V fw fb present N writes_empty cache_key (prog_of x) s <> Written
    end.
Proof.
  intros V fw fb present N x Hx Hr s.
  assert (G := eff_sound V fw fb present N cache_key unlisted writes_empty (prog_of x) s). unfold eff_ok in G.
  generalize cache_elsewhere_ok_true. unfold cache_elsewhere_ok. rewrite forallb_forall. intros H.
  specialize (H x Hx). rewrite Hr in H. simpl in H. apply negb_true_iff in H.
  destruct (exec V fw fb present N (prog_of x) s); auto.
  intros Hd E. specialize (G Hd). rewrite E in G. simpl in G. congruence.
Qed.
Print Assumptions cache_filled_only_at_listed_sites.

(* 6. transient thermal calculation (transient=True): the internal tables are carried from step to step by design.
   Exactly these keys are read from the previous call: none in the first step (simulation_time_step = 0); "_pit",
   "_old_pit" and "converged" in later steps; in mode bidirectional additionally "_active_pit" (read by
   Junction.extract_results; path-insensitive: only if the loop body never ran).  With them as exceptions the scan
   accepts, so by scan_sound a transient step is a function of the description, its arguments and these keys; the
   user part is never written. *)
Theorem transient_carried_keys :
  forall m st p, In (m, st, p) transient_progs ->
    same_set (needed 16 [] p) (carried m st) = true /\ accepts (carried m st) p = true /\ writes_user p = false.
Proof.
  intros m st p Hin. generalize transient_ok_true. unfold transient_ok. intros H.
  apply andb_true_iff in H. destruct H as [H _]. rewrite forallb_forall in H. specialize (H _ Hin).
  cbv beta iota in H. apply andb_true_iff in H. destruct H as [H H3].
  apply andb_true_iff in H. destruct H as [H1 H2]. apply negb_true_iff in H3. repeat split; assumption.
Qed.
Print Assumptions transient_carried_keys.

(* mode heat consists of the same set-up phases and the same thermal-stage program as mode sequential *)
Theorem heat_from_stored_equals_sequential_stage : heat_tail_ok = true.
Proof. exact heat_tail_ok_true. Qed.
Print Assumptions heat_from_stored_equals_sequential_stage.

(* hyd_flag / option wiring facts the model rests on *)
Theorem solver_state_wiring : wiring_ok = true.
Proof. exact wiring_ok_true. Qed.
Print Assumptions solver_state_wiring.

(* non-vacuity: the tables are not empty, programs are large, a user write IS detected, a stale read IS
   rejected, and the scan accepts a real configuration *)
Example instances_nontrivial :
  length all_progs = 12 /\ Nat.leb 60 (length fn_names) = true /\
  writes_user (Seq (Rd 0 "pipe") (Wr 0 "pipe")) = true /\
  accepts [] (Seq (Rd 0 "_pit") (Wr 0 "_pit")) = false /\
  accepts [] (Seq (Wr 0 "_pit") (Rd 0 "_pit")) = true /\
  accepts [] (Seq (IfComp 1 (Wr 0 "res_a")) (IfComp 1 (Rd 0 "res_a"))) = true /\
  accepts [] (Seq (IfComp 1 (Wr 0 "res_a")) (IfComp 2 (Rd 0 "res_a"))) = false /\
  accepts [] (Seq (Choice (Wr 0 "_x") Skip) (Rd 0 "_x")) = false /\
  accepts [] (Seq (Loop (Wr 0 "_x")) (Rd 0 "_x")) = false /\
  eW (snd (eff "_c" (fun _ => true) (fun _ => false) (Seq (Wr 0 "_c") (Seq (Choice (Abort 1) Skip) (Del 0 "_c"))))) = true /\
  eW (snd (eff "_c" (fun _ => true) (fun _ => false) (Seq (Wr 0 "_c") (Seq (Del 0 "_c") (Choice (Abort 1) Skip))))) = false /\
  eW (snd (eff "_c" (fun _ => true) (Nat.eqb 0) (Seq (Wr 0 "_c") (Choice (Abort 1) Skip)))) = false.
Proof. vm_compute. repeat split; auto. Qed.
