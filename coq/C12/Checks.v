(* C12 - decidable checks on the tables generated from the sources (Gen/Effects.v), each decided by
   computation; the lemmas here are re-proved against what the code says now on every run. *)
From Coq Require Import String List Bool Arith.
From PP Require Import C12.Model C12.Proofs Gen.Effects.
Import ListNotations.
Open Scope string_scope.

Definition cfg_of (x : string * bool * bool * prog) : cfg := (fst (fst (fst x)), snd (fst (fst x)), snd (fst x)).
Definition prog_of (x : string * bool * bool * prog) : prog := snd x.

Definition frame_ok : bool :=
  forallb (fun x => negb (writes_user (snd x))) all_progs && negb (writes_user prog_other_mode).

Definition is_nil {A} (l : list A) : bool := match l with [] => true | _ => false end.

Definition summary_ok : bool :=
  forallb fn_writes_ok fn_effects && is_nil alias_writes && is_nil getter_mutations && is_nil hidden_state.

(* configurations whose program the def-use scan rejects, with the offending (function, key) *)
Definition stale_cfgs : list (cfg * string * key) :=
  flat_map (fun x => match scan (exceptions (cfg_of x)) None (prog_of x) ([], []) with
                     | Reject f k => [(cfg_of x, nth f fn_names "?", k)]
                     | _ => [] end) all_progs.

Definition scan_ok : bool :=
  forallb (fun x => accepts (exceptions (cfg_of x)) (prog_of x)) all_progs.

(* ---- what a call leaves behind in the cache key ----
   "_internal_data" may be read from an earlier call only under reuse_internal_data.  That exception is
   only meaningful if a call WITHOUT the option never leaves data of its own in the key: neither when
   it returns nor when a stage gives up (the raise sites of the stage drivers themselves). *)
Definition suffix_of (suf s : string) : bool :=
  let n := String.length s in let m := String.length suf in
  Nat.leb m n && String.eqb (substring (n - m) m s) suf.

Definition stage_failure_sites : list string :=
  ["hydraulics!PipeflowNotConverged"; "bidirectional!PipeflowNotConverged"; "heat_transfer!PipeflowNotConverged"].

(* ... and everything raised while the Newton loop runs: the explicit raise sites reached from newton_raphson and
   the modelled implicit exception (any statement may raise; modelled where the content of the cache key changes) *)
Definition in_newton_loop (s : string) : bool := suffix_of "@newton_raphson" s.

Definition stage_failure (f : nat) : bool :=
  let s := nth f fn_names "?" in mem s stage_failure_sites || in_newton_loop s.

Definition cache_key : key := "_internal_data".

(* writers that bind a fresh empty container (net[k] = dict()): tagged by the translator *)
Definition writes_empty (f : nat) : bool := suffix_of "=empty" (nth f fn_names "?").

Definition cache_clean (x : string * bool * bool * prog) : bool :=
  snd (fst x) (* reuse requested *) ||
  (let e := eff cache_key stage_failure writes_empty (prog_of x) in negb (eW (fst e)) && negb (eW (snd e))).

Definition cache_ok : bool :=
  forallb cache_clean all_progs && forallb (fun s => mem s fn_names) stage_failure_sites &&
  mem "implicit@newton_raphson" fn_names && Nat.leb 5 (length (filter in_newton_loop fn_names)).

(* every raise site (any class) at which a call without the reuse option may still hold a cache it wrote *)
Definition leaky_sites : list (cfg * string) :=
  flat_map (fun x : string * bool * bool * prog => if snd (fst x) then [] else
     flat_map (fun i => if eW (snd (eff cache_key (Nat.eqb i) writes_empty (prog_of x)))
                        then [(cfg_of x, nth i fn_names "?")] else []) (seq 0 (length fn_names))) all_progs.

(* every configuration is present once *)
Definition table_complete : bool :=
  forallb (fun m => forallb (fun ur : bool * bool =>
     existsb (fun x => cfg_eqb (cfg_of x) (m, fst ur, snd ur)) all_progs)
     [(false, false); (true, false); (true, true)])
   ["hydraulics"; "sequential"; "bidirectional"; "heat"].

(* converged and every result table of a listed component are produced by a call that returns *)
Definition results_produced (x : string * bool * bool * prog) : bool :=
  let d := final_dset (exceptions (cfg_of x)) (prog_of x) in
  mem "converged" (fst d) &&
  forallb (fun ct : nat * string => memp (fst ct) ("res_" ++ snd ct) (snd d)) class_tables.

Definition results_ok : bool :=
  forallb (fun x => negb (accepts (exceptions (cfg_of x)) (prog_of x)) || results_produced x) all_progs
  && Nat.leb 10 (length class_tables).

(* hyd_flag: set only by the two hydraulic stage drivers, read only by use_given_hydraulic_results, never
   inspected while the option layers are merged; no function rewrites the options that select the
   configuration; the empty-default normalisation concerns user_pf_options only *)
Definition pair_mem (a b : string) (l : list (string * string)) : bool :=
  existsb (fun x => String.eqb (fst x) a && String.eqb (snd x) b) l.

Definition hyd_flag_allowed : list (string * string) :=
  [("bidirectional", "kw-write"); ("hydraulics", "kw-write");
   ("set_user_pf_options", "literal"); ("use_given_hydraulic_results", "literal")].

Definition wiring_ok : bool :=
  forallb (fun m => pair_mem (fst m) (snd m) hyd_flag_allowed) hyd_flag_mentions &&
  negb (mem "hyd_flag" inspected_option_keys) && negb (mem "<dynamic>" inspected_option_keys) &&
  forallb (fun w => negb (mem (snd w) ["mode"; "reuse_internal_data"; "only_update_hydraulic_matrix";
                                        "transient"; "?"])) option_writes &&
  forallb (fun nrm => String.eqb (snd nrm) "user_pf_options") normalisations &&
  (* mode heat hands the stored solution over as the pressures and mass flows of the whole pit, nothing else *)
  Nat.eqb (length heat_handover_writes) 2 && pair_mem "node" "PINIT" heat_handover_writes &&
  pair_mem "branch" "MDOTINIT" heat_handover_writes.

(* mode heat runs the same set-up phases and the same thermal stage program as mode sequential; what
   differs is the stage in between (stored solution instead of the hydraulic stage) and the mode-specific
   result extraction *)
Definition opt_prog_eqb (a b : option prog) : bool :=
  match a, b with Some p, Some q => prog_eqb p q | _, _ => false end.

Definition heat_tail_ok : bool :=
  forallb (fun n => opt_prog_eqb (get_phase n phases_heat_plain) (get_phase n phases_sequential_plain))
    ["init_options"; "init_all_result_tables"; "create_lookups"; "initialize_pit";
     "identify_active_nodes_branches"; "heat_transfer"] &&
  match get_phase "use_given_hydraulic_results" phases_heat_plain with Some _ => true | None => false end.

(* ---- transient thermal calculation: the pit is carried from step to step BY DESIGN.  Which internal keys a call
   reads from the previous step is computed (the smallest exception set the scan needs) and pinned. *)
Fixpoint needed (fuel : nat) (E : list key) (p : prog) : list key :=
  match fuel with
  | O => E
  | S n => match scan E None p ([], []) with Reject _ k => needed n (k :: E) p | _ => E end
  end.

Definition same_set (a b : list key) : bool := forallb (fun k => mem k b) a && forallb (fun k => mem k a) b.

Definition carried (mode : string) (step : nat) : list key :=
  app (if Nat.eqb step 0 then [] else ["_pit"; "_old_pit"; "converged"])
      (if String.eqb mode "bidirectional" then ["_active_pit"] else []).

Definition transient_ok : bool :=
  forallb (fun x : string * nat * prog =>
     let '(m, st, p) := x in
     same_set (needed 16 [] p) (carried m st) && accepts (carried m st) p && negb (writes_user p)) transient_progs
  && Nat.eqb (length transient_progs) 4.

Lemma transient_ok_true : transient_ok = true. Proof. vm_compute. reflexivity. Qed.

Lemma frame_ok_true : frame_ok = true. Proof. vm_compute. reflexivity. Qed.
Lemma summary_ok_true : summary_ok = true. Proof. vm_compute. reflexivity. Qed.
Lemma scan_ok_true : scan_ok = true. Proof. vm_compute. reflexivity. Qed.
Lemma table_complete_true : table_complete = true. Proof. vm_compute. reflexivity. Qed.
Lemma results_ok_true : results_ok = true. Proof. vm_compute. reflexivity. Qed.
Lemma wiring_ok_true : wiring_ok = true. Proof. vm_compute. reflexivity. Qed.
Lemma heat_tail_ok_true : heat_tail_ok = true. Proof. vm_compute. reflexivity. Qed.

Lemma all_progs_frame : forallb (fun x : string * bool * bool * prog => negb (writes_user (snd x))) all_progs = true.
Proof. generalize frame_ok_true. unfold frame_ok. intros H. apply andb_true_iff in H. tauto. Qed.

(* outside the Newton loop: the raise sites at which a call without reuse may still hold a FILLED cache of its own
   (all in the window between the converged loop and the clean-up: rerun_hydraulics -> connectivity check, and the
   option lookup of the clean-up itself).  Everywhere else - any other raise site of the whole call - the key is
   untouched, deleted, or bound to a fresh empty dict. *)
Definition filled_cache_sites : list string :=
  ["_connectivity!UserWarning"; "_connectivity!ValueError"; "get_net_option!UserWarning";
   "identify_active_nodes_branches!PipeflowNotConverged"].

Definition unlisted (f : nat) : bool := negb (mem (nth f fn_names "?") filled_cache_sites).

Definition cache_elsewhere_ok : bool :=
  forallb (fun x : string * bool * bool * prog =>
     snd (fst x) || negb (eW (snd (eff cache_key unlisted writes_empty (prog_of x))))) all_progs.

Lemma cache_elsewhere_ok_true : cache_elsewhere_ok = true. Proof. vm_compute. reflexivity. Qed.

Lemma cache_ok_true : cache_ok = true. Proof. vm_compute. reflexivity. Qed.

Lemma accepted : forall x, In x all_progs -> accepts (exceptions (cfg_of x)) (prog_of x) = true.
Proof.
  intros x Hx. generalize scan_ok_true. unfold scan_ok. rewrite forallb_forall. intros H. auto.
Qed.

Lemma cache_clean_in : forall x, In x all_progs -> snd (fst x) = false ->
  eW (fst (eff cache_key stage_failure writes_empty (prog_of x))) = false /\
  eW (snd (eff cache_key stage_failure writes_empty (prog_of x))) = false.
Proof.
  intros x Hx Hr. generalize cache_ok_true. unfold cache_ok. intros H.
  do 3 (apply andb_true_iff in H; destruct H as [H _]). rewrite forallb_forall in H. specialize (H x Hx).
  unfold cache_clean in H. rewrite Hr in H. simpl in H.
  apply andb_true_iff in H. destruct H as [H1 H2]. apply negb_true_iff in H1, H2. auto.
Qed.

Lemma lookup_in : forall table c, (exists x, In x table /\ cfg_eqb (cfg_of x) c = true) ->
  exists x, In x table /\ cfg_eqb (cfg_of x) c = true /\ lookup_prog table c = prog_of x.
Proof.
  induction table as [|[[[m u] r] p] rest IH]; intros c [x [Hin Hc]].
  - destruct Hin.
  - cbn [lookup_prog]. destruct (cfg_eqb (m, u, r) c) eqn:E0.
    + exists (m, u, r, p). split; [left; auto|]. split; auto.
    + destruct Hin as [Hin|Hin].
      * subst x. unfold cfg_of in Hc. simpl in Hc. unfold cfg_eqb in E0. congruence.
      * destruct (IH c (ex_intro _ x (conj Hin Hc))) as [y [Hy [Hyc Hyl]]].
        exists y. split; [right; auto|]. auto.
Qed.
