(* C12 - proofs over the abstract state model (C12/Model.v). *)
From Coq Require Import String List Bool Arith Lia.
From PP Require Import C12.Model.
Import ListNotations.
Open Scope string_scope.

(* ------------------------------------------------------------------ membership lemmas *)
Lemma mem_In k l : mem k l = true <-> In k l.
Proof.
  induction l as [|x r IH]; simpl; split; try discriminate; try tauto.
  - intros H. apply orb_true_iff in H. destruct H as [H|H].
    + apply String.eqb_eq in H. auto.
    + right. now apply IH.
  - intros [H|H]; apply orb_true_iff.
    + left. subst. apply String.eqb_refl.
    + right. now apply IH.
Qed.

Lemma memp_In c k l : memp c k l = true <-> In (c, k) l.
Proof.
  induction l as [|[c' k'] r IH]; simpl; split; try discriminate; try tauto.
  - intros H. apply orb_true_iff in H. destruct H as [H|H].
    + apply andb_true_iff in H. destruct H as [H1 H2].
      apply Nat.eqb_eq in H1. apply String.eqb_eq in H2. subst. auto.
    + right. now apply IH.
  - intros [H|H]; apply orb_true_iff.
    + inversion H; subst. left. now rewrite Nat.eqb_refl, String.eqb_refl.
    + right. now apply IH.
Qed.

Lemma memk_In k l : memk k l = true <-> exists c, In (c, k) l.
Proof.
  induction l as [|[c' k'] r IH]; simpl; split.
  - discriminate.
  - intros [c []].
  - intros H. apply orb_true_iff in H. destruct H as [H|H].
    + apply String.eqb_eq in H. subst. exists c'. auto.
    + apply IH in H. destruct H as [c H]. exists c. auto.
  - intros [c [H|H]]; apply orb_true_iff.
    + inversion H; subst. left. apply String.eqb_refl.
    + right. apply IH. now exists c.
Qed.

Lemma inter_In k a b : In k (inter a b) <-> In k a /\ In k b.
Proof.
  induction a as [|x r IH]; simpl; [tauto|].
  destruct (mem x b) eqn:E; simpl; rewrite IH; split.
  - intros [H|H]; [subst; split; auto; now apply mem_In | tauto].
  - tauto.
  - tauto.
  - intros [[H|H] Hb]; [subst|tauto]. apply mem_In in Hb. congruence.
Qed.

Lemma interp_In c k a b : In (c, k) (interp a b) <-> In (c, k) a /\ In (c, k) b.
Proof.
  induction a as [|[c' k'] r IH]; simpl; [tauto|].
  destruct (memp c' k' b) eqn:E; simpl; rewrite IH; split.
  - intros [H|H]; [inversion H; subst; split; auto; now apply memp_In | tauto].
  - tauto.
  - tauto.
  - intros [[H|H] Hb]; [inversion H; subst|tauto]. apply memp_In in Hb. congruence.
Qed.

Lemma add_In x k l : In x (add k l) <-> x = k \/ In x l.
Proof.
  unfold add. destruct (mem k l) eqn:E; simpl.
  - split; auto. intros [H|H]; auto. subst. now apply mem_In.
  - split; intros [H|H]; auto.
Qed.

Lemma addp_In c' k c ks dp : In (c', k) (addp c ks dp) <-> (c' = c /\ In k ks) \/ In (c', k) dp.
Proof.
  induction ks as [|x r IH]; simpl.
  - tauto.
  - destruct (memp c x (addp c r dp)) eqn:E.
    + rewrite IH. split; [tauto|]. intros [[H1 [H2|H2]]|H]; auto.
      subst. apply memp_In in E. now apply IH.
    + simpl. rewrite IH. split.
      * intros [H|[[H1 H2]|H]]; auto. inversion H; subst. auto.
      * intros [[H1 [H2|H2]]|H]; auto. subst. auto.
Qed.

(* ------------------------------------------------------------------ frame *)
Section Frame.
  Variable V : Type.
  Variable fw : nat -> key -> list V -> V.
  Variable fb : list V -> nat -> bool.
  Variable present : nat -> V -> bool.
  Variable N : nat.

  Notation exec := (exec V fw fb present N).

  Lemma frame_lemma : forall p, writes_user p = false ->
    forall s k, is_user k = true -> sigma (state_of (exec p s)) k = sigma s k.
  Proof.
    induction p; simpl; intros Hw s k0 Hk; auto.
    - (* Wr *) unfold upd. destruct (String.eqb k0 k) eqn:E; auto.
      apply String.eqb_eq in E. subst. congruence.
    - (* Del *) unfold upd. destruct (String.eqb k0 k) eqn:E; auto.
      apply String.eqb_eq in E. subst. congruence.
    - (* Cp *) unfold upd. destruct (String.eqb k0 dst) eqn:E; auto.
      apply String.eqb_eq in E. subst. congruence.
    - (* Seq *) apply orb_false_iff in Hw. destruct Hw as [H1 H2].
      specialize (IHp1 H1 s k0 Hk). destruct (exec p1 s) eqn:E1; simpl in *.
      + rewrite IHp2; auto.
      + auto.
    - (* Choice *) apply orb_false_iff in Hw. destruct Hw as [H1 H2].
      destruct (fb (log s) (ctr s)); [rewrite IHp1 | rewrite IHp2]; auto.
    - (* Loop *)
      assert (G : forall n s, sigma (state_of (iter_loop V fb (exec p) n s)) k0 = sigma s k0);
        [|apply G].
      clear s. induction n as [|n IHn]; intros s; simpl; auto.
      destruct (fb (log s) (ctr s)); simpl; auto.
      specialize (IHp Hw (mk (sigma s) (log s) (S (ctr s))) k0 Hk).
      destruct (exec p _) eqn:E1; simpl in *.
      + rewrite IHn. auto.
      + auto.
    - (* IfComp *) destruct (present c (sigma s CL)); simpl; auto.
  Qed.
End Frame.

(* ------------------------------------------------------------------ the scan only grows *)
Section ScanFacts.
  Variable E : list key.

  Definition sub (a b : dset) : Prop :=
    (forall k, In k (fst a) -> In k (fst b)) /\ (forall c k, In (c, k) (snd a) -> In (c, k) (snd b)).

  Lemma sub_refl a : sub a a. Proof. split; auto. Qed.
  Lemma sub_trans a b c : sub a b -> sub b c -> sub a c.
  Proof. intros [H1 H2] [H3 H4]. split; auto. Qed.

  Lemma scan_grows : forall p cur d d', scan E cur p d = Ok d' -> sub d d'.
  Proof.
    induction p; simpl; intros cur d d' H.
    - inversion H. apply sub_refl.
    - destruct (defd E cur d k); inversion H. apply sub_refl.
    - destruct (String.eqb k CL); inversion H. split; simpl; auto.
      intros. apply add_In. auto.
    - destruct (String.eqb k CL); inversion H. split; simpl; auto.
      intros. apply add_In. auto.
    - destruct (String.eqb dst CL); try discriminate.
      destruct (defd E cur d src).
      + inversion H. split; simpl; auto. intros. apply add_In. auto.
      + destruct (is_user dst || mem dst E || mem dst (fst d) || memk dst (snd d)); inversion H.
        apply sub_refl.
    - discriminate.
    - destruct (scan E cur p1 d) eqn:E1; try discriminate.
      eapply sub_trans; [eapply IHp1; eauto | eapply IHp2; eauto].
    - destruct (scan E cur p1 d) eqn:E1; destruct (scan E cur p2 d) eqn:E2; try discriminate.
      + inversion H; subst. eapply IHp2; eauto.
      + inversion H; subst. eapply IHp1; eauto.
      + inversion H; subst. apply IHp1 in E1. apply IHp2 in E2.
        destruct E1 as [A1 A2], E2 as [B1 B2]. split; simpl.
        * intros k Hk. apply inter_In. auto.
        * intros c k Hk. apply interp_In. auto.
    - destruct (scan E cur p d); inversion H; apply sub_refl.
    - destruct (scan E (Some c) p d) eqn:E1; try discriminate; inversion H.
      + apply sub_refl.
      + split; simpl; auto. intros. apply addp_In. auto.
  Qed.
End ScanFacts.

(* ------------------------------------------------------------------ soundness of the def-use scan *)
Section Sound.
  Variable V : Type.
  Variable fw : nat -> key -> list V -> V.
  Variable fb : list V -> nat -> bool.
  Variable present : nat -> V -> bool.
  Variable N : nat.
  Variable E : list key.
  Variable cl : V.                    (* the value of net["component_list"] during the call *)

  Notation exec := (exec V fw fb present N).

  (* the keys on which two runs are known to hold the same value *)
  Definition covers (A : key -> Prop) (d : dset) : Prop :=
    forall k, (is_user k = true \/ In k E \/ In k (fst d) \/
               (exists c, In (c, k) (snd d) /\ present c cl = true)) -> A k.

  Definition agree (A : key -> Prop) (s1 s2 : key -> V) : Prop := forall k, A k -> s1 k = s2 k.

  Definition cur_ok (cur : option nat) : Prop := forall c, cur = Some c -> present c cl = true.

  Lemma covers_sub A d d' : sub d d' -> covers A d' -> covers A d.
  Proof.
    intros [H1 H2] Hc k Hk. apply Hc.
    destruct Hk as [H|[H|[H|[c [H H']]]]]; auto.
    right. right. right. exists c. auto.
  Qed.

  Lemma defd_covered A cur d k : cur_ok cur -> covers A d -> defd E cur d k = true -> A k.
  Proof.
    intros Hcur Hc H. apply Hc. unfold defd in H.
    repeat (apply orb_true_iff in H; destruct H as [H|H]).
    - auto.
    - right. left. now apply mem_In.
    - right. right. left. now apply mem_In.
    - destruct cur; try discriminate. right. right. right. exists n. split.
      + now apply memp_In.
      + now apply Hcur.
  Qed.

  Lemma is_user_CL : is_user CL = true. Proof. reflexivity. Qed.

  (* What the scan guarantees: two executions that start from states agreeing on the user part, the
     named exceptions and whatever this call has already written, with the same arguments (log),
     take the same decisions, read the same values, end the same way, and their final states agree on
     everything the call has written by then. *)
  Definition related (v : verdict) (r1 r2 : result V) : Prop :=
    match r1, r2 with
    | Normal s1, Normal s2 =>
        log s1 = log s2 /\ ctr s1 = ctr s2 /\ sigma s1 CL = cl /\ sigma s2 CL = cl /\
        exists d', v = Ok d' /\ exists A', covers A' d' /\ agree A' (sigma s1) (sigma s2)
    | Aborted f1 s1, Aborted f2 s2 => f1 = f2 /\ log s1 = log s2
    | _, _ => False
    end.

  Lemma agree_upd A (s1 s2 : key -> V) k v :
    agree A s1 s2 -> agree (fun k' => k' = k \/ A k') (upd s1 k v) (upd s2 k v).
  Proof.
    intros H k' Hk'. unfold upd. destruct (String.eqb k' k) eqn:Ek; auto.
    destruct Hk' as [Hk'|Hk']; auto. subst. now rewrite String.eqb_refl in Ek.
  Qed.

  Lemma sound : forall p cur d v, scan E cur p d = v -> (forall f k, v <> Reject f k) ->
    cur_ok cur ->
    forall A s1 s2, covers A d -> agree A (sigma s1) (sigma s2) ->
      log s1 = log s2 -> ctr s1 = ctr s2 -> sigma s1 CL = cl -> sigma s2 CL = cl ->
      related v (exec p s1) (exec p s2).
  Proof.
    induction p; intros cur d v Hs Hnr Hcur A s1 s2 Hc Ha Hl Hn H1 H2; simpl in Hs.
    - (* Skip *) subst v. simpl. repeat split; auto. exists d. split; auto. exists A. auto.
    - (* Rd *) destruct (defd E cur d k) eqn:Ed.
      + subst v. simpl. repeat split; auto.
        * f_equal; auto. apply Ha. eapply defd_covered; eauto.
        * exists d. split; auto. exists A. auto.
      + subst v. exfalso. eapply Hnr. reflexivity.
    - (* Wr *) destruct (String.eqb k CL) eqn:Ek.
      + subst v. exfalso. eapply Hnr. reflexivity.
      + subst v. simpl. rewrite Hl.
        assert (Hne : String.eqb CL k = false).
        { rewrite String.eqb_sym. exact Ek. }
        repeat split; auto.
        * unfold upd. rewrite Hne. auto.
        * unfold upd. rewrite Hne. auto.
        * eexists. split; [reflexivity|].
          exists (fun k' => k' = k \/ A k'). split.
          -- intros k' Hk'. simpl in Hk'. destruct Hk' as [?|[?|[G|?]]].
             ++ right. apply Hc. auto.
             ++ right. apply Hc. auto.
             ++ apply add_In in G. destruct G as [G|G]; [left; auto | right; apply Hc; auto].
             ++ right. apply Hc. auto.
          -- apply agree_upd. auto.
    - (* Del *) destruct (String.eqb k CL) eqn:Ek.
      + subst v. exfalso. eapply Hnr. reflexivity.
      + subst v. simpl. rewrite Hl.
        assert (Hne : String.eqb CL k = false).
        { rewrite String.eqb_sym. exact Ek. }
        repeat split; auto.
        * unfold upd. rewrite Hne. auto.
        * unfold upd. rewrite Hne. auto.
        * eexists. split; [reflexivity|].
          exists (fun k' => k' = k \/ A k'). split.
          -- intros k' Hk'. simpl in Hk'. destruct Hk' as [?|[?|[G|?]]].
             ++ right. apply Hc. auto.
             ++ right. apply Hc. auto.
             ++ apply add_In in G. destruct G as [G|G]; [left; auto | right; apply Hc; auto].
             ++ right. apply Hc. auto.
          -- apply agree_upd. auto.
    - (* Cp *) destruct (String.eqb dst CL) eqn:Ek.
      { subst v. exfalso. eapply Hnr. reflexivity. }
      assert (Hne : String.eqb CL dst = false).
      { rewrite String.eqb_sym. exact Ek. }
      destruct (defd E cur d src) eqn:Ed.
      + subst v. simpl. repeat split; auto.
        * unfold upd. rewrite Hne. auto.
        * unfold upd. rewrite Hne. auto.
        * eexists. split; [reflexivity|].
          exists (fun k' => k' = dst \/ A k'). split.
          -- intros k' Hk'. simpl in Hk'. destruct Hk' as [?|[?|[G|?]]].
             ++ right. apply Hc. auto.
             ++ right. apply Hc. auto.
             ++ apply add_In in G. destruct G as [G|G]; [left; auto | right; apply Hc; auto].
             ++ right. apply Hc. auto.
          -- assert (Hsrc : sigma s1 src = sigma s2 src).
             { apply Ha. eapply defd_covered; eauto. }
             rewrite Hsrc. apply agree_upd. auto.
      + destruct (is_user dst || mem dst E || mem dst (fst d) || memk dst (snd d)) eqn:Et.
        { subst v. exfalso. eapply Hnr. reflexivity. }
        subst v. simpl. repeat split; auto.
        * unfold upd. rewrite Hne. auto.
        * unfold upd. rewrite Hne. auto.
        * exists d. split; auto.
          (* dst is not among the keys the agreement is needed for: drop it *)
          exists (fun k' => k' <> dst /\ A k'). split.
          -- intros k' Hk'. split.
             ++ intros ->. apply orb_false_iff in Et. destruct Et as [Et Q4].
                apply orb_false_iff in Et. destruct Et as [Et Q3].
                apply orb_false_iff in Et. destruct Et as [Q1 Q2].
                destruct Hk' as [G|[G|[G|[c [G G']]]]].
                ** congruence.
                ** apply mem_In in G. congruence.
                ** apply mem_In in G. congruence.
                ** assert (memk dst (snd d) = true) by (apply memk_In; eauto). congruence.
             ++ apply Hc. auto.
          -- intros k' [Hk' HA]. unfold upd.
             destruct (String.eqb k' dst) eqn:Ek'.
             ++ apply String.eqb_eq in Ek'. contradiction.
             ++ auto.
    - (* Abort *) subst v. simpl. auto.
    - (* Seq *)
      simpl.
      destruct (scan E cur p1 d) eqn:E1.
      + subst v. exfalso. eapply Hnr. reflexivity.
      + (* Top: p1 always raises *)
        subst v.
        assert (R := IHp1 cur d Top E1 ltac:(discriminate) Hcur A s1 s2 Hc Ha Hl Hn H1 H2).
        unfold related in R. destruct (exec p1 s1) eqn:X1; destruct (exec p1 s2) eqn:X2; try contradiction.
        * destruct R as (_ & _ & _ & _ & d' & Hd' & _). discriminate.
        * simpl. exact R.
      + assert (R := IHp1 cur d (Ok d0) E1 ltac:(discriminate) Hcur A s1 s2 Hc Ha Hl Hn H1 H2).
        unfold related in R. destruct (exec p1 s1) eqn:X1; destruct (exec p1 s2) eqn:X2; try contradiction.
        * destruct R as (L & C & C1 & C2 & d' & Hd' & A' & HcA' & HaA').
          inversion Hd'; subst d'.
          eapply IHp2; eauto.
        * simpl. exact R.
    - (* Choice *)
      simpl. rewrite Hl, Hn.
      set (t1 := mk (sigma s1) (log s2) (S (ctr s2))).
      set (t2 := mk (sigma s2) (log s2) (S (ctr s2))).
      destruct (scan E cur p1 d) eqn:E1; destruct (scan E cur p2 d) eqn:E2; subst v;
        try (exfalso; eapply Hnr; reflexivity).
      + (* Top, Top *)
        destruct (fb (log s2) (ctr s2)).
        * exact (IHp1 cur d Top E1 ltac:(discriminate) Hcur A t1 t2 Hc Ha eq_refl eq_refl H1 H2).
        * exact (IHp2 cur d Top E2 ltac:(discriminate) Hcur A t1 t2 Hc Ha eq_refl eq_refl H1 H2).
      + (* Top, Ok *)
        destruct (fb (log s2) (ctr s2)).
        * assert (R := IHp1 cur d Top E1 ltac:(discriminate) Hcur A t1 t2 Hc Ha eq_refl eq_refl H1 H2).
          unfold related in *. destruct (exec p1 t1); destruct (exec p1 t2); try contradiction; auto.
          destruct R as (_ & _ & _ & _ & d' & Hd' & _). discriminate.
        * exact (IHp2 cur d (Ok d0) E2 ltac:(discriminate) Hcur A t1 t2 Hc Ha eq_refl eq_refl H1 H2).
      + (* Ok, Top *)
        destruct (fb (log s2) (ctr s2)).
        * exact (IHp1 cur d (Ok d0) E1 ltac:(discriminate) Hcur A t1 t2 Hc Ha eq_refl eq_refl H1 H2).
        * assert (R := IHp2 cur d Top E2 ltac:(discriminate) Hcur A t1 t2 Hc Ha eq_refl eq_refl H1 H2).
          unfold related in *. destruct (exec p2 t1); destruct (exec p2 t2); try contradiction; auto.
          destruct R as (_ & _ & _ & _ & d' & Hd' & _). discriminate.
      + (* Ok, Ok *)
        assert (Hweak : forall x, sub (inter (fst d0) (fst d1), interp (snd d0) (snd d1)) x ->
                  forall r1 r2, related (Ok x) r1 r2 ->
                  related (Ok (inter (fst d0) (fst d1), interp (snd d0) (snd d1))) r1 r2).
        { intros x Hx r1 r2 R. unfold related in *. destruct r1; destruct r2; auto.
          destruct R as (L & C & C1 & C2 & d' & Hd' & A' & HcA' & HaA').
          inversion Hd'; subst d'. repeat split; auto.
          eexists. split; [reflexivity|]. exists A'. split; auto.
          eapply covers_sub; eauto. }
        destruct (fb (log s2) (ctr s2)).
        * apply (Hweak d0).
          -- split; simpl; [intros k Hk; apply inter_In in Hk; tauto
                            | intros c k Hk; apply interp_In in Hk; tauto].
          -- exact (IHp1 cur d (Ok d0) E1 ltac:(discriminate) Hcur A t1 t2 Hc Ha eq_refl eq_refl H1 H2).
        * apply (Hweak d1).
          -- split; simpl; [intros k Hk; apply inter_In in Hk; tauto
                            | intros c k Hk; apply interp_In in Hk; tauto].
          -- exact (IHp2 cur d (Ok d1) E2 ltac:(discriminate) Hcur A t1 t2 Hc Ha eq_refl eq_refl H1 H2).
    - (* Loop *)
      assert (Hv : v = Ok d /\ (forall f k, scan E cur p d <> Reject f k)).
      { destruct (scan E cur p d) eqn:E1; subst v.
        - exfalso. eapply Hnr. reflexivity.
        - split; auto. discriminate.
        - split; auto. discriminate. }
      destruct Hv as [-> Hbody]. clear Hs Hnr. simpl.
      assert (G : forall n A s1 s2, covers A d -> agree A (sigma s1) (sigma s2) ->
                log s1 = log s2 -> ctr s1 = ctr s2 -> sigma s1 CL = cl -> sigma s2 CL = cl ->
                related (Ok d) (iter_loop V fb (exec p) n s1) (iter_loop V fb (exec p) n s2));
        [|apply G with (A := A); auto].
      clear A s1 s2 Hc Ha Hl Hn H1 H2.
      induction n as [|n IHn]; intros A s1 s2 Hc Ha Hl Hn H1 H2.
      + simpl. repeat split; auto. exists d. split; auto. exists A. auto.
      + simpl. rewrite Hl, Hn.
        set (t1 := mk (sigma s1) (log s2) (S (ctr s2))).
        set (t2 := mk (sigma s2) (log s2) (S (ctr s2))).
        destruct (fb (log s2) (ctr s2)).
        * assert (R := IHp cur d (scan E cur p d) eq_refl Hbody Hcur A t1 t2 Hc Ha eq_refl eq_refl H1 H2).
          unfold related in R.
          destruct (exec p t1) eqn:X1; destruct (exec p t2) eqn:X2; try contradiction.
          -- destruct R as (L & C & C1 & C2 & d' & Hd' & A' & HcA' & HaA').
             apply IHn with (A := A'); auto.
             eapply covers_sub; [|exact HcA']. eapply scan_grows. exact Hd'.
          -- simpl. exact R.
        * simpl. repeat split; auto. exists d. split; auto. exists A. auto.
    - (* IfComp *)
      simpl. rewrite H1, H2.
      destruct (present c cl) eqn:Ep.
      + assert (Hcur' : cur_ok (Some c)).
        { intros c' Hc'. inversion Hc'; subst. exact Ep. }
        destruct (scan E (Some c) p d) eqn:E1.
        * subst v. exfalso. eapply Hnr. reflexivity.
        * subst v.
          assert (R := IHp (Some c) d Top E1 ltac:(discriminate) Hcur' A s1 s2 Hc Ha Hl Hn H1 H2).
          unfold related in *. destruct (exec p s1); destruct (exec p s2); try contradiction; auto.
          destruct R as (_ & _ & _ & _ & d' & Hd' & _). discriminate.
        * subst v.
          assert (R := IHp (Some c) d (Ok d0) E1 ltac:(discriminate) Hcur' A s1 s2 Hc Ha Hl Hn H1 H2).
          unfold related in *. destruct (exec p s1); destruct (exec p s2); try contradiction; auto.
          destruct R as (L & C & C1 & C2 & d' & Hd' & A' & HcA' & HaA').
          inversion Hd'; subst d'. repeat split; auto.
          eexists. split; [reflexivity|]. exists A'. split; auto.
          intros k Hk. apply HcA'. simpl in Hk.
          assert (G := scan_grows E p (Some c) d d0 E1). destruct G as [G1 G2].
          destruct Hk as [H|[H|[H|[c' [H H']]]]]; auto.
          apply addp_In in H. destruct H as [[Hcc H]|H].
          -- apply filter_In in H. destruct H as [H _]. auto.
          -- right. right. right. exists c'. auto.
      + (* class absent: nothing happens; the conditional facts about c are vacuous *)
        assert (Hv : exists d', v = Ok d' /\ fst d' = fst d /\
                  (forall c' k, In (c', k) (snd d') -> In (c', k) (snd d) \/ c' = c)).
        { destruct (scan E (Some c) p d) eqn:E1; subst v.
          - exfalso. eapply Hnr. reflexivity.
          - exists d. auto.
          - eexists. split; [reflexivity|]. split; auto. simpl. intros c' k H.
            apply addp_In in H. destruct H as [[H _]|H]; auto. }
        destruct Hv as (d' & -> & Hf & Hsnd).
        simpl. repeat split; auto. exists d'. split; auto. exists A. split; auto.
        intros k Hk. apply Hc. rewrite Hf in Hk.
        destruct Hk as [H|[H|[H|[c' [H H']]]]]; auto.
        destruct (Hsnd _ _ H) as [G|G].
        * right. right. right. exists c'. auto.
        * subst c'. congruence.
  Qed.
End Sound.

(* ------------------------------------------------------------------ consequences *)
Lemma lookup_frame_gen : forall table c,
  forallb (fun x : string * bool * bool * prog => negb (writes_user (snd x))) table = true ->
  writes_user (lookup_prog table c) = false.
Proof.
  induction table as [|[[[m u] r] p] rest IH]; intros c H; auto.
  simpl in H. apply andb_true_iff in H. destruct H as [Hp Hr].
  cbn [lookup_prog]. destruct (cfg_eqb (m, u, r) c).
  - now apply negb_true_iff in Hp.
  - apply IH. exact Hr.
Qed.

Section Consequences.
  Variable V : Type.
  Variable fw : nat -> key -> list V -> V.
  Variable fb : list V -> nat -> bool.
  Variable present : nat -> V -> bool.
  Variable N : nat.

  Notation exec := (exec V fw fb present N).

  (* keys whose final value is produced by the call itself *)
  Definition produced (E : list key) (p : prog) (cl : V) (k : key) : Prop :=
    In k (fst (final_dset E p)) \/ exists c, In (c, k) (snd (final_dset E p)) /\ present c cl = true.

  (* two calls end the same way, with the same reads, and leave the same values in every produced key *)
  Definition same_result (E : list key) (p : prog) (cl : V) (r1 r2 : result V) : Prop :=
    match r1, r2 with
    | Normal s1, Normal s2 =>
        log s1 = log s2 /\ forall k, produced E p cl k -> sigma s1 k = sigma s2 k
    | Aborted f1 s1, Aborted f2 s2 => f1 = f2 /\ log s1 = log s2
    | _, _ => False
    end.

  Lemma determined : forall E p, accepts E p = true ->
    forall (s1 s2 : key -> V) (kw : V),
      (forall k, is_user k = true \/ In k E -> s1 k = s2 k) ->
      same_result E p (s1 CL) (exec p (mk s1 [kw] 0)) (exec p (mk s2 [kw] 0)).
  Proof.
    intros E p Hacc s1 s2 kw Hag. unfold accepts in Hacc.
    assert (Hnr : forall f k, scan E None p ([], []) <> Reject f k).
    { intros f k Hs. rewrite Hs in Hacc. discriminate. }
    assert (Hcur : cur_ok V present (s1 CL) None).
    { intros c Hc. discriminate. }
    assert (HCL : s2 CL = s1 CL). { symmetry. apply Hag. left. reflexivity. }
    assert (Hcov : covers V present E (s1 CL) (fun k => is_user k = true \/ In k E) ([], [])).
    { intros k [H|[H|[H|[c [H _]]]]]; auto; destruct H. }
    assert (R := sound V fw fb present N E (s1 CL) p None ([], []) _ eq_refl Hnr Hcur
                   (fun k => is_user k = true \/ In k E) (mk s1 [kw] 0) (mk s2 [kw] 0)
                   Hcov Hag eq_refl eq_refl eq_refl HCL).
    unfold related in R. unfold same_result.
    destruct (exec p (mk s1 [kw] 0)); destruct (exec p (mk s2 [kw] 0)); auto.
    destruct R as (L & _ & _ & _ & d' & Hd' & A' & HcA' & HaA').
    split; auto. intros k Hk. apply HaA'. apply HcA'.
    unfold produced, final_dset in Hk. rewrite Hd' in Hk.
    destruct Hk as [Hk|Hk]; auto.
  Qed.

  (* ---------------- histories ---------------- *)
  Variable table : list (string * bool * bool * prog).
  Hypothesis table_frame : forallb (fun x => negb (writes_user (snd x))) table = true.

  Lemma lookup_frame c : writes_user (lookup_prog table c) = false.
  Proof. apply lookup_frame_gen. exact table_frame. Qed.

  Notation run := (run V fw fb present N table).
  Notation apply_op := (apply_op V fw fb present N table).
  Notation apply_user_op := (apply_user_op V fw fb present N table).
  Notation after := (after V fw fb present N table).
  Notation description_after := (description_after V fw fb present N table).

  Lemma run_frame c kw s k : is_user k = true -> sigma (state_of (run c kw s)) k = s k.
  Proof.
    intros Hk. unfold Model.run.
    now rewrite (frame_lemma V fw fb present N _ (lookup_frame c) (mk s [kw] 0) k Hk).
  Qed.

  Lemma step_user : forall (s s' : key -> V) o,
    (forall k, is_user k = true -> s k = s' k) ->
    forall k, is_user k = true -> apply_op s o k = apply_user_op s' o k.
  Proof.
    intros s s' o H k Hk. destruct o; simpl.
    - rewrite run_frame; auto.
    - destruct (is_user k0); auto. unfold upd. destruct (String.eqb k k0); auto.
    - unfold upd. destruct (String.eqb k "user_pf_options"); auto.
  Qed.

  (* runs never change the description: after any history the user part is what the user's own
     operations made of it *)
  Lemma description_unchanged_by_runs : forall h (s s' : key -> V),
    (forall k, is_user k = true -> s k = s' k) ->
    forall k, is_user k = true -> after h s k = description_after h s' k.
  Proof.
    induction h as [|o h IH]; intros s s' H k Hk; simpl; auto.
    unfold Model.after, Model.description_after in *. simpl.
    apply IH; auto. intros k' Hk'. apply step_user; auto.
  Qed.

  Variable undef : V.

  Lemma history_independence_lemma : forall h (s0 : key -> V) c kw,
    accepts [] (lookup_prog table c) = true ->
    same_result [] (lookup_prog table c) (after h s0 CL)
      (run c kw (after h s0)) (run c kw (blank undef (description_after h s0))).
  Proof.
    intros h s0 c kw Hacc. unfold Model.run. apply determined; auto.
    intros k [Hk|[]]. unfold blank. rewrite Hk.
    apply description_unchanged_by_runs; auto.
  Qed.

  Lemma repeat_lemma : forall (s0 : key -> V) c kw,
    accepts [] (lookup_prog table c) = true ->
    same_result [] (lookup_prog table c) (s0 CL)
      (run c kw s0) (run c kw (sigma (state_of (run c kw s0)))).
  Proof.
    intros s0 c kw Hacc. unfold Model.run at 1 2. apply determined; auto.
    intros k [Hk|[]]. symmetry. apply run_frame. auto.
  Qed.

  (* a call in a configuration with named exceptions: the outcome is a function of the description,
     the arguments and the excepted keys only, whatever else the history left behind *)
  Lemma exception_lemma : forall h h' (s0 s0' : key -> V) c kw,
    accepts (exceptions c) (lookup_prog table c) = true ->
    (forall k, In k (exceptions c) -> after h s0 k = after h' s0' k) ->
    (forall k, is_user k = true -> description_after h s0 k = description_after h' s0' k) ->
    same_result (exceptions c) (lookup_prog table c) (after h s0 CL)
      (run c kw (after h s0)) (run c kw (after h' s0')).
  Proof.
    intros h h' s0 s0' c kw Hacc HE HU. unfold Model.run. apply determined; auto.
    intros k [Hk|Hk]; auto.
    rewrite (description_unchanged_by_runs h s0 s0 (fun _ _ => eq_refl) k Hk).
    rewrite (description_unchanged_by_runs h' s0' s0' (fun _ _ => eq_refl) k Hk).
    auto.
  Qed.
End Consequences.

(* a program equal (as decided by prog_eqb) is the same program *)
Lemma prog_eqb_eq : forall a b, prog_eqb a b = true -> a = b.
Proof.
  induction a; destruct b; simpl; intros H; try discriminate; auto;
    repeat (apply andb_true_iff in H; destruct H as [H ?]);
    repeat match goal with
           | H : Nat.eqb _ _ = true |- _ => apply Nat.eqb_eq in H
           | H : String.eqb _ _ = true |- _ => apply String.eqb_eq in H
           end; subst; auto.
  - f_equal; auto.
  - f_equal; auto.
  - f_equal; auto.
  - f_equal; auto.
Qed.

Lemma phases_eqb_eq : forall a b, phases_eqb a b = true -> a = b.
Proof.
  induction a as [|[n p] r IH]; destruct b as [|[m q] s]; simpl; intros H; try discriminate; auto.
  repeat (apply andb_true_iff in H; destruct H as [H ?]).
  apply String.eqb_eq in H. apply prog_eqb_eq in H1. apply IH in H0. subst. reflexivity.
Qed.

(* ------------------------------------------------------------------ what a call leaves behind in a key *)
Lemma then1_assoc a b c : then1 a (then1 b c) = then1 (then1 a b) c.
Proof. destruct a, b, c; reflexivity. Qed.

Lemma e_then_in a b x y : e_in a x = true -> e_in b y = true -> e_in (then1 a b) (e_then x y) = true.
Proof.
  destruct x as [xu xw xd xe], y as [yu yw yd ye]; destruct a, b; simpl; intros H1 H2; subst; simpl;
    repeat rewrite ?orb_true_r, ?orb_true_l, ?andb_true_r, ?andb_true_l; auto;
    destruct xu, xw, xd, xe; simpl in *; auto; discriminate.
Qed.

Lemma e_then_inv r x y : e_in r (e_then x y) = true ->
  exists a b, e_in a x = true /\ e_in b y = true /\ r = then1 a b.
Proof.
  destruct x as [xu xw xd xe], y as [yu yw yd ye]; destruct r; simpl; intros H.
  - apply andb_true_iff in H. destruct H. exists Untouched, Untouched. auto.
  - apply orb_true_iff in H. destruct H as [H|H]; apply andb_true_iff in H; destruct H as [H1 H2].
    + exists Written, Untouched. auto.
    + destruct xu; [exists Untouched, Written; auto|].
      destruct xw; [exists Written, Written; auto|].
      destruct xd; [exists Deleted, Written; auto|].
      destruct xe; [exists Emptied, Written; auto|]. discriminate.
  - apply orb_true_iff in H. destruct H as [H|H]; apply andb_true_iff in H; destruct H as [H1 H2].
    + exists Deleted, Untouched. auto.
    + destruct xu; [exists Untouched, Deleted; auto|].
      destruct xw; [exists Written, Deleted; auto|].
      destruct xd; [exists Deleted, Deleted; auto|].
      destruct xe; [exists Emptied, Deleted; auto|]. discriminate.
  - apply orb_true_iff in H. destruct H as [H|H]; apply andb_true_iff in H; destruct H as [H1 H2].
    + exists Emptied, Untouched. auto.
    + destruct xu; [exists Untouched, Emptied; auto|].
      destruct xw; [exists Written, Emptied; auto|].
      destruct xd; [exists Deleted, Emptied; auto|].
      destruct xe; [exists Emptied, Emptied; auto|]. discriminate.
Qed.

Lemma e_union_l a x y : e_in a x = true -> e_in a (e_union x y) = true.
Proof. destruct a; simpl; intros ->; auto. Qed.
Lemma e_union_r a x y : e_in a y = true -> e_in a (e_union x y) = true.
Proof. destruct a; simpl; intros ->; apply orb_true_r. Qed.

Section LeakSound.
  Variable V : Type.
  Variable fw : nat -> key -> list V -> V.
  Variable fb : list V -> nat -> bool.
  Variable present : nat -> V -> bool.
  Variable N : nat.
  Variable k : key.
  Variable des : nat -> bool.
  Variable emp : nat -> bool.

  Notation exec := (exec V fw fb present N).
  Notation peff := (peff V fw fb present N emp k).

  Definition eff_ok (p : prog) (s : st V) : Prop :=
    match exec p s with
    | Normal _ => e_in (peff p s) (fst (eff k des emp p)) = true
    | Aborted f _ => des f = true -> e_in (peff p s) (snd (eff k des emp p)) = true
    end.

  Lemma star_closed na x y :
    e_in x (e_union (e_one Untouched) na) = true -> e_in y (e_union (e_one Untouched) na) = true ->
    e_in (then1 x y) (e_union (e_one Untouched) na) = true.
  Proof. destruct y; simpl; auto. Qed.

  Lemma eff_sound : forall p s, eff_ok p s.
  Proof.
    unfold eff_ok. induction p; intros s; simpl.
    - reflexivity.
    - reflexivity.
    - destruct (String.eqb k0 k); [destruct (emp f)|]; reflexivity.
    - destruct (String.eqb k0 k); reflexivity.
    - destruct (String.eqb dst k); reflexivity.
    - intros ->. reflexivity.
    - (* Seq *)
      specialize (IHp1 s). destruct (eff k des emp p1) as [na aa] eqn:E1. destruct (eff k des emp p2) as [nb ab] eqn:E2.
      destruct (exec p1 s) as [s'|f s'] eqn:X1; simpl in *.
      + specialize (IHp2 s'). destruct (exec p2 s') eqn:X2; simpl in *.
        * apply e_then_in; auto.
        * intros Hd. apply e_union_r. apply e_then_in; auto.
      + intros Hd. apply e_union_l. auto.
    - (* Choice *)
      destruct (eff k des emp p1) as [na aa] eqn:E1. destruct (eff k des emp p2) as [nb ab] eqn:E2.
      destruct (fb (log s) (ctr s)).
      + specialize (IHp1 (mk (sigma s) (log s) (S (ctr s)))).
        destruct (exec p1 _); simpl in *; [apply e_union_l; auto | intros Hd; apply e_union_l; auto].
      + specialize (IHp2 (mk (sigma s) (log s) (S (ctr s)))).
        destruct (exec p2 _); simpl in *; [apply e_union_r; auto | intros Hd; apply e_union_r; auto].
    - (* Loop *)
      destruct (eff k des emp p) as [na aa] eqn:E1. simpl.
      set (star := e_union (e_one Untouched) na).
      assert (G : forall n s,
                 match iter_loop V fb (exec p) n s with
                 | Normal _ => e_in (iter_eff V fb (exec p) (peff p) n s) star = true
                 | Aborted f _ => des f = true ->
                     e_in (iter_eff V fb (exec p) (peff p) n s) (e_then star aa) = true
                 end); [|apply G].
      clear s. induction n as [|n IHn]; intros s; simpl.
      + reflexivity.
      + destruct (fb (log s) (ctr s)); [|reflexivity].
        specialize (IHp (mk (sigma s) (log s) (S (ctr s)))).
        destruct (exec p _) as [s''|f s''] eqn:X; simpl in *.
        * specialize (IHn s''). destruct (iter_loop V fb (exec p) n s'') eqn:Y.
          -- apply star_closed; auto. apply e_union_r. auto.
          -- intros Hd. specialize (IHn Hd). apply e_then_inv in IHn.
             destruct IHn as (a & b & Ha & Hb & ->). rewrite then1_assoc.
             apply e_then_in; auto. apply star_closed; auto. apply e_union_r. auto.
        * intros Hd. specialize (IHp Hd).
          replace (peff p _) with (then1 Untouched (peff p (mk (sigma s) (log s) (S (ctr s)))))
            by (destruct (peff p _); reflexivity).
          apply e_then_in; auto.
    - (* IfComp *)
      destruct (eff k des emp p) as [na aa] eqn:E1. simpl.
      destruct (present c (sigma s CL)).
      + specialize (IHp s). destruct (exec p s); simpl in *; auto. apply e_union_r. auto.
      + reflexivity.
  Qed.
End LeakSound.
