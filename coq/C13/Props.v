(* C13 - property theorems only.  [spec] is the stand-alone pipeflow (a function of the description by
   C12); the wiring facts come from Gen/TsWiring.v, regenerated from the sources on every run. *)
From Coq Require Import List Bool Arith String.
From PP Require Import C13.Model C13.Proofs Gen.TsWiring.
Import ListNotations.

(* 1. a later write to a cell makes the earlier one irrelevant ... *)
Theorem write_overwrites : forall (C V : Type) (ceqb : C -> C -> bool) c v1 v2 (u : desc C V) c',
  set C V ceqb c v2 (set C V ceqb c v1 u) c' = set C V ceqb c v2 u c'.
Proof. exact write_overwrites_lemma. Qed.
Print Assumptions write_overwrites.

(* ... hence the description at step t is U_0 with row t written, whatever steps came before *)
Theorem description_at_step_depends_on_row_only :
  forall (C V : Type) (ceqb : C -> C -> bool), (forall a b, ceqb a b = true <-> a = b) ->
  forall cells profile t (u u0 : desc C V),
    (forall c, ~ In c cells -> u c = u0 c) ->
    forall c, write_step C V ceqb cells profile t u c = write_step C V ceqb cells profile t u0 c.
Proof. intros C V ceqb H cells profile t u u0 Hoff c. apply write_step_from_any; auto. Qed.
Print Assumptions description_at_step_depends_on_row_only.

(* 2. for every list of steps (any order, any subset, repetitions), with or without
   continue_on_divergence, the row logged for step t is the stand-alone result for U_0[cells := row t] *)
Theorem step_equals_standalone :
  forall (C V R : Type) (ceqb : C -> C -> bool), (forall a b, ceqb a b = true <-> a = b) ->
  forall (spec : desc C V -> option R), (forall u u', (forall c, u c = u' c) -> spec u = spec u') ->
  forall cells profile cod steps u0 t r,
    In (t, r) (logged C V R (run_timeseries C V R ceqb spec cells profile cod steps u0)) ->
    r = spec (write_step C V ceqb cells profile t u0).
Proof. intros. eapply step_equals_standalone_lemma; eauto. Qed.
Print Assumptions step_equals_standalone.

(* 3a. continue_on_divergence: every step is logged in order - a diverged one as None - and the loop
   finishes; a diverged step changes nothing for the later ones *)
Theorem diverged_step_isolated :
  forall (C V R : Type) (ceqb : C -> C -> bool), (forall a b, ceqb a b = true <-> a = b) ->
  forall (spec : desc C V -> option R), (forall u u', (forall c, u c = u' c) -> spec u = spec u') ->
  forall cells profile steps u0,
    logged C V R (run_timeseries C V R ceqb spec cells profile true steps u0) =
      map (fun t => (t, spec (write_step C V ceqb cells profile t u0))) steps /\
    outcome C V R (run_timeseries C V R ceqb spec cells profile true steps u0) = Finished.
Proof.
  intros C V R ceqb H spec Hs cells profile steps u0.
  apply (loop_cod C V R ceqb H spec Hs cells profile steps u0 u0 []). intros c _. reflexivity.
Qed.
Print Assumptions diverged_step_isolated.

(* 3b. without it: the loop raises at the first step whose stand-alone calculation fails *)
Theorem divergence_stops_the_loop :
  forall (C V R : Type) (ceqb : C -> C -> bool), (forall a b, ceqb a b = true <-> a = b) ->
  forall (spec : desc C V -> option R), (forall u u', (forall c, u c = u' c) -> spec u = spec u') ->
  forall cells profile steps u0,
    logged C V R (run_timeseries C V R ceqb spec cells profile false steps u0) =
      map (fun t => (t, spec (write_step C V ceqb cells profile t u0)))
          (upto C V R ceqb spec cells profile steps u0) /\
    outcome C V R (run_timeseries C V R ceqb spec cells profile false steps u0) =
      match first_failing C V R ceqb spec cells profile steps u0 with
      | Some t => Raised t | None => Finished end.
Proof.
  intros C V R ceqb H spec Hs cells profile steps u0.
  apply (loop_stop C V R ceqb H spec Hs cells profile steps u0 u0 []). intros c _. reflexivity.
Qed.
Print Assumptions divergence_stops_the_loop.

(* 2m. multi-energy time series: with coupling controllers that read input cells of one net and write input
   cells of another (no chains within a step, profiles do not drive derived cells), for every list of steps the
   row logged for t is the stand-alone calculation of the member nets on  couple (U_0[cells := row t]) *)
Theorem multinet_step_equals_standalone :
  forall (C V R : Type) (ceqb : C -> C -> bool), (forall a b, ceqb a b = true <-> a = b) ->
  forall (spec : desc C V -> option R), (forall u u', (forall c, u c = u' c) -> spec u = spec u') ->
  forall (cells derived reads : list C) (couple : desc C V -> desc C V) profile,
    (forall u c, ~ In c derived -> couple u c = u c) ->
    (forall u u' c, (forall r, In r reads -> u r = u' r) -> In c derived -> couple u c = couple u' c) ->
    (forall c, In c reads -> ~ In c derived) ->
    (forall c, In c cells -> ~ In c derived) ->
  forall cod steps u0 t r,
    In (t, r) (logged C V R (mloop C V R ceqb spec cells couple profile cod steps u0 [])) ->
    r = spec (mstep C V ceqb cells couple profile t u0).
Proof. intros. eapply multinet_step_lemma; eauto. Qed.
Print Assumptions multinet_step_equals_standalone.

(* 3c. what is assumed of pandapower: a loop shaped like pandapower's run_time_step, with its collaborators as
   parameters satisfying the three stated laws (ConstControl writes profile[t]*scale into its cells and nothing
   else; the registered run function returns spec of the description and leaves it unchanged - pipeflow by the
   wiring table, spec by C12; the OutputWriter appends one row per saved step), logs what the model logs and ends
   like it - except that when it raises, the failing step is not handed to the output writer *)
Theorem pandapower_loop_is_the_model :
  forall (C V R : Type) (ceqb : C -> C -> bool) (spec : desc C V -> option R),
    (forall u u', (forall c, u c = u' c) -> spec u = spec u') ->
  forall cells profile control_time_step run_function ow_save,
    (forall t u c, control_time_step t u c = write_step C V ceqb cells profile t u c) ->
    (forall u, fst (run_function u) = spec u /\ forall c, snd (run_function u) c = u c) ->
    (forall t r log, ow_save t r log = app log [(t, r)]) ->
  forall cod steps u0,
    logged C V R (pp_loop C V R control_time_step run_function ow_save cod steps u0 []) =
      drop_failed R (logged C V R (run_timeseries C V R ceqb spec cells profile cod steps u0))
                    (outcome C V R (run_timeseries C V R ceqb spec cells profile cod steps u0)) /\
    outcome C V R (pp_loop C V R control_time_step run_function ow_save cod steps u0 []) =
      outcome C V R (run_timeseries C V R ceqb spec cells profile cod steps u0).
Proof.
  intros. unfold run_timeseries. eapply pandapower_loop_lemma; eauto.
Qed.
Print Assumptions pandapower_loop_is_the_model.

(* 4. (includes: the caller's solver options **kwargs are forwarded to every calculation of a step - run_loop ->
   run_time_step, multinet run_control -> initial run and recalculation after the controllers) *)
(* 4. the loops register pipeflow as run function, PipeflowNotConverged is the first recognised error
   (the one re-raised), the multinet twins take both from the pandapipes set-up, and run_loop hands every
   step once and in order to pandapower's run_time_step *)
Open Scope string_scope.
Theorem registered_run_and_errors :
  wget "ts.run_default" wiring = "pandapipes.pipeflow.pipeflow" /\
  wget "ts.run_passed_on" wiring = "yes" /\
  prefix "pandapipes.pipeflow.PipeflowNotConverged" (wget "ts.errors" wiring) = true /\
  wget "ts.pf_not_converged_raises" wiring = "pandapipes.pipeflow.PipeflowNotConverged" /\
  wget "ts.run_loop" wiring = "each-step-once-in-order" /\
  wget "ts.run_time_step_origin" wiring = "pandapower.timeseries.run_time_series.run_time_step" /\
  wget "ts.run_timeseries_calls" wiring = "init_time_series,run_loop" /\
  wget "ctrl.run" wiring = "pandapipes.pipeflow" /\
  wget "ctrl.errors" wiring = "pandapipes.pipeflow.PipeflowNotConverged" /\
  wget "ctrl.errors_unconditional" wiring = "yes" /\
  wget "multinet.ctrl.per_pandapipes_net" wiring = "pandapipes.control.run_control.prepare_run_ctrl" /\
  wget "multinet.ctrl.run_default_from_net_type" wiring = "yes" /\
  wget "multinet.ctrl.errors_default_from_net_type" wiring = "yes" /\
  (* PipeflowNotConverged is in EVERY error tuple, incl. the top-level one of the multinet loop that pandapower's
     run_time_step catches for continue_on_divergence *)
  contains "PipeflowNotConverged" (wget "ts.errors" wiring) = true /\
  contains "PipeflowNotConverged" (wget "ctrl.errors" wiring) = true /\
  contains "PipeflowNotConverged" (wget "multinet.ctrl.errors" wiring) = true /\
  contains "NetCalculationNotConverged" (wget "multinet.ctrl.errors" wiring) = true /\
  wget "multinet.ctrl.relevant_nets" wiring = "all-nets-named-by-the-controllers" /\
  wget "ts.run_loop_forwards_kwargs" wiring = "forwards-kwargs" /\
  wget "multinet.ctrl.evaluate_forwards_kwargs" wiring = "forwards-kwargs" /\
  wget "multinet.ctrl.initialization_forwards_kwargs" wiring = "forwards-kwargs" /\
  wget "multinet.ctrl.run_control_forwards_kwargs" wiring = "forwards-kwargs" /\
  wget "multinet.ts.prepare" wiring = "pandapipes.multinet.control.run_control_multinet.prepare_run_ctrl" /\
  wget "multinet.ts.run_loop_origin" wiring = "pandapipes.timeseries.run_time_series.run_loop".
Proof. vm_compute. repeat split; reflexivity. Qed.
Print Assumptions registered_run_and_errors.

(* non-vacuity: a concrete instance - two cells, steps given out of order with a failing one *)
Example instance :
  let spec := fun u : desc nat nat => if Nat.eqb (u 0) 99 then None else Some (u 0 + u 1 + u 2) in
  let profile := fun t c => if Nat.eqb t 2 then 99 else 10 * t + c in
  logged nat nat nat (run_timeseries nat nat nat Nat.eqb spec [0; 1] profile true [3; 2; 1] (fun _ => 7))
    = [(3, Some 68); (2, None); (1, Some 28)] /\
  outcome nat nat nat (run_timeseries nat nat nat Nat.eqb spec [0; 1] profile false [3; 2; 1] (fun _ => 7))
    = Raised 2.
Proof. vm_compute. split; reflexivity. Qed.

(* non-vacuity of the multi-energy hypotheses: cells 0,1 driven by the profile, cell 2 derived from cell 0
   (a coupling: c2 := 2 * c0), cell 3 static *)
Example multinet_instance :
  let couple := fun (u : desc nat nat) c => if Nat.eqb c 2 then 2 * u 0 else u c in
  let spec := fun u : desc nat nat => if Nat.eqb (u 0) 99 then None else Some (u 0 + u 1 + u 2 + u 3) in
  let profile := fun t c => if Nat.eqb t 2 then 99 else 10 * t + c in
  (forall u c, ~ In c [2] -> couple u c = u c) /\
  (forall u u' c, (forall r, In r [0] -> u r = u' r) -> In c [2] -> couple u c = couple u' c) /\
  (forall c, In c [0] -> ~ In c [2]) /\ (forall c, In c [0; 1] -> ~ In c [2]) /\
  logged nat nat nat (mloop nat nat nat Nat.eqb spec [0; 1] couple profile true [3; 2; 1] (fun _ => 7) [])
    = [(3, Some 128); (2, None); (1, Some 48)].
Proof.
  cbv zeta. repeat split.
  - intros u c H. destruct (Nat.eqb c 2) eqn:E; auto. apply Nat.eqb_eq in E. subst. exfalso. apply H. left. auto.
  - intros u u' c H [Hc|[]]. subst. simpl. rewrite (H 0); auto. left. auto.
  - intros c [H|[]] [G|[]]. subst. discriminate.
  - intros c [H|[H|[]]] [G|[]]; subst; discriminate.
Qed.

(* non-vacuity of the oracle laws: an instance of the three collaborators that satisfies them *)
Example oracle_instance :
  let spec := fun u : desc nat nat => if Nat.eqb (u 0) 99 then None else Some (u 0 + u 1) in
  let profile := fun t c => if Nat.eqb t 2 then 99 else 10 * t + c in
  let cts := fun t u => write_step nat nat Nat.eqb [0; 1] profile t u in
  let runf := fun u : desc nat nat => (spec u, u) in
  let ows := fun t (r : option nat) (log : list (nat * option nat)) => app log [(t, r)] in
  logged nat nat nat (pp_loop nat nat nat cts runf ows false [3; 2; 1] (fun _ => 7) []) = [(3, Some 61)] /\
  outcome nat nat nat (pp_loop nat nat nat cts runf ows false [3; 2; 1] (fun _ => 7) []) = Raised 2.
Proof. vm_compute. split; reflexivity. Qed.
