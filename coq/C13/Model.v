(* C13 - the time-series loop as a fold over steps (definitions only).

   State = the user's description of the net, a map from cells (table, row, column) to values.
   One step t:  every controlled cell is overwritten with profile[t]*scale (ConstControl semantics:
   the value written does not depend on what the cell held), then the registered run function is
   called, then the selected result columns are logged.

   The run function is pipeflow (Gen/TsWiring.v).  By C12 a call leaves the description unchanged and
   its outcome is a function of the description alone, whatever was calculated on the net object before:
   that is the function [spec] below (None = PipeflowNotConverged, Some r = the logged values).
   pandapower's run_time_step / run_control / ConstControl / OutputWriter are oracles with exactly
   the behaviour written here. *)
From Coq Require Import List Bool Arith.
Import ListNotations.

Section TimeSeries.
  Variable C V R : Type.                       (* cells, values, logged result rows *)
  Variable ceqb : C -> C -> bool.
  Definition desc := C -> V.

  Definition set (c : C) (v : V) (u : desc) : desc := fun c' => if ceqb c' c then v else u c'.

  Variable spec : desc -> option R.            (* stand-alone pipeflow on a fresh copy with this description *)
  Variable cells : list C.                     (* the controlled cells *)
  Variable profile : nat -> C -> V.            (* profile[t] * scale_factor for each controlled cell *)

  (* time_step(t) of all ConstControl controllers *)
  Definition write_step (t : nat) (u : desc) : desc :=
    fold_left (fun u c => set c (profile t c) u) cells u.

  Inductive status := Finished | Raised (t : nat).

  (* run_loop; cod = continue_on_divergence.  A diverged step is logged as None (NaN row). *)
  Fixpoint loop (cod : bool) (steps : list nat) (u : desc) (log : list (nat * option R))
    : desc * list (nat * option R) * status :=
    match steps with
    | [] => (u, log, Finished)
    | t :: rest =>
        let u' := write_step t u in
        match spec u' with
        | Some r => loop cod rest u' (log ++ [(t, Some r)])
        | None => if cod then loop cod rest u' (log ++ [(t, None)])
                  else (u', log ++ [(t, None)], Raised t)
        end
    end.

  Definition run_timeseries (cod : bool) (steps : list nat) (u0 : desc) := loop cod steps u0 [].

  Definition logged (x : desc * list (nat * option R) * status) := snd (fst x).
  Definition outcome (x : desc * list (nat * option R) * status) := snd x.

  (* the first step whose stand-alone calculation fails *)
  Fixpoint first_failing (steps : list nat) (u0 : desc) : option nat :=
    match steps with
    | [] => None
    | t :: rest => match spec (write_step t u0) with None => Some t | Some _ => first_failing rest u0 end
    end.
End TimeSeries.

(* ---------------------------------------------------------------- multi-energy time series
   The multinet is one description over the cells of all member nets.  The coupling controllers
   (P2G, G2P, gas-to-gas) read INPUT cells of one net (p_mw * scaling, mdot_kg_per_s * scaling) and write
   input cells of another one: together a function [couple] on descriptions that changes only the
   derived cells and looks only at the cells it reads.  One step: ConstControl writes the profile row,
   the couplings are applied, every net touched by a controller is (re)calculated (run_control_multinet:
   _relevant_nets), the rows of all member nets are logged.  [spec] is the stand-alone calculation of
   all member nets (each a pure function of its own cells by C12). *)
Section MultiEnergy.
  Variable C V R : Type.
  Variable ceqb : C -> C -> bool.
  Variable spec : desc C V -> option R.
  Variable cells : list C.                     (* cells driven by profiles *)
  Variable derived : list C.                   (* cells written by coupling controllers *)
  Variable couple : desc C V -> desc C V.
  Variable profile : nat -> C -> V.

  Definition mstep (t : nat) (u : desc C V) : desc C V := couple (write_step C V ceqb cells profile t u).

  Fixpoint mloop (cod : bool) (steps : list nat) (u : desc C V) (log : list (nat * option R))
    : desc C V * list (nat * option R) * status :=
    match steps with
    | [] => (u, log, Finished)
    | t :: rest =>
        let u' := mstep t u in
        match spec u' with
        | Some r => mloop cod rest u' (log ++ [(t, Some r)])
        | None => if cod then mloop cod rest u' (log ++ [(t, None)])
                  else (u', log ++ [(t, None)], Raised t)
        end
    end.
End MultiEnergy.

(* ---------------------------------------------------------------- pandapower's loop, as assumed
   run_time_step(net, t, ts_variables) of pandapower 3.x, written with its collaborators as parameters:
     control_time_step : every controller's time_step(t)        (ConstControl: write data_source[t]*scale)
     run_control       : controller sweep + the registered run function; an exception of
                         ts_variables["errors"] is caught -> pf_converged = False -> pf_not_converged
                         (raises errors[0] unless continue_on_divergence)
     output writer     : save_results(net, t, pf_converged, ...)
   The laws assumed of these collaborators are the hypotheses of C13.Proofs.pandapower_loop_is_the_model. *)
Section PandapowerLoop.
  Variable C V R : Type.
  Definition pdesc := C -> V.
  Variable control_time_step : nat -> pdesc -> pdesc.       (* ConstControl.time_step of all controllers *)
  Variable run_function : pdesc -> option R * pdesc.        (* registered run: result (None = listed error) and net after *)
  Variable ow_save : nat -> option R -> list (nat * option R) -> list (nat * option R).   (* OutputWriter.save_results *)

  Fixpoint pp_loop (cod : bool) (steps : list nat) (u : pdesc) (log : list (nat * option R))
    : pdesc * list (nat * option R) * status :=
    match steps with
    | [] => (u, log, Finished)
    | t :: rest =>
        let u1 := control_time_step t u in
        let (res, u2) := run_function u1 in
        match res with
        | Some r => pp_loop cod rest u2 (ow_save t (Some r) log)
        | None => if cod then pp_loop cod rest u2 (ow_save t None log)
                  else (u2, log, Raised t)        (* pf_not_converged raises before the output writer runs *)
        end
    end.
End PandapowerLoop.

(* lookup in the generated wiring table *)
From Coq Require Import String.
Fixpoint wget (k : string) (l : list (string * string)) : string :=
  match l with [] => "" | (a, b) :: r => if String.eqb a k then b else wget k r end.

(* substring test for the comma-separated class lists of the wiring table *)
Fixpoint contains (sub s : string) : bool :=
  prefix sub s || match s with EmptyString => false | String _ r => contains sub r end.
