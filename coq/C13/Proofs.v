(* C13 - proofs over the step model. *)
From Coq Require Import List Bool Arith Lia.
From PP Require Import C13.Model.
Import ListNotations.

Section Proofs.
  Variable C V R : Type.
  Variable ceqb : C -> C -> bool.
  Hypothesis ceqb_spec : forall a b, ceqb a b = true <-> a = b.
  Variable spec : desc C V -> option R.
  (* spec looks at the description only through its cells *)
  Hypothesis spec_ext : forall u u', (forall c, u c = u' c) -> spec u = spec u'.
  Variable cells : list C.
  Variable profile : nat -> C -> V.

  Notation set := (set C V ceqb).
  Notation write_step := (write_step C V ceqb cells profile).
  Notation loop := (loop C V R ceqb spec cells profile).
  Notation first_failing := (first_failing C V R ceqb spec cells profile).

  Lemma ceqb_refl c : ceqb c c = true. Proof. now apply ceqb_spec. Qed.

  Lemma ceq_dec : forall a b : C, {a = b} + {a <> b}.
  Proof.
    intros a b. destruct (ceqb a b) eqn:E.
    - left. now apply ceqb_spec.
    - right. intros G. apply ceqb_spec in G. congruence.
  Qed.

  Lemma write_overwrites_lemma : forall c v1 v2 u c', set c v2 (set c v1 u) c' = set c v2 u c'.
  Proof. intros. unfold Model.set. destruct (ceqb c' c); auto. Qed.

  Lemma fold_other : forall (l : list C) t u c, ~ In c l ->
    fold_left (fun u c => set c (profile t c) u) l u c = u c.
  Proof.
    induction l as [|x r IH]; intros t u c H; simpl; auto.
    rewrite IH by (intros G; apply H; right; auto).
    unfold Model.set. destruct (ceqb c x) eqn:E; auto.
    apply ceqb_spec in E. subst. exfalso. apply H. left. auto.
  Qed.

  Lemma fold_in : forall (l : list C) t u c, In c l ->
    fold_left (fun u c => set c (profile t c) u) l u c = profile t c.
  Proof.
    induction l as [|x r IH]; intros t u c H; simpl; [destruct H|].
    destruct (in_dec ceq_dec c r) as [Hin|Hnin].
    - apply IH. auto.
    - rewrite fold_other by auto. destruct H as [H|H]; [|contradiction]. subst.
      unfold Model.set. now rewrite ceqb_refl.
  Qed.

  Definition same_off_cells (u u0 : desc C V) : Prop := forall c, ~ In c cells -> u c = u0 c.

  (* U_t depends on U_0 and on row t only *)
  Lemma write_step_from_any : forall t u u0, same_off_cells u u0 ->
    forall c, write_step t u c = write_step t u0 c.
  Proof.
    intros t u u0 H c. unfold Model.write_step.
    destruct (in_dec ceq_dec c cells) as [Hin|Hnin].
    - now rewrite !fold_in.
    - rewrite !fold_other; auto.
  Qed.

  Lemma write_step_off : forall t u u0, same_off_cells u u0 -> same_off_cells (write_step t u) u0.
  Proof. intros t u u0 H c Hc. unfold Model.write_step. rewrite fold_other; auto. Qed.

  Lemma spec_step : forall t u u0, same_off_cells u u0 -> spec (write_step t u) = spec (write_step t u0).
  Proof. intros. apply spec_ext. apply write_step_from_any. auto. Qed.

  (* every row logged by the loop is the stand-alone result of its own step *)
  Lemma loop_rows : forall cod steps u u0 log,
    same_off_cells u u0 ->
    (forall t r, In (t, r) log -> r = spec (write_step t u0)) ->
    forall t r, In (t, r) (logged C V R (loop cod steps u log)) -> r = spec (write_step t u0).
  Proof.
    intros cod steps. induction steps as [|s rest IH]; intros u u0 log Hoff Hlog t r Hin; simpl in Hin.
    - auto.
    - assert (Hs := spec_step s u u0 Hoff).
      assert (Hoff' := write_step_off s u u0 Hoff).
      destruct (spec (write_step s u)) as [row|] eqn:E.
      + eapply IH; [exact Hoff' | | exact Hin].
        intros t' r' H'. apply in_app_or in H'. destruct H' as [H'|[H'|[]]]; auto.
        inversion H'; subst. congruence.
      + destruct cod.
        * eapply IH; [exact Hoff' | | exact Hin].
          intros t' r' H'. apply in_app_or in H'. destruct H' as [H'|[H'|[]]]; auto.
          inversion H'; subst. congruence.
        * unfold logged in Hin. simpl in Hin.
          apply in_app_or in Hin. destruct Hin as [H'|[H'|[]]]; auto.
          inversion H'; subst. congruence.
  Qed.

  Lemma step_equals_standalone_lemma : forall cod steps u0 t r,
    In (t, r) (logged C V R (run_timeseries C V R ceqb spec cells profile cod steps u0)) ->
    r = spec (write_step t u0).
  Proof.
    intros. eapply loop_rows; eauto.
    - intros c _. reflexivity.
    - intros t' r' [].
  Qed.

  (* with continue_on_divergence every step is logged, in order, and the loop finishes *)
  Lemma loop_cod : forall steps u u0 log, same_off_cells u u0 ->
    logged C V R (loop true steps u log) = log ++ map (fun t => (t, spec (write_step t u0))) steps /\
    outcome C V R (loop true steps u log) = Finished.
  Proof.
    induction steps as [|s rest IH]; intros u u0 log Hoff; simpl.
    - unfold logged, outcome. simpl. now rewrite app_nil_r.
    - assert (Hs := spec_step s u u0 Hoff).
      assert (Hoff' := write_step_off s u u0 Hoff).
      destruct (spec (write_step s u)) as [row|] eqn:E.
      + destruct (IH _ u0 (log ++ [(s, Some row)]) Hoff') as [A B]. rewrite A, B, <- Hs, <- app_assoc. auto.
      + destruct (IH _ u0 (log ++ [(s, None)]) Hoff') as [A B]. rewrite A, B, <- Hs, <- app_assoc. auto.
  Qed.

  (* without it the loop stops by raising at the first step whose stand-alone calculation fails; the steps
     before it are logged as usual, the failing step as None, nothing after it *)
  Fixpoint upto (steps : list nat) (u0 : desc C V) : list nat :=
    match steps with
    | [] => []
    | t :: rest => match spec (write_step t u0) with None => [t] | Some _ => t :: upto rest u0 end
    end.

  Lemma loop_stop : forall steps u u0 log, same_off_cells u u0 ->
    logged C V R (loop false steps u log) = log ++ map (fun t => (t, spec (write_step t u0))) (upto steps u0) /\
    outcome C V R (loop false steps u log) =
      match first_failing steps u0 with Some t => Raised t | None => Finished end.
  Proof.
    induction steps as [|s rest IH]; intros u u0 log Hoff; simpl.
    - unfold logged, outcome. simpl. now rewrite app_nil_r.
    - assert (Hs := spec_step s u u0 Hoff).
      assert (Hoff' := write_step_off s u u0 Hoff).
      destruct (spec (write_step s u)) as [row|] eqn:E; rewrite <- Hs.
      + destruct (IH _ u0 (log ++ [(s, Some row)]) Hoff') as [A B]. rewrite A, B. simpl.
        rewrite <- Hs, <- app_assoc. auto.
      + unfold logged, outcome. simpl. rewrite <- Hs. auto.
  Qed.
End Proofs.

(* ------------------------------------------------------------------ multi-energy time series *)
Section MultiProofs.
  Variable C V R : Type.
  Variable ceqb : C -> C -> bool.
  Hypothesis ceqb_spec : forall a b, ceqb a b = true <-> a = b.
  Variable spec : desc C V -> option R.
  Hypothesis spec_ext : forall u u', (forall c, u c = u' c) -> spec u = spec u'.
  Variable cells derived reads : list C.
  Variable couple : desc C V -> desc C V.
  Variable profile : nat -> C -> V.
  (* the couplings change only derived cells ... *)
  Hypothesis couple_frame : forall u c, ~ In c derived -> couple u c = u c.
  (* ... whose new value depends only on the cells the couplings read ... *)
  Hypothesis couple_reads : forall u u' c, (forall r, In r reads -> u r = u' r) -> In c derived ->
    couple u c = couple u' c.
  (* ... and no coupling reads what a coupling writes (no chains within one step), and profiles do not
     drive derived cells *)
  Hypothesis reads_not_derived : forall c, In c reads -> ~ In c derived.
  Hypothesis cells_not_derived : forall c, In c cells -> ~ In c derived.

  Notation write_step := (write_step C V ceqb cells profile).
  Notation mstep := (mstep C V ceqb cells couple profile).
  Notation mloop := (mloop C V R ceqb spec cells couple profile).

  Definition same_off (u u0 : desc C V) : Prop := forall c, ~ In c cells -> ~ In c derived -> u c = u0 c.

  Lemma mstep_from_any : forall t u u0, same_off u u0 -> forall c, mstep t u c = mstep t u0 c.
  Proof.
    intros t u u0 H c. unfold Model.mstep.
    assert (W : forall x, ~ In x derived -> write_step t u x = write_step t u0 x).
    { intros x Hx. unfold Model.write_step.
      destruct (in_dec (ceq_dec C ceqb ceqb_spec) x cells) as [Hin|Hnin].
      - rewrite !(fold_in C V ceqb ceqb_spec); auto.
      - rewrite !(fold_other C V ceqb ceqb_spec); auto. }
    destruct (in_dec (ceq_dec C ceqb ceqb_spec) c derived) as [Hd|Hd].
    - apply couple_reads; auto.
    - rewrite !couple_frame; auto.
  Qed.

  Lemma mstep_off : forall t u u0, same_off u u0 -> same_off (mstep t u) u0.
  Proof.
    intros t u u0 H c Hc Hd. unfold Model.mstep. rewrite couple_frame; auto.
    unfold Model.write_step. rewrite (fold_other C V ceqb ceqb_spec); auto.
  Qed.

  Lemma mloop_rows : forall cod steps u u0 log, same_off u u0 ->
    (forall t r, In (t, r) log -> r = spec (mstep t u0)) ->
    forall t r, In (t, r) (logged C V R (mloop cod steps u log)) -> r = spec (mstep t u0).
  Proof.
    intros cod steps. induction steps as [|s rest IH]; intros u u0 log Hoff Hlog t r Hin; simpl in Hin.
    - auto.
    - assert (Hs : spec (mstep s u) = spec (mstep s u0)) by (apply spec_ext; apply mstep_from_any; auto).
      assert (Hoff' := mstep_off s u u0 Hoff).
      destruct (spec (mstep s u)) as [row|] eqn:E.
      + eapply IH; [exact Hoff' | | exact Hin].
        intros t' r' H'. apply in_app_or in H'. destruct H' as [H'|[H'|[]]]; auto.
        inversion H'; subst. congruence.
      + destruct cod.
        * eapply IH; [exact Hoff' | | exact Hin].
          intros t' r' H'. apply in_app_or in H'. destruct H' as [H'|[H'|[]]]; auto.
          inversion H'; subst. congruence.
        * unfold logged in Hin. simpl in Hin.
          apply in_app_or in Hin. destruct Hin as [H'|[H'|[]]]; auto.
          inversion H'; subst. congruence.
  Qed.

  Lemma multinet_step_lemma : forall cod steps u0 t r,
    In (t, r) (logged C V R (mloop cod steps u0 [])) -> r = spec (mstep t u0).
  Proof.
    intros. eapply mloop_rows; eauto.
    - intros c _ _. reflexivity.
    - intros t' r' [].
  Qed.
End MultiProofs.

(* ------------------------------------------------------------------ the assumed behaviour of pandapower's loop *)
Section Oracles.
  Variable C V R : Type.
  Variable ceqb : C -> C -> bool.
  Variable spec : desc C V -> option R.
  Hypothesis spec_ext : forall u u', (forall c, u c = u' c) -> spec u = spec u'.
  Variable cells : list C.
  Variable profile : nat -> C -> V.
  Variable control_time_step : nat -> desc C V -> desc C V.
  Variable run_function : desc C V -> option R * desc C V.
  Variable ow_save : nat -> option R -> list (nat * option R) -> list (nat * option R).

  (* ConstControl: time_step(t) writes data_source[t, profile_name] * scale_factor into the controlled cells and
     nothing else, whatever they held *)
  Hypothesis const_control_law : forall t u c, control_time_step t u c = write_step C V ceqb cells profile t u c.
  (* the registered run function is pipeflow (Gen/TsWiring) and by C12 it returns spec of the description and leaves
     the description unchanged; a listed error is reported as None *)
  Hypothesis run_law : forall u, fst (run_function u) = spec u /\ forall c, snd (run_function u) c = u c.
  (* OutputWriter: one row per saved step, in the order of the calls *)
  Hypothesis ow_law : forall t r log, ow_save t r log = log ++ [(t, r)].

  Notation pp_loop := (pp_loop C V R control_time_step run_function ow_save).
  Notation loop := (loop C V R ceqb spec cells profile).

  (* The loop shaped like pandapower's run_time_step logs what the model logs and ends like it, except that when it
     raises the failing step is not written by the output writer (the model lists it as None) *)
  Definition drop_failed (x : list (nat * option R)) (st : status) : list (nat * option R) :=
    match st with Raised _ => removelast x | Finished => x end.

  Lemma write_step_ext : forall t (l : list C) (u u' : desc C V), (forall c, u c = u' c) ->
    forall c, fold_left (fun u c => set C V ceqb c (profile t c) u) l u c =
              fold_left (fun u c => set C V ceqb c (profile t c) u) l u' c.
  Proof.
    intros t l. induction l as [|x r IHc]; intros u u' Huu; simpl; auto.
    apply IHc. intros c'. unfold Model.set. destruct (ceqb c' x); auto.
  Qed.

  Lemma pandapower_loop_lemma : forall cod steps u u' log,
    (forall c, u c = u' c) ->
    logged C V R (pp_loop cod steps u log) =
      drop_failed (logged C V R (loop cod steps u' log)) (outcome C V R (loop cod steps u' log)) /\
    outcome C V R (pp_loop cod steps u log) = outcome C V R (loop cod steps u' log).
  Proof.
    intros cod steps. induction steps as [|t rest IH]; intros u u' log Huu; simpl.
    - unfold logged, outcome. simpl. auto.
    - destruct (run_law (control_time_step t u)) as [Hf Hs].
      destruct (run_function (control_time_step t u)) as [res u2] eqn:E. simpl in Hf, Hs.
      assert (Heq : forall c, control_time_step t u c = write_step C V ceqb cells profile t u' c).
      { intros c. rewrite const_control_law. unfold Model.write_step. apply write_step_ext. exact Huu. }
      assert (Hspec : spec (control_time_step t u) = spec (write_step C V ceqb cells profile t u')).
      { apply spec_ext. exact Heq. }
      rewrite <- Hspec, <- Hf.
      assert (Hu2 : forall c, u2 c = write_step C V ceqb cells profile t u' c).
      { intros c. rewrite Hs. apply Heq. }
      destruct res as [r|].
      + rewrite ow_law. apply IH. exact Hu2.
      + destruct cod.
        * rewrite ow_law. apply IH. exact Hu2.
        * unfold logged, outcome, drop_failed. simpl. rewrite removelast_last. auto.
  Qed.
End Oracles.
