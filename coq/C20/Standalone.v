(* C20 - after_run_is_standalone for the pandapipes members of a multinet, as an instance of the C12
   history model (PP.C12): inside a coupled run / time series a member net sees a history of controller
   writes into its user tables (Edit) and calls of pipeflow (Run) - any number of control iterations, levels
   and time steps.  The calculation that produced the member's results is the last Run of that history;
   C12.history_independence says it equals the same call on a net carrying only the description as written.
   Power members (runpp) are outside the C12 model: oracle + bit-identical differential (tools/props/c20.py). *)
From Coq Require Import String List Bool Arith.
From PP Require Import C12.Model C12.Proofs C12.Checks Gen.Effects C12.Props.
Import ListNotations.

(* one control iteration of the coupled run as the member sees it: the cells written by coupling / own
   controllers, then the pipeflow call (configuration c, keyword arguments kw) *)
Definition member_history {V} (steps : list (list (key * V) * (cfg * V))) : list (op V) :=
  flat_map (fun st => (map (fun e => Edit (fst e) (snd e)) (fst st) ++ [Run (fst (snd st)) (snd (snd st))])%list) steps.

Theorem after_run_is_standalone :
  forall V fw fb present N undef (steps : list (list (key * V) * (cfg * V))) (last_writes : list (key * V))
         (s0 : key -> V) x kw,
  In x all_progs -> exceptions (cfg_of x) = [] ->
  let h := (member_history steps ++ map (fun e => Edit (fst e) (snd e)) last_writes)%list in
  same_result V present [] (lookup_prog all_progs (cfg_of x))
    (after V fw fb present N all_progs h s0 CL)
    (run V fw fb present N all_progs (cfg_of x) kw (after V fw fb present N all_progs h s0))
    (run V fw fb present N all_progs (cfg_of x) kw
         (blank undef (description_after V fw fb present N all_progs h s0))).
Proof. intros. apply history_independence; assumption. Qed.
Print Assumptions after_run_is_standalone.

(* and recalculating the member afterwards (what the differential does on a deep copy) changes nothing *)
Theorem standalone_rerun_is_identical : forall V fw fb present N (s0 : key -> V) x kw,
  In x all_progs -> exceptions (cfg_of x) = [] ->
  same_result V present [] (lookup_prog all_progs (cfg_of x)) (s0 CL)
    (run V fw fb present N all_progs (cfg_of x) kw s0)
    (run V fw fb present N all_progs (cfg_of x) kw
         (sigma (state_of (run V fw fb present N all_progs (cfg_of x) kw s0)))).
Proof. intros. apply repeat_is_identical; assumption. Qed.
Print Assumptions standalone_rerun_is_identical.

Example member_history_example :
  List.length (member_history [([("source", 1); ("sink", 2)], (("sequential", false, false), 0)); ([], (("sequential", false, false), 0))]%string) = 4.
Proof. reflexivity. Qed.
