(* C20 - proofs: conversion algebra over R on the generated formulas (Gen/KConv.v), bookkeeping
   lemmas on the hand model (C20/Model.v). *)
From Coq Require Import String ZArith List Bool Reals Lra Lia.
From PP Require Import C20.Model Gen.KConv.
Import ListNotations.

(* ------------------------------------------------------------------ conversion algebra *)
Section Conv.
Open Scope R_scope.

Lemma p2g_value_lemma p s hhv eta : hhv <> 0 ->
  p2g_written p s hhv eta = p * s * 1000 / (hhv * 3600) * eta.
Proof. intro H. unfold p2g_written, conversion_factor_mw_to_kgps. field. exact H. Qed.

Lemma g2p_value_lemma m s hhv eta :
  g2p_written m s hhv eta = m * s * (hhv * 3600 / 1000) * eta.
Proof. unfold g2p_written, conversion_factor_kgps_to_mw. field. Qed.

Lemma g2p_power_led_value_lemma p s hhv eta : hhv <> 0 -> eta <> 0 ->
  g2p_power_led_written p s hhv eta = p * s / (hhv * 3600 / 1000 * eta).
Proof. intros H E. unfold g2p_power_led_written, conversion_factor_kgps_to_mw. field. split; assumption. Qed.

Lemma g2g_value_lemma m s h1 h2 eta : h2 <> 0 ->
  g2g_written m s h1 h2 eta = m * s * (h1 / h2) * eta.
Proof. intro H. unfold g2g_written, conversion_factor_gas1_to_gas2. field. exact H. Qed.

(* energy: mass flow [kg/s] x heating value [kWh/kg] x 3600/1000 = power [MW] *)
Definition gas_power (mdot hhv : R) : R := mdot * (hhv * 3600 / 1000).

Lemma p2g_energy_lemma p s hhv eta : hhv <> 0 ->
  gas_power (p2g_written p s hhv eta) hhv = eta * (p * s).
Proof. intro H. unfold gas_power, p2g_written, conversion_factor_mw_to_kgps. field. exact H. Qed.

Lemma g2p_energy_lemma m s hhv eta :
  g2p_written m s hhv eta = eta * gas_power (m * s) hhv.
Proof. unfold gas_power, g2p_written, conversion_factor_kgps_to_mw. field. Qed.

Lemma roundtrip_lemma p s hhv eta1 eta2 : hhv <> 0 ->
  g2p_written (p2g_written p s hhv eta1) 1 hhv eta2 = p * s * eta1 * eta2.
Proof.
  intro H. unfold g2p_written, p2g_written, conversion_factor_kgps_to_mw, conversion_factor_mw_to_kgps.
  field. exact H.
Qed.

Lemma g2g_energy_lemma m s h1 h2 eta : h2 <> 0 ->
  g2g_written m s h1 h2 eta * h2 = eta * (m * s) * h1.
Proof. intro H. unfold g2g_written, conversion_factor_gas1_to_gas2. field. exact H. Qed.

Lemma power_led_inverse_lemma x hhv eta : hhv <> 0 -> eta <> 0 ->
  g2p_written (g2p_power_led_written x 1 hhv eta) 1 hhv eta = x /\
  g2p_power_led_written (g2p_written x 1 hhv eta) 1 hhv eta = x.
Proof.
  intros H E. unfold g2p_written, g2p_power_led_written, conversion_factor_kgps_to_mw.
  split; field; split; assumption.
Qed.
End Conv.

(* ------------------------------------------------------------------ bookkeeping *)
Lemma relevant_spec lo n :
  relevant lo n = true <->
  (exists c, In c lo /\ c_owner c = ONet n) \/
  (exists c, In c lo /\ c_owner c = OMulti /\ In n (c_names c)).
Proof.
  unfold relevant. rewrite orb_true_iff, !existsb_exists. split.
  - intros [[c [Hc Ho]]|[c [Hc Hn]]]; [left|right]; exists c; split; auto.
    + unfold owned_by in Ho. destruct (c_owner c); try discriminate. apply Z.eqb_eq in Ho. now subst.
    + unfold named_by_multi in Hn. destruct (c_owner c); try discriminate. split; auto.
      apply existsb_exists in Hn. destruct Hn as [m [Hm E]]. apply Z.eqb_eq in E. now subst.
  - intros [[c [Hc Ho]]|[c [Hc [Ho Hn]]]]; [left|right]; exists c; split; auto.
    + unfold owned_by. rewrite Ho. apply Z.eqb_refl.
    + unfold named_by_multi. rewrite Ho. apply existsb_exists. exists n. split; auto. apply Z.eqb_refl.
Qed.

Lemma evaluated_spec nets lo n : In n (evaluated nets lo) <-> In n nets /\ relevant lo n = true.
Proof. unfold evaluated. apply filter_In. Qed.

Lemma converged_iff_all nets lo run old :
  evaluate nets lo run old = true <-> forall n, In n nets -> new_flag lo run old n = true.
Proof. unfold evaluate. apply forallb_forall. Qed.

Lemma converged_implies_fresh nets lo run old :
  evaluate nets lo run old = true ->
  (forall n, In n (evaluated nets lo) -> run n = true) /\
  (forall n, In n nets -> relevant lo n = false -> old n = true).
Proof.
  intro H. rewrite converged_iff_all in H. split.
  - intros n Hn. apply evaluated_spec in Hn. destruct Hn as [Hn Hr].
    specialize (H n Hn). unfold new_flag in H. now rewrite Hr in H.
  - intros n Hn Hr. specialize (H n Hn). unfold new_flag in H. now rewrite Hr in H.
Qed.

Lemma one_diverged_not_converged nets lo run old n :
  In n nets -> relevant lo n = true -> run n = false -> evaluate nets lo run old = false.
Proof.
  intros Hn Hr Hf. destruct (evaluate nets lo run old) eqn:E; auto.
  apply converged_implies_fresh in E. destruct E as [E _].
  rewrite (E n) in Hf; [discriminate|]. apply evaluated_spec. auto.
Qed.

Lemma fold_andb_false l : fold_left andb l false = false.
Proof. induction l; simpl; auto. Qed.

Lemma init_converged_is_all_lemma flags : init_converged flags = forallb (fun b => b) flags.
Proof.
  unfold init_converged. induction flags as [|b r IH]; simpl; auto.
  destruct b; simpl; auto. apply fold_andb_false.
Qed.
