(* C20 - a whole coupled run: energy balance over any list of coupling controllers (composed from the
   generated per-controller formulas of Gen/KConv.v), and the coupling of a multi-energy time series as an
   instance of the C13 step model (PP.C13).  Definitions and lemmas; the theorems are in PropsRun.v. *)
From Coq Require Import ZArith List Bool Reals Lra.
From PP Require Import C20.Model Gen.KConv C20.Proofs C13.Model.
Import ListNotations.

(* ------------------------------------------------------------------ energy balance of a run *)
Section Energy.
Open Scope R_scope.

Inductive ckind := KP2G | KG2P | KG2PLed | KG2G.

(* one coupled element pair: the cell value read [cx], its scaling [cs], the heating value(s), efficiency *)
Record coupling := { ck : ckind; cx : R; cs : R; ch1 : R; ch2 : R; ceta : R }.

Definition cwritten (c : coupling) : R :=
  match ck c with
  | KP2G => p2g_written (cx c) (cs c) (ch1 c) (ceta c)
  | KG2P => g2p_written (cx c) (cs c) (ch1 c) (ceta c)
  | KG2PLed => g2p_power_led_written (cx c) (cs c) (ch1 c) (ceta c)
  | KG2G => g2g_written (cx c) (cs c) (ch1 c) (ch2 c) (ceta c)
  end.

(* power [MW] entering the conversion and leaving it; gas_power mdot hhv = mdot * hhv * 3600 / 1000 *)
Definition e_in (c : coupling) : R :=
  match ck c with
  | KP2G => cx c * cs c
  | KG2P => gas_power (cx c * cs c) (ch1 c)
  | KG2PLed => gas_power (cwritten c) (ch1 c)
  | KG2G => gas_power (cx c * cs c) (ch1 c)
  end.
Definition e_out (c : coupling) : R :=
  match ck c with
  | KP2G => gas_power (cwritten c) (ch1 c)
  | KG2P => cwritten c
  | KG2PLed => cx c * cs c
  | KG2G => gas_power (cwritten c) (ch2 c)
  end.

Definition cwf (c : coupling) : Prop :=
  ch1 c <> 0 /\ ch2 c <> 0 /\ (ck c = KG2PLed -> ceta c <> 0).

Fixpoint rsum (l : list R) : R := match l with [] => 0 | a :: r => a + rsum r end.

Lemma controller_balance c : cwf c -> e_out c = ceta c * e_in c.
Proof.
  intros [H1 [H2 H3]]. unfold e_out, e_in, cwritten, gas_power.
  destruct (ck c) eqn:K.
  - unfold p2g_written, conversion_factor_mw_to_kgps. field. exact H1.
  - unfold g2p_written, conversion_factor_kgps_to_mw. field.
  - unfold g2p_power_led_written, conversion_factor_kgps_to_mw. field. split; [apply H3; reflexivity | exact H1].
  - unfold g2g_written, conversion_factor_gas1_to_gas2. field. exact H2.
Qed.

Lemma run_balance l : Forall cwf l ->
  rsum (map e_out l) = rsum (map (fun c => ceta c * e_in c) l).
Proof.
  induction 1 as [|c r Hc Hr IH]; simpl; [reflexivity|]. rewrite IH, (controller_balance c Hc). reflexivity.
Qed.

Lemma run_no_energy_created l : Forall cwf l ->
  Forall (fun c => 0 <= e_in c /\ 0 <= ceta c <= 1) l ->
  rsum (map e_out l) <= rsum (map e_in l).
Proof.
  intros Hw Hb. rewrite (run_balance l Hw).
  induction Hb as [|c r [Hi [He0 He1]] Hr IH]; simpl; [lra|].
  inversion Hw; subst. specialize (IH H2). nra.
Qed.

Lemma run_lossless l : Forall cwf l -> Forall (fun c => ceta c = 1) l ->
  rsum (map e_out l) = rsum (map e_in l).
Proof.
  intros Hw He. rewrite (run_balance l Hw).
  induction He as [|c r Hc Hr IH]; simpl; [reflexivity|]. inversion Hw; subst. rewrite (IH H2), Hc. ring.
Qed.
End Energy.

(* ------------------------------------------------------------------ time series: the coupling as a C13 step *)
(* a coupling controller of a time series: reads two input cells (value, scaling) of one member, writes one
   input cell of another member; cells are numbered over all member nets *)
Record tsc := { t_r1 : Z; t_r2 : Z; t_w : Z; t_f : R -> R -> R }.

Definition couple_list (l : list tsc) (u : Z -> R) : Z -> R :=
  fun c => match find (fun t => Z.eqb (t_w t) c) l with
           | Some t => t_f t (u (t_r1 t)) (u (t_r2 t))
           | None => u c
           end.

Definition ts_derived (l : list tsc) : list Z := map t_w l.
Definition ts_reads (l : list tsc) : list Z := flat_map (fun t => [t_r1 t; t_r2 t]) l.

(* no chain inside a step: no controller reads a cell another one writes; profiles drive no written cell *)
Definition no_chain (l : list tsc) : bool :=
  forallb (fun r => negb (existsb (Z.eqb r) (ts_derived l))) (ts_reads l).
Definition profiles_free (cells : list Z) (l : list tsc) : bool :=
  forallb (fun c => negb (existsb (Z.eqb c) (ts_derived l))) cells.

Lemma couple_frame l u c : ~ In c (ts_derived l) -> couple_list l u c = u c.
Proof.
  intro H. unfold couple_list. destruct (find (fun t => Z.eqb (t_w t) c) l) as [t|] eqn:F; auto.
  apply find_some in F. destruct F as [Ht E]. apply Z.eqb_eq in E. exfalso. apply H.
  unfold ts_derived. rewrite <- E. now apply in_map.
Qed.

Lemma couple_reads l u u' c : (forall r, In r (ts_reads l) -> u r = u' r) ->
  In c (ts_derived l) -> couple_list l u c = couple_list l u' c.
Proof.
  intros H Hd. unfold couple_list. destruct (find (fun t => Z.eqb (t_w t) c) l) as [t|] eqn:F.
  - apply find_some in F. destruct F as [Ht _].
    assert (In (t_r1 t) (ts_reads l) /\ In (t_r2 t) (ts_reads l)) as [A B].
    { unfold ts_reads. split; apply in_flat_map; exists t; simpl; auto. }
    now rewrite (H _ A), (H _ B).
  - exfalso. unfold ts_derived in Hd. apply in_map_iff in Hd. destruct Hd as [t [E Ht]].
    pose proof (find_none _ _ F t Ht) as N. simpl in N. rewrite E, Z.eqb_refl in N. discriminate.
Qed.

Lemma guard_not_in (xs ds : list Z) :
  forallb (fun r => negb (existsb (Z.eqb r) ds)) xs = true -> forall c, In c xs -> ~ In c ds.
Proof.
  intros H c Hc Hd. rewrite forallb_forall in H. specialize (H c Hc). apply negb_true_iff in H.
  assert (existsb (Z.eqb c) ds = true) by (apply existsb_exists; exists c; split; auto; apply Z.eqb_refl).
  congruence.
Qed.
