(* C20 - property theorems about a whole coupled run / time series (round 6).  Conversion formulas are the
   regenerated ones (Gen/KConv.v); the time-series statement is an instance of C13.multinet_step_equals_standalone. *)
From Coq Require Import ZArith List Bool Reals Lra.
From PP Require Import C20.Model Gen.KConv C20.Proofs C20.Coupled C13.Model C13.Proofs C13.Props.
Import ListNotations.

(* every coupling controller, whatever its kind, hands on efficiency x the power it takes *)
Theorem controller_energy_balance : forall c, cwf c -> e_out c = (ceta c * e_in c)%R.
Proof. exact controller_balance. Qed.
Print Assumptions controller_energy_balance.

(* a whole coupled run with ANY number of coupling controllers of any kinds: the power leaving the
   conversions is the efficiency-weighted power entering them; no energy is created when efficiencies are
   <= 1 and nothing is lost when they are 1 *)
Theorem coupled_run_energy_balance : forall l, Forall cwf l ->
  rsum (map e_out l) = rsum (map (fun c => (ceta c * e_in c)%R) l) /\
  (Forall (fun c => (0 <= e_in c /\ 0 <= ceta c <= 1)%R) l -> (rsum (map e_out l) <= rsum (map e_in l))%R) /\
  (Forall (fun c => ceta c = 1%R) l -> rsum (map e_out l) = rsum (map e_in l)).
Proof.
  intros l H. split; [now apply run_balance|]. split; intro; [now apply run_no_energy_created | now apply run_lossless].
Qed.
Print Assumptions coupled_run_energy_balance.

(* composed with multinet_converged_iff_all: when a level of the run is reported converged, every net it
   affected converged in its fresh calculation, every other net kept a good flag, and the balance holds for
   the controllers of the run *)
Theorem converged_run_conserves_energy : forall nets lo run old l,
  evaluate nets lo run old = true -> Forall cwf l ->
  (forall n, In n (evaluated nets lo) -> run n = true) /\
  (forall n, In n nets -> relevant lo n = false -> old n = true) /\
  rsum (map e_out l) = rsum (map (fun c => (ceta c * e_in c)%R) l).
Proof.
  intros nets lo run old l H Hw. destruct (converged_implies_fresh nets lo run old H) as [A B].
  repeat split; auto. now apply run_balance.
Qed.
Print Assumptions converged_run_conserves_energy.

(* time series: for coupling controllers without a chain inside a step (no controller reads a cell another
   one writes) and profiles that drive no written cell, for EVERY list of steps the row logged for step t is
   the stand-alone calculation of the members on  couple (U_0 [profile cells := row t])  *)
Theorem coupled_timeseries_step_is_standalone :
  forall (Rw : Type) (spec : (Z -> R) -> option Rw), (forall u u', (forall c, u c = u' c) -> spec u = spec u') ->
  forall (cells : list Z) (l : list tsc) profile,
    no_chain l = true -> profiles_free cells l = true ->
  forall cod steps u0 t r,
    In (t, r) (logged Z R Rw (mloop Z R Rw Z.eqb spec cells (couple_list l) profile cod steps u0 [])) ->
    r = spec (mstep Z R Z.eqb cells (couple_list l) profile t u0).
Proof.
  intros Rw spec Hspec cells l profile Hc Hp cod steps u0 t r Hin.
  eapply (multinet_step_equals_standalone Z R Rw Z.eqb Z.eqb_eq spec Hspec cells (ts_derived l) (ts_reads l)
            (couple_list l) profile); eauto.
  - intros u c. apply couple_frame.
  - intros u u' c. apply couple_reads.
  - now apply guard_not_in.
  - now apply guard_not_in.
Qed.
Print Assumptions coupled_timeseries_step_is_standalone.

(* non-vacuity: one controller of each kind; a P2G + G2P pair of a time series without chain *)
Example run_example :
  let l := [ {| ck := KP2G; cx := 8; cs := 1/2; ch1 := 16; ch2 := 1; ceta := 1/2 |};
             {| ck := KG2P; cx := 1/4; cs := 1; ch1 := 16; ch2 := 1; ceta := 3/4 |};
             {| ck := KG2PLed; cx := 2; cs := 1; ch1 := 16; ch2 := 1; ceta := 1/2 |};
             {| ck := KG2G; cx := 1/4; cs := 2; ch1 := 16; ch2 := 32; ceta := 1 |} ]%R in
  Forall cwf l /\ (e_out (hd (Build_coupling KP2G 0 0 1 1 1) l) = 2)%R.
Proof.
  simpl. split.
  - repeat constructor; unfold cwf; simpl; repeat split; try lra; intro; try discriminate; lra.
  - unfold e_out, cwritten, gas_power, p2g_written, conversion_factor_mw_to_kgps. simpl. field.
Qed.

Example timeseries_example :
  let l := [ {| t_r1 := 1; t_r2 := 2; t_w := 10; t_f := fun p s => p2g_written p s 16 (1/2) |};
             {| t_r1 := 11; t_r2 := 12; t_w := 3; t_f := fun m s => g2p_written m s 16 (3/4) |} ]%Z in
  no_chain l = true /\ profiles_free [1; 11]%Z l = true /\ no_chain (l ++ [ {| t_r1 := 10; t_r2 := 2; t_w := 20; t_f := fun a _ => a |} ])%Z = false.
Proof. repeat split. Qed.
