(* C20 - property theorems only.  Conversion formulas are those regenerated from
   multinet_control.py (Gen/KConv.v, T-tie); the bookkeeping model C20/Model.v is tied to
   run_control_multinet.py by exact correspondence (tools/props/c20.py). *)
From Coq Require Import String ZArith List Bool Reals Lra.
From PP Require Import C20.Model Gen.KConv C20.Proofs.
Import ListNotations.
Open Scope R_scope.

(* ---- 1. what is written, for scalar and vector indices alike (the translator requires the .at and
        the .loc path to be the same per-element expression) *)
Theorem p2g_value : forall p s hhv eta, hhv <> 0 ->
  p2g_written p s hhv eta = p * s * 1000 / (hhv * 3600) * eta.
Proof. exact p2g_value_lemma. Qed.
Print Assumptions p2g_value.

Theorem g2p_value : forall m s hhv eta, g2p_written m s hhv eta = m * s * (hhv * 3600 / 1000) * eta.
Proof. exact g2p_value_lemma. Qed.
Print Assumptions g2p_value.

Theorem g2p_power_led_value : forall p s hhv eta, hhv <> 0 -> eta <> 0 ->
  g2p_power_led_written p s hhv eta = p * s / (hhv * 3600 / 1000 * eta).
Proof. exact g2p_power_led_value_lemma. Qed.
Print Assumptions g2p_power_led_value.

Theorem g2g_value : forall m s h1 h2 eta, h2 <> 0 -> g2g_written m s h1 h2 eta = m * s * (h1 / h2) * eta.
Proof. exact g2g_value_lemma. Qed.
Print Assumptions g2g_value.

(* the calorific value is the higher heating value of the respective net's fluid, and the cells read
   and written are the documented ones *)
Theorem coupling_wiring :
  map (fun x => fst (snd x)) p2g_calorific = ["hhv"%string] /\
  map (fun x => fst (snd x)) g2p_calorific = ["hhv"%string] /\
  map (fun x => fst (snd x)) g2g_calorific = ["hhv"%string; "hhv"%string] /\
  p2g_written_reads = [("name_net_power", "load", "elm_idx_power", "p_mw"); ("name_net_power", "load", "elm_idx_power", "scaling")]%string /\
  p2g_written_writes = ("name_net_gas", "source", "elm_idx_gas", "mdot_kg_per_s")%string /\
  g2p_written_reads = [("name_net_gas", "sink", "elm_idx_gas", "mdot_kg_per_s"); ("name_net_gas", "sink", "elm_idx_gas", "scaling")]%string /\
  g2p_written_writes = ("name_net_power", "<self.elm_type_power>", "elm_idx_power", "p_mw")%string /\
  g2p_power_led_written_reads = [("name_net_power", "<self.elm_type_power>", "elm_idx_power", "p_mw"); ("name_net_power", "<self.elm_type_power>", "elm_idx_power", "scaling")]%string /\
  g2p_power_led_written_writes = ("name_net_gas", "sink", "elm_idx_gas", "mdot_kg_per_s")%string /\
  g2g_written_reads = [("name_net_from", "sink", "element_index_from", "mdot_kg_per_s"); ("name_net_from", "sink", "element_index_from", "scaling")]%string /\
  g2g_written_writes = ("name_net_to", "source", "element_index_to", "mdot_kg_per_s")%string /\
  map snd (map snd g2g_calorific) = ["get_fluid(multinet['nets'][name_gas_net_from])"; "get_fluid(multinet['nets'][name_gas_net_to])"]%string /\
  p2g_written_params = ["load_p_mw"; "load_scaling"; "fluid_calorific_value"; "efficiency"]%string /\
  g2p_written_params = ["sink_mdot_kg_per_s"; "sink_scaling"; "fluid_calorific_value"; "efficiency"]%string /\
  g2p_power_led_written_params = ["elm_type_power_p_mw"; "elm_type_power_scaling"; "fluid_calorific_value"; "efficiency"]%string /\
  g2g_written_params = ["sink_mdot_kg_per_s"; "sink_scaling"; "gas1_calorific_value"; "gas2_calorific_value"; "efficiency"]%string.
Proof. repeat split. Qed.
Print Assumptions coupling_wiring.

(* ---- 2. energy *)
Theorem p2g_g2p_roundtrip : forall p s hhv eta1 eta2, hhv <> 0 ->
  g2p_written (p2g_written p s hhv eta1) 1 hhv eta2 = p * s * eta1 * eta2.
Proof. exact roundtrip_lemma. Qed.
Print Assumptions p2g_g2p_roundtrip.

Theorem coupling_conserves_energy : forall x s hhv eta, hhv <> 0 ->
  gas_power (p2g_written x s hhv eta) hhv = eta * (x * s) /\
  g2p_written x s hhv eta = eta * gas_power (x * s) hhv.
Proof. intros. split; [now apply p2g_energy_lemma | apply g2p_energy_lemma]. Qed.
Print Assumptions coupling_conserves_energy.

Theorem g2g_energy : forall m s h1 h2 eta, h2 <> 0 -> g2g_written m s h1 h2 eta * h2 = eta * (m * s) * h1.
Proof. exact g2g_energy_lemma. Qed.
Print Assumptions g2g_energy.

Theorem power_led_inverse : forall x hhv eta, hhv <> 0 -> eta <> 0 ->
  g2p_written (g2p_power_led_written x 1 hhv eta) 1 hhv eta = x /\
  g2p_power_led_written (g2p_written x 1 hhv eta) 1 hhv eta = x.
Proof. exact power_led_inverse_lemma. Qed.
Print Assumptions power_led_inverse.

(* ---- 3. converged = all; any number of nets, controllers *)
Theorem relevant_nets_spec : forall lo n,
  relevant lo n = true <->
  (exists c, In c lo /\ c_owner c = ONet n) \/ (exists c, In c lo /\ c_owner c = OMulti /\ In n (c_names c)).
Proof. exact relevant_spec. Qed.
Print Assumptions relevant_nets_spec.

Theorem multinet_converged_iff_all : forall nets lo run old,
  (evaluate nets lo run old = true <-> forall n, In n nets -> new_flag lo run old n = true) /\
  (forall n, In n (evaluated nets lo) <-> In n nets /\ relevant lo n = true) /\
  (evaluate nets lo run old = true ->
     (forall n, In n (evaluated nets lo) -> run n = true) /\
     (forall n, In n nets -> relevant lo n = false -> old n = true)) /\
  (forall n, In n nets -> relevant lo n = true -> run n = false -> evaluate nets lo run old = false).
Proof.
  intros. split; [apply converged_iff_all|]. split; [intro; apply evaluated_spec|].
  split; [apply converged_implies_fresh | intro; apply one_diverged_not_converged].
Qed.
Print Assumptions multinet_converged_iff_all.

(* after the initial runs the multinet flag is the conjunction of the members' flags *)
Theorem init_converged_is_all : forall flags,
  init_converged flags = forallb (fun b => b) flags /\
  (init_converged flags = true <-> forall b, In b flags -> b = true).
Proof.
  intro flags. split; [apply init_converged_is_all_lemma|].
  rewrite init_converged_is_all_lemma, forallb_forall. tauto.
Qed.
Print Assumptions init_converged_is_all.

(* ---- non-vacuity *)
Example hhv_example : (14.62197 <> 0)%R /\ (p2g_written 50 (1/2) 16 (1/2) * 1152 = 250)%R.
Proof. split; [lra|]. unfold p2g_written, conversion_factor_mw_to_kgps. field. Qed.

Example evaluate_example :
  let lo := [ {| c_id := 1; c_owner := OMulti; c_names := [0; 2]%Z; c_level := 0; c_order := 0; c_in_service := true |};
              {| c_id := 2; c_owner := ONet 1; c_names := []; c_level := 0; c_order := 1; c_in_service := true |} ] in
  evaluated [0; 1; 2; 3]%Z lo = [0; 1; 2]%Z /\
  evaluate [0; 1; 2; 3]%Z lo (fun n => negb (Z.eqb n 2)) (fun _ => true) = false /\
  evaluate [0; 1; 2; 3]%Z lo (fun _ => true) (fun _ => true) = true /\
  evaluate [0; 1; 2; 3]%Z lo (fun _ => true) (fun n => negb (Z.eqb n 3)) = false.
Proof. vm_compute. repeat split. Qed.

Example init_example : init_converged [true; false; true] = false /\ init_converged [true; true] = true /\ init_converged [] = true.
Proof. repeat split. Qed.
