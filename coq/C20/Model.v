(* C20 - hand-written executable model (definitions only) of the multinet control bookkeeping:
     multinet/control/run_control_multinet.py  _relevant_nets, _evaluate_multinet,
                                                net_initialization_multinet, get_controller_order_multinet
   Nets are identified by Z labels (their position in multinet['nets']); a controller of a level is
   owned either by the multinet (a coupling controller, naming the nets it touches through
   get_all_net_names) or by one member net.
   Oracles: pandapower's control_implementation / _evaluate_net / get_controller_order / run functions;
   the run function of a net is the Section-free function argument [run] below: any function. *)
From Coq Require Import ZArith List Bool QArith.
Import ListNotations.

Inductive owner := OMulti | ONet (n : Z).

Record ctrl := { c_id : Z; c_owner : owner; c_names : list Z; c_level : Z; c_order : Z; c_in_service : bool }.

Definition owned_by (n : Z) (c : ctrl) : bool :=
  match c_owner c with ONet m => Z.eqb m n | OMulti => false end.
Definition named_by_multi (n : Z) (c : ctrl) : bool :=
  match c_owner c with OMulti => existsb (Z.eqb n) (c_names c) | ONet _ => false end.

(* _relevant_nets: a net is looked at in a level iff it owns a controller of the level or a multinet
   controller of the level names it *)
Definition relevant (levelorder : list ctrl) (n : Z) : bool :=
  existsb (owned_by n) levelorder || existsb (named_by_multi n) levelorder.

(* _evaluate_multinet: per net, in the order of multinet['nets']: re-run it iff relevant, else keep
   its stored flag; the multinet flag is np.all of the flags.  [run n] is the flag the net has after
   its run function was called (any function: the solver is an oracle). *)
Definition new_flag (levelorder : list ctrl) (run old : Z -> bool) (n : Z) : bool :=
  if relevant levelorder n then run n else old n.
Definition evaluated (nets : list Z) (levelorder : list ctrl) : list Z := filter (relevant levelorder) nets.
Definition evaluate (nets : list Z) (levelorder : list ctrl) (run old : Z -> bool) : bool :=
  forallb (new_flag levelorder run old) nets.

(* net_initialization_multinet: converged = True; for each net: converged = min(converged, flag) *)
Definition init_converged (flags : list bool) : bool := fold_left andb flags true.

(* get_controller_order_multinet: sorted distinct levels; per level the in-service controllers of that
   level sorted by order (numpy argsort: ties in unspecified order -> the model returns the member set
   and the correspondence checks membership and monotone order) *)
Definition level_members (l : Z) (cs : list ctrl) : list ctrl :=
  filter (fun c => c_in_service c && Z.eqb (c_level c) l) cs.

(* the documented conversion laws over Q (the right-hand sides of the *_value theorems of Props.v, which
   are stated over R): used by the monitor as the expected value of a written cell, independently of
   the generated formulas *)
Definition spec_p2g (p s hhv eta : Q) : Q := (p * s * 1000 / (hhv * 3600) * eta)%Q.
Definition spec_g2p (m s hhv eta : Q) : Q := (m * s * (hhv * 3600 / 1000) * eta)%Q.
Definition spec_g2p_power_led (p s hhv eta : Q) : Q := (p * s / (hhv * 3600 / 1000 * eta))%Q.
Definition spec_g2g (m s h1 h2 eta : Q) : Q := (m * s * (h1 / h2) * eta)%Q.

(* ---- correspondence helpers *)
Fixpoint zlist_eqb (a b : list Z) : bool :=
  match a, b with
  | [], [] => true
  | x :: r, y :: s => Z.eqb x y && zlist_eqb r s
  | _, _ => false
  end.
Fixpoint insert_sorted (x : Z) (l : list Z) : list Z :=
  match l with [] => [x] | y :: r => if Z.leb x y then x :: l else y :: insert_sorted x r end.
Definition zsort (l : list Z) : list Z := fold_right insert_sorted [] l.
Fixpoint nondecreasing (l : list Z) : bool :=
  match l with x :: ((y :: _) as r) => Z.leb x y && nondecreasing r | _ => true end.

Definition lookup (tbl : list (Z * bool)) (default : bool) (n : Z) : bool :=
  match find (fun p => Z.eqb (fst p) n) tbl with Some p => snd p | None => default end.

(* one observed call of the real _evaluate_multinet *)
Record eval_case := {
  e_nets : list Z; e_levelorder : list ctrl; e_run : list (Z * bool); e_old : list (Z * bool);
  e_obs_evaluated : list Z;            (* nets whose run function was called, in call order *)
  e_obs_flags : list (Z * bool);       (* ctrl_variables['nets'][n]['converged'] afterwards *)
  e_obs_converged : bool }.

Definition eval_case_ok (c : eval_case) : bool :=
  let run := lookup (e_run c) false in
  let old := lookup (e_old c) false in
  zlist_eqb (evaluated (e_nets c) (e_levelorder c)) (e_obs_evaluated c) &&
  forallb (fun n => Bool.eqb (new_flag (e_levelorder c) run old n) (lookup (e_obs_flags c) false n)) (e_nets c) &&
  Bool.eqb (evaluate (e_nets c) (e_levelorder c) run old) (e_obs_converged c).

(* one observed call of the real net_initialization_multinet: flags the members have after their initial run *)
Definition init_case_ok (c : list bool * bool) : bool := Bool.eqb (init_converged (fst c)) (snd c).

(* one observed result of prepare_run_ctrl: per level the ids in the order returned *)
Record order_case := { o_ctrls : list ctrl; o_obs_levels : list Z; o_obs_order : list (list Z) }.

(* a controller table (multinet.controller or one net.controller) contributes all its rows to the
   level list as soon as it holds one in-service controller *)
Definition same_owner (a b : owner) : bool :=
  match a, b with OMulti, OMulti => true | ONet x, ONet y => Z.eqb x y | _, _ => false end.
Definition table_active (cs : list ctrl) (c : ctrl) : bool :=
  existsb (fun d => same_owner (c_owner c) (c_owner d) && c_in_service d) cs.

Definition order_case_ok (c : order_case) : bool :=
  let levels := zsort (nodup Z.eq_dec (map c_level (filter (table_active (o_ctrls c)) (o_ctrls c)))) in
  zlist_eqb levels (o_obs_levels c) &&
  Nat.eqb (length (o_obs_levels c)) (length (o_obs_order c)) &&
  forallb (fun lo => let l := fst lo in let ids := snd lo in
             zlist_eqb (zsort (map c_id (level_members l (o_ctrls c)))) (zsort ids) &&
             nondecreasing (map (fun i => match find (fun c => Z.eqb (c_id c) i) (o_ctrls c) with
                                          | Some c => c_order c | None => 0%Z end) ids))
          (combine (o_obs_levels c) (o_obs_order c)).

Fixpoint summary_from (i : Z) (ok : list bool) (n m : nat) (first : Z) : nat * nat * Z :=
  match ok with
  | [] => (n, m, first)
  | b :: r => summary_from (i + 1)%Z r (S n) (if b then m else S m)
                (if b then first else if (first <? 0)%Z then i else first)
  end.
Definition summary (ok : list bool) : nat * nat * Z := summary_from 0%Z ok O O (-1)%Z.
