(* C10 - property theorems only.  Each is closed by [exact] of a lemma of Proofs.v / Assembly.v / Spec.v.
   Generated inputs (regenerated from /repo on every run): Gen/KThermNp, Gen/KThermNb (thermal kernels),
   Gen/KThermExpr (expression block of calculate_derivatives_thermal, get_branch_cp, wiring, switch threshold),
   Gen/KHooksHeat (circulation-pump thermal hook).  Hand model: C10/Model (thermal build_system_matrix etc.),
   tied by the exact correspondence of tools/props/c10.py. *)
From Coq Require Import Reals Lra Lia List Bool Arith ZArith String.
From PP Require Import Kern.RBool Gen.KThermNp Gen.KThermNb Gen.KThermExpr Gen.KHooksHeat
                       C10.Spec C10.Model C10.Assembly C10.Proofs C10.Global C10.GlobalPipe C10.Example.
Import ListNotations.
Open Scope R_scope.

(* ---- the documented law (hand specification) is the solution of the documented loss equation *)
Theorem spec_is_documented_loss_law : forall alpha d_o cp m Text Tin x,
  cp * m <> 0 ->
  let k := alpha * PI * d_o / (cp * m) in
  cooling_profile Text Tin k 0 = Tin /\
  exists T', derivable_pt_lim (cooling_profile Text Tin k) x T' /\
             cp * m * T' = - (alpha * PI * d_o * (cooling_profile Text Tin k x - Text)).
Proof. intros. split; [apply cooling_profile_inlet | now apply documented_loss_law]. Qed.
Print Assumptions spec_is_documented_loss_law.

(* ---- 0. which pit column each positional input of the generated kernels is.  The kernel definitions are
        positional; this generated table pins the names: the diameter in the heat-loss term is the OUTER diameter
        column DO (not the inner diameter D), the loss coefficient ALPHA, the ambient temperature TEXT, ...; the
        temperatures handed in are T(corrected from node), TOUTINIT, T(corrected to node) *)
Theorem kernel_inputs_are_the_documented_columns :
  therm_kernel_inputs =
  [("therm_np", ["amb"; "bp_ALPHA"; "bp_DO"; "bp_LENGTH"; "bp_MDOTINIT"; "bp_QEXT"; "bp_TEXT"; "bp_TL"; "cp_b"; "cp_n";
                 "nodes_flow"; "t_init_i"; "t_init_i1"; "t_init_n"; "t_init_nt"]);
   ("therm_nb", ["amb"; "bp_ALPHA"; "bp_DO"; "bp_LENGTH"; "bp_MDOTINIT"; "bp_QEXT"; "bp_TEXT"; "bp_TL"; "cp_b"; "cp_n";
                 "nodes_flow"; "t_init_i"; "t_init_i1"; "t_init_n"; "t_init_nt"]);
   ("thermexpr", ["bp_TOUTINIT"; "fl_cp"; "np_from_TINIT"; "np_to_TINIT"]);
   ("branch_cp", ["bp_TOUTINIT"; "fl_cp"; "np_from_TINIT"])]%string.
Proof. reflexivity. Qed.
Print Assumptions kernel_inputs_are_the_documented_columns.

(* where the ambient temperature column TEXT comes from (generated from the component models): the pipe's own
   text_k, and for pipes without text_k and for all other branches the resolved pipeflow option ambient_temperature
   (get_net_option: call > user_pf_options > default, C14) - no other source *)
Theorem ambient_column_is_text_k_or_the_resolved_option :
  text_column_sources =
  [("branch_models.py", "branch_component_pit[:, TEXT]", "get_net_option(net, 'ambient_temperature')");
   ("branch_wo_internals_models.py", "branch_wo_internals_pit[:, TEXT]", "get_net_option(net, 'ambient_temperature')");
   ("pipe_component.py", "pipe_pit[nan_mask, TEXT]", "get_net_option(net, 'ambient_temperature')");
   ("pipe_component.py", "set_entry_check_repeat(TEXT)", "net[tbl].text_k.values")]%string.
Proof. reflexivity. Qed.
Print Assumptions ambient_column_is_text_k_or_the_resolved_option.

(* ---- 1. cooling law: generated branch residual = 0  <->  outlet temperature on the documented law
        (argument order as pinned above: amb ALPHA DO LENGTH MDOTINIT QEXT TEXT TL cp_b cp_n ...; d_o = column DO) *)
Theorem branch_cooling_law_numpy : forall amb al d_o L m Q Text TL cpb cpn nf ti ti1 tn tnt,
  (flows m ->
     (therm_np_fb amb al d_o L m Q Text TL cpb cpn nf ti ti1 tn tnt = 0 <->
      ti1 = Text + (ti - Text) * exp (- (al * L * PI * d_o / (cpb * Rabs m))) + TL - Q / (cpb * Rabs m))) /\
  (~ flows m -> (therm_np_fb amb al d_o L m Q Text TL cpb cpn nf ti ti1 tn tnt = 0 <-> ti1 = amb)).
Proof. exact branch_cooling_law_np. Qed.
Print Assumptions branch_cooling_law_numpy.

Theorem branch_cooling_law_numba : forall amb al d_o L m Q Text TL cpb cpn nf ti ti1 tn tnt,
  (flows m ->
     (therm_nb_fb amb al d_o L m Q Text TL cpb cpn nf ti ti1 tn tnt = 0 <->
      ti1 = Text + (ti - Text) * exp (- (al * L * PI * d_o / (cpb * Rabs m))) + TL - Q / (cpb * Rabs m))) /\
  (~ flows m -> (therm_nb_fb amb al d_o L m Q Text TL cpb cpn nf ti ti1 tn tnt = 0 <-> ti1 = amb)).
Proof. exact branch_cooling_law_nb. Qed.
Print Assumptions branch_cooling_law_numba.

(* pipeline form: inlet = flow-corrected from node, c_p = mean between inlet node and outlet, either twin *)
Theorem branch_cooling_law : forall tw cp amb Tn isT n pbs k pb,
  fixed_point tw cp amb Tn isT n pbs -> nth_error pbs k = Some pb -> p_ident pb = false ->
  (p_flow tw pb = true ->
     p_tout pb = spec_T_out (p_alpha pb) (p_len pb) (p_do pb) (cbar cp (Tn (p_fnc pb)) (p_tout pb))
                            (Rabs (p_m pb)) (p_text pb) (Tn (p_fnc pb)) (p_tl pb) (p_qext pb)) /\
  (p_flow tw pb = false -> p_tout pb = amb).
Proof. exact branch_cooling_law_pipeline. Qed.
Print Assumptions branch_cooling_law.

(* ---- 2. mixing: weights are |m| times the arithmetic mean of c_p(stream outlet) and c_p(node) - the mean
        get_branch_cp uses for the branch heat terms *)
Theorem mixing_weight_is_the_branch_mean : forall tout cp tfrom tto,
  thermexpr_cp_n tout cp tfrom tto = (cp tout + cp tto) / 2 /\
  thermexpr_cp_b tout cp tfrom tto = (cp tfrom + cp tout) / 2 /\
  thermexpr_cp_b tout cp tfrom tto = branch_cp_cp tout cp tfrom /\
  thermexpr_t_init_i tout cp tfrom tto = tfrom /\ thermexpr_t_init_i1 tout cp tfrom tto = tout /\
  thermexpr_t_init_nt tout cp tfrom tto = tto.
Proof.
  intros. pose proof (mixing_cp_is_mean tout cp tfrom tto). pose proof (branch_cp_is_mean tout cp tfrom tto).
  pose proof (kernel_temperatures tout cp tfrom tto). unfold cbar in *. tauto.
Qed.
Print Assumptions mixing_weight_is_the_branch_mean.

Theorem kernel_outputs_stored_in_their_columns :
  therm_wiring_branch = [("LOAD_VEC_BRANCHES_T", "fb"); ("JAC_DERIV_DT", "dfb_dt"); ("JAC_DERIV_DTOUT", "dfb_dtout");
                         ("LOAD_VEC_NODES_TO_T", "fnt"); ("JAC_DERIV_DT_NODE", "dfnt_dt");
                         ("JAC_DERIV_DTOUT_NODE", "dfnt_dtout")]%string /\
  therm_wiring_node = [("LOAD_T", "fn"); ("JAC_DERIV_DT_N", "dfn_dt")]%string /\ therm_call_ok = true.
Proof. exact kernel_wiring. Qed.
Print Assumptions kernel_outputs_stored_in_their_columns.

Theorem node_mixing_law : forall tw cp amb Tn isT n pbs i,
  fixed_point tw cp amb Tn isT n pbs -> (i < n)%nat ->
  node_infeed tw cp amb Tn pbs i = false -> node_flow tw cp amb Tn pbs i = true ->
  mixsum tw cp Tn i pbs = 0.
Proof. exact node_mixing_law_pipeline. Qed.
Print Assumptions node_mixing_law.

(* what [mixsum] is, written out: over the branches whose flow-corrected to node is i,
   (flow mask of the twin) * ((c_p(T_out) + c_p(T_i)) / 2) * |m| * (T_out - T_i) *)
Theorem mixsum_written_out : forall tw cp Tn i pb l,
  mixsum tw cp Tn i (pb :: l) =
  (if Nat.eqb (p_tnc pb) i
   then (if tw then (if p_flow tw pb then 1 else 0) else 1) * ((cp (p_tout pb) + cp (Tn (p_tnc pb))) / 2)
        * Rabs (p_m pb) * (p_tout pb - Tn i)
   else 0) + mixsum tw cp Tn i l.
Proof. intros. reflexivity. Qed.
Print Assumptions mixsum_written_out.

Theorem stagnant_nodes_at_ambient : forall tw cp amb Tn isT n pbs i,
  fixed_point tw cp amb Tn isT n pbs -> (i < n)%nat ->
  node_infeed tw cp amb Tn pbs i = false -> node_flow tw cp amb Tn pbs i = false ->
  mixsum tw cp Tn i pbs = amb - Tn i.
Proof. exact stagnant_node_ambient. Qed.
Print Assumptions stagnant_nodes_at_ambient.

(* Newton step with frozen coefficients, any commutative ring, any solution x of the assembled system:
   the linearised mixing equation of every non-infeed node holds after the step *)
Theorem newton_step_mixing_row : forall (ns : list (@tnode R)) bs x i nd,
  solves 0 1 Rplus Rmult Ropp ns bs x -> nth_error ns i = Some nd -> n_infeed nd = false ->
  insum 0 Rplus (fun k b => b_lvnt b - (b_jdtn b * x i + b_jdtoutn b * x (List.length ns + k)%nat)) i 0 bs
  = n_loadt nd + n_jdtn nd * x i.
Proof. exact (newton_step_node_row 0 1 Rplus Rmult Rminus Ropp RTheory). Qed.
Print Assumptions newton_step_mixing_row.

(* ---- 3. fixed feeds *)
Theorem infeed_rows_fix_temperature : forall tw cp amb Tn isT n pbs x alpha,
  wf (sys_nodes tw cp amb Tn isT n pbs) (sys_branches tw cp amb Tn pbs) ->
  solves 0 1 Rplus Rmult Ropp (sys_nodes tw cp amb Tn isT n pbs) (sys_branches tw cp amb Tn pbs) x ->
  (forall s, In s (t_nodes (sys_nodes tw cp amb Tn isT n pbs)) -> step_T Rmult Rminus alpha Tn x s = Tn s) /\
  (forall k pb Tout, nth_error pbs k = Some pb -> p_ident pb = true ->
     step_Tout Rmult Rminus alpha (List.length (sys_nodes tw cp amb Tn isT n pbs)) Tout x k = Tout k).
Proof. intros tw cp amb Tn isT n pbs. apply infeed_rows_fix_temperature_pipeline. Qed.
Print Assumptions infeed_rows_fix_temperature.

(* the same fact for the integer instance the correspondence runs (generic-ring theorem, no axioms) *)
Theorem infeed_rows_fix_temperature_Z : forall (ns : list (@tnode Z)) bs x s alpha T,
  wf ns bs -> solves 0%Z 1%Z Z.add Z.mul Z.opp ns bs x -> In s (t_nodes ns) ->
  step_T Z.mul Z.sub alpha T x s = T s.
Proof. exact (fixed_nodes_keep_temperature 0%Z 1%Z Z.add Z.mul Z.sub Z.opp Zth). Qed.
Print Assumptions infeed_rows_fix_temperature_Z.

(* circulation pump hook values (generated): identity row *)
Theorem circ_pump_row_is_identity :
  cp_at_JAC_DERIV_DT = 0 /\ cp_at_JAC_DERIV_DTOUT = 1 /\ cp_at_LOAD_VEC_BRANCHES_T = 0.
Proof. repeat split. Qed.
Print Assumptions circ_pump_row_is_identity.

(* ---- 4. local bounds *)
Theorem local_bounds_branch : forall al L d cpb m Text Tin Tout,
  0 <= al -> 0 <= L -> 0 <= d -> 0 < cpb -> 0 < m ->
  Tout = spec_T_out al L d cpb m Text Tin 0 0 ->
  Rmin Tin Text <= Tout <= Rmax Tin Text.
Proof. exact branch_local_bounds. Qed.
Print Assumptions local_bounds_branch.

Theorem local_bounds_node : forall lo hi T (l : list (R * R)),
  Forall (fun wt => 0 <= fst wt /\ lo <= snd wt <= hi) l -> 0 < wsum l -> wres T l = 0 -> lo <= T <= hi.
Proof. exact node_local_bounds. Qed.
Print Assumptions local_bounds_node.

Theorem local_bounds_node_pipeline : forall tw cp amb Tn isT n pbs i lo hi,
  (forall t, 0 <= cp t) ->
  fixed_point tw cp amb Tn isT n pbs -> (i < n)%nat ->
  node_infeed tw cp amb Tn pbs i = false -> node_flow tw cp amb Tn pbs i = true ->
  Forall (fun pb => p_tnc pb = i -> lo <= p_tout pb <= hi) pbs ->
  0 < wsum (streams_of tw cp Tn i pbs) ->
  lo <= Tn i <= hi.
Proof. exact node_temperature_between_inflows. Qed.
Print Assumptions local_bounds_node_pipeline.

(* ---- 5. global bounds (maximum principle).  Graph form: edges = flowing branches in flow direction with positive
        mixing weights; every node downstream of an infeed node ([up]); hypotheses = conclusions of the local theorems *)
Theorem global_bounds_graph : forall n T infeed es lo hi,
  (forall e, In e es -> (e_from e < n)%nat /\ (e_to e < n)%nat) ->
  (forall e, In e es -> 0 < e_w e) ->
  (forall i, (i < n)%nat -> infeed i = true -> lo <= T i <= hi) ->
  (forall e, In e es -> lo <= e_text e <= hi) ->
  (forall e, In e es -> Rmin (T (e_from e)) (e_text e) <= e_tout e <= Rmax (T (e_from e)) (e_text e)) ->
  (forall i, (i < n)%nat -> infeed i = false -> gmix T i es = 0) ->
  (forall i, (i < n)%nat -> up infeed es i) ->
  (forall i, (i < n)%nat -> lo <= T i <= hi) /\ (forall e, In e es -> lo <= e_tout e <= hi).
Proof.
  intros. split; [eapply global_bounds_nodes | eapply global_bounds_outlets]; eauto.
Qed.
Print Assumptions global_bounds_graph.

(* pipeline form: at a fixed point of the assembled system over the generated kernels, without heat sources
   ([passive]: flowing, no pump, Q = 0, TL = 0, alpha, L, d >= 0, ambient in [lo, hi]), c_p > 0, infeed nodes in
   [lo, hi], every node downstream of an infeed node: all node and outlet temperatures lie in [lo, hi] *)
Theorem global_bounds : forall tw cp amb Tn isT n pbs lo hi,
  (forall t, 0 < cp t) ->
  fixed_point tw cp amb Tn isT n pbs ->
  Forall (passive tw n lo hi) pbs ->
  (forall i, (i < n)%nat -> node_infeed tw cp amb Tn pbs i = true -> lo <= Tn i <= hi) ->
  (forall i, (i < n)%nat -> up (node_infeed tw cp amb Tn pbs) (edges_of tw cp Tn pbs) i) ->
  (forall i, (i < n)%nat -> lo <= Tn i <= hi) /\
  (forall pb, In pb pbs -> lo <= p_tout pb <= hi).
Proof. exact global_bounds_pipeline. Qed.
Print Assumptions global_bounds.

(* the graph hypothesis [up] in checkable form: acyclic flow graph (a rank increases along every edge) and every
   non-infeed node has an inflow => every node is downstream of an infeed node *)
Theorem every_node_downstream_of_a_feed : forall n infeed es (rank : nat -> nat),
  (forall e, In e es -> (e_from e < n)%nat /\ (e_to e < n)%nat) ->
  (forall e, In e es -> (rank (e_from e) < rank (e_to e))%nat) ->
  (forall i, (i < n)%nat -> infeed i = false -> exists e, In e es /\ e_to e = i) ->
  forall i, (i < n)%nat -> up infeed es i.
Proof. exact up_from_rank. Qed.
Print Assumptions every_node_downstream_of_a_feed.

(* the inflow hypothesis holds by the definition of the kernel's infeed set *)
Theorem non_infeed_node_with_flow_has_inflow : forall tw cp amb Tn pbs i,
  node_flow tw cp amb Tn pbs i = true -> node_infeed tw cp amb Tn pbs i = false ->
  exists pb, In pb pbs /\ p_flow tw pb = true /\ p_tnc pb = i.
Proof. exact noninfeed_has_inflow. Qed.
Print Assumptions non_infeed_node_with_flow_has_inflow.

(* global bounds with checkable hypotheses: every node touched by flow, flow graph acyclic *)
Theorem global_bounds_acyclic : forall tw cp amb Tn isT n pbs lo hi (rank : nat -> nat),
  (forall t, 0 < cp t) ->
  fixed_point tw cp amb Tn isT n pbs ->
  Forall (passive tw n lo hi) pbs ->
  (forall i, (i < n)%nat -> node_infeed tw cp amb Tn pbs i = true -> lo <= Tn i <= hi) ->
  (forall i, (i < n)%nat -> node_flow tw cp amb Tn pbs i = true) ->
  (forall pb, In pb pbs -> (rank (p_fnc pb) < rank (p_tnc pb))%nat) ->
  (forall i, (i < n)%nat -> lo <= Tn i <= hi) /\
  (forall pb, In pb pbs -> lo <= p_tout pb <= hi).
Proof. exact global_bounds_acyclic_pipeline. Qed.
Print Assumptions global_bounds_acyclic.

(* ---- 6. direction switch *)
Theorem direction_switch_assembly : forall (ns : list (@tnode R)) bs (sel : @tbranch R -> bool),
  let bs' := map (fun b => if sel b then redeclare b else b) bs in
  trips 1 ns bs' = trips 1 ns bs /\ eps 0 Rplus Ropp ns bs' = eps 0 Rplus Ropp ns bs.
Proof. intros ns bs sel. apply system_invariant_under_redeclaration. Qed.
Print Assumptions direction_switch_assembly.

Theorem direction_switch : forall tw cp amb Tn pb,
  flows (p_m pb) ->
  p_fnc (reverse_decl pb) = p_fnc pb /\ p_tnc (reverse_decl pb) = p_tnc pb /\
  fnc (asm_branch tw cp amb Tn (reverse_decl pb)) = fnc (asm_branch tw cp amb Tn pb) /\
  tnc (asm_branch tw cp amb Tn (reverse_decl pb)) = tnc (asm_branch tw cp amb Tn pb) /\
  b_lvb (asm_branch tw cp amb Tn (reverse_decl pb)) = b_lvb (asm_branch tw cp amb Tn pb) /\
  b_lvnt (asm_branch tw cp amb Tn (reverse_decl pb)) = b_lvnt (asm_branch tw cp amb Tn pb).
Proof. exact direction_switch_physical. Qed.
Print Assumptions direction_switch.

(* the switch of solve_temperature happens strictly inside the stagnant band of the kernels *)
Theorem switch_threshold_inside_stagnant_band : forall m,
  flows m -> (dir_switched m = true <-> m < 0).
Proof.
  intros m H. unfold flows, dir_switched, switch_threshold in *.
  destruct (Rltb_spec m (- (1 / 50000000000))); split; intros; auto; try discriminate; try lra;
    exfalso; revert H; unfold Rabs; destruct (Rcase_abs m); lra.
Qed.
Print Assumptions switch_threshold_inside_stagnant_band.

(* ---- non-vacuity: the guards are satisfiable by a concrete non-trivial system.
   Integer instance: 4 nodes (node 0 T-typed infeed), 4 branches, one declared against the flow (switched),
   two streams mixing in node 2; x below solves the assembled system and is not zero. *)
Definition ex_nodes : list (@tnode Z) :=
  [mkTNode 0 0 true true; mkTNode 0 0 false false; mkTNode 0 0 false false; mkTNode 0 0 false false]%Z.
Definition ex_branches : list (@tbranch Z) :=
  [mkTBranch 0 1 false 1 (-1) (-2) 2 3 4; mkTBranch 2 0 true 1 (-1) (-3) 3 (-2) 6;
   mkTBranch 1 2 false 1 (-1) (-1) 1 0 (-1); mkTBranch 2 3 false 1 (-1) (-5) 5 1 0]%Z.
Definition ex_x (i : nat) : Z := nth i [0; -5; -1; -2; -3; 2; -5; -2]%Z 0%Z.

Example guards_satisfiable :
  wf ex_nodes ex_branches /\
  (forall r, (r < dim ex_nodes ex_branches)%nat ->
     rowsum 0%Z Z.add Z.mul (trips 1%Z ex_nodes ex_branches) r ex_x = nth r (eps 0%Z Z.add Z.opp ex_nodes ex_branches) 0%Z) /\
  ex_x 1%nat <> 0%Z /\ In 0%nat (t_nodes ex_nodes).
Proof.
  split; [split; [reflexivity|repeat constructor]|]. split; [|split; [discriminate|now left]].
  intros r Hr. unfold dim in Hr. simpl in Hr.
  do 8 (destruct r as [|r]; [vm_compute; reflexivity|]). exfalso. lia.
Qed.

(* non-vacuity over R: a concrete fixed point of the pipeline over the generated numpy kernels (C10/Example.v):
   feeders of 370 K and 280 K (T-typed, infeed), a branch declared against the flow (m = -1, switched), mixing node
   at 325 K, loss-free pipes, constant c_p.  It satisfies the hypotheses of branch_cooling_law, node_mixing_law,
   infeed_rows_fix_temperature (wf; x = 0 solves), local_bounds_node_pipeline and global_bounds_acyclic *)
Example pipeline_hypotheses_satisfiable : forall amb : R,
  fixed_point true ex_cp amb ex_T ex_isT 4 ex_pbs /\
  wf (sys_nodes true ex_cp amb ex_T ex_isT 4 ex_pbs) (sys_branches true ex_cp amb ex_T ex_pbs) /\
  Forall (passive true 4 280 370) ex_pbs /\
  (forall pb, In pb ex_pbs -> (p_fnc pb < p_tnc pb)%nat) /\
  (forall i, (i < 4)%nat -> node_flow true ex_cp amb ex_T ex_pbs i = true) /\
  node_infeed true ex_cp amb ex_T ex_pbs 2 = false /\ p_sw pb1 = true /\
  mixsum true ex_cp ex_T 2 ex_pbs = 0 /\ (forall i, (i < 4)%nat -> 280 <= ex_T i <= 370).
Proof.
  intros amb. destruct example_passive_acyclic as (Hp & Hr & Hc). destruct (inf_ex amb) as (I0 & I1 & I2 & I3).
  repeat split; auto using example_fixed_point, flow_ex, sw1; try apply example_wf; try apply (example_global_bounds amb); auto.
  apply (node_mixing_law_pipeline true ex_cp amb ex_T ex_isT 4 ex_pbs 2 (example_fixed_point amb)); auto using flow_ex.
Qed.

Example global_bounds_hypotheses_satisfiable :
  let T := fun i : nat => match i with O => 360 | 1%nat => 350 | _ => 345 end in
  let infeed := fun i : nat => Nat.eqb i 0 in
  let es := [mkEdge 0 1 2 350 280; mkEdge 0 2 1 340 280; mkEdge 1 2 1 350 280] in
  (forall e, In e es -> (e_from e < 3)%nat /\ (e_to e < 3)%nat) /\ (forall e, In e es -> 0 < e_w e) /\
  (forall e, In e es -> Rmin (T (e_from e)) (e_text e) <= e_tout e <= Rmax (T (e_from e)) (e_text e)) /\
  (forall i, (i < 3)%nat -> infeed i = false -> gmix T i es = 0) /\
  (forall i, (i < 3)%nat -> up infeed es i).
Proof.
  cbv zeta. split; [|split; [|split; [|split]]].
  - intros e [<-|[<-|[<-|[]]]]; simpl; lia.
  - intros e [<-|[<-|[<-|[]]]]; simpl; lra.
  - intros e [<-|[<-|[<-|[]]]]; simpl; unfold Rmin, Rmax; destruct (Rle_dec _ _); lra.
  - intros i Hi Hf. destruct i as [|[|[|i]]]; simpl in *; try discriminate; try lra; lia.
  - intros i Hi. destruct i as [|[|[|i]]]; [apply up_feed; reflexivity| | |lia].
    + apply (up_edge _ _ (mkEdge 0 1 2 350 280)); [simpl; auto|apply up_feed; reflexivity].
    + apply (up_edge _ _ (mkEdge 0 2 1 340 280)); [simpl; auto|apply up_feed; reflexivity].
Qed.

Example kernel_guards_satisfiable :
  flows 1 /\ ~ flows (1 / 100000000000) /\ dir_switched (-1) = true /\ dir_switched 1 = false /\
  (0 <= 2 /\ 0 <= 100 /\ 0 <= (1/10) /\ 0 < 4182 /\ 0 < 1).
Proof.
  unfold flows, dir_switched, switch_threshold. rewrite Rabs_R1.
  rewrite (Rabs_pos_eq (1 / 100000000000)) by lra.
  repeat split; try lra.
  - destruct (Rltb_spec (-1) (- (1 / 50000000000))); auto; lra.
  - destruct (Rltb_spec 1 (- (1 / 50000000000))); auto; lra.
Qed.
