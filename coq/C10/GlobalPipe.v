(* C10 - global bounds for the thermal pipeline: the abstract maximum principle of C10/Global.v instantiated with
   the fixed-point facts proved in C10/Proofs.v over the generated kernels. *)
From Coq Require Import Reals Lra Lia List Bool Arith.
From PP Require Import Kern.RBool Gen.KThermNp Gen.KThermNb Gen.KThermExpr Gen.KHooksHeat C10.Spec C10.Model C10.Assembly
                       C10.Proofs C10.Global.
Import ListNotations.
Open Scope R_scope.

Definition edge_of tw cp Tn (pb : pbranch) : edge :=
  mkEdge (p_fnc pb) (p_tnc pb) (stream_w tw cp Tn pb) (p_tout pb) (p_text pb).
Definition edges_of tw cp Tn (pbs : list pbranch) : list edge := map (edge_of tw cp Tn) pbs.

Lemma gmix_mixsum tw cp Tn i pbs : gmix Tn i (edges_of tw cp Tn pbs) = mixsum tw cp Tn i pbs.
Proof. induction pbs as [|pb l IH]; simpl; [reflexivity|]. rewrite IH. reflexivity. Qed.

(* no heat sources: every branch flows, is no circulation pump, extracts no heat, has no temperature lift, a
   non-negative loss coefficient / length / diameter, an ambient temperature in [lo, hi], end nodes in range *)
Definition passive (tw : bool) (n : nat) (lo hi : R) (pb : pbranch) : Prop :=
  p_flow tw pb = true /\ p_ident pb = false /\ p_qext pb = 0 /\ p_tl pb = 0 /\
  0 <= p_alpha pb /\ 0 <= p_len pb /\ 0 <= p_do pb /\ (p_from pb < n)%nat /\ (p_to pb < n)%nat /\
  lo <= p_text pb <= hi.

Lemma flows_pos m : flows m -> 0 < Rabs m.
Proof. unfold flows. lra. Qed.

Theorem global_bounds_pipeline : forall tw cp amb Tn isT n pbs lo hi,
  (forall t, 0 < cp t) ->
  fixed_point tw cp amb Tn isT n pbs ->
  Forall (passive tw n lo hi) pbs ->
  (forall i, (i < n)%nat -> node_infeed tw cp amb Tn pbs i = true -> lo <= Tn i <= hi) ->
  (forall i, (i < n)%nat -> up (node_infeed tw cp amb Tn pbs) (edges_of tw cp Tn pbs) i) ->
  (forall i, (i < n)%nat -> lo <= Tn i <= hi) /\
  (forall pb, In pb pbs -> lo <= p_tout pb <= hi).
Proof.
  intros tw cp amb Tn isT n pbs lo hi Hcp Hfp Hpas Hfeed Hup.
  rewrite Forall_forall in Hpas.
  assert (Hin_e : forall e, In e (edges_of tw cp Tn pbs) -> exists pb, In pb pbs /\ e = edge_of tw cp Tn pb).
  { intros e He. unfold edges_of in He. apply in_map_iff in He. destruct He as [pb [<- Hp]]. eauto. }
  assert (Hcbar : forall a b, 0 < cbar cp a b) by (intros; unfold cbar; pose proof (Hcp a); pose proof (Hcp b); lra).
  assert (H_range : forall e, In e (edges_of tw cp Tn pbs) -> (e_from e < n)%nat /\ (e_to e < n)%nat).
  { intros e He. destruct (Hin_e e He) as [pb [Hp ->]]. destruct (Hpas pb Hp) as (_&_&_&_&_&_&_&H1&H2&_).
    unfold edge_of, p_fnc, p_tnc; simpl. destruct (p_sw pb); split; assumption. }
  assert (H_w : forall e, In e (edges_of tw cp Tn pbs) -> 0 < e_w e).
  { intros e He. destruct (Hin_e e He) as [pb [Hp ->]]. destruct (Hpas pb Hp) as (Hf&_). simpl. unfold stream_w.
    rewrite Hf. pose proof (flows_pos _ (proj1 (p_flow_flows tw pb) Hf)). pose proof (Hcbar (p_tout pb) (Tn (p_tnc pb))).
    destruct tw; apply Rmult_lt_0_compat; try assumption; apply Rmult_lt_0_compat; try assumption; lra. }
  assert (H_text : forall e, In e (edges_of tw cp Tn pbs) -> lo <= e_text e <= hi).
  { intros e He. destruct (Hin_e e He) as [pb [Hp ->]]. destruct (Hpas pb Hp) as (_&_&_&_&_&_&_&_&_&H). exact H. }
  assert (H_branch : forall e, In e (edges_of tw cp Tn pbs) ->
            Rmin (Tn (e_from e)) (e_text e) <= e_tout e <= Rmax (Tn (e_from e)) (e_text e)).
  { intros e He. destruct (Hin_e e He) as [pb [Hp ->]]. destruct (Hpas pb Hp) as (Hf&Hid&HQ&HTL&Ha&HL&Hd&_).
    apply In_nth_error in Hp. destruct Hp as [k Hk].
    destruct (branch_cooling_law_pipeline tw cp amb Tn isT n pbs k pb Hfp Hk Hid) as [Hlaw _].
    specialize (Hlaw Hf). rewrite HQ, HTL in Hlaw. simpl.
    apply (branch_local_bounds (p_alpha pb) (p_len pb) (p_do pb) (cbar cp (Tn (p_fnc pb)) (p_tout pb)) (Rabs (p_m pb)));
      auto. apply flows_pos. apply p_flow_flows with (tw := tw). assumption. }
  assert (H_mix : forall i, (i < n)%nat -> node_infeed tw cp amb Tn pbs i = false -> gmix Tn i (edges_of tw cp Tn pbs) = 0).
  { intros i Hi Hnf. rewrite gmix_mixsum. apply (node_mixing_law_pipeline tw cp amb Tn isT n pbs i Hfp Hi Hnf).
    (* a non-infeed node downstream of a feed has a flowing branch ending in it *)
    pose proof (Hup i Hi) as Hu. inversion Hu as [j Hj|e He Hue]; subst; [congruence|].
    destruct (Hin_e e He) as [pb [Hp ->]]. destruct (Hpas pb Hp) as (Hf&_).
    unfold node_flow, g_touches, bf. apply existsb_exists. exists (asm_branch tw cp amb Tn pb, p_flow tw pb).
    split; [apply in_map_iff; exists pb; auto|]. simpl. rewrite Hf. simpl.
    change (tnc (asm_branch tw cp amb Tn pb)) with (p_tnc pb). simpl. rewrite Nat.eqb_refl. apply orb_true_r. }
  split.
  - intros i Hi. apply (global_bounds_nodes n Tn (node_infeed tw cp amb Tn pbs) (edges_of tw cp Tn pbs) lo hi
                          H_range H_w Hfeed H_text H_branch H_mix Hup i Hi).
  - intros pb Hp.
    apply (global_bounds_outlets n Tn (node_infeed tw cp amb Tn pbs) (edges_of tw cp Tn pbs) lo hi
             H_range H_w Hfeed H_text H_branch H_mix Hup (edge_of tw cp Tn pb)).
    unfold edges_of. apply in_map. assumption.
Qed.

(* every node touched by flow that is not in the kernel's infeed set is the (flow-corrected) to node of a
   flowing branch - by the definition infeed = setdiff1d(from[flow], to[flow]) *)
Lemma noninfeed_has_inflow : forall tw cp amb Tn pbs i,
  node_flow tw cp amb Tn pbs i = true -> node_infeed tw cp amb Tn pbs i = false ->
  exists pb, In pb pbs /\ p_flow tw pb = true /\ p_tnc pb = i.
Proof.
  intros tw cp amb Tn pbs i Hfl Hinf. unfold node_flow, g_touches, node_infeed, g_infeed, bf in *.
  match type of Hinf with context [negb (existsb ?f ?l)] => destruct (existsb f l) eqn:Eto end.
  - (* some flowing branch ends in i *)
    apply existsb_exists in Eto. destruct Eto as [[b f] [Hin H]]. apply in_map_iff in Hin.
    destruct Hin as [pb [E Hp]]. inversion E; subst. simpl in H. apply andb_true_iff in H. destruct H as [H1 H2].
    exists pb. repeat split; auto. apply Nat.eqb_eq in H2. exact H2.
  - (* no flowing branch ends in i: then i is not a from node either (else it would be infeed), so no flow touches it *)
    simpl in Hinf. rewrite andb_true_r in Hinf.
    apply existsb_exists in Hfl. destruct Hfl as [[b f] [Hin H]]. apply in_map_iff in Hin.
    destruct Hin as [pb [E Hp]]. inversion E; subst. simpl in H. apply andb_true_iff in H. destruct H as [Hf H].
    apply orb_true_iff in H. destruct H as [H|H].
    + exfalso. rewrite <- not_true_iff_false in Hinf. apply Hinf. apply existsb_exists.
      exists (asm_branch tw cp amb Tn pb, p_flow tw pb). split; [apply in_map_iff; exists pb; split; [reflexivity|assumption]|]. simpl. rewrite Hf. exact H.
    + exists pb. repeat split; auto. apply Nat.eqb_eq in H. exact H.
Qed.

(* global bounds with the graph hypothesis in checkable form: all nodes touched by flow, flow graph acyclic *)
Theorem global_bounds_acyclic_pipeline : forall tw cp amb Tn isT n pbs lo hi (rank : nat -> nat),
  (forall t, 0 < cp t) ->
  fixed_point tw cp amb Tn isT n pbs ->
  Forall (passive tw n lo hi) pbs ->
  (forall i, (i < n)%nat -> node_infeed tw cp amb Tn pbs i = true -> lo <= Tn i <= hi) ->
  (forall i, (i < n)%nat -> node_flow tw cp amb Tn pbs i = true) ->
  (forall pb, In pb pbs -> (rank (p_fnc pb) < rank (p_tnc pb))%nat) ->
  (forall i, (i < n)%nat -> lo <= Tn i <= hi) /\
  (forall pb, In pb pbs -> lo <= p_tout pb <= hi).
Proof.
  intros tw cp amb Tn isT n pbs lo hi rank Hcp Hfp Hpas Hfeed Hflow Hrank.
  apply (global_bounds_pipeline tw cp amb Tn isT n pbs lo hi Hcp Hfp Hpas Hfeed).
  pose proof Hpas as Hpas'. rewrite Forall_forall in Hpas'.
  apply (up_from_rank n (node_infeed tw cp amb Tn pbs) (edges_of tw cp Tn pbs) rank).
  - intros e He. unfold edges_of in He. apply in_map_iff in He. destruct He as [pb [<- Hp]].
    destruct (Hpas' pb Hp) as (_&_&_&_&_&_&_&H1&H2&_). unfold edge_of, p_fnc, p_tnc; simpl. destruct (p_sw pb); split; assumption.
  - intros e He. unfold edges_of in He. apply in_map_iff in He. destruct He as [pb [<- Hp]]. simpl. apply Hrank. assumption.
  - intros i Hi Hnf. destruct (noninfeed_has_inflow tw cp amb Tn pbs i (Hflow i Hi) Hnf) as [pb [Hp [_ Ht]]].
    exists (edge_of tw cp Tn pb). split; [unfold edges_of; apply in_map; assumption|exact Ht].
Qed.
