(* C10 - hand-written executable model (H-tie; definitions only) of the thermal half of

     pandapipes.pf.build_system_matrix.build_system_matrix            (heat_mode = True)
     pandapipes.pf.internals_toolbox.get_from_nodes_corrected / get_to_nodes_corrected
     pandapipes.pf.pipeflow_setup.check_infeed_number
     the graph part of derivatives_thermal_np / _numba                (nodes_flow, infeed)
     the update lines of pandapipes.pipeflow.solve_temperature

   Generic over a scalar type A with ring operations (DESIGN 2.2): the theorems of Proofs.v hold in every
   commutative ring; the correspondence (tools/props/c10.py) runs the same definitions at A := Z against the
   real functions on real thermal active pits whose numeric columns are overwritten with small integers,
   compared inside Coq.

   Not modelled: the order of the COO triplets (CSR sums duplicates; the order is unobservable), IEEE
   rounding, NaN.  Indices out of range are totalised (nth default); every theorem carries the guard the
   real code enforces (IndexError / broadcast error otherwise). *)
From Coq Require Import ZArith List Bool Arith Lia.
Import ListNotations.

Section Model.
  Context {A : Type} (zero one : A) (add mul sub : A -> A -> A) (opp : A -> A).

  (* the columns of the active node pit that the thermal build_system_matrix reads *)
  Record tnode := mkTNode {
    n_loadt : A;       (* LOAD_T *)
    n_jdtn : A;        (* JAC_DERIV_DT_N *)
    n_infeed : bool;   (* INFEED (.astype(bool)) *)
    n_isT : bool       (* NODE_TYPE_T == T *)
  }.

  (* the columns of the active branch pit that it reads *)
  Record tbranch := mkTBranch {
    b_from : nat;      (* FROM_NODE *)
    b_to : nat;        (* TO_NODE *)
    b_sw : bool;       (* FROM_NODE_T_SWITCHED *)
    b_jdt : A;         (* JAC_DERIV_DT *)
    b_jdtout : A;      (* JAC_DERIV_DTOUT *)
    b_jdtn : A;        (* JAC_DERIV_DT_NODE *)
    b_jdtoutn : A;     (* JAC_DERIV_DTOUT_NODE *)
    b_lvb : A;         (* LOAD_VEC_BRANCHES_T *)
    b_lvnt : A         (* LOAD_VEC_NODES_TO_T *)
  }.

  (* get_from_nodes_corrected / get_to_nodes_corrected: column = switched*(TO_NODE-FROM_NODE)+FROM_NODE *)
  Definition fnc (b : tbranch) : nat := if b_sw b then b_to b else b_from b.
  Definition tnc (b : tbranch) : nat := if b_sw b then b_from b else b_to b.

  Definition trip := (nat * nat * A)%type.     (* (row, col, value) *)

  Definition infeed_of (ns : list tnode) (i : nat) : bool :=
    match nth_error ns i with Some nd => n_infeed nd | None => false end.

  Fixpoint positions {X} (p : X -> bool) (k0 : nat) (l : list X) : list nat :=
    match l with
    | [] => []
    | x :: r => (if p x then [k0] else []) ++ positions p (S k0) r
    end.

  Fixpoint mapi {X Y} (f : nat -> X -> Y) (k0 : nat) (l : list X) : list Y :=
    match l with [] => [] | x :: r => f k0 x :: mapi f (S k0) r end.

  Definition infeed_nodes (ns : list tnode) : list nat := positions n_infeed 0 ns.   (* infeed_node *)
  Definition t_nodes (ns : list tnode) : list nat := positions n_isT 0 ns.           (* slack_nodes *)

  (* ---------------------------------------------------------------- matrix entries *)
  (* branch equations: row n+k has dF/dT_in at the corrected from node, dF/dT_out at n+k *)
  Fixpoint branch_trips (n k0 : nat) (bs : list tbranch) : list trip :=
    match bs with
    | [] => []
    | b :: r => (n + k0, fnc b, b_jdt b) :: (n + k0, n + k0, b_jdtout b) :: branch_trips n (S k0) r
    end.

  (* node equations: only for branches whose corrected to node is not an infeed node *)
  Fixpoint to_trips (ns : list tnode) (n k0 : nat) (bs : list tbranch) : list trip :=
    match bs with
    | [] => []
    | b :: r => (if infeed_of ns (tnc b) then []
                 else [(tnc b, tnc b, b_jdtn b); (tnc b, n + k0, b_jdtoutn b)])
                ++ to_trips ns n (S k0) r
    end.

  Fixpoint node_trips (k0 : nat) (ns : list tnode) : list trip :=
    match ns with
    | [] => []
    | nd :: r => (if n_infeed nd then [] else [(k0, k0, n_jdtn nd)]) ++ node_trips (S k0) r
    end.

  (* fixed temperature equations: the code pairs the k-th infeed node (row) with the k-th T-typed node
     (column): system_rows[len_nt:] = infeed_node, system_cols[len_nt:] = slack_nodes (numpy raises if the
     counts differ - check_infeed_number guards the call; [combine] truncates - guard in the theorems) *)
  Definition fixed_trips (ns : list tnode) : list trip :=
    map (fun rc => (fst rc, snd rc, one)) (combine (infeed_nodes ns) (t_nodes ns)).

  Definition trips (ns : list tnode) (bs : list tbranch) : list trip :=
    let n := length ns in
    branch_trips n 0 bs ++ to_trips ns n 0 bs ++ node_trips 0 ns ++ fixed_trips ns.

  (* ---------------------------------------------------------------- load vector *)
  (* sum over the branches whose corrected to node is i (the _sum_by_group call on tn) *)
  Fixpoint insum (g : nat -> tbranch -> A) (i k0 : nat) (bs : list tbranch) : A :=
    match bs with
    | [] => zero
    | b :: r => add (if Nat.eqb (tnc b) i then g k0 b else zero) (insum g i (S k0) r)
    end.

  Definition lvnt_ (_ : nat) (b : tbranch) : A := b_lvnt b.

  Definition eps_nodes (ns : list tnode) (bs : list tbranch) : list A :=
    mapi (fun i nd => if n_infeed nd then zero else add (opp (n_loadt nd)) (insum lvnt_ i 0 bs)) 0 ns.

  Definition eps (ns : list tnode) (bs : list tbranch) : list A := eps_nodes ns bs ++ map b_lvb bs.

  Definition dim (ns : list tnode) (bs : list tbranch) : nat := length ns + length bs.

  (* ---------------------------------------------------------------- check_infeed_number *)
  Definition count {X} (p : X -> bool) (l : list X) : nat := length (filter p l).

  Definition set_infeed (nd : tnode) : tnode := mkTNode (n_loadt nd) (n_jdtn nd) true (n_isT nd).

  (* returns the node pit after the (conditional) INFEED overwrite and the verdict *)
  Definition check_infeed_number (ns : list tnode) : list tnode * bool :=
    let ns' := if Nat.eqb (length ns) (count n_isT ns)
               then map (fun nd => if n_isT nd then set_infeed nd else nd) ns else ns in
    (ns', Nat.eqb (count n_infeed ns') (count n_isT ns')).

  (* ---------------------------------------------------------------- graph part of the thermal kernels *)
  (* nodes_flow: the node is an end of a branch with flow; infeed = setdiff1d(from[flow], to[flow]).
     Every branch is paired with its flow flag (_branches_not_zero_flow). *)
  Definition g_touches (bf : list (tbranch * bool)) (i : nat) : bool :=
    existsb (fun p => snd p && (Nat.eqb (fnc (fst p)) i || Nat.eqb (tnc (fst p)) i)) bf.
  Definition g_infeed (bf : list (tbranch * bool)) (i : nat) : bool :=
    existsb (fun p => snd p && Nat.eqb (fnc (fst p)) i) bf &&
    negb (existsb (fun p => snd p && Nat.eqb (tnc (fst p)) i) bf).

  (* ---------------------------------------------------------------- linear system semantics *)
  Fixpoint rowsum (t : list trip) (r : nat) (x : nat -> A) : A :=
    match t with
    | [] => zero
    | (r', c, v) :: rest => if Nat.eqb r' r then add (mul v (x c)) (rowsum rest r x) else rowsum rest r x
    end.

  (* x solves J x = eps : every row holds.  Nothing is assumed about how spsolve finds x. *)
  Definition solves (ns : list tnode) (bs : list tbranch) (x : nat -> A) : Prop :=
    forall r, r < dim ns bs -> rowsum (trips ns bs) r x = nth r (eps ns bs) zero.

  Fixpoint entry (t : list trip) (r c : nat) : A :=
    match t with
    | [] => zero
    | (r', c', v) :: rest =>
        if Nat.eqb r' r && Nat.eqb c' c then add v (entry rest r c) else entry rest r c
    end.

  Definition dense (N : nat) (t : list trip) : list (list A) :=
    map (fun r => map (fun c => entry t r c) (seq 0 N)) (seq 0 N).

  (* guards the real code enforces: node indices in range, as many infeed nodes as T-typed nodes *)
  Definition wf (ns : list tnode) (bs : list tbranch) : Prop :=
    length (infeed_nodes ns) = length (t_nodes ns) /\
    Forall (fun b => b_from b < length ns /\ b_to b < length ns) bs.

  Definition wfb (ns : list tnode) (bs : list tbranch) : bool :=
    Nat.eqb (length (infeed_nodes ns)) (length (t_nodes ns)) &&
    forallb (fun b => Nat.ltb (b_from b) (length ns) && Nat.ltb (b_to b) (length ns)) bs.

  (* ---------------------------------------------------------------- update lines of solve_temperature *)
  (* node_pit[:, TINIT] -= x[:n] * alpha ; branch_pit[:, TOUTINIT] -= x[n:] * alpha *)
  Definition step_T (alpha : A) (T : nat -> A) (x : nat -> A) (i : nat) : A := sub (T i) (mul (x i) alpha).
  Definition step_Tout (alpha : A) (n : nat) (Tout : nat -> A) (x : nat -> A) (k : nat) : A :=
    sub (Tout k) (mul (x (n + k)) alpha).
End Model.

(* ---------------------------------------------------------------- correspondence cases (A := Z) *)
Definition zbranch := @tbranch Z.
Definition znode := @tnode Z.

Record case := mkCase {
  c_nodes : list znode;              (* integer node columns; INFEED as left by the real check_infeed_number *)
  c_nodes_before : list znode;       (* the same before check_infeed_number *)
  c_branches : list zbranch;
  c_check_obs : bool;                (* verdict of the real check_infeed_number *)
  c_built : bool;                    (* build_system_matrix was called (verdict true) *)
  c_dense_obs : list (list Z);       (* jacobian.toarray() *)
  c_eps_obs : list Z;                (* load vector *)
  c_fnc_obs : list nat;              (* real get_from_nodes_corrected *)
  c_tnc_obs : list nat;              (* real get_to_nodes_corrected *)
  c_flow : list bool;                (* real _branches_not_zero_flow on the hydraulic result *)
  c_kinfeed_obs : list bool;         (* INFEED column written by the real calculate_derivatives_thermal *)
  c_noflow_obs : list bool           (* JAC_DERIV_DT_N == 1 (node without flow) written by the same call *)
}.

Definition list_eqb {X} (e : X -> X -> bool) (a b : list X) : bool :=
  Nat.eqb (length a) (length b) && forallb (fun p => e (fst p) (snd p)) (combine a b).

Definition znode_eqb (a b : znode) : bool :=
  Z.eqb (n_loadt a) (n_loadt b) && Z.eqb (n_jdtn a) (n_jdtn b) && Bool.eqb (n_infeed a) (n_infeed b)
  && Bool.eqb (n_isT a) (n_isT b).

Definition case_ok (c : case) : bool :=
  let ns := c_nodes c in
  let bs := c_branches c in
  let chk := check_infeed_number (c_nodes_before c) in
  let bf := combine bs (c_flow c) in
  let n := length ns in
  list_eqb znode_eqb (fst chk) ns && Bool.eqb (snd chk) (c_check_obs c) &&
  list_eqb Nat.eqb (map fnc bs) (c_fnc_obs c) && list_eqb Nat.eqb (map tnc bs) (c_tnc_obs c) &&
  list_eqb Bool.eqb (map (g_infeed bf) (seq 0 n)) (c_kinfeed_obs c) &&
  list_eqb Bool.eqb (map (fun i => negb (g_touches bf i)) (seq 0 n)) (c_noflow_obs c) &&
  (if c_built c then
     wfb ns bs &&
     list_eqb (list_eqb Z.eqb) (dense Z0 Z.add (dim ns bs) (trips 1%Z ns bs)) (c_dense_obs c) &&
     list_eqb Z.eqb (eps Z0 Z.add Z.opp ns bs) (c_eps_obs c)
   else negb (snd chk)).

Fixpoint first_bad (cs : list case) (i : nat) : option nat :=
  match cs with
  | [] => None
  | c :: r => if case_ok c then first_bad r (S i) else Some i
  end.

Definition summary (cs : list case) : nat * nat * Z :=
  (length cs, length (filter (fun c => negb (case_ok c)) cs),
   match first_bad cs 0 with Some i => Z.of_nat i | None => (-1)%Z end).
