(* C10 - a concrete fixed point over R (non-vacuity of the pipeline theorems): the hypotheses of
   branch_cooling_law, node_mixing_law, infeed_rows_fix_temperature, local / global bounds are satisfied by

     node 0 (T-typed feeder, 370 K) --b0-->  node 2  <--b1-- node 1 (T-typed feeder, 280 K)     node 2 --b2--> node 3
     b1 is DECLARED from node 2 to node 1 and carries m = -1 (flow against the declaration: switched),
     b0 carries m = 1, b2 carries m = 2; loss-free pipes (alpha = 0, so the exponential is exp 0 = 1),
     constant c_p = 4000; node 2 mixes 370 K and 280 K to 325 K; node 3 has 325 K.

   numpy kernels (tw = true); the same proof works for tw = false. *)
From Coq Require Import Reals Lra Lia List Bool Arith.
From PP Require Import Kern.RBool Gen.KThermNp Gen.KThermNb Gen.KThermExpr Gen.KHooksHeat C10.Spec C10.Model C10.Assembly
                       C10.Proofs C10.Global C10.GlobalPipe.
Import ListNotations.
Open Scope R_scope.

Definition ex_cp : R -> R := fun _ => 4000.
Definition ex_T (i : nat) : R := match i with O => 370 | 1%nat => 280 | _ => 325 end.
Definition ex_isT (i : nat) : bool := Nat.ltb i 2.
Definition pb0 : pbranch := mkPB 0 2 1 370 0 (1/10) 100 0 283 0 false.
Definition pb1 : pbranch := mkPB 2 1 (-1) 280 0 (1/10) 100 0 283 0 false.
Definition pb2 : pbranch := mkPB 2 3 2 325 0 (1/10) 100 0 283 0 false.
Definition ex_pbs : list pbranch := [pb0; pb1; pb2].

Lemma fl0 : flows (p_m pb0). Proof. unfold flows; simpl. rewrite Rabs_R1. lra. Qed.
Lemma Rabs_m1 : Rabs (-1) = 1. Proof. rewrite Rabs_left; lra. Qed.
Lemma fl1 : flows (p_m pb1). Proof. unfold flows; simpl. rewrite Rabs_m1. lra. Qed.
Lemma fl2 : flows (p_m pb2). Proof. unfold flows; simpl. rewrite Rabs_pos_eq; lra. Qed.
Lemma pf0 : p_flow true pb0 = true. Proof. apply p_flow_flows, fl0. Qed.
Lemma pf1 : p_flow true pb1 = true. Proof. apply p_flow_flows, fl1. Qed.
Lemma pf2 : p_flow true pb2 = true. Proof. apply p_flow_flows, fl2. Qed.

Lemma sw_pos m : 0 < m -> dir_switched m = false.
Proof. intros. unfold dir_switched, switch_threshold. destruct (Rltb_spec m (- (1 / 50000000000))); auto; lra. Qed.
Lemma sw1 : p_sw pb1 = true.
Proof. unfold p_sw, dir_switched, switch_threshold; simpl. destruct (Rltb_spec (-1) (- (1 / 50000000000))); auto; lra. Qed.
Lemma sw0 : p_sw pb0 = false. Proof. unfold p_sw; simpl. apply sw_pos; lra. Qed.
Lemma sw2 : p_sw pb2 = false. Proof. unfold p_sw; simpl. apply sw_pos; lra. Qed.

Lemma fnc0 : p_fnc pb0 = 0%nat. Proof. unfold p_fnc. rewrite sw0. reflexivity. Qed.
Lemma tnc0 : p_tnc pb0 = 2%nat. Proof. unfold p_tnc. rewrite sw0. reflexivity. Qed.
Lemma fnc1 : p_fnc pb1 = 1%nat. Proof. unfold p_fnc. rewrite sw1. reflexivity. Qed.
Lemma tnc1 : p_tnc pb1 = 2%nat. Proof. unfold p_tnc. rewrite sw1. reflexivity. Qed.
Lemma fnc2 : p_fnc pb2 = 2%nat. Proof. unfold p_fnc. rewrite sw2. reflexivity. Qed.
Lemma tnc2 : p_tnc pb2 = 3%nat. Proof. unfold p_tnc. rewrite sw2. reflexivity. Qed.

Lemma existsb_map {X Y} (f : Y -> bool) (g : X -> Y) l : existsb f (map g l) = existsb (fun x => f (g x)) l.
Proof. induction l; simpl; auto. now rewrite IHl. Qed.

Lemma node_infeed_spec tw cp amb Tn pbs i :
  node_infeed tw cp amb Tn pbs i =
  existsb (fun pb => p_flow tw pb && Nat.eqb (p_fnc pb) i) pbs &&
  negb (existsb (fun pb => p_flow tw pb && Nat.eqb (p_tnc pb) i) pbs).
Proof. unfold node_infeed, g_infeed, bf. rewrite !existsb_map. reflexivity. Qed.

Lemma node_flow_spec tw cp amb Tn pbs i :
  node_flow tw cp amb Tn pbs i =
  existsb (fun pb => p_flow tw pb && (Nat.eqb (p_fnc pb) i || Nat.eqb (p_tnc pb) i)) pbs.
Proof. unfold node_flow, g_touches, bf. rewrite !existsb_map. reflexivity. Qed.

Ltac ex_bool := unfold ex_pbs; cbn [existsb]; rewrite ?pf0, ?pf1, ?pf2, ?fnc0, ?tnc0, ?fnc1, ?tnc1, ?fnc2, ?tnc2; reflexivity.

Lemma inf_ex : forall amb, node_infeed true ex_cp amb ex_T ex_pbs 0 = true /\ node_infeed true ex_cp amb ex_T ex_pbs 1 = true /\
  node_infeed true ex_cp amb ex_T ex_pbs 2 = false /\ node_infeed true ex_cp amb ex_T ex_pbs 3 = false.
Proof. intros. rewrite !node_infeed_spec. repeat split; ex_bool. Qed.

Lemma flow_ex : forall amb i, (i < 4)%nat -> node_flow true ex_cp amb ex_T ex_pbs i = true.
Proof. intros amb i Hi. rewrite node_flow_spec. destruct i as [|[|[|[|i]]]]; try lia; ex_bool. Qed.

Lemma spec_lossless : forall L d cpb m Text Tin, spec_T_out 0 L d cpb m Text Tin 0 0 = Tin.
Proof.
  intros. unfold spec_T_out. replace (0 * L * PI * d / (cpb * m)) with 0 by (unfold Rdiv; ring).
  rewrite Ropp_0, exp_0. unfold Rdiv. ring.
Qed.

Lemma lvb_ex : forall amb pb, flows (p_m pb) -> p_ident pb = false -> p_alpha pb = 0 -> p_qext pb = 0 -> p_tl pb = 0 ->
  b_lvb (asm_branch true ex_cp amb ex_T pb) = ex_T (p_fnc pb) - p_tout pb.
Proof.
  intros amb pb Hf Hid Ha HQ HTL. unfold asm_branch; simpl. rewrite Hid. unfold kcall, kern.
  rewrite fb_np_flow by assumption. rewrite Ha, HQ, HTL, spec_lossless. reflexivity.
Qed.

Theorem example_fixed_point : forall amb, fixed_point true ex_cp amb ex_T ex_isT 4 ex_pbs.
Proof.
  intros amb. unfold fixed_point.
  apply (proj2 (fixed_point_load_zero 0 1 Rplus Rmult Rminus Ropp RTheory _ _)).
  intros r Hr. unfold dim in Hr.
  assert (Hlen : length (sys_nodes true ex_cp amb ex_T ex_isT 4 ex_pbs) = 4%nat) by reflexivity.
  destruct (inf_ex amb) as (I0 & I1 & I2 & I3).
  destruct (lt_dec r 4) as [Hn|Hn].
  - (* node rows *)
    rewrite (eps_node 0 Rplus Ropp _ _ r _ (sys_nodes_nth true ex_cp amb ex_T ex_isT 4 ex_pbs r Hn)).
    change (n_infeed (asm_node true ex_cp amb ex_T ex_isT ex_pbs r)) with (node_infeed true ex_cp amb ex_T ex_pbs r).
    destruct r as [|[|[|[|r]]]]; try lia; rewrite ?I0, ?I1, ?I2, ?I3; try reflexivity.
    + (* mixing node 2 *)
      unfold sys_branches. rewrite insum_mixsum. unfold asm_node; simpl n_loadt. rewrite (flow_ex amb 2) by lia.
      unfold kern, therm_np_fn. cbv zeta. simpl negb. cbv iota.
      unfold ex_pbs, mixsum. rewrite tnc0, tnc1, tnc2. simpl Nat.eqb. cbv iota.
      unfold stream_w. rewrite pf0, pf1, tnc0, tnc1. unfold cbar, ex_cp. simpl p_tout. simpl p_m. simpl ex_T.
      rewrite Rabs_R1, Rabs_m1. lra.
    + (* node 3 *)
      unfold sys_branches. rewrite insum_mixsum. unfold asm_node; simpl n_loadt. rewrite (flow_ex amb 3) by lia.
      unfold kern, therm_np_fn. cbv zeta. simpl negb. cbv iota.
      unfold ex_pbs, mixsum. rewrite tnc0, tnc1, tnc2. simpl Nat.eqb. cbv iota.
      unfold stream_w. rewrite pf2, tnc2. unfold cbar, ex_cp. simpl p_tout. simpl p_m. simpl ex_T. lra.
  - (* branch rows *)
    assert (Hk : exists k, r = (4 + k)%nat /\ (k < 3)%nat).
    { exists (r - 4)%nat. rewrite Hlen in Hr. simpl in Hr. lia. }
    destruct Hk as [k [-> Hk]].
    set (ns := sys_nodes true ex_cp amb ex_T ex_isT 4 ex_pbs) in *.
    set (bs := sys_branches true ex_cp amb ex_T ex_pbs) in *.
    destruct k as [|[|[|k]]]; try lia.
    + change (4 + 0)%nat with (length ns + 0)%nat.
      rewrite (eps_branch 0 Rplus Ropp ns bs 0 (asm_branch true ex_cp amb ex_T pb0) eq_refl).
      rewrite (lvb_ex amb pb0 fl0) by reflexivity. rewrite fnc0. simpl. lra.
    + change (4 + 1)%nat with (length ns + 1)%nat.
      rewrite (eps_branch 0 Rplus Ropp ns bs 1 (asm_branch true ex_cp amb ex_T pb1) eq_refl).
      rewrite (lvb_ex amb pb1 fl1) by reflexivity. rewrite fnc1. simpl. lra.
    + change (4 + 2)%nat with (length ns + 2)%nat.
      rewrite (eps_branch 0 Rplus Ropp ns bs 2 (asm_branch true ex_cp amb ex_T pb2) eq_refl).
      rewrite (lvb_ex amb pb2 fl2) by reflexivity. rewrite fnc2. simpl. lra.
Qed.

(* the remaining hypotheses of the pipeline theorems hold for the example as well *)
Theorem example_wf : forall amb,
  wf (sys_nodes true ex_cp amb ex_T ex_isT 4 ex_pbs) (sys_branches true ex_cp amb ex_T ex_pbs).
Proof.
  intros amb. destruct (inf_ex amb) as (I0 & I1 & I2 & I3). split.
  - unfold sys_nodes, infeed_nodes, t_nodes. cbn [seq map positions].
    change (n_infeed (asm_node true ex_cp amb ex_T ex_isT ex_pbs 0)) with (node_infeed true ex_cp amb ex_T ex_pbs 0).
    change (n_infeed (asm_node true ex_cp amb ex_T ex_isT ex_pbs 1)) with (node_infeed true ex_cp amb ex_T ex_pbs 1).
    change (n_infeed (asm_node true ex_cp amb ex_T ex_isT ex_pbs 2)) with (node_infeed true ex_cp amb ex_T ex_pbs 2).
    change (n_infeed (asm_node true ex_cp amb ex_T ex_isT ex_pbs 3)) with (node_infeed true ex_cp amb ex_T ex_pbs 3).
    rewrite I0, I1, I2, I3. reflexivity.
  - unfold sys_branches, ex_pbs. cbn [map]. repeat constructor.
Qed.

Theorem example_passive_acyclic :
  Forall (passive true 4 280 370) ex_pbs /\
  (forall pb, In pb ex_pbs -> ((fun i : nat => i) (p_fnc pb) < (fun i : nat => i) (p_tnc pb))%nat) /\
  (forall t, 0 < ex_cp t).
Proof.
  split; [|split].
  - unfold ex_pbs. repeat apply Forall_cons; [| | |apply Forall_nil]; unfold passive;
      (repeat split; try first [apply pf0|apply pf1|apply pf2]; try reflexivity; simpl; try lra; try lia).
  - intros pb [<-|[<-|[<-|[]]]]; rewrite ?fnc0, ?tnc0, ?fnc1, ?tnc1, ?fnc2, ?tnc2; lia.
  - intros. unfold ex_cp. lra.
Qed.

(* so the global-bounds theorem applies and yields 280 <= T <= 370 for all four nodes *)
Theorem example_global_bounds : forall (amb : R) i, (i < 4)%nat -> 280 <= ex_T i <= 370.
Proof.
  intros amb i Hi. destruct example_passive_acyclic as (Hp & Hr & Hc).
  apply (global_bounds_acyclic_pipeline true ex_cp amb ex_T ex_isT 4 ex_pbs 280 370 (fun i => i) Hc
           (example_fixed_point amb) Hp); auto.
  - intros j Hj Hinf. destruct (inf_ex amb) as (I0 & I1 & I2 & I3).
    destruct j as [|[|[|[|j]]]]; try lia; simpl; try lra; congruence.
  - intros j Hj. apply flow_ex. assumption.
Qed.
