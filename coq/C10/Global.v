(* C10 - global temperature bounds (maximum principle) over a finite flow graph.

   Abstract setting: nodes 0..n-1 with temperatures T, edges = flowing branches in flow direction (from = the
   flow-corrected from node, to = the flow-corrected to node) with a positive mixing weight, an outlet
   temperature and an ambient temperature.  Hypotheses are exactly the conclusions of the local theorems:
     - every edge's outlet lies between its inlet node temperature and its ambient (local_bounds_branch),
     - every non-infeed node balances its inflows with positive weights (node_mixing_law),
     - infeed nodes and ambient temperatures lie in [lo, hi],
     - every node is downstream of an infeed node ([up]).
   Conclusion: every node temperature and every outlet temperature lies in [lo, hi]. *)
From Coq Require Import Reals Lra Lia List Bool Arith.
Import ListNotations.
Open Scope R_scope.

Record edge := mkEdge { e_from : nat; e_to : nat; e_w : R; e_tout : R; e_text : R }.

Section Global.
  Variable n : nat.
  Variable T : nat -> R.
  Variable infeed : nat -> bool.
  Variable es : list edge.
  Variables lo hi : R.

  Fixpoint gmix (i : nat) (l : list edge) : R :=
    match l with
    | [] => 0
    | e :: r => (if Nat.eqb (e_to e) i then e_w e * (e_tout e - T i) else 0) + gmix i r
    end.

  (* i is downstream of an infeed node along edges *)
  Inductive up : nat -> Prop :=
  | up_feed : forall i, infeed i = true -> up i
  | up_edge : forall e, In e es -> up (e_from e) -> up (e_to e).

  Hypothesis H_range : forall e, In e es -> (e_from e < n)%nat /\ (e_to e < n)%nat.
  Hypothesis H_w : forall e, In e es -> 0 < e_w e.
  Hypothesis H_feed : forall i, (i < n)%nat -> infeed i = true -> lo <= T i <= hi.
  Hypothesis H_text : forall e, In e es -> lo <= e_text e <= hi.
  Hypothesis H_branch : forall e, In e es ->
    Rmin (T (e_from e)) (e_text e) <= e_tout e <= Rmax (T (e_from e)) (e_text e).
  Hypothesis H_mix : forall i, (i < n)%nat -> infeed i = false -> gmix i es = 0.

  Lemma wneg : forall w t M, 0 < w -> t <= M -> w * (t - M) <= 0.
  Proof. intros. assert (0 <= w * (M - t)) by (apply Rmult_le_pos; lra). lra. Qed.
  Lemma wpos : forall w t M, 0 < w -> M <= t -> 0 <= w * (t - M).
  Proof. intros. apply Rmult_le_pos; lra. Qed.
  Lemma wzero : forall w t M, 0 < w -> w * (t - M) = 0 -> t = M.
  Proof. intros w t M Hw H. apply Rmult_integral in H. destruct H; lra. Qed.

  (* a zero sum of non-positive terms: every term is zero *)
  Lemma gmix_all_le : forall i M l,
    (forall e, In e l -> 0 < e_w e) -> (forall e, In e l -> e_tout e <= M) -> T i = M ->
    gmix i l = 0 -> forall e, In e l -> e_to e = i -> e_tout e = M.
  Proof.
    intros i M l Hw Hle HT. subst M. induction l as [|a l IH]; intros Hs e Hin Hto; [inversion Hin|].
    simpl in Hs.
    assert (Hrest : gmix i l <= 0).
    { clear - Hw Hle. induction l as [|b l IHl]; simpl; [lra|].
      assert (gmix i l <= 0) by (apply IHl; intros; [apply Hw|apply Hle]; simpl in *; tauto).
      destruct (Nat.eqb (e_to b) i); [|lra].
      assert (0 < e_w b) by (apply Hw; simpl; tauto). assert (e_tout b <= T i) by (apply Hle; simpl; tauto). pose proof (wneg _ _ _ H0 H1). lra. }
    assert (Ha : (if Nat.eqb (e_to a) i then e_w a * (e_tout a - T i) else 0) <= 0).
    { destruct (Nat.eqb (e_to a) i); [|lra].
      assert (0 < e_w a) by (apply Hw; simpl; tauto). assert (e_tout a <= T i) by (apply Hle; simpl; tauto). pose proof (wneg _ _ _ H H0). lra. }
    destruct Hin as [<-|Hin].
    - rewrite Hto, Nat.eqb_refl in *. assert (0 < e_w a) by (apply Hw; simpl; tauto).
      assert (e_w a * (e_tout a - T i) = 0) by lra. eapply wzero; eauto.
    - apply IH; auto; try solve [intros; apply Hw; simpl; tauto]; try solve [intros; apply Hle; simpl; tauto]; lra.
  Qed.

  Lemma gmix_all_ge : forall i M l,
    (forall e, In e l -> 0 < e_w e) -> (forall e, In e l -> M <= e_tout e) -> T i = M ->
    gmix i l = 0 -> forall e, In e l -> e_to e = i -> e_tout e = M.
  Proof.
    intros i M l Hw Hle HT. subst M. induction l as [|a l IH]; intros Hs e Hin Hto; [inversion Hin|].
    simpl in Hs.
    assert (Hrest : 0 <= gmix i l).
    { clear - Hw Hle. induction l as [|b l IHl]; simpl; [lra|].
      assert (0 <= gmix i l) by (apply IHl; intros; [apply Hw|apply Hle]; simpl in *; tauto).
      destruct (Nat.eqb (e_to b) i); [|lra].
      assert (0 < e_w b) by (apply Hw; simpl; tauto). assert (T i <= e_tout b) by (apply Hle; simpl; tauto). pose proof (wpos _ _ _ H0 H1). lra. }
    assert (Ha : 0 <= (if Nat.eqb (e_to a) i then e_w a * (e_tout a - T i) else 0)).
    { destruct (Nat.eqb (e_to a) i); [|lra].
      assert (0 < e_w a) by (apply Hw; simpl; tauto). assert (T i <= e_tout a) by (apply Hle; simpl; tauto). pose proof (wpos _ _ _ H H0). lra. }
    destruct Hin as [<-|Hin].
    - rewrite Hto, Nat.eqb_refl in *. assert (0 < e_w a) by (apply Hw; simpl; tauto).
      assert (e_w a * (e_tout a - T i) = 0) by lra. eapply wzero; eauto.
    - apply IH; auto; try solve [intros; apply Hw; simpl; tauto]; try solve [intros; apply Hle; simpl; tauto]; lra.
  Qed.

  Lemma up_lt : forall i, up i -> (forall j, infeed j = true -> (j < n)%nat) -> (i < n)%nat.
  Proof. intros i H Hf. destruct H; [auto|]. apply H_range; assumption. Qed.

  (* an upper bound M of all node temperatures that is attained at a node downstream of a feed is <= hi *)
  Lemma max_le_hi : forall M, (forall j, (j < n)%nat -> T j <= M) ->
    forall i, up i -> (i < n)%nat -> T i = M -> M <= hi.
  Proof.
    intros M HM i Hup. induction Hup as [i Hf|e Hin Hup IH]; intros Hi HT.
    - rewrite <- HT. apply H_feed; assumption.
    - destruct (Rle_or_lt M hi) as [|Hgt]; [assumption|]. exfalso.
      destruct (H_range e Hin) as [Hfr Hto].
      assert (Hnf : infeed (e_to e) = false).
      { destruct (infeed (e_to e)) eqn:E; [|reflexivity]. pose proof (H_feed _ Hi E). lra. }
      assert (Hall : forall e', In e' es -> e_tout e' <= M).
      { intros e' Hin'. destruct (H_branch e' Hin') as [_ Hb]. destruct (H_range e' Hin') as [Hf' _].
        pose proof (HM _ Hf'). pose proof (H_text e' Hin').
        unfold Rmax in Hb. destruct (Rle_dec (T (e_from e')) (e_text e')); lra. }
      pose proof (gmix_all_le (e_to e) M es H_w Hall HT (H_mix _ Hi Hnf) e Hin eq_refl) as Htout.
      destruct (H_branch e Hin) as [_ Hb]. pose proof (H_text e Hin). pose proof (HM _ Hfr).
      assert (T (e_from e) = M).
      { unfold Rmax in Hb. destruct (Rle_dec (T (e_from e)) (e_text e)); lra. }
      pose proof (IH Hfr H1). lra.
  Qed.

  Lemma min_ge_lo : forall M, (forall j, (j < n)%nat -> M <= T j) ->
    forall i, up i -> (i < n)%nat -> T i = M -> lo <= M.
  Proof.
    intros M HM i Hup. induction Hup as [i Hf|e Hin Hup IH]; intros Hi HT.
    - rewrite <- HT. apply H_feed; assumption.
    - destruct (Rle_or_lt lo M) as [|Hgt]; [assumption|]. exfalso.
      destruct (H_range e Hin) as [Hfr Hto].
      assert (Hnf : infeed (e_to e) = false).
      { destruct (infeed (e_to e)) eqn:E; [|reflexivity]. pose proof (H_feed _ Hi E). lra. }
      assert (Hall : forall e', In e' es -> M <= e_tout e').
      { intros e' Hin'. destruct (H_branch e' Hin') as [Hb _]. destruct (H_range e' Hin') as [Hf' _].
        pose proof (HM _ Hf'). pose proof (H_text e' Hin').
        unfold Rmin in Hb. destruct (Rle_dec (T (e_from e')) (e_text e')); lra. }
      pose proof (gmix_all_ge (e_to e) M es H_w Hall HT (H_mix _ Hi Hnf) e Hin eq_refl) as Htout.
      destruct (H_branch e Hin) as [Hb _]. pose proof (H_text e Hin). pose proof (HM _ Hfr).
      assert (T (e_from e) = M).
      { unfold Rmin in Hb. destruct (Rle_dec (T (e_from e)) (e_text e)); lra. }
      pose proof (IH Hfr H1). lra.
  Qed.

  (* a finite family attains its maximum / minimum *)
  Lemma attains_max : forall k, (0 < k)%nat -> exists i, (i < k)%nat /\ forall j, (j < k)%nat -> T j <= T i.
  Proof.
    induction k as [|k IH]; intros Hk; [lia|]. destruct k as [|k].
    - exists 0%nat. split; [lia|]. intros j Hj. replace j with 0%nat by lia. lra.
    - destruct (IH ltac:(lia)) as [i [Hi Hmax]]. destruct (Rle_or_lt (T (S k)) (T i)).
      + exists i. split; [lia|]. intros j Hj. destruct (Nat.eq_dec j (S k)) as [->|]; [assumption|apply Hmax; lia].
      + exists (S k). split; [lia|]. intros j Hj. destruct (Nat.eq_dec j (S k)) as [->|]; [lra|].
        pose proof (Hmax j ltac:(lia)). lra.
  Qed.

  Lemma attains_min : forall k, (0 < k)%nat -> exists i, (i < k)%nat /\ forall j, (j < k)%nat -> T i <= T j.
  Proof.
    induction k as [|k IH]; intros Hk; [lia|]. destruct k as [|k].
    - exists 0%nat. split; [lia|]. intros j Hj. replace j with 0%nat by lia. lra.
    - destruct (IH ltac:(lia)) as [i [Hi Hmin]]. destruct (Rle_or_lt (T i) (T (S k))).
      + exists i. split; [lia|]. intros j Hj. destruct (Nat.eq_dec j (S k)) as [->|]; [assumption|apply Hmin; lia].
      + exists (S k). split; [lia|]. intros j Hj. destruct (Nat.eq_dec j (S k)) as [->|]; [lra|].
        pose proof (Hmin j ltac:(lia)). lra.
  Qed.

  Hypothesis H_up : forall i, (i < n)%nat -> up i.

  Theorem global_bounds_nodes : forall i, (i < n)%nat -> lo <= T i <= hi.
  Proof.
    intros i Hi. assert (Hn : (0 < n)%nat) by lia.
    destruct (attains_max n Hn) as [a [Ha Hmax]]. destruct (attains_min n Hn) as [b [Hb Hmin]].
    pose proof (max_le_hi (T a) Hmax a (H_up a Ha) Ha eq_refl).
    pose proof (min_ge_lo (T b) Hmin b (H_up b Hb) Hb eq_refl).
    pose proof (Hmax i Hi). pose proof (Hmin i Hi). lra.
  Qed.

  Theorem global_bounds_outlets : forall e, In e es -> lo <= e_tout e <= hi.
  Proof.
    intros e Hin. destruct (H_range e Hin) as [Hf _]. pose proof (global_bounds_nodes _ Hf).
    pose proof (H_text e Hin). destruct (H_branch e Hin) as [H1 H2].
    unfold Rmin, Rmax in *. destruct (Rle_dec (T (e_from e)) (e_text e)); lra.
  Qed.
End Global.

(* [up] from a checkable condition: the flow graph is acyclic (a rank strictly increases along every edge - e.g.
   the pressure ordering of a net of passive branches) and every node that is not an infeed node has an inflow
   (true by the definition of the kernel's infeed set for every node touched by flow).  Then every node is
   downstream of an infeed node. *)
Section Acyclic.
  Variable n : nat.
  Variable infeed : nat -> bool.
  Variable es : list edge.
  Variable rank : nat -> nat.
  Hypothesis H_range : forall e, In e es -> (e_from e < n)%nat /\ (e_to e < n)%nat.
  Hypothesis H_rank : forall e, In e es -> (rank (e_from e) < rank (e_to e))%nat.
  Hypothesis H_inflow : forall i, (i < n)%nat -> infeed i = false -> exists e, In e es /\ e_to e = i.

  Theorem up_from_rank : forall i, (i < n)%nat -> up infeed es i.
  Proof.
    assert (H : forall k i, rank i = k -> (i < n)%nat -> up infeed es i).
    { induction k as [k IH] using lt_wf_ind. intros i Hk Hi.
      destruct (infeed i) eqn:E; [apply up_feed; assumption|].
      destruct (H_inflow i Hi E) as [e [Hin Hto]]. rewrite <- Hto. apply up_edge; [assumption|].
      apply (IH (rank (e_from e))); [|reflexivity|apply H_range; assumption].
      rewrite <- Hk, <- Hto. apply H_rank. assumption. }
    intros i Hi. apply (H (rank i) i eq_refl Hi).
  Qed.
End Acyclic.
