(* C10 - hand-written specification of the documented thermal laws (no code is read here).

   doc/source/components/pipe/pipe_component.rst, "heat transfer":
       Q_loss = alpha * l * Pi * d * (T - T_ext)                                   (documented loss law)
   i.e. along a pipe carrying the mass flow m > 0 with heat capacity c_p the fluid temperature obeys
       c_p * m * dT/dx = - alpha * Pi * d * (T(x) - T_ext).
   Its solution is the exponential approach to the ambient temperature ([cooling_profile]); at x = L it
   gives the outlet temperature [spec_T_out] (plus the user's temperature lift TL and minus the external
   heat Q, which enter the outlet temperature as TL and Q / (c_p m)).
   doc/source/components/junction/junction_component.rst: "the thermal power carried by the incoming
   fluids is balanced" - [spec_mixing]: sum over incoming streams of  m * cbar * (T_stream - T_mix) = 0
   with cbar the mean heat capacity between stream and mixture temperature. *)
From Coq Require Import Reals Lra List.
Import ListNotations.
Open Scope R_scope.

(* mean heat capacity between two temperatures (the mean get_branch_cp uses) *)
Definition cbar (cp : R -> R) (Ta Tb : R) : R := (cp Ta + cp Tb) / 2.

(* temperature along the pipe, x metres from the inlet; k = alpha Pi d / (c_p m) *)
Definition cooling_profile (Text Tin k x : R) : R := Text + (Tin - Text) * exp (- (k * x)).

(* documented outlet temperature of a flowing branch; d_o is the OUTER diameter of the pipe (the surface that
   exchanges heat with the surroundings; pit column DO), alpha the heat transfer coefficient per outer surface *)
Definition spec_T_out (alpha L d_o cp m Text Tin TL Q : R) : R :=
  Text + (Tin - Text) * exp (- (alpha * L * PI * d_o / (cp * m))) + TL - Q / (cp * m).

(* the profile starts at the inlet temperature ... *)
Lemma cooling_profile_inlet : forall Text Tin k, cooling_profile Text Tin k 0 = Tin.
Proof. intros. unfold cooling_profile. rewrite Rmult_0_r, Ropp_0, exp_0. lra. Qed.

(* ... and satisfies the documented loss law as a differential equation:
   c_p m T'(x) = - alpha Pi d (T(x) - T_ext)   with  k = alpha Pi d / (c_p m) *)
Lemma cooling_profile_derivative : forall Text Tin k x,
  derivable_pt_lim (cooling_profile Text Tin k) x (- k * (cooling_profile Text Tin k x - Text)).
Proof.
  intros Text Tin k x. unfold cooling_profile.
  replace (- k * (Text + (Tin - Text) * exp (- (k * x)) - Text))
    with (0 + ((Tin - Text) * (exp (- (k * x)) * (- (k * 1))))) by ring.
  apply (derivable_pt_lim_plus (fun _ => Text) (fun y => (Tin - Text) * exp (- (k * y)))).
  - apply derivable_pt_lim_const.
  - apply (derivable_pt_lim_scal (fun y => exp (- (k * y)))).
    apply (derivable_pt_lim_comp (fun y => - (k * y)) exp).
    + apply (derivable_pt_lim_opp (fun y => k * y)).
      apply (derivable_pt_lim_scal (fun y => y)). apply derivable_pt_lim_id.
    + apply derivable_pt_lim_exp.
Qed.

Theorem documented_loss_law : forall alpha d_o cp m Text Tin x,
  cp * m <> 0 ->
  let k := alpha * PI * d_o / (cp * m) in
  exists T', derivable_pt_lim (cooling_profile Text Tin k) x T' /\
             cp * m * T' = - (alpha * PI * d_o * (cooling_profile Text Tin k x - Text)).
Proof.
  intros alpha d_o cp m Text Tin x H k.
  exists (- k * (cooling_profile Text Tin k x - Text)). split.
  - apply cooling_profile_derivative.
  - unfold k. field. split; intro E; apply H; rewrite E; ring.
Qed.

(* the outlet temperature of the spec is the profile at x = L plus lift minus extracted heat *)
Lemma spec_T_out_profile : forall alpha L d_o cp m Text Tin TL Q,
  cp * m <> 0 ->
  spec_T_out alpha L d_o cp m Text Tin TL Q =
  cooling_profile Text Tin (alpha * PI * d_o / (cp * m)) L + TL - Q / (cp * m).
Proof.
  intros. unfold spec_T_out, cooling_profile.
  replace (alpha * PI * d_o / (cp * m) * L) with (alpha * L * PI * d_o / (cp * m)) by (field; split; intro E; apply H; rewrite E; ring).
  reflexivity.
Qed.

(* energy-conserving mix of streams (m_b, T_b) into a node of temperature T *)
Fixpoint mix_residual (cp : R -> R) (T : R) (streams : list (R * R)) : R :=
  match streams with
  | [] => 0
  | (m, Tb) :: r => Rabs m * cbar cp Tb T * (Tb - T) + mix_residual cp T r
  end.
Definition spec_mixing (cp : R -> R) (T : R) (streams : list (R * R)) : Prop := mix_residual cp T streams = 0.
