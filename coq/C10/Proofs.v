(* C10 - theorems over R: generated thermal kernels (Gen/KThermNp, KThermNb), generated expression block of
   calculate_derivatives_thermal (Gen/KThermExpr), generated circulation-pump hook (Gen/KHooksHeat), composed
   with the hand model of the assembly (C10/Model, proved in C10/Assembly) into the thermal pipeline of one
   solve_temperature call. *)
From Coq Require Import Reals Lra Lia List Bool Arith ZArith String.
From PP Require Import Kern.RBool Gen.KThermNp Gen.KThermNb Gen.KThermExpr Gen.KHooksHeat C10.Spec C10.Model C10.Assembly.
Import ListNotations.
Open Scope R_scope.

(* ------------------------------------------------------------------------------------------------------------
   1. kernel level: branch residual = documented law (numpy and numba twins) *)

Definition flows (m : R) : Prop := 1 / 10000000000 < Rabs m.

Lemma flows_np m : flows m <-> branches_flow_np_flow m = true.
Proof.
  unfold flows, branches_flow_np_flow. destruct (Rleb_spec (Rabs m) (1 / 10000000000)); simpl; split; intros; try lra; try discriminate; auto.
Qed.
Lemma flows_nb m : flows m <-> branches_flow_nb_flow m = true.
Proof.
  unfold flows, branches_flow_nb_flow. cbv zeta. destruct (Rltb_spec (1 / 10000000000) (Rabs m)); split; intros; try lra; try discriminate; auto.
Qed.

Lemma fb_np_flow : forall amb al d L m Q Text TL cpb cpn nf ti ti1 tn tnt,
  flows m ->
  therm_np_fb amb al d L m Q Text TL cpb cpn nf ti ti1 tn tnt =
  spec_T_out al L d cpb (Rabs m) Text ti TL Q - ti1.
Proof.
  intros. unfold therm_np_fb, spec_T_out, flows in *. cbv zeta.
  destruct (Rleb_spec (Rabs m) (1 / 10000000000)); [lra|]. simpl.
  replace (- (al * PI * d) * L / (cpb * Rabs m)) with (- (al * L * PI * d / (cpb * Rabs m))) by (unfold Rdiv; ring).
  ring.
Qed.

Lemma fb_nb_flow : forall amb al d L m Q Text TL cpb cpn nf ti ti1 tn tnt,
  flows m ->
  therm_nb_fb amb al d L m Q Text TL cpb cpn nf ti ti1 tn tnt =
  spec_T_out al L d cpb (Rabs m) Text ti TL Q - ti1.
Proof.
  intros. unfold therm_nb_fb, spec_T_out, flows in *. cbv zeta.
  destruct (Rltb_spec (1 / 10000000000) (Rabs m)); [|lra].
  replace (- (al * PI * d) * L / (cpb * Rabs m)) with (- (al * L * PI * d / (cpb * Rabs m))) by (unfold Rdiv; ring).
  ring.
Qed.

Lemma fb_np_stagnant : forall amb al d L m Q Text TL cpb cpn nf ti ti1 tn tnt,
  ~ flows m -> therm_np_fb amb al d L m Q Text TL cpb cpn nf ti ti1 tn tnt = amb - ti1.
Proof.
  intros. unfold therm_np_fb, flows in *. cbv zeta.
  destruct (Rleb_spec (Rabs m) (1 / 10000000000)); [reflexivity|lra].
Qed.

Lemma fb_nb_stagnant : forall amb al d L m Q Text TL cpb cpn nf ti ti1 tn tnt,
  ~ flows m -> therm_nb_fb amb al d L m Q Text TL cpb cpn nf ti ti1 tn tnt = amb - ti1.
Proof.
  intros. unfold therm_nb_fb, flows in *. cbv zeta.
  destruct (Rltb_spec (1 / 10000000000) (Rabs m)); [lra|reflexivity].
Qed.

(* property clause "cooling law": the generated residual vanishes iff the outlet temperature follows the law *)
Theorem branch_cooling_law_np : forall amb al d L m Q Text TL cpb cpn nf ti ti1 tn tnt,
  (flows m ->
     (therm_np_fb amb al d L m Q Text TL cpb cpn nf ti ti1 tn tnt = 0 <->
      ti1 = spec_T_out al L d cpb (Rabs m) Text ti TL Q)) /\
  (~ flows m -> (therm_np_fb amb al d L m Q Text TL cpb cpn nf ti ti1 tn tnt = 0 <-> ti1 = amb)).
Proof.
  intros; split; intros H.
  - rewrite fb_np_flow by assumption. lra.
  - rewrite fb_np_stagnant by assumption. lra.
Qed.

Theorem branch_cooling_law_nb : forall amb al d L m Q Text TL cpb cpn nf ti ti1 tn tnt,
  (flows m ->
     (therm_nb_fb amb al d L m Q Text TL cpb cpn nf ti ti1 tn tnt = 0 <->
      ti1 = spec_T_out al L d cpb (Rabs m) Text ti TL Q)) /\
  (~ flows m -> (therm_nb_fb amb al d L m Q Text TL cpb cpn nf ti ti1 tn tnt = 0 <-> ti1 = amb)).
Proof.
  intros; split; intros H.
  - rewrite fb_nb_flow by assumption. lra.
  - rewrite fb_nb_stagnant by assumption. lra.
Qed.

(* ------------------------------------------------------------------------------------------------------------
   2. the heat capacities of calculate_derivatives_thermal *)

(* the mixing weight is the arithmetic mean of c_p at the stream outlet and at the mixing node ... *)
Theorem mixing_cp_is_mean : forall tout cp tfrom tto,
  thermexpr_cp_n tout cp tfrom tto = cbar cp tout tto.
Proof. intros. unfold thermexpr_cp_n, cbar. cbv zeta. lra. Qed.

(* ... the branch heat capacity is the same mean between inlet node and outlet, and it is get_branch_cp *)
Theorem branch_cp_is_mean : forall tout cp tfrom tto,
  thermexpr_cp_b tout cp tfrom tto = cbar cp tfrom tout /\
  thermexpr_cp_b tout cp tfrom tto = branch_cp_cp tout cp tfrom.
Proof. intros. unfold thermexpr_cp_b, branch_cp_cp, cbar. cbv zeta. split; lra. Qed.

(* the temperatures handed to the kernel: inlet = corrected from node, outlet = TOUTINIT, mix = corrected to node *)
Theorem kernel_temperatures : forall tout cp tfrom tto,
  thermexpr_t_init_i tout cp tfrom tto = tfrom /\ thermexpr_t_init_i1 tout cp tfrom tto = tout /\
  thermexpr_t_init_nt tout cp tfrom tto = tto.
Proof. intros. repeat split. Qed.

(* write-back wiring of the kernel outputs (decided by computation on the generated table) *)
Theorem kernel_wiring :
  therm_wiring_branch = [("LOAD_VEC_BRANCHES_T", "fb"); ("JAC_DERIV_DT", "dfb_dt"); ("JAC_DERIV_DTOUT", "dfb_dtout");
                         ("LOAD_VEC_NODES_TO_T", "fnt"); ("JAC_DERIV_DT_NODE", "dfnt_dt");
                         ("JAC_DERIV_DTOUT_NODE", "dfnt_dtout")]%string /\
  therm_wiring_node = [("LOAD_T", "fn"); ("JAC_DERIV_DT_N", "dfn_dt")]%string /\ therm_call_ok = true.
Proof. repeat split. Qed.

(* ------------------------------------------------------------------------------------------------------------
   3. the thermal pipeline of one solve_temperature call, as a function of the physical state *)

Record pbranch := mkPB {
  p_from : nat; p_to : nat;          (* FROM_NODE, TO_NODE as declared *)
  p_m : R;                           (* MDOTINIT (signed, from the hydraulic solution) *)
  p_tout : R;                        (* TOUTINIT *)
  p_alpha : R; p_do : R; p_len : R; p_qext : R; p_text : R; p_tl : R;
  p_ident : bool                     (* circulation pump: adaption_after_derivatives_thermal overrides the row *)
}.

Definition ksig := R -> R -> R -> R -> R -> R -> R -> R -> R -> R -> bool -> R -> R -> R -> R -> R.

Section Pipeline.
  Variable tw : bool.                (* true: numpy kernels, false: numba kernels *)
  Variable cp : R -> R.              (* fluid.get_heat_capacity *)
  Variable amb : R.                  (* option ambient_temperature *)
  Variable Tn : nat -> R.            (* node_pit[:, TINIT] *)
  Variable isT : nat -> bool.        (* node_pit[:, NODE_TYPE_T] == T *)
  Variable n : nat.                  (* number of nodes *)

  Definition kern (knp knb : ksig) : ksig := if tw then knp else knb.

  Definition p_sw (pb : pbranch) : bool := dir_switched (p_m pb).        (* solve_temperature *)
  Definition p_fnc (pb : pbranch) : nat := if p_sw pb then p_to pb else p_from pb.
  Definition p_tnc (pb : pbranch) : nat := if p_sw pb then p_from pb else p_to pb.
  Definition p_flow (pb : pbranch) : bool :=
    if tw then branches_flow_np_flow (p_m pb) else branches_flow_nb_flow (p_m pb).

  Definition kcall (k : ksig) (pb : pbranch) (nf : bool) (tn : R) : R :=
    let ti := thermexpr_t_init_i (p_tout pb) cp (Tn (p_fnc pb)) (Tn (p_tnc pb)) in
    let ti1 := thermexpr_t_init_i1 (p_tout pb) cp (Tn (p_fnc pb)) (Tn (p_tnc pb)) in
    let tnt := thermexpr_t_init_nt (p_tout pb) cp (Tn (p_fnc pb)) (Tn (p_tnc pb)) in
    let cpn := thermexpr_cp_n (p_tout pb) cp (Tn (p_fnc pb)) (Tn (p_tnc pb)) in
    let cpb := thermexpr_cp_b (p_tout pb) cp (Tn (p_fnc pb)) (Tn (p_tnc pb)) in
    k amb (p_alpha pb) (p_do pb) (p_len pb) (p_m pb) (p_qext pb) (p_text pb) (p_tl pb) cpb cpn nf ti ti1 tn tnt.

  Definition asm_branch (pb : pbranch) : @tbranch R :=
    mkTBranch (p_from pb) (p_to pb) (p_sw pb)
      (if p_ident pb then cp_at_JAC_DERIV_DT else kcall (kern therm_np_dfb_dt therm_nb_dfb_dt) pb true 0)
      (if p_ident pb then cp_at_JAC_DERIV_DTOUT else kcall (kern therm_np_dfb_dtout therm_nb_dfb_dtout) pb true 0)
      (kcall (kern therm_np_dfnt_dt therm_nb_dfnt_dt) pb true 0)
      (kcall (kern therm_np_dfnt_dtout therm_nb_dfnt_dtout) pb true 0)
      (if p_ident pb then cp_at_LOAD_VEC_BRANCHES_T else kcall (kern therm_np_fb therm_nb_fb) pb true 0)
      (kcall (kern therm_np_fnt therm_nb_fnt) pb true 0).

  Variable pbs : list pbranch.

  Definition bf : list (@tbranch R * bool) := map (fun pb => (asm_branch pb, p_flow pb)) pbs.
  Definition node_flow (i : nat) : bool := g_touches bf i.
  Definition node_infeed (i : nat) : bool := g_infeed bf i.

  (* the per-node kernel outputs do not read the per-branch inputs: they are called with dummies *)
  Definition asm_node (i : nat) : @tnode R :=
    mkTNode (kern therm_np_fn therm_nb_fn amb 0 0 0 0 0 0 0 0 0 (node_flow i) 0 0 (Tn i) 0)
            (kern therm_np_dfn_dt therm_nb_dfn_dt amb 0 0 0 0 0 0 0 0 0 (node_flow i) 0 0 (Tn i) 0)
            (node_infeed i) (isT i).

  Definition sys_nodes : list (@tnode R) := map asm_node (seq 0 n).
  Definition sys_branches : list (@tbranch R) := map asm_branch pbs.

  Definition fixed_point : Prop :=
    solves 0 1 Rplus Rmult Ropp sys_nodes sys_branches (fun _ => 0).

  (* weight of stream pb in the mixing equation of its (corrected) to node *)
  Definition stream_w (pb : pbranch) : R :=
    (if tw then (if p_flow pb then 1 else 0) else 1) * cbar cp (p_tout pb) (Tn (p_tnc pb)) * Rabs (p_m pb).

  Fixpoint mixsum (i : nat) (l : list pbranch) : R :=
    match l with
    | [] => 0
    | pb :: r => (if Nat.eqb (p_tnc pb) i then stream_w pb * (p_tout pb - Tn i) else 0) + mixsum i r
    end.

  Lemma sys_nodes_nth i : (i < n)%nat -> nth_error sys_nodes i = Some (asm_node i).
  Proof.
    intros H. unfold sys_nodes. rewrite nth_error_map, nth_error_nth' with (d := O) by (rewrite seq_length; lia).
    rewrite seq_nth by lia. reflexivity.
  Qed.

  Lemma lvnt_stream pb : b_lvnt (asm_branch pb) = stream_w pb * (p_tout pb - Tn (p_tnc pb)).
  Proof.
    unfold asm_branch, stream_w, kcall, kern, p_flow; simpl.
    rewrite mixing_cp_is_mean. unfold thermexpr_t_init_i1, thermexpr_t_init_nt.
    destruct tw.
    - unfold therm_np_fnt, branches_flow_np_flow. cbv zeta.
      destruct (Rleb (Rabs (p_m pb)) (1 / 10000000000)); simpl; ring.
    - unfold therm_nb_fnt. cbv zeta. ring.
  Qed.

  Lemma insum_mixsum i : forall l k0,
    insum 0 Rplus (@lvnt_ R) i k0 (map asm_branch l) = mixsum i l.
  Proof.
    induction l as [|pb l IH]; intros k0; [reflexivity|].
    cbn [map]. remember (asm_branch pb) as ab eqn:Eab. cbn [insum mixsum]. rewrite IH. unfold lvnt_.
    subst ab. rewrite lvnt_stream. change (tnc (asm_branch pb)) with (p_tnc pb).
    destruct (Nat.eqb_spec (p_tnc pb) i) as [->|]; reflexivity.
  Qed.

  (* property clause "energy-conserving mixing": at a fixed point of the thermal iteration every node with flow
     that is not an infeed node balances the incoming streams, weighted by |m| times the mean of c_p at stream
     outlet temperature and node temperature *)
  Theorem node_mixing_law_pipeline : forall i,
    fixed_point -> (i < n)%nat -> node_infeed i = false -> node_flow i = true -> mixsum i pbs = 0.
  Proof.
    intros i Hfp Hi Hinf Hfl.
    pose proof (fixed_point_node_row 0 1 Rplus Rmult Rminus Ropp RTheory sys_nodes sys_branches i (asm_node i)
                  Hfp (sys_nodes_nth i Hi) Hinf) as H.
    unfold sys_branches in H. rewrite insum_mixsum in H. rewrite H.
    unfold asm_node; simpl. rewrite Hfl. unfold kern. destruct tw; reflexivity.
  Qed.

  (* nodes without flow are set to the ambient temperature option *)
  Theorem stagnant_node_ambient : forall i,
    fixed_point -> (i < n)%nat -> node_infeed i = false -> node_flow i = false -> mixsum i pbs = amb - Tn i.
  Proof.
    intros i Hfp Hi Hinf Hfl.
    pose proof (fixed_point_node_row 0 1 Rplus Rmult Rminus Ropp RTheory sys_nodes sys_branches i (asm_node i)
                  Hfp (sys_nodes_nth i Hi) Hinf) as H.
    unfold sys_branches in H. rewrite insum_mixsum in H. rewrite H.
    unfold asm_node; simpl. rewrite Hfl. unfold kern. destruct tw; reflexivity.
  Qed.

  Lemma p_flow_flows pb : p_flow pb = true <-> flows (p_m pb).
  Proof. unfold p_flow. destruct tw; [symmetry; apply flows_np|symmetry; apply flows_nb]. Qed.

  (* property clause "cooling law", pipeline form: at a fixed point every flowing branch that is not a
     circulation pump has its outlet temperature on the documented law, with inlet = temperature of the
     flow-corrected from node and c_p = mean between inlet node and outlet; stagnant branches sit at ambient *)
  Theorem branch_cooling_law_pipeline : forall k pb,
    fixed_point -> nth_error pbs k = Some pb -> p_ident pb = false ->
    (p_flow pb = true ->
       p_tout pb = spec_T_out (p_alpha pb) (p_len pb) (p_do pb) (cbar cp (Tn (p_fnc pb)) (p_tout pb))
                              (Rabs (p_m pb)) (p_text pb) (Tn (p_fnc pb)) (p_tl pb) (p_qext pb)) /\
    (p_flow pb = false -> p_tout pb = amb).
  Proof.
    intros k pb Hfp Hk Hid.
    assert (Hk' : nth_error sys_branches k = Some (asm_branch pb)) by (unfold sys_branches; rewrite nth_error_map, Hk; reflexivity).
    pose proof (fixed_point_branch_row 0 1 Rplus Rmult Rminus Ropp RTheory sys_nodes sys_branches k _ Hfp Hk') as H.
    unfold asm_branch in H; simpl in H. rewrite Hid in H. unfold kcall, kern in H.
    destruct (branch_cp_is_mean (p_tout pb) cp (Tn (p_fnc pb)) (Tn (p_tnc pb))) as [Ecp _]. rewrite Ecp in H.
    unfold thermexpr_t_init_i, thermexpr_t_init_i1 in H.
    split; intros Hf.
    - apply p_flow_flows in Hf. destruct tw.
      + rewrite fb_np_flow in H by assumption. lra.
      + rewrite fb_nb_flow in H by assumption. lra.
    - assert (Hnf : ~ flows (p_m pb)) by (intros C; apply p_flow_flows in C; congruence). destruct tw.
      + rewrite fb_np_stagnant in H by assumption. lra.
      + rewrite fb_nb_stagnant in H by assumption. lra.
  Qed.

  (* property clause "fixed feeds": any solution x of the assembled system (not only a fixed point) leaves the
     temperature of every T-typed node and the outlet temperature of every circulation pump unchanged, for
     every damping factor *)
  Theorem infeed_rows_fix_temperature_pipeline : forall x alpha,
    wf sys_nodes sys_branches -> solves 0 1 Rplus Rmult Ropp sys_nodes sys_branches x ->
    (forall s, In s (t_nodes sys_nodes) -> step_T Rmult Rminus alpha Tn x s = Tn s) /\
    (forall k pb Tout, nth_error pbs k = Some pb -> p_ident pb = true ->
       step_Tout Rmult Rminus alpha (List.length sys_nodes) Tout x k = Tout k).
  Proof.
    intros x alpha Hw Hs. split.
    - intros s Hin. apply (fixed_nodes_keep_temperature 0 1 Rplus Rmult Rminus Ropp RTheory sys_nodes sys_branches x s alpha Tn Hw Hs Hin).
    - intros k pb Tout Hk Hid.
      assert (Hk' : nth_error sys_branches k = Some (asm_branch pb)) by (unfold sys_branches; rewrite nth_error_map, Hk; reflexivity).
      apply (identity_branch_keeps_outlet 0 1 Rplus Rmult Rminus Ropp RTheory sys_nodes sys_branches x k _ alpha Tout Hw Hs Hk');
        unfold asm_branch; simpl; rewrite Hid; reflexivity.
  Qed.
End Pipeline.

(* ------------------------------------------------------------------------------------------------------------
   4. direction switch at the physical level: a branch declared against the flow gives the same equations as the
      same branch declared along the flow *)

Definition reverse_decl (pb : pbranch) : pbranch :=
  mkPB (p_to pb) (p_from pb) (- p_m pb) (p_tout pb) (p_alpha pb) (p_do pb) (p_len pb) (p_qext pb) (p_text pb)
       (p_tl pb) (p_ident pb).

Lemma dir_switched_opp m : flows m -> dir_switched (- m) = negb (dir_switched m).
Proof.
  unfold flows, dir_switched, switch_threshold. intros H.
  destruct (Rltb_spec (- m) (- (1 / 50000000000))), (Rltb_spec m (- (1 / 50000000000))); simpl; auto;
    exfalso; revert H; unfold Rabs; destruct (Rcase_abs m); lra.
Qed.

Theorem direction_switch_physical : forall tw cp amb Tn pb,
  flows (p_m pb) ->
  p_fnc (reverse_decl pb) = p_fnc pb /\ p_tnc (reverse_decl pb) = p_tnc pb /\
  fnc (asm_branch tw cp amb Tn (reverse_decl pb)) = fnc (asm_branch tw cp amb Tn pb) /\
  tnc (asm_branch tw cp amb Tn (reverse_decl pb)) = tnc (asm_branch tw cp amb Tn pb) /\
  b_lvb (asm_branch tw cp amb Tn (reverse_decl pb)) = b_lvb (asm_branch tw cp amb Tn pb) /\
  b_lvnt (asm_branch tw cp amb Tn (reverse_decl pb)) = b_lvnt (asm_branch tw cp amb Tn pb).
Proof.
  intros tw cp amb Tn pb Hf.
  assert (E1 : p_fnc (reverse_decl pb) = p_fnc pb).
  { unfold p_fnc, p_sw, reverse_decl; simpl. rewrite dir_switched_opp by assumption. destruct (dir_switched (p_m pb)); reflexivity. }
  assert (E2 : p_tnc (reverse_decl pb) = p_tnc pb).
  { unfold p_tnc, p_sw, reverse_decl; simpl. rewrite dir_switched_opp by assumption. destruct (dir_switched (p_m pb)); reflexivity. }
  repeat split; auto.
  - unfold asm_branch, kcall, kern. simpl. rewrite E1, E2. simpl. destruct (p_ident pb); auto.
    destruct tw; unfold therm_np_fb, therm_nb_fb; cbv zeta; rewrite Rabs_Ropp; reflexivity.
  - unfold asm_branch, kcall, kern. simpl. rewrite E1, E2. simpl.
    destruct tw; unfold therm_np_fnt, therm_nb_fnt; cbv zeta; rewrite Rabs_Ropp; reflexivity.
Qed.

(* ------------------------------------------------------------------------------------------------------------
   5. local bounds *)

Lemma exp_neg_le_1 : forall x, 0 <= x -> 0 < exp (- x) <= 1.
Proof.
  intros x Hx. split; [apply exp_pos|].
  destruct (Rle_lt_or_eq_dec 0 x Hx) as [H|<-].
  - left. rewrite <- exp_0. apply exp_increasing. lra.
  - rewrite Ropp_0, exp_0. lra.
Qed.

(* no heat source on the branch (Q = 0, TL = 0), non-negative loss coefficient: the outlet temperature of a
   flowing branch lies between its inlet temperature and the temperature of its surroundings *)
Theorem branch_local_bounds : forall al L d cpb m Text Tin Tout,
  0 <= al -> 0 <= L -> 0 <= d -> 0 < cpb -> 0 < m ->
  Tout = spec_T_out al L d cpb m Text Tin 0 0 ->
  Rmin Tin Text <= Tout <= Rmax Tin Text.
Proof.
  intros al L d cpb m Text Tin Tout Ha HL Hd Hc Hm ->. unfold spec_T_out.
  assert (Hx : 0 <= al * L * PI * d / (cpb * m)).
  { apply Rmult_le_pos; [|left; apply Rinv_0_lt_compat; apply Rmult_lt_0_compat; assumption].
    pose proof PI_RGT_0. apply Rmult_le_pos; [apply Rmult_le_pos; [apply Rmult_le_pos|]|]; lra. }
  destruct (exp_neg_le_1 _ Hx) as [H0 H1].
  set (E := exp (- (al * L * PI * d / (cpb * m)))) in *.
  unfold Rmin, Rmax. replace (0 / (cpb * m)) with 0 by (unfold Rdiv; ring).
  destruct (Rle_dec Tin Text); split; nra.
Qed.

Fixpoint wsum (l : list (R * R)) : R := match l with [] => 0 | (w, _) :: r => w + wsum r end.
Fixpoint wres (T : R) (l : list (R * R)) : R :=
  match l with [] => 0 | (w, t) :: r => w * (t - T) + wres T r end.

Lemma wres_bounds : forall lo hi T l,
  Forall (fun wt => 0 <= fst wt /\ lo <= snd wt <= hi) l ->
  (lo - T) * wsum l <= wres T l <= (hi - T) * wsum l.
Proof.
  intros lo hi T l H. induction H as [|[w t] l [Hw Ht] _ IH]; simpl in *; [lra|]. nra.
Qed.

(* a node whose mixing equation holds with non-negative weights, not all zero, has a temperature between the
   coldest and the warmest of its inflows - for any number of inflows *)
Theorem node_local_bounds : forall lo hi T l,
  Forall (fun wt => 0 <= fst wt /\ lo <= snd wt <= hi) l -> 0 < wsum l -> wres T l = 0 ->
  lo <= T <= hi.
Proof.
  intros lo hi T l H Hpos Hres. pose proof (wres_bounds lo hi T l H) as [H1 H2]. rewrite Hres in *. split; nra.
Qed.

(* the pipeline's mixing sum is such a weighted residual: weights |m| * cbar (>= 0 when c_p >= 0) *)
Definition streams_of tw cp Tn i (l : list pbranch) : list (R * R) :=
  map (fun pb => (stream_w tw cp Tn pb, p_tout pb)) (filter (fun pb => Nat.eqb (p_tnc pb) i) l).

Lemma mixsum_wres tw cp Tn i l : mixsum tw cp Tn i l = wres (Tn i) (streams_of tw cp Tn i l).
Proof.
  unfold streams_of. induction l as [|pb l IH]; simpl; [reflexivity|].
  destruct (Nat.eqb (p_tnc pb) i); simpl; rewrite IH; ring.
Qed.

Lemma stream_w_nonneg tw cp Tn pb : (forall t, 0 <= cp t) -> 0 <= stream_w tw cp Tn pb.
Proof.
  intros Hcp. unfold stream_w, cbar.
  assert (0 <= (cp (p_tout pb) + cp (Tn (p_tnc pb))) / 2) by (pose proof (Hcp (p_tout pb)); pose proof (Hcp (Tn (p_tnc pb))); lra).
  pose proof (Rabs_pos (p_m pb)).
  destruct tw; [destruct (p_flow true pb)|]; repeat apply Rmult_le_pos; lra.
Qed.

Theorem node_temperature_between_inflows : forall tw cp amb Tn isT n pbs i lo hi,
  (forall t, 0 <= cp t) ->
  fixed_point tw cp amb Tn isT n pbs -> (i < n)%nat ->
  node_infeed tw cp amb Tn pbs i = false -> node_flow tw cp amb Tn pbs i = true ->
  Forall (fun pb => p_tnc pb = i -> lo <= p_tout pb <= hi) pbs ->
  0 < wsum (streams_of tw cp Tn i pbs) ->
  lo <= Tn i <= hi.
Proof.
  intros tw cp amb Tn isT n pbs i lo hi Hcp Hfp Hi Hinf Hfl Hb Hpos.
  apply (node_local_bounds lo hi (Tn i) (streams_of tw cp Tn i pbs)); auto.
  - unfold streams_of. apply Forall_forall. intros [w t] Hin. apply in_map_iff in Hin.
    destruct Hin as [pb [E Hin]]. inversion E; subst. apply filter_In in Hin. destruct Hin as [Hin Heq].
    simpl. split; [apply stream_w_nonneg; assumption|].
    rewrite Forall_forall in Hb. apply (Hb pb Hin). now apply Nat.eqb_eq.
  - rewrite <- mixsum_wres. eapply node_mixing_law_pipeline; eauto.
Qed.
