(* C10 - proofs about the assembled thermal system (generic commutative ring; instantiates at Z and R;
   closed under the global context). *)
From Coq Require Import ZArith List Bool Arith Lia Ring.
From PP Require Import C10.Model.
Import ListNotations.

Section Proofs.
  Context {A : Type} (zero one : A) (add mul sub : A -> A -> A) (opp : A -> A)
          (Rth : ring_theory zero one add mul sub opp eq).
  Add Ring Aring : Rth.

  Notation "0" := zero.
  Notation "1" := one.
  Infix "+" := add.
  Infix "*" := mul.
  Infix "-" := sub.
  Notation "- x" := (opp x).

  Notation tnode := (@tnode A).
  Notation tbranch := (@tbranch A).
  Notation trip := (@trip A).
  Notation rowsum := (rowsum zero add mul).
  Notation insum := (insum zero add).
  Notation trips := (trips one).
  Notation eps := (eps zero add opp).
  Notation eps_nodes := (eps_nodes zero add opp).
  Notation solves := (solves zero one add mul opp).
  Notation fixed_trips := (fixed_trips one).

  (* ------------------------------------------------------------------ generic list facts *)
  Lemma mapi_length {X Y} (f : nat -> X -> Y) k0 l : length (mapi f k0 l) = length l.
  Proof. revert k0; induction l; simpl; intros; auto. Qed.

  Lemma mapi_nth_error {X Y} (f : nat -> X -> Y) l : forall k0 i,
    nth_error (mapi f k0 l) i = option_map (f (k0 + i)%nat) (nth_error l i).
  Proof.
    induction l as [|a l IH]; intros k0 i; destruct i; simpl; auto.
    - now rewrite Nat.add_0_r.
    - rewrite IH. now replace (S k0 + i)%nat with (k0 + S i)%nat by lia.
  Qed.

  Lemma mapi_ext {X Y} (f g : nat -> X -> Y) l : (forall i x, f i x = g i x) ->
    forall k0, mapi f k0 l = mapi g k0 l.
  Proof. intros H. induction l; intros k0; simpl; auto. now rewrite H, IHl. Qed.

  Lemma nth_of_nth_error (l : list A) i v : nth_error l i = Some v -> nth i l 0 = v.
  Proof. revert i; induction l; destruct i; simpl; intros; try discriminate; auto. now inversion H. Qed.

  Lemma positions_spec {X} (p : X -> bool) l : forall k0 s,
    In s (positions p k0 l) <->
    (k0 <= s)%nat /\ exists x, nth_error l (s - k0) = Some x /\ p x = true.
  Proof.
    induction l as [|a l IH]; intros k0 s; simpl.
    - split; [tauto|]. intros [_ [x [H _]]]. destruct (s - k0)%nat; discriminate.
    - rewrite in_app_iff, IH. split.
      + intros [H|[H1 [x [H2 H3]]]].
        * destruct (p a) eqn:E; simpl in H; [|tauto]. destruct H as [<-|[]].
          split; [lia|]. exists a. now rewrite Nat.sub_diag.
        * split; [lia|]. exists x. replace (s - k0)%nat with (S (s - S k0)) by lia. auto.
      + intros [H1 [x [H2 H3]]]. destruct (Nat.eq_dec s k0) as [->|Hne].
        * left. rewrite Nat.sub_diag in H2. simpl in H2. inversion H2; subst. rewrite H3. now left.
        * right. split; [lia|]. exists x. replace (s - k0)%nat with (S (s - S k0)) in H2 by lia. auto.
  Qed.

  Lemma positions_lt {X} (p : X -> bool) l k0 s : In s (positions p k0 l) -> (s < k0 + length l)%nat.
  Proof.
    intros H. apply positions_spec in H. destruct H as [H1 [x [H2 _]]].
    assert (s - k0 < length l)%nat by (apply nth_error_Some; congruence). lia.
  Qed.

  Lemma positions_ge {X} (p : X -> bool) l k0 s : In s (positions p k0 l) -> (k0 <= s)%nat.
  Proof. intros H. apply positions_spec in H. tauto. Qed.

  Lemma positions_NoDup {X} (p : X -> bool) l : forall k0, NoDup (positions p k0 l).
  Proof.
    induction l as [|a l IH]; intros k0; simpl; [constructor|].
    destruct (p a); simpl; [|apply IH]. constructor; [|apply IH].
    intros H. apply positions_ge in H. lia.
  Qed.

  Lemma infeed_nodes_spec (ns : list tnode) s : In s (infeed_nodes ns) <-> infeed_of ns s = true.
  Proof.
    unfold infeed_nodes, infeed_of. rewrite positions_spec, Nat.sub_0_r. split.
    - intros [_ [x [-> H]]]. exact H.
    - intros H. split; [lia|]. destruct (nth_error ns s) as [nd|]; [|discriminate]. eauto.
  Qed.

  (* ------------------------------------------------------------------ rowsum algebra *)
  Lemma rowsum_app (t1 t2 : list trip) r x : rowsum (t1 ++ t2) r x = rowsum t1 r x + rowsum t2 r x.
  Proof.
    induction t1 as [|[[r' c] v] t1 IH]; simpl; [ring|].
    destruct (Nat.eqb r' r); rewrite IH; ring.
  Qed.

  Lemma rowsum_other (t : list trip) r x :
    Forall (fun tr => fst (fst tr) <> r) t -> rowsum t r x = 0.
  Proof.
    induction 1 as [|[[r' c] v] t H _ IH]; simpl; auto. simpl in H.
    destruct (Nat.eqb_spec r' r); [contradiction|auto].
  Qed.

  (* branch rows *)
  Lemma branch_trips_rows n (bs : list tbranch) : forall k0,
    Forall (fun tr : trip => (n + k0 <= fst (fst tr) < n + k0 + length bs)%nat) (branch_trips n k0 bs).
  Proof.
    induction bs as [|b bs IH]; intros k0; simpl; constructor; [|constructor]; simpl; try lia.
    eapply Forall_impl; [|apply IH]. simpl. intros; lia.
  Qed.

  Lemma branch_trips_rowsum n x (bs : list tbranch) : forall k0 k b,
    nth_error bs k = Some b ->
    rowsum (branch_trips n k0 bs) (n + k0 + k) x = b_jdt b * x (fnc b) + b_jdtout b * x (n + k0 + k)%nat.
  Proof.
    induction bs as [|b0 bs IH]; intros k0 k b H; [destruct k; discriminate|].
    destruct k as [|k]; simpl in H.
    - inversion H; subst. simpl. rewrite Nat.add_0_r, Nat.eqb_refl.
      rewrite (rowsum_other (branch_trips n (S k0) bs)); [ring|].
      eapply Forall_impl; [|apply branch_trips_rows]. simpl. intros; lia.
    - simpl. destruct (Nat.eqb_spec (n + k0) (n + k0 + S k)); [lia|].
      replace (n + k0 + S k)%nat with (n + S k0 + k)%nat by lia. now apply IH.
  Qed.

  Lemma to_trips_rows (ns : list tnode) n (bs : list tbranch) : forall k0,
    Forall (fun tr : trip => exists b, In b bs /\ fst (fst tr) = tnc b /\ infeed_of ns (tnc b) = false)
           (to_trips ns n k0 bs).
  Proof.
    induction bs as [|b bs IH]; intros k0; simpl; [constructor|].
    apply Forall_app. split.
    - destruct (infeed_of ns (tnc b)) eqn:E; [constructor|].
      constructor; [|constructor; [|constructor]]; exists b; simpl; auto.
    - eapply Forall_impl; [|apply IH]. intros tr [b' [H1 H2]]. exists b'. simpl. tauto.
  Qed.

  Lemma node_trips_rows (ns : list tnode) : forall k0,
    Forall (fun tr : trip => (k0 <= fst (fst tr) < k0 + length ns)%nat /\
                             exists nd, nth_error ns (fst (fst tr) - k0) = Some nd /\ n_infeed nd = false)
           (node_trips k0 ns).
  Proof.
    induction ns as [|nd ns IH]; intros k0; simpl; [constructor|].
    apply Forall_app. split.
    - destruct (n_infeed nd) eqn:E; constructor; [|constructor]. simpl. split; [lia|].
      exists nd. rewrite Nat.sub_diag. auto.
    - eapply Forall_impl; [|apply IH]. intros tr [H1 [nd' [H2 H3]]]. split; [simpl; lia|].
      exists nd'. replace (fst (fst tr) - k0)%nat with (S (fst (fst tr) - S k0)) by lia. auto.
  Qed.

  Lemma fixed_trips_rows (ns : list tnode) :
    Forall (fun tr : trip => infeed_of ns (fst (fst tr)) = true) (fixed_trips ns).
  Proof.
    unfold Model.fixed_trips. apply Forall_forall. intros tr H. apply in_map_iff in H.
    destruct H as [[r c] [<- H]]. simpl. apply in_combine_l in H. now apply infeed_nodes_spec.
  Qed.

  Definition in_range (ns : list tnode) (bs : list tbranch) : Prop :=
    Forall (fun b => (b_from b < length ns)%nat /\ (b_to b < length ns)%nat) bs.

  Lemma tnc_lt (ns : list tnode) bs b : in_range ns bs -> In b bs -> (tnc b < length ns)%nat.
  Proof.
    intros H Hin. unfold in_range in H. rewrite Forall_forall in H. specialize (H b Hin).
    unfold tnc. destruct (b_sw b); tauto.
  Qed.

  (* row n+k of the system: the branch equation of the k-th branch, with the corrected from node *)
  Theorem row_branch (ns : list tnode) (bs : list tbranch) x k b :
    in_range ns bs -> nth_error bs k = Some b ->
    rowsum (trips ns bs) (length ns + k) x = b_jdt b * x (fnc b) + b_jdtout b * x (length ns + k)%nat.
  Proof.
    intros Hr Hk. unfold Model.trips. rewrite !rowsum_app.
    pose proof (branch_trips_rowsum (length ns) x bs 0 k b Hk) as H. rewrite !Nat.add_0_r in H. rewrite H.
    rewrite (rowsum_other (to_trips ns _ _ _)), (rowsum_other (node_trips _ _)), (rowsum_other (fixed_trips _)); [ring| | |].
    - eapply Forall_impl; [|apply fixed_trips_rows]. intros tr Ht E. cbv beta in Ht. rewrite E in Ht.
      unfold infeed_of in Ht. destruct (nth_error ns (length ns + k)) eqn:E2; [|discriminate].
      assert (length ns + k < length ns)%nat by (apply nth_error_Some; congruence). lia.
    - eapply Forall_impl; [|apply node_trips_rows]. intros tr Ht E. cbv beta in Ht. destruct Ht as [Ht _]. simpl in Ht. lia.
    - eapply Forall_impl; [|apply to_trips_rows]. intros tr Ht0 E. cbv beta in Ht0. destruct Ht0 as [b' [Hin [Ht _]]].
      pose proof (tnc_lt ns bs b' Hr Hin). lia.
  Qed.

  (* node rows *)
  Lemma to_trips_rowsum (ns : list tnode) n x i (bs : list tbranch) : forall k0,
    infeed_of ns i = false ->
    rowsum (to_trips ns n k0 bs) i x =
    insum (fun k b => b_jdtn b * x i + b_jdtoutn b * x (n + k)%nat) i k0 bs.
  Proof.
    intros k0 Hi. revert k0. induction bs as [|b bs IH]; intros k0; simpl; [ring|].
    rewrite rowsum_app, IH.
    destruct (Nat.eqb_spec (tnc b) i) as [E|E].
    - rewrite E, Hi. simpl. rewrite Nat.eqb_refl. ring.
    - destruct (infeed_of ns (tnc b)); simpl.
      + ring.
      + destruct (Nat.eqb_spec (tnc b) i); [contradiction|]. ring.
  Qed.

  Lemma node_trips_rowsum x (ns : list tnode) : forall k0 i nd,
    nth_error ns i = Some nd ->
    rowsum (node_trips k0 ns) (k0 + i) x = if n_infeed nd then 0 else n_jdtn nd * x (k0 + i)%nat.
  Proof.
    induction ns as [|nd0 ns IH]; intros k0 i nd H; [destruct i; discriminate|].
    simpl. rewrite rowsum_app. destruct i as [|i]; simpl in H.
    - inversion H; subst. rewrite Nat.add_0_r.
      rewrite (rowsum_other (node_trips (S k0) ns)).
      + destruct (n_infeed nd); simpl; [ring|]. rewrite Nat.eqb_refl. ring.
      + eapply Forall_impl; [|apply node_trips_rows]. intros tr [Ht _]. simpl in Ht. lia.
    - replace (k0 + S i)%nat with (S k0 + i)%nat by lia. rewrite (IH (S k0) i nd H).
      destruct (n_infeed nd0); simpl; [ring|].
      match goal with |- context [Nat.eqb ?a ?b] => destruct (Nat.eqb_spec a b); [lia|] end. ring.
  Qed.

  (* row i of a node that is not an infeed node: its own derivative plus, for every branch whose corrected
     to node is i, the two mixing derivatives *)
  Theorem row_node (ns : list tnode) (bs : list tbranch) x i nd :
    nth_error ns i = Some nd -> n_infeed nd = false ->
    rowsum (trips ns bs) i x =
    n_jdtn nd * x i + insum (fun k b => b_jdtn b * x i + b_jdtoutn b * x (length ns + k)%nat) i 0 bs.
  Proof.
    intros Hn Hi. unfold Model.trips. rewrite !rowsum_app.
    assert (Hinf : infeed_of ns i = false) by (unfold infeed_of; now rewrite Hn).
    rewrite (to_trips_rowsum ns (length ns) x i bs 0 Hinf).
    pose proof (node_trips_rowsum x ns 0 i nd Hn) as H. simpl in H. rewrite H, Hi.
    rewrite (rowsum_other (branch_trips _ _ _)), (rowsum_other (fixed_trips _)); [ring| |].
    - eapply Forall_impl; [|apply fixed_trips_rows]. intros tr Ht E. cbv beta in Ht. rewrite E in Ht. congruence.
    - eapply Forall_impl; [|apply branch_trips_rows]. intros tr Ht E. cbv beta in Ht. simpl in Ht.
      assert (i < length ns)%nat by (apply nth_error_Some; congruence). lia.
  Qed.

  (* infeed rows *)
  Lemma combine_rowsum (l1 l2 : list nat) x r : NoDup l1 -> forall j s,
    nth_error l1 j = Some r -> nth_error l2 j = Some s ->
    rowsum (map (fun rc : nat * nat => (fst rc, snd rc, 1)) (combine l1 l2)) r x = x s.
  Proof.
    intros Hnd. revert l2. induction Hnd as [|a l1 Hnot Hnd IH]; intros l2 j s H1 H2; [destruct j; discriminate|].
    destruct l2 as [|c l2]; [destruct j; discriminate|].
    destruct j as [|j]; simpl in H1, H2.
    - inversion H1; inversion H2; subst. simpl. rewrite Nat.eqb_refl.
      rewrite rowsum_other; [ring|]. apply Forall_forall. intros tr Hin. apply in_map_iff in Hin.
      destruct Hin as [[r' c'] [<- Hin]]. simpl. apply in_combine_l in Hin. intros ->. contradiction.
    - simpl. destruct (Nat.eqb_spec a r) as [->|Hne].
      + exfalso. apply Hnot. eapply nth_error_In; eauto.
      + eapply IH; eauto.
  Qed.

  (* row of the j-th infeed node: 1 * x(j-th T-typed node) *)
  Theorem row_infeed (ns : list tnode) (bs : list tbranch) x j r s :
    in_range ns bs ->
    nth_error (infeed_nodes ns) j = Some r -> nth_error (t_nodes ns) j = Some s ->
    rowsum (trips ns bs) r x = x s.
  Proof.
    intros Hr H1 H2. unfold Model.trips. rewrite !rowsum_app.
    assert (Hinf : infeed_of ns r = true) by (apply infeed_nodes_spec; eapply nth_error_In; eauto).
    assert (Hlt : (r < length ns)%nat).
    { unfold infeed_of in Hinf. destruct (nth_error ns r) eqn:E; [|discriminate]. apply nth_error_Some. congruence. }
    unfold Model.fixed_trips.
    rewrite (combine_rowsum (infeed_nodes ns) (t_nodes ns) x r (positions_NoDup _ _ _) j s H1 H2).
    rewrite (rowsum_other (branch_trips _ _ _)), (rowsum_other (to_trips _ _ _ _)), (rowsum_other (node_trips _ _)); [ring| | |].
    - eapply Forall_impl; [|apply node_trips_rows]. intros tr Ht0 E. cbv beta in Ht0. destruct Ht0 as [Ht [nd [Hn Hf]]]. rewrite Nat.sub_0_r, E in Hn.
      unfold infeed_of in Hinf. rewrite Hn in Hinf. congruence.
    - eapply Forall_impl; [|apply to_trips_rows]. intros tr Ht0 E. cbv beta in Ht0. destruct Ht0 as [b [_ [Ht Hf]]]. rewrite <- Ht, E in Hf. congruence.
    - eapply Forall_impl; [|apply branch_trips_rows]. intros tr Ht E. cbv beta in Ht. simpl in Ht. lia.
  Qed.

  (* ------------------------------------------------------------------ load vector *)
  Theorem eps_node (ns : list tnode) (bs : list tbranch) i nd :
    nth_error ns i = Some nd ->
    nth i (eps ns bs) 0 = if n_infeed nd then 0 else - n_loadt nd + insum (lvnt_) i 0 bs.
  Proof.
    intros H. unfold Model.eps. rewrite app_nth1.
    - apply nth_of_nth_error. unfold Model.eps_nodes. rewrite mapi_nth_error, H. reflexivity.
    - unfold Model.eps_nodes. rewrite mapi_length. apply nth_error_Some. congruence.
  Qed.

  Theorem eps_branch (ns : list tnode) (bs : list tbranch) k b :
    nth_error bs k = Some b -> nth (length ns + k) (eps ns bs) 0 = b_lvb b.
  Proof.
    intros H. unfold Model.eps. rewrite app_nth2; unfold Model.eps_nodes; rewrite mapi_length; [|lia].
    replace (length ns + k - length ns)%nat with k by lia.
    apply nth_of_nth_error. rewrite nth_error_map, H. reflexivity.
  Qed.

  (* ------------------------------------------------------------------ consequences for any solution *)
  (* T-typed nodes: under any solution of the linear system the increment of every T-typed node is zero
     (as many infeed nodes as T-typed nodes: check_infeed_number) *)
  Theorem fixed_nodes_increment_zero (ns : list tnode) (bs : list tbranch) x s :
    wf ns bs -> solves ns bs x -> In s (t_nodes ns) -> x s = 0.
  Proof.
    intros [Hlen Hr] Hs Hin. apply In_nth_error in Hin. destruct Hin as [j Hj].
    assert (Hjl : (j < length (infeed_nodes ns))%nat) by (rewrite Hlen; apply nth_error_Some; congruence).
    destruct (nth_error (infeed_nodes ns) j) as [r|] eqn:Er; [|apply nth_error_None in Er; lia].
    rewrite <- (row_infeed ns bs x j r s Hr Er Hj).
    assert (Hinf : infeed_of ns r = true) by (apply infeed_nodes_spec; eapply nth_error_In; eauto).
    unfold infeed_of in Hinf. destruct (nth_error ns r) as [nd|] eqn:En; [|discriminate].
    assert (Hlt : (r < length ns)%nat) by (apply nth_error_Some; congruence).
    rewrite (Hs r); [|unfold dim; lia]. rewrite (eps_node ns bs r nd En), Hinf. reflexivity.
  Qed.

  (* ... hence the update of solve_temperature leaves their temperature unchanged, for every damping alpha *)
  Theorem fixed_nodes_keep_temperature (ns : list tnode) (bs : list tbranch) x s alpha (T : nat -> A) :
    wf ns bs -> solves ns bs x -> In s (t_nodes ns) -> step_T mul sub alpha T x s = T s.
  Proof.
    intros Hw Hs Hin. unfold step_T. rewrite (fixed_nodes_increment_zero ns bs x s Hw Hs Hin). ring.
  Qed.

  (* a branch with an identity row (JAC_DERIV_DT = 0, JAC_DERIV_DTOUT = 1, load 0: circulation pumps,
     QE_TR heat consumers) keeps its outlet temperature *)
  Theorem identity_branch_keeps_outlet (ns : list tnode) (bs : list tbranch) x k b alpha (Tout : nat -> A) :
    wf ns bs -> solves ns bs x -> nth_error bs k = Some b ->
    b_jdt b = 0 -> b_jdtout b = 1 -> b_lvb b = 0 ->
    step_Tout mul sub alpha (length ns) Tout x k = Tout k.
  Proof.
    intros [_ Hr] Hs Hk H1 H2 H3. unfold step_Tout.
    assert (Hlt : (k < length bs)%nat) by (apply nth_error_Some; congruence).
    pose proof (Hs (length ns + k)%nat) as E. unfold dim in E. specialize (E ltac:(lia)).
    rewrite (row_branch ns bs x k b Hr Hk), (eps_branch ns bs k b Hk), H1, H2, H3 in E.
    assert (Hx : x (length ns + k)%nat = 0) by (rewrite <- E; ring).
    rewrite Hx. ring.
  Qed.

  (* x = 0 solves the system iff the load vector vanishes (fixed point of the iteration) *)
  Lemma rowsum_zero (t : list trip) r : rowsum t r (fun _ => 0) = 0.
  Proof. induction t as [|[[r' c] v] t IH]; simpl; auto. destruct (Nat.eqb r' r); rewrite ?IH; ring. Qed.

  Theorem fixed_point_load_zero (ns : list tnode) (bs : list tbranch) :
    solves ns bs (fun _ => 0) <-> forall r, (r < dim ns bs)%nat -> nth r (eps ns bs) 0 = 0.
  Proof.
    unfold Model.solves. split; intros H r Hr; specialize (H r Hr); rewrite rowsum_zero in *; auto.
  Qed.

  (* at a fixed point every node row that is not an infeed row reads: sum of the incoming LOAD_VEC_NODES_TO_T
     = LOAD_T *)
  Theorem fixed_point_node_row (ns : list tnode) (bs : list tbranch) i nd :
    solves ns bs (fun _ => 0) -> nth_error ns i = Some nd -> n_infeed nd = false ->
    insum lvnt_ i 0 bs = n_loadt nd.
  Proof.
    intros Hs Hn Hi. pose proof (proj1 (fixed_point_load_zero ns bs) Hs) as Hz. clear Hs. rename Hz into Hs.
    assert (Hlt : (i < length ns)%nat) by (apply nth_error_Some; congruence).
    specialize (Hs i ltac:(unfold dim; lia)). rewrite (eps_node ns bs i nd Hn), Hi in Hs.
    transitivity ((- n_loadt nd + insum lvnt_ i 0 bs) + n_loadt nd); [ring|]. rewrite Hs. ring.
  Qed.

  Theorem fixed_point_branch_row (ns : list tnode) (bs : list tbranch) k b :
    solves ns bs (fun _ => 0) -> nth_error bs k = Some b -> b_lvb b = 0.
  Proof.
    intros Hs Hk. pose proof (proj1 (fixed_point_load_zero ns bs) Hs) as Hz. clear Hs. rename Hz into Hs.
    assert (Hlt : (k < length bs)%nat) by (apply nth_error_Some; congruence).
    specialize (Hs (length ns + k)%nat ltac:(unfold dim; lia)). now rewrite (eps_branch ns bs k b Hk) in Hs.
  Qed.

  (* Newton step with frozen coefficients: for any solution x, node i (not infeed) satisfies
     sum_in (lvnt_b - jdtn_b x_i - jdtoutn_b x_(n+k)) = loadt_i + jdtn_i x_i *)
  Lemma insum_add (f g : nat -> tbranch -> A) i (bs : list tbranch) : forall k0,
    insum (fun k b => f k b + g k b) i k0 bs = insum f i k0 bs + insum g i k0 bs.
  Proof.
    induction bs as [|b bs IH]; intros k0; simpl; [ring|]. rewrite IH.
    destruct (Nat.eqb (tnc b) i); ring.
  Qed.

  Lemma insum_opp (f : nat -> tbranch -> A) i (bs : list tbranch) : forall k0,
    insum (fun k b => - f k b) i k0 bs = - insum f i k0 bs.
  Proof.
    induction bs as [|b bs IH]; intros k0; simpl; [ring|]. rewrite IH.
    destruct (Nat.eqb (tnc b) i); ring.
  Qed.

  Lemma insum_ext (f g : nat -> tbranch -> A) i (bs : list tbranch) : forall k0,
    (forall k b, nth_error bs k = Some b -> tnc b = i -> f (k0 + k)%nat b = g (k0 + k)%nat b) ->
    insum f i k0 bs = insum g i k0 bs.
  Proof.
    induction bs as [|b bs IH]; intros k0 H; simpl; auto.
    rewrite (IH (S k0)).
    - destruct (Nat.eqb_spec (tnc b) i); auto. specialize (H 0%nat b eq_refl e). rewrite Nat.add_0_r in H. now rewrite H.
    - intros k b' Hk Ht. specialize (H (S k) b' Hk Ht). now replace (k0 + S k)%nat with (S k0 + k)%nat in H by lia.
  Qed.

  Theorem newton_step_node_row (ns : list tnode) (bs : list tbranch) x i nd :
    solves ns bs x -> nth_error ns i = Some nd -> n_infeed nd = false ->
    insum (fun k b => b_lvnt b - (b_jdtn b * x i + b_jdtoutn b * x (length ns + k)%nat)) i 0 bs
    = n_loadt nd + n_jdtn nd * x i.
  Proof.
    intros Hs Hn Hi.
    assert (Hlt : (i < length ns)%nat) by (apply nth_error_Some; congruence).
    pose proof (Hs i ltac:(unfold dim; lia)) as E.
    rewrite (row_node ns bs x i nd Hn Hi), (eps_node ns bs i nd Hn), Hi in E.
    transitivity (insum lvnt_ i 0 bs
                  + - insum (fun k b => b_jdtn b * x i + b_jdtoutn b * x (length ns + k)%nat) i 0 bs).
    - rewrite <- insum_opp, <- insum_add. apply insum_ext. intros. unfold lvnt_. ring.
    - set (S1 := insum lvnt_ i 0 bs) in *.
      set (S2 := insum (fun k b => b_jdtn b * x i + b_jdtoutn b * x (length ns + k)%nat) i 0 bs) in *.
      transitivity ((- n_loadt nd + S1) - (n_jdtn nd * x i + S2) + (n_loadt nd + n_jdtn nd * x i)); [ring|].
      rewrite E. ring.
  Qed.

  (* ------------------------------------------------------------------ direction switch *)
  (* every row uses the corrected nodes: declaring a branch the other way round and flipping its switch flag
     gives the identical system *)
  Definition redeclare (b : tbranch) : tbranch :=
    mkTBranch (b_to b) (b_from b) (negb (b_sw b)) (b_jdt b) (b_jdtout b) (b_jdtn b) (b_jdtoutn b) (b_lvb b) (b_lvnt b).

  Lemma fnc_redeclare b : fnc (redeclare b) = fnc b.
  Proof. unfold fnc, redeclare; simpl. destruct (b_sw b); reflexivity. Qed.
  Lemma tnc_redeclare b : tnc (redeclare b) = tnc b.
  Proof. unfold tnc, redeclare; simpl. destruct (b_sw b); reflexivity. Qed.

  Theorem system_invariant_under_redeclaration (ns : list tnode) (bs : list tbranch) (sel : tbranch -> bool) :
    let bs' := map (fun b => if sel b then redeclare b else b) bs in
    trips ns bs' = trips ns bs /\ eps ns bs' = eps ns bs.
  Proof.
    intros bs'. unfold bs'. clear bs'.
    assert (Hf : forall b, fnc (if sel b then redeclare b else b) = fnc b) by (intros; destruct (sel b); auto using fnc_redeclare).
    assert (Ht : forall b, tnc (if sel b then redeclare b else b) = tnc b) by (intros; destruct (sel b); auto using tnc_redeclare).
    assert (Hc : forall b, let b' := (if sel b then redeclare b else b) in
              b_jdt b' = b_jdt b /\ b_jdtout b' = b_jdtout b /\ b_jdtn b' = b_jdtn b /\ b_jdtoutn b' = b_jdtoutn b
              /\ b_lvb b' = b_lvb b /\ b_lvnt b' = b_lvnt b) by (intros; destruct (sel b); simpl; auto 10).
    split.
    - unfold Model.trips. f_equal; [|f_equal].
      + generalize 0%nat. induction bs as [|b bs IH]; intros k0; simpl; auto.
        destruct (Hc b) as [-> [-> _]]. rewrite Hf, IH. reflexivity.
      + generalize 0%nat. induction bs as [|b bs IH]; intros k0; simpl; auto.
        destruct (Hc b) as [_ [_ [-> [-> _]]]]. rewrite Ht, IH. reflexivity.
    - unfold Model.eps. f_equal.
      + unfold Model.eps_nodes. apply mapi_ext. intros i nd. destruct (n_infeed nd); auto. f_equal.
        generalize 0%nat. induction bs as [|b bs IHb]; intros j0; simpl; auto.
        rewrite Ht, IHb. unfold lvnt_. destruct (Hc b) as [_ [_ [_ [_ [_ ->]]]]]. reflexivity.
      + rewrite map_map. apply map_ext. intros b. destruct (Hc b) as [_ [_ [_ [_ [-> _]]]]]. reflexivity.
  Qed.
End Proofs.
