(* C09 - reverse_branch for the thermal calculation (T-tie).
   Gen/KThermNp(Nb).v = derivatives_thermal_np / _numba (steady state), Gen/KTSwitch.v = the direction switch
   FROM_NODE_T_SWITCHED := MDOTINIT < -2e-11 and get_from/to_nodes_corrected.
   A branch declared the other way round (node columns exchanged, flow negated) is fed with the same corrected inlet /
   outlet-node temperatures whenever it carries flow, and every branch output of the kernel is unchanged. *)
From Coq Require Import Reals Bool Lra.
From PP Require Import Kern.RBool Gen.KThermNp Gen.KThermNb Gen.KTSwitch.
Open Scope R_scope.

(* inlet temperature the kernel is fed with, for a branch (T_from_node, T_to_node, m) *)
Definition t_inlet (Tf Tt m : R) : R := corrected_from (t_switched m) Tf Tt.
Definition t_outnode (Tf Tt m : R) : R := corrected_to (t_switched m) Tf Tt.

(* with flow (|m| above the no-flow threshold of the kernel, which is above the switch threshold) the reversed
   description reads the same physical nodes *)
Lemma corrected_nodes_reversed : forall Tf Tt m, 1 / 10000000000 < Rabs m ->
  t_inlet Tt Tf (- m) = t_inlet Tf Tt m /\ t_outnode Tt Tf (- m) = t_outnode Tf Tt m.
Proof.
  intros Tf Tt m Hm. unfold t_inlet, t_outnode, corrected_from, corrected_to, t_switched, t_switch_threshold.
  unfold Rabs in Hm. destruct (Rcase_abs m) as [Hn|Hp];
  destruct (Rltb_spec (- m) ((- 1) / 50000000000)); destruct (Rltb_spec m ((- 1) / 50000000000));
  try (split; reflexivity); lra.
Qed.

(* numpy kernel: all six branch outputs, for every m (without flow the outputs do not look at the inlet at all) *)
Lemma thermal_reversed_np : forall amb al DO L m Q TE TL cpb cpn nf tout tn Tf Tt,
  therm_np_fb amb al DO L (- m) Q TE TL cpb cpn nf (t_inlet Tt Tf (- m)) tout tn (t_outnode Tt Tf (- m))
  = therm_np_fb amb al DO L m Q TE TL cpb cpn nf (t_inlet Tf Tt m) tout tn (t_outnode Tf Tt m) /\
  therm_np_dfb_dt amb al DO L (- m) Q TE TL cpb cpn nf (t_inlet Tt Tf (- m)) tout tn (t_outnode Tt Tf (- m))
  = therm_np_dfb_dt amb al DO L m Q TE TL cpb cpn nf (t_inlet Tf Tt m) tout tn (t_outnode Tf Tt m) /\
  therm_np_dfb_dtout amb al DO L (- m) Q TE TL cpb cpn nf (t_inlet Tt Tf (- m)) tout tn (t_outnode Tt Tf (- m))
  = therm_np_dfb_dtout amb al DO L m Q TE TL cpb cpn nf (t_inlet Tf Tt m) tout tn (t_outnode Tf Tt m) /\
  therm_np_fnt amb al DO L (- m) Q TE TL cpb cpn nf (t_inlet Tt Tf (- m)) tout tn (t_outnode Tt Tf (- m))
  = therm_np_fnt amb al DO L m Q TE TL cpb cpn nf (t_inlet Tf Tt m) tout tn (t_outnode Tf Tt m) /\
  therm_np_dfnt_dt amb al DO L (- m) Q TE TL cpb cpn nf (t_inlet Tt Tf (- m)) tout tn (t_outnode Tt Tf (- m))
  = therm_np_dfnt_dt amb al DO L m Q TE TL cpb cpn nf (t_inlet Tf Tt m) tout tn (t_outnode Tf Tt m) /\
  therm_np_dfnt_dtout amb al DO L (- m) Q TE TL cpb cpn nf (t_inlet Tt Tf (- m)) tout tn (t_outnode Tt Tf (- m))
  = therm_np_dfnt_dtout amb al DO L m Q TE TL cpb cpn nf (t_inlet Tf Tt m) tout tn (t_outnode Tf Tt m).
Proof.
  intros. unfold therm_np_fb, therm_np_dfb_dt, therm_np_dfb_dtout, therm_np_fnt, therm_np_dfnt_dt, therm_np_dfnt_dtout.
  cbv zeta. rewrite Rabs_Ropp.
  destruct (Rleb_spec (Rabs m) (1 / 10000000000)) as [Hno|Hflow]; cbn [negb].
  - repeat split; reflexivity.
  - apply Rnot_le_lt in Hflow.
    destruct (corrected_nodes_reversed Tf Tt m Hflow) as [E1 E2]. rewrite E1, E2. repeat split; reflexivity.
Qed.

(* numba kernel: same statement for a branch with flow; its node term fnt is not masked for no-flow branches
   (|m| <= 1e-10 multiplies a temperature difference), so without flow only the other outputs are claimed *)
Lemma thermal_reversed_nb : forall amb al DO L m Q TE TL cpb cpn nf tout tn Tf Tt,
  (therm_nb_fb amb al DO L (- m) Q TE TL cpb cpn nf (t_inlet Tt Tf (- m)) tout tn (t_outnode Tt Tf (- m))
   = therm_nb_fb amb al DO L m Q TE TL cpb cpn nf (t_inlet Tf Tt m) tout tn (t_outnode Tf Tt m) /\
   therm_nb_dfb_dt amb al DO L (- m) Q TE TL cpb cpn nf (t_inlet Tt Tf (- m)) tout tn (t_outnode Tt Tf (- m))
   = therm_nb_dfb_dt amb al DO L m Q TE TL cpb cpn nf (t_inlet Tf Tt m) tout tn (t_outnode Tf Tt m) /\
   therm_nb_dfb_dtout amb al DO L (- m) Q TE TL cpb cpn nf (t_inlet Tt Tf (- m)) tout tn (t_outnode Tt Tf (- m))
   = therm_nb_dfb_dtout amb al DO L m Q TE TL cpb cpn nf (t_inlet Tf Tt m) tout tn (t_outnode Tf Tt m) /\
   therm_nb_dfnt_dt amb al DO L (- m) Q TE TL cpb cpn nf (t_inlet Tt Tf (- m)) tout tn (t_outnode Tt Tf (- m))
   = therm_nb_dfnt_dt amb al DO L m Q TE TL cpb cpn nf (t_inlet Tf Tt m) tout tn (t_outnode Tf Tt m) /\
   therm_nb_dfnt_dtout amb al DO L (- m) Q TE TL cpb cpn nf (t_inlet Tt Tf (- m)) tout tn (t_outnode Tt Tf (- m))
   = therm_nb_dfnt_dtout amb al DO L m Q TE TL cpb cpn nf (t_inlet Tf Tt m) tout tn (t_outnode Tf Tt m)) /\
  (1 / 10000000000 < Rabs m ->
   therm_nb_fnt amb al DO L (- m) Q TE TL cpb cpn nf (t_inlet Tt Tf (- m)) tout tn (t_outnode Tt Tf (- m))
   = therm_nb_fnt amb al DO L m Q TE TL cpb cpn nf (t_inlet Tf Tt m) tout tn (t_outnode Tf Tt m)).
Proof.
  intros. unfold therm_nb_fb, therm_nb_dfb_dt, therm_nb_dfb_dtout, therm_nb_fnt, therm_nb_dfnt_dt, therm_nb_dfnt_dtout.
  cbv zeta. rewrite Rabs_Ropp. split.
  - destruct (Rle_or_lt (Rabs m) (1 / 10000000000)) as [Hno|Hflow].
    + rbool_cases; try lra; repeat split; reflexivity.
    + destruct (corrected_nodes_reversed Tf Tt m Hflow) as [E1 E2]. rewrite ?E1, ?E2. repeat split; reflexivity.
  - intros Hflow. destruct (corrected_nodes_reversed Tf Tt m Hflow) as [E1 E2]. rewrite ?E1, ?E2. reflexivity.
Qed.
