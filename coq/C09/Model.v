(* C09 - hand-written model (definitions only) of the parts of the pit construction that decide whether
   two descriptions of the same physical network are treated alike:

   * Pipe / BranchWInternalsComponent.create_pit_branch_entries: expansion of a pipe with n sections into a
     chain of n internal branches over n-1 internal nodes (np.insert chaining of FROM_NODE / TO_NODE),
     LENGTH = length_km * 1000 / sections, LOSS_COEFFICIENT = loss_coefficient / sections,
     other parameters repeated (set_entry_check_repeat);
   * Pipe.create_pit_node_entries + component_toolbox.vinterp: HEIGHT of the internal nodes;
   * ConstFlow.create_pit_node_entries (Sink, Source, MassStorage): the LOAD column.

   Written once over an abstract scalar type: run at Q (exact correspondence against the real pit, evaluated
   inside Coq) and at R (theorems of Proofs.v).  Node positions are nat, labels are Z. *)
From Coq Require Import List ZArith Bool.
Import ListNotations.

Section M.
  Context {A : Type}.
  Variables (zero one : A) (add mul sub div : A -> A -> A) (opp : A -> A).

  Fixpoint inj (n : nat) : A := match n with O => zero | S k => add (inj k) one end.
  Definition ten : A := inj 10.
  Definition thousand : A := mul ten (mul ten ten).

  (* np.repeat(entry, counts) / set_entry_check_repeat(pit, col, entry, counts, repeated) *)
  Fixpoint repeat_by {B : Type} (xs : list B) (ns : list nat) : list B :=
    match xs, ns with
    | x :: xs', n :: ns' => repeat x n ++ repeat_by xs' ns'
    | _, _ => []
    end.
  Definition set_entry_check_repeat {B : Type} (entry : list B) (ns : list nat) (repeated : bool) : list B :=
    if repeated then repeat_by entry ns else entry.

  (* vinterp for one element with k internal points: min + (max - min) / (k + 1) * c, c = 1 .. k *)
  Definition vinterp1 (lo hi : A) (k : nat) : list A :=
    map (fun c => add lo (mul (div (sub hi lo) (inj (S k))) (inj c))) (seq 1 k).
  Fixpoint vinterp (los his : list A) (ks : list nat) : list A :=
    match los, his, ks with
    | lo :: los', hi :: his', k :: ks' => vinterp1 lo hi k ++ vinterp los' his' ks'
    | _, _, _ => []
    end.

  (* ---------------- pipes ---------------- *)
  Record pipe := { p_from : nat; p_to : nat; p_sections : nat; p_length_km : A; p_zeta : A }.

  Definition int_nodes (p : pipe) : nat := p_sections p - 1.
  Definition sec_length (len_km : A) (n : nat) : A := div (mul len_km thousand) (inj n).
  Definition sec_zeta (zeta : A) (n : nat) : A := div zeta (inj n).

  (* FROM_NODE / TO_NODE of the sections of one pipe whose internal nodes are start .. start + n - 2 *)
  Definition chain_one (start : nat) (p : pipe) : list (nat * nat) :=
    let ints := seq start (int_nodes p) in
    combine (p_from p :: ints) (ints ++ [p_to p]).
  Fixpoint chain (start : nat) (ps : list pipe) : list (nat * nat) :=
    match ps with
    | [] => []
    | p :: r => chain_one start p ++ chain (start + int_nodes p) r
    end.

  Definition sections_of (ps : list pipe) : list nat := map p_sections ps.
  Definition any_internal (ps : list pipe) : bool := existsb (fun p => Nat.ltb 1 (p_sections p)) ps.

  (* the four columns of the pipe rows of the branch pit, in pit order *)
  Definition col_length (ps : list pipe) : list A :=
    set_entry_check_repeat (map (fun p => sec_length (p_length_km p) (p_sections p)) ps) (sections_of ps) (any_internal ps).
  Definition col_zeta (ps : list pipe) : list A :=
    set_entry_check_repeat (map (fun p => sec_zeta (p_zeta p) (p_sections p)) ps) (sections_of ps) (any_internal ps).
  (* HEIGHT of the internal pipe nodes, hgt = HEIGHT of the junction nodes by node position *)
  Definition col_int_height (hgt : nat -> A) (ps : list pipe) : list A :=
    vinterp (map (fun p => hgt (p_from p)) ps) (map (fun p => hgt (p_to p)) ps) (map int_nodes ps).

  (* heights of the n + 1 nodes along one pipe, from its from junction to its to junction *)
  Definition section_heights (hf ht : A) (n : nat) : list A := hf :: vinterp1 hf ht (n - 1) ++ [ht].

  Definition reverse_pipe (p : pipe) : pipe :=
    {| p_from := p_to p; p_to := p_from p; p_sections := p_sections p; p_length_km := p_length_km p; p_zeta := p_zeta p |}.

  (* ---------------- loads ---------------- *)
  (* one row of net.sink / net.source / net.mass_storage; l_mdot = None stands for NaN (np.nan_to_num -> 0) *)
  Record load_row := { l_junction : Z; l_mdot : option A; l_scaling : A; l_in_service : bool }.

  Definition nan_to_num (x : option A) : A := match x with Some v => v | None => zero end.
  Definition b2a (b : bool) : A := if b then one else zero.
  (* mass_flow_loads = mf * (in_service * scaling * sign) *)
  Definition row_flow (sign : A) (r : load_row) : A :=
    mul (nan_to_num (l_mdot r)) (mul (mul (b2a (l_in_service r)) (l_scaling r)) sign).
  (* _sum_by_group(junction, mass_flow_loads) evaluated at junction j *)
  Fixpoint table_load (sign : A) (rows : list load_row) (j : Z) : A :=
    match rows with
    | [] => zero
    | r :: rest => if Z.eqb (l_junction r) j then add (row_flow sign r) (table_load sign rest j) else table_load sign rest j
    end.
  (* node_pit[index, LOAD] += loads_sum, once per const-flow component (sign, table) *)
  Fixpoint total_load (tables : list (A * list load_row)) (j : Z) : A :=
    match tables with
    | [] => zero
    | (s, rows) :: rest => add (table_load s rows j) (total_load rest j)
    end.
  Definition load_column (tables : list (A * list load_row)) (junctions : list Z) : list A :=
    map (total_load tables) junctions.

  (* the single sink that replaces everything connected to junction j *)
  Definition merged_sink (tables : list (A * list load_row)) (j : Z) : load_row :=
    {| l_junction := j; l_mdot := Some (total_load tables j); l_scaling := one; l_in_service := true |}.
  Definition negate_row (r : load_row) : load_row :=
    {| l_junction := l_junction r; l_mdot := Some (opp (nan_to_num (l_mdot r))); l_scaling := l_scaling r;
       l_in_service := l_in_service r |}.
End M.

Arguments Build_pipe {A}.
Arguments Build_load_row {A}.
Arguments p_from {A}. Arguments p_to {A}. Arguments p_sections {A}. Arguments p_length_km {A}. Arguments p_zeta {A}.
Arguments l_junction {A}. Arguments l_mdot {A}. Arguments l_scaling {A}. Arguments l_in_service {A}.
Arguments int_nodes {A}. Arguments chain_one {A}. Arguments chain {A}. Arguments sections_of {A}.
Arguments any_internal {A}. Arguments reverse_pipe {A}. Arguments nan_to_num {A}. Arguments b2a {A}.

(* ---------------- instance used by the correspondence (exact rationals) ---------------- *)
From Coq Require Import QArith.

Definition Qinj := @inj Q 0%Q 1%Q Qplus.
Definition Qcol_length := @col_length Q 0%Q 1%Q Qplus Qmult Qdiv.
Definition Qcol_zeta := @col_zeta Q 0%Q 1%Q Qplus Qdiv.
Definition Qcol_int_height := @col_int_height Q 0%Q 1%Q Qplus Qmult Qminus Qdiv.
Definition Qload_column := @load_column Q 0%Q 1%Q Qplus Qmult.

Fixpoint Qlist_eqb (a b : list Q) : bool :=
  match a, b with
  | [], [] => true
  | x :: a', y :: b' => Qeq_bool x y && Qlist_eqb a' b'
  | _, _ => false
  end.
Fixpoint natpair_list_eqb (a b : list (nat * nat)) : bool :=
  match a, b with
  | [], [] => true
  | (x1, x2) :: a', (y1, y2) :: b' => Nat.eqb x1 y1 && Nat.eqb x2 y2 && natpair_list_eqb a' b'
  | _, _ => false
  end.

(* one correspondence case of the pipe expansion: inputs + the columns the implementation produced *)
Record pipe_case := {
  pc_pipes : list (@pipe Q);
  pc_start : nat;                       (* first internal pipe node (node from_to lookup) *)
  pc_heights : list Q;                  (* HEIGHT of the junction nodes, by node position *)
  pc_obs_chain : list (nat * nat);      (* observed FROM_NODE, TO_NODE *)
  pc_obs_length : list Q;               (* observed LENGTH *)
  pc_obs_zeta : list Q;                 (* observed LOSS_COEFFICIENT *)
  pc_obs_height : list Q }.             (* observed HEIGHT of the internal nodes *)

Definition pipe_case_ok (c : pipe_case) : bool :=
  natpair_list_eqb (chain (pc_start c) (pc_pipes c)) (pc_obs_chain c) &&
  Qlist_eqb (Qcol_length (pc_pipes c)) (pc_obs_length c) &&
  Qlist_eqb (Qcol_zeta (pc_pipes c)) (pc_obs_zeta c) &&
  Qlist_eqb (Qcol_int_height (fun i => nth i (pc_heights c) 0%Q) (pc_pipes c)) (pc_obs_height c).

Record load_case := {
  lc_tables : list (Q * list (@load_row Q));
  lc_junctions : list Z;                (* junction labels in node order *)
  lc_obs_load : list Q }.               (* observed LOAD column of the junction nodes *)

Definition load_case_ok (c : load_case) : bool :=
  Qlist_eqb (Qload_column (lc_tables c) (lc_junctions c)) (lc_obs_load c).

(* (cases, mismatches, index of the first mismatch or -1) *)
Fixpoint summary_from {C : Type} (ok : C -> bool) (cs : list C) (i : Z) (acc : nat * nat * Z) : nat * nat * Z :=
  match cs with
  | [] => acc
  | c :: r =>
      let '(n, m, f) := acc in
      if ok c then summary_from ok r (i + 1)%Z (S n, m, f)
      else summary_from ok r (i + 1)%Z (S n, S m, if Z.ltb f 0 then i else f)
  end.
Definition summary {C : Type} (ok : C -> bool) (cs : list C) : nat * nat * Z := summary_from ok cs 0%Z (O, O, (-1)%Z).
