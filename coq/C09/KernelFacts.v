(* C09 - T-tie: symmetries of the generated per-branch kernels (regenerated from the pandapipes
   sources on every run by tools/translate/kernels.py and tools/translate/c09_kernels.py).

   reversal        load_vec(-m, p_from <-> p_to, -dh) = - load_vec(m, p_from, p_to, dh)   (PL = 0)
                   Re, lambda_laminar, lambda_nikuradse, calc_lambda are even functions of m
                   derived values of a branch with from / to node swapped
   pressure shift  the incompressible kernel sees the two pressures only through their difference
   All statements are for every real input; no side condition unless written. *)
From Coq Require Import Reals Bool Lra.
From PP Require Import Kern.RBool.
From PP Require Import Gen.KHydIncompNp Gen.KHydIncompNb Gen.KHydCompNp Gen.KHydCompNb.
From PP Require Import Gen.KLambdaNp Gen.KLambdaNb Gen.KPmNp Gen.KPmNb Gen.KDerivedNp Gen.KDerivedNb.
From PP Require Import Gen.KCalcLambda.
Open Scope R_scope.

(* ------------------------------------------------------------------------------------------
   1. friction factor: even in the mass flow (both engines, liquids and gases)               *)

Lemma lambda_incomp_np_even : forall area d eta k m,
  lambda_incomp_np_re area d eta k (- m) = lambda_incomp_np_re area d eta k m /\
  lambda_incomp_np_lambda_laminar area d eta k (- m) = lambda_incomp_np_lambda_laminar area d eta k m /\
  lambda_incomp_np_lambda_nikuradse area d eta k (- m) = lambda_incomp_np_lambda_nikuradse area d eta k m.
Proof.
  intros. unfold lambda_incomp_np_re, lambda_incomp_np_lambda_laminar, lambda_incomp_np_lambda_nikuradse.
  cbv zeta. rewrite Rabs_Ropp. repeat split; reflexivity.
Qed.

Lemma lambda_incomp_nb_even : forall area d eta k m,
  lambda_incomp_nb_re area d eta k (- m) = lambda_incomp_nb_re area d eta k m /\
  lambda_incomp_nb_lambda_laminar area d eta k (- m) = lambda_incomp_nb_lambda_laminar area d eta k m /\
  lambda_incomp_nb_lambda_nikuradse area d eta k (- m) = lambda_incomp_nb_lambda_nikuradse area d eta k m.
Proof.
  intros. unfold lambda_incomp_nb_re, lambda_incomp_nb_lambda_laminar, lambda_incomp_nb_lambda_nikuradse.
  cbv zeta. rewrite Rabs_Ropp. repeat split; reflexivity.
Qed.

Lemma lambda_comp_np_even : forall area d eta k m,
  lambda_comp_np_re area d eta k (- m) = lambda_comp_np_re area d eta k m /\
  lambda_comp_np_lambda_laminar area d eta k (- m) = lambda_comp_np_lambda_laminar area d eta k m /\
  lambda_comp_np_lambda_nikuradse area d eta k (- m) = lambda_comp_np_lambda_nikuradse area d eta k m.
Proof.
  intros. unfold lambda_comp_np_re, lambda_comp_np_lambda_laminar, lambda_comp_np_lambda_nikuradse.
  cbv zeta. rewrite Rabs_Ropp. repeat split; reflexivity.
Qed.

Lemma lambda_comp_nb_even : forall area d eta k m,
  lambda_comp_nb_re area d eta k (- m) = lambda_comp_nb_re area d eta k m /\
  lambda_comp_nb_lambda_laminar area d eta k (- m) = lambda_comp_nb_lambda_laminar area d eta k m /\
  lambda_comp_nb_lambda_nikuradse area d eta k (- m) = lambda_comp_nb_lambda_nikuradse area d eta k m.
Proof.
  intros. unfold lambda_comp_nb_re, lambda_comp_nb_lambda_laminar, lambda_comp_nb_lambda_nikuradse.
  cbv zeta. rewrite Rabs_Ropp. repeat split; reflexivity.
Qed.

(* the value calc_lambda hands to the kernels (default friction model) *)
Lemma calc_lambda_even : forall area d eta k m,
  calc_lambda_incomp_np_lambda_tot area d eta k (- m) = calc_lambda_incomp_np_lambda_tot area d eta k m /\
  calc_lambda_incomp_nb_lambda_tot area d eta k (- m) = calc_lambda_incomp_nb_lambda_tot area d eta k m /\
  calc_lambda_comp_np_lambda_tot area d eta k (- m) = calc_lambda_comp_np_lambda_tot area d eta k m /\
  calc_lambda_comp_nb_lambda_tot area d eta k (- m) = calc_lambda_comp_nb_lambda_tot area d eta k m /\
  calc_lambda_incomp_np_re area d eta k (- m) = calc_lambda_incomp_np_re area d eta k m /\
  calc_lambda_comp_np_re area d eta k (- m) = calc_lambda_comp_np_re area d eta k m.
Proof.
  intros.
  unfold calc_lambda_incomp_np_lambda_tot, calc_lambda_incomp_nb_lambda_tot, calc_lambda_comp_np_lambda_tot,
    calc_lambda_comp_nb_lambda_tot, calc_lambda_incomp_np_re, calc_lambda_comp_np_re.
  cbv zeta. rewrite Rabs_Ropp. repeat split; reflexivity.
Qed.

(* calc_der_lambda (nikuradse) is even in m as well (it is written with m^2) ... *)
Lemma calc_der_lambda_even : forall area d eta m re,
  calc_der_lambda_nik_lambda_der area d eta (- m) re = calc_der_lambda_nik_lambda_der area d eta m re.
Proof.
  intros. unfold calc_der_lambda_nik_lambda_der. cbv zeta.
  replace ((- m) ^ 2) with (m ^ 2) by ring. reflexivity.
Qed.

(* ------------------------------------------------------------------------------------------
   2. reversal of a branch: odd symmetry of the residual                                      *)

(* liquids.  Argument order of the generated kernel:
   AREA D LAMBDA LENGTH LOSS_COEFFICIENT MDOTINIT PL der_lambda height_difference p_i1 p_i rho *)
Lemma incomp_residual_odd_np : forall A D lam L zeta m dl dl' dh p_to p_from rho,
  hyd_incomp_np_load_vec A D lam L zeta (- m) 0 dl' (- dh) p_from p_to rho
  = - hyd_incomp_np_load_vec A D lam L zeta m 0 dl dh p_to p_from rho.
Proof.
  intros. unfold hyd_incomp_np_load_vec. cbv zeta. rewrite Rabs_Ropp. unfold Rdiv. ring.
Qed.

Lemma incomp_residual_odd_nb : forall A D lam L zeta m dl dl' dh p_to p_from rho,
  hyd_incomp_nb_load_vec A D lam L zeta (- m) 0 dl' (- dh) p_from p_to rho
  = - hyd_incomp_nb_load_vec A D lam L zeta m 0 dl dh p_to p_from rho.
Proof.
  intros. unfold hyd_incomp_nb_load_vec. cbv zeta. rewrite Rabs_Ropp. unfold Rdiv. ring.
Qed.

(* node contributions flip with the flow; the friction loss reported for the branch flips sign *)
Lemma incomp_node_loads_odd : forall A D lam L zeta m PL dl dl' dh dh' p1 p0 p1' p0' rho,
  hyd_incomp_np_load_vec_nodes_from A D lam L zeta (- m) PL dl' dh' p1' p0' rho
  = - hyd_incomp_np_load_vec_nodes_from A D lam L zeta m PL dl dh p1 p0 rho /\
  hyd_incomp_np_load_vec_nodes_to A D lam L zeta (- m) PL dl' dh' p1' p0' rho
  = - hyd_incomp_np_load_vec_nodes_to A D lam L zeta m PL dl dh p1 p0 rho /\
  hyd_incomp_nb_load_vec_nodes_from A D lam L zeta (- m) PL dl' dh' p1' p0' rho
  = - hyd_incomp_nb_load_vec_nodes_from A D lam L zeta m PL dl dh p1 p0 rho /\
  hyd_incomp_nb_load_vec_nodes_to A D lam L zeta (- m) PL dl' dh' p1' p0' rho
  = - hyd_incomp_nb_load_vec_nodes_to A D lam L zeta m PL dl dh p1 p0 rho /\
  hyd_incomp_np_dp_frict_loss A D lam L zeta (- m) PL dl' dh' p1' p0' rho
  = - hyd_incomp_np_dp_frict_loss A D lam L zeta m PL dl dh p1 p0 rho.
Proof.
  intros. unfold hyd_incomp_np_load_vec_nodes_from, hyd_incomp_np_load_vec_nodes_to,
    hyd_incomp_nb_load_vec_nodes_from, hyd_incomp_nb_load_vec_nodes_to, hyd_incomp_np_dp_frict_loss.
  cbv zeta. rewrite Rabs_Ropp. repeat split; try reflexivity. unfold Rdiv. ring.
Qed.

(* Jacobian: the entry d f / d m is even in m provided der_lambda is handed over as an odd function of m;
   the pressure entries do not depend on m at all.  (calc_der_lambda is in fact even, see
   [calc_der_lambda_even]: the Jacobian entry of a branch with negative flow differs from that of the
   reversed branch by the laminar term.  This changes Newton's path only, not its fixed points.) *)
Lemma incomp_df_dm_even : forall A D lam L zeta m PL dl dh dh' p1 p0 p1' p0' rho,
  hyd_incomp_np_df_dm A D lam L zeta (- m) PL (- dl) dh' p1' p0' rho
  = hyd_incomp_np_df_dm A D lam L zeta m PL dl dh p1 p0 rho /\
  hyd_incomp_nb_df_dm A D lam L zeta (- m) PL (- dl) dh' p1' p0' rho
  = hyd_incomp_nb_df_dm A D lam L zeta m PL dl dh p1 p0 rho.
Proof.
  intros. unfold hyd_incomp_np_df_dm, hyd_incomp_nb_df_dm. cbv zeta. rewrite Rabs_Ropp.
  split; unfold Rdiv; ring.
Qed.

(* gases.  Argument order:
   AREA D LENGTH LOSS_COEFFICIENT MDOTINIT PL TOUTINIT comp_fact der_comp der_comp1 der_lambda
   height_difference lambda_ np_from_TINIT p_i1 p_i rho rho_n.
   The mean temperature (np_from_TINIT + TOUTINIT)/2 must be the same for both orientations (it is in
   hydraulics mode, where TOUTINIT is the temperature of the to node). *)
Lemma comp_residual_odd_np : forall A D L zeta m Tout Tout' cf dc dc1 dc' dc1' dl dl' dh lam Tf Tf' p_to p_from rho rho_n,
  Tf' + Tout' = Tf + Tout ->
  hyd_comp_np_load_vec A D L zeta (- m) 0 Tout' cf dc' dc1' dl' (- dh) lam Tf' p_from p_to rho rho_n
  = - hyd_comp_np_load_vec A D L zeta m 0 Tout cf dc dc1 dl dh lam Tf p_to p_from rho rho_n.
Proof.
  intros until rho_n. intros HT. unfold hyd_comp_np_load_vec. cbv zeta. rewrite Rabs_Ropp.
  replace (Tf' + Tout') with (Tf + Tout) by (symmetry; exact HT).
  replace (p_to + p_from) with (p_from + p_to) by ring. unfold Rdiv. ring.
Qed.

Lemma comp_residual_odd_nb : forall A D L zeta m Tout Tout' cf dc dc1 dc' dc1' dl dl' dh lam Tf Tf' p_to p_from rho rho_n,
  Tf' + Tout' = Tf + Tout ->
  hyd_comp_nb_load_vec A D L zeta (- m) 0 Tout' cf dc' dc1' dl' (- dh) lam Tf' p_from p_to rho rho_n
  = - hyd_comp_nb_load_vec A D L zeta m 0 Tout cf dc dc1 dl dh lam Tf p_to p_from rho rho_n.
Proof.
  intros until rho_n. intros HT. unfold hyd_comp_nb_load_vec. cbv zeta. rewrite Rabs_Ropp.
  replace (Tf' + Tout') with (Tf + Tout) by (symmetry; exact HT).
  replace (p_to + p_from) with (p_from + p_to) by ring. unfold Rdiv. ring.
Qed.

(* the mean pressure (argument of the compressibility factor) is symmetric in the two end pressures *)
Lemma pm_symmetric_np : forall p q, pm_np_p_m p q = pm_np_p_m q p.
Proof.
  intros. unfold pm_np_p_m. cbv zeta.
  destruct (Reqb_spec q p) as [E|E]; destruct (Reqb_spec p q) as [E'|E']; cbn [negb]; try congruence.
  replace (p ^ 2 - q ^ 2) with (- (q ^ 2 - p ^ 2)) by ring.
  unfold Rdiv. rewrite Rinv_opp. ring.
Qed.

Lemma pm_symmetric_nb : forall p q, pm_nb_p_m p q = pm_nb_p_m q p.
Proof.
  intros. unfold pm_nb_p_m. cbv zeta.
  destruct (Reqb_spec q p) as [E|E]; destruct (Reqb_spec p q) as [E'|E']; cbn [negb]; try congruence.
  replace (p ^ 2 - q ^ 2) with (- (q ^ 2 - p ^ 2)) by ring.
  unfold Rdiv. rewrite Rinv_opp. ring.
Qed.

(* what the kernels are fed with, for a branch whose from / to node columns are exchanged:
   height difference flips, absolute pressures are exchanged, mean temperature unchanged *)
Lemma derived_values_reversed_np : forall hf af pf tf ht at_ pt tt,
  derived_np_height_difference ht at_ pt tt hf af pf tf = - derived_np_height_difference hf af pf tf ht at_ pt tt /\
  derived_np_p_init_i_abs ht at_ pt tt hf af pf tf = derived_np_p_init_i1_abs hf af pf tf ht at_ pt tt /\
  derived_np_p_init_i1_abs ht at_ pt tt hf af pf tf = derived_np_p_init_i_abs hf af pf tf ht at_ pt tt /\
  derived_np_tinit_branch ht at_ pt tt hf af pf tf = derived_np_tinit_branch hf af pf tf ht at_ pt tt.
Proof.
  intros. unfold derived_np_height_difference, derived_np_p_init_i_abs, derived_np_p_init_i1_abs,
    derived_np_tinit_branch. cbv zeta. repeat split; try reflexivity; unfold Rdiv; ring.
Qed.

Lemma derived_values_reversed_nb : forall hf af pf tf ht at_ pt tt,
  derived_nb_height_difference ht at_ pt tt hf af pf tf = - derived_nb_height_difference hf af pf tf ht at_ pt tt /\
  derived_nb_p_init_i_abs ht at_ pt tt hf af pf tf = derived_nb_p_init_i1_abs hf af pf tf ht at_ pt tt /\
  derived_nb_p_init_i1_abs ht at_ pt tt hf af pf tf = derived_nb_p_init_i_abs hf af pf tf ht at_ pt tt /\
  derived_nb_tinit_branch ht at_ pt tt hf af pf tf = derived_nb_tinit_branch hf af pf tf ht at_ pt tt.
Proof.
  intros. unfold derived_nb_height_difference, derived_nb_p_init_i_abs, derived_nb_p_init_i1_abs,
    derived_nb_tinit_branch. cbv zeta. repeat split; try reflexivity; unfold Rdiv; ring.
Qed.

(* end to end (liquids): node columns -> derived values -> residual, for the branch declared the other
   way round (from / to node columns exchanged, flow negated) *)
Lemma incomp_reversed_branch_np : forall A D lam L zeta m dl dl' rho hf af pf tf ht at_ pt tt,
  hyd_incomp_np_load_vec A D lam L zeta (- m) 0 dl'
     (derived_np_height_difference ht at_ pt tt hf af pf tf)
     (derived_np_p_init_i1_abs ht at_ pt tt hf af pf tf)
     (derived_np_p_init_i_abs ht at_ pt tt hf af pf tf) rho
  = - hyd_incomp_np_load_vec A D lam L zeta m 0 dl
     (derived_np_height_difference hf af pf tf ht at_ pt tt)
     (derived_np_p_init_i1_abs hf af pf tf ht at_ pt tt)
     (derived_np_p_init_i_abs hf af pf tf ht at_ pt tt) rho.
Proof.
  intros. destruct (derived_values_reversed_np hf af pf tf ht at_ pt tt) as (H1 & H2 & H3 & _).
  rewrite H1, H2, H3. apply incomp_residual_odd_np.
Qed.

Lemma incomp_reversed_branch_nb : forall A D lam L zeta m dl dl' rho hf af pf tf ht at_ pt tt,
  hyd_incomp_nb_load_vec A D lam L zeta (- m) 0 dl'
     (derived_nb_height_difference ht at_ pt tt hf af pf tf)
     (derived_nb_p_init_i1_abs ht at_ pt tt hf af pf tf)
     (derived_nb_p_init_i_abs ht at_ pt tt hf af pf tf) rho
  = - hyd_incomp_nb_load_vec A D lam L zeta m 0 dl
     (derived_nb_height_difference hf af pf tf ht at_ pt tt)
     (derived_nb_p_init_i1_abs hf af pf tf ht at_ pt tt)
     (derived_nb_p_init_i_abs hf af pf tf ht at_ pt tt) rho.
Proof.
  intros. destruct (derived_values_reversed_nb hf af pf tf ht at_ pt tt) as (H1 & H2 & H3 & _).
  rewrite H1, H2, H3. apply incomp_residual_odd_nb.
Qed.

(* ------------------------------------------------------------------------------------------
   3. pressure shift (liquids)                                                                 *)

Lemma incomp_pressure_shift_np : forall c A D lam L zeta m PL dl dh p1 p0 rho,
  hyd_incomp_np_load_vec A D lam L zeta m PL dl dh (p1 + c) (p0 + c) rho
  = hyd_incomp_np_load_vec A D lam L zeta m PL dl dh p1 p0 rho /\
  hyd_incomp_np_load_vec_nodes_from A D lam L zeta m PL dl dh (p1 + c) (p0 + c) rho
  = hyd_incomp_np_load_vec_nodes_from A D lam L zeta m PL dl dh p1 p0 rho /\
  hyd_incomp_np_load_vec_nodes_to A D lam L zeta m PL dl dh (p1 + c) (p0 + c) rho
  = hyd_incomp_np_load_vec_nodes_to A D lam L zeta m PL dl dh p1 p0 rho /\
  hyd_incomp_np_df_dm A D lam L zeta m PL dl dh (p1 + c) (p0 + c) rho
  = hyd_incomp_np_df_dm A D lam L zeta m PL dl dh p1 p0 rho /\
  hyd_incomp_np_df_dm_nodes A D lam L zeta m PL dl dh (p1 + c) (p0 + c) rho
  = hyd_incomp_np_df_dm_nodes A D lam L zeta m PL dl dh p1 p0 rho /\
  hyd_incomp_np_df_dp A D lam L zeta m PL dl dh (p1 + c) (p0 + c) rho
  = hyd_incomp_np_df_dp A D lam L zeta m PL dl dh p1 p0 rho /\
  hyd_incomp_np_df_dp1 A D lam L zeta m PL dl dh (p1 + c) (p0 + c) rho
  = hyd_incomp_np_df_dp1 A D lam L zeta m PL dl dh p1 p0 rho /\
  hyd_incomp_np_dp_frict_loss A D lam L zeta m PL dl dh (p1 + c) (p0 + c) rho
  = hyd_incomp_np_dp_frict_loss A D lam L zeta m PL dl dh p1 p0 rho.
Proof.
  intros. unfold hyd_incomp_np_load_vec, hyd_incomp_np_load_vec_nodes_from, hyd_incomp_np_load_vec_nodes_to,
    hyd_incomp_np_df_dm, hyd_incomp_np_df_dm_nodes, hyd_incomp_np_df_dp, hyd_incomp_np_df_dp1,
    hyd_incomp_np_dp_frict_loss. cbv zeta.
  repeat split; try reflexivity. unfold Rdiv. ring.
Qed.

Lemma incomp_pressure_shift_nb : forall c A D lam L zeta m PL dl dh p1 p0 rho,
  hyd_incomp_nb_load_vec A D lam L zeta m PL dl dh (p1 + c) (p0 + c) rho
  = hyd_incomp_nb_load_vec A D lam L zeta m PL dl dh p1 p0 rho /\
  hyd_incomp_nb_load_vec_nodes_from A D lam L zeta m PL dl dh (p1 + c) (p0 + c) rho
  = hyd_incomp_nb_load_vec_nodes_from A D lam L zeta m PL dl dh p1 p0 rho /\
  hyd_incomp_nb_load_vec_nodes_to A D lam L zeta m PL dl dh (p1 + c) (p0 + c) rho
  = hyd_incomp_nb_load_vec_nodes_to A D lam L zeta m PL dl dh p1 p0 rho /\
  hyd_incomp_nb_df_dm A D lam L zeta m PL dl dh (p1 + c) (p0 + c) rho
  = hyd_incomp_nb_df_dm A D lam L zeta m PL dl dh p1 p0 rho /\
  hyd_incomp_nb_df_dm_nodes A D lam L zeta m PL dl dh (p1 + c) (p0 + c) rho
  = hyd_incomp_nb_df_dm_nodes A D lam L zeta m PL dl dh p1 p0 rho /\
  hyd_incomp_nb_df_dp A D lam L zeta m PL dl dh (p1 + c) (p0 + c) rho
  = hyd_incomp_nb_df_dp A D lam L zeta m PL dl dh p1 p0 rho /\
  hyd_incomp_nb_df_dp1 A D lam L zeta m PL dl dh (p1 + c) (p0 + c) rho
  = hyd_incomp_nb_df_dp1 A D lam L zeta m PL dl dh p1 p0 rho /\
  hyd_incomp_nb_dp_frict_loss A D lam L zeta m PL dl dh (p1 + c) (p0 + c) rho
  = hyd_incomp_nb_dp_frict_loss A D lam L zeta m PL dl dh p1 p0 rho.
Proof.
  intros. unfold hyd_incomp_nb_load_vec, hyd_incomp_nb_load_vec_nodes_from, hyd_incomp_nb_load_vec_nodes_to,
    hyd_incomp_nb_df_dm, hyd_incomp_nb_df_dm_nodes, hyd_incomp_nb_df_dp, hyd_incomp_nb_df_dp1,
    hyd_incomp_nb_dp_frict_loss. cbv zeta.
  repeat split; try reflexivity. unfold Rdiv. ring.
Qed.

(* from the node columns: the absolute pressure is PINIT + PAMB(height) on *both* sides, so a common
   shift of all PINIT leaves the residual of every liquid branch unchanged *)
Lemma incomp_pinit_shift_np : forall c A D lam L zeta m PL dl rho hf af pf tf ht at_ pt tt,
  hyd_incomp_np_load_vec A D lam L zeta m PL dl
     (derived_np_height_difference hf af (pf + c) tf ht at_ (pt + c) tt)
     (derived_np_p_init_i1_abs hf af (pf + c) tf ht at_ (pt + c) tt)
     (derived_np_p_init_i_abs hf af (pf + c) tf ht at_ (pt + c) tt) rho
  = hyd_incomp_np_load_vec A D lam L zeta m PL dl
     (derived_np_height_difference hf af pf tf ht at_ pt tt)
     (derived_np_p_init_i1_abs hf af pf tf ht at_ pt tt)
     (derived_np_p_init_i_abs hf af pf tf ht at_ pt tt) rho.
Proof.
  intros. unfold derived_np_height_difference, derived_np_p_init_i1_abs, derived_np_p_init_i_abs,
    hyd_incomp_np_load_vec. cbv zeta. unfold Rdiv. ring.
Qed.

Lemma incomp_pinit_shift_nb : forall c A D lam L zeta m PL dl rho hf af pf tf ht at_ pt tt,
  hyd_incomp_nb_load_vec A D lam L zeta m PL dl
     (derived_nb_height_difference hf af (pf + c) tf ht at_ (pt + c) tt)
     (derived_nb_p_init_i1_abs hf af (pf + c) tf ht at_ (pt + c) tt)
     (derived_nb_p_init_i_abs hf af (pf + c) tf ht at_ (pt + c) tt) rho
  = hyd_incomp_nb_load_vec A D lam L zeta m PL dl
     (derived_nb_height_difference hf af pf tf ht at_ pt tt)
     (derived_nb_p_init_i1_abs hf af pf tf ht at_ pt tt)
     (derived_nb_p_init_i_abs hf af pf tf ht at_ pt tt) rho.
Proof.
  intros. unfold derived_nb_height_difference, derived_nb_p_init_i1_abs, derived_nb_p_init_i_abs,
    hyd_incomp_nb_load_vec. cbv zeta. unfold Rdiv. ring.
Qed.
