(* C09 - property theorems only: physically equivalent descriptions of a network.
   T-tie theorems are about the kernels regenerated from the pandapipes sources on every run (directory coq/Gen);
   H-tie theorems are about C09/Model.v, which is compared with the real pit inside Coq on every run. *)
From Coq Require Import List ZArith Bool Reals Permutation Lra Lia.
From PP Require Import Kern.RBool.
From PP Require Import Gen.KHydIncompNp Gen.KHydIncompNb Gen.KHydCompNp Gen.KHydCompNb Gen.KPmNp Gen.KPmNb.
From PP Require Import Gen.KDerivedNp Gen.KDerivedNb Gen.KCalcLambda.
From PP Require Import C09.Model C09.KernelFacts C09.Proofs.
From PP Require C06.Model C04.Model C04.ProofsReduce.
Import ListNotations.
Open Scope R_scope.

(* ------------------------------------------------------------------ 1. reverse_branch (T-tie) *)

(* the friction factor handed to the kernels and the Reynolds number are even in the mass flow
   (default friction model, liquids and gases, numpy and numba) *)
Theorem lambda_even_in_mass_flow : forall area d eta k m,
  calc_lambda_incomp_np_lambda_tot area d eta k (- m) = calc_lambda_incomp_np_lambda_tot area d eta k m /\
  calc_lambda_incomp_nb_lambda_tot area d eta k (- m) = calc_lambda_incomp_nb_lambda_tot area d eta k m /\
  calc_lambda_comp_np_lambda_tot area d eta k (- m) = calc_lambda_comp_np_lambda_tot area d eta k m /\
  calc_lambda_comp_nb_lambda_tot area d eta k (- m) = calc_lambda_comp_nb_lambda_tot area d eta k m /\
  calc_lambda_incomp_np_re area d eta k (- m) = calc_lambda_incomp_np_re area d eta k m /\
  calc_lambda_comp_np_re area d eta k (- m) = calc_lambda_comp_np_re area d eta k m.
Proof. exact calc_lambda_even. Qed.
Print Assumptions lambda_even_in_mass_flow.

(* liquids: residual of the branch declared the other way round (flow negated, end pressures exchanged, height
   difference negated, no directional pressure lift) is the negated residual - both engines *)
Theorem incomp_residual_odd : forall A D lam L zeta m dl dl' dh p_to p_from rho,
  hyd_incomp_np_load_vec A D lam L zeta (- m) 0 dl' (- dh) p_from p_to rho
  = - hyd_incomp_np_load_vec A D lam L zeta m 0 dl dh p_to p_from rho /\
  hyd_incomp_nb_load_vec A D lam L zeta (- m) 0 dl' (- dh) p_from p_to rho
  = - hyd_incomp_nb_load_vec A D lam L zeta m 0 dl dh p_to p_from rho.
Proof. intros. split; [apply incomp_residual_odd_np | apply incomp_residual_odd_nb]. Qed.
Print Assumptions incomp_residual_odd.

(* gases, same statement; the mean temperature of the branch must not depend on the orientation *)
Theorem comp_residual_odd : forall A D L zeta m Tout Tout' cf dc dc1 dc' dc1' dl dl' dh lam Tf Tf' p_to p_from rho rho_n,
  Tf' + Tout' = Tf + Tout ->
  hyd_comp_np_load_vec A D L zeta (- m) 0 Tout' cf dc' dc1' dl' (- dh) lam Tf' p_from p_to rho rho_n
  = - hyd_comp_np_load_vec A D L zeta m 0 Tout cf dc dc1 dl dh lam Tf p_to p_from rho rho_n /\
  hyd_comp_nb_load_vec A D L zeta (- m) 0 Tout' cf dc' dc1' dl' (- dh) lam Tf' p_from p_to rho rho_n
  = - hyd_comp_nb_load_vec A D L zeta m 0 Tout cf dc dc1 dl dh lam Tf p_to p_from rho rho_n.
Proof. intros. split; [apply comp_residual_odd_np | apply comp_residual_odd_nb]; assumption. Qed.
Print Assumptions comp_residual_odd.

(* the mean pressure (argument of the compressibility) does not depend on the orientation *)
Theorem mean_pressure_symmetric : forall p q, pm_np_p_m p q = pm_np_p_m q p /\ pm_nb_p_m p q = pm_nb_p_m q p.
Proof. intros. split; [apply pm_symmetric_np | apply pm_symmetric_nb]. Qed.
Print Assumptions mean_pressure_symmetric.

(* from the node columns (HEIGHT, PAMB, PINIT, TINIT of the from and of the to node) through the derived values
   into the residual: exchanging the two node columns and negating the flow negates the residual *)
Theorem reversed_branch_from_node_columns : forall A D lam L zeta m dl dl' rho hf af pf tf ht at_ pt tt,
  hyd_incomp_np_load_vec A D lam L zeta (- m) 0 dl'
     (derived_np_height_difference ht at_ pt tt hf af pf tf)
     (derived_np_p_init_i1_abs ht at_ pt tt hf af pf tf)
     (derived_np_p_init_i_abs ht at_ pt tt hf af pf tf) rho
  = - hyd_incomp_np_load_vec A D lam L zeta m 0 dl
     (derived_np_height_difference hf af pf tf ht at_ pt tt)
     (derived_np_p_init_i1_abs hf af pf tf ht at_ pt tt)
     (derived_np_p_init_i_abs hf af pf tf ht at_ pt tt) rho /\
  hyd_incomp_nb_load_vec A D lam L zeta (- m) 0 dl'
     (derived_nb_height_difference ht at_ pt tt hf af pf tf)
     (derived_nb_p_init_i1_abs ht at_ pt tt hf af pf tf)
     (derived_nb_p_init_i_abs ht at_ pt tt hf af pf tf) rho
  = - hyd_incomp_nb_load_vec A D lam L zeta m 0 dl
     (derived_nb_height_difference hf af pf tf ht at_ pt tt)
     (derived_nb_p_init_i1_abs hf af pf tf ht at_ pt tt)
     (derived_nb_p_init_i_abs hf af pf tf ht at_ pt tt) rho.
Proof. intros. split; [apply incomp_reversed_branch_np | apply incomp_reversed_branch_nb]. Qed.
Print Assumptions reversed_branch_from_node_columns.

(* node contributions and reported friction loss flip with the flow; the Jacobian entry df/dm is even in m when
   der_lambda is handed over as an odd function of m *)
Theorem incomp_flow_outputs_odd_jacobian_even : forall A D lam L zeta m PL dl dh dh' p1 p0 p1' p0' rho,
  hyd_incomp_np_load_vec_nodes_from A D lam L zeta (- m) PL dl dh' p1' p0' rho
  = - hyd_incomp_np_load_vec_nodes_from A D lam L zeta m PL dl dh p1 p0 rho /\
  hyd_incomp_np_load_vec_nodes_to A D lam L zeta (- m) PL dl dh' p1' p0' rho
  = - hyd_incomp_np_load_vec_nodes_to A D lam L zeta m PL dl dh p1 p0 rho /\
  hyd_incomp_np_dp_frict_loss A D lam L zeta (- m) PL dl dh' p1' p0' rho
  = - hyd_incomp_np_dp_frict_loss A D lam L zeta m PL dl dh p1 p0 rho /\
  hyd_incomp_np_df_dm A D lam L zeta (- m) PL (- dl) dh' p1' p0' rho
  = hyd_incomp_np_df_dm A D lam L zeta m PL dl dh p1 p0 rho /\
  hyd_incomp_nb_df_dm A D lam L zeta (- m) PL (- dl) dh' p1' p0' rho
  = hyd_incomp_nb_df_dm A D lam L zeta m PL dl dh p1 p0 rho.
Proof.
  intros.
  destruct (incomp_node_loads_odd A D lam L zeta m PL dl dl dh dh' p1 p0 p1' p0' rho) as (H1 & H2 & _ & _ & H5).
  destruct (incomp_df_dm_even A D lam L zeta m PL dl dh dh' p1 p0 p1' p0' rho) as (H6 & H7).
  repeat split; assumption.
Qed.
Print Assumptions incomp_flow_outputs_odd_jacobian_even.

(* ------------------------------------------------------------------ 1b. reverse_branch (H-model of the pit) *)

(* the heights along a pipe declared the other way round are the same heights in reverse order *)
Theorem reverse_pipe_heights : forall hf ht n, Rsection_heights ht hf n = rev (Rsection_heights hf ht n).
Proof. exact section_heights_reverse. Qed.
Print Assumptions reverse_pipe_heights.

(* ... and its chain of sections is the mirrored chain: section k of the reversed pipe is section n-1-k of the
   original with its ends exchanged (internal nodes renumbered by [mirror]) *)
Theorem reverse_pipe_chain : forall (start : nat) (p : @pipe R) k,
  (1 <= p_sections p)%nat -> (k < p_sections p)%nat ->
  let n := p_sections p in
  let '(a, b) := nth (n - 1 - k) (chain_one start p) (O, O) in
  nth k (chain_one start (reverse_pipe p)) (O, O) =
  ((if Nat.eqb k 0 then b else mirror start n b), (if Nat.eqb (S k) n then a else mirror start n a)).
Proof. intros start p k. exact (chain_one_reverse start p k). Qed.
Print Assumptions reverse_pipe_chain.

(* ------------------------------------------------------------------ 2. sections_telescope *)

(* for every n >= 1: the n section residuals (section parameters as the pit holds them: length_km*1000/n,
   loss_coefficient/n, interpolated heights; common m, rho, lambda; any pressures q_0..q_n along the chain) add up to
   the residual of the same pipe with one section between the two end pressures - both engines *)
Theorem sections_telescope : forall n A D lam len_km zeta m dl rho hf ht (q : nat -> R), (1 <= n)%nat ->
  sumR n (section_residual_np A D lam len_km zeta m dl rho hf ht q n)
  = section_residual_np A D lam len_km zeta m dl rho hf ht (fun k => if Nat.eqb k 0 then q O else q n) 1 0 /\
  sumR n (section_residual_nb A D lam len_km zeta m dl rho hf ht q n)
  = section_residual_nb A D lam len_km zeta m dl rho hf ht (fun k => if Nat.eqb k 0 then q O else q n) 1 0.
Proof. intros. split; [apply sections_telescope_np | apply sections_telescope_nb]; assumption. Qed.
Print Assumptions sections_telescope.

(* hence the end pressures and the flow of a solved n-section pipe solve the one-section pipe *)
Theorem sections_solution_solves_single_section : forall n A D lam len_km zeta m dl rho hf ht (q : nat -> R),
  (1 <= n)%nat ->
  (forall k, (k < n)%nat -> section_residual_np A D lam len_km zeta m dl rho hf ht q n k = 0) ->
  section_residual_np A D lam len_km zeta m dl rho hf ht (fun k => if Nat.eqb k 0 then q O else q n) 1 0 = 0.
Proof. exact sections_solution_is_single_solution. Qed.
Print Assumptions sections_solution_solves_single_section.

(* the one-section residual is the kernel at the documented pipe parameters *)
Theorem single_section_is_the_pipe : forall A D lam len_km zeta m dl rho hf ht (q : nat -> R),
  section_residual_np A D lam len_km zeta m dl rho hf ht q 1 0
  = hyd_incomp_np_load_vec A D lam (len_km * 1000) zeta m 0 dl (hf - ht) (q 1%nat) (q 0%nat) rho.
Proof.
  intros. unfold section_residual_np.
  destruct (section_heights_ends hf ht 1 (le_n 1)) as [E0 E1]. rewrite E0, E1.
  destruct (sec_single len_km zeta) as [El Ez]. rewrite El, Ez. reflexivity.
Qed.
Print Assumptions single_section_is_the_pipe.

(* ------------------------------------------------------------------ 3. sections_eq_series *)

(* the parameters the pit holds for section k of an n-section pipe (any fluid) are those of a one-section pipe of
   length / n and loss coefficient / n whose end junctions lie at the interpolated heights *)
Theorem series_piece_parameters : forall n k len_km zeta hf ht, (1 <= n)%nat -> (k <= n)%nat ->
  Rsec_length len_km n = Rsec_length (len_km / INR n) 1 /\
  Rsec_zeta zeta n = Rsec_zeta (zeta / INR n) 1 /\
  nth k (Rsection_heights hf ht n) 0 = hf + (ht - hf) * INR k / INR n.
Proof.
  intros n k len_km zeta hf ht Hn Hk.
  assert (Hn0 : INR n <> 0) by (apply not_0_INR; lia).
  destruct (sec_single (len_km / INR n) (zeta / INR n)) as [El Ez]. rewrite El, Ez.
  split; [|split].
  - unfold Rsec_length, sec_length. rewrite Rthousand. fold Rinj. rewrite Rinj_INR. field. exact Hn0.
  - unfold Rsec_zeta, sec_zeta. fold Rinj. rewrite Rinj_INR. reflexivity.
  - apply section_heights_nth; assumption.
Qed.
Print Assumptions series_piece_parameters.

(* hence (liquids) section k has the residual of that one-section pipe fed with the same two pressures *)
Theorem sections_eq_series : forall n k A D lam len_km zeta m dl rho hf ht (q : nat -> R),
  (1 <= n)%nat -> (k < n)%nat ->
  let h := fun i : nat => hf + (ht - hf) * INR i / INR n in
  section_residual_np A D lam len_km zeta m dl rho hf ht q n k
  = section_residual_np A D lam (len_km / INR n) (zeta / INR n) m dl rho (h k) (h (S k)) (fun i => q (k + i)%nat) 1 0.
Proof. exact section_is_series_piece. Qed.
Print Assumptions sections_eq_series.

(* node renumbering: under any renaming rho that sends the internal nodes of the n-section pipe to the new junctions
   js (and keeps its two end junctions), FROM_NODE / TO_NODE of its sections are those of the n one-section pipes
   from_junction -> js_1 -> ... -> js_(n-1) -> to_junction, wherever these sit in the pits (start, start') *)
Theorem sections_eq_series_chain : forall (start start' : nat) (p : @pipe R) (rho : nat -> nat) js len zeta,
  rho (p_from p) = p_from p -> rho (p_to p) = p_to p -> map rho (seq start (int_nodes p)) = js ->
  map (fun ab => (rho (fst ab), rho (snd ab))) (chain_one start p) = chain start' (series_pieces p js len zeta).
Proof. intros. apply chain_sections_eq_series; assumption. Qed.
Print Assumptions sections_eq_series_chain.

(* ------------------------------------------------------------------ 4. load_merge / source_is_negative_sink *)

Theorem load_merge : forall (A : Type) (zero one : A) (add mul sub : A -> A -> A) (opp : A -> A),
  ring_theory zero one add mul sub opp eq ->
  forall (tables : list (A * list (@load_row A))) (j : Z),
  total_load zero one add mul [(one, [merged_sink zero one add mul tables j])] j = total_load zero one add mul tables j.
Proof. intros A zero one add mul sub opp Rth. exact (Proofs.load_merge zero one add mul sub opp Rth). Qed.
Print Assumptions load_merge.

Theorem load_order_irrelevant : forall (A : Type) (zero one : A) (add mul sub : A -> A -> A) (opp : A -> A),
  ring_theory zero one add mul sub opp eq ->
  (forall t t' j, Permutation t t' -> total_load zero one add mul t j = total_load zero one add mul t' j) /\
  (forall s rows rows' rest j, Permutation rows rows' ->
     total_load zero one add mul ((s, rows) :: rest) j = total_load zero one add mul ((s, rows') :: rest) j).
Proof.
  intros A zero one add mul sub opp Rth. split.
  - exact (total_load_perm zero one add mul sub opp Rth).
  - intros s rows rows' rest j H. simpl.
    rewrite (table_load_perm zero one add mul sub opp Rth s rows rows' j H). reflexivity.
Qed.
Print Assumptions load_order_irrelevant.

Theorem source_is_negative_sink : forall (A : Type) (zero one : A) (add mul sub : A -> A -> A) (opp : A -> A),
  ring_theory zero one add mul sub opp eq ->
  forall rows j, table_load zero one add mul (opp one) rows j
               = table_load zero one add mul one (map (negate_row zero opp) rows) j.
Proof. intros A zero one add mul sub opp Rth. exact (source_table_is_negative_sink_table zero one add mul sub opp Rth). Qed.
Print Assumptions source_is_negative_sink.

Theorem load_is_sinks_plus_storages_minus_sources :
  forall (A : Type) (zero one : A) (add mul sub : A -> A -> A) (opp : A -> A),
  ring_theory zero one add mul sub opp eq ->
  forall sinks sources storages j,
  total_load zero one add mul [(one, sinks); (opp one, sources); (one, storages)] j
  = sub (add (table_load zero one add mul one sinks j) (table_load zero one add mul one storages j))
        (table_load zero one add mul one sources j).
Proof. intros A zero one add mul sub opp Rth. exact (Proofs.load_is_sinks_plus_storages_minus_sources zero one add mul sub opp Rth). Qed.
Print Assumptions load_is_sinks_plus_storages_minus_sources.

(* 5. disabled_is_absent, for const-flow elements: an out-of-service row equals its absence *)
Theorem disabled_load_is_absent : forall (A : Type) (zero one : A) (add mul sub : A -> A -> A) (opp : A -> A),
  ring_theory zero one add mul sub opp eq ->
  forall s r rows j, l_in_service r = false ->
  table_load zero one add mul s (r :: rows) j = table_load zero one add mul s rows j.
Proof. intros A zero one add mul sub opp Rth. exact (table_load_drop_disabled zero one add mul sub opp Rth). Qed.
Print Assumptions disabled_load_is_absent.

(* 5. disabled_is_absent for branches and junctions, structural part: cited from C04 (builder g2).  The active pit the
   solver works on (rows selected by the in-service / connectivity masks, FROM_NODE / TO_NODE renumbered) is the pit
   of the net in which the unmarked junction and branch rows are deleted.  Numeric columns are per-row copies. *)
Theorem disabled_is_absent_structural : forall js tabs nmask bmask,
  NoDup js -> length nmask = length js -> length bmask = length (concat tabs) ->
  (forall r, In r (C06.Model.select bmask (concat tabs)) ->
     exists kf kt, (kf < length js)%nat /\ (kt < length js)%nat /\
                   C04.Model.nthb nmask kf = true /\ C04.Model.nthb nmask kt = true
                   /\ C04.Model.r_from r = nth kf js 0%Z /\ C04.Model.r_to r = nth kt js 0%Z) ->
  map C04.ProofsReduce.ends (C04.Model.mk_branches (C06.Model.select nmask js) (C04.Model.select_tabs bmask tabs)) =
  map (fun bf => (fst (snd bf), snd (snd bf),
                  (C04.Model.b_active (fst bf), C04.Model.b_directed (fst bf), C04.Model.b_frc (fst bf))))
      (combine (C06.Model.select bmask (C04.Model.mk_branches js tabs))
               (C04.Model.reduce_ft nmask bmask (C04.Model.mk_branches js tabs))).
Proof. exact C04.ProofsReduce.reduce_eq_delete. Qed.
Print Assumptions disabled_is_absent_structural.

(* ------------------------------------------------------------------ 6. pressure_shift (liquids) *)

(* the incompressible kernel (all eight outputs, both engines) is unchanged when both pressures rise by c *)
Theorem pressure_shift_kernel : forall c A D lam L zeta m PL dl dh p1 p0 rho,
  (hyd_incomp_np_load_vec A D lam L zeta m PL dl dh (p1 + c) (p0 + c) rho
   = hyd_incomp_np_load_vec A D lam L zeta m PL dl dh p1 p0 rho /\
   hyd_incomp_np_df_dm A D lam L zeta m PL dl dh (p1 + c) (p0 + c) rho
   = hyd_incomp_np_df_dm A D lam L zeta m PL dl dh p1 p0 rho /\
   hyd_incomp_np_df_dp A D lam L zeta m PL dl dh (p1 + c) (p0 + c) rho
   = hyd_incomp_np_df_dp A D lam L zeta m PL dl dh p1 p0 rho /\
   hyd_incomp_np_df_dp1 A D lam L zeta m PL dl dh (p1 + c) (p0 + c) rho
   = hyd_incomp_np_df_dp1 A D lam L zeta m PL dl dh p1 p0 rho /\
   hyd_incomp_np_dp_frict_loss A D lam L zeta m PL dl dh (p1 + c) (p0 + c) rho
   = hyd_incomp_np_dp_frict_loss A D lam L zeta m PL dl dh p1 p0 rho) /\
  (hyd_incomp_nb_load_vec A D lam L zeta m PL dl dh (p1 + c) (p0 + c) rho
   = hyd_incomp_nb_load_vec A D lam L zeta m PL dl dh p1 p0 rho /\
   hyd_incomp_nb_df_dm A D lam L zeta m PL dl dh (p1 + c) (p0 + c) rho
   = hyd_incomp_nb_df_dm A D lam L zeta m PL dl dh p1 p0 rho /\
   hyd_incomp_nb_df_dp A D lam L zeta m PL dl dh (p1 + c) (p0 + c) rho
   = hyd_incomp_nb_df_dp A D lam L zeta m PL dl dh p1 p0 rho /\
   hyd_incomp_nb_df_dp1 A D lam L zeta m PL dl dh (p1 + c) (p0 + c) rho
   = hyd_incomp_nb_df_dp1 A D lam L zeta m PL dl dh p1 p0 rho /\
   hyd_incomp_nb_dp_frict_loss A D lam L zeta m PL dl dh (p1 + c) (p0 + c) rho
   = hyd_incomp_nb_dp_frict_loss A D lam L zeta m PL dl dh p1 p0 rho).
Proof.
  intros. split.
  - destruct (incomp_pressure_shift_np c A D lam L zeta m PL dl dh p1 p0 rho) as (H1 & _ & _ & H4 & _ & H6 & H7 & H8).
    repeat split; assumption.
  - destruct (incomp_pressure_shift_nb c A D lam L zeta m PL dl dh p1 p0 rho) as (H1 & _ & _ & H4 & _ & H6 & H7 & H8).
    repeat split; assumption.
Qed.
Print Assumptions pressure_shift_kernel.

(* from the node columns: the ambient pressure PAMB(height) is added on both sides, so raising PINIT of both end
   nodes by c leaves the residual unchanged *)
Theorem pressure_shift_from_node_columns : forall c A D lam L zeta m PL dl rho hf af pf tf ht at_ pt tt,
  hyd_incomp_np_load_vec A D lam L zeta m PL dl
     (derived_np_height_difference hf af (pf + c) tf ht at_ (pt + c) tt)
     (derived_np_p_init_i1_abs hf af (pf + c) tf ht at_ (pt + c) tt)
     (derived_np_p_init_i_abs hf af (pf + c) tf ht at_ (pt + c) tt) rho
  = hyd_incomp_np_load_vec A D lam L zeta m PL dl
     (derived_np_height_difference hf af pf tf ht at_ pt tt)
     (derived_np_p_init_i1_abs hf af pf tf ht at_ pt tt)
     (derived_np_p_init_i_abs hf af pf tf ht at_ pt tt) rho /\
  hyd_incomp_nb_load_vec A D lam L zeta m PL dl
     (derived_nb_height_difference hf af (pf + c) tf ht at_ (pt + c) tt)
     (derived_nb_p_init_i1_abs hf af (pf + c) tf ht at_ (pt + c) tt)
     (derived_nb_p_init_i_abs hf af (pf + c) tf ht at_ (pt + c) tt) rho
  = hyd_incomp_nb_load_vec A D lam L zeta m PL dl
     (derived_nb_height_difference hf af pf tf ht at_ pt tt)
     (derived_nb_p_init_i1_abs hf af pf tf ht at_ pt tt)
     (derived_nb_p_init_i_abs hf af pf tf ht at_ pt tt) rho.
Proof. intros. split; [apply incomp_pinit_shift_np | apply incomp_pinit_shift_nb]. Qed.
Print Assumptions pressure_shift_from_node_columns.

(* ------------------------------------------------------------------ non-vacuity *)

(* four sections, loss coefficient 2, a height difference, non-zero flow: the four section residuals of a concrete
   pressure profile add up to the one-section residual, and this value is not trivially zero *)
Example telescope_instance :
  let q := fun k : nat => 5 - INR k / 10 in
  sumR 4 (section_residual_np (1/100) (1/10) (3/100) 1 2 (1/2) 0 1000 0 12 q 4)
  = section_residual_np (1/100) (1/10) (3/100) 1 2 (1/2) 0 1000 0 12 (fun k => if Nat.eqb k 0 then q O else q 4%nat) 1 0
  /\ section_residual_np (1/100) (1/10) (3/100) 1 2 (1/2) 0 1000 0 12 q 1 0 <> 0.
Proof.
  split.
  - apply sections_telescope_np. lia.
  - rewrite single_section_is_the_pipe. unfold hyd_incomp_np_load_vec. cbv zeta. simpl INR.
    rewrite Rabs_right by lra. lra.
Qed.

Example load_instance :
  let sinks := [ {| l_junction := 7%Z; l_mdot := Some 3%Z; l_scaling := 2%Z; l_in_service := true |};
                 {| l_junction := 7%Z; l_mdot := Some 5%Z; l_scaling := 1%Z; l_in_service := false |};
                 {| l_junction := 9%Z; l_mdot := None; l_scaling := 1%Z; l_in_service := true |} ] in
  let sources := [ {| l_junction := 7%Z; l_mdot := Some 4%Z; l_scaling := 1%Z; l_in_service := true |} ] in
  total_load 0%Z 1%Z Z.add Z.mul [(1%Z, sinks); ((-1)%Z, sources)] 7%Z = 2%Z /\
  total_load 0%Z 1%Z Z.add Z.mul [(1%Z, [merged_sink 0%Z 1%Z Z.add Z.mul [(1%Z, sinks); ((-1)%Z, sources)] 7%Z])] 7%Z = 2%Z.
Proof. vm_compute. split; reflexivity. Qed.

(* ================================================================== round 6: thermal kernel, equal solutions *)
From PP Require Import Gen.KThermNp Gen.KThermNb Gen.KTSwitch C08.Unique C08.KernelMono C09.Thermal C09.Network.

(* ------------------------------------------------------------------ 1c. reverse_branch, thermal calculation (T-tie) *)
(* derivatives_thermal_np: a branch declared the other way round (node temperatures exchanged, flow negated; inlet and
   outlet node chosen by FROM_NODE_T_SWITCHED := MDOTINIT < -2e-11 through get_from/to_nodes_corrected) has the same
   residual fb, the same node contribution fnt and the same Jacobian entries, for every m *)
Theorem thermal_reverse_branch : forall amb al DO L m Q TE TL cpb cpn nf tout tn Tf Tt,
  therm_np_fb amb al DO L (- m) Q TE TL cpb cpn nf (t_inlet Tt Tf (- m)) tout tn (t_outnode Tt Tf (- m))
  = therm_np_fb amb al DO L m Q TE TL cpb cpn nf (t_inlet Tf Tt m) tout tn (t_outnode Tf Tt m) /\
  therm_np_dfb_dt amb al DO L (- m) Q TE TL cpb cpn nf (t_inlet Tt Tf (- m)) tout tn (t_outnode Tt Tf (- m))
  = therm_np_dfb_dt amb al DO L m Q TE TL cpb cpn nf (t_inlet Tf Tt m) tout tn (t_outnode Tf Tt m) /\
  therm_np_dfb_dtout amb al DO L (- m) Q TE TL cpb cpn nf (t_inlet Tt Tf (- m)) tout tn (t_outnode Tt Tf (- m))
  = therm_np_dfb_dtout amb al DO L m Q TE TL cpb cpn nf (t_inlet Tf Tt m) tout tn (t_outnode Tf Tt m) /\
  therm_np_fnt amb al DO L (- m) Q TE TL cpb cpn nf (t_inlet Tt Tf (- m)) tout tn (t_outnode Tt Tf (- m))
  = therm_np_fnt amb al DO L m Q TE TL cpb cpn nf (t_inlet Tf Tt m) tout tn (t_outnode Tf Tt m) /\
  therm_np_dfnt_dt amb al DO L (- m) Q TE TL cpb cpn nf (t_inlet Tt Tf (- m)) tout tn (t_outnode Tt Tf (- m))
  = therm_np_dfnt_dt amb al DO L m Q TE TL cpb cpn nf (t_inlet Tf Tt m) tout tn (t_outnode Tf Tt m) /\
  therm_np_dfnt_dtout amb al DO L (- m) Q TE TL cpb cpn nf (t_inlet Tt Tf (- m)) tout tn (t_outnode Tt Tf (- m))
  = therm_np_dfnt_dtout amb al DO L m Q TE TL cpb cpn nf (t_inlet Tf Tt m) tout tn (t_outnode Tf Tt m).
Proof. exact thermal_reversed_np. Qed.
Print Assumptions thermal_reverse_branch.

(* derivatives_thermal_numba: same; its node term fnt is not masked without flow, so fnt is claimed for |m| > 1e-10 *)
Theorem thermal_reverse_branch_numba : forall amb al DO L m Q TE TL cpb cpn nf tout tn Tf Tt,
  (therm_nb_fb amb al DO L (- m) Q TE TL cpb cpn nf (t_inlet Tt Tf (- m)) tout tn (t_outnode Tt Tf (- m))
   = therm_nb_fb amb al DO L m Q TE TL cpb cpn nf (t_inlet Tf Tt m) tout tn (t_outnode Tf Tt m) /\
   therm_nb_dfb_dt amb al DO L (- m) Q TE TL cpb cpn nf (t_inlet Tt Tf (- m)) tout tn (t_outnode Tt Tf (- m))
   = therm_nb_dfb_dt amb al DO L m Q TE TL cpb cpn nf (t_inlet Tf Tt m) tout tn (t_outnode Tf Tt m) /\
   therm_nb_dfb_dtout amb al DO L (- m) Q TE TL cpb cpn nf (t_inlet Tt Tf (- m)) tout tn (t_outnode Tt Tf (- m))
   = therm_nb_dfb_dtout amb al DO L m Q TE TL cpb cpn nf (t_inlet Tf Tt m) tout tn (t_outnode Tf Tt m) /\
   therm_nb_dfnt_dt amb al DO L (- m) Q TE TL cpb cpn nf (t_inlet Tt Tf (- m)) tout tn (t_outnode Tt Tf (- m))
   = therm_nb_dfnt_dt amb al DO L m Q TE TL cpb cpn nf (t_inlet Tf Tt m) tout tn (t_outnode Tf Tt m) /\
   therm_nb_dfnt_dtout amb al DO L (- m) Q TE TL cpb cpn nf (t_inlet Tt Tf (- m)) tout tn (t_outnode Tt Tf (- m))
   = therm_nb_dfnt_dtout amb al DO L m Q TE TL cpb cpn nf (t_inlet Tf Tt m) tout tn (t_outnode Tf Tt m)) /\
  (1 / 10000000000 < Rabs m ->
   therm_nb_fnt amb al DO L (- m) Q TE TL cpb cpn nf (t_inlet Tt Tf (- m)) tout tn (t_outnode Tt Tf (- m))
   = therm_nb_fnt amb al DO L m Q TE TL cpb cpn nf (t_inlet Tf Tt m) tout tn (t_outnode Tf Tt m)).
Proof. exact thermal_reversed_nb. Qed.
Print Assumptions thermal_reverse_branch_numba.

(* ------------------------------------------------------------------ 7. equal solutions (network model of C08.Unique) *)

(* reverse_branch, end to end: if (p, m) solves N, then p with the flows of the reversed branches negated solves the
   net in which any subset of branches (mask) is declared the other way round ... *)
Theorem reversed_net_has_reversed_solution : forall n slack pfix load bs p ms mask,
  solves n slack pfix load bs p ms -> solves n slack pfix load (rev_where mask bs) p (neg_where mask ms).
Proof. exact reversed_net_solution. Qed.
Print Assumptions reversed_net_has_reversed_solution.

(* ... and for strictly increasing laws it is THE solution of the reversed description *)
Theorem reversed_net_solution_is_unique : forall n slack pfix load bs p ms mask p' ms',
  in_range n bs -> Forall (fun b => strictly_increasing (phi b)) bs ->
  solves n slack pfix load bs p ms -> solves n slack pfix load (rev_where mask bs) p' ms' ->
  ms' = neg_where mask ms /\ forall i, Reach n slack (rev_where mask bs) i -> p' i = p i.
Proof. exact reversed_net_unique. Qed.
Print Assumptions reversed_net_solution_is_unique.

(* tie to the generated kernel: the model branch of a liquid pipe / valve (no lift) is the vanishing of the generated
   residual, its law is strictly increasing, and the pipe declared the other way round (ends, heights, ambient pressures
   exchanged) is exactly [rev_branch] of it *)
Theorem liquid_branch_of_the_kernel : forall f t A D eta k L zeta rho hf ht af at_,
  (forall (p : nat -> R) m dl,
     p f - p t + cst (incomp_branch f t A D eta k L zeta rho hf ht af at_)
       = phi (incomp_branch f t A D eta k L zeta rho hf ht af at_) m
     <-> hyd_incomp_np_load_vec A D (calc_lambda_incomp_np_lambda_tot A D eta k m) L zeta m 0 dl (hf - ht)
           (p t + at_) (p f + af) rho = 0) /\
  incomp_branch t f A D eta k L zeta rho ht hf at_ af = rev_branch (incomp_branch f t A D eta k L zeta rho hf ht af at_) /\
  (0 < A -> 0 < D -> 0 < eta -> 0 < rho -> 0 < k -> k <> 371 / 100 * D -> 0 <= L -> 0 <= zeta -> 0 < L + zeta ->
   strictly_increasing (phi (incomp_branch f t A D eta k L zeta rho hf ht af at_))).
Proof.
  intros. split; [|split].
  - intros p m dl. exact (incomp_branch_law_is_residual f t A D eta k L zeta rho hf ht af at_ p m dl).
  - apply incomp_branch_reversed.
  - apply incomp_branch_mono.
Qed.
Print Assumptions liquid_branch_of_the_kernel.

(* pressure_shift, end to end: raising all fixed pressures by c raises all pressures by c and leaves the flows; for
   strictly increasing laws nothing else solves the shifted net *)
Theorem pressure_shift_solution : forall n slack pfix load bs p ms c,
  solves n slack pfix load bs p ms -> solves n slack (fun i => pfix i + c) load bs (fun i => p i + c) ms.
Proof. exact pressure_shift_net. Qed.
Print Assumptions pressure_shift_solution.

Theorem pressure_shift_solution_is_unique : forall n slack pfix load bs p ms c p' ms',
  in_range n bs -> Forall (fun b => strictly_increasing (phi b)) bs ->
  solves n slack pfix load bs p ms -> solves n slack (fun i => pfix i + c) load bs p' ms' ->
  ms' = ms /\ forall i, Reach n slack bs i -> p' i = p i + c.
Proof. exact pressure_shift_unique. Qed.
Print Assumptions pressure_shift_solution_is_unique.

(* load_merge, end to end: the net in which every junction carries one sink with the summed scaled flow (Model.merged_sink)
   has exactly the solutions of the net with the original sinks / sources / storages *)
Theorem merged_loads_have_same_solutions : forall n slack pfix bs p ms tables (label : nat -> Z) js,
  NoDup js -> (forall i, (i < n)%nat -> In (label i) js) ->
  solves n slack pfix (fun i => Rtotal_load tables (label i)) bs p ms ->
  solves n slack pfix (fun i => Rtotal_load [(1, map (Rmerged_sink tables) js)] (label i)) bs p ms.
Proof. exact merged_loads_same_solutions. Qed.
Print Assumptions merged_loads_have_same_solutions.

(* sections / series, end to end: cutting a branch at a new load-free node into two branches whose laws and constants
   add up to the original ones gives a net solved by the same pressures and flows (pressure of the new node
   p fn + cst1 - phi1 m); repeated n-1 times this is the n-section / n-pipes-in-series description, and
   sections_telescope says the code's section parameters add up in this way *)
Theorem series_split_has_same_solution : forall n slack pfix load b rest p m ms phi1 phi2 cst1 cst2,
  (fn b < n)%nat -> (tn b < n)%nat -> in_range n rest ->
  (forall x, phi b x = phi1 x + phi2 x) -> cst b = cst1 + cst2 ->
  solves n slack pfix load (b :: rest) p (m :: ms) ->
  solves (S n) (split_slack n slack) pfix (split_load n load)
         ({| fn := fn b; tn := n; phi := phi1; cst := cst1 |} :: {| fn := n; tn := tn b; phi := phi2; cst := cst2 |} :: rest)
         (split_p n p (p (fn b) + cst1 - phi1 m)) (m :: m :: ms).
Proof. exact series_split_solution. Qed.
Print Assumptions series_split_has_same_solution.

(* non-vacuity: a meshed net with a parallel pair solved exactly; its reversal (branches 0 and 2), its shift by 3/2 and the
   split of its first branch are solved by the transformed solutions *)
Definition lin (k : R) : R -> R := fun m => k * m.
Definition ex_b0 : branch := {| fn := 0; tn := 1; phi := lin 1; cst := 0 |}.
Definition ex_bs : list branch := [ ex_b0; ex_b0; {| fn := 1; tn := 2; phi := lin 2; cst := 0 |} ].
Definition ex_p : nat -> R := fun i => match i with O => 5 | S O => 4 | _ => 0 end.
Example ex_solves : solves 3 (fun i => Nat.eqb i 0) (fun _ => 5) (fun i => if Nat.eqb i 2 then 2 else 0) ex_bs ex_p [1; 1; 2].
Proof.
  constructor.
  - reflexivity.
  - intros i Hi Hs. destruct i as [|[|[|]]]; simpl in *; try discriminate; try lia; reflexivity.
  - intros i Hi Hs. destruct i as [|[|[|]]]; simpl in *; try discriminate; unfold ind; simpl; lra.
  - repeat constructor; simpl; unfold lin; lra.
Qed.
Example ex_reversed : solves 3 (fun i => Nat.eqb i 0) (fun _ => 5) (fun i => if Nat.eqb i 2 then 2 else 0)
                             (rev_where [true; false; true] ex_bs) ex_p [-1; 1; -2]
                      /\ fn (nth 2 (rev_where [true; false; true] ex_bs) ex_b0) = 2%nat.
Proof.
  split; [|reflexivity].
  replace [-1; 1; -2] with (neg_where [true; false; true] [1; 1; 2]) by (simpl; repeat f_equal; lra).
  apply reversed_net_has_reversed_solution. exact ex_solves.
Qed.
Example ex_shifted : solves 3 (fun i => Nat.eqb i 0) (fun i => 5 + 3 / 2) (fun i => if Nat.eqb i 2 then 2 else 0) ex_bs
                            (fun i => ex_p i + 3 / 2) [1; 1; 2].
Proof. exact (pressure_shift_solution _ _ _ _ _ _ _ (3 / 2) ex_solves). Qed.
Example ex_split : solves 4 (split_slack 3 (fun i => Nat.eqb i 0)) (fun _ => 5) (split_load 3 (fun i => if Nat.eqb i 2 then 2 else 0))
                          ({| fn := 0; tn := 3; phi := lin (1 / 4); cst := 0 |} :: {| fn := 3; tn := 1; phi := lin (3 / 4); cst := 0 |} :: tl ex_bs)
                          (split_p 3 ex_p (5 + 0 - lin (1 / 4) 1)) [1; 1; 1; 2].
Proof.
  apply (series_split_has_same_solution 3 _ _ _ ex_b0 (tl ex_bs) ex_p 1 [1; 2] (lin (1 / 4)) (lin (3 / 4)) 0 0);
    simpl; try lia; try lra.
  - repeat constructor.
  - intros x. unfold lin. lra.
  - exact ex_solves.
Qed.
(* the thermal switch: a branch with flow reads the same physical inlet in both declarations *)
Example ex_thermal_inlet : t_inlet 350 320 (1 / 2) = 350 /\ t_inlet 320 350 (- (1 / 2)) = 350.
Proof.
  unfold t_inlet, corrected_from, t_switched, t_switch_threshold. split.
  - destruct (Rltb_spec (1 / 2) ((- 1) / 50000000000)); [lra|reflexivity].
  - destruct (Rltb_spec (- (1 / 2)) ((- 1) / 50000000000)); [reflexivity|lra].
Qed.
