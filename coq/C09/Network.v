(* C09 - from equal residuals to equal solutions.
   The network model and the uniqueness theorem are C08's (coq/C08/Unique.v: a net is a list of branches
   (fn, tn, phi, cst) with the law  p fn - p tn + cst = phi m, node balance at non-slack nodes, fixed pressures at
   slack nodes).  Here: a rewritten net has the correspondingly rewritten solution, and - the branch laws being
   strictly increasing (C08/KernelMono.v for the liquid law of the generated kernel) - that is its only solution. *)
From Coq Require Import Reals List Lra Lia Bool ZArith FunctionalExtensionality.
From PP Require Import Kern.RBool Gen.KHydIncompNp Gen.KCalcLambda C08.Unique C08.KernelMono C09.Model C09.Proofs.
Import ListNotations.
Open Scope R_scope.

(* ------------------------------------------------------------------ reversal of any subset of branches *)
Definition rev_branch (b : branch) : branch :=
  {| fn := tn b; tn := fn b; phi := fun m => - phi b (- m); cst := - cst b |}.

Fixpoint rev_where (mask : list bool) (bs : list branch) : list branch :=
  match mask, bs with
  | r :: mk, b :: bs' => (if r then rev_branch b else b) :: rev_where mk bs'
  | _, _ => bs
  end.
Fixpoint neg_where (mask : list bool) (ms : list R) : list R :=
  match mask, ms with
  | r :: mk, m :: ms' => (if r then - m else m) :: neg_where mk ms'
  | _, _ => ms
  end.

Lemma rev_where_length mask bs : length (rev_where mask bs) = length bs.
Proof. revert bs. induction mask as [|r mk IH]; intros [|b bs]; simpl; auto. Qed.
Lemma neg_where_length mask ms : length (neg_where mask ms) = length ms.
Proof. revert ms. induction mask as [|r mk IH]; intros [|m ms]; simpl; auto. Qed.

Lemma outflow_rev mask : forall bs ms i,
  outflow (combine (rev_where mask bs) (neg_where mask ms)) i = outflow (combine bs ms) i.
Proof.
  induction mask as [|r mk IH]; intros [|b bs] [|m ms] i; simpl; try reflexivity.
  rewrite IH. destruct r; simpl; lra.
Qed.

Lemma law_rev mask (p : nat -> R) : forall bs ms,
  Forall2 (fun b m => p (fn b) - p (tn b) + cst b = phi b m) bs ms ->
  Forall2 (fun b m => p (fn b) - p (tn b) + cst b = phi b m) (rev_where mask bs) (neg_where mask ms).
Proof.
  induction mask as [|r mk IH]; intros bs ms H; [destruct bs, ms; exact H|].
  destruct H as [|b m bs ms Hb Hr]; [constructor|]. simpl. constructor; [|apply IH; exact Hr].
  destruct r; [|exact Hb]. simpl. rewrite Ropp_involutive. lra.
Qed.

Lemma in_range_rev n mask : forall bs, in_range n bs -> in_range n (rev_where mask bs).
Proof.
  unfold in_range. induction mask as [|r mk IH]; intros bs H; [destruct bs; exact H|].
  destruct H as [|b bs Hb Hr]; [constructor|]. simpl. constructor; [|apply IH; exact Hr].
  destruct r; simpl; tauto.
Qed.

Lemma mono_rev_branch b : strictly_increasing (phi b) -> strictly_increasing (phi (rev_branch b)).
Proof. intros H x y Hxy. simpl. assert (phi b (- y) < phi b (- x)) by (apply H; lra). lra. Qed.

Lemma mono_rev mask : forall bs, Forall (fun b => strictly_increasing (phi b)) bs ->
  Forall (fun b => strictly_increasing (phi b)) (rev_where mask bs).
Proof.
  induction mask as [|r mk IH]; intros bs H; [destruct bs; exact H|].
  destruct H as [|b bs Hb Hr]; [constructor|]. simpl. constructor; [|apply IH; exact Hr].
  destruct r; [apply mono_rev_branch|]; exact Hb.
Qed.

(* a solution of N with the flows of the reversed branches negated solves the net with those branches reversed *)
Lemma reversed_net_solution n slack pfix load bs p ms mask :
  solves n slack pfix load bs p ms -> solves n slack pfix load (rev_where mask bs) p (neg_where mask ms).
Proof.
  intros [Hl Hf Hb Hw]. constructor.
  - rewrite rev_where_length, neg_where_length. exact Hl.
  - exact Hf.
  - intros i Hi Hs. rewrite outflow_rev. apply Hb; assumption.
  - apply law_rev. exact Hw.
Qed.

(* ... and it is THE solution: whatever a run on the reversed description converges to (exactly) has these flows and
   these pressures at every supplied junction *)
Lemma reversed_net_unique n slack pfix load bs p ms mask p' ms' :
  in_range n bs -> Forall (fun b => strictly_increasing (phi b)) bs ->
  solves n slack pfix load bs p ms -> solves n slack pfix load (rev_where mask bs) p' ms' ->
  ms' = neg_where mask ms /\ forall i, Reach n slack (rev_where mask bs) i -> p' i = p i.
Proof.
  intros Hr Hm S S'.
  pose proof (reversed_net_solution n slack pfix load bs p ms mask S) as S0.
  pose proof (in_range_rev n mask bs Hr) as Hr'. pose proof (mono_rev mask bs Hm) as Hm'.
  split.
  - exact (flows_unique n slack pfix load _ p' p ms' _ Hr' Hm' S' S0).
  - exact (pressures_unique n slack pfix load _ p' p ms' _ Hr' Hm' S' S0).
Qed.

(* ------------------------------------------------------------------ the liquid branch the code builds *)
(* law of a liquid pipe / valve without pressure lift, read off the generated kernel:
   (p_f + pamb_f) - (p_t + pamb_t) + rho g (h_f - h_t) / 1e5 = phi m     (KernelMono.incomp_residual_is_law_np) *)
Definition incomp_branch (f t : nat) (A D eta k L zeta rho hf ht af at_ : R) : branch :=
  {| fn := f; tn := t;
     phi := incomp_phi_np A D eta k L zeta 0 0 0 0 0 rho;
     cst := rho * (981 / 100) * (hf - ht) / 100000 + (af - at_) |}.

Lemma incomp_phi_odd A D eta k L zeta PL dl dh pt pf rho m :
  incomp_phi_np A D eta k L zeta PL dl dh pt pf rho (- m) = - incomp_phi_np A D eta k L zeta PL dl dh pt pf rho m.
Proof.
  unfold incomp_phi_np, hyd_incomp_np_load_vec, calc_lambda_incomp_np_lambda_tot. cbv zeta.
  rewrite Rabs_Ropp. unfold Rdiv. ring.
Qed.

Lemma incomp_phi_ignores A D eta k L zeta PL dl dh pt pf rho m :
  incomp_phi_np A D eta k L zeta PL dl dh pt pf rho m = incomp_phi_np A D eta k L zeta 0 0 0 0 0 rho m.
Proof.
  unfold incomp_phi_np, hyd_incomp_np_load_vec. cbv zeta. unfold Rdiv. ring.
Qed.

(* the branch of the pipe declared the other way round (ends, heights and ambient pressures exchanged) is the
   reversed branch of the network model *)
Lemma incomp_branch_reversed f t A D eta k L zeta rho hf ht af at_ :
  incomp_branch t f A D eta k L zeta rho ht hf at_ af = rev_branch (incomp_branch f t A D eta k L zeta rho hf ht af at_).
Proof.
  unfold incomp_branch, rev_branch. simpl. f_equal.
  - apply functional_extensionality. intros m. rewrite incomp_phi_odd. lra.
  - unfold Rdiv. ring.
Qed.

Lemma incomp_branch_mono f t A D eta k L zeta rho hf ht af at_ :
  0 < A -> 0 < D -> 0 < eta -> 0 < rho -> 0 < k -> k <> 371 / 100 * D -> 0 <= L -> 0 <= zeta -> 0 < L + zeta ->
  strictly_increasing (phi (incomp_branch f t A D eta k L zeta rho hf ht af at_)).
Proof. intros. simpl. apply incomp_nikuradse_law_strictly_monotone; assumption. Qed.

(* the law of the model branch is the vanishing of the generated residual at gauge pressures pf, pt *)
Lemma incomp_branch_law_is_residual f t A D eta k L zeta rho hf ht af at_ (p : nat -> R) m dl :
  p (fn (incomp_branch f t A D eta k L zeta rho hf ht af at_)) - p (tn (incomp_branch f t A D eta k L zeta rho hf ht af at_))
    + cst (incomp_branch f t A D eta k L zeta rho hf ht af at_) = phi (incomp_branch f t A D eta k L zeta rho hf ht af at_) m
  <-> hyd_incomp_np_load_vec A D (calc_lambda_incomp_np_lambda_tot A D eta k m) L zeta m 0 dl (hf - ht)
        (p t + at_) (p f + af) rho = 0.
Proof.
  simpl. rewrite (incomp_residual_is_law_np A D eta k L zeta 0 dl (hf - ht) (p t + at_) (p f + af) rho m).
  rewrite (incomp_phi_ignores A D eta k L zeta 0 dl (hf - ht) (p t + at_) (p f + af) rho m). split; intros H; lra.
Qed.

(* ------------------------------------------------------------------ pressure shift *)
Lemma pressure_shift_net n slack pfix load bs p ms c :
  solves n slack pfix load bs p ms ->
  solves n slack (fun i => pfix i + c) load bs (fun i => p i + c) ms.
Proof.
  intros [Hl Hf Hb Hw]. constructor; auto.
  - intros i Hi Hs. rewrite (Hf i Hi Hs). reflexivity.
  - clear -Hw. induction Hw as [|b m bs ms Hb Hr IH]; constructor; [lra|exact IH].
Qed.

Lemma pressure_shift_unique n slack pfix load bs p ms c p' ms' :
  in_range n bs -> Forall (fun b => strictly_increasing (phi b)) bs ->
  solves n slack pfix load bs p ms -> solves n slack (fun i => pfix i + c) load bs p' ms' ->
  ms' = ms /\ forall i, Reach n slack bs i -> p' i = p i + c.
Proof.
  intros Hr Hm S S'. pose proof (pressure_shift_net n slack pfix load bs p ms c S) as S0. split.
  - exact (flows_unique n slack _ load bs p' _ ms' ms Hr Hm S' S0).
  - exact (pressures_unique n slack _ load bs p' _ ms' ms Hr Hm S' S0).
Qed.

(* ------------------------------------------------------------------ loads *)
Lemma solves_load_ext n slack pfix load load' bs p ms :
  (forall i, (i < n)%nat -> load i = load' i) -> solves n slack pfix load bs p ms -> solves n slack pfix load' bs p ms.
Proof.
  intros He [Hl Hf Hb Hw]. constructor; auto. intros i Hi Hs. rewrite <- (He i Hi). apply Hb; assumption.
Qed.

Definition Rtotal_load := @total_load R 0 1 Rplus Rmult.
Definition Rtable_load := @table_load R 0 1 Rplus Rmult.
Definition Rmerged_sink := @merged_sink R 0 1 Rplus Rmult.

Lemma Rtable_load_cons s r rows j :
  Rtable_load s (r :: rows) j
  = if Z.eqb (l_junction r) j then row_flow 0 1 Rmult s r + Rtable_load s rows j else Rtable_load s rows j.
Proof. reflexivity. Qed.

Lemma merged_row_flow tables a : row_flow 0 1 Rmult 1 (Rmerged_sink tables a) = Rtotal_load tables a.
Proof. unfold row_flow, Rmerged_sink, merged_sink, Rtotal_load. simpl. ring. Qed.

(* one merged sink per junction label *)
Lemma merged_table tables : forall js j, NoDup js -> In j js ->
  Rtable_load 1 (map (Rmerged_sink tables) js) j = Rtotal_load tables j.
Proof.
  induction js as [|a js IH]; intros j Hn Hin; [destruct Hin|].
  inversion Hn as [|x l Hna Hnd]; subst. cbn [map]. rewrite Rtable_load_cons.
  change (l_junction (Rmerged_sink tables a)) with a.
  destruct (Z.eqb_spec a j) as [->|Hne].
  - assert (Hz : Rtable_load 1 (map (Rmerged_sink tables) js) j = 0).
    { clear -Hna. induction js as [|b js IH]; [reflexivity|]. cbn [map]. rewrite Rtable_load_cons.
      change (l_junction (Rmerged_sink tables b)) with b.
      destruct (Z.eqb_spec b j) as [->|_]; [exfalso; apply Hna; left; reflexivity|].
      apply IH. intros H; apply Hna; right; exact H. }
    rewrite Hz, merged_row_flow. ring.
  - destruct Hin as [->|Hin]; [contradiction|]. apply IH; assumption.
Qed.

(* the net in which every junction carries one sink with the summed scaled flow has the same solutions *)
Lemma merged_loads_same_solutions n slack pfix bs p ms tables (label : nat -> Z) js :
  NoDup js -> (forall i, (i < n)%nat -> In (label i) js) ->
  solves n slack pfix (fun i => Rtotal_load tables (label i)) bs p ms ->
  solves n slack pfix (fun i => Rtotal_load [(1, map (Rmerged_sink tables) js)] (label i)) bs p ms.
Proof.
  intros Hn Hin. apply solves_load_ext. intros i Hi.
  change (Rtotal_load [(1, map (Rmerged_sink tables) js)] (label i))
    with (Rtable_load 1 (map (Rmerged_sink tables) js) (label i) + 0).
  rewrite (merged_table tables js (label i) Hn (Hin i Hi)). lra.
Qed.

(* ------------------------------------------------------------------ sections / series: splitting a branch *)
(* The first branch b of a net over n nodes is cut into b1 : fn b -> x and b2 : x -> tn b at a new node x = n
   (no load, not a slack) with phi b = phi1 + phi2 and cst b = cst1 + cst2.  n sections (or n pipes in series) arise by
   repeating the cut; C09.Proofs.sections_telescope is the statement that the code's section parameters add up this way. *)
Definition split_slack (n : nat) (slack : nat -> bool) (i : nat) : bool := if Nat.eqb i n then false else slack i.
Definition split_load (n : nat) (load : nat -> R) (i : nat) : R := if Nat.eqb i n then 0 else load i.
Definition split_p (n : nat) (p : nat -> R) (px : R) (i : nat) : R := if Nat.eqb i n then px else p i.

Lemma outflow_out_of_range n bm : Forall (fun x => (fn (fst x) < n)%nat /\ (tn (fst x) < n)%nat) bm -> outflow bm n = 0.
Proof.
  induction 1 as [|[b m] r [Hf Ht] _ IH]; simpl; [reflexivity|]. simpl in Hf, Ht. rewrite IH. unfold ind.
  destruct (Nat.eqb_spec (fn b) n); [lia|]. destruct (Nat.eqb_spec (tn b) n); [lia|]. lra.
Qed.

Lemma series_split_solution n slack pfix load b rest p m ms phi1 phi2 cst1 cst2 :
  (fn b < n)%nat -> (tn b < n)%nat -> in_range n rest ->
  (forall x, phi b x = phi1 x + phi2 x) -> cst b = cst1 + cst2 ->
  solves n slack pfix load (b :: rest) p (m :: ms) ->
  solves (S n) (split_slack n slack) pfix (split_load n load)
         ({| fn := fn b; tn := n; phi := phi1; cst := cst1 |} :: {| fn := n; tn := tn b; phi := phi2; cst := cst2 |} :: rest)
         (split_p n p (p (fn b) + cst1 - phi1 m)) (m :: m :: ms).
Proof.
  intros Hfb Htb Hr Hphi Hcst [Hl Hf Hb Hw].
  assert (Hpn : forall i, (i < n)%nat -> split_p n p (p (fn b) + cst1 - phi1 m) i = p i).
  { intros i Hi. unfold split_p. destruct (Nat.eqb_spec i n); [lia|reflexivity]. }
  inversion Hw as [|b0 m0 bs0 ms0 Hlaw Hrest]; subst.
  constructor.
  - simpl in *. lia.
  - intros i Hi Hs. unfold split_slack in Hs. destruct (Nat.eqb_spec i n) as [->|Hne]; [discriminate|].
    rewrite Hpn by lia. apply Hf; [lia|exact Hs].
  - intros i Hi Hs. unfold split_slack in Hs. unfold split_load. simpl.
    destruct (Nat.eqb_spec i n) as [->|Hne].
    + rewrite (outflow_out_of_range n (combine rest ms)) by (apply range_combine; exact Hr).
      unfold ind. rewrite Nat.eqb_refl.
      destruct (Nat.eqb_spec (fn b) n); [lia|]. destruct (Nat.eqb_spec (tn b) n); [lia|]. lra.
    + specialize (Hb i ltac:(lia) Hs). simpl in Hb. rewrite <- Hb. unfold ind.
      destruct (Nat.eqb_spec n i); [lia|]. lra.
  - constructor; [|constructor].
    + simpl. rewrite (Hpn (fn b) Hfb). unfold split_p. rewrite Nat.eqb_refl. lra.
    + simpl. rewrite (Hpn (tn b) Htb). unfold split_p. rewrite Nat.eqb_refl. rewrite Hphi, Hcst in Hlaw. lra.
    + clear -Hrest Hr Hpn. induction Hrest as [|c mc cs mcs Hc _ IH]; constructor.
      * inversion Hr as [|? ? [H1 H2] ?]; subst. rewrite (Hpn (fn c) H1), (Hpn (tn c) H2). exact Hc.
      * apply IH. inversion Hr; assumption.
Qed.
