(* C09 - proofs about the hand-written model (C09/Model.v) and its combination with the generated kernels.
   Part A: load aggregation, for every commutative ring (axiom-free).
   Part B: section expansion over R: interpolated heights reverse with the pipe, the n section residuals of the
           generated incompressible kernel add up to the one-section residual (for every n >= 1). *)
From Coq Require Import List ZArith Bool Lia Permutation Ring Reals Lra.
From PP Require Import C09.Model.
Import ListNotations.

(* ===================================================================================== A. loads *)
Section Loads.
  Context {A : Type} (zero one : A) (add mul sub : A -> A -> A) (opp : A -> A).
  Context (Rth : ring_theory zero one add mul sub opp eq).
  Add Ring Aring : Rth.

  Notation row_flow := (row_flow zero one mul).
  Notation table_load := (table_load zero one add mul).
  Notation total_load := (total_load zero one add mul).
  Notation merged_sink := (merged_sink zero one add mul).
  Notation negate_row := (negate_row zero opp).

  Lemma table_load_app s r1 r2 j : table_load s (r1 ++ r2) j = add (table_load s r1 j) (table_load s r2 j).
  Proof.
    induction r1 as [|r r1 IH]; simpl; [ring|].
    destruct (Z.eqb (l_junction r) j); rewrite IH; ring.
  Qed.

  (* row order of a table is irrelevant *)
  Lemma table_load_perm s rows rows' j : Permutation rows rows' -> table_load s rows j = table_load s rows' j.
  Proof.
    induction 1 as [|x l l' _ IH|x y l|l l' l'' _ IH1 _ IH2]; simpl.
    - reflexivity.
    - rewrite IH; reflexivity.
    - destruct (Z.eqb (l_junction y) j), (Z.eqb (l_junction x) j); ring.
    - rewrite IH1; exact IH2.
  Qed.

  Lemma total_load_app t1 t2 j : total_load (t1 ++ t2) j = add (total_load t1 j) (total_load t2 j).
  Proof. induction t1 as [|[s r] t1 IH]; simpl; [ring|]. rewrite IH. ring. Qed.

  (* order of the components is irrelevant, and so is the row order inside every table *)
  Lemma total_load_perm t t' j : Permutation t t' -> total_load t j = total_load t' j.
  Proof.
    induction 1 as [|[s r] l l' _ IH|[s1 r1] [s2 r2] l|l l' l'' _ IH1 _ IH2]; simpl.
    - reflexivity.
    - rewrite IH; reflexivity.
    - ring.
    - rewrite IH1; exact IH2.
  Qed.

  (* a table may be split at will: two tables with the same sign are one table *)
  Lemma total_load_split s r1 r2 rest j :
    total_load ((s, r1 ++ r2) :: rest) j = total_load ((s, r1) :: (s, r2) :: rest) j.
  Proof. simpl. rewrite table_load_app. ring. Qed.

  (* an out-of-service row, a row with zero / NaN flow and a row at another junction contribute nothing *)
  Lemma row_out_of_service s r : l_in_service r = false -> row_flow s r = zero.
  Proof. intros H. unfold Model.row_flow. rewrite H. simpl. ring. Qed.

  Lemma table_load_drop_disabled s r rows j :
    l_in_service r = false -> table_load s (r :: rows) j = table_load s rows j.
  Proof.
    intros H. simpl. destruct (Z.eqb (l_junction r) j); [|reflexivity].
    rewrite (row_out_of_service s r H). ring.
  Qed.

  Lemma table_load_other_junction s r rows j :
    l_junction r <> j -> table_load s (r :: rows) j = table_load s rows j.
  Proof. intros H. simpl. destruct (Z.eqb_spec (l_junction r) j); [contradiction|reflexivity]. Qed.

  (* the LOAD entry of a junction is the sum over everything connected to it, taken as one sink *)
  Lemma load_merge tables j :
    total_load [(one, [merged_sink tables j])] j = total_load tables j.
  Proof.
    simpl. rewrite Z.eqb_refl. unfold Model.row_flow, Model.merged_sink. simpl. ring.
  Qed.

  Lemma load_merge_elsewhere tables j j' : j <> j' -> total_load [(one, [merged_sink tables j])] j' = zero.
  Proof.
    intros H. simpl. destruct (Z.eqb_spec j j'); [contradiction|]. ring.
  Qed.

  (* a source is a sink of the negated flow (Sink.sign = 1, Source.sign = -1) *)
  Lemma source_is_negative_sink r : row_flow (opp one) r = row_flow one (negate_row r).
  Proof. unfold Model.row_flow, Model.negate_row. simpl. ring. Qed.

  Lemma source_table_is_negative_sink_table rows j :
    table_load (opp one) rows j = table_load one (map negate_row rows) j.
  Proof.
    induction rows as [|r rows IH]; simpl; [reflexivity|].
    rewrite IH, source_is_negative_sink. reflexivity.
  Qed.

  (* closed form: LOAD_j = sum over the tables of  sign * sum of in_service * scaling * mdot  at j *)
  Lemma table_load_sign s rows j : table_load s rows j = mul s (table_load one rows j).
  Proof.
    induction rows as [|r rows IH]; simpl; [ring|].
    destruct (Z.eqb (l_junction r) j); [|exact IH]. rewrite IH. unfold Model.row_flow. ring.
  Qed.

  Lemma load_is_sinks_plus_storages_minus_sources sinks sources storages j :
    total_load [(one, sinks); (opp one, sources); (one, storages)] j
    = sub (add (table_load one sinks j) (table_load one storages j)) (table_load one sources j).
  Proof. simpl. rewrite (table_load_sign (opp one) sources j). ring. Qed.
End Loads.

(* ===================================================================================== B. sections *)
From PP Require Import Kern.RBool Gen.KHydIncompNp Gen.KHydIncompNb.
Open Scope R_scope.

Definition Rinj := @inj R 0 1 Rplus.
Definition Rvinterp1 := @vinterp1 R 0 1 Rplus Rmult Rminus Rdiv.
Definition Rsection_heights := @section_heights R 0 1 Rplus Rmult Rminus Rdiv.
Definition Rsec_length := @sec_length R 0 1 Rplus Rmult Rdiv.
Definition Rsec_zeta := @sec_zeta R 0 1 Rplus Rdiv.

Lemma Rinj_INR n : Rinj n = INR n.
Proof.
  induction n as [|k IH]; [reflexivity|]. unfold Rinj in *. simpl inj. rewrite IH, S_INR. reflexivity.
Qed.

Lemma Rinj_pos n : (1 <= n)%nat -> 0 < Rinj n.
Proof. intros H. rewrite Rinj_INR. apply lt_0_INR. lia. Qed.

Lemma Rthousand : @thousand R 0 1 Rplus Rmult = 1000.
Proof. unfold thousand, ten. simpl. ring. Qed.

(* a one-section pipe gets its own length and loss coefficient *)
Lemma sec_single len zeta : Rsec_length len 1 = len * 1000 /\ Rsec_zeta zeta 1 = zeta.
Proof.
  unfold Rsec_length, Rsec_zeta, sec_length, sec_zeta. rewrite Rthousand. simpl. split; field.
Qed.

(* ---- interpolated heights ---- *)
Lemma vinterp1_length lo hi k : length (Rvinterp1 lo hi k) = k.
Proof. unfold Rvinterp1, vinterp1. rewrite map_length, seq_length. reflexivity. Qed.

Lemma nth_map_seq {B : Type} (f : nat -> B) a k i d : (i < k)%nat -> nth i (map f (seq a k)) d = f (a + i)%nat.
Proof.
  revert a i. induction k as [|k IH]; intros a i H; [lia|]. simpl.
  destruct i as [|i]; [f_equal; lia|]. rewrite IH by lia. f_equal. lia.
Qed.

Lemma vinterp1_nth lo hi k i : (i < k)%nat ->
  nth i (Rvinterp1 lo hi k) 0 = lo + (hi - lo) / INR (S k) * INR (S i).
Proof.
  intros H. unfold Rvinterp1, vinterp1. rewrite nth_map_seq by exact H.
  fold Rinj. rewrite !Rinj_INR. reflexivity.
Qed.

(* declared the other way round, the internal heights come in reverse order *)
Lemma vinterp1_reverse lo hi k : Rvinterp1 hi lo k = rev (Rvinterp1 lo hi k).
Proof.
  apply (nth_ext _ _ 0 0).
  - rewrite rev_length, !vinterp1_length. reflexivity.
  - intros i Hi. rewrite vinterp1_length in Hi.
    rewrite rev_nth by (rewrite vinterp1_length; exact Hi).
    rewrite vinterp1_length, !vinterp1_nth by lia.
    replace (S (k - S i)) with (S k - S i)%nat by lia.
    rewrite minus_INR by lia.
    assert (Hk : INR (S k) <> 0) by (apply not_0_INR; lia).
    field. exact Hk.
Qed.

Lemma section_heights_reverse hf ht n : Rsection_heights ht hf n = rev (Rsection_heights hf ht n).
Proof.
  unfold Rsection_heights, section_heights. fold Rvinterp1.
  simpl rev. rewrite rev_app_distr. simpl. rewrite vinterp1_reverse. reflexivity.
Qed.

Lemma section_heights_length hf ht n : (1 <= n)%nat -> length (Rsection_heights hf ht n) = S n.
Proof.
  intros H. unfold Rsection_heights, section_heights. fold Rvinterp1.
  simpl. rewrite app_length, vinterp1_length. simpl. lia.
Qed.

Lemma section_heights_ends hf ht n : (1 <= n)%nat ->
  nth 0 (Rsection_heights hf ht n) 0 = hf /\ nth n (Rsection_heights hf ht n) 0 = ht.
Proof.
  intros H. unfold Rsection_heights, section_heights. fold Rvinterp1. split; [reflexivity|].
  destruct n as [|k]; [lia|]. simpl.
  rewrite app_nth2 by (rewrite vinterp1_length; lia).
  rewrite vinterp1_length. replace (k - (k - 0))%nat with O by lia. reflexivity.
Qed.

(* equidistant: every section spans the same share of the height difference *)
Lemma section_heights_step hf ht n k : (1 <= n)%nat -> (k < n)%nat ->
  nth k (Rsection_heights hf ht n) 0 - nth (S k) (Rsection_heights hf ht n) 0 = (hf - ht) / INR n.
Proof.
  intros Hn Hk. unfold Rsection_heights, section_heights. fold Rvinterp1.
  destruct n as [|m]; [lia|]. replace (S m - 1)%nat with m by lia.
  assert (Hm : INR (S m) <> 0) by (apply not_0_INR; lia).
  assert (Hlast : forall i, i = m -> nth i (Rvinterp1 hf ht m ++ [ht]) 0 = ht).
  { intros i ->. rewrite app_nth2 by (rewrite vinterp1_length; lia).
    rewrite vinterp1_length, Nat.sub_diag. reflexivity. }
  assert (Hin : forall i, (i < m)%nat ->
            nth i (Rvinterp1 hf ht m ++ [ht]) 0 = hf + (ht - hf) / INR (S m) * INR (S i)).
  { intros i Hi. rewrite app_nth1 by (rewrite vinterp1_length; exact Hi). apply vinterp1_nth; exact Hi. }
  assert (Hm' : INR m + 1 <> 0) by (rewrite <- S_INR; exact Hm).
  destruct k as [|k].
  - simpl nth at 1. change (nth 1 (hf :: ?l) 0) with (nth 0 l 0).
    destruct (Nat.eq_dec m 0) as [->|Hm0].
    + rewrite Hlast by reflexivity. simpl. field.
    + rewrite Hin by lia. rewrite !S_INR. simpl INR. field. exact Hm'.
  - change (nth (S k) (hf :: ?l) 0) with (nth k l 0).
    change (nth (S (S k)) (hf :: ?l) 0) with (nth (S k) l 0).
    rewrite (Hin k) by lia.
    destruct (Nat.eq_dec (S k) m) as [E|E].
    + rewrite Hlast by exact E. rewrite <- E in *. rewrite !S_INR in *. field. exact Hm'.
    + rewrite Hin by lia. rewrite !S_INR in *. field. exact Hm'.
Qed.

(* ---- sums ---- *)
Fixpoint sumR (n : nat) (f : nat -> R) : R :=
  match n with O => 0 | S k => sumR k f + f k end.

Lemma sumR_ext n f g : (forall i, (i < n)%nat -> f i = g i) -> sumR n f = sumR n g.
Proof.
  induction n as [|k IH]; intros H; simpl; [reflexivity|].
  rewrite IH by (intros; apply H; lia). rewrite H by lia. reflexivity.
Qed.
Lemma sumR_plus n f g : sumR n (fun i => f i + g i) = sumR n f + sumR n g.
Proof. induction n as [|k IH]; simpl; lra. Qed.
Lemma sumR_const n c : sumR n (fun _ => c) = INR n * c.
Proof. induction n as [|k IH]; [simpl; lra|]. simpl sumR. rewrite IH, S_INR. lra. Qed.
Lemma sumR_telescope n (q : nat -> R) : sumR n (fun k => q k - q (S k)) = q O - q n.
Proof. induction n as [|k IH]; simpl; lra. Qed.

(* ---- the section residuals add up ---- *)
(* residual of section k of a pipe cut into n sections: parameters as the pit holds them
   (Model.sec_length, Model.sec_zeta, Model.section_heights), PL = 0, q = absolute pressure along the chain *)
Definition section_residual_np (A D lam len_km zeta m dl rho hf ht : R) (q : nat -> R) (n k : nat) : R :=
  hyd_incomp_np_load_vec A D lam (Rsec_length len_km n) (Rsec_zeta zeta n) m 0 dl
    (nth k (Rsection_heights hf ht n) 0 - nth (S k) (Rsection_heights hf ht n) 0) (q (S k)) (q k) rho.
Definition section_residual_nb (A D lam len_km zeta m dl rho hf ht : R) (q : nat -> R) (n k : nat) : R :=
  hyd_incomp_nb_load_vec A D lam (Rsec_length len_km n) (Rsec_zeta zeta n) m 0 dl
    (nth k (Rsection_heights hf ht n) 0 - nth (S k) (Rsection_heights hf ht n) 0) (q (S k)) (q k) rho.

Lemma sections_telescope_np : forall n A D lam len_km zeta m dl rho hf ht (q : nat -> R), (1 <= n)%nat ->
  sumR n (section_residual_np A D lam len_km zeta m dl rho hf ht q n)
  = section_residual_np A D lam len_km zeta m dl rho hf ht (fun k => if Nat.eqb k 0 then q O else q n) 1 0.
Proof.
  intros n A D lam len_km zeta m dl rho hf ht q Hn.
  assert (Hn0 : INR n <> 0) by (apply not_0_INR; lia).
  set (cf := (1 / (A ^ 2 * rho * 100000 * 2)) * (Rabs m * m) * ((len_km * 1000) * lam / D + zeta)).
  rewrite (sumR_ext n _ (fun k => (q k - q (S k)) + ((rho * (981 / 100)) * ((hf - ht) / INR n) / 100000 - cf / INR n))).
  - rewrite sumR_plus, sumR_telescope, sumR_const.
    unfold section_residual_np. simpl Nat.eqb. cbv iota.
    destruct (section_heights_ends hf ht 1 (le_n 1)) as [E0 E1]. rewrite E0, E1.
    destruct (sec_single len_km zeta) as [El Ez]. rewrite El, Ez.
    assert (Hs : INR n * (rho * (981 / 100) * ((hf - ht) / INR n) / 100000 - cf / INR n)
                 = rho * (981 / 100) * (hf - ht) / 100000 - cf) by (clearbody cf; field; exact Hn0).
    rewrite Hs. unfold hyd_incomp_np_load_vec. cbv zeta. unfold cf. unfold Rdiv. ring.
  - intros k Hk. unfold section_residual_np.
    rewrite (section_heights_step hf ht n k Hn Hk).
    unfold hyd_incomp_np_load_vec. cbv zeta.
    unfold Rsec_length, Rsec_zeta, sec_length, sec_zeta. rewrite Rthousand. fold Rinj. rewrite Rinj_INR.
    unfold cf. unfold Rdiv. ring.
Qed.

Lemma sections_telescope_nb : forall n A D lam len_km zeta m dl rho hf ht (q : nat -> R), (1 <= n)%nat ->
  sumR n (section_residual_nb A D lam len_km zeta m dl rho hf ht q n)
  = section_residual_nb A D lam len_km zeta m dl rho hf ht (fun k => if Nat.eqb k 0 then q O else q n) 1 0.
Proof.
  intros n A D lam len_km zeta m dl rho hf ht q Hn.
  assert (Hn0 : INR n <> 0) by (apply not_0_INR; lia).
  set (cf := (1 / (A ^ 2 * rho * 100000 * 2)) * (Rabs m * m) * ((len_km * 1000) * lam / D + zeta)).
  rewrite (sumR_ext n _ (fun k => (q k - q (S k)) + ((rho * (981 / 100)) * ((hf - ht) / INR n) / 100000 - cf / INR n))).
  - rewrite sumR_plus, sumR_telescope, sumR_const.
    unfold section_residual_nb. simpl Nat.eqb. cbv iota.
    destruct (section_heights_ends hf ht 1 (le_n 1)) as [E0 E1]. rewrite E0, E1.
    destruct (sec_single len_km zeta) as [El Ez]. rewrite El, Ez.
    assert (Hs : INR n * (rho * (981 / 100) * ((hf - ht) / INR n) / 100000 - cf / INR n)
                 = rho * (981 / 100) * (hf - ht) / 100000 - cf) by (clearbody cf; field; exact Hn0).
    rewrite Hs. unfold hyd_incomp_nb_load_vec. cbv zeta. unfold cf. unfold Rdiv. ring.
  - intros k Hk. unfold section_residual_nb.
    rewrite (section_heights_step hf ht n k Hn Hk).
    unfold hyd_incomp_nb_load_vec. cbv zeta.
    unfold Rsec_length, Rsec_zeta, sec_length, sec_zeta. rewrite Rthousand. fold Rinj. rewrite Rinj_INR.
    unfold cf. unfold Rdiv. ring.
Qed.

Lemma sumR_zero n f : (forall i, (i < n)%nat -> f i = 0) -> sumR n f = 0.
Proof.
  induction n as [|k IH]; intros H; simpl; [reflexivity|].
  rewrite IH by (intros; apply H; lia). rewrite H by lia. lra.
Qed.

(* consequence: a solution of the n-section description (all n section residuals vanish at the common mass
   flow m) solves the one-section description with the same end pressures and the same m *)
Lemma sections_solution_is_single_solution : forall n A D lam len_km zeta m dl rho hf ht (q : nat -> R),
  (1 <= n)%nat ->
  (forall k, (k < n)%nat -> section_residual_np A D lam len_km zeta m dl rho hf ht q n k = 0) ->
  section_residual_np A D lam len_km zeta m dl rho hf ht (fun k => if Nat.eqb k 0 then q O else q n) 1 0 = 0.
Proof.
  intros. rewrite <- sections_telescope_np by assumption. apply sumR_zero. assumption.
Qed.

(* ---- chaining of FROM_NODE / TO_NODE ---- *)
Lemma chain_one_length {T} start (p : @pipe T) : (1 <= p_sections p)%nat -> length (chain_one start p) = p_sections p.
Proof.
  intros H. unfold chain_one, int_nodes. rewrite combine_length. cbn [length].
  rewrite app_length, seq_length. cbn [length]. lia.
Qed.

(* section k of a pipe starts where section k-1 ends; the first starts at the from junction, the last ends at the to junction *)
Lemma chain_one_nth {T} start (p : @pipe T) k : (1 <= p_sections p)%nat -> (k < p_sections p)%nat ->
  nth k (chain_one start p) (O, O) =
  ((if Nat.eqb k 0 then p_from p else start + (k - 1))%nat,
   (if Nat.eqb (S k) (p_sections p) then p_to p else start + k)%nat).
Proof.
  intros H Hk. unfold chain_one, int_nodes.
  rewrite combine_nth by (cbn [length]; rewrite app_length, seq_length; cbn [length]; lia).
  f_equal.
  - destruct k as [|k]; [reflexivity|]. simpl. rewrite seq_nth by lia. f_equal. lia.
  - destruct (Nat.eqb_spec (S k) (p_sections p)) as [E|E].
    + rewrite app_nth2 by (rewrite seq_length; lia). rewrite seq_length.
      replace (k - (p_sections p - 1))%nat with O by lia. reflexivity.
    + rewrite app_nth1 by (rewrite seq_length; lia). rewrite seq_nth by lia. reflexivity.
Qed.

(* the reversed pipe has the mirrored chain: section k of the reversed pipe is section n-1-k of the original with
   its two ends exchanged and the internal nodes renumbered i |-> start + (n-2) - (i - start) *)
Definition mirror (start n i : nat) : nat := (start + (n - 2) - (i - start))%nat.

Lemma chain_one_reverse {T} start (p : @pipe T) k : (1 <= p_sections p)%nat -> (k < p_sections p)%nat ->
  let n := p_sections p in
  let '(a, b) := nth (n - 1 - k) (chain_one start p) (O, O) in
  nth k (chain_one start (reverse_pipe p)) (O, O) =
  ((if Nat.eqb k 0 then b else mirror start n b), (if Nat.eqb (S k) n then a else mirror start n a)).
Proof.
  intros H Hk n. subst n.
  rewrite (chain_one_nth start p (p_sections p - 1 - k)) by lia.
  rewrite (chain_one_nth start (reverse_pipe p) k) by (simpl; lia).
  simpl p_sections. simpl p_from. simpl p_to. unfold mirror.
  destruct (Nat.eqb_spec k 0) as [E0|E0]; destruct (Nat.eqb_spec (S k) (p_sections p)) as [E1|E1];
  destruct (Nat.eqb_spec (p_sections p - 1 - k) 0) as [E2|E2];
  destruct (Nat.eqb_spec (S (p_sections p - 1 - k)) (p_sections p)) as [E3|E3]; try lia; f_equal; lia.
Qed.

(* ---- n sections = n one-section pipes in series (clause 3, parameter level) ---- *)
Lemma section_heights_nth hf ht n k : (1 <= n)%nat -> (k <= n)%nat ->
  nth k (Rsection_heights hf ht n) 0 = hf + (ht - hf) * INR k / INR n.
Proof.
  intros Hn Hk.
  assert (Hn0 : INR n <> 0) by (apply not_0_INR; lia).
  induction k as [|k IH].
  - destruct (section_heights_ends hf ht n Hn) as [E0 _]. rewrite E0. simpl. field. exact Hn0.
  - pose proof (section_heights_step hf ht n k Hn ltac:(lia)) as Hs.
    rewrite IH in Hs by lia. rewrite S_INR.
    apply (Rplus_eq_reg_l (- (hf + (ht - hf) * INR k / INR n))).
    replace (- (hf + (ht - hf) * INR k / INR n) + nth (S k) (Rsection_heights hf ht n) 0)
      with (- (hf + (ht - hf) * INR k / INR n - nth (S k) (Rsection_heights hf ht n) 0)) by ring.
    rewrite Hs. field. exact Hn0.
Qed.

(* section k of an n-section pipe has exactly the residual of a one-section pipe of length / n and
   loss coefficient / n between junctions at the interpolated heights, fed with the same two pressures *)
Lemma section_is_series_piece : forall n k A D lam len_km zeta m dl rho hf ht (q : nat -> R),
  (1 <= n)%nat -> (k < n)%nat ->
  let h := fun i : nat => hf + (ht - hf) * INR i / INR n in
  section_residual_np A D lam len_km zeta m dl rho hf ht q n k
  = section_residual_np A D lam (len_km / INR n) (zeta / INR n) m dl rho (h k) (h (S k)) (fun i => q (k + i)%nat) 1 0.
Proof.
  intros n k A D lam len_km zeta m dl rho hf ht q Hn Hk h.
  assert (Hn0 : INR n <> 0) by (apply not_0_INR; lia).
  unfold section_residual_np.
  destruct (section_heights_ends (h k) (h (S k)) 1 (le_n 1)) as [E0 E1]. rewrite E0, E1.
  destruct (sec_single (len_km / INR n) (zeta / INR n)) as [El Ez]. rewrite El, Ez.
  rewrite (section_heights_nth hf ht n k Hn ltac:(lia)), (section_heights_nth hf ht n (S k) Hn ltac:(lia)).
  replace (k + 1)%nat with (S k) by lia. replace (k + 0)%nat with k by lia.
  unfold Rsec_length, Rsec_zeta, sec_length, sec_zeta. rewrite Rthousand. fold Rinj. rewrite Rinj_INR.
  unfold h. unfold hyd_incomp_np_load_vec. cbv zeta. unfold Rdiv. ring.
Qed.

(* ---- clause 3, node renumbering: the chain of an n-section pipe is, up to a renaming of its internal nodes into the
   new junctions, the chain of n one-section pipes in series ---- *)
Lemma map_pair_combine {X Y} (f : X -> Y) (l1 l2 : list X) :
  map (fun ab => (f (fst ab), f (snd ab))) (combine l1 l2) = combine (map f l1) (map f l2).
Proof.
  revert l2. induction l1 as [|a l1 IH]; intros [|b l2]; simpl; try reflexivity. rewrite IH. reflexivity.
Qed.

Definition series_pieces {T} (p : @pipe T) (js : list nat) (len zeta : T) : list (@pipe T) :=
  map (fun ab => Build_pipe (fst ab) (snd ab) 1 len zeta) (combine (p_from p :: js) (js ++ [p_to p])).

Lemma chain_single_sections {T} start (ends : list (nat * nat)) (len zeta : T) :
  chain start (map (fun ab => Build_pipe (fst ab) (snd ab) 1 len zeta) ends) = ends.
Proof.
  revert start. induction ends as [|[a b] r IH]; intros start; simpl; [reflexivity|].
  unfold chain_one, int_nodes. simpl. rewrite IH. reflexivity.
Qed.

Lemma chain_sections_eq_series {T} start start' (p : @pipe T) (rho : nat -> nat) js len zeta :
  rho (p_from p) = p_from p -> rho (p_to p) = p_to p -> map rho (seq start (int_nodes p)) = js ->
  map (fun ab => (rho (fst ab), rho (snd ab))) (chain_one start p) = chain start' (series_pieces p js len zeta).
Proof.
  intros Hf Ht Hj. unfold series_pieces. rewrite chain_single_sections.
  unfold chain_one. rewrite map_pair_combine. simpl map. rewrite map_app. simpl map.
  rewrite Hf, Ht, Hj. reflexivity.
Qed.
