(* C16 - proofs about the NetDB model (coq/C16/Model.v). *)
From Coq Require Import String List Bool ZArith Lia.
From PP Require Import Base.Assoc C16.Model.
Import ListNotations.
Open Scope string_scope.
Open Scope Z_scope.
Open Scope list_scope.

(* ------------------------------------------------------------------ tables after an insert *)
Lemma tab_insert_same d t rs : tab (insert_rows d t rs) t = tab d t ++ rs.
Proof. unfold tab at 1, insert_rows; simpl. now rewrite get_set_same. Qed.

Lemma tab_insert_other d t t' rs : t' <> t -> tab (insert_rows d t rs) t' = tab d t'.
Proof. intros H. unfold tab, insert_rows; simpl. now rewrite get_set_other. Qed.

Lemma std_insert d t rs : d_std (insert_rows d t rs) = d_std d.
Proof. reflexivity. Qed.

Lemma tab_reg s d a t : tab (reg s d a) t = tab d t.
Proof. unfold reg. destruct (a_reg_std a); auto. destruct (s_std s) as [[? ?]|]; auto. Qed.

Lemma has_label_app l rs z : has_label (l ++ rs) z = has_label l z || has_label rs z.
Proof. unfold has_label, labels. now rewrite map_app, existsb_app. Qed.

Lemma has_label_In l z : has_label l z = true <-> In z (labels l).
Proof.
  unfold has_label. rewrite existsb_exists. split.
  - intros [x [Hin He]]. apply Z.eqb_eq in He. now subst.
  - intros H. exists z. split; auto. apply Z.eqb_refl.
Qed.

Lemma has_label_false l z : has_label l z = false <-> ~ In z (labels l).
Proof.
  rewrite <- has_label_In. destruct (has_label l z); split; intros; try discriminate; auto.
  exfalso; auto.
Qed.

(* ------------------------------------------------------------------ the db only grows *)
Definition ext (d d' : db) : Prop :=
  (forall t z, has_label (tab d t) z = true -> has_label (tab d' t) z = true) /\
  (forall s, std_ok d s = true -> std_ok d' s = true).

Lemma ext_refl d : ext d d.
Proof. split; auto. Qed.

Lemma ext_trans a b c : ext a b -> ext b c -> ext a c.
Proof. intros [H1 H2] [H3 H4]. split; auto. Qed.

Lemma ext_insert d t rs : ext d (insert_rows d t rs).
Proof.
  split; auto. intros t' z H. destruct (String.eqb t' t) eqn:E.
  - apply String.eqb_eq in E. subst. rewrite tab_insert_same, has_label_app, H. reflexivity.
  - rewrite tab_insert_other; auto. intros ->. now rewrite String.eqb_refl in E.
Qed.

Lemma ext_reg s d a : ext d (reg s d a).
Proof.
  split.
  - intros t z. now rewrite tab_reg.
  - intros x H. unfold reg. destruct (a_reg_std a); auto. destruct (s_std s) as [[t c]|]; auto.
    unfold std_ok in *. simpl. rewrite H. apply orb_true_r.
Qed.

Lemma ref_ok_ext d d' r : ext d d' -> ref_ok d r = true -> ref_ok d' r = true.
Proof. intros [H _]. unfold ref_ok. apply H. Qed.

Lemma row_ok_ext d d' r : ext d d' -> row_ok d r = true -> row_ok d' r = true.
Proof.
  intros E. unfold row_ok. rewrite !andb_true_iff, !forallb_forall.
  intros [H1 H2]. split; intros x Hx.
  - eapply ref_ok_ext; eauto.
  - destruct E as [_ E]. auto.
Qed.

(* ------------------------------------------------------------------ wf is kept by an insert *)
Lemma nodup_app_intro (l r : list Z) :
  NoDup l -> NoDup r -> (forall z, In z r -> ~ In z l) -> NoDup (l ++ r).
Proof.
  induction l as [|x l IH]; simpl; intros Hl Hr Hd; auto.
  inversion Hl; subst. constructor.
  - rewrite in_app_iff. intros [H|H]; auto. apply (Hd x H). now left.
  - apply IH; auto. intros z Hz Hin. apply (Hd z Hz). now right.
Qed.

Lemma wf_insert d t rs :
  wf d -> NoDup (labels rs) ->
  (forall z, In z (labels rs) -> has_label (tab d t) z = false) ->
  (forall r, In r rs -> row_ok d r = true) ->
  wf (insert_rows d t rs).
Proof.
  intros [Hn Hr] Hnd Hfresh Hok. split.
  - intros t'. destruct (String.eqb t' t) eqn:E.
    + apply String.eqb_eq in E. subst. rewrite tab_insert_same. unfold labels. rewrite map_app.
      apply nodup_app_intro; auto; try apply Hn.
      intros z Hz. apply (proj1 (has_label_false (tab d t) z)). now apply Hfresh.
    + rewrite tab_insert_other; auto. intros ->. now rewrite String.eqb_refl in E.
  - intros t' r Hin. apply (row_ok_ext d); [apply ext_insert|].
    destruct (String.eqb t' t) eqn:E.
    + apply String.eqb_eq in E. subst. rewrite tab_insert_same in Hin. apply in_app_or in Hin.
      destruct Hin; eauto.
    + rewrite tab_insert_other in Hin; eauto. intros ->. now rewrite String.eqb_refl in E.
Qed.

Lemma wf_reg s d a : wf d -> wf (reg s d a).
Proof.
  intros [Hn Hr]. split.
  - intros t. rewrite tab_reg. apply Hn.
  - intros t r. rewrite tab_reg. intros Hin. apply (row_ok_ext d); [apply ext_reg|eauto].
Qed.

(* ------------------------------------------------------------------ prechecked rows are well-formed *)
Lemma checked_part_ok d j0 rs :
  forallb (res_ok d j0) rs = true -> forallb (ref_ok d) (checked_part rs) = true.
Proof.
  induction rs as [|[[chk conn] tv] rs IH]; simpl; auto.
  intros H. apply andb_true_iff in H. destruct H as [H1 H2].
  unfold checked_part in *. simpl. destruct chk; simpl in *; auto.
  apply andb_true_iff in H1. destruct H1 as [H1 _]. rewrite H1. simpl. auto.
Qed.

Lemma precheck_row_ok s d a rs lab : precheck s d a = inr rs -> row_ok d (mkrow s a rs lab) = true.
Proof.
  unfold precheck. destruct (a_invalid a); try discriminate.
  destruct (resolve a (s_refcols s) (a_refvals a)) as [rs'|]; try discriminate.
  destruct (forallb (res_ok d (hd 0 (a_refvals a))) rs') eqn:E1; simpl; try discriminate.
  destruct (forallb (std_ok d) (std_refs s a true)) eqn:E2; simpl; try discriminate.
  destruct (s_eg s && a_pt_null a); try discriminate.
  intros H. inversion H; subst. unfold row_ok, mkrow; simpl.
  rewrite (checked_part_ok _ _ _ E1), E2. reflexivity.
Qed.

Lemma create1_core_wf s d a lab d' : wf d -> create1_core s d a = inr (lab, d') -> wf d'.
Proof.
  intros Hwf. unfold create1_core. destruct (precheck s d a) as [e|rs] eqn:P; try discriminate.
  set (l := match a_index a with Some i => i | None => next_label (tab d (s_table s)) end).
  destruct (has_label (tab d (s_table s)) l) eqn:Hl; try discriminate.
  intros H. inversion H; subst. apply wf_insert.
  - now apply wf_reg.
  - simpl. constructor; [intros []|constructor].
  - simpl. intros z [<-|[]]. now rewrite tab_reg.
  - simpl. intros r [<-|[]]. apply (row_ok_ext d); [apply ext_reg|]. now apply precheck_row_ok.
Qed.

Lemma create1_wf s d a : wf d -> wf (snd (create1 s d a)).
Proof.
  intros Hwf. unfold create1. destruct (create1_core s d a) as [e|[lab d']] eqn:C; simpl; auto.
  assert (wf d') by (eapply create1_core_wf; eauto).
  destruct (s_late s && a_late_bad a); auto.
Qed.

(* bulk *)
Lemma nodupb_NoDup l : nodupb l = true -> NoDup l.
Proof.
  induction l as [|x l IH]; simpl; intros H; constructor.
  - apply andb_true_iff in H. destruct H as [H _]. apply negb_true_iff in H.
    intros Hin. assert (existsb (Z.eqb x) l = true); [|congruence].
    apply existsb_exists. exists x. split; auto. apply Z.eqb_refl.
  - apply IH. apply andb_true_iff in H. tauto.
Qed.

Lemma precheck_all_length s d rows xs : precheck_all s d rows = inr xs -> length xs = length rows.
Proof.
  revert xs. induction rows as [|a r IH]; simpl; intros xs H.
  - now inversion H.
  - destruct (precheck s d a); try discriminate. destruct (precheck_all s d r); try discriminate.
    inversion H; subst. simpl. f_equal. auto.
Qed.

Lemma mkrows_labels s xs labs : length labs = length xs -> labels (mkrows s xs labs) = labs.
Proof.
  revert labs. induction xs as [|[a rs] xs IH]; intros [|l labs]; simpl; intros H; try discriminate; auto.
  f_equal. apply IH. lia.
Qed.

Lemma mkrows_ok s d rows xs labs :
  precheck_all s d rows = inr xs -> forall r, In r (mkrows s xs labs) -> row_ok d r = true.
Proof.
  revert xs labs. induction rows as [|a rows IH]; simpl; intros xs labs H r Hin.
  - inversion H; subst. destruct Hin.
  - destruct (precheck s d a) as [|rs] eqn:P; try discriminate.
    destruct (precheck_all s d rows) as [|rest] eqn:PA; try discriminate.
    inversion H; subst. destruct labs as [|l labs]; simpl in Hin; [destruct Hin|].
    destruct Hin as [<-|Hin]; [now apply precheck_row_ok|eauto].
Qed.

Lemma create_bulk_core_wf s d b labs d' : wf d -> create_bulk_core s d b = inr (labs, d') -> wf d'.
Proof.
  intros Hwf. unfold create_bulk_core.
  destruct (b_len_ok b); simpl; try discriminate.
  destruct (Nat.eqb (length (bulk_labels d s b)) (length (b_rows b))) eqn:EL; simpl; try discriminate.
  destruct (nodupb (bulk_labels d s b)) eqn:ND; simpl; try discriminate.
  destruct (existsb (has_label (tab d (s_table s))) (bulk_labels d s b)) eqn:EX; try discriminate.
  destruct (precheck_all s d (b_rows b)) as [|xs] eqn:PA; try discriminate.
  intros H. inversion H; subst. apply Nat.eqb_eq in EL.
  assert (HL : labels (mkrows s xs (bulk_labels d s b)) = bulk_labels d s b).
  { apply mkrows_labels. rewrite EL. symmetry. eapply precheck_all_length; eauto. }
  apply wf_insert; auto.
  - rewrite HL. now apply nodupb_NoDup.
  - rewrite HL. intros z Hz. destruct (has_label (tab d (s_table s)) z) eqn:E; auto.
    assert (existsb (has_label (tab d (s_table s))) (bulk_labels d s b) = true); [|congruence].
    apply existsb_exists. eauto.
  - eapply mkrows_ok; eauto.
Qed.

Lemma create_bulk_wf s d b : wf d -> wf (snd (create_bulk s d b)).
Proof.
  intros Hwf. unfold create_bulk. destruct (create_bulk_core s d b) as [e|[labs d']] eqn:C; simpl; auto.
  assert (wf d') by (eapply create_bulk_core_wf; eauto).
  destruct (s_late s && existsb a_late_bad (b_rows b)); auto.
Qed.

Lemma wf_empty std : wf (empty_db std).
Proof. split; intros t; unfold tab; simpl; [constructor|intros r []]. Qed.

Lemma step_wf d c : wf d -> wf (step d c).
Proof. destruct c; simpl; intros; [now apply create1_wf|now apply create_bulk_wf]. Qed.

Lemma run_wf cs : forall d, wf d -> wf (run d cs).
Proof. induction cs as [|c cs IH]; simpl; auto. intros d H. apply IH. now apply step_wf. Qed.

Lemma wf_invariant_lemma : forall std cs, wf (run (empty_db std) cs).
Proof. intros. apply run_wf. apply wf_empty. Qed.

(* complete referential integrity when every schema used checks all its reference columns *)
Definition call_schema (c : call) : schema := match c with Single s _ => s | Bulk s _ => s end.
Definition wf_full (d : db) : Prop := forall t r, In r (tab d t) -> row_ok_full d r = true.

Lemma loose_nil_of_checked a cols : forall vals rs,
  forallb rc_checked cols = true -> resolve a cols vals = Some rs -> loose_part rs = [].
Proof.
  induction cols as [|c cols IH]; intros [|v vals] rs Hc H; simpl in *; try discriminate.
  - now inversion H.
  - apply andb_true_iff in Hc. destruct Hc as [Hc1 Hc2].
    destruct (sel a (rc_tsel c)) as [[t conn]|]; try discriminate.
    destruct (resolve a cols vals) as [r|] eqn:R; try discriminate.
    inversion H; subst. unfold loose_part. simpl. rewrite Hc1. simpl. eapply IH; eauto.
Qed.

Lemma precheck_resolve s d a rs : precheck s d a = inr rs -> resolve a (s_refcols s) (a_refvals a) = Some rs.
Proof.
  unfold precheck. destruct (a_invalid a); try discriminate.
  destruct (resolve a (s_refcols s) (a_refvals a)); try discriminate.
  destruct (negb _); try discriminate. destruct (negb _); try discriminate.
  destruct (_ && _); try discriminate. now intros H; inversion H.
Qed.

Lemma mkrow_loose_nil s d a rs lab :
  fully_checked s = true -> precheck s d a = inr rs ->
  r_loose (mkrow s a rs lab) = [] /\ r_loose_std (mkrow s a rs lab) = [].
Proof.
  intros F P. unfold fully_checked in F. apply andb_true_iff in F. destruct F as [F1 F2]. split; simpl.
  - eapply loose_nil_of_checked; eauto. eapply precheck_resolve; eauto.
  - unfold std_refs. destruct (s_std s) as [[t c]|]; auto. subst. reflexivity.
Qed.

Definition loose_free (d : db) : Prop := forall t r, In r (tab d t) -> r_loose r = [] /\ r_loose_std r = [].

Lemma loose_free_insert d t rs :
  loose_free d -> (forall r, In r rs -> r_loose r = [] /\ r_loose_std r = []) -> loose_free (insert_rows d t rs).
Proof.
  intros H Hr t' r Hin. destruct (String.eqb t' t) eqn:E.
  - apply String.eqb_eq in E. subst. rewrite tab_insert_same in Hin. apply in_app_or in Hin. destruct Hin; eauto.
  - rewrite tab_insert_other in Hin; eauto. intros ->. now rewrite String.eqb_refl in E.
Qed.

Lemma mkrows_loose s d rows xs labs :
  fully_checked s = true -> precheck_all s d rows = inr xs ->
  forall r, In r (mkrows s xs labs) -> r_loose r = [] /\ r_loose_std r = [].
Proof.
  intros F. revert xs labs. induction rows as [|a rows IH]; simpl; intros xs labs H r Hin.
  - inversion H; subst. destruct Hin.
  - destruct (precheck s d a) as [|rs] eqn:P; try discriminate.
    destruct (precheck_all s d rows) as [|rest] eqn:PA; try discriminate.
    inversion H; subst. destruct labs as [|l labs]; simpl in Hin; [destruct Hin|].
    destruct Hin as [<-|Hin]; [eapply mkrow_loose_nil; eauto|eauto].
Qed.

Lemma step_loose_free d c : fully_checked (call_schema c) = true -> loose_free d -> loose_free (step d c).
Proof.
  intros F H. destruct c as [s a|s b]; simpl in *.
  - unfold create1, create1_core. destruct (precheck s d a) as [|rs] eqn:P; simpl; auto.
    destruct (has_label _ _); simpl; auto.
    assert (loose_free (insert_rows (reg s d a) (s_table s)
              [mkrow s a rs match a_index a with Some i => i | None => next_label (tab d (s_table s)) end])).
    { apply loose_free_insert.
      - intros t r. rewrite tab_reg. apply H.
      - intros r [<-|[]]. eapply mkrow_loose_nil; eauto. }
    destruct (s_late s && a_late_bad a); auto.
  - unfold create_bulk, create_bulk_core.
    destruct (b_len_ok b); simpl; auto.
    destruct (Nat.eqb _ _); simpl; auto. destruct (nodupb _); simpl; auto.
    destruct (existsb (has_label _) _); simpl; auto.
    destruct (precheck_all s d (b_rows b)) as [|xs] eqn:PA; simpl; auto.
    assert (loose_free (insert_rows d (s_table s) (mkrows s xs (bulk_labels d s b)))).
    { apply loose_free_insert; auto. eapply mkrows_loose; eauto. }
    destruct (s_late s && existsb a_late_bad (b_rows b)); auto.
Qed.

Lemma run_loose_free cs : forall d, Forall (fun c => fully_checked (call_schema c) = true) cs ->
  loose_free d -> loose_free (run d cs).
Proof.
  induction cs as [|c cs IH]; simpl; auto. intros d F H. inversion F; subst.
  apply IH; auto. now apply step_loose_free.
Qed.

Lemma wf_full_lemma : forall std cs,
  Forall (fun c => fully_checked (call_schema c) = true) cs -> wf_full (run (empty_db std) cs).
Proof.
  intros std cs F t r Hin.
  destruct (wf_invariant_lemma std cs) as [_ Hr].
  assert (L : loose_free (run (empty_db std) cs)).
  { apply run_loose_free; auto. intros t' r'. unfold tab; simpl. intros []. }
  unfold row_ok_full. rewrite (Hr _ _ Hin). destruct (L _ _ Hin) as [-> ->]. reflexivity.
Qed.

(* ------------------------------------------------------------------ rejects *)
Lemma precheck_inl_create1 s d a e : precheck s d a = inl e -> create1 s d a = (Err e, d).
Proof. intros H. unfold create1, create1_core. now rewrite H. Qed.

Lemma rejects_missing_reference_lemma : forall s d a rs conn tv,
  resolve a (s_refcols s) (a_refvals a) = Some rs -> In (true, conn, tv) rs -> ref_ok d tv = false ->
  exists e, create1 s d a = (Err e, d).
Proof.
  intros s d a rs conn tv R Hin Hbad.
  assert (forallb (res_ok d (hd 0 (a_refvals a))) rs = false) as F.
  { destruct (forallb _ rs) eqn:E; auto. rewrite forallb_forall in E. specialize (E _ Hin).
    simpl in E. rewrite Hbad in E. discriminate. }
  destruct (a_invalid a) eqn:I.
  - exists EInvalid. apply precheck_inl_create1. unfold precheck. now rewrite I.
  - exists EMissingRef. apply precheck_inl_create1. unfold precheck. now rewrite I, R, F.
Qed.

Lemma rejects_unconnected_pipe_lemma : forall s d a rs tv,
  resolve a (s_refcols s) (a_refvals a) = Some rs -> In (true, true, tv) rs ->
  pipe_connected d (snd tv) (hd 0 (a_refvals a)) = false ->
  exists e, create1 s d a = (Err e, d).
Proof.
  intros s d a rs tv R Hin Hbad.
  assert (forallb (res_ok d (hd 0 (a_refvals a))) rs = false) as F.
  { destruct (forallb _ rs) eqn:E; auto. rewrite forallb_forall in E. specialize (E _ Hin).
    simpl in E. rewrite Hbad in E. rewrite andb_false_r in E. discriminate. }
  destruct (a_invalid a) eqn:I.
  - exists EInvalid. apply precheck_inl_create1. unfold precheck. now rewrite I.
  - exists EMissingRef. apply precheck_inl_create1. unfold precheck. now rewrite I, R, F.
Qed.

Lemma rejects_duplicate_index_lemma : forall s d a i,
  a_index a = Some i -> has_label (tab d (s_table s)) i = true -> exists e, create1 s d a = (Err e, d).
Proof.
  intros s d a i Hi Hl. unfold create1, create1_core. destruct (precheck s d a); eauto.
  rewrite Hi, Hl. eauto.
Qed.

Lemma rejects_unknown_std_type_lemma : forall s d a t,
  s_std s = Some (t, true) -> std_ok d (t, a_std a) = false -> exists e, create1 s d a = (Err e, d).
Proof.
  intros s d a t Hs Hbad. destruct (precheck s d a) as [e|rs] eqn:P.
  - exists e. now apply precheck_inl_create1.
  - exfalso. unfold precheck in P. destruct (a_invalid a); try discriminate.
    destruct (resolve _ _ _); try discriminate. destruct (negb (forallb (res_ok _ _) _)); try discriminate.
    unfold std_refs in P. rewrite Hs in P. simpl in P. rewrite Hbad in P. simpl in P. discriminate.
Qed.

Lemma rejects_missing_p_and_t_lemma : forall s d a,
  s_eg s = true -> a_pt_null a = true -> exists e, create1 s d a = (Err e, d).
Proof.
  intros s d a He Hn. destruct (precheck s d a) as [e|rs] eqn:P.
  - exists e. now apply precheck_inl_create1.
  - exfalso. unfold precheck in P. destruct (a_invalid a); try discriminate.
    destruct (resolve _ _ _); try discriminate. destruct (negb (forallb (res_ok _ _) _)); try discriminate.
    destruct (negb (forallb (std_ok _) _)); try discriminate. rewrite He, Hn in P. discriminate.
Qed.

Lemma rejects_unknown_et_lemma : forall s d a,
  existsb (fun c => match rc_tsel c with ByEt => true | _ => false end) (s_refcols s) = true ->
  a_et a = None -> exists e, create1 s d a = (Err e, d).
Proof.
  intros s d a Hex Het.
  assert (R : resolve a (s_refcols s) (a_refvals a) = None).
  { generalize (a_refvals a). induction (s_refcols s) as [|c cols IH]; simpl in *; try discriminate.
    intros [|v vals]; auto. destruct (rc_tsel c) eqn:T; simpl.
    - simpl in Hex. rewrite (IH Hex vals). reflexivity.
    - rewrite Het. reflexivity. }
  destruct (a_invalid a) eqn:I.
  - exists EInvalid. apply precheck_inl_create1. unfold precheck. now rewrite I.
  - exists EArity. apply precheck_inl_create1. unfold precheck. now rewrite I, R.
Qed.

Lemma precheck_all_inl s d rows a e :
  In a rows -> precheck s d a = inl e -> exists e', precheck_all s d rows = inl e'.
Proof.
  induction rows as [|x rows IH]; simpl; intros Hin P; [destruct Hin|].
  destruct Hin as [->|Hin].
  - rewrite P. eauto.
  - destruct (IH Hin P) as [e' ->]. destruct (precheck s d x); eauto.
Qed.

Lemma rejects_bulk_lemma : forall s d b,
  b_len_ok b = false
  \/ (exists l, b_index b = Some l /\ (length l <> length (b_rows b) \/ nodupb l = false
                                     \/ existsb (has_label (tab d (s_table s))) l = true))
  \/ (exists a e, In a (b_rows b) /\ precheck s d a = inl e) ->
  exists e, create_bulk s d b = (Err e, d).
Proof.
  intros s d b H. unfold create_bulk, create_bulk_core.
  destruct (b_len_ok b) eqn:L; simpl; eauto.
  destruct H as [H|[H|H]]; try discriminate.
  - destruct H as [l [Hi H]]. unfold bulk_labels. rewrite Hi.
    destruct (Nat.eqb (length l) (length (b_rows b))) eqn:EL; simpl; eauto.
    destruct (nodupb l) eqn:ND; simpl; eauto.
    destruct (existsb (has_label (tab d (s_table s))) l) eqn:EX; eauto.
    apply Nat.eqb_eq in EL. destruct H as [H|[H|H]]; try discriminate. contradiction.
  - destruct H as [a [e [Hin P]]].
    destruct (Nat.eqb _ _); simpl; eauto. destruct (nodupb _); simpl; eauto.
    destruct (existsb (has_label _) _); eauto.
    destruct (precheck_all_inl _ _ _ _ _ Hin P) as [e' ->]. eauto.
Qed.

(* ------------------------------------------------------------------ atomic *)
Lemma atomic_single_lemma : forall s d a e d',
  create1 s d a = (Err e, d') -> s_late s = false \/ a_late_bad a = false -> d' = d.
Proof.
  intros s d a e d' H Hl. unfold create1 in H. destruct (create1_core s d a) as [e0|[lab d0]].
  - now inversion H.
  - destruct Hl as [Hl|Hl]; rewrite Hl in H; simpl in H; try rewrite andb_false_r in H; inversion H.
Qed.

Lemma atomic_bulk_lemma : forall s d b e d',
  create_bulk s d b = (Err e, d') -> s_late s = false \/ existsb a_late_bad (b_rows b) = false -> d' = d.
Proof.
  intros s d b e d' H Hl. unfold create_bulk in H. destruct (create_bulk_core s d b) as [e0|[labs d0]].
  - now inversion H.
  - destruct Hl as [Hl|Hl]; rewrite Hl in H; simpl in H; try rewrite andb_false_r in H; inversion H.
Qed.

Lemma atomic_only_late_lemma : forall s d a e d',
  create1 s d a = (Err e, d') -> e <> ELate -> d' = d.
Proof.
  intros s d a e d' H Hne. unfold create1 in H. destruct (create1_core s d a) as [e0|[lab d0]].
  - now inversion H.
  - destruct (s_late s && a_late_bad a); inversion H; subst. congruence.
Qed.

(* what the code does today when the late step fails: the row stays *)
Lemma late_failure_not_atomic_lemma : forall s d a lab d',
  s_late s = true -> a_late_bad a = true -> create1_core s d a = inr (lab, d') ->
  create1 s d a = (Err ELate, d') /\ has_label (tab d' (s_table s)) lab = true
  /\ has_label (tab d (s_table s)) lab = false.
Proof.
  intros s d a lab d' Hs Ha C. unfold create1. rewrite C, Hs, Ha. simpl. split; auto.
  unfold create1_core in C. destruct (precheck s d a) as [|rs]; try discriminate.
  set (l := match a_index a with Some i => i | None => next_label (tab d (s_table s)) end) in *.
  destruct (has_label (tab d (s_table s)) l) eqn:Hl; try discriminate.
  inversion C; subst. split; auto.
  rewrite tab_insert_same, has_label_app. unfold has_label at 2. simpl. rewrite Z.eqb_refl.
  simpl. apply orb_true_r.
Qed.

(* ------------------------------------------------------------------ adds exactly *)
Lemma adds_exactly_single_lemma : forall s d a labs d',
  create1 s d a = (Ok labs, d') ->
  exists lab rs,
    labs = [lab] /\ precheck s d a = inr rs /\
    tab d' (s_table s) = tab d (s_table s) ++ [mkrow s a rs lab] /\
    (forall t, t <> s_table s -> tab d' t = tab d t) /\
    has_label (tab d (s_table s)) lab = false /\
    lab = match a_index a with Some i => i | None => next_label (tab d (s_table s)) end /\
    d_std d' = d_std (reg s d a).
Proof.
  intros s d a labs d' H. unfold create1 in H.
  destruct (create1_core s d a) as [e|[lab d0]] eqn:C; try discriminate.
  destruct (s_late s && a_late_bad a); try discriminate. inversion H; subst.
  unfold create1_core in C. destruct (precheck s d a) as [|rs] eqn:P; try discriminate.
  set (l := match a_index a with Some i => i | None => next_label (tab d (s_table s)) end) in *.
  destruct (has_label (tab d (s_table s)) l) eqn:Hl; try discriminate.
  inversion C; subst. exists l, rs. repeat split; auto.
  - now rewrite tab_insert_same, tab_reg.
  - intros t Ht. now rewrite tab_insert_other, tab_reg.
Qed.

Lemma adds_exactly_bulk_lemma : forall s d b labs d',
  create_bulk s d b = (Ok labs, d') ->
  exists rows,
    tab d' (s_table s) = tab d (s_table s) ++ rows /\ labels rows = labs /\
    length labs = length (b_rows b) /\ NoDup labs /\
    (forall z, In z labs -> has_label (tab d (s_table s)) z = false) /\
    (forall t, t <> s_table s -> tab d' t = tab d t) /\ d_std d' = d_std d /\
    labs = bulk_labels d s b.
Proof.
  intros s d b labs d' H. unfold create_bulk in H.
  destruct (create_bulk_core s d b) as [e|[labs0 d0]] eqn:C; try discriminate.
  destruct (s_late s && existsb a_late_bad (b_rows b)); try discriminate. inversion H; subst.
  unfold create_bulk_core in C.
  destruct (b_len_ok b); simpl in C; try discriminate.
  destruct (Nat.eqb (length (bulk_labels d s b)) (length (b_rows b))) eqn:EL; simpl in C; try discriminate.
  destruct (nodupb (bulk_labels d s b)) eqn:ND; simpl in C; try discriminate.
  destruct (existsb (has_label (tab d (s_table s))) (bulk_labels d s b)) eqn:EX; try discriminate.
  destruct (precheck_all s d (b_rows b)) as [|xs] eqn:PA; try discriminate.
  inversion C; subst. apply Nat.eqb_eq in EL.
  exists (mkrows s xs (bulk_labels d s b)). repeat split; auto.
  - now rewrite tab_insert_same.
  - apply mkrows_labels. rewrite EL. symmetry. eapply precheck_all_length; eauto.
  - now apply nodupb_NoDup.
  - intros z Hz. destruct (has_label (tab d (s_table s)) z) eqn:E; auto.
    assert (existsb (has_label (tab d (s_table s))) (bulk_labels d s b) = true); [|congruence].
    apply existsb_exists. eauto.
  - intros t Ht. now rewrite tab_insert_other.
Qed.

(* ------------------------------------------------------------------ bulk = fold of the single twin *)
Definition db_eq (d1 d2 : db) : Prop := (forall t, tab d1 t = tab d2 t) /\ d_std d1 = d_std d2.

Lemma db_eq_refl d : db_eq d d. Proof. split; auto. Qed.
Lemma db_eq_trans a b c : db_eq a b -> db_eq b c -> db_eq a c.
Proof. intros [H1 H2] [H3 H4]. split; [intros t; now rewrite H1|congruence]. Qed.

Definition col_ok (tbl : string) (c : refcol) : bool :=
  match rc_tsel c with
  | Fixed t => negb (String.eqb (target_tab t) tbl)
  | ByEt => negb (String.eqb "junction" tbl) && negb (String.eqb "pipe" tbl)
  end.

Lemma resolve_foreign a tbl cols : forall vals rs,
  forallb (col_ok tbl) cols = true -> resolve a cols vals = Some rs ->
  Forall (fun x : res => target_tab (fst (snd x)) <> tbl /\ (snd (fst x) = true -> "pipe" <> tbl)) rs.
Proof.
  induction cols as [|c cols IH]; intros [|v vals] rs Hc H; simpl in *; try discriminate.
  - inversion H. constructor.
  - apply andb_true_iff in Hc. destruct Hc as [Hc1 Hc2].
    destruct (sel a (rc_tsel c)) as [[t conn]|] eqn:S; try discriminate.
    destruct (resolve a cols vals) as [r|] eqn:R; try discriminate.
    inversion H; subst. constructor; [|eapply IH; eauto]. simpl.
    unfold col_ok in Hc1. unfold sel in S. destruct (rc_tsel c) as [t0|].
    + inversion S; subst. split; [|discriminate].
      apply negb_true_iff in Hc1. intros E. rewrite E, String.eqb_refl in Hc1. discriminate.
    + apply andb_true_iff in Hc1. destruct Hc1 as [Hj Hp].
      apply negb_true_iff in Hj, Hp.
      assert ("junction" <> tbl) by (intros E; rewrite E, String.eqb_refl in Hj; discriminate).
      assert ("pipe" <> tbl) by (intros E; rewrite E, String.eqb_refl in Hp; discriminate).
      destruct (a_et a) as [[|]|]; inversion S; subst; simpl; split; auto.
Qed.

Lemma precheck_insert_own s d a rows :
  no_self_ref s = true -> precheck s (insert_rows d (s_table s) rows) a = precheck s d a.
Proof.
  intros N. unfold precheck. destruct (a_invalid a); auto.
  destruct (resolve a (s_refcols s) (a_refvals a)) as [rs|] eqn:R; auto.
  assert (F : Forall (fun x : res => target_tab (fst (snd x)) <> s_table s /\
                                     (snd (fst x) = true -> "pipe" <> s_table s)) rs).
  { eapply resolve_foreign; eauto. }
  assert (E : forallb (res_ok (insert_rows d (s_table s) rows) (hd 0 (a_refvals a))) rs =
              forallb (res_ok d (hd 0 (a_refvals a))) rs).
  { clear R. induction rs as [|[[chk conn] [t v]] rs IH]; simpl; auto.
    inversion F; subst. simpl in H1. destruct H1 as [Ht Hp]. rewrite IH; auto. f_equal.
    unfold ref_ok, pipe_connected. simpl. rewrite tab_insert_other; auto.
    destruct conn; simpl; auto. rewrite tab_insert_other; auto. }
  rewrite E. reflexivity.
Qed.

Lemma precheck_all_insert_own s d rows0 rows :
  no_self_ref s = true -> precheck_all s (insert_rows d (s_table s) rows0) rows = precheck_all s d rows.
Proof.
  intros N. induction rows as [|a rows IH]; simpl; auto. now rewrite precheck_insert_own, IH.
Qed.

Lemma precheck_db_eq s d1 d2 a : db_eq d1 d2 -> precheck s d1 a = precheck s d2 a.
Proof.
  intros [Ht Hs]. unfold precheck. destruct (a_invalid a); auto.
  destruct (resolve a (s_refcols s) (a_refvals a)) as [rs|]; auto.
  assert (E : forallb (res_ok d1 (hd 0 (a_refvals a))) rs = forallb (res_ok d2 (hd 0 (a_refvals a))) rs).
  { induction rs as [|[[chk conn] tv] rs IH]; simpl; auto. rewrite IH. f_equal.
    unfold ref_ok, pipe_connected. now rewrite !Ht. }
  rewrite E. unfold std_ok. now rewrite Hs.
Qed.

Lemma insert_db_eq d1 d2 t rs : db_eq d1 d2 -> db_eq (insert_rows d1 t rs) (insert_rows d2 t rs).
Proof.
  intros [Ht Hs]. split; simpl; auto. intros t'. destruct (String.eqb t' t) eqn:E.
  - apply String.eqb_eq in E. subst. now rewrite !tab_insert_same, Ht.
  - assert (t' <> t) by (intros ->; now rewrite String.eqb_refl in E). now rewrite !tab_insert_other.
Qed.

Lemma resolve_with_index a i cols : forall vals, resolve (with_index a i) cols vals = resolve a cols vals.
Proof.
  induction cols as [|c cols IH]; intros [|v vals]; simpl; auto. rewrite IH.
  assert (E : sel (with_index a i) (rc_tsel c) = sel a (rc_tsel c)) by (unfold sel; reflexivity).
  now rewrite E.
Qed.

Lemma precheck_with_index s d a i : precheck s d (with_index a i) = precheck s d a.
Proof. unfold precheck. simpl. now rewrite resolve_with_index. Qed.

Lemma create1_core_with_index s d a i :
  create1_core s d (with_index a i) =
  match precheck s d a with
  | inl e => inl e
  | inr rs =>
      let lab := match i with Some i => i | None => next_label (tab d (s_table s)) end in
      if has_label (tab d (s_table s)) lab then inl EDupIndex
      else inr (lab, insert_rows (reg s d a) (s_table s) [mkrow s a rs lab])
  end.
Proof. unfold create1_core. rewrite precheck_with_index. reflexivity. Qed.

Lemma fold_single_spec s : no_self_ref s = true ->
  forall rows xs labs d,
  Forall (fun a => a_reg_std a = false) rows ->
  precheck_all s d rows = inr xs -> length labs = length rows -> nodupb labs = true ->
  existsb (has_label (tab d (s_table s))) labs = false ->
  exists d'', fold_single s d rows (map Some labs) = inr (labs, d'') /\
              db_eq d'' (insert_rows d (s_table s) (mkrows s xs labs)).
Proof.
  intros N. induction rows as [|a rows IH]; intros xs labs d Hreg PA HL ND EX.
  - destruct labs; try discriminate. simpl in PA. inversion PA; subst. simpl.
    exists d. split; auto. split; auto. intros t. destruct (String.eqb t (s_table s)) eqn:E.
    + apply String.eqb_eq in E. subst. now rewrite tab_insert_same, app_nil_r.
    + rewrite tab_insert_other; auto. intros ->. now rewrite String.eqb_refl in E.
  - destruct labs as [|l labs]; try discriminate. simpl in PA.
    destruct (precheck s d a) as [|rs] eqn:P; try discriminate.
    destruct (precheck_all s d rows) as [|rest] eqn:PA'; try discriminate.
    inversion PA; subst. inversion Hreg; subst.
    simpl in ND, EX. apply andb_true_iff in ND. destruct ND as [ND1 ND2].
    apply orb_false_iff in EX. destruct EX as [EX1 EX2].
    simpl. rewrite create1_core_with_index, P. simpl. rewrite EX1.
    assert (Rg : reg s d a = d) by (unfold reg; now rewrite H1).
    rewrite Rg.
    set (r1 := mkrow s a rs l).
    set (d1 := insert_rows d (s_table s) [r1]).
    assert (PA1 : precheck_all s d1 rows = inr rest) by (unfold d1; now rewrite precheck_all_insert_own).
    assert (EX1' : existsb (has_label (tab d1 (s_table s))) labs = false).
    { unfold d1. rewrite tab_insert_same.
      destruct (existsb (has_label (tab d (s_table s) ++ [r1])) labs) eqn:E; auto.
      apply existsb_exists in E. destruct E as [z [Hz Hl]].
      rewrite has_label_app in Hl. apply orb_true_iff in Hl. destruct Hl as [Hl|Hl].
      - assert (existsb (has_label (tab d (s_table s))) labs = true) by (apply existsb_exists; eauto).
        congruence.
      - unfold has_label in Hl. simpl in Hl. rewrite orb_false_r in Hl. apply Z.eqb_eq in Hl. subst.
        apply negb_true_iff in ND1. assert (existsb (Z.eqb l) labs = true); [|congruence].
        apply existsb_exists. exists l. split; auto. apply Z.eqb_refl. }
    destruct (IH rest labs d1 H2 PA1 ltac:(simpl in HL; lia) ND2 EX1') as [d'' [F E]].
    rewrite F. exists d''. split; auto. eapply db_eq_trans; eauto.
    split; simpl; auto. intros t. destruct (String.eqb t (s_table s)) eqn:Et.
    + apply String.eqb_eq in Et. subst. unfold d1. rewrite !tab_insert_same, <- app_assoc. reflexivity.
    + assert (t <> s_table s) by (intros ->; now rewrite String.eqb_refl in Et).
      unfold d1. now rewrite !tab_insert_other.
Qed.

Lemma bulk_eq_fold_single_lemma : forall s d b labs d',
  no_self_ref s = true -> Forall (fun a => a_reg_std a = false) (b_rows b) ->
  create_bulk_core s d b = inr (labs, d') ->
  exists d'', fold_single s d (b_rows b) (map Some labs) = inr (labs, d'') /\ db_eq d'' d'.
Proof.
  intros s d b labs d' N Hreg C. unfold create_bulk_core in C.
  destruct (b_len_ok b); simpl in C; try discriminate.
  destruct (Nat.eqb (length (bulk_labels d s b)) (length (b_rows b))) eqn:EL; simpl in C; try discriminate.
  destruct (nodupb (bulk_labels d s b)) eqn:ND; simpl in C; try discriminate.
  destruct (existsb (has_label (tab d (s_table s))) (bulk_labels d s b)) eqn:EX; try discriminate.
  destruct (precheck_all s d (b_rows b)) as [|xs] eqn:PA; try discriminate.
  inversion C; subst. apply Nat.eqb_eq in EL.
  eapply fold_single_spec; eauto.
Qed.

(* labels chosen by the bulk function when no index is passed: consecutive from max + 1 *)
Lemma bulk_labels_consecutive_lemma : forall s d b,
  b_index b = None ->
  bulk_labels d s b = consecutive (next_label (tab d (s_table s))) (length (b_rows b)).
Proof. intros s d b H. unfold bulk_labels. now rewrite H. Qed.

Lemma fold_max_app r y x : fold_left Z.max (r ++ [y]) x = Z.max (fold_left Z.max r x) y.
Proof. now rewrite fold_left_app. Qed.

Lemma next_label_snoc l r : r_label r = next_label l -> next_label (l ++ [r]) = r_label r + 1.
Proof.
  unfold next_label, labels. rewrite map_app. simpl. destruct l as [|x l]; simpl; auto.
  intros H. rewrite fold_max_app. lia.
Qed.

(* the single function without an index picks exactly those labels one after the other *)
Lemma fold_single_none_lemma s : forall rows d,
  fold_single s d rows (map (fun _ => None) rows) =
  fold_single s d rows (map Some (consecutive (next_label (tab d (s_table s))) (length rows))).
Proof.
  induction rows as [|a rows IH]; intros d; simpl; auto.
  assert (E : create1_core s d (with_index a None) =
              create1_core s d (with_index a (Some (next_label (tab d (s_table s))))))
    by (now rewrite !create1_core_with_index).
  rewrite E. destruct (create1_core s d (with_index a (Some (next_label (tab d (s_table s))))))
    as [e|[lab d1]] eqn:C; auto.
  assert (N : next_label (tab d1 (s_table s)) = next_label (tab d (s_table s)) + 1).
  { rewrite create1_core_with_index in C. destruct (precheck _ _ _) as [|rs]; try discriminate.
    simpl in C. destruct (has_label _ _); try discriminate. inversion C; subst.
    rewrite tab_insert_same, tab_reg. rewrite next_label_snoc; reflexivity. }
  rewrite IH, N. reflexivity.
Qed.

(* ------------------------------------------------------------------ ext-grid type decision table *)
Definition all_egt : list egt := [Auto; TyP; TyT; TyPT; TyTP; TyOther].
Definition all_bool : list bool := [true; false].

Lemma auto_type_table_lemma : forall pn tn ty,
  auto_type pn tn ty =
  match pn, tn, ty with
  | true, true, _ => None
  | true, false, (Auto | TyT) => Some TyT
  | true, false, _ => None
  | false, true, (Auto | TyP) => Some TyP
  | false, true, _ => None
  | false, false, Auto => Some TyPT
  | false, false, TyTP => Some TyPT
  | false, false, x => Some x
  end.
Proof. intros [|] [|] []; reflexivity. Qed.

Lemma auto_type_sound_lemma : forall pn tn ty r,
  auto_type pn tn ty = Some r -> ty <> TyOther ->
  (r = TyP \/ r = TyT \/ r = TyPT) /\
  (pn = true -> r = TyT) /\ (tn = true -> r = TyP) /\ (pn && tn = false).
Proof. intros [|] [|] [] r H Hn; simpl in H; inversion H; subst; try congruence; repeat split; auto; try discriminate. Qed.

Lemma scalar_eq_vector_lemma : forall xs,
  forallb (fun x => negb (egt_eqb (snd x) TyOther)) xs = true -> auto_types xs = scalar_all xs.
Proof.
  induction xs as [|[[pn tn] ty] xs IH]; intros H; auto.
  simpl in H. apply andb_true_iff in H. destruct H as [H1 H2]. specialize (IH H2).
  unfold auto_types in *. simpl existsb. simpl scalar_all. simpl map.
  change (fold_right _ (Some []) xs) with (scalar_all xs). rewrite <- IH.
  destruct (existsb vec_row_bad xs); destruct (existsb (fun x => egt_eqb (snd x) TyOther) xs);
    destruct pn, tn, ty; simpl in *; try discriminate; reflexivity.
Qed.

Lemma scalar_ne_vector_unknown_type_lemma :
  scalar_all [(false, false, TyOther)] = Some [TyOther] /\ auto_types [(false, false, TyOther)] = None.
Proof. split; reflexivity. Qed.

(* ------------------------------------------------------------------ value columns *)
Lemma written_values_single_lemma : forall s d a labs d',
  create1 s d a = (Ok labs, d') ->
  exists lab r, labs = [lab] /\ tab d' (s_table s) = tab d (s_table s) ++ [r] /\ r_label r = lab /\
                r_vals r = row_values s a.
Proof.
  intros s d a labs d' H. destruct (adds_exactly_single_lemma _ _ _ _ _ H) as [lab [rs [H1 [_ [H3 _]]]]].
  exists lab, (mkrow s a rs lab). repeat split; auto.
Qed.

Lemma cell_of_in s a cols : forall col v, In (col, v) (flat_map (cell_of s a) cols) ->
  exists src, In (col, src) cols /\ In (col, v) (cell_of s a (col, src)).
Proof.
  induction cols as [|[c src] cols IH]; simpl; intros col v H; [destruct H|].
  apply in_app_or in H. destruct H as [H|H].
  - assert (c = col).
    { unfold cell_of in H. simpl in H. destruct src; try destruct (arg_value s a p); simpl in H;
        repeat (destruct H as [H|H]; [inversion H; auto|]); destruct H. }
    subst. exists src. auto.
  - destruct (IH _ _ H) as [src' [H1 H2]]. exists src'. auto.
Qed.

(* every value cell of a written row is the argument passed for its parameter, else the signature's default,
   else (constant columns) null *)
Lemma value_cells_lemma : forall s a col v, In (col, v) (row_values s a) ->
  exists src, In (col, src) (s_cols s) /\
    match src with
    | FromParam p | BoolOf p => (exists x, get p (a_vals a) = Some x /\ v = x)
                                \/ (get p (a_vals a) = None /\ get p (s_ndefaults s) = Some v)
    | ConstNone => v = "null"
    | Derived => False
    end.
Proof.
  intros s a col v H. destruct (cell_of_in _ _ _ _ _ H) as [src [Hin Hc]]. exists src. split; auto.
  unfold cell_of, arg_value in Hc. simpl in Hc.
  destruct src as [p|p| |]; simpl in Hc.
  - destruct (get p (a_vals a)) as [x|] eqn:E.
    + destruct Hc as [Hc|[]]. inversion Hc. left. eauto.
    + destruct (get p (s_ndefaults s)) as [y|] eqn:E2; [|destruct Hc]. destruct Hc as [Hc|[]]. inversion Hc. right. auto.
  - destruct (get p (a_vals a)) as [x|] eqn:E.
    + destruct Hc as [Hc|[]]. inversion Hc. left. eauto.
    + destruct (get p (s_ndefaults s)) as [y|] eqn:E2; [|destruct Hc]. destruct Hc as [Hc|[]]. inversion Hc. right. auto.
  - destruct Hc as [Hc|[]]. now inversion Hc.
  - destruct Hc.
Qed.

(* and conversely every non-derived column whose argument has a value is written *)
Lemma value_column_written_lemma : forall s a col p v,
  (In (col, FromParam p) (s_cols s) \/ In (col, BoolOf p) (s_cols s)) -> arg_value s a p = Some v ->
  In (col, v) (row_values s a).
Proof.
  intros s a col p v Hin Hv. unfold row_values. apply in_flat_map.
  destruct Hin as [Hin|Hin]; eexists; (split; [exact Hin|]); unfold cell_of; simpl; rewrite Hv; simpl; auto.
Qed.

Lemma mkrows_vals s xs : forall labs r, In r (mkrows s xs labs) -> exists a rs, In (a, rs) xs /\ r_vals r = row_values s a.
Proof.
  induction xs as [|[a rs] xs IH]; intros [|l labs] r H; simpl in H; try destruct H.
  - subst. exists a, rs. split; [now left|reflexivity].
  - destruct (IH _ _ H) as [a' [rs' [H1 H2]]]. exists a', rs'. split; [now right|auto].
Qed.

Lemma precheck_all_args s d rows xs : precheck_all s d rows = inr xs -> map fst xs = rows.
Proof.
  revert xs. induction rows as [|a rows IH]; simpl; intros xs H.
  - now inversion H.
  - destruct (precheck s d a); try discriminate. destruct (precheck_all s d rows); try discriminate.
    inversion H; subst. simpl. f_equal. auto.
Qed.

Lemma written_values_bulk_lemma : forall s d b labs d',
  create_bulk s d b = (Ok labs, d') ->
  exists rows, tab d' (s_table s) = tab d (s_table s) ++ rows /\ labels rows = labs /\
               forall r, In r rows -> exists a, In a (b_rows b) /\ r_vals r = row_values s a.
Proof.
  intros s d b labs d' H. unfold create_bulk in H.
  destruct (create_bulk_core s d b) as [e|[labs0 d0]] eqn:C; try discriminate.
  destruct (s_late s && existsb a_late_bad (b_rows b)); try discriminate. inversion H; subst.
  unfold create_bulk_core in C.
  destruct (b_len_ok b); simpl in C; try discriminate.
  destruct (Nat.eqb (length (bulk_labels d s b)) (length (b_rows b))) eqn:EL; simpl in C; try discriminate.
  destruct (nodupb (bulk_labels d s b)); simpl in C; try discriminate.
  destruct (existsb (has_label (tab d (s_table s))) (bulk_labels d s b)); try discriminate.
  destruct (precheck_all s d (b_rows b)) as [|xs] eqn:PA; try discriminate.
  inversion C; subst. apply Nat.eqb_eq in EL.
  exists (mkrows s xs (bulk_labels d s b)). repeat split.
  - now rewrite tab_insert_same.
  - apply mkrows_labels. rewrite EL. symmetry. eapply precheck_all_length; eauto.
  - intros r Hr. destruct (mkrows_vals _ _ _ _ Hr) as [a [rs [Hin Hv]]]. exists a. split; auto.
    rewrite <- (precheck_all_args _ _ _ _ PA). apply in_map_iff. exists (a, rs). auto.
Qed.
