(* C16 - property theorems only.  Each is closed by [exact] of a lemma of Proofs.v (hand model NetDB,
   tied to create.py by the correspondence of tools/props/c16.py) or decided by computation on
   Gen/CreateSigs.v (schemas regenerated from the AST of create.py on every run). *)
From Coq Require Import String List Bool ZArith.
From PP Require Import Base.Assoc C16.Model C16.Proofs Gen.CreateSigs.
Import ListNotations.
Open Scope string_scope.
Open Scope Z_scope.
Open Scope list_scope.

(* 1. unique labels + referential integrity of every checked reference column after ANY sequence of
      single / bulk calls (accepted, rejected or failing late), any schemas, any start library *)
Theorem wf_invariant : forall std cs, wf (run (empty_db std) cs).
Proof. exact wf_invariant_lemma. Qed.
Print Assumptions wf_invariant.

(* ... and of ALL reference columns when every schema used checks all of them *)
Theorem wf_invariant_all_columns : forall std cs,
  Forall (fun c => fully_checked (call_schema c) = true) cs -> wf_full (run (empty_db std) cs).
Proof. exact wf_full_lemma. Qed.
Print Assumptions wf_invariant_all_columns.

(* 2. rejects *)
Theorem rejects_missing_reference : forall s d a rs conn tv,
  resolve a (s_refcols s) (a_refvals a) = Some rs -> In (true, conn, tv) rs -> ref_ok d tv = false ->
  exists e, create1 s d a = (Err e, d).
Proof. exact rejects_missing_reference_lemma. Qed.
Print Assumptions rejects_missing_reference.

Theorem rejects_unconnected_pipe : forall s d a rs tv,
  resolve a (s_refcols s) (a_refvals a) = Some rs -> In (true, true, tv) rs ->
  pipe_connected d (snd tv) (hd 0 (a_refvals a)) = false ->
  exists e, create1 s d a = (Err e, d).
Proof. exact rejects_unconnected_pipe_lemma. Qed.
Print Assumptions rejects_unconnected_pipe.

Theorem rejects_duplicate_index : forall s d a i,
  a_index a = Some i -> has_label (tab d (s_table s)) i = true -> exists e, create1 s d a = (Err e, d).
Proof. exact rejects_duplicate_index_lemma. Qed.
Print Assumptions rejects_duplicate_index.

Theorem rejects_unknown_std_type : forall s d a t,
  s_std s = Some (t, true) -> std_ok d (t, a_std a) = false -> exists e, create1 s d a = (Err e, d).
Proof. exact rejects_unknown_std_type_lemma. Qed.
Print Assumptions rejects_unknown_std_type.

Theorem rejects_missing_p_and_t : forall s d a,
  s_eg s = true -> a_pt_null a = true -> exists e, create1 s d a = (Err e, d).
Proof. exact rejects_missing_p_and_t_lemma. Qed.
Print Assumptions rejects_missing_p_and_t.

Theorem rejects_unknown_et : forall s d a,
  existsb (fun c => match rc_tsel c with ByEt => true | _ => false end) (s_refcols s) = true ->
  a_et a = None -> exists e, create1 s d a = (Err e, d).
Proof. exact rejects_unknown_et_lemma. Qed.
Print Assumptions rejects_unknown_et.

(* bulk: unequal lengths, duplicate / existing labels, one bad row => the whole call is rejected *)
Theorem rejects_bulk : forall s d b,
  b_len_ok b = false
  \/ (exists l, b_index b = Some l /\ (length l <> length (b_rows b) \/ nodupb l = false
                                     \/ existsb (has_label (tab d (s_table s))) l = true))
  \/ (exists a e, In a (b_rows b) /\ precheck s d a = inl e) ->
  exists e, create_bulk s d b = (Err e, d).
Proof. exact rejects_bulk_lemma. Qed.
Print Assumptions rejects_bulk.

(* 3. atomic: a rejected call leaves the db unchanged - unless the failure happens after the row
      write (schemas with s_late, argument malformed for the late step) *)
Theorem atomic_single : forall s d a e d',
  create1 s d a = (Err e, d') -> s_late s = false \/ a_late_bad a = false -> d' = d.
Proof. exact atomic_single_lemma. Qed.
Print Assumptions atomic_single.

Theorem atomic_bulk : forall s d b e d',
  create_bulk s d b = (Err e, d') -> s_late s = false \/ existsb a_late_bad (b_rows b) = false -> d' = d.
Proof. exact atomic_bulk_lemma. Qed.
Print Assumptions atomic_bulk.

(* refuted at full strength by the faithful model: a late failure leaves the new row in place *)
Theorem atomic_refuted_for_late_failures : forall s d a lab d',
  s_late s = true -> a_late_bad a = true -> create1_core s d a = inr (lab, d') ->
  create1 s d a = (Err ELate, d') /\ has_label (tab d' (s_table s)) lab = true
  /\ has_label (tab d (s_table s)) lab = false.
Proof. exact late_failure_not_atomic_lemma. Qed.
Print Assumptions atomic_refuted_for_late_failures.

(* 4. adds exactly *)
Theorem adds_exactly_single : forall s d a labs d',
  create1 s d a = (Ok labs, d') ->
  exists lab rs,
    labs = [lab] /\ precheck s d a = inr rs /\
    tab d' (s_table s) = tab d (s_table s) ++ [mkrow s a rs lab] /\
    (forall t, t <> s_table s -> tab d' t = tab d t) /\
    has_label (tab d (s_table s)) lab = false /\
    lab = match a_index a with Some i => i | None => next_label (tab d (s_table s)) end /\
    d_std d' = d_std (reg s d a).
Proof. exact adds_exactly_single_lemma. Qed.
Print Assumptions adds_exactly_single.

Theorem adds_exactly_bulk : forall s d b labs d',
  create_bulk s d b = (Ok labs, d') ->
  exists rows,
    tab d' (s_table s) = tab d (s_table s) ++ rows /\ labels rows = labs /\
    length labs = length (b_rows b) /\ NoDup labs /\
    (forall z, In z labs -> has_label (tab d (s_table s)) z = false) /\
    (forall t, t <> s_table s -> tab d' t = tab d t) /\ d_std d' = d_std d /\
    labs = bulk_labels d s b.
Proof. exact adds_exactly_bulk_lemma. Qed.
Print Assumptions adds_exactly_bulk.

(* 4b. ... with the documented values: every value column of the written row holds the argument passed for the
   parameter that feeds it (column -> parameter generated from the AST of create.py), else the literal default of
   the signature, else (constant columns) None; columns computed by the function are excluded (Derived) *)
Theorem written_row_values_single : forall s d a labs d',
  create1 s d a = (Ok labs, d') ->
  exists lab r, labs = [lab] /\ tab d' (s_table s) = tab d (s_table s) ++ [r] /\ r_label r = lab /\
                r_vals r = row_values s a.
Proof. exact written_values_single_lemma. Qed.
Print Assumptions written_row_values_single.

Theorem written_row_values_bulk : forall s d b labs d',
  create_bulk s d b = (Ok labs, d') ->
  exists rows, tab d' (s_table s) = tab d (s_table s) ++ rows /\ labels rows = labs /\
               forall r, In r rows -> exists a, In a (b_rows b) /\ r_vals r = row_values s a.
Proof. exact written_values_bulk_lemma. Qed.
Print Assumptions written_row_values_bulk.

Theorem value_cells_are_arguments_or_defaults : forall s a col v, In (col, v) (row_values s a) ->
  exists src, In (col, src) (s_cols s) /\
    match src with
    | FromParam p | BoolOf p => (exists x, get p (a_vals a) = Some x /\ v = x)
                                \/ (get p (a_vals a) = None /\ get p (s_ndefaults s) = Some v)
    | ConstNone => v = "null"
    | Derived => False
    end.
Proof. exact value_cells_lemma. Qed.
Print Assumptions value_cells_are_arguments_or_defaults.

Theorem value_column_written : forall s a col p v,
  (In (col, FromParam p) (s_cols s) \/ In (col, BoolOf p) (s_cols s)) -> arg_value s a p = Some v ->
  In (col, v) (row_values s a).
Proof. exact value_column_written_lemma. Qed.
Print Assumptions value_column_written.

(* 5. bulk = left fold of the single twin over the rows *)
Theorem bulk_eq_fold_single : forall s d b labs d',
  no_self_ref s = true -> Forall (fun a => a_reg_std a = false) (b_rows b) ->
  create_bulk_core s d b = inr (labs, d') ->
  exists d'', fold_single s d (b_rows b) (map Some labs) = inr (labs, d'') /\ db_eq d'' d'.
Proof. exact bulk_eq_fold_single_lemma. Qed.
Print Assumptions bulk_eq_fold_single.

Theorem bulk_labels_consecutive : forall s d b,
  b_index b = None ->
  bulk_labels d s b = consecutive (next_label (tab d (s_table s))) (length (b_rows b)).
Proof. exact bulk_labels_consecutive_lemma. Qed.
Print Assumptions bulk_labels_consecutive.

Theorem single_without_index_picks_consecutive : forall s rows d,
  fold_single s d rows (map (fun _ => None) rows) =
  fold_single s d rows (map Some (consecutive (next_label (tab d (s_table s))) (length rows))).
Proof. exact fold_single_none_lemma. Qed.
Print Assumptions single_without_index_picks_consecutive.

(* 7. ext-grid type inference *)
Theorem auto_ext_grid_type_table : forall pn tn ty,
  auto_type pn tn ty =
  match pn, tn, ty with
  | true, true, _ => None
  | true, false, (Auto | TyT) => Some TyT
  | true, false, _ => None
  | false, true, (Auto | TyP) => Some TyP
  | false, true, _ => None
  | false, false, Auto => Some TyPT
  | false, false, TyTP => Some TyPT
  | false, false, x => Some x
  end.
Proof. exact auto_type_table_lemma. Qed.
Print Assumptions auto_ext_grid_type_table.

Theorem auto_ext_grid_type_scalar_eq_vector : forall xs,
  forallb (fun x => negb (egt_eqb (snd x) TyOther)) xs = true -> auto_types xs = scalar_all xs.
Proof. exact scalar_eq_vector_lemma. Qed.
Print Assumptions auto_ext_grid_type_scalar_eq_vector.

Theorem auto_ext_grid_type_refuted_for_unknown_type :
  scalar_all [(false, false, TyOther)] = Some [TyOther] /\ auto_types [(false, false, TyOther)] = None.
Proof. exact scalar_ne_vector_unknown_type_lemma. Qed.
Print Assumptions auto_ext_grid_type_refuted_for_unknown_type.

(* ---- facts about the schemas generated from create.py (re-decided on every run) ---- *)
(* bulk_eq_fold_single applies to every generated schema; each bulk function has the shape of its twin *)
Theorem generated_no_self_reference : forallb no_self_ref all_sigs = true.
Proof. vm_compute. reflexivity. Qed.
Print Assumptions generated_no_self_reference.

Theorem generated_twins_same_shape : forallb same_shape twins = true.
Proof. vm_compute. reflexivity. Qed.
Print Assumptions generated_twins_same_shape.

(* every create function checks every reference column before writing, except (known findings) *)
Theorem generated_unchecked_columns_only_known :
  subset_str (unchecked_fns all_sigs)
             ["create_pump_from_parameters"] = true.
Proof. vm_compute. reflexivity. Qed.
Print Assumptions generated_unchecked_columns_only_known.

(* hence: after ANY sequence of calls of the generated create functions other than create_pump_from_parameters
   every reference column of every row (checked or not) resolves - full referential integrity *)
Theorem generated_full_referential_integrity : forall std cs,
  Forall (fun c => In (call_schema c) all_sigs /\ s_fn (call_schema c) <> "create_pump_from_parameters") cs ->
  wf_full (run (empty_db std) cs).
Proof.
  intros std cs H. apply wf_full_lemma. eapply Forall_impl; [|exact H]. intros c [Hin Hne].
  assert (A : forallb (fun s => fully_checked s || String.eqb (s_fn s) "create_pump_from_parameters") all_sigs = true)
    by (vm_compute; reflexivity).
  rewrite forallb_forall in A. specialize (A _ Hin). apply orb_true_iff in A. destruct A as [A|A]; auto.
  apply String.eqb_eq in A. contradiction.
Qed.
Print Assumptions generated_full_referential_integrity.

(* the generated column maps: every optional parameter that feeds a column has a canonical default; the only
   columns computed by the function are the std-type parameters of create_pipe(s) (their values: C19
   std_type_reaches_pipe_unchanged), the inferred ext-grid-like type and the clamped storage level *)
Definition derived_cols (s : schema) : list string :=
  map fst (filter (fun cs => match snd cs with Derived => true | _ => false end) (s_cols s)).
Theorem generated_derived_columns_only_known :
  forallb (fun s => subset_str (derived_cols s)
                      (if String.eqb (s_table s) "pipe" then ["inner_diameter_mm"; "outer_diameter_mm"; "k_mm"; "u_w_per_m2k"]
                       else if s_eg s then ["type"]
                       else if String.eqb (s_fn s) "create_mass_storage" then ["init_m_stored_kg"] else [])) all_sigs = true
  /\ derived_cols sig_create_pipe_from_parameters = [] /\ derived_cols sig_create_pipes_from_parameters = [].
Proof. vm_compute. repeat split; reflexivity. Qed.
Print Assumptions generated_derived_columns_only_known.

(* "as documented": every argument lands in the column that carries its name (plural parameter of a bulk function:
   the singular column); the only rename is new_std_type_name -> std_type *)
Definition named_after (col p : string) : bool :=
  String.eqb col p || String.eqb (col ++ "s") p || (String.eqb col "std_type" && String.eqb p "new_std_type_name").
Theorem generated_columns_named_after_parameters :
  forallb (fun s => forallb (fun cs => match snd cs with FromParam p | BoolOf p => named_after (fst cs) p | _ => true end)
                            (s_cols s)) all_sigs = true.
Proof. vm_compute. reflexivity. Qed.
Print Assumptions generated_columns_named_after_parameters.

(* bulk and single twin write the same columns, fed in the same way (argument / constant / computed) *)
Definition same_kind (x y : colsrc) : bool :=
  match x, y with
  | Derived, Derived | ConstNone, ConstNone => true
  | (FromParam _ | BoolOf _), (FromParam _ | BoolOf _) => true
  | _, _ => false end.
Definition cols_included (a b : schema) : bool :=
  forallb (fun x => existsb (fun y => String.eqb (fst x) (fst y) && same_kind (snd x) (snd y)) (s_cols b)) (s_cols a).
Theorem generated_twins_same_columns :
  forallb (fun pr => cols_included (fst pr) (snd pr) && cols_included (snd pr) (fst pr)) twins = true.
Proof. vm_compute. reflexivity. Qed.
Print Assumptions generated_twins_same_columns.

(* no create function evaluates an argument of the call after its row write, except the single functions that
   store the (already length-checked / free-form) geodata argument itself; every bulk function only appends frames
   that were built and validated before the write *)
Theorem generated_late_failures_only_known :
  subset_str (late_fns all_sigs)
             ["create_junction"; "create_pipe"; "create_pipe_from_parameters"] = true.
Proof. vm_compute. reflexivity. Qed.
Print Assumptions generated_late_failures_only_known.

(* create_junctions (the bulk function without a per-row list) compares the length of a passed index with
   nr_junctions before writing - the length clause of rejects_bulk applies to it as to the other bulk functions *)
Theorem generated_junctions_index_length_checked : In "create_junctions" index_len_checked.
Proof. vm_compute. auto. Qed.
Print Assumptions generated_junctions_index_length_checked.

(* 6. (defaults part) twins (bulk / single, std-type / parameters) have the same literal defaults *)
Theorem generated_twin_defaults_equal : twin_diffs (twins ++ std_param_twins) = [].
Proof. vm_compute. reflexivity. Qed.
Print Assumptions generated_twin_defaults_equal.

(* ---- the hypotheses are satisfiable: a populated net, accepted and rejected calls ---- *)
Definition ex_args (idx : option Z) (refs : list Z) : args :=
  {| a_index := idx; a_refvals := refs; a_et := Some TJ; a_std := "80_GGG"; a_reg_std := false;
     a_pt_null := false; a_invalid := false; a_late_bad := false; a_vals := [("mdot_kg_per_s", "1"); ("scaling", "2")];
     a_pay := 0 |}.
Definition ex_calls : list call :=
  [Bulk sig_create_junctions {| b_index := Some [7; 3; 5]; b_rows := [ex_args None []; ex_args None []; ex_args None []]; b_len_ok := true |};
   Single sig_create_pipe (ex_args None [7; 3]);
   Single sig_create_pipe (ex_args (Some 0) [3; 5]);          (* duplicate label: rejected *)
   Single sig_create_sink (ex_args None [4]);                 (* missing junction: rejected *)
   Bulk sig_create_sinks {| b_index := None; b_rows := [ex_args None [3]; ex_args None [5]]; b_len_ok := true |};
   Single sig_create_valve {| a_index := None; a_refvals := [7; 0]; a_et := Some TP; a_std := ""; a_reg_std := false;
                              a_pt_null := false; a_invalid := false; a_late_bad := false; a_vals := []; a_pay := 0 |}].
Example ex_run_tables :
  let d := run (empty_db [("pipe", "80_GGG")]) ex_calls in
  (labels (tab d "junction"), labels (tab d "pipe"), labels (tab d "sink"), view d "valve")
  = ([7; 3; 5], [0], [0; 1], [(0, [7; 0])]).
Proof. vm_compute. reflexivity. Qed.
Example ex_late_hypotheses :
  exists d', create1 sig_create_junction (empty_db [])
               {| a_index := None; a_refvals := []; a_et := None; a_std := ""; a_reg_std := false; a_pt_null := false;
                  a_invalid := false; a_late_bad := true; a_vals := []; a_pay := 0 |} = (Err ELate, d')
             /\ labels (tab d' "junction") = [0].
Proof. eexists. vm_compute. split; reflexivity. Qed.
Example ex_bulk_fold :
  create_bulk_core sig_create_sinks (run (empty_db []) [Bulk sig_create_junctions
     {| b_index := None; b_rows := [ex_args None []; ex_args None []]; b_len_ok := true |}])
     {| b_index := None; b_rows := [ex_args None [0]; ex_args None [1]]; b_len_ok := true |}
  <> inl ELen.
Proof. vm_compute. discriminate. Qed.

(* value columns of a created sink: passed arguments, signature defaults, bool(in_service) *)
Example ex_values :
  map r_vals (tab (run (empty_db []) [Bulk sig_create_junctions {| b_index := None; b_rows := [ex_args None []]; b_len_ok := true |};
                                      Single sig_create_sink (ex_args None [0])]) "sink")
  = [[("name", "null"); ("mdot_kg_per_s", "1"); ("scaling", "2"); ("in_service", "true"); ("type", "s:sink")]].
Proof. vm_compute. reflexivity. Qed.
