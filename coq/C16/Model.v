(* C16 - "NetDB": hand-written executable model of element creation in pandapipes/create.py
   (H-tie; definitions only, no proofs).  ONE parametric model covers every create function: what
   differs per function is a [schema] (table, reference columns and whether the code checks them,
   std-type column, ext-grid-like type inference, failure possible after the row was written,
   literal defaults).  The schemas are GENERATED from the AST of create.py (Gen/CreateSigs.v).
   Tie: tools/props/c16.py runs the real functions and compares inside Coq with [create1] /
   [create_bulk] applied to the generated schema of the function called.
   The model says what the code does today, bugs included: an unchecked reference column is written
   unchecked, a late failure leaves the row in place. *)
From Coq Require Import String List Bool ZArith.
From PP Require Import Base.Assoc.
Import ListNotations.
Open Scope string_scope.
Open Scope Z_scope.
Open Scope list_scope.

(* ---------------------------------------------------------------- schemas (generated) *)
Inductive target := TJ | TP.                      (* junction table / pipe table *)
Definition target_tab (t : target) : string := match t with TJ => "junction" | TP => "pipe" end.
Inductive tsel := Fixed (t : target) | ByEt.      (* valve.element: target chosen by the argument et *)
(* what feeds a written column: an argument as it is / through bool(), the constant None, or a value computed
   by the function (std-type parameters, inferred type, clamped storage level) - not modelled here *)
Inductive colsrc := FromParam (p : string) | BoolOf (p : string) | ConstNone | Derived.
Record refcol := { rc_col : string; rc_tsel : tsel; rc_checked : bool }.
Record schema := {
  s_fn : string; s_table : string; s_bulk : bool;
  s_refcols : list refcol;
  s_std : option (string * bool);                 (* std-type table, checked by _check_std_type ? *)
  s_eg : bool;                                    (* type inferred by _auto_ext_grid_type(s) *)
  s_late : bool;                                  (* a raise / check / second write follows the row write *)
  s_defaults : list (string * string);            (* parameter (singular name) -> repr of its default *)
  s_cols : list (string * colsrc);                (* every column the row writer sets, and what feeds it *)
  s_ndefaults : list (string * string) }.         (* parameter (own name) -> canonical encoding of its default *)

(* ---------------------------------------------------------------- the net as a database *)
Record row := {
  r_label : Z;
  r_refvals : list Z;                             (* all reference columns, in schema order *)
  r_refs : list (target * Z);                     (* the checked ones *)
  r_loose : list (target * Z);                    (* written without an existence check *)
  r_std : list (string * string);                 (* checked std-type reference (table, name) *)
  r_loose_std : list (string * string);
  r_vals : list (string * string);                (* value columns: column -> canonical encoding of the cell *)
  r_pay : Z }.                                    (* fields computed by the function: abstract token *)
Definition table := list row.
Record db := { d_tabs : layer table; d_std : list (string * string) }.

Definition empty_db (std : list (string * string)) : db := {| d_tabs := []; d_std := std |}.
Definition tab (d : db) (t : string) : table := match get t (d_tabs d) with Some l => l | None => [] end.
Definition labels (l : table) : list Z := map r_label l.
Definition has_label (l : table) (z : Z) : bool := existsb (Z.eqb z) (labels l).
Definition ref_ok (d : db) (r : target * Z) : bool := has_label (tab d (target_tab (fst r))) (snd r).
Definition std_eqb (a b : string * string) : bool := String.eqb (fst a) (fst b) && String.eqb (snd a) (snd b).
Definition std_ok (d : db) (s : string * string) : bool := existsb (std_eqb s) (d_std d).

(* pandapower get_free_id: 0 on an empty table, max + 1 otherwise *)
Definition next_label (l : table) : Z :=
  match labels l with [] => 0 | x :: r => fold_left Z.max r x + 1 end.

(* valve with et = "pi": the pipe must have the valve's junction as an end point *)
Definition is_junction_ref (j : Z) (x : target * Z) : bool :=
  match fst x with TJ => Z.eqb (snd x) j | TP => false end.
Definition pipe_connected (d : db) (p j : Z) : bool :=
  existsb (fun r => Z.eqb (r_label r) p && existsb (is_junction_ref j) (r_refs r)) (tab d "pipe").

Definition insert_rows (d : db) (t : string) (rs : list row) : db :=
  {| d_tabs := set t (tab d t ++ rs) (d_tabs d); d_std := d_std d |}.

(* ---------------------------------------------------------------- one call *)
Record args := {
  a_index : option Z;
  a_refvals : list Z;                             (* one value per reference column of the schema *)
  a_et : option target;                           (* valve: "ju" / "pi" / anything else *)
  a_std : string;                                 (* std type name (if the schema has one) *)
  a_reg_std : bool;                               (* create_pump_from_parameters: registers the type first *)
  a_pt_null : bool;                               (* neither pressure nor temperature given *)
  a_invalid : bool;                               (* another documented precondition fails (value checks) *)
  a_late_bad : bool;                              (* the step after the row write fails (malformed geodata) *)
  a_vals : list (string * string);                (* arguments passed explicitly: parameter -> canonical encoding *)
  a_pay : Z }.

Inductive err := EInvalid | EArity | EDupIndex | EMissingRef | EUnknownStd | ENoPT | ELen | ELate.
Inductive status := Ok (labs : list Z) | Err (e : err).
Definition is_ok (s : status) : bool := match s with Ok _ => true | Err _ => false end.

(* resolved reference: (checked, needs pipe connection, (target, value)) *)
Definition res := (bool * bool * (target * Z))%type.
Definition sel (a : args) (ts : tsel) : option (target * bool) :=
  match ts with
  | Fixed t => Some (t, false)
  | ByEt => match a_et a with Some TP => Some (TP, true) | Some TJ => Some (TJ, false) | None => None end
  end.
Fixpoint resolve (a : args) (cols : list refcol) (vals : list Z) : option (list res) :=
  match cols, vals with
  | [], [] => Some []
  | c :: cs, v :: vs =>
      match sel a (rc_tsel c), resolve a cs vs with
      | Some (t, conn), Some r => Some ((rc_checked c, conn, (t, v)) :: r)
      | _, _ => None
      end
  | _, _ => None
  end.

Definition res_ok (d : db) (j0 : Z) (x : res) : bool :=
  let '(chk, conn, tv) := x in
  negb chk || (ref_ok d tv && (negb conn || pipe_connected d (snd tv) j0)).

Definition std_refs (s : schema) (a : args) (chk : bool) : list (string * string) :=
  match s_std s with
  | Some (t, c) => if Bool.eqb c chk then [(t, a_std a)] else []
  | None => []
  end.

(* every check the code makes before it writes, except the index check *)
Definition precheck (s : schema) (d : db) (a : args) : err + list res :=
  if a_invalid a then inl EInvalid else
  match resolve a (s_refcols s) (a_refvals a) with
  | None => inl EArity
  | Some rs =>
      if negb (forallb (res_ok d (hd 0 (a_refvals a))) rs) then inl EMissingRef else
      if negb (forallb (std_ok d) (std_refs s a true)) then inl EUnknownStd else
      if s_eg s && a_pt_null a then inl ENoPT else inr rs
  end.

Definition checked_part (rs : list res) : list (target * Z) :=
  map snd (filter (fun x : res => fst (fst x)) rs).
Definition loose_part (rs : list res) : list (target * Z) :=
  map snd (filter (fun x : res => negb (fst (fst x))) rs).

(* the value an argument has in the call: passed explicitly, else the literal default of the signature *)
Definition arg_value (s : schema) (a : args) (p : string) : option string :=
  match get p (a_vals a) with Some v => Some v | None => get p (s_ndefaults s) end.
Definition cell_of (s : schema) (a : args) (cs : string * colsrc) : list (string * string) :=
  match snd cs with
  | FromParam p | BoolOf p => match arg_value s a p with Some v => [(fst cs, v)] | None => [] end
  | ConstNone => [(fst cs, "null")]
  | Derived => []
  end.
Definition row_values (s : schema) (a : args) : list (string * string) := flat_map (cell_of s a) (s_cols s).

Definition mkrow (s : schema) (a : args) (rs : list res) (lab : Z) : row :=
  {| r_label := lab; r_refvals := a_refvals a; r_refs := checked_part rs; r_loose := loose_part rs;
     r_std := std_refs s a true; r_loose_std := std_refs s a false; r_vals := row_values s a; r_pay := a_pay a |}.

Definition reg (s : schema) (d : db) (a : args) : db :=
  if a_reg_std a then
    match s_std s with
    | Some (t, _) => {| d_tabs := d_tabs d; d_std := (t, a_std a) :: d_std d |}
    | None => d
    end
  else d.

(* the part before a possible late failure: None = rejected, db untouched *)
Definition create1_core (s : schema) (d : db) (a : args) : err + (Z * db) :=
  match precheck s d a with
  | inl e => inl e
  | inr rs =>
      let t := tab d (s_table s) in
      let lab := match a_index a with Some i => i | None => next_label t end in
      if has_label t lab then inl EDupIndex
      else inr (lab, insert_rows (reg s d a) (s_table s) [mkrow s a rs lab])
  end.

Definition create1 (s : schema) (d : db) (a : args) : status * db :=
  match create1_core s d a with
  | inl e => (Err e, d)
  | inr (lab, d') => if s_late s && a_late_bad a then (Err ELate, d') else (Ok [lab], d')
  end.

(* ---------------------------------------------------------------- bulk calls *)
Record bargs := { b_index : option (list Z); b_rows : list args; b_len_ok : bool }.

Fixpoint nodupb (l : list Z) : bool :=
  match l with [] => true | x :: r => negb (existsb (Z.eqb x) r) && nodupb r end.

Fixpoint consecutive (start : Z) (n : nat) : list Z :=
  match n with O => [] | S k => start :: consecutive (start + 1) k end.

Fixpoint precheck_all (s : schema) (d : db) (rows : list args) : err + list (args * list res) :=
  match rows with
  | [] => inr []
  | a :: r => match precheck s d a, precheck_all s d r with
              | inl e, _ => inl e
              | _, inl e => inl e
              | inr rs, inr rest => inr ((a, rs) :: rest)
              end
  end.

Fixpoint mkrows (s : schema) (xs : list (args * list res)) (labs : list Z) : list row :=
  match xs, labs with
  | (a, rs) :: xr, l :: lr => mkrow s a rs l :: mkrows s xr lr
  | _, _ => []
  end.

Definition bulk_labels (d : db) (s : schema) (b : bargs) : list Z :=
  match b_index b with
  | Some l => l
  | None => consecutive (next_label (tab d (s_table s))) (length (b_rows b))
  end.

Definition create_bulk_core (s : schema) (d : db) (b : bargs) : err + (list Z * db) :=
  if negb (b_len_ok b) then inl ELen else
  let t := tab d (s_table s) in
  let labs := bulk_labels d s b in
  if negb (Nat.eqb (length labs) (length (b_rows b))) then inl ELen else
  if negb (nodupb labs) then inl EDupIndex else
  if existsb (has_label t) labs then inl EDupIndex else
  match precheck_all s d (b_rows b) with
  | inl e => inl e
  | inr xs => inr (labs, insert_rows d (s_table s) (mkrows s xs labs))
  end.

Definition create_bulk (s : schema) (d : db) (b : bargs) : status * db :=
  match create_bulk_core s d b with
  | inl e => (Err e, d)
  | inr (labs, d') => if s_late s && existsb a_late_bad (b_rows b) then (Err ELate, d') else (Ok labs, d')
  end.

(* the single twin applied one by one with the given labels *)
Definition with_index (a : args) (i : option Z) : args :=
  {| a_index := i; a_refvals := a_refvals a; a_et := a_et a; a_std := a_std a; a_reg_std := a_reg_std a;
     a_pt_null := a_pt_null a; a_invalid := a_invalid a; a_late_bad := a_late_bad a; a_vals := a_vals a;
     a_pay := a_pay a |}.

Fixpoint fold_single (s : schema) (d : db) (rows : list args) (idx : list (option Z)) : err + (list Z * db) :=
  match rows, idx with
  | [], _ => inr ([], d)
  | a :: r, i :: ir =>
      match create1_core s d (with_index a i) with
      | inl e => inl e
      | inr (lab, d') => match fold_single s d' r ir with
                         | inl e => inl e
                         | inr (labs, d'') => inr (lab :: labs, d'')
                         end
      end
  | _ :: _, [] => inl ELen
  end.

(* ---------------------------------------------------------------- call sequences *)
Inductive call := Single (s : schema) (a : args) | Bulk (s : schema) (b : bargs).
Definition step (d : db) (c : call) : db :=
  match c with Single s a => snd (create1 s d a) | Bulk s b => snd (create_bulk s d b) end.
Definition run (d : db) (cs : list call) : db := fold_left step cs d.

(* ---------------------------------------------------------------- well-formedness *)
Definition row_ok (d : db) (r : row) : bool := forallb (ref_ok d) (r_refs r) && forallb (std_ok d) (r_std r).
Definition wf (d : db) : Prop :=
  (forall t, NoDup (labels (tab d t))) /\ (forall t r, In r (tab d t) -> row_ok d r = true).
(* complete referential integrity: also the columns the code does not check *)
Definition row_ok_full (d : db) (r : row) : bool :=
  row_ok d r && forallb (ref_ok d) (r_loose r) && forallb (std_ok d) (r_loose_std r).

Definition fully_checked (s : schema) : bool :=
  forallb rc_checked (s_refcols s) && match s_std s with Some (_, c) => c | None => true end.

(* no reference column of the schema points into the schema's own table *)
Definition no_self_ref (s : schema) : bool :=
  forallb (fun c => match rc_tsel c with
                    | Fixed t => negb (String.eqb (target_tab t) (s_table s))
                    | ByEt => negb (String.eqb "junction" (s_table s)) && negb (String.eqb "pipe" (s_table s))
                    end) (s_refcols s).

(* ---------------------------------------------------------------- ext-grid type inference *)
Inductive egt := Auto | TyP | TyT | TyPT | TyTP | TyOther.
Definition egt_eqb (a b : egt) : bool :=
  match a, b with Auto, Auto | TyP, TyP | TyT, TyT | TyPT, TyPT | TyTP, TyTP | TyOther, TyOther => true | _, _ => false end.
Definition is_in (x : egt) (l : list egt) : bool := existsb (egt_eqb x) l.
(* _auto_ext_grid_type: None = raises *)
Definition auto_type (p_null t_null : bool) (typ : egt) : option egt :=
  if p_null && t_null then None else
  if negb (is_in typ [TyT; Auto]) && p_null then None else
  if negb (is_in typ [TyP; Auto]) && t_null then None else
  match typ with
  | TyTP => Some TyPT
  | Auto => Some (if p_null then TyT else if t_null then TyP else TyPT)
  | x => Some x
  end.
(* _auto_ext_grid_types on arrays (nulls coded as NaN): masks, then all-or-nothing; an unknown type
   makes the warning's overview table fail (ValueError), i.e. the call is rejected *)
Definition vec_row_bad (x : bool * bool * egt) : bool :=
  let '(pn, tn, ty) := x in
  (pn && tn) || (is_in ty [TyP; TyPT; TyTP] && pn) || (is_in ty [TyT; TyPT; TyTP] && tn).
Definition vec_row_type (x : bool * bool * egt) : egt :=
  let '(pn, tn, ty) := x in
  match ty with
  | TyTP => TyPT
  | Auto => if negb pn && tn then TyP else if pn && negb tn then TyT else if negb pn && negb tn then TyPT else Auto
  | y => y
  end.
Definition auto_types (xs : list (bool * bool * egt)) : option (list egt) :=
  if existsb vec_row_bad xs then None else
  if existsb (fun x => egt_eqb (snd x) TyOther) xs then None else
  Some (map vec_row_type xs).
Definition scalar_all (xs : list (bool * bool * egt)) : option (list egt) :=
  fold_right (fun x acc => match auto_type (fst (fst x)) (snd (fst x)) (snd x), acc with
                           | Some t, Some l => Some (t :: l) | _, _ => None end) (Some []) xs.

(* ---------------------------------------------------------------- defaults of twins *)
Definition default_of (s : schema) (p : string) : option string := get p (s_defaults s).
(* parameters both twins have as optional ones, whose literal defaults differ *)
Definition default_diffs (pr : schema * schema) : list (string * string * string) :=
  flat_map (fun kv => match default_of (snd pr) (fst kv) with
                      | Some v => if String.eqb v (snd kv) || String.eqb v "<required>"
                                     || String.eqb (snd kv) "<required>" then [] else [(fst kv, snd kv, v)]
                      | None => []
                      end) (s_defaults (fst pr)).
Fixpoint forall2b {A} (f : A -> A -> bool) (a b : list A) : bool :=
  match a, b with [], [] => true | x :: r, y :: s => f x y && forall2b f r s | _, _ => false end.
Definition same_shape (pr : schema * schema) : bool :=
  String.eqb (s_table (fst pr)) (s_table (snd pr)) &&
  forall2b (fun a b => String.eqb (rc_col a) (rc_col b) && Bool.eqb (rc_checked a) (rc_checked b) &&
                              match rc_tsel a, rc_tsel b with
                              | Fixed TJ, Fixed TJ | Fixed TP, Fixed TP | ByEt, ByEt => true | _, _ => false end)
           (s_refcols (fst pr)) (s_refcols (snd pr)) &&
  Bool.eqb (s_eg (fst pr)) (s_eg (snd pr)) &&
  match s_std (fst pr), s_std (snd pr) with
  | Some (a, c), Some (b, c') => String.eqb a b && Bool.eqb c c' | None, None => true | _, _ => false end.

(* ---------------------------------------------------------------- correspondence cases *)
Definition view (d : db) (t : string) : list (Z * list Z) := map (fun r => (r_label r, r_refvals r)) (tab d t).
Fixpoint zlist_eqb (a b : list Z) : bool :=
  match a, b with [] , [] => true | x :: r, y :: s => Z.eqb x y && zlist_eqb r s | _, _ => false end.
Fixpoint view_eqb (a b : list (Z * list Z)) : bool :=
  match a, b with
  | [], [] => true
  | (x, u) :: r, (y, v) :: s => Z.eqb x y && zlist_eqb u v && view_eqb r s
  | _, _ => false
  end.
Record case := {
  c_schema : schema; c_db : db; c_call : call;
  c_ok : bool;                          (* the real call returned normally *)
  c_labels : list Z;                    (* labels it returned *)
  c_after : list (Z * list Z);          (* target table afterwards: label, reference columns *)
  c_std_after : nat;                    (* number of std types of the schema's std table afterwards *)
  c_new_vals : list (list (string * string)) }.   (* value columns of the rows added by the real call *)
Fixpoint pairs_eqb (a b : list (string * string)) : bool :=
  match a, b with
  | [], [] => true
  | (k, v) :: r, (k', v') :: r' => String.eqb k k' && String.eqb v v' && pairs_eqb r r'
  | _, _ => false
  end.
Fixpoint rows_eqb (a b : list (list (string * string))) : bool :=
  match a, b with [], [] => true | x :: r, y :: r' => pairs_eqb x y && rows_eqb r r' | _, _ => false end.
Definition count_std (d : db) (t : string) : nat := length (filter (fun x => String.eqb (fst x) t) (d_std d)).
Definition case_ok (c : case) : bool :=
  let '(st, d') := match c_call c with
                   | Single s a => create1 s (c_db c) a
                   | Bulk s b => create_bulk s (c_db c) b end in
  Bool.eqb (is_ok st) (c_ok c) &&
  match st with Ok l => zlist_eqb l (c_labels c) | Err _ => true end &&
  view_eqb (view d' (s_table (c_schema c))) (c_after c) &&
  rows_eqb (map r_vals (skipn (length (tab (c_db c) (s_table (c_schema c)))) (tab d' (s_table (c_schema c))))) (c_new_vals c) &&
  match s_std (c_schema c) with Some (t, _) => Nat.eqb (count_std d' t) (c_std_after c) | None => true end.
Fixpoint first_bad (cs : list case) (i : nat) : option nat :=
  match cs with [] => None | c :: r => if case_ok c then first_bad r (S i) else Some i end.
Definition summary (cs : list case) : nat * nat * Z :=
  (length cs, length (filter (fun c => negb (case_ok c)) cs),
   match first_bad cs 0 with Some i => Z.of_nat i | None => (-1)%Z end).

(* names of generated schemas with a given defect class, and the twin default differences *)
Definition unchecked_fns (sigs : list schema) : list string := map s_fn (filter (fun s => negb (fully_checked s)) sigs).
Definition late_fns (sigs : list schema) : list string := map s_fn (filter s_late sigs).
Definition twin_diffs (prs : list (schema * schema)) : list (string * string) :=
  flat_map (fun pr => map (fun x => (s_fn (fst pr), fst (fst x))) (default_diffs pr)) prs.
Definition subset_str (a b : list string) : bool := forallb (fun x => existsb (String.eqb x) b) a.
Definition subset_str2 (a b : list (string * string)) : bool :=
  forallb (fun x => existsb (fun y => String.eqb (fst x) (fst y) && String.eqb (snd x) (snd y)) b) a.
