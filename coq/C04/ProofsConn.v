(* C04 - the connectivity search marks exactly the reachable nodes (any node count, any branch list). *)
From Coq Require Import ZArith List Bool Lia.
From PP Require Import C06.Model C04.Model.
Import ListNotations.
Open Scope nat_scope.

Lemma nthb_true_lt r i : nthb r i = true -> i < length r.
Proof.
  unfold nthb. intros H. destruct (Nat.lt_ge_cases i (length r)); auto.
  rewrite nth_overflow in H by lia. discriminate.
Qed.

Lemma nth_map_seq {X} (f : nat -> X) n i d : i < n -> nth i (map f (seq 0 n)) d = f i.
Proof.
  intros H. rewrite (nth_indep _ d (f 0)) by (now rewrite map_length, seq_length).
  rewrite map_nth, seq_nth by auto. reflexivity.
Qed.

(* counting marked entries *)
Lemma cnt_le_length r : count_true r <= length r.
Proof. unfold count_true. induction r as [|[] r IH]; simpl; lia. Qed.

Lemma cnt_mono r : forall r', length r = length r' ->
  (forall i, nthb r i = true -> nthb r' i = true) ->
  count_true r <= count_true r' /\ (r <> r' -> count_true r < count_true r').
Proof.
  unfold count_true.
  induction r as [|a r IH]; intros [|b r'] Hl Hsub; simpl in Hl; try discriminate.
  - split; [lia|]. intros H; now elim H.
  - assert (Hsub' : forall i, nthb r i = true -> nthb r' i = true) by (intros i Hi; apply (Hsub (S i) Hi)).
    destruct (IH r' ltac:(lia) Hsub') as [Hle Hlt].
    pose proof (Hsub 0) as H0. unfold nthb in H0; simpl in H0.
    destruct a, b; simpl.
    + split; [lia|]. intros Hne. assert (r <> r') by (intro; subst; now apply Hne). specialize (Hlt H). lia.
    + specialize (H0 eq_refl). discriminate.
    + split; lia.
    + split; [lia|]. intros Hne. assert (r <> r') by (intro; subst; now apply Hne). specialize (Hlt H). lia.
Qed.

Lemma iter_fix {X} (f : X -> X) x k : f x = x -> Nat.iter k f x = x.
Proof. intros H. induction k; simpl; auto. now rewrite IHk. Qed.

Lemma iter_plus {X} (f : X -> X) x j k : Nat.iter (j + k) f x = Nat.iter j f (Nat.iter k f x).
Proof. induction j; simpl; auto. now rewrite IHj. Qed.

Section Conn.
  Variable n : nat.
  Variable edges : list (nat * nat).
  Hypothesis edges_wf : forall f t, In (f, t) edges -> t < n.
  Variable init : list bool.
  Hypothesis init_len : length init = n.

  Notation stp := (step n edges).

  Lemma step_length r : length (stp r) = n.
  Proof. unfold step. now rewrite map_length, seq_length. Qed.

  Lemma step_nth r i : i < n ->
    nthb (stp r) i = nthb r i || existsb (fun e => nthb r (fst e) && Nat.eqb (snd e) i) edges.
  Proof. intros H. unfold nthb at 1, step. now rewrite nth_map_seq. Qed.

  Lemma step_spec r i : i < n ->
    (nthb (stp r) i = true <-> nthb r i = true \/ exists f, In (f, i) edges /\ nthb r f = true).
  Proof.
    intros H. rewrite step_nth by auto. rewrite orb_true_iff, existsb_exists. split.
    - intros [H1|[[f t] [Hin He]]]; auto. simpl in He. apply andb_true_iff in He. destruct He as [Hf Ht].
      apply Nat.eqb_eq in Ht. subst. right. eauto.
    - intros [H1|[f [Hin Hf]]]; auto. right. exists (f, i). simpl. now rewrite Hf, Nat.eqb_refl.
  Qed.

  Definition rk (k : nat) : list bool := Nat.iter k stp init.

  Lemma rk_length k : length (rk k) = n.
  Proof. destruct k; simpl; auto. apply step_length. Qed.

  Lemma rk_mono k i : nthb (rk k) i = true -> nthb (rk (S k)) i = true.
  Proof.
    intros H. pose proof (nthb_true_lt _ _ H) as Hi. rewrite rk_length in Hi.
    simpl. apply step_spec; auto.
  Qed.

  Lemma progress k : (exists j, j < k /\ stp (rk j) = rk j) \/ k <= count_true (rk k).
  Proof.
    induction k as [|k IH]; [right; lia|].
    destruct IH as [[j [Hj Hf]]|Hc]; [left; exists j; split; [lia|auto]|].
    destruct (list_eq_dec bool_dec (stp (rk k)) (rk k)) as [E|NE].
    - left. exists k. split; [lia|auto].
    - right. destruct (cnt_mono (rk k) (rk (S k))) as [_ Hlt].
      + now rewrite !rk_length.
      + apply rk_mono.
      + simpl in *. assert (rk k <> stp (rk k)) by (intro E; apply NE; now symmetry). specialize (Hlt H). lia.
  Qed.

  Lemma rk_stable j d : stp (rk j) = rk j -> rk (d + j) = rk j.
  Proof. intros H. unfold rk. rewrite iter_plus. now apply iter_fix. Qed.

  Theorem closure_fix : stp (closure n edges init) = closure n edges init.
  Proof.
    unfold closure. fold (rk n).
    destruct (progress (S n)) as [[j [Hj Hf]]|Hc].
    - assert (E : rk n = rk j).
      { pose proof (rk_stable j (n - j) Hf) as H. replace (n - j + j) with n in H by lia. exact H. }
      rewrite E. exact Hf.
    - pose proof (cnt_le_length (rk (S n))). rewrite rk_length in H. lia.
  Qed.

  Inductive Reach : nat -> Prop :=
  | Reach_init i : nthb init i = true -> Reach i
  | Reach_step f t : In (f, t) edges -> Reach f -> Reach t.

  Lemma rk_sound k : forall i, nthb (rk k) i = true -> Reach i.
  Proof.
    induction k as [|k IH]; intros i H; [now constructor|].
    pose proof (nthb_true_lt _ _ H) as Hi. rewrite rk_length in Hi.
    simpl in H. apply step_spec in H; auto. destruct H as [H|[f [Hin Hf]]]; auto.
    eapply Reach_step; eauto.
  Qed.

  Lemma init_in_rk k i : nthb init i = true -> nthb (rk k) i = true.
  Proof. intros H. induction k; auto. now apply rk_mono. Qed.

  Theorem closure_iff_reach i : nthb (closure n edges init) i = true <-> Reach i.
  Proof.
    split.
    - apply rk_sound.
    - induction 1 as [i Hi|f t Hin Hr IH].
      + now apply init_in_rk.
      + rewrite <- closure_fix. apply step_spec; [eapply edges_wf; eauto|]. right. eauto.
  Qed.
End Conn.

(* ------------------------------------------------------------------ branch level *)
Lemma map2_map {X Y W} (f : X -> Y -> W) (g : X -> Y) (xs : list X) :
  map2 f xs (map g xs) = map (fun x => f x (g x)) xs.
Proof. unfold map2. induction xs; simpl; auto. now f_equal. Qed.

Lemma combine_map_r {X Y} (g : X -> Y) (xs : list X) : combine xs (map g xs) = map (fun x => (x, g x)) xs.
Proof. induction xs; simpl; auto. now f_equal. Qed.

Section Hyd.
  Variable n : nat.
  Variable bs : list branch.
  Variables nact slack : list bool.
  Hypothesis bs_wf : forall b, In b bs -> b_from b < n /\ b_to b < n.

  (* the property's notion of "supplied" on the pit graph *)
  Inductive HReach : nat -> Prop :=
  | HR_start i : i < n -> nthb slack i = true -> nthb nact i = true -> HReach i
  | HR_fwd b : In b bs -> b_active b = true -> b_frc b = false -> HReach (b_from b) -> HReach (b_to b)
  | HR_bwd b : In b bs -> b_active b = true -> b_frc b = false -> b_directed b = false ->
               HReach (b_to b) -> HReach (b_from b).

  Definition look (b : branch) : bool := b_active b && negb (b_frc b).
  Definition hedges : list (nat * nat) := edges_of bs (map look bs).
  Definition hinit : list bool := map (fun i => nthb slack i && nthb nact i) (seq 0 n).
  Definition hnc : list bool := closure n hedges hinit.

  Lemma hedges_in f t : In (f, t) hedges <->
    exists b, In b bs /\ look b = true /\
              ((f, t) = (b_from b, b_to b) \/ (b_directed b = false /\ (f, t) = (b_to b, b_from b))).
  Proof.
    unfold hedges, edges_of. rewrite combine_map_r, flat_map_concat_map, map_map, <- flat_map_concat_map.
    rewrite in_flat_map. split.
    - intros [b [Hb Hin]]. simpl in Hin. exists b. split; auto. destruct (look b); [|inversion Hin].
      split; auto. destruct Hin as [E|Hin]; [left; now symmetry|].
      destruct (b_directed b); [inversion Hin|]. destruct Hin as [E|[]]. right. split; auto.
    - intros [b [Hb [Hl Hc]]]. exists b. split; auto. simpl. rewrite Hl.
      destruct Hc as [E|[Hd E]]; [left; now symmetry|]. right. rewrite Hd. left. now symmetry.
  Qed.

  Lemma hedges_wf f t : In (f, t) hedges -> t < n.
  Proof.
    intros H. apply hedges_in in H. destruct H as [b [Hb [_ [E|[_ E]]]]]; inversion E; subst; now apply bs_wf.
  Qed.

  Lemma hinit_len : length hinit = n.
  Proof. unfold hinit. now rewrite map_length, seq_length. Qed.

  Lemma hinit_nth i : nthb hinit i = true <-> i < n /\ nthb slack i = true /\ nthb nact i = true.
  Proof.
    split.
    - intros H. pose proof (nthb_true_lt _ _ H) as Hi. rewrite hinit_len in Hi.
      unfold nthb at 1, hinit in H. rewrite nth_map_seq in H by auto. apply andb_true_iff in H. tauto.
    - intros [Hi [H1 H2]]. unfold nthb at 1, hinit. rewrite nth_map_seq by auto. now rewrite H1, H2.
  Qed.

  Lemma look_true b : look b = true <-> b_active b = true /\ b_frc b = false.
  Proof. unfold look. rewrite andb_true_iff, negb_true_iff. tauto. Qed.

  Lemma reach_iff_hreach i : Reach hedges hinit i <-> HReach i.
  Proof.
    split.
    - induction 1 as [i Hi|f t Hin Hr IH].
      + apply hinit_nth in Hi. destruct Hi as [? [? ?]]. now constructor.
      + apply hedges_in in Hin. destruct Hin as [b [Hb [Hl [E|[Hd E]]]]]; inversion E; subst;
          apply look_true in Hl; destruct Hl.
        * now apply HR_fwd.
        * now apply HR_bwd.
    - induction 1 as [i Hi H1 H2|b Hb Ha Hf Hr IH|b Hb Ha Hf Hd Hr IH].
      + apply Reach_init. apply hinit_nth. auto.
      + eapply Reach_step; [|exact IH]. apply hedges_in. exists b. repeat split; auto.
        apply look_true; auto.
      + eapply Reach_step; [|exact IH]. apply hedges_in. exists b. split; auto. split; [apply look_true; auto|].
        right. auto.
  Qed.

  Theorem hnc_iff_hreach i : nthb hnc i = true <-> HReach i.
  Proof.
    unfold hnc. rewrite closure_iff_reach.
    - apply reach_iff_hreach.
    - apply hedges_wf.
    - apply hinit_len.
  Qed.

  (* the mark of one branch as perform_connectivity_search computes it *)
  Definition bmark (b : branch) : bool :=
    if b_frc b && (nthb hnc (b_from b) && nthb hnc (b_to b) && b_active b) then true
    else look b && nthb hnc (b_from b).

  Lemma search_hyd_eq :
    search_hyd n bs (map b_active bs) nact slack = (hnc, map bmark bs).
  Proof.
    unfold search_hyd, connectivity. rewrite map2_map. fold look. fold hedges hinit hnc.
    rewrite map2_map, map2_map. reflexivity.
  Qed.

  Theorem bmark_iff b : In b bs ->
    (bmark b = true <->
     b_active b = true /\ HReach (b_from b) /\ (b_frc b = true -> HReach (b_to b))).
  Proof.
    intros Hb. unfold bmark, look. rewrite <- !hnc_iff_hreach.
    destruct (b_frc b), (b_active b), (nthb hnc (b_from b)), (nthb hnc (b_to b)); simpl; intuition congruence.
  Qed.

  (* both ends of a marked branch are marked nodes: the reduced branch never points outside the active pit *)
  Theorem bmark_ends b : In b bs -> bmark b = true -> nthb hnc (b_from b) = true /\ nthb hnc (b_to b) = true.
  Proof.
    intros Hb Hm. apply bmark_iff in Hm; auto. destruct Hm as [Ha [Hf Ht]].
    rewrite !hnc_iff_hreach. split; auto.
    destruct (b_frc b) eqn:E; auto. now apply HR_fwd.
  Qed.

  (* the internal consistency test of _connectivity can never fire: the ends of a looked-up undirected branch agree *)
  Theorem undirected_ends_agree b : In b bs -> look b = true -> b_directed b = false ->
    nthb hnc (b_from b) = nthb hnc (b_to b).
  Proof.
    intros Hb Hl Hd. apply look_true in Hl. destruct Hl.
    apply eq_true_iff_eq. rewrite !hnc_iff_hreach. split; intros; [now apply HR_fwd|now apply HR_bwd].
  Qed.

  Lemma all_false_iff l : all_false l = true <-> forall i, nthb l i = false.
  Proof.
    unfold all_false. rewrite forallb_forall. split.
    - intros H i. unfold nthb. destruct (Nat.lt_ge_cases i (length l)).
      + specialize (H _ (nth_In l false H0)). now apply negb_true_iff in H.
      + now rewrite nth_overflow.
    - intros H x Hx. apply In_nth with (d := false) in Hx. destruct Hx as [i [_ <-]].
      apply negb_true_iff. apply H.
  Qed.

  (* no supplied junction (incl. the empty net): the identification raises; otherwise it returns the masks *)
  Theorem identify_fails_iff :
    identify_hyd true n bs nact slack = None <-> (forall i, i < n -> nthb slack i && nthb nact i = false).
  Proof.
    unfold identify_hyd. rewrite search_hyd_eq. simpl fst.
    destruct (all_false hnc) eqn:E.
    - split; auto. intros _ i Hi. apply all_false_iff with (i := i) in E.
      destruct (nthb slack i && nthb nact i) eqn:E2; auto.
      apply andb_true_iff in E2. destruct E2.
      assert (nthb hnc i = true) by (apply hnc_iff_hreach; now constructor). congruence.
    - split; [discriminate|]. intros H. exfalso.
      assert (all_false hnc = true); [|congruence].
      apply all_false_iff. intros i. destruct (nthb hnc i) eqn:E2; auto.
      apply hnc_iff_hreach in E2. exfalso. clear E.
      induction E2 as [j Hj H1 H2|? ? ? ? ? IH|? ? ? ? ? ? IH]; auto.
      specialize (H j Hj). now rewrite H1, H2 in H.
  Qed.

  Theorem identify_returns_masks :
    (exists i, i < n /\ nthb slack i = true /\ nthb nact i = true) ->
    identify_hyd true n bs nact slack = Some (hnc, map bmark bs).
  Proof.
    intros [i [Hi [H1 H2]]]. unfold identify_hyd. rewrite search_hyd_eq. simpl fst.
    destruct (all_false hnc) eqn:E; auto.
    apply all_false_iff with (i := i) in E.
    assert (nthb hnc i = true) by (apply hnc_iff_hreach; now constructor). congruence.
  Qed.
End Hyd.

(* ------------------------------------------------------------------ heat-transfer search *)
Section Heat.
  Variable n : nat.
  Variable bs : list branch.
  Variables bact nact tslack : list bool.
  Hypothesis bs_wf : forall b, In b bs -> b_from b < n /\ b_to b < n.

  (* start: T / GE typed nodes that are hydraulically active; edges: hydraulically active branches, flow direction
     ignored except for DIRECTED ones *)
  Definition tedges := edges_of bs bact.
  Definition tinit : list bool := map (fun i => nthb tslack i && nthb nact i) (seq 0 n).

  Lemma tedges_wf f t : In (f, t) tedges -> t < n.
  Proof.
    unfold tedges, edges_of. rewrite in_flat_map. intros [[b a] [Hin H]].
    apply in_combine_l in Hin. simpl in H. destruct a; [|inversion H].
    destruct H as [E|H]; [inversion E; subst; now apply bs_wf|].
    destruct (b_directed b); [inversion H|]. destruct H as [E|[]]. inversion E; subst. now apply bs_wf.
  Qed.

  Theorem heat_nodes_iff_reach i :
    nthb (fst (search_heat n bs bact nact tslack)) i = true <-> Reach tedges tinit i.
  Proof.
    unfold search_heat, connectivity. simpl fst. apply closure_iff_reach.
    - apply tedges_wf.
    - unfold tinit. now rewrite map_length, seq_length.
  Qed.
End Heat.
