(* C04 - property theorems only (exactly the supplied part is calculated, unaffected by the rest).
   Each is closed by [exact] of a lemma of ProofsConn.v / ProofsReduce.v about the hand-written models of
   C04/Model.v, which tools/props/c04.py ties to /repo by exact correspondences on all 2^k flag patterns. *)
From Coq Require Import ZArith List Bool Lia.
From PP Require Import C06.Model C04.Model C04.ProofsConn C04.ProofsReduce.
Import ListNotations.
Open Scope nat_scope.

(* 1a. nodes: the executable search (n breadth-first waves from the slack nodes) marks node i iff i is reachable:
   HReach = in-service pressure-fixed start node, or reached over an in-service, non flow-return-connect branch
   (both directions if undirected, from -> to only if DIRECTED) - for every branch list *)
Theorem connectivity_iff_reach : forall n bs nact slack,
  (forall b, In b bs -> b_from b < n /\ b_to b < n) ->
  forall i, nthb (fst (search_hyd n bs (map b_active bs) nact slack)) i = true <-> HReach n bs nact slack i.
Proof.
  intros n bs nact slack Hwf i. rewrite search_hyd_eq. simpl fst. now apply hnc_iff_hreach.
Qed.
Print Assumptions connectivity_iff_reach.

(* 1b. branches, incl. the post-pass that re-admits flow-return-connect branches whose both ends are reached *)
Theorem branch_connected_iff : forall n bs nact slack,
  (forall b, In b bs -> b_from b < n /\ b_to b < n) ->
  exists mark : branch -> bool,
    snd (search_hyd n bs (map b_active bs) nact slack) = map mark bs /\
    forall b, In b bs ->
      (mark b = true <->
       b_active b = true /\ HReach n bs nact slack (b_from b) /\ (b_frc b = true -> HReach n bs nact slack (b_to b))).
Proof.
  intros n bs nact slack Hwf. exists (bmark n bs nact slack). split.
  - now rewrite search_hyd_eq.
  - intros b Hb. now apply bmark_iff.
Qed.
Print Assumptions branch_connected_iff.

(* 1c. the internal ValueError of _connectivity is unreachable *)
Theorem connectivity_consistency_check_never_fires : forall n bs nact slack,
  (forall b, In b bs -> b_from b < n /\ b_to b < n) ->
  forall b, In b bs -> b_active b && negb (b_frc b) = true -> b_directed b = false ->
  nthb (hnc n bs nact slack) (b_from b) = nthb (hnc n bs nact slack) (b_to b).
Proof. intros n bs nact slack Hwf b Hb Hl Hd. now apply undirected_ends_agree. Qed.
Print Assumptions connectivity_consistency_check_never_fires.

(* 1d. thermal search: start nodes T / GE, hydraulic masks as look-ups *)
Theorem heat_connectivity_iff_reach : forall n bs bact nact tslack,
  (forall b, In b bs -> b_from b < n /\ b_to b < n) ->
  forall i, nthb (fst (search_heat n bs bact nact tslack)) i = true <->
            Reach (tedges bs bact) (tinit n nact tslack) i.
Proof. intros. now apply heat_nodes_iff_reach. Qed.
Print Assumptions heat_connectivity_iff_reach.

(* 2. no supplied junction (incl. the empty net) <=> the identification raises PipeflowNotConverged *)
Theorem no_supply_fails : forall n bs nact slack,
  (forall b, In b bs -> b_from b < n /\ b_to b < n) ->
  (identify_hyd true n bs nact slack = None <-> (forall i, i < n -> nthb slack i && nthb nact i = false)).
Proof. intros. now apply identify_fails_iff. Qed.
Print Assumptions no_supply_fails.

(* 3. cumsum(mask) - 1 on the marked positions: strictly increasing, onto [0,k), keeps every row *)
Theorem reduce_is_order_preserving_bijection : forall m,
  (forall i j, i < j -> j < length m -> nthb m i = true -> nthb m j = true -> (renum m i < renum m j)%Z)
  /\ (forall i, i < length m -> nthb m i = true -> (0 <= renum m i < Z.of_nat (count_true m))%Z)
  /\ (forall p, p < count_true m -> exists i, i < length m /\ nthb m i = true /\ renum m i = Z.of_nat p)
  /\ (forall X (d : X) (xs : list X) i, length xs = length m -> i < length m -> nthb m i = true ->
        nth (Z.to_nat (renum m i)) (select m xs) d = nth i xs d)
  /\ (forall X (xs : list X), length xs = length m -> length (select m xs) = count_true m).
Proof. exact renum_bijection. Qed.
Print Assumptions reduce_is_order_preserving_bijection.

(* 3b. index_active lookups of a table with pairwise different pit labels: label -> new position or -1,
   other labels untouched *)
Theorem index_active_lookup_correct : forall mask elm f t lookup,
  f <= t -> t <= length mask -> length elm = length mask -> NoDup (slice f t elm) ->
  (forall k, k < t - f ->
     sget (index_active mask elm f t lookup) (nth (f + k) elm 0%Z) =
     if nthb mask (f + k) then renum mask (f + k) else (-1)%Z)
  /\ (forall l, ~ In l (slice f t elm) -> sget (index_active mask elm f t lookup) l = sget lookup l).
Proof. exact index_active_correct. Qed.
Print Assumptions index_active_lookup_correct.

(* 3c. from_to_active: consecutive ranges whose lengths are the marked counts of the tables; a marked row of a
   table lies inside the table's active range *)
Theorem from_to_active_partition : forall mask fts count,
  (forall tbl f t, In (tbl, (f, t)) fts -> f <= t /\ t <= length mask) ->
  map fst (from_to_active mask fts count) = map fst fts
  /\ (forall k tbl f t, nth_error fts k = Some (tbl, (f, t)) ->
        exists c, nth_error (from_to_active mask fts count) k =
                  Some (tbl, (c, (c + Z.of_nat (count_true (slice f t mask)))%Z))
                  /\ c = (count + sumz (map (fun x => Z.of_nat (count_true (slice (fst (snd x)) (snd (snd x)) mask)))
                                         (firstn k fts)))%Z).
Proof. exact from_to_active_ranges. Qed.
Print Assumptions from_to_active_partition.

Theorem marked_row_inside_active_range : forall mask f t i,
  f <= i -> i < t -> t <= length mask -> nthb mask i = true ->
  (Z.of_nat (rank mask f) <= renum mask i < Z.of_nat (rank mask f) + Z.of_nat (count_true (slice f t mask)))%Z.
Proof. exact marked_row_in_active_range. Qed.
Print Assumptions marked_row_inside_active_range.

(* 4. the np.all shortcut (copy_lookups, no renumbering) equals the general path *)
Theorem reduce_all_true_is_copy : forall m, all_true m = true ->
  (forall i, i < length m -> renum m i = Z.of_nat i)
  /\ (forall X (xs : list X), length xs = length m -> select m xs = xs).
Proof. exact ProofsReduce.reduce_all_true_is_copy. Qed.
Print Assumptions reduce_all_true_is_copy.

Theorem reduce_from_to_paths_agree : forall nmask bmask bs,
  (forall b, In b bs -> b_from b < length nmask /\ b_to b < length nmask) ->
  reduce_ft nmask bmask bs = map (fun b => (renum nmask (b_from b), renum nmask (b_to b))) (select bmask bs).
Proof. exact reduce_ft_general. Qed.
Print Assumptions reduce_from_to_paths_agree.

(* 6. a branch kept by the search keeps both ends: the renumbered FROM_NODE / TO_NODE are inside the active node
   pit and denote the same node rows as before *)
Theorem reduce_keeps_branch_ends : forall n bs nact slack,
  (forall b, In b bs -> b_from b < n /\ b_to b < n) ->
  let nmask := hnc n bs nact slack in
  forall b X (d : X) (nodes : list X), In b bs -> bmark n bs nact slack b = true -> length nodes = n ->
    (0 <= renum nmask (b_from b) < Z.of_nat (count_true nmask))%Z
    /\ (0 <= renum nmask (b_to b) < Z.of_nat (count_true nmask))%Z
    /\ nth (Z.to_nat (renum nmask (b_from b))) (select nmask nodes) d = nth (b_from b) nodes d
    /\ nth (Z.to_nat (renum nmask (b_to b))) (select nmask nodes) d = nth (b_to b) nodes d.
Proof. exact ProofsReduce.reduce_keeps_branch_ends. Qed.
Print Assumptions reduce_keeps_branch_ends.

(* 5. reduced pit = pit of the net with the unmarked rows deleted (junction table + any number of one-section
   branch tables; structural columns FROM_NODE, TO_NODE, ACTIVE, DIRECTED, FLOW_RETURN_CONNECT) *)
Theorem reduce_eq_delete : forall js tabs nmask bmask,
  NoDup js -> length nmask = length js -> length bmask = length (concat tabs) ->
  (forall r, In r (select bmask (concat tabs)) ->
     exists kf kt, kf < length js /\ kt < length js /\ nthb nmask kf = true /\ nthb nmask kt = true
                   /\ r_from r = nth kf js 0%Z /\ r_to r = nth kt js 0%Z) ->
  map ends (mk_branches (select nmask js) (select_tabs bmask tabs)) =
  map (fun bf => (fst (snd bf), snd (snd bf), (b_active (fst bf), b_directed (fst bf), b_frc (fst bf))))
      (combine (select bmask (mk_branches js tabs)) (reduce_ft nmask bmask (mk_branches js tabs))).
Proof. exact ProofsReduce.reduce_eq_delete. Qed.
Print Assumptions reduce_eq_delete.

(* 7. write-back: NaN exactly at the unmarked positions, the active value of the same row elsewhere *)
Theorem writeback_nan_pattern : forall V (d : V) mask (active : list V), length active = count_true mask ->
  length (writeback mask active) = length mask /\
  forall i, i < length mask ->
    nth i (writeback mask active) None = if nthb mask i then Some (nth (rank mask i) active d) else None.
Proof. intros V d mask. exact (ProofsReduce.writeback_nan_pattern d mask). Qed.
Print Assumptions writeback_nan_pattern.

(* 8. _restart_connectivity_check: it reports "nothing changed" iff the ACTIVE columns of the active pits equal the
   reduced pit columns; immediately after a restart a second check reports nothing to do and changes nothing; the
   write-back followed by the reduction returns exactly the change a component made (for any re-identification) *)
Theorem restart_check_idempotent : forall ident s,
  restart_check ident (snd (restart_check ident s)) = (false, snd (restart_check ident s)).
Proof. exact ProofsReduce.restart_check_idempotent. Qed.
Print Assumptions restart_check_idempotent.

Theorem restart_check_false_iff : forall ident s,
  fst (restart_check ident s) = false <->
  select (r_mn s) (r_pn s) = r_an s /\ select (r_mb s) (r_pb s) = r_ab s.
Proof. exact restart_false_iff. Qed.
Print Assumptions restart_check_false_iff.

Theorem restart_writeback_roundtrip : forall (s : rstate),
  length (r_pn s) = length (r_mn s) -> length (r_an s) = count_true (r_mn s) ->
  select (r_mn s) (scatter (r_mn s) (r_an s) (r_pn s)) = r_an s.
Proof. exact restart_keeps_component_change. Qed.
Print Assumptions restart_writeback_roundtrip.

(* non-vacuity: a meshed net with a parallel branch, an outage, a directed branch against the supply direction,
   a flow-return-connect branch to an otherwise unconnected node, and an island *)
Definition ex_bs : list branch :=
  [ {| b_from := 0; b_to := 1; b_active := true; b_directed := false; b_frc := false |};
    {| b_from := 1; b_to := 2; b_active := true; b_directed := false; b_frc := false |};
    {| b_from := 0; b_to := 2; b_active := true; b_directed := false; b_frc := false |};
    {| b_from := 1; b_to := 2; b_active := false; b_directed := false; b_frc := false |};
    {| b_from := 3; b_to := 2; b_active := true; b_directed := true; b_frc := false |};
    {| b_from := 2; b_to := 4; b_active := true; b_directed := false; b_frc := true |};
    {| b_from := 5; b_to := 6; b_active := true; b_directed := false; b_frc := false |};
    {| b_from := 2; b_to := 1; b_active := true; b_directed := false; b_frc := true |} ].

Example connectivity_example :
  (forall b, In b ex_bs -> b_from b < 7 /\ b_to b < 7)
  /\ identify_hyd true 7 ex_bs [true; true; true; true; true; true; true] [true; false; false; false; false; false; false]
     = Some ([true; true; true; false; false; false; false], [true; true; true; false; false; false; false; true])
  /\ reduce_ft [true; true; true; false; false; false; false] [true; true; true; false; false; false; false; true] ex_bs
     = [(0, 1); (1, 2); (0, 2); (2, 1)]%Z
  /\ identify_hyd true 7 ex_bs [false; true; true; true; true; true; true] [true; false; false; false; false; false; false]
     = None.
Proof.
  split; [|vm_compute; auto].
  intros b Hb. simpl in Hb. repeat (destruct Hb as [<-|Hb]; [simpl; lia|]). inversion Hb.
Qed.

(* non-vacuity of the reduction theorems: an index_active lookup over sparse unsorted labels, write-back, the deleted
   net of a junction table with two one-section branch tables (hypotheses of reduce_eq_delete hold: kept rows refer to
   kept junctions), a restart after a component switched a row off *)
Definition ex_js : list Z := [70; 30; 50; 10]%Z.
Definition ex_tabs : list (list brow) :=
  [ [ {| r_label := 5; r_from := 70; r_to := 30; r_active := true; r_directed := false; r_frc := false |};
      {| r_label := 2; r_from := 30; r_to := 50; r_active := true; r_directed := false; r_frc := false |} ];
    [ {| r_label := 0; r_from := 10; r_to := 70; r_active := true; r_directed := true; r_frc := false |};
      {| r_label := 9; r_from := 70; r_to := 10; r_active := true; r_directed := false; r_frc := true |} ] ]%Z.

Example reduction_examples :
  (let lu := index_active [true; false; true; true] ex_js 0 4 (mk_index_lookup ex_js 0) in
   (sget lu 70, sget lu 30, sget lu 50, sget lu 10, sget lu 40) = (0, -1, 1, 2, -1))%Z
  /\ writeback [true; false; true; true] [11; 12; 13]%Z = [Some 11; None; Some 12; Some 13]%Z
  /\ from_to_active [true; false; true; true; true] [(0, (0, 2)); (1, (2, 5))] 0%Z = [(0, (0%Z, 1%Z)); (1, (1%Z, 4%Z))]
  /\ (let nmask := [true; false; true; true] in let bmask := [false; false; true; true] in
      NoDup ex_js /\
      map ends (mk_branches (select nmask ex_js) (select_tabs bmask ex_tabs)) =
      map (fun bf => (fst (snd bf), snd (snd bf), (b_active (fst bf), b_directed (fst bf), b_frc (fst bf))))
          (combine (select bmask (mk_branches ex_js ex_tabs)) (reduce_ft nmask bmask (mk_branches ex_js ex_tabs))))
  /\ fst (restart_check (fun pn pb => (pn, pb))
            {| r_pn := [true; true]; r_pb := [true; true; true]; r_mn := [true; true]; r_mb := [true; true; true];
               r_an := [true; true]; r_ab := [true; false; true] |}) = true.
Proof.
  repeat split; try (vm_compute; reflexivity).
  unfold ex_js. repeat constructor; simpl; intuition lia.
Qed.
