From Coq Require Import ZArith List Bool Lia.
From PP Require Import C06.Model C04.Model.
Import ListNotations.
Theorem placeholder : all_false [] = true. Proof. reflexivity. Qed.
Print Assumptions placeholder.
