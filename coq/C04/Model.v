(* C04 - hand-written executable models (H-tie; definitions only) of
     pipeflow_setup.identify_active_nodes_branches, check_connectivity, perform_connectivity_search,
     _connectivity (directed branches, virtual slack node, flow-return-connect post-pass, all-unsupplied failure)
     pipeflow_setup.reduce_pit, reduce_lookups, copy_lookups
     result_extraction.extract_results_active_pit (write-back of one result column)
   Positions are nat, labels and stored positions are Z.
   Tie: tools/props/c04.py captures the real pit columns, masks, reduced columns and lookups of real nets for
   all flag patterns and compares inside Coq. *)
From Coq Require Import ZArith List Bool Lia.
From PP Require Import C06.Model.
Import ListNotations.

(* one row of the branch pit, structural columns *)
Record branch := { b_from : nat; b_to : nat; b_active : bool; b_directed : bool; b_frc : bool }.

Definition nthb (l : list bool) (i : nat) : bool := nth i l false.

(* ------------------------------------------------------------------ _connectivity *)
(* edges of the sparse graph: every looked-up branch from -> to, undirected ones also to -> from *)
Definition edges_of (bs : list branch) (lookup : list bool) : list (nat * nat) :=
  flat_map (fun ba : branch * bool => if snd ba then
                        (b_from (fst ba), b_to (fst ba)) ::
                        (if b_directed (fst ba) then [] else [(b_to (fst ba), b_from (fst ba))])
                      else [])
           (combine bs lookup).

(* one breadth-first wave over [n] nodes *)
Definition step (n : nat) (edges : list (nat * nat)) (r : list bool) : list bool :=
  map (fun i => nthb r i || existsb (fun e => nthb r (fst e) && Nat.eqb (snd e) i) edges) (seq 0 n).

(* csgraph.breadth_first_order from the virtual node attached to all slack nodes: n waves reach a fixpoint *)
Definition closure (n : nat) (edges : list (nat * nat)) (init : list bool) : list bool :=
  Nat.iter n (step n edges) init.

Definition map2 {X Y W} (f : X -> Y -> W) (a : list X) (b : list Y) : list W :=
  map (fun p => f (fst p) (snd p)) (combine a b).

(* _connectivity: (nodes_connected, branches_connected) *)
Definition connectivity (n : nat) (bs : list branch) (lookup nact slack : list bool) : list bool * list bool :=
  let init := map (fun i => nthb slack i && nthb nact i) (seq 0 n) in
  let nc := closure n (edges_of bs lookup) init in
  (nc, map2 (fun b a => a && nthb nc (b_from b)) bs lookup).

(* perform_connectivity_search, mode = hydraulics *)
Definition search_hyd (n : nat) (bs : list branch) (bact nact slack : list bool) : list bool * list bool :=
  let lookup := map2 (fun b a => a && negb (b_frc b)) bs bact in
  let (nc, bc) := connectivity n bs lookup nact slack in
  (nc, map2 (fun b c => if b_frc b && (nthb nc (b_from b) && nthb nc (b_to b) && b_active b) then true else c) bs bc).

(* mode = heat_transfer: start at T / GE typed nodes, look-ups are the hydraulic masks, no post-pass *)
Definition search_heat (n : nat) (bs : list branch) (bact_hyd nact_hyd tslack : list bool) : list bool * list bool :=
  connectivity n bs bact_hyd nact_hyd tslack.

Definition all_false (m : list bool) : bool := forallb negb m.

(* identify_active_nodes_branches(hydraulic=True); None = PipeflowNotConverged *)
Definition identify_hyd (check_conn : bool) (n : nat) (bs : list branch) (nact slack : list bool)
  : option (list bool * list bool) :=
  let r := if check_conn then search_hyd n bs (map b_active bs) nact slack else (nact, map b_active bs) in
  if all_false (fst r) then None else Some r.

Definition identify_heat (check_conn : bool) (n : nat) (bs : list branch) (bact_hyd nact_hyd tslack : list bool)
  : option (list bool * list bool) :=
  let r := if check_conn then search_heat n bs bact_hyd nact_hyd tslack else (nact_hyd, bact_hyd) in
  if all_false (fst r) then None else Some r.

(* ------------------------------------------------------------------ reduce_pit / reduce_lookups *)
Open Scope Z_scope.

Fixpoint cumsum_b (a : Z) (m : list bool) : list Z :=        (* np.cumsum(mask) *)
  match m with [] => [] | b :: r => let a' := a + (if b then 1 else 0) in a' :: cumsum_b a' r end.

Definition renum (m : list bool) (i : nat) : Z := nth i (cumsum_b 0 m) 0 - 1.     (* (cumsum(mask) - 1)[i] *)

Definition all_true (m : list bool) : bool := forallb (fun b => b) m.

(* active from/to columns of reduce_pit: positions (Z) after renumbering *)
Definition reduce_ft (nmask bmask : list bool) (bs : list branch) : list (Z * Z) :=
  let sel := select bmask bs in
  if all_true nmask then map (fun b => (Z.of_nat (b_from b), Z.of_nat (b_to b))) sel
  else map (fun b => (renum nmask (b_from b), renum nmask (b_to b))) sel.

Definition slice {X} (f t : nat) (xs : list X) : list X := firstn (t - f) (skipn f xs).

(* one table of comp_idx_lookup in reduce_lookups: [elm] = ELEMENT_IDX column of the whole pit *)
Definition index_active (mask : list bool) (elm : list Z) (f t : nat) (lookup : sarr) : sarr :=
  let con := slice f t mask in
  let el := slice f t elm in
  let cs := slice f t (cumsum_b 0 mask) in
  swrite (swrite lookup (map (fun l => (l, -1)) (select (map negb con) el)))
         (combine (select con el) (map (fun c => c - 1) (select con cs))).

(* ft_active over the tables in table-number order *)
Fixpoint from_to_active (mask : list bool) (fts : list (nat * (nat * nat))) (count : Z)
  : list (nat * (Z * Z)) :=
  match fts with
  | [] => []
  | (tbl, (f, t)) :: r =>
      let le := Z.of_nat (count_true (slice f t mask)) in
      (tbl, (count, count + le)) :: from_to_active mask r (count + le)
  end.

(* the lookups reduce_pit stores for one comp_type; [copy] = the np.all shortcut (copy_lookups).
   copy_lookups stores a copy of the *branch* from_to for both comp types (faithful). *)
Definition reduce_index_lookups (mask : list bool) (elm : list Z) (tabs : list (nat * (nat * nat) * sarr))
  : list (nat * sarr) :=
  if all_true mask then map (fun x => (fst (fst x), snd x)) tabs
  else map (fun x => (fst (fst x), index_active mask elm (fst (snd (fst x))) (snd (snd (fst x))) (snd x))) tabs.

Definition reduce_from_to (mask : list bool) (fts branch_fts : list (nat * (nat * nat))) : list (nat * (Z * Z)) :=
  if all_true mask then map (fun x => (fst x, (Z.of_nat (fst (snd x)), Z.of_nat (snd (snd x))))) branch_fts
  else from_to_active mask fts 0.

(* ------------------------------------------------------------------ extract_results_active_pit, one column *)
(* pit[~mask, col] = NaN; pit[rows[mask], col] = active_pit[:, col].  None = NaN. *)
Fixpoint writeback {V} (mask : list bool) (active : list V) : list (option V) :=
  match mask with
  | [] => []
  | true :: mr => (match active with v :: ar => Some v :: writeback mr ar | [] => None :: writeback mr [] end)
  | false :: mr => None :: writeback mr active
  end.

(* ------------------------------------------------------------------ a net of junctions and one-section branches *)
(* used for reduce_eq_delete: tables in row order; branch tables reference junction labels *)
Record jrow := { j_label : Z }.
Record brow := { r_label : Z; r_from : Z; r_to : Z; r_active : bool; r_directed : bool; r_frc : bool }.

Definition pos_of (lk : sarr) (l : Z) : nat := Z.to_nat (sget lk l).

(* branch pit of a list of branch tables (concatenated in table order) over the junction labels [js] *)
Definition mk_branches (js : list Z) (tabs : list (list brow)) : list branch :=
  let lk := mk_index_lookup js 0 in
  map (fun r => {| b_from := pos_of lk (r_from r); b_to := pos_of lk (r_to r); b_active := r_active r;
                   b_directed := r_directed r; b_frc := r_frc r |}) (concat tabs).

(* deleting rows: the junction table keeps the marked rows; every branch table keeps its marked rows *)
Fixpoint select_tabs {X} (m : list bool) (tabs : list (list X)) : list (list X) :=
  match tabs with
  | [] => []
  | t :: r => select (firstn (length t) m) t :: select_tabs (skipn (length t) m) r
  end.

(* ------------------------------------------------------------------ comparison helpers for cases files *)
Definition bl_eqb := list_eqb Bool.eqb.

(* ------------------------------------------------------------------ _restart_connectivity_check (pipeflow.py) *)
(* structural part over the ACTIVE columns: if a component changed ACTIVE in the active pit, the change is written back
   to the pit rows of the mask, the masks are identified again ([ident], a parameter) and the pit is reduced again *)
Close Scope Z_scope.
Fixpoint scatter {V} (m : list bool) (act full : list V) : list V :=
  match m, full with
  | true :: mr, f :: fr => match act with a :: ar => a :: scatter mr ar fr | [] => f :: fr end
  | false :: mr, f :: fr => f :: scatter mr act fr
  | _, _ => full
  end.

Record rstate := { r_pn : list bool; r_pb : list bool;       (* ACTIVE columns of the full node / branch pit *)
                   r_mn : list bool; r_mb : list bool;       (* node / branch masks *)
                   r_an : list bool; r_ab : list bool }.     (* ACTIVE columns of the active pits *)

Definition restart_check (ident : list bool -> list bool -> list bool * list bool) (s : rstate) : bool * rstate :=
  if bl_eqb (select (r_mn s) (r_pn s)) (r_an s) && bl_eqb (select (r_mb s) (r_pb s)) (r_ab s) then (false, s)
  else
    let pn := scatter (r_mn s) (r_an s) (r_pn s) in
    let pb := scatter (r_mb s) (r_ab s) (r_pb s) in
    let mm := ident pn pb in
    (true, {| r_pn := pn; r_pb := pb; r_mn := fst mm; r_mb := snd mm;
              r_an := select (fst mm) pn; r_ab := select (snd mm) pb |}).

Open Scope Z_scope.

Record conn_case := {
  cc_n : nat; cc_bs : list branch; cc_nact : list bool; cc_slack : list bool; cc_check : bool;
  cc_obs : option (list bool * list bool) }.          (* None = PipeflowNotConverged *)

Definition opt_masks_eqb (a b : option (list bool * list bool)) : bool :=
  match a, b with
  | None, None => true
  | Some (x, y), Some (u, v) => bl_eqb x u && bl_eqb y v
  | _, _ => false
  end.

Definition conn_case_ok (c : conn_case) : bool :=
  opt_masks_eqb (identify_hyd (cc_check c) (cc_n c) (cc_bs c) (cc_nact c) (cc_slack c)) (cc_obs c).

Record heat_case := {
  hc_n : nat; hc_bs : list branch; hc_bact : list bool; hc_nact : list bool; hc_tslack : list bool;
  hc_obs : option (list bool * list bool) }.
Definition heat_case_ok (c : heat_case) : bool :=
  opt_masks_eqb (identify_heat true (hc_n c) (hc_bs c) (hc_bact c) (hc_nact c) (hc_tslack c)) (hc_obs c).

Record red_case := {
  rc_bs : list branch; rc_nmask : list bool; rc_bmask : list bool;
  rc_ft : list (Z * Z);                                          (* active FROM_NODE / TO_NODE *)
  rc_node_elm : list Z; rc_branch_elm : list Z;                  (* ELEMENT_IDX columns *)
  rc_node_tabs : list (nat * (nat * nat) * (list Z * Z));        (* table, (f,t), (labels, start) of its index lookup *)
  rc_branch_tabs : list (nat * (nat * nat) * (list Z * Z));
  rc_node_fts : list (nat * (nat * nat)); rc_branch_fts : list (nat * (nat * nat));
  rc_node_idx_active : list (nat * (Z * list (Z * Z)));
  rc_branch_idx_active : list (nat * (Z * list (Z * Z)));
  rc_node_ft_active : list (nat * (Z * Z)); rc_branch_ft_active : list (nat * (Z * Z));
  rc_active_node_elm : list Z; rc_active_branch_elm : list Z }.

Definition mk_tabs (l : list (nat * (nat * nat) * (list Z * Z))) : list (nat * (nat * nat) * sarr) :=
  map (fun x => (fst x, mk_index_lookup (fst (snd x)) (snd (snd x)))) l.

Definition red_case_ok (c : red_case) : bool :=
  zpl_eqb (reduce_ft (rc_nmask c) (rc_bmask c) (rc_bs c)) (rc_ft c)
  && idx_eqb (reduce_index_lookups (rc_nmask c) (rc_node_elm c) (mk_tabs (rc_node_tabs c))) (rc_node_idx_active c)
  && idx_eqb (reduce_index_lookups (rc_bmask c) (rc_branch_elm c) (mk_tabs (rc_branch_tabs c))) (rc_branch_idx_active c)
  && ft_eqb (reduce_from_to (rc_nmask c) (rc_node_fts c) (rc_branch_fts c)) (rc_node_ft_active c)
  && ft_eqb (reduce_from_to (rc_bmask c) (rc_branch_fts c) (rc_branch_fts c)) (rc_branch_ft_active c)
  && zl_eqb (select (rc_nmask c) (rc_node_elm c)) (rc_active_node_elm c)
  && zl_eqb (select (rc_bmask c) (rc_branch_elm c)) (rc_active_branch_elm c).

(* _restart_connectivity_check: the real function's outcome is carried in the case; the re-identified masks are the
   observed ones (identification itself is tied by conn_case) *)
Record rs_case := { rs_state : rstate; rs_masks : list bool * list bool; rs_flag : bool;
                    rs_pn : list bool; rs_pb : list bool; rs_an : list bool; rs_ab : list bool }.
Definition rs_case_ok (c : rs_case) : bool :=
  let r := restart_check (fun _ _ => rs_masks c) (rs_state c) in
  Bool.eqb (fst r) (rs_flag c)
  && bl_eqb (r_pn (snd r)) (rs_pn c) && bl_eqb (r_pb (snd r)) (rs_pb c)
  && bl_eqb (r_an (snd r)) (rs_an c) && bl_eqb (r_ab (snd r)) (rs_ab c).
