(* C04 - the reduction to the active tables: renumbering is an order-preserving bijection that keeps rows and
   branch ends, index_active lookups, the np.all shortcut, write-back, reduced pit = pit of the deleted net. *)
From Coq Require Import ZArith List Bool Lia.
From PP Require Import C06.Model C06.Proofs C04.Model C04.ProofsConn.
Import ListNotations.
Open Scope nat_scope.

(* number of marked positions before i *)
Definition rank (m : list bool) (i : nat) : nat := count_true (firstn i m).

Lemma count_true_cons b m : count_true (b :: m) = (if b then 1 else 0) + count_true m.
Proof. unfold count_true. destruct b; simpl; lia. Qed.

Lemma rank_S m : forall i, i < length m -> rank m (S i) = rank m i + (if nthb m i then 1 else 0).
Proof.
  unfold rank, nthb. induction m as [|b m IH]; intros i H; simpl in H; [lia|].
  destruct i.
  - simpl. rewrite count_true_cons. unfold count_true; simpl. lia.
  - change (firstn (S (S i)) (b :: m)) with (b :: firstn (S i) m).
    change (firstn (S i) (b :: m)) with (b :: firstn i m).
    rewrite !count_true_cons, IH by lia. simpl. lia.
Qed.

Lemma rank_mono m i j : i <= j -> rank m i <= rank m j.
Proof.
  unfold rank. revert i j. induction m as [|b m IH]; intros i j H.
  - now rewrite !firstn_nil.
  - destruct i; [unfold count_true; simpl; lia|]. destruct j; [lia|].
    simpl firstn. rewrite !count_true_cons. specialize (IH i j). lia.
Qed.

Lemma rank_all m i : length m <= i -> rank m i = count_true m.
Proof. intros H. unfold rank. now rewrite firstn_all2. Qed.

Lemma cumsum_b_nth m : forall a i, i < length m ->
  nth i (cumsum_b a m) 0%Z = (a + Z.of_nat (rank m (S i)))%Z.
Proof.
  induction m as [|b m IH]; intros a i H; simpl in H; [lia|].
  destruct i.
  - unfold rank. simpl. rewrite count_true_cons. unfold count_true at 1; simpl. destruct b; lia.
  - change (nth (S i) (cumsum_b a (b :: m)) 0%Z) with (nth i (cumsum_b (a + (if b then 1 else 0)) m) 0%Z).
    rewrite IH by lia. unfold rank.
    change (firstn (S (S i)) (b :: m)) with (b :: firstn (S i) m). rewrite count_true_cons. destruct b; lia.
Qed.

Lemma renum_rank m i : i < length m -> nthb m i = true -> renum m i = Z.of_nat (rank m i).
Proof.
  intros H Hm. unfold renum. rewrite cumsum_b_nth by auto. rewrite rank_S by auto. rewrite Hm. lia.
Qed.

Lemma select_length {X} m (xs : list X) : length xs = length m -> length (select m xs) = count_true m.
Proof.
  revert xs. induction m as [|b m IH]; intros [|x xs] H; simpl in H; try discriminate; auto.
  simpl. rewrite count_true_cons. destruct b; simpl; rewrite IH by lia; lia.
Qed.

Lemma select_nth {X} (d : X) m : forall (xs : list X) i, length xs = length m -> nthb m i = true ->
  nth (rank m i) (select m xs) d = nth i xs d.
Proof.
  unfold rank, nthb. induction m as [|b m IH]; intros xs i Hl Hm.
  - destruct i; discriminate.
  - destruct xs as [|x xs]; [discriminate|]. simpl in Hl.
    destruct i.
    + simpl in Hm. subst b. reflexivity.
    + change (firstn (S i) (b :: m)) with (b :: firstn i m). rewrite count_true_cons.
      simpl in Hm. destruct b; simpl; apply IH; auto; lia.
Qed.

Lemma rank_lt_count m i : i < length m -> nthb m i = true -> rank m i < count_true m.
Proof.
  intros H Hm. pose proof (rank_S m i H) as E. rewrite Hm in E.
  pose proof (rank_mono m (S i) (length m) ltac:(lia)). rewrite (rank_all m (length m)) in H0 by lia. lia.
Qed.

(* 3. cumsum(mask) - 1 restricted to the marked positions *)
Theorem renum_bijection m :
  (forall i j, i < j -> j < length m -> nthb m i = true -> nthb m j = true -> (renum m i < renum m j)%Z)
  /\ (forall i, i < length m -> nthb m i = true -> (0 <= renum m i < Z.of_nat (count_true m))%Z)
  /\ (forall p, p < count_true m -> exists i, i < length m /\ nthb m i = true /\ renum m i = Z.of_nat p)
  /\ (forall X (d : X) (xs : list X) i, length xs = length m -> i < length m -> nthb m i = true ->
        nth (Z.to_nat (renum m i)) (select m xs) d = nth i xs d)
  /\ (forall X (xs : list X), length xs = length m -> length (select m xs) = count_true m).
Proof.
  split; [|split; [|split; [|split]]].
  - intros i j Hij Hj Hi Hmj. rewrite !renum_rank by (auto; lia).
    pose proof (rank_S m i ltac:(lia)). rewrite Hi in H. pose proof (rank_mono m (S i) j ltac:(lia)). lia.
  - intros i Hi Hm. rewrite renum_rank by auto. pose proof (rank_lt_count m i Hi Hm). lia.
  - induction m as [|b m IH]; intros p Hp; [unfold count_true in Hp; simpl in Hp; lia|].
    rewrite count_true_cons in Hp.
    assert (Hcons : forall i, i < length m -> nthb m i = true ->
              renum (b :: m) (S i) = ((if b then 1 else 0) + renum m i)%Z).
    { intros i Hi Hm. rewrite !renum_rank by (simpl; auto; lia). unfold rank. simpl firstn.
      rewrite count_true_cons. destruct b; lia. }
    destruct b.
    + destruct p.
      * exists 0. split; [simpl; lia|]. split; reflexivity.
      * destruct (IH p ltac:(lia)) as [i [Hi [Hm E]]]. exists (S i). split; [simpl; lia|]. split; [exact Hm|].
        rewrite Hcons by auto. lia.
    + destruct (IH p ltac:(lia)) as [i [Hi [Hm E]]]. exists (S i). split; [simpl; lia|]. split; [exact Hm|].
      rewrite Hcons by auto. lia.
  - intros X d xs i Hl Hi Hm. rewrite renum_rank by auto. rewrite Nat2Z.id. now apply select_nth.
  - intros. now apply select_length.
Qed.

(* the np.all shortcut: with an all-true mask the general path is the identity *)
Lemma all_true_nth m i : all_true m = true -> i < length m -> nthb m i = true.
Proof.
  unfold all_true, nthb. rewrite forallb_forall. intros H Hi. apply H. now apply nth_In.
Qed.

Lemma all_true_rank m : all_true m = true -> forall i, i <= length m -> rank m i = i.
Proof.
  intros H. induction i; intros Hi; [reflexivity|].
  rewrite rank_S by lia. rewrite all_true_nth by (auto; lia). rewrite IHi by lia. lia.
Qed.

Lemma all_true_select {X} m (xs : list X) : all_true m = true -> length xs = length m -> select m xs = xs.
Proof.
  revert xs. induction m as [|b m IH]; intros [|x xs] H Hl; simpl in *; try discriminate; auto.
  apply andb_true_iff in H. destruct H as [-> H]. f_equal. apply IH; auto.
Qed.

Theorem reduce_all_true_is_copy m : all_true m = true ->
  (forall i, i < length m -> renum m i = Z.of_nat i)
  /\ (forall X (xs : list X), length xs = length m -> select m xs = xs).
Proof.
  intros H. split.
  - intros i Hi. rewrite renum_rank by (auto using all_true_nth). now rewrite all_true_rank by (auto; lia).
  - intros. now apply all_true_select.
Qed.

(* the two code paths of reduce_pit for FROM_NODE / TO_NODE agree *)
Theorem reduce_ft_general nmask bmask bs :
  (forall b, In b bs -> b_from b < length nmask /\ b_to b < length nmask) ->
  reduce_ft nmask bmask bs = map (fun b => (renum nmask (b_from b), renum nmask (b_to b))) (select bmask bs).
Proof.
  intros Hwf. unfold reduce_ft. destruct (all_true nmask) eqn:E; auto.
  apply map_ext_in. intros b Hb. apply select_in in Hb. destruct (Hwf b Hb).
  destruct (reduce_all_true_is_copy nmask E) as [Hr _]. now rewrite !Hr.
Qed.

(* reduced branches keep their ends: new from/to are inside the active node pit and denote the same node rows *)
Theorem reduce_keeps_branch_ends n bs nact slack :
  (forall b, In b bs -> b_from b < n /\ b_to b < n) ->
  let nmask := hnc n bs nact slack in
  forall b X (d : X) (nodes : list X), In b bs -> bmark n bs nact slack b = true -> length nodes = n ->
    (0 <= renum nmask (b_from b) < Z.of_nat (count_true nmask))%Z
    /\ (0 <= renum nmask (b_to b) < Z.of_nat (count_true nmask))%Z
    /\ nth (Z.to_nat (renum nmask (b_from b))) (select nmask nodes) d = nth (b_from b) nodes d
    /\ nth (Z.to_nat (renum nmask (b_to b))) (select nmask nodes) d = nth (b_to b) nodes d.
Proof.
  intros Hwf nmask b X d nodes Hb Hm Hl.
  destruct (bmark_ends n bs nact slack Hwf b Hb Hm) as [Hf Ht].
  assert (Hlen : length nmask = n).
  { unfold nmask, hnc. exact (rk_length n (hedges bs) (hinit n nact slack) (hinit_len n nact slack) n). }
  destruct (Hwf b Hb) as [H1 H2].
  destruct (renum_bijection nmask) as [_ [Hr [_ [Hrow _]]]].
  repeat split; try (apply Hr; auto; lia); apply Hrow; auto; lia.
Qed.

(* ------------------------------------------------------------------ index_active lookups *)
Lemma sget_swrite a ws i :
  sget (swrite a ws) i = fold_left (fun cur w => if (fst w =? i)%Z then snd w else cur) ws (sget a i).
Proof. unfold sget, swrite. simpl. now rewrite fold_left_app. Qed.

Lemma slice_length {X} f t (xs : list X) : t <= length xs -> f <= t -> length (slice f t xs) = t - f.
Proof. intros. unfold slice. rewrite firstn_length, skipn_length. lia. Qed.

Lemma nth_firstn_lt {X} (d : X) : forall (xs : list X) k n, k < n -> nth k (firstn n xs) d = nth k xs d.
Proof.
  induction xs as [|x xs IH]; intros k n H; [now rewrite firstn_nil|].
  destruct n; [lia|]. destruct k; simpl; auto. apply IH. lia.
Qed.

Lemma nth_skipn_own {X} (d : X) : forall f (xs : list X) k, nth k (skipn f xs) d = nth (f + k) xs d.
Proof.
  induction f as [|f IH]; intros xs k; simpl; auto.
  destruct xs; [now destruct k|]. apply IH.
Qed.

Lemma slice_nth {X} (d : X) f t (xs : list X) k : k < t - f -> nth k (slice f t xs) d = nth (f + k) xs d.
Proof.
  intros H. unfold slice. rewrite nth_firstn_lt by auto. apply nth_skipn_own.
Qed.

Lemma select_map {X Y} (g : X -> Y) m xs : select m (map g xs) = map g (select m xs).
Proof. revert xs. induction m as [|b m IH]; intros [|x xs]; simpl; auto. destruct b; simpl; now rewrite IH. Qed.

Lemma select_combine_in {X Y} (dx : X) (dy : Y) m : forall xs ys k, nthb m k = true ->
  k < length xs -> k < length ys ->
  In (nth k xs dx, nth k ys dy) (combine (select m xs) (select m ys)).
Proof.
  unfold nthb. induction m as [|b m IH]; intros xs ys k Hm Hx Hy; [destruct k; discriminate|].
  destruct xs as [|x xs], ys as [|y ys]; simpl in Hx, Hy; try lia.
  destruct k; simpl in Hm.
  - subst b. simpl. auto.
  - destruct b; simpl; [right|]; apply IH; auto; lia.
Qed.

Lemma select_in_nth {X} (d : X) m : forall xs x, In x (select m xs) ->
  exists k, k < length xs /\ nthb m k = true /\ nth k xs d = x.
Proof.
  unfold nthb. induction m as [|b m IH]; intros xs x H; [inversion H|].
  destruct xs as [|y xs]; [inversion H|]. simpl in H. destruct b.
  - destruct H as [<-|H]; [exists 0; simpl; repeat split; auto; lia|].
    destruct (IH _ _ H) as [k [? [? ?]]]. exists (S k). simpl. repeat split; auto; lia.
  - destruct (IH _ _ H) as [k [? [? ?]]]. exists (S k). simpl. repeat split; auto; lia.
Qed.

Lemma NoDup_nth_inj (l : list Z) i j : NoDup l -> i < length l -> j < length l ->
  nth i l 0%Z = nth j l 0%Z -> i = j.
Proof. intros H. apply NoDup_nth; auto. Qed.

Lemma select_NoDup m : forall (xs : list Z), NoDup xs -> NoDup (select m xs).
Proof.
  induction m as [|b m IH]; intros [|x xs] H; simpl; try constructor.
  inversion H; subst. destruct b; auto. constructor; auto. intro Hin. apply select_in in Hin. contradiction.
Qed.

Lemma nthb_map_negb m k : k < length m -> nthb (map negb m) k = negb (nthb m k).
Proof.
  intros H. unfold nthb. rewrite (nth_indep _ false (negb true)) by (now rewrite map_length).
  rewrite map_nth. destruct (Nat.lt_ge_cases k (length m)); [|lia].
  now rewrite (nth_indep m true false).
Qed.

Lemma nth_map_lt {X Y} (g : X -> Y) l : forall k d d', k < length l -> nth k (map g l) d = g (nth k l d').
Proof. induction l; intros [|k] d d' H; simpl in *; try lia; auto. apply IHl; lia. Qed.

Lemma cumsum_b_length m : forall a, length (cumsum_b a m) = length m.
Proof. induction m; simpl; intros; auto. Qed.

(* one table whose pit rows carry pairwise different labels (junctions; one-section branch tables) *)
Theorem index_active_correct mask elm f t lookup :
  f <= t -> t <= length mask -> length elm = length mask -> NoDup (slice f t elm) ->
  (forall k, k < t - f ->
     sget (index_active mask elm f t lookup) (nth (f + k) elm 0%Z) =
     if nthb mask (f + k) then renum mask (f + k) else (-1)%Z)
  /\ (forall l, ~ In l (slice f t elm) -> sget (index_active mask elm f t lookup) l = sget lookup l).
Proof.
  intros Hft Ht Hl Hnd. unfold index_active.
  set (con := slice f t mask). set (el := slice f t elm). set (cs := slice f t (cumsum_b 0 mask)).
  assert (Lcon : length con = t - f) by (apply slice_length; lia).
  assert (Lel : length el = t - f) by (apply slice_length; lia).
  assert (Lcs : length cs = t - f).
  { apply slice_length; [|lia]. rewrite cumsum_b_length. lia. }
  split.
  - intros k Hk.
    assert (Ek : nth (f + k) elm 0%Z = nth k el 0%Z) by (symmetry; now apply slice_nth).
    assert (Ec : nthb mask (f + k) = nthb con k) by (symmetry; unfold nthb; now apply slice_nth).
    rewrite Ek, Ec, !sget_swrite. destruct (nthb con k) eqn:Hc.
    + apply fold_get_in.
      * rewrite map_fst_combine; [now apply select_NoDup|].
        rewrite map_length, !select_length; auto; lia.
      * rewrite <- select_map.
        replace (renum mask (f + k)) with (nth k (map (fun c => (c - 1)%Z) cs) 0%Z).
        -- apply select_combine_in; auto; rewrite ?map_length; lia.
        -- rewrite (nth_map_lt (fun c => (c - 1)%Z) cs k 0%Z 0%Z) by lia.
           unfold cs. rewrite slice_nth by lia. reflexivity.
    + rewrite fold_get_notin.
      * apply fold_get_in.
        -- rewrite map_map. simpl. rewrite map_id. now apply select_NoDup.
        -- apply in_map_iff. exists (nth k el 0%Z). split; auto.
           assert (Hn : nthb (map negb con) k = true) by (rewrite nthb_map_negb by lia; now rewrite Hc).
           pose proof (select_combine_in 0%Z 0%Z (map negb con) el el k Hn ltac:(lia) ltac:(lia)) as Hin.
           apply in_combine_l in Hin. exact Hin.
      * rewrite map_fst_combine by (rewrite map_length, !select_length; auto; lia).
        intro Hin. apply (select_in_nth 0%Z) in Hin. destruct Hin as [k' [Hk' [Hm' E]]].
        assert (Hkl : k < length el) by lia.
        assert (k' = k) by (exact (NoDup_nth_inj el k' k Hnd Hk' Hkl E)). subst. congruence.
  - intros l Hin. rewrite !sget_swrite. rewrite !fold_get_notin; auto.
    + rewrite map_map. simpl. rewrite map_id. intro H. apply Hin. eapply select_in; eauto.
    + rewrite map_fst_combine by (rewrite map_length, !select_length; auto; lia).
      intro H. apply Hin. eapply select_in; eauto.
Qed.

(* from_to_active: consecutive ranges; for tables tiling the pit the range of a table is [rank f, rank t) *)
Theorem from_to_active_ranges mask : forall fts count,
  (forall tbl f t, In (tbl, (f, t)) fts -> f <= t /\ t <= length mask) ->
  map fst (from_to_active mask fts count) = map fst fts
  /\ (forall k tbl f t, nth_error fts k = Some (tbl, (f, t)) ->
        exists c, nth_error (from_to_active mask fts count) k =
                  Some (tbl, (c, (c + Z.of_nat (count_true (slice f t mask)))%Z))
                  /\ c = (count + sumz (map (fun x => Z.of_nat (count_true (slice (fst (snd x)) (snd (snd x)) mask)))
                                         (firstn k fts)))%Z).
Proof.
  induction fts as [|[tbl [f t]] r IH]; intros count Hwf.
  - split; auto. intros [|k] ? ? ? H; discriminate.
  - destruct (IH (count + Z.of_nat (count_true (slice f t mask)))%Z) as [IH1 IH2].
    { intros; eapply Hwf; right; eauto. }
    split; [simpl; now rewrite IH1|].
    intros [|k] tbl' f' t' H; simpl in H.
    + inversion H; subst. exists count. split; [reflexivity|]. simpl. lia.
    + destruct (IH2 k tbl' f' t' H) as [c [E Ec]]. exists c. split; [exact E|].
      rewrite Ec. simpl firstn. simpl map. unfold sumz. simpl fold_right. unfold sumz. lia.
Qed.

Lemma count_slice mask f t : f <= t -> t <= length mask -> count_true (slice f t mask) = rank mask t - rank mask f.
Proof.
  intros Hft Ht. unfold slice, rank.
  replace (firstn t mask) with (firstn f mask ++ firstn (t - f) (skipn f mask)).
  - unfold count_true. rewrite filter_app, app_length. lia.
  - rewrite <- (firstn_skipn f (firstn t mask)). f_equal.
    + rewrite firstn_firstn. f_equal. lia.
    + now rewrite skipn_firstn_comm.
Qed.

(* a marked row of a table lies inside the table's active range *)
Theorem marked_row_in_active_range mask f t i : f <= i -> i < t -> t <= length mask -> nthb mask i = true ->
  (Z.of_nat (rank mask f) <= renum mask i < Z.of_nat (rank mask f) + Z.of_nat (count_true (slice f t mask)))%Z.
Proof.
  intros Hf Hi Ht Hm. rewrite renum_rank by (auto; lia). rewrite count_slice by lia.
  pose proof (rank_mono mask f i Hf). pose proof (rank_S mask i ltac:(lia)). rewrite Hm in H0.
  pose proof (rank_mono mask (S i) t ltac:(lia)). pose proof (rank_mono mask f t ltac:(lia)). lia.
Qed.

(* ------------------------------------------------------------------ write-back *)
Lemma rank_cons b m i : rank (b :: m) (S i) = (if b then 1 else 0) + rank m i.
Proof. unfold rank. simpl firstn. apply count_true_cons. Qed.

Theorem writeback_nan_pattern {V} (d : V) mask : forall (active : list V), length active = count_true mask ->
  length (writeback mask active) = length mask /\
  forall i, i < length mask ->
    nth i (writeback mask active) None = if nthb mask i then Some (nth (rank mask i) active d) else None.
Proof.
  induction mask as [|b mask IH]; intros active Hl.
  - split; auto. intros; simpl in *; lia.
  - rewrite count_true_cons in Hl. destruct b.
    + destruct active as [|v active]; [simpl in Hl; lia|]. simpl in Hl.
      destruct (IH active ltac:(lia)) as [L N]. split; [simpl; now rewrite L|].
      intros [|i] Hi; [reflexivity|]. simpl in Hi.
      change (nth (S i) (writeback (true :: mask) (v :: active)) None) with (nth i (writeback mask active) None).
      rewrite N by lia. change (nthb (true :: mask) (S i)) with (nthb mask i). rewrite rank_cons. reflexivity.
    + destruct (IH active ltac:(simpl in Hl; lia)) as [L N]. split; [simpl; now rewrite L|].
      intros [|i] Hi; [reflexivity|]. simpl in Hi.
      change (nth (S i) (writeback (false :: mask) active) None) with (nth i (writeback mask active) None).
      rewrite N by lia. change (nthb (false :: mask) (S i)) with (nthb mask i). rewrite rank_cons. reflexivity.
Qed.

(* ------------------------------------------------------------------ reduced pit = pit of the deleted net *)
Lemma select_app {X} m1 m2 (a b : list X) : length m1 = length a ->
  select (m1 ++ m2) (a ++ b) = select m1 a ++ select m2 b.
Proof.
  revert a. induction m1 as [|x m1 IH]; intros [|y a] H; simpl in *; try discriminate; auto.
  destruct x; simpl; rewrite IH by lia; auto.
Qed.

Lemma concat_select_tabs {X} : forall (tabs : list (list X)) m, length m = length (concat tabs) ->
  concat (select_tabs m tabs) = select m (concat tabs).
Proof.
  induction tabs as [|t r IH]; intros m H; simpl.
  - destruct m; reflexivity.
  - simpl in H. rewrite app_length in H.
    transitivity (select (firstn (length t) m ++ skipn (length t) m) (t ++ concat r));
      [|now rewrite firstn_skipn].
    rewrite select_app by (rewrite firstn_length; lia). f_equal. apply IH. rewrite skipn_length. lia.
Qed.

Definition ends (b : branch) : Z * Z * (bool * bool * bool) :=
  (Z.of_nat (b_from b), Z.of_nat (b_to b), (b_active b, b_directed b, b_frc b)).

Lemma pos_deleted js nmask k : NoDup js -> length nmask = length js -> k < length js -> nthb nmask k = true ->
  pos_of (mk_index_lookup (select nmask js) 0) (nth k js 0%Z) = rank nmask k
  /\ pos_of (mk_index_lookup js 0) (nth k js 0%Z) = k.
Proof.
  intros Hnd Hl Hk Hm. unfold pos_of. split.
  - rewrite <- (select_nth 0%Z nmask js k) by (auto; lia).
    rewrite lookup_hit.
    + simpl. now rewrite Nat2Z.id.
    + now apply select_NoDup.
    + rewrite select_length by lia. apply rank_lt_count; auto. lia.
  - rewrite lookup_hit by auto. simpl. now rewrite Nat2Z.id.
Qed.

(* 5. for a net of junctions [js] and any number of one-section branch tables: the structural branch pit of the
   net with the unmarked junction rows and the unmarked branch rows deleted IS the reduced branch pit
   (from/to renumbered by reduce_pit, flags copied), provided every kept branch row refers to kept junctions -
   which the connectivity search guarantees (bmark_ends). *)
Theorem reduce_eq_delete js tabs nmask bmask :
  NoDup js -> length nmask = length js -> length bmask = length (concat tabs) ->
  (forall r, In r (select bmask (concat tabs)) ->
     exists kf kt, kf < length js /\ kt < length js /\ nthb nmask kf = true /\ nthb nmask kt = true
                   /\ r_from r = nth kf js 0%Z /\ r_to r = nth kt js 0%Z) ->
  map ends (mk_branches (select nmask js) (select_tabs bmask tabs)) =
  map (fun bf => (fst (snd bf), snd (snd bf), (b_active (fst bf), b_directed (fst bf), b_frc (fst bf))))
      (combine (select bmask (mk_branches js tabs)) (reduce_ft nmask bmask (mk_branches js tabs))).
Proof.
  intros Hnd Hln Hlb Hrows.
  assert (Hft : reduce_ft nmask bmask (mk_branches js tabs) =
                map (fun b => (renum nmask (b_from b), renum nmask (b_to b))) (select bmask (mk_branches js tabs))
                \/ all_true nmask = true).
  { unfold reduce_ft. destruct (all_true nmask); auto. }
  unfold mk_branches at 1. rewrite concat_select_tabs by auto.
  unfold mk_branches. rewrite select_map.
  set (rows := select bmask (concat tabs)) in *.
  assert (Hgen : reduce_ft nmask bmask (mk_branches js tabs) =
                 map (fun r => (renum nmask (pos_of (mk_index_lookup js 0) (r_from r)),
                                renum nmask (pos_of (mk_index_lookup js 0) (r_to r)))) rows).
  { unfold reduce_ft, mk_branches. rewrite select_map. fold rows. rewrite !map_map. simpl.
    destruct (all_true nmask) eqn:E; auto.
    apply map_ext_in. intros r Hr. destruct (Hrows r Hr) as [kf [kt [Hkf [Hkt [Hmf [Hmt [Ef Et]]]]]]].
    destruct (reduce_all_true_is_copy nmask E) as [Hid _].
    rewrite Ef, Et. destruct (pos_deleted js nmask kf Hnd Hln Hkf Hmf) as [_ ->].
    destruct (pos_deleted js nmask kt Hnd Hln Hkt Hmt) as [_ ->]. rewrite !Hid by lia. reflexivity. }
  unfold mk_branches in Hgen. rewrite Hgen. clear Hgen Hft.
  rewrite !map_map.
  assert (Hc : forall {X Y W} (g : X -> Y) (h : X -> W) (l : list X),
             combine (map g l) (map h l) = map (fun x => (g x, h x)) l).
  { intros. induction l; simpl; auto. now f_equal. }
  rewrite Hc, map_map. apply map_ext_in. intros r Hr. unfold ends. simpl.
  destruct (Hrows r Hr) as [kf [kt [Hkf [Hkt [Hmf [Hmt [Ef Et]]]]]]].
  rewrite Ef, Et.
  destruct (pos_deleted js nmask kf Hnd Hln Hkf Hmf) as [-> ->].
  destruct (pos_deleted js nmask kt Hnd Hln Hkt Hmt) as [-> ->].
  rewrite !renum_rank by (auto; lia). reflexivity.
Qed.

(* ------------------------------------------------------------------ _restart_connectivity_check *)
Lemma bl_eqb_refl l : bl_eqb l l = true.
Proof. unfold bl_eqb. induction l as [|[] l IH]; simpl; auto. Qed.

Lemma bl_eqb_eq a : forall b, bl_eqb a b = true -> a = b.
Proof.
  unfold bl_eqb. induction a as [|x a IH]; intros [|y b] H; simpl in H; try discriminate; auto.
  apply andb_true_iff in H. destruct H as [H1 H2]. apply eqb_prop in H1. subst. f_equal. auto.
Qed.

Lemma select_scatter {V} (m : list bool) : forall (act full : list V),
  length full = length m -> length act = count_true m -> select m (scatter m act full) = act.
Proof.
  induction m as [|b m IH]; intros act full Hf Ha.
  - destruct act; [reflexivity|]. unfold count_true in Ha. simpl in Ha. discriminate.
  - destruct full as [|f full]; [discriminate|]. simpl in Hf. rewrite count_true_cons in Ha.
    destruct b.
    + destruct act as [|a act]; [simpl in Ha; lia|]. simpl. f_equal. apply IH; simpl in *; lia.
    + simpl. apply IH; simpl in *; lia.
Qed.

Theorem restart_false_iff ident s :
  fst (restart_check ident s) = false <->
  select (r_mn s) (r_pn s) = r_an s /\ select (r_mb s) (r_pb s) = r_ab s.
Proof.
  unfold restart_check.
  destruct (bl_eqb (select (r_mn s) (r_pn s)) (r_an s)) eqn:E1, (bl_eqb (select (r_mb s) (r_pb s)) (r_ab s)) eqn:E2;
    simpl; split; intros H; try discriminate; auto using bl_eqb_eq.
  - destruct H as [H1 H2]. rewrite H2, bl_eqb_refl in E2. discriminate.
  - destruct H as [H1 H2]. rewrite H1, bl_eqb_refl in E1. discriminate.
  - destruct H as [H1 H2]. rewrite H1, bl_eqb_refl in E1. discriminate.
Qed.

Theorem restart_check_idempotent ident s :
  restart_check ident (snd (restart_check ident s)) = (false, snd (restart_check ident s)).
Proof.
  destruct (bl_eqb (select (r_mn s) (r_pn s)) (r_an s) && bl_eqb (select (r_mb s) (r_pb s)) (r_ab s)) eqn:E.
  - assert (R : restart_check ident s = (false, s)) by (unfold restart_check; now rewrite E).
    rewrite R. simpl. exact R.
  - assert (R : snd (restart_check ident s) =
                {| r_pn := scatter (r_mn s) (r_an s) (r_pn s); r_pb := scatter (r_mb s) (r_ab s) (r_pb s);
                   r_mn := fst (ident (scatter (r_mn s) (r_an s) (r_pn s)) (scatter (r_mb s) (r_ab s) (r_pb s)));
                   r_mb := snd (ident (scatter (r_mn s) (r_an s) (r_pn s)) (scatter (r_mb s) (r_ab s) (r_pb s)));
                   r_an := select (fst (ident (scatter (r_mn s) (r_an s) (r_pn s)) (scatter (r_mb s) (r_ab s) (r_pb s))))
                                  (scatter (r_mn s) (r_an s) (r_pn s));
                   r_ab := select (snd (ident (scatter (r_mn s) (r_an s) (r_pn s)) (scatter (r_mb s) (r_ab s) (r_pb s))))
                                  (scatter (r_mb s) (r_ab s) (r_pb s)) |})
      by (unfold restart_check; now rewrite E).
    rewrite R. unfold restart_check. simpl. now rewrite !bl_eqb_refl.
Qed.

Theorem restart_keeps_component_change (s : rstate) :
  length (r_pn s) = length (r_mn s) -> length (r_an s) = count_true (r_mn s) ->
  select (r_mn s) (scatter (r_mn s) (r_an s) (r_pn s)) = r_an s.
Proof. intros. now apply select_scatter. Qed.
