(* C17 - property theorems only. *)
From Coq Require Import String List Bool ZArith.
From PP Require Import C17.Model C17.Proofs.
Import ListNotations.
Open Scope string_scope.

Theorem exec_composes : forall s a b n, exec s (a ++ b) n = exec s b (exec s a n).
Proof. exact exec_app. Qed.
Print Assumptions exec_composes.
