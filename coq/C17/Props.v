(* C17 - property theorems only.  Model: C17/Model.v (tied to toolbox.py by exact correspondence);
   Gen/C17TupleSet.v is regenerated on every run from element_junction_tuples() of the code under test. *)
From Coq Require Import String List Bool ZArith.
From PP Require Import C17.Model C17.Proofs Gen.C17TupleSet.
From PP Require C04.Model C04.ProofsReduce C17.Subnet.
Import ListNotations.
Open Scope string_scope.

(* ---- today's code does what the property demands whenever the tuple set is exactly the set of
        junction-reference columns of the net and pipe references live in valve.element ---- *)
Theorem model_meets_spec : forall ops n,
  (forall o, In o ops -> exact (cs_of o) n) -> pexact n -> exec model_sem ops n = exec spec_sem ops n.
Proof. exact exec_model_eq_spec. Qed.
Print Assumptions model_meets_spec.

(* reindex_junctions = renaming rho on the junction index, its geodata / result index and EVERY junction reference *)
Theorem reindex_is_renaming : forall cs lk n, exact cs n ->
  step model_sem (Reindex cs "junction" lk) n = rename "junction" (app_lk lk) kind_is_kj n.
Proof. exact reindex_junction_is_rename. Qed.
Print Assumptions reindex_is_renaming.

(* reindex_pipes = renaming on the pipe index and the pipe references of pi valves *)
Theorem reindex_pipes_is_renaming : forall cs lk n, pexact n ->
  step model_sem (Reindex cs "pipe" lk) n = rename "pipe" (app_lk lk) kind_is_kp n.
Proof. exact reindex_pipe_is_rename. Qed.
Print Assumptions reindex_pipes_is_renaming.

(* the witness net of the refuted clauses: junctions 0..4, pipes 1:(0,1) 3:(1,2) 7:(2,3) 2:(3,4),
   a pi valve at junction 1 on pipe 1, ext grid at 0, sink at 4 *)
Definition jcell (col : string) (v : Z) := mkCell col KJ v.
Definition wpipe (l a b : Z) := mkRow l [jcell "from_junction" a; jcell "to_junction" b].
Definition witness : net :=
  [ mkTable "junction" [mkRow 0 []; mkRow 1 []; mkRow 2 []; mkRow 3 []; mkRow 4 []];
    mkTable "pipe" [wpipe 1 0 1; wpipe 3 1 2; wpipe 7 2 3; wpipe 2 3 4];
    mkTable "valve" [mkRow 0 [mkCell "element" KP 1; jcell "junction" 1]];
    mkTable "ext_grid" [mkRow 0 [jcell "junction" 0]];
    mkTable "sink" [mkRow 0 [jcell "junction" 4]] ]%Z.
Definition witness_no_valve : net := filter (fun t => negb (String.eqb (t_name t) "valve")) witness.
Definition swap_lookup : list (Z * Z) := [(0, 4); (1, 3); (2, 2); (3, 1); (4, 0)]%Z.

Example witness_is_intact : RI witness /\ ok model_sem (Reindex today_cs "junction" swap_lookup) witness = true.
Proof. split; [apply ri_b_RI; vm_compute; reflexivity | vm_compute; reflexivity]. Qed.

(* the hypotheses hold for the witness WITH its pipe-attached valve and today's tuple set (since 4bbab2a), and the
   valve stays on pipe 1 while its junction follows the lookup *)
Example witness_is_exact :
  exact today_cs witness /\ pexact witness /\
  rows_of "valve" (step model_sem (Reindex today_cs "junction" swap_lookup) witness) =
    [mkRow 0 [mkCell "element" KP 1; mkCell "junction" KJ 3]].
Proof.
  split; [apply exact_b_exact; vm_compute; reflexivity|]. split; [|vm_compute; reflexivity].
  intros tn r c Hr Hc. apply In_rows_of in Hr. destruct Hr as [t [Ht [<- Hr]]].
  simpl in Ht. repeat (destruct Ht as [<- | Ht]; [simpl in Hr; repeat (destruct Hr as [<- | Hr]; [simpl in Hc;
    repeat (destruct Hc as [<- | Hc]; [simpl; try discriminate; auto|]); contradiction|]); contradiction|]). contradiction.
Qed.

(* composition with the inverse lookup is the identity *)
Theorem rename_inverse_is_identity : forall e rho rho' k n,
  (forall x, rho' (rho x) = x) -> rename e rho' k (rename e rho k n) = n.
Proof. exact rename_roundtrip. Qed.
Print Assumptions rename_inverse_is_identity.

(* a renaming keeps every junction and pipe reference intact, and unique labels unique when injective *)
Theorem rename_preserves_integrity : forall rho n,
  RI n -> RI (rename "junction" rho kind_is_kj n) /\ RI (rename "pipe" rho kind_is_kp n).
Proof. intros. split; [now apply rename_junction_RI | now apply rename_pipe_RI]. Qed.
Print Assumptions rename_preserves_integrity.

Theorem rename_keeps_labels_unique : forall e rho k n,
  (forall x y, In x (labels_of e n) -> In y (labels_of e n) -> rho x = rho y -> x = y) ->
  NoDup (labels_of e n) -> NoDup (labels_of e (rename e rho k n)).
Proof. exact rename_labels_nodup. Qed.
Print Assumptions rename_keeps_labels_unique.

(* create_continuous_junction_index = renaming by rank: injective on the labels, onto start .. start+n-1 *)
Theorem continuous_index_is_rank_renaming : forall cs start n, exact cs n ->
  step model_sem (ContElem cs "junction" start) n =
    rename "junction" (rank_fn (labels_of "junction" n) start) kind_is_kj n.
Proof. exact cont_elem_is_rename_junction. Qed.
Print Assumptions continuous_index_is_rank_renaming.

Theorem rank_is_injective_and_contiguous : forall labs start a b, In a labs -> In b labs ->
  (rank_fn labs start a = rank_fn labs start b -> a = b) /\
  (start <= rank_fn labs start a < start + Z.of_nat (length labs))%Z.
Proof.
  intros labs start a b Ha Hb. split; [now apply rank_injective|].
  split; [apply rank_range | now apply rank_range_strict].
Qed.
Print Assumptions rank_is_injective_and_contiguous.

(* after ANY sequence of the operations no junction reference dangles, provided the tuple set covers the
   junction-reference columns (guards: fuse target exists, drop_junctions with drop_elements=True) *)
Theorem no_dangling_junction_refs : forall ops n,
  plain n -> (forall o, In o ops -> cover_hyp model_sem o n) -> guards model_sem ops n ->
  RI_J n -> RI_J (exec model_sem ops n).
Proof. intros. apply exec_RI_J; auto. exact model_sem_sane. Qed.
Print Assumptions no_dangling_junction_refs.

(* FULL STRENGTH (since 4bbab2a / bef9209): after ANY sequence of the operations neither a junction nor a pipe
   reference dangles - pi valves, remote controlled junctions, select_subnet included.  Hypotheses: label-only tables
   carry no cells, pipe references live in valve.element, the tuple sets cover the junction-reference columns; guards:
   fuse target exists, drop_junctions with drop_elements=True, reindexed tables are junction / pipe / a table whose
   family contains neither *)
Theorem no_dangling : forall ops n,
  plain n -> pexact n -> (forall o, In o ops -> cover_hyp model_sem o n) ->
  guards model_sem ops n -> guards_p ops -> RI n -> RI (exec model_sem ops n).
Proof. exact exec_RI_full. Qed.
Print Assumptions no_dangling.

(* FULL STRENGTH since drop_pipes cascades to the attached valves (bef9209): after any sequence of drop_pipes,
   drop_elements_at_junctions and drop_junctions(drop_elements=True) neither a junction nor a PIPE reference
   dangles - pi valves included *)
Theorem no_dangling_after_drops : forall ops n,
  all_drops ops = true -> plain n -> pexact n -> (forall o, In o ops -> cover_hyp model_sem o n) ->
  RI n -> RI (exec model_sem ops n).
Proof. exact exec_drops_RI. Qed.
Print Assumptions no_dangling_after_drops.

(* a single dropping operation keeps the pipe references intact whatever the tuple set is *)
Theorem drop_keeps_pipe_refs : forall o n, drop_op o = true -> pexact n -> RI_P n -> RI_P (step model_sem o n).
Proof. intros o n Hd Hx H. destruct (pexact_model_coversP n Hx). now apply step_drop_RI_P. Qed.
Print Assumptions drop_keeps_pipe_refs.

(* frame: the dropping / selecting operations leave every remaining row unchanged ... *)
Theorem frame_rows_unchanged : forall s o n tn r,
  removes_only o = true -> In r (rows_of tn (step s o n)) -> In r (rows_of tn n).
Proof. exact Proofs.frame_rows_unchanged. Qed.
Print Assumptions frame_rows_unchanged.

(* ... and drop_junctions keeps every element row that references none of the dropped junctions (and no pipe) *)
Theorem frame_untouched_rows_kept : forall s cs js n tn r,
  parent tn = None -> fam "junction" tn = false -> In r (rows_of tn n) ->
  (forall c, In c (r_cells r) -> selJ s cs tn (c_col c) (c_kind c) = true -> ~ In (c_val c) js) ->
  (forall c, In c (r_cells r) -> selP s tn (c_col c) (c_kind c) = false) ->
  In r (rows_of tn (step s (DropJ cs js true) n)).
Proof. exact drop_junctions_keeps_untouched. Qed.
Print Assumptions frame_untouched_rows_kept.

(* fuse_junctions: every junction reference to a fused junction becomes j1, nothing else changes, the fused
   junctions disappear (stated for the specification semantics; equal to the code under exactness by
   model_meets_spec) *)
Theorem fuse_redirects : forall cs j1 js n,
  (forall tn r', In r' (rows_of tn (step spec_sem (Fuse cs j1 js) n)) ->
     exists r, In r (rows_of tn n) /\ r_label r' = r_label r /\
       r_cells r' = map (fun c => if kind_is_kj (c_kind c) && memz (c_val c) (others j1 js)
                                  then set_val c j1 else c) (r_cells r)) /\
  (forall l, In l (labels_of "junction" (step spec_sem (Fuse cs j1 js) n)) <->
             In l (labels_of "junction" n) /\ ~ In l (others j1 js)).
Proof. intros. split; [intros tn r'; apply fuse_cells | intros l; apply fuse_junction_rows]. Qed.
Print Assumptions fuse_redirects.

Theorem fuse_redirects_code : forall cs j1 js n, exact cs n -> pexact n ->
  step model_sem (Fuse cs j1 js) n = step spec_sem (Fuse cs j1 js) n.
Proof. intros. now apply step_model_eq_spec. Qed.
Print Assumptions fuse_redirects_code.

(* FRAME in terms of the payload ("never alter elements they were not asked to touch"): whatever the operation, every
   row it leaves - element, geodata or result row - is a row of the net before with identical KN cells; the harness
   ships all non-reference columns of a row as one KN cell (#payload, bit-exact hash), compared in every case.
   For the removing operations the whole row is unchanged (frame_rows_unchanged). *)
Theorem payload_follows_row : forall o n, exact (cs_of o) n ->
  forall tn r', In r' (rows_of tn (step model_sem o n)) ->
    exists r, In r (rows_of tn n) /\ kn_cells r' = kn_cells r.
Proof. intros o n H. apply step_keeps_kn; [now apply exact_noKN | apply model_selP_noKN]. Qed.
Print Assumptions payload_follows_row.

(* the non-default options are inside the model too: fuse_junctions(drop=False) and select_subnet(include_results=True)
   keep every reference intact (same hypotheses and guards as no_dangling, which quantifies over all constructors) *)
Example options_in_model :
  ri_jb (exec model_sem [FuseKeep today_cs 4%Z [1%Z]; SelectRes today_cs [4%Z; 3%Z; 2%Z]] witness) = true /\
  rows_of "valve" (step model_sem (FuseKeep today_cs 4%Z [1%Z]) witness) =
    [mkRow 0 [mkCell "element" KP 1; mkCell "junction" KJ 4]].
Proof. vm_compute. auto. Qed.

(* select_subnet = restriction to the region: an element row (without pipe reference) is in the subnet iff it has a
   junction reference and ALL its junction references are selected; the junctions are the selected ones.  For a region
   closed under element connections these are exactly the region's rows, so by C04 (reduce_eq_delete: the reduced
   system of a net with an unsupplied / absent rest is the system of the region) pipeflow on the subnet is the region's
   calculation - that last step is observed by the subnet monitor, not proved here.  Stated for the specification
   semantics; equal to the code by model_meets_spec. *)
Theorem subnet_of_supplied_region : forall cs js n,
  (forall tn r, special tn = false -> (forall c, In c (r_cells r) -> c_kind c <> KP) ->
     (In r (rows_of tn (step spec_sem (Select cs js) n)) <->
      In r (rows_of tn n) /\ (exists c, In c (r_cells r) /\ c_kind c = KJ) /\
      (forall c, In c (r_cells r) -> c_kind c = KJ -> In (c_val c) js))) /\
  (forall l, In l (labels_of "junction" (step spec_sem (Select cs js) n)) <-> In l (labels_of "junction" n) /\ In l js).
Proof. intros. split; [intros tn r; apply subnet_rows | intros l; apply subnet_junctions]. Qed.
Print Assumptions subnet_of_supplied_region.

(* ... composed with C04: the branch pit of the subnet (junction rows of the region; of every branch table the rows with
   both ends in the region - what subnet_of_supplied_region says select_subnet builds) IS the reduced pit of the full net
   under the masks "junction in region" / "branch inside region": same renumbered from / to positions, same structural
   flags, same order.  Side conditions: unique junction labels, intact references.  So whenever the calculation of the
   full net reduces to the region (the region is its supplied part: C18.graph_components_eq_islands / C04
   connectivity), solver and subnet work on the same pit; that hydraulically separate supplied islands do not influence
   each other is not proved here (subnet monitor). *)
Theorem subnet_pit_is_reduced_pit : forall js tabs region,
  NoDup js -> (forall r, In r (concat tabs) -> In (PP.C04.Model.r_from r) js /\ In (PP.C04.Model.r_to r) js) ->
  map PP.C04.ProofsReduce.ends (PP.C04.Model.mk_branches (PP.C17.Subnet.sub_js js region) (PP.C17.Subnet.sub_tabs tabs region)) =
  map (fun bf => (fst (snd bf), snd (snd bf),
                  (PP.C04.Model.b_active (fst bf), PP.C04.Model.b_directed (fst bf), PP.C04.Model.b_frc (fst bf))))
      (combine (PP.C06.Model.select (PP.C17.Subnet.bmask tabs region) (PP.C04.Model.mk_branches js tabs))
               (PP.C04.Model.reduce_ft (PP.C17.Subnet.nmask js region) (PP.C17.Subnet.bmask tabs region)
                                       (PP.C04.Model.mk_branches js tabs))).
Proof. exact PP.C17.Subnet.subnet_pit_is_reduced_pit. Qed.
Print Assumptions subnet_pit_is_reduced_pit.

Example subnet_pit_instance :
  let js := [10; 4; 7; 22]%Z in
  let tabs := [[PP.C04.Model.Build_brow 1 10 4 true false false; PP.C04.Model.Build_brow 2 4 7 true false false];
               [PP.C04.Model.Build_brow 0 7 22 true true false]]%Z in
  map PP.C04.ProofsReduce.ends (PP.C04.Model.mk_branches (PP.C17.Subnet.sub_js js [4; 7; 22]%Z) (PP.C17.Subnet.sub_tabs tabs [4; 7; 22]%Z))
  = [(0, 1, (true, false, false)); (1, 2, (true, true, false))]%Z.
Proof. vm_compute. reflexivity. Qed.

(* non-vacuity: without the valve the witness satisfies every hypothesis used above, for today's tuple set *)
Example hypotheses_satisfiable :
  exact today_cs witness_no_valve /\ RI witness_no_valve /\
  ri_jb (exec model_sem [Reindex today_cs "junction" swap_lookup; Fuse today_cs 4%Z [3%Z]; DropJ today_cs [0%Z] true;
                         ContElem today_cs "junction" 5%Z] witness_no_valve) = true /\
  ri_pb (exec model_sem [Reindex today_cs "junction" swap_lookup; Fuse today_cs 4%Z [1%Z]; Select today_cs [4%Z; 3%Z; 2%Z];
                         ContElem today_cs "pipe" 5%Z; DropJ today_cs [2%Z] true] witness) = true.
Proof.
  split; [apply exact_b_exact; vm_compute; reflexivity|].
  split; [apply ri_b_RI; vm_compute; reflexivity|]. split; vm_compute; reflexivity.
Qed.
