(* C17 - "a subnet made of a complete supplied region reproduces that region's results", at the level of pits:
   composition of the structural half (select_subnet keeps exactly the rows all of whose junction references lie in
   the region, C17.Proofs.subnet_rows) with C04.reduce_eq_delete (the reduced pit of a net = the pit of the net with
   the unmarked rows deleted).  The tables are C04's (junction labels, branch tables with from / to labels and the
   structural flags). *)
From Coq Require Import ZArith List Bool Lia.
From PP Require Import C06.Model C04.Model C04.ProofsReduce.
Import ListNotations.

Definition memz (x : Z) (l : list Z) : bool := existsb (Z.eqb x) l.

Section Subnet.
  Variable js : list Z.                    (* junction labels of the full net *)
  Variable tabs : list (list brow)%type.   (* its branch tables *)
  Variable region : list Z.                (* the junctions handed to select_subnet *)

  Definition in_region (j : Z) : bool := memz j region.
  Definition row_in_region (r : brow) : bool := in_region (r_from r) && in_region (r_to r).

  (* what select_subnet builds: the junction rows of the region, of every branch table the rows with both ends in it *)
  Definition sub_js : list Z := filter in_region js.
  Definition sub_tabs : list (list brow) := map (filter row_in_region) tabs.
  (* the masks of a calculation of the FULL net in which exactly the region is supplied / in service *)
  Definition nmask : list bool := map in_region js.
  Definition bmask : list bool := map row_in_region (concat tabs).

  Lemma select_map_filter {X} (p : X -> bool) (l : list X) : select (map p l) l = filter p l.
  Proof. induction l as [|x l IH]; simpl; auto. destruct (p x); now rewrite IH. Qed.

  Lemma firstn_map_app {X Y} (p : X -> Y) (a b : list X) : firstn (length a) (map p (a ++ b)) = map p a.
  Proof. rewrite map_app. rewrite <- (map_length p a). rewrite firstn_app, Nat.sub_diag, firstn_all. simpl. apply app_nil_r. Qed.

  Lemma skipn_map_app {X Y} (p : X -> Y) (a b : list X) : skipn (length a) (map p (a ++ b)) = map p b.
  Proof. rewrite map_app. rewrite <- (map_length p a). rewrite skipn_app, Nat.sub_diag, skipn_all. reflexivity. Qed.

  Lemma select_tabs_filter (p : brow -> bool) (ts : list (list brow)) :
    select_tabs (map p (concat ts)) ts = map (filter p) ts.
  Proof.
    induction ts as [|t ts IH]; simpl; auto.
    rewrite firstn_map_app, skipn_map_app, select_map_filter, IH. reflexivity.
  Qed.

  Lemma nthb_map {X} (p : X -> bool) (d : X) (l : list X) k : k < length l -> nthb (map p l) k = p (nth k l d).
  Proof.
    unfold nthb. intros H. rewrite (nth_indep _ false (p d)) by (now rewrite map_length). apply map_nth.
  Qed.

  Hypothesis js_unique : NoDup js.
  (* referential integrity of the full net *)
  Hypothesis ends_exist : forall r, In r (concat tabs) -> In (r_from r) js /\ In (r_to r) js.

  (* the pit of the subnet IS the reduced pit of the full net under the region masks: same from / to positions
     (after renumbering), same structural flags, in the same order *)
  Theorem subnet_pit_is_reduced_pit :
    map ends (mk_branches sub_js sub_tabs) =
    map (fun bf => (fst (snd bf), snd (snd bf), (b_active (fst bf), b_directed (fst bf), b_frc (fst bf))))
        (combine (select bmask (mk_branches js tabs)) (reduce_ft nmask bmask (mk_branches js tabs))).
  Proof.
    unfold sub_js, sub_tabs. rewrite <- (select_map_filter in_region js), <- (select_tabs_filter row_in_region tabs).
    apply reduce_eq_delete; auto.
    - unfold nmask. now rewrite map_length.
    - unfold bmask. now rewrite map_length.
    - intros r Hr. fold bmask in Hr. unfold bmask in Hr. rewrite select_map_filter in Hr. apply filter_In in Hr.
      destruct Hr as [Hr Hin]. unfold row_in_region in Hin. apply andb_true_iff in Hin. destruct Hin as [Hf Ht].
      destruct (ends_exist r Hr) as [If It].
      destruct (In_nth _ _ 0%Z If) as [kf [Lf Ef]]. destruct (In_nth _ _ 0%Z It) as [kt [Lt Et]].
      exists kf, kt. repeat split; auto.
      + unfold nmask. rewrite (nthb_map in_region 0%Z js kf Lf). now rewrite Ef.
      + unfold nmask. rewrite (nthb_map in_region 0%Z js kt Lt). now rewrite Et.
  Qed.
End Subnet.
