(* C17 - executable model of the restructuring tools of pandapipes/toolbox.py (H-tie; definitions only).

   A net is a list of element tables; a table is a list of rows; a row is a label and the
   reference cells (column, reference kind, value).  The kind of a cell is the *property's* reading of
   it (given by the harness from the column name and from valve.et): KJ = junction label,
   KP = pipe label (valve.element of a valve with et == "pi"), KN = no reference.

   Every operation is written once, over a "semantics" [sem] that says which cells the operation
   treats as junction / pipe references:
     model_sem : what the code does today - membership of (table, column) in the tuple set that
                 element_junction_tuples(...) of the running code reports (dumped into every case),
                 and valve.element of pi valves for reindex_pipes;
     spec_sem  : what the property demands - the kind of the cell.
   Child tables (X_geodata, res_X) carry labels only.  Row order is not modelled: the correspondence
   compares tables after sorting rows by label. *)
From Coq Require Import String List Bool ZArith.
Import ListNotations.
Open Scope string_scope.

Inductive kind := KJ | KP | KN.
Record cell := mkCell { c_col : string; c_kind : kind; c_val : Z }.
Record row := mkRow { r_label : Z; r_cells : list cell }.
Record table := mkTable { t_name : string; t_rows : list row }.
Definition net := list table.
Definition colset := list (string * string).

Definition is_kj (c : cell) : bool := match c_kind c with KJ => true | _ => false end.
Definition is_kp (c : cell) : bool := match c_kind c with KP => true | _ => false end.
Definition memz (x : Z) (l : list Z) : bool := existsb (Z.eqb x) l.
Definition mem2 (t c : string) (cs : colset) : bool :=
  existsb (fun p => String.eqb t (fst p) && String.eqb c (snd p)) cs.
Definition set_val (c : cell) (v : Z) : cell := mkCell (c_col c) (c_kind c) v.

(* selectors look at (table, column, kind) only, never at the value *)
Definition selector := string -> string -> kind -> bool.
Definition on_cell (f : selector) (tn : string) (c : cell) : bool := f tn (c_col c) (c_kind c).
Definition kind_is_kj (k : kind) : bool := match k with KJ => true | _ => false end.
Definition kind_is_kp (k : kind) : bool := match k with KP => true | _ => false end.
Record sem := mkSem { selJ : colset -> selector; selP : selector }.
Definition model_sem : sem :=
  (* since 4bbab2a (_holds_junction_label): valve.element of a valve with et == "pi" is no junction reference *)
  mkSem (fun cs tn col k => mem2 tn col cs && negb (String.eqb tn "valve" && String.eqb col "element" && kind_is_kp k))
        (fun tn col k => String.eqb tn "valve" && String.eqb col "element" && kind_is_kp k).
Definition spec_sem : sem := mkSem (fun _ _ _ k => kind_is_kj k) (fun _ _ k => kind_is_kp k).

(* ---- generic table plumbing ---- *)
Definition map_rows (f : string -> row -> row) (n : net) : net :=
  map (fun t => mkTable (t_name t) (map (f (t_name t)) (t_rows t))) n.
Definition filter_rows (keep : string -> row -> bool) (n : net) : net :=
  map (fun t => mkTable (t_name t) (filter (keep (t_name t)) (t_rows t))) n.
Definition rows_of (tn : string) (n : net) : list row :=
  flat_map (fun t => if String.eqb (t_name t) tn then t_rows t else []) n.
Definition labels_of (e : string) (n : net) : list Z :=
  flat_map (fun t => if String.eqb (t_name t) e then map r_label (t_rows t) else []) n.

(* the tables whose index follows element e: e, e_geodata, res_e *)
Definition fam (e tn : string) : bool :=
  String.eqb tn e || String.eqb tn (e ++ "_geodata") || String.eqb tn ("res_" ++ e).

(* parent element of a child table *)
Definition parent (tn : string) : option string :=
  if prefix "res_" tn then Some (substring 4 (String.length tn - 4) tn)
  else if String.eqb tn "pipe_geodata" then Some "pipe"
  else if String.eqb tn "junction_geodata" then Some "junction" else None.

(* ---- reindex_elements ---- *)
Definition relabel (e : string) (rho : Z -> Z) (sel : string -> cell -> bool) : net -> net :=
  map_rows (fun tn r =>
    mkRow (if fam e tn then rho (r_label r) else r_label r)
          (map (fun c => if sel tn c then set_val c (rho (c_val c)) else c) (r_cells r))).

Definition sel_for (s : sem) (cs : colset) (e : string) : string -> cell -> bool :=
  if String.eqb e "junction" then on_cell (selJ s cs)
  else if String.eqb e "pipe" then on_cell (selP s) else fun _ _ => false.

Fixpoint look (lk : list (Z * Z)) (x : Z) : option Z :=
  match lk with [] => None | (k, v) :: r => if Z.eqb x k then Some v else look r x end.
(* lookup completed by the identity on labels it does not list (reindex_elements does that) *)
Definition app_lk (lk : list (Z * Z)) (x : Z) : Z := match look lk x with Some v => v | None => x end.

Definition reindex_elem (s : sem) (cs : colset) (e : string) (lk : list (Z * Z)) (n : net) : net :=
  relabel e (app_lk lk) (sel_for s cs e) n.

(* every value that get_indices translates must be a key of the completed lookup (else KeyError);
   the completion is skipped (-> KeyError) when an unlisted label is used as a new label *)
Definition translated_known (e : string) (sel : string -> cell -> bool) (known : Z -> bool) (n : net) : bool :=
  forallb (fun t => forallb (fun r =>
      (negb (fam e (t_name t)) || known (r_label r)) &&
      forallb (fun c => negb (sel (t_name t) c) || known (c_val c)) (r_cells r)) (t_rows t)) n.

Definition reindex_ok (s : sem) (cs : colset) (e : string) (lk : list (Z * Z)) (n : net) : bool :=
  let labs := labels_of e n in
  let missing := filter (fun l => negb (memz l (map fst lk))) labs in
  negb (existsb (fun l => memz l (map snd lk)) missing) &&
  translated_known e (sel_for s cs e) (fun v => memz v (map fst lk) || memz v labs) n.

(* ---- create_continuous_element_index: new label = start + rank among the labels ---- *)
Definition count_lt (x : Z) (l : list Z) : Z := Z.of_nat (length (filter (fun y => Z.ltb y x) l)).
Definition rank_fn (labs : list Z) (start : Z) (x : Z) : Z := start + count_lt x labs.

Definition cont_elem (s : sem) (cs : colset) (e : string) (start : Z) (n : net) : net :=
  relabel e (rank_fn (labels_of e n) start) (sel_for s cs e) n.
Definition cont_ok (s : sem) (cs : colset) (e : string) (n : net) : bool :=
  translated_known e (sel_for s cs e) (fun v => memz v (labels_of e n)) n.

(* create_continuous_elements_index: the tables in the iteration order of the running code's set *)
Fixpoint cont_all (s : sem) (cs : colset) (order : list string) (start : Z) (n : net) : net :=
  match order with [] => n | e :: r => cont_all s cs r start (cont_elem s cs e start n) end.
Fixpoint cont_all_ok (s : sem) (cs : colset) (order : list string) (start : Z) (n : net) : bool :=
  match order with
  | [] => true
  | e :: r => cont_ok s cs e n && cont_all_ok s cs r start (cont_elem s cs e start n)
  end.

(* ---- dropping ---- *)
Definition drop_labels (p : string -> bool) (ls : list Z) : net -> net :=
  filter_rows (fun tn r => negb (p tn && memz (r_label r) ls)).

Definition hit (sel : string -> cell -> bool) (js : list Z) (tn : string) (r : row) : bool :=
  existsb (fun c => sel tn c && memz (c_val c) js) (r_cells r).
Definition hit_labels (sel : string -> cell -> bool) (js : list Z) (n : net) (e : string) : list Z :=
  flat_map (fun t => if String.eqb (t_name t) e
                     then map r_label (filter (hit sel js (t_name t)) (t_rows t)) else []) n.

(* drop_elements_at_junctions: rows with a selected cell in js, and their res_ / geodata rows *)
Definition drop_elems (sel : string -> cell -> bool) (js : list Z) (n : net) : net :=
  filter_rows (fun tn r =>
    negb (hit sel js tn r) &&
    match parent tn with Some e => negb (memz (r_label r) (hit_labels sel js n e)) | None => true end) n.

(* drop_pipes(ps) as called with the pipes found at the junctions: since bef9209 it first drops the valves
   attached to those pipes (selected pipe-reference cell in ps) and their result rows *)
Definition drop_pipe_refs (selp : string -> cell -> bool) (ps : list Z) (n : net) : net := drop_elems selp ps n.
(* drop_elements_at_junctions incl. the cascade pipes -> attached valves *)
Definition drop_elems_full (sel selp : string -> cell -> bool) (js : list Z) (n : net) : net :=
  drop_pipe_refs selp (hit_labels sel js n "pipe") (drop_elems sel js n).

Definition subset_b (a b : list Z) : bool := forallb (fun x => memz x b) a.

Definition redirect (sel : string -> cell -> bool) (j1 : Z) (js : list Z) : net -> net :=
  map_rows (fun tn r => mkRow (r_label r)
    (map (fun c => if sel tn c && memz (c_val c) js then set_val c j1 else c) (r_cells r))).

(* select_subnet(net, junctions) with the default flags *)
Definition keep_row (sel : string -> cell -> bool) (js : list Z) (tn : string) (r : row) : bool :=
  existsb (sel tn) (r_cells r) && forallb (fun c => negb (sel tn c) || memz (c_val c) js) (r_cells r).
Definition kept_labels (sel : string -> cell -> bool) (js : list Z) (n : net) (e : string) : list Z :=
  flat_map (fun t => if String.eqb (t_name t) e
                     then map r_label (filter (keep_row sel js (t_name t)) (t_rows t)) else []) n.
(* since 4bbab2a rows with a selected pipe reference (pi valves) follow their pipe *)
Definition select (sel selp : string -> cell -> bool) (js : list Z) (n : net) : net :=
  filter_rows (fun tn r =>
    if String.eqb tn "junction" || String.eqb tn "junction_geodata" then memz (r_label r) js
    else if String.eqb tn "pipe_geodata" then memz (r_label r) (kept_labels sel js n "pipe")
    else if prefix "res_" tn then false
    else keep_row sel js tn r &&
         forallb (fun c => negb (selp tn c) || memz (c_val c) (kept_labels sel js n "pipe")) (r_cells r)) n.

(* select_subnet(include_results=True): the element tables as above, every res_ row follows its element row *)
Definition sel_pred (sel selp : string -> cell -> bool) (js : list Z) (n : net) (tn : string) (r : row) : bool :=
  if String.eqb tn "junction" || String.eqb tn "junction_geodata" then memz (r_label r) js
  else if String.eqb tn "pipe_geodata" then memz (r_label r) (kept_labels sel js n "pipe")
  else if prefix "res_" tn then false
  else keep_row sel js tn r &&
       forallb (fun c => negb (selp tn c) || memz (c_val c) (kept_labels sel js n "pipe")) (r_cells r).
Definition select_res (sel selp : string -> cell -> bool) (js : list Z) (n : net) : net :=
  filter_rows (fun tn r =>
    if prefix "res_" tn
    then match parent tn with
         | Some e => memz (r_label r) (map r_label (filter (sel_pred sel selp js n e) (rows_of e n)))
         | None => false
         end
    else sel_pred sel selp js n tn r) n.

(* ---- the operations of the property ---- *)
Inductive op :=
| Reindex (cs : colset) (e : string) (lk : list (Z * Z))     (* reindex_junctions / _pipes / _elements *)
| ContElem (cs : colset) (e : string) (start : Z)            (* create_continuous_(junction|element)_index *)
| ContAll (cs : colset) (order : list string) (start : Z)    (* create_continuous_elements_index *)
| Fuse (cs : colset) (j1 : Z) (js : list Z)                  (* fuse_junctions(net, j1, js, drop=True) *)
| Select (cs : colset) (js : list Z)                         (* select_subnet *)
| DropJ (cs : colset) (js : list Z) (cascade : bool)         (* drop_junctions(net, js, drop_elements) *)
| DropElems (cs : colset) (js : list Z)                      (* drop_elements_at_junctions (cs as dumped for its flags) *)
| DropP (ps : list Z)                                        (* drop_pipes *)
| FuseKeep (cs : colset) (j1 : Z) (js : list Z)              (* fuse_junctions(net, j1, js, drop=False) *)
| SelectRes (cs : colset) (js : list Z).                     (* select_subnet(include_results=True) *)

Definition others (j1 : Z) (js : list Z) : list Z := filter (fun j => negb (Z.eqb j j1)) js.

Definition step (s : sem) (o : op) (n : net) : net :=
  match o with
  | Reindex cs e lk => reindex_elem s cs e lk n
  | ContElem cs e start => cont_elem s cs e start n
  | ContAll cs order start => cont_all s cs order start n
  | Fuse cs j1 js => drop_labels (fam "junction") (others j1 js) (redirect (on_cell (selJ s cs)) j1 (others j1 js) n)
  | Select cs js => select (on_cell (selJ s cs)) (on_cell (selP s)) js n
  | DropJ cs js cascade =>
      let n1 := drop_labels (fam "junction") js n in
      if cascade then drop_elems_full (on_cell (selJ s cs)) (on_cell (selP s)) js n1 else n1
  | DropElems cs js => drop_elems_full (on_cell (selJ s cs)) (on_cell (selP s)) js n
  | DropP ps => drop_labels (fam "pipe") ps (drop_pipe_refs (on_cell (selP s)) ps n)
  | FuseKeep cs j1 js => redirect (on_cell (selJ s cs)) j1 (others j1 js) n
  | SelectRes cs js => select_res (on_cell (selJ s cs)) (on_cell (selP s)) js n
  end.

Fixpoint nodup_z (l : list Z) : bool :=
  match l with [] => true | x :: r => negb (memz x r) && nodup_z r end.

(* the call returns (no KeyError) *)
Definition ok (s : sem) (o : op) (n : net) : bool :=
  match o with
  | Reindex cs e lk => reindex_ok s cs e lk n
  | ContElem cs e _ => cont_ok s cs e n
  | ContAll cs order start => cont_all_ok s cs order start n
  | Fuse _ j1 js => subset_b (others j1 js) (labels_of "junction" n)
  | Select _ js => subset_b js (labels_of "junction" n) && nodup_z js
  | DropJ _ js _ => subset_b js (labels_of "junction" n)
  | DropElems _ _ => true
  | DropP ps => subset_b ps (labels_of "pipe" n)
  | FuseKeep _ _ _ => true
  | SelectRes _ js => subset_b js (labels_of "junction" n) && nodup_z js
  end.

Definition step_opt (s : sem) (o : op) (n : net) : option net := if ok s o n then Some (step s o n) else None.
Definition exec (s : sem) (ops : list op) (n : net) : net := fold_left (fun acc o => step s o acc) ops n.

(* ---- referential integrity as the property states it ---- *)
Definition cells_ok (p : string -> cell -> bool) (n : net) : bool :=
  forallb (fun t => forallb (fun r => forallb (p (t_name t)) (r_cells r)) (t_rows t)) n.
Definition ri_jb (n : net) : bool :=
  cells_ok (fun _ c => negb (is_kj c) || memz (c_val c) (labels_of "junction" n)) n.
Definition ri_pb (n : net) : bool :=
  cells_ok (fun _ c => negb (is_kp c) || memz (c_val c) (labels_of "pipe" n)) n.
(* the tuple set is exactly the set of junction reference columns of this net *)
Definition exact_b (cs : colset) (n : net) : bool :=
  cells_ok (fun tn c => Bool.eqb (on_cell (selJ model_sem cs) tn c) (is_kj c)) n.
(* pipe references live in valve.element only *)
Definition pexact_b (n : net) : bool :=
  cells_ok (fun tn c => negb (is_kp c) || (String.eqb tn "valve" && String.eqb (c_col c) "element")) n.
Definition no_pipe_refs_b (n : net) : bool := cells_ok (fun _ c => negb (is_kp c)) n.

(* ---- comparison helpers for the generated correspondence cases ---- *)
Definition kind_eqb (a b : kind) : bool :=
  match a, b with KJ, KJ | KP, KP | KN, KN => true | _, _ => false end.
Definition cell_eqb (a b : cell) : bool :=
  String.eqb (c_col a) (c_col b) && kind_eqb (c_kind a) (c_kind b) && Z.eqb (c_val a) (c_val b).
Fixpoint list_eqb {A} (eqb : A -> A -> bool) (a b : list A) : bool :=
  match a, b with
  | [], [] => true
  | x :: r, y :: q => eqb x y && list_eqb eqb r q
  | _, _ => false
  end.
Definition row_eqb (a b : row) : bool := Z.eqb (r_label a) (r_label b) && list_eqb cell_eqb (r_cells a) (r_cells b).
Fixpoint insert_row (r : row) (l : list row) : list row :=
  match l with
  | [] => [r]
  | x :: q => if Z.leb (r_label r) (r_label x) then r :: l else x :: insert_row r q
  end.
Definition sort_rows (l : list row) : list row := fold_right insert_row [] l.
(* tables are compared by name, rows sorted by label; a table absent on one side counts as empty *)
Definition net_eqb (a b : net) : bool :=
  forallb (fun t => list_eqb row_eqb (sort_rows (t_rows t)) (sort_rows (rows_of (t_name t) b))) a &&
  forallb (fun t => list_eqb row_eqb (sort_rows (t_rows t)) (sort_rows (rows_of (t_name t) a))) b.
Definition onet_eqb (a b : option net) : bool :=
  match a, b with Some x, Some y => net_eqb x y | None, None => true | _, _ => false end.

(* one correspondence case: the net before, the operation, what the real call left (None = raised) *)
Record case := mkCase { k_net : net; k_op : op; k_obs : option net }.
Definition case_ok (c : case) : bool := onet_eqb (step_opt model_sem (k_op c) (k_net c)) (k_obs c).
Fixpoint first_bad (cs : list case) (i : nat) : option nat :=
  match cs with [] => None | c :: r => if case_ok c then first_bad r (S i) else Some i end.
Definition summary (cs : list case) : nat * nat * Z :=
  (length cs, length (filter (fun c => negb (case_ok c)) cs),
   match first_bad cs 0 with Some i => Z.of_nat i | None => (-1)%Z end).
(* how many cases fall under the hypotheses of the _partial theorems (exact tuple set, no pipe refs) *)
Definition cs_of (o : op) : colset :=
  match o with
  | Reindex cs _ _ | ContElem cs _ _ | ContAll cs _ _ | Fuse cs _ _ | Select cs _ | DropJ cs _ _
  | DropElems cs _ | FuseKeep cs _ _ | SelectRes cs _ => cs
  | DropP _ => []
  end.
Definition summary_hyp (cs : list case) : nat * nat * Z :=
  (length cs, length (filter (fun c => exact_b (cs_of (k_op c)) (k_net c)) cs),
   Z.of_nat (length (filter (fun c => no_pipe_refs_b (k_net c)) cs))).
