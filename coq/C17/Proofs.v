(* C17 - proofs about the model of the restructuring tools (any tables, any rows, any sequences). *)
From Coq Require Import String List Bool ZArith Lia.
From PP Require Import C17.Model.
Import ListNotations.
Open Scope string_scope.

(* ------------------------------------------------------------------ basic plumbing *)
Lemma memz_In x l : memz x l = true <-> In x l.
Proof.
  unfold memz. rewrite existsb_exists. split.
  - intros [y [H E]]. apply Z.eqb_eq in E. now subst.
  - intros H. exists x. split; auto. apply Z.eqb_refl.
Qed.

Lemma memz_false x l : memz x l = false <-> ~ In x l.
Proof. rewrite <- memz_In. destruct (memz x l); split; intros; try discriminate; auto. now exfalso; apply H. Qed.

Lemma rows_of_filter_rows k tn n : rows_of tn (filter_rows k n) = filter (k tn) (rows_of tn n).
Proof.
  induction n as [|t n IH]; simpl; auto.
  rewrite filter_app, <- IH. f_equal.
  destruct (String.eqb (t_name t) tn) eqn:E; simpl; auto.
  apply String.eqb_eq in E. now subst.
Qed.

Lemma rows_of_map_rows f tn n : rows_of tn (map_rows f n) = map (f tn) (rows_of tn n).
Proof.
  induction n as [|t n IH]; simpl; auto.
  rewrite map_app, <- IH. f_equal.
  destruct (String.eqb (t_name t) tn) eqn:E; simpl; auto.
  apply String.eqb_eq in E. now subst.
Qed.

Lemma labels_of_rows_of e n : labels_of e n = map r_label (rows_of e n).
Proof.
  induction n as [|t n IH]; simpl; auto.
  rewrite map_app, <- IH. f_equal. now destruct (String.eqb (t_name t) e).
Qed.

Lemma In_rows_of tn r n : In r (rows_of tn n) <-> exists t, In t n /\ t_name t = tn /\ In r (t_rows t).
Proof.
  unfold rows_of. rewrite in_flat_map. split.
  - intros [t [Ht Hr]]. destruct (String.eqb (t_name t) tn) eqn:E; [|contradiction].
    apply String.eqb_eq in E. eauto.
  - intros [t [Ht [En Hr]]]. exists t. split; auto. subst. now rewrite String.eqb_refl.
Qed.

(* a statement about every cell of the net that looks at (table, column, kind) only *)
Definition allcells (Q : string -> string -> kind -> Prop) (n : net) : Prop :=
  forall tn r c, In r (rows_of tn n) -> In c (r_cells r) -> Q tn (c_col c) (c_kind c).

Lemma allcells_filter_rows Q k n : allcells Q n -> allcells Q (filter_rows k n).
Proof.
  intros H tn r c Hr Hc. rewrite rows_of_filter_rows in Hr. apply filter_In in Hr. eapply H; eauto. tauto.
Qed.

Definition keeps_shape (f : string -> row -> row) : Prop :=
  forall tn r c', In c' (r_cells (f tn r)) ->
    exists c, In c (r_cells r) /\ c_col c' = c_col c /\ c_kind c' = c_kind c.

Lemma allcells_map_rows Q f n : keeps_shape f -> allcells Q n -> allcells Q (map_rows f n).
Proof.
  intros Hf H tn r' c' Hr Hc. rewrite rows_of_map_rows in Hr. apply in_map_iff in Hr.
  destruct Hr as [r [<- Hr]]. destruct (Hf _ _ _ Hc) as [c [Hc0 [E1 E2]]]. rewrite E1, E2. eapply H; eauto.
Qed.

Lemma relabel_keeps_shape e rho (sel : string -> cell -> bool) :
  keeps_shape (fun tn r => mkRow (if fam e tn then rho (r_label r) else r_label r)
     (map (fun c => if sel tn c then set_val c (rho (c_val c)) else c) (r_cells r))).
Proof.
  intros tn r c' Hc. simpl in Hc. apply in_map_iff in Hc. destruct Hc as [c [<- Hc]].
  exists c. split; auto. destruct (sel tn c); auto.
Qed.

Lemma allcells_relabel Q e rho sel n : allcells Q n -> allcells Q (relabel e rho sel n).
Proof. apply allcells_map_rows, relabel_keeps_shape. Qed.

Lemma redirect_keeps_shape (sel : string -> cell -> bool) j1 js :
  keeps_shape (fun tn r => mkRow (r_label r)
    (map (fun c => if sel tn c && memz (c_val c) js then set_val c j1 else c) (r_cells r))).
Proof.
  intros tn r c' Hc. simpl in Hc. apply in_map_iff in Hc. destruct Hc as [c [<- Hc]].
  exists c. split; auto. destruct (sel tn c && memz (c_val c) js); auto.
Qed.

Lemma allcells_redirect Q sel j1 js n : allcells Q n -> allcells Q (redirect sel j1 js n).
Proof. apply allcells_map_rows, redirect_keeps_shape. Qed.

Lemma allcells_cont_all Q s cs order start n : allcells Q n -> allcells Q (cont_all s cs order start n).
Proof.
  revert n. induction order as [|e r IH]; intros n H; simpl; auto.
  apply IH. now apply allcells_relabel.
Qed.

Lemma allcells_step Q s o n : allcells Q n -> allcells Q (step s o n).
Proof.
  intros H. destruct o; simpl.
  - now apply allcells_relabel.
  - now apply allcells_relabel.
  - now apply allcells_cont_all.
  - now apply allcells_filter_rows, allcells_redirect.
  - now apply allcells_filter_rows.
  - destruct cascade; repeat apply allcells_filter_rows; auto.
  - now apply allcells_filter_rows.
  - now apply allcells_filter_rows.
Qed.

Lemma allcells_exec Q s ops n : allcells Q n -> allcells Q (exec s ops n).
Proof.
  revert n. induction ops as [|o r IH]; intros n H; simpl; auto. apply IH. now apply allcells_step.
Qed.

(* ------------------------------------------------------------------ model = specification when the
   selectors agree on the cells of the net *)
Definition agree (f g : selector) (n : net) : Prop := allcells (fun tn col k => f tn col k = g tn col k) n.

Definition agree_in (sel1 sel2 : string -> cell -> bool) (n : net) : Prop :=
  forall t r c, In t n -> In r (t_rows t) -> In c (r_cells r) -> sel1 (t_name t) c = sel2 (t_name t) c.

Lemma agree_agree_in f g n : agree f g n -> agree_in (on_cell f) (on_cell g) n.
Proof.
  intros H t r c Ht Hr Hc. unfold on_cell. apply (H (t_name t) r c); auto.
  apply In_rows_of. eauto.
Qed.

Lemma map_rows_ext_in f g n :
  (forall t r, In t n -> In r (t_rows t) -> f (t_name t) r = g (t_name t) r) -> map_rows f n = map_rows g n.
Proof.
  intros H. unfold map_rows. apply map_ext_in. intros t Ht. f_equal. apply map_ext_in. intros r Hr. now apply H.
Qed.

Lemma filter_ext_in {A} (f g : A -> bool) l : (forall x, In x l -> f x = g x) -> filter f l = filter g l.
Proof.
  induction l as [|x l IH]; simpl; auto. intros H. rewrite (H x) by auto. rewrite IH; auto.
Qed.

Lemma filter_rows_ext_in f g n :
  (forall t r, In t n -> In r (t_rows t) -> f (t_name t) r = g (t_name t) r) -> filter_rows f n = filter_rows g n.
Proof.
  intros H. unfold filter_rows. apply map_ext_in. intros t Ht. f_equal. apply filter_ext_in. intros r Hr. now apply H.
Qed.

Lemma existsb_ext_in {A} (f g : A -> bool) l : (forall x, In x l -> f x = g x) -> existsb f l = existsb g l.
Proof. induction l as [|x l IH]; simpl; auto. intros H. rewrite (H x) by auto. rewrite IH; auto. Qed.

Lemma forallb_ext_in {A} (f g : A -> bool) l : (forall x, In x l -> f x = g x) -> forallb f l = forallb g l.
Proof. induction l as [|x l IH]; simpl; auto. intros H. rewrite (H x) by auto. rewrite IH; auto. Qed.

Lemma relabel_agree e rho sel1 sel2 n : agree_in sel1 sel2 n -> relabel e rho sel1 n = relabel e rho sel2 n.
Proof.
  intros H. apply map_rows_ext_in. intros t r Ht Hr. f_equal. apply map_ext_in. intros c Hc.
  now rewrite (H t r c).
Qed.

Lemma redirect_agree sel1 sel2 j1 js n : agree_in sel1 sel2 n -> redirect sel1 j1 js n = redirect sel2 j1 js n.
Proof.
  intros H. apply map_rows_ext_in. intros t r Ht Hr. f_equal. apply map_ext_in. intros c Hc.
  now rewrite (H t r c).
Qed.

Lemma hit_agree sel1 sel2 js n t r : agree_in sel1 sel2 n -> In t n -> In r (t_rows t) ->
  hit sel1 js (t_name t) r = hit sel2 js (t_name t) r.
Proof. intros H Ht Hr. apply existsb_ext_in. intros c Hc. now rewrite (H t r c). Qed.

Lemma flat_map_ext_in {A B} (f g : A -> list B) l : (forall x, In x l -> f x = g x) -> flat_map f l = flat_map g l.
Proof. induction l as [|x l IH]; simpl; auto. intros H. rewrite (H x) by auto. rewrite IH; auto. Qed.

Lemma hit_labels_agree sel1 sel2 js n e : agree_in sel1 sel2 n -> hit_labels sel1 js n e = hit_labels sel2 js n e.
Proof.
  intros H. apply flat_map_ext_in. intros t Ht. destruct (String.eqb (t_name t) e); auto.
  f_equal. apply filter_ext_in. intros r Hr. now apply (hit_agree _ _ _ n).
Qed.

Lemma drop_elems_agree sel1 sel2 js n : agree_in sel1 sel2 n -> drop_elems sel1 js n = drop_elems sel2 js n.
Proof.
  intros H. apply filter_rows_ext_in. intros t r Ht Hr.
  rewrite (hit_agree _ _ _ n t r H Ht Hr). f_equal.
  destruct (parent (t_name t)); auto. now rewrite (hit_labels_agree _ _ _ _ _ H).
Qed.

Lemma keep_row_agree sel1 sel2 js n t r : agree_in sel1 sel2 n -> In t n -> In r (t_rows t) ->
  keep_row sel1 js (t_name t) r = keep_row sel2 js (t_name t) r.
Proof.
  intros H Ht Hr. unfold keep_row. f_equal.
  - apply existsb_ext_in. intros c Hc. now apply (H t r c).
  - apply forallb_ext_in. intros c Hc. now rewrite (H t r c).
Qed.

Lemma select_agree sel1 sel2 js n : agree_in sel1 sel2 n -> select sel1 js n = select sel2 js n.
Proof.
  intros H. apply filter_rows_ext_in. intros t r Ht Hr.
  assert (K : kept_labels sel1 js n "pipe" = kept_labels sel2 js n "pipe").
  { apply flat_map_ext_in. intros t0 Ht0. destruct (String.eqb (t_name t0) "pipe"); auto.
    f_equal. apply filter_ext_in. intros r0 Hr0. now apply (keep_row_agree _ _ _ n). }
  rewrite K, (keep_row_agree _ _ _ n t r H Ht Hr). reflexivity.
Qed.

Lemma agree_in_filter_rows sel1 sel2 k n : agree_in sel1 sel2 n -> agree_in sel1 sel2 (filter_rows k n).
Proof.
  intros H t' r c Ht Hr Hc. unfold filter_rows in Ht. apply in_map_iff in Ht. destruct Ht as [t [<- Ht]].
  simpl in *. apply filter_In in Hr. apply (H t r c); tauto.
Qed.

Definition sems_agree (s1 s2 : sem) (cs : colset) (n : net) : Prop :=
  agree (selJ s1 cs) (selJ s2 cs) n /\ agree (selP s1) (selP s2) n.

Lemma sel_for_agree s1 s2 cs e n : sems_agree s1 s2 cs n -> agree_in (sel_for s1 cs e) (sel_for s2 cs e) n.
Proof.
  intros [HJ HP]. unfold sel_for. destruct (String.eqb e "junction"); [now apply agree_agree_in|].
  destruct (String.eqb e "pipe"); [now apply agree_agree_in|]. intros t r c _ _ _. reflexivity.
Qed.

Lemma cont_all_agree s1 s2 cs order start n : sems_agree s1 s2 cs n ->
  cont_all s1 cs order start n = cont_all s2 cs order start n.
Proof.
  revert n. induction order as [|e r IH]; intros n H; simpl; auto.
  assert (E : cont_elem s1 cs e start n = cont_elem s2 cs e start n).
  { unfold cont_elem. apply relabel_agree. now apply sel_for_agree. }
  rewrite E. apply IH. destruct H as [HJ HP]. split; unfold agree, cont_elem; now apply allcells_relabel.
Qed.

Lemma step_agree s1 s2 o n : sems_agree s1 s2 (cs_of o) n -> step s1 o n = step s2 o n.
Proof.
  intros H. pose proof H as [HJ HP]. destruct o; simpl in *.
  - apply relabel_agree. now apply sel_for_agree.
  - apply relabel_agree. now apply sel_for_agree.
  - now apply cont_all_agree.
  - f_equal. apply redirect_agree. now apply agree_agree_in.
  - apply select_agree. now apply agree_agree_in.
  - destruct cascade; auto. apply drop_elems_agree. apply agree_in_filter_rows. now apply agree_agree_in.
  - apply drop_elems_agree. now apply agree_agree_in.
  - reflexivity.
Qed.

(* the hypotheses under which today's code meets the specification: the tuple set is exactly the set
   of junction-reference columns of the net, and pipe references live in valve.element *)
Definition exact (cs : colset) (n : net) : Prop :=
  allcells (fun tn col k => mem2 tn col cs = kind_is_kj k) n.
Definition pexact (n : net) : Prop :=
  allcells (fun tn col k => kind_is_kp k = true -> tn = "valve" /\ col = "element") n.

Lemma exact_sems_agree cs n : exact cs n -> pexact n -> sems_agree model_sem spec_sem cs n.
Proof.
  intros HE HP. split; intros tn r c Hr Hc; simpl.
  - apply (HE tn r c Hr Hc).
  - specialize (HP tn r c Hr Hc). simpl in HP. destruct (kind_is_kp (c_kind c)) eqn:K.
    + destruct (HP eq_refl) as [-> ->]. reflexivity.
    + now rewrite andb_false_r.
Qed.

Lemma step_model_eq_spec o n : exact (cs_of o) n -> pexact n -> step model_sem o n = step spec_sem o n.
Proof. intros. apply step_agree. now apply exact_sems_agree. Qed.

(* over sequences: exactness is about (table, column, kind) and is kept by every operation *)
Lemma exec_model_eq_spec ops n :
  (forall o, In o ops -> exact (cs_of o) n) -> pexact n -> exec model_sem ops n = exec spec_sem ops n.
Proof.
  revert n. induction ops as [|o r IH]; intros n HE HP; simpl; auto.
  rewrite (step_model_eq_spec o n) by (auto; apply HE; now left).
  apply IH.
  - intros o' Ho'. unfold exact. apply allcells_step. apply HE. now right.
  - unfold pexact. now apply allcells_step.
Qed.

(* ------------------------------------------------------------------ renaming *)
Definition rename (e : string) (rho : Z -> Z) (k : kind -> bool) : net -> net :=
  relabel e rho (fun _ c => k (c_kind c)).

Lemma reindex_junction_is_rename cs lk n : exact cs n ->
  reindex_elem model_sem cs "junction" lk n = rename "junction" (app_lk lk) kind_is_kj n.
Proof.
  intros H. unfold reindex_elem, rename. apply relabel_agree.
  intros t r c Ht Hr Hc. simpl. unfold on_cell. simpl. apply (H (t_name t) r c); auto. apply In_rows_of; eauto.
Qed.

Lemma reindex_pipe_is_rename cs lk n : pexact n ->
  reindex_elem model_sem cs "pipe" lk n = rename "pipe" (app_lk lk) kind_is_kp n.
Proof.
  intros H. unfold reindex_elem, rename. apply relabel_agree.
  intros t r c Ht Hr Hc.
  assert (Hr' : In r (rows_of (t_name t) n)) by (apply In_rows_of; eauto).
  specialize (H _ _ _ Hr' Hc). cbv beta in H.
  change (sel_for model_sem cs "pipe" (t_name t) c)
    with (String.eqb (t_name t) "valve" && String.eqb (c_col c) "element" && kind_is_kp (c_kind c)).
  destruct (kind_is_kp (c_kind c)) eqn:K.
  - destruct (H eq_refl) as [E1 E2]. rewrite E1, E2. reflexivity.
  - now rewrite andb_false_r.
Qed.

Lemma relabel_relabel_id e rho rho' sel n :
  (forall x, rho' (rho x) = x) ->
  (forall tn c v, sel tn (set_val c v) = sel tn c) ->
  relabel e rho' sel (relabel e rho sel n) = n.
Proof.
  intros Hinv Hsel. unfold relabel, map_rows. rewrite map_map.
  rewrite <- (map_id n) at 2. apply map_ext. intros [tn rows]. simpl. f_equal.
  rewrite map_map. rewrite <- (map_id rows) at 2. apply map_ext. intros [l cells]. simpl. f_equal.
  - destruct (fam e tn); auto.
  - rewrite map_map. rewrite <- (map_id cells) at 2. apply map_ext. intros c.
    destruct (sel tn c) eqn:S.
    + rewrite Hsel, S. destruct c; unfold set_val; simpl. now rewrite Hinv.
    + now rewrite S.
Qed.

Lemma rename_roundtrip e rho rho' k n : (forall x, rho' (rho x) = x) -> rename e rho' k (rename e rho k n) = n.
Proof. intros H. unfold rename. apply relabel_relabel_id; auto. Qed.

(* ------------------------------------------------------------------ referential integrity *)
Definition RI_J (n : net) : Prop :=
  forall tn r c, In r (rows_of tn n) -> In c (r_cells r) -> c_kind c = KJ -> In (c_val c) (labels_of "junction" n).
Definition RI_P (n : net) : Prop :=
  forall tn r c, In r (rows_of tn n) -> In c (r_cells r) -> c_kind c = KP -> In (c_val c) (labels_of "pipe" n).
Definition RI (n : net) : Prop := RI_J n /\ RI_P n.

Lemma labels_of_relabel x e rho sel n :
  labels_of x (relabel e rho sel n) = if fam e x then map rho (labels_of x n) else labels_of x n.
Proof.
  rewrite !labels_of_rows_of. unfold relabel. rewrite rows_of_map_rows, map_map. simpl.
  destruct (fam e x); [now rewrite map_map|]. reflexivity.
Qed.

(* renaming keeps integrity: the reference columns of kind k follow the labels of e *)
Lemma rename_RI_gen e rho (kd : kind) (k : kind -> bool) x n :
  (forall k0, k k0 = true <-> k0 = kd) -> fam e x = true ->
  (forall tn r c, In r (rows_of tn n) -> In c (r_cells r) -> c_kind c = kd -> In (c_val c) (labels_of x n)) ->
  (forall tn r c, In r (rows_of tn (rename e rho k n)) -> In c (r_cells r) -> c_kind c = kd ->
      In (c_val c) (labels_of x (rename e rho k n))).
Proof.
  intros Hk Hf H tn r' c' Hr Hc Hkd. unfold rename in *. rewrite labels_of_relabel, Hf.
  unfold relabel in Hr. rewrite rows_of_map_rows in Hr. apply in_map_iff in Hr. destruct Hr as [r [<- Hr]].
  simpl in Hc. apply in_map_iff in Hc. destruct Hc as [c [<- Hc]].
  destruct (k (c_kind c)) eqn:K.
  - simpl in *. apply in_map. apply Hk in K. eapply H; eauto.
  - exfalso. assert (k (c_kind c) = true) by (apply Hk; exact Hkd). congruence.
Qed.

Lemma rename_other_RI_gen e rho (kd : kind) (k : kind -> bool) x n :
  (forall k0, k k0 = true -> k0 <> kd) -> fam e x = false ->
  (forall tn r c, In r (rows_of tn n) -> In c (r_cells r) -> c_kind c = kd -> In (c_val c) (labels_of x n)) ->
  (forall tn r c, In r (rows_of tn (rename e rho k n)) -> In c (r_cells r) -> c_kind c = kd ->
      In (c_val c) (labels_of x (rename e rho k n))).
Proof.
  intros Hk Hf H tn r' c' Hr Hc Hkd. unfold rename in *. rewrite labels_of_relabel, Hf.
  unfold relabel in Hr. rewrite rows_of_map_rows in Hr. apply in_map_iff in Hr. destruct Hr as [r [<- Hr]].
  simpl in Hc. apply in_map_iff in Hc. destruct Hc as [c [<- Hc]].
  destruct (k (c_kind c)) eqn:K.
  - simpl in Hkd. exfalso. eapply Hk; eauto.
  - eapply H; eauto.
Qed.

Lemma kj_iff k0 : kind_is_kj k0 = true <-> k0 = KJ. Proof. destruct k0; simpl; split; congruence. Qed.
Lemma kp_iff k0 : kind_is_kp k0 = true <-> k0 = KP. Proof. destruct k0; simpl; split; congruence. Qed.

Lemma rename_junction_RI rho n : RI n -> RI (rename "junction" rho kind_is_kj n).
Proof.
  intros [HJ HP]. split.
  - unfold RI_J. apply (rename_RI_gen "junction" rho KJ kind_is_kj "junction");
      [apply kj_iff | reflexivity | exact HJ].
  - unfold RI_P. apply (rename_other_RI_gen "junction" rho KP kind_is_kj "pipe"); [| reflexivity | exact HP].
    intros k0 Hk0. apply kj_iff in Hk0. congruence.
Qed.

Lemma rename_pipe_RI rho n : RI n -> RI (rename "pipe" rho kind_is_kp n).
Proof.
  intros [HJ HP]. split.
  - unfold RI_J. apply (rename_other_RI_gen "pipe" rho KJ kind_is_kp "junction"); [| reflexivity | exact HJ].
    intros k0 Hk0. apply kp_iff in Hk0. congruence.
  - unfold RI_P. apply (rename_RI_gen "pipe" rho KP kind_is_kp "pipe");
      [apply kp_iff | reflexivity | exact HP].
Qed.

(* unique labels stay unique under an injective renaming *)
Lemma NoDup_map_inj {A B} (f : A -> B) l : (forall x y, In x l -> In y l -> f x = f y -> x = y) -> NoDup l -> NoDup (map f l).
Proof.
  induction l as [|a l IH]; intros Hinj Hnd; simpl; constructor.
  - inversion Hnd; subst. intros Hin. apply in_map_iff in Hin. destruct Hin as [y [E Hy]].
    assert (y = a) by (apply Hinj; simpl; auto). subst. contradiction.
  - inversion Hnd; subst. apply IH; auto. intros. apply Hinj; simpl; auto.
Qed.

Lemma rename_labels_nodup e rho k n :
  (forall x y, In x (labels_of e n) -> In y (labels_of e n) -> rho x = rho y -> x = y) ->
  NoDup (labels_of e n) -> NoDup (labels_of e (rename e rho k n)).
Proof.
  intros Hinj Hnd. unfold rename. rewrite labels_of_relabel.
  assert (F : fam e e = true) by (unfold fam; now rewrite String.eqb_refl).
  rewrite F. now apply NoDup_map_inj.
Qed.

(* ------------------------------------------------------------------ continuous index = renaming by rank *)
Local Open Scope Z_scope.
Lemma count_lt_mono a b l : a <= b -> count_lt a l <= count_lt b l.
Proof.
  intros H. unfold count_lt. apply Nat2Z.inj_le. induction l as [|x l IH]; simpl; auto.
  destruct (Z.ltb x a) eqn:E1; destruct (Z.ltb x b) eqn:E2; simpl; try lia.
  all: try (apply Z.ltb_lt in E1; apply Z.ltb_ge in E2; lia).
Qed.

Lemma count_lt_strict a b l : a < b -> In a l -> count_lt a l < count_lt b l.
Proof.
  intros H Hin. unfold count_lt. apply Nat2Z.inj_lt. induction l as [|x l IH]; simpl; [contradiction|].
  assert (M : (length (filter (fun y => Z.ltb y a) l) <= length (filter (fun y => Z.ltb y b) l))%nat).
  { pose proof (count_lt_mono a b l ltac:(lia)) as C. unfold count_lt in C. lia. }
  destruct Hin as [-> | Hin].
  - rewrite Z.ltb_irrefl. assert (E : Z.ltb a b = true) by (apply Z.ltb_lt; lia). rewrite E. simpl. lia.
  - specialize (IH Hin).
    destruct (Z.ltb x a) eqn:E1; destruct (Z.ltb x b) eqn:E2; simpl; try lia.
    all: try (apply Z.ltb_lt in E1; apply Z.ltb_ge in E2; lia).
Qed.

Lemma filter_length_le {A} (f : A -> bool) l : (length (filter f l) <= length l)%nat.
Proof. induction l as [|x l IH]; simpl; auto. destruct (f x); simpl; lia. Qed.

Lemma rank_injective labs start a b : In a labs -> In b labs -> rank_fn labs start a = rank_fn labs start b -> a = b.
Proof.
  intros Ha Hb E. unfold rank_fn in E.
  destruct (Z.lt_trichotomy a b) as [L | [L | L]]; auto.
  - pose proof (count_lt_strict a b labs L Ha). lia.
  - pose proof (count_lt_strict b a labs L Hb). lia.
Qed.

Lemma rank_range labs start a : start <= rank_fn labs start a <= start + Z.of_nat (length labs).
Proof.
  unfold rank_fn, count_lt. pose proof (filter_length_le (fun y => Z.ltb y a) labs). lia.
Qed.

Lemma rank_range_strict labs start a : In a labs -> rank_fn labs start a < start + Z.of_nat (length labs).
Proof.
  intros Hin. unfold rank_fn, count_lt.
  enough (length (filter (fun y => Z.ltb y a) labs) < length labs)%nat by lia.
  induction labs as [|x l IH]; [contradiction|]. simpl.
  pose proof (filter_length_le (fun y => Z.ltb y a) l).
  destruct Hin as [-> | Hin].
  - rewrite Z.ltb_irrefl. lia.
  - specialize (IH Hin). destruct (Z.ltb x a); simpl; lia.
Qed.

Lemma cont_elem_is_rename_junction cs start n : exact cs n ->
  cont_elem model_sem cs "junction" start n = rename "junction" (rank_fn (labels_of "junction" n) start) kind_is_kj n.
Proof.
  intros H. unfold cont_elem, rename. apply relabel_agree.
  intros t r c Ht Hr Hc. simpl. unfold on_cell. simpl. apply (H (t_name t) r c); auto. apply In_rows_of; eauto.
Qed.
